import Tbx.Proofs.LruL0
/-
History-level lemmas about the abstract recency list (L0): what `lookup` sees across operations
that do not write a key, and the invariant that the list is ordered by `lastUse`.
-/
namespace Tbx.LruL0
open Tbx.LruSpec

set_option linter.unusedSectionVars false
set_option linter.unusedSimpArgs false
variable {K V : Type} [DecidableEq K]

theorem get_snd_eq_lookup (s : Cache K V) (k : K) : (get s k).2 = lookup s k := by
  unfold get lookup; split <;> (rename_i h; simp [h])

theorem lookup_isSome_iff (s : Cache K V) (k : K) : (lookup s k).isSome = contains s k := by
  unfold lookup contains
  cases h : s.items.find? (fun p => p.1 == k) with
  | none =>
    simp only [Option.map_none, Option.isSome_none]
    rw [List.find?_eq_none] at h
    symm; rw [Bool.eq_false_iff]; intro hc
    rw [List.any_eq_true] at hc
    obtain ⟨x, hx, hxk⟩ := hc
    exact h x hx hxk
  | some p =>
    simp only [Option.map_some, Option.isSome_some]
    have := List.find?_some h
    have hm := List.mem_of_find?_eq_some h
    symm; rw [List.any_eq_true]; exact ⟨p, hm, this⟩

/-- `find?` for key `k` does not see the removal of another key -/
theorem find_remove_other (l : List (K × V)) (k k' : K) (h : k ≠ k') :
    (remove l k').find? (fun p => p.1 == k) = l.find? (fun p => p.1 == k) := by
  simp only [remove, List.find?_filter]
  congr 1; funext p
  by_cases hp : p.1 = k
  · have : ¬ p.1 = k' := fun e => h (hp ▸ e)
    simp [hp, this, h]
  · simp [hp]

theorem find_dropLast (l : List (K × V)) (k : K) (h : k ∈ l.dropLast.map (·.1)) :
    l.dropLast.find? (fun p => p.1 == k) = l.find? (fun p => p.1 == k) := by
  by_cases hl : l = []
  · subst hl; simp
  · conv => rhs; rw [← List.dropLast_concat_getLast hl]
    rw [List.find?_append]
    obtain ⟨p, hp, hpk⟩ := List.mem_map.1 h
    cases hf : l.dropLast.find? (fun p => p.1 == k) with
    | some q => simp
    | none =>
      rw [List.find?_eq_none] at hf
      exact absurd (by simp [hpk]) (hf p hp)

theorem lookup_push_same (s : Cache K V) (k : K) (v : V) : lookup (push s k v) k = some v := by
  unfold push lookup
  split
  · simp
  · split <;> simp

theorem lookup_push_other (s : Cache K V) (k k' : K) (v : V) (h : k' ≠ k)
    (hc : contains (push s k v) k' = true) : lookup (push s k v) k' = lookup s k' := by
  have hk : (k == k') = false := by simpa using (fun e => h e.symm)
  unfold push at hc ⊢
  unfold lookup
  split
  · simp only [List.find?, hk]
    rw [find_remove_other _ _ _ h]
  · split
    · rename_i h1 h2
      simp only [h1, h2, if_true, if_false, Bool.false_eq_true] at hc
      rw [contains_iff] at hc
      simp only [keys, List.map_cons, List.mem_cons] at hc
      have hm : k' ∈ s.items.dropLast.map (·.1) := by
        rcases hc with e | e
        · exact absurd e h
        · exact e
      simp only [List.find?, hk]
      rw [find_dropLast _ _ hm]
    · simp only [List.find?, hk]

theorem contains_push_other (s : Cache K V) (k k' : K) (v : V) (h : k' ≠ k)
    (hc : contains (push s k v) k' = true) : contains s k' = true := by
  rw [contains_iff] at hc ⊢
  unfold push at hc
  split at hc
  · simp only [keys, List.map_cons, List.mem_cons] at hc
    rcases hc with e | e
    · exact absurd e h
    · exact ((mem_keys_remove _ _ _).1 e).1
  · split at hc
    · simp only [keys, List.map_cons, List.mem_cons, List.map_dropLast] at hc
      rcases hc with e | e
      · exact absurd e h
      · exact List.dropLast_subset _ e
    · simp only [keys, List.map_cons, List.mem_cons] at hc
      rcases hc with e | e
      · exact absurd e h
      · exact e

theorem keys_get (s : Cache K V) (k : K) (hn : (keys s).Nodup) :
    keys (get s k).1 = if contains s k then k :: (keys s).filter (fun k' => !(k' == k)) else keys s := by
  unfold get
  split
  · rename_i p hf
    obtain ⟨hp, l1, l2, e1, e2⟩ := find_split s.items k p hn hf
    have hk : contains s k = true := by rw [contains_iff]; simp [keys, e1, hp]
    simp only [hk, if_true, keys, List.map_cons, hp, keys_remove]
  · rename_i hf
    have : contains s k = false := by
      rw [← lookup_isSome_iff]; simp [lookup, hf]
    simp [this]

/-- `get` (hit or miss) never changes what is stored under any key -/
theorem lookup_get (s : Cache K V) (k k' : K) : lookup (get s k).1 k' = lookup s k' := by
  unfold get
  split
  · rename_i p hf
    have hp : p.1 = k := by simpa using List.find?_some hf
    unfold lookup
    by_cases e : k' = k
    · subst e; simp [List.find?, hp, hf]
    · have : (p.1 == k') = false := by simp [hp]; exact fun e' => e e'.symm
      simp only [List.find?, this]
      rw [find_remove_other _ _ _ e]
  · rfl

theorem contains_get (s : Cache K V) (k k' : K) : contains (get s k).1 k' = contains s k' := by
  rw [← lookup_isSome_iff, ← lookup_isSome_iff, lookup_get]

theorem lookup_setFront_other (s : Cache K V) (v : V) (k : K)
    (h : (s.items.head?.map (·.1)) ≠ some k) : lookup (setFront s v).1 k = lookup s k := by
  unfold setFront
  split
  · rfl
  · rename_i k0 old rest e
    have hk : (k0 == k) = false := by
      simp only [e, List.head?_cons, Option.map_some, ne_eq, Option.some.injEq] at h
      simpa using h
    simp [lookup, e, List.find?, hk]

theorem lookup_setFront_front (s : Cache K V) (v : V) (k : K)
    (h : (s.items.head?.map (·.1)) = some k) : lookup (setFront s v).1 k = some v := by
  unfold setFront
  split
  · rename_i e; simp [e] at h
  · rename_i k0 old rest e
    simp only [e, List.head?_cons, Option.map_some, Option.some.injEq] at h
    simp [lookup, List.find?, h]

theorem keys_setFront (s : Cache K V) (v : V) : keys (setFront s v).1 = keys s := by
  unfold setFront; split
  · rfl
  · rename_i e; simp [keys, e]

/-- an operation that does not write `k` cannot make `k` appear -/
theorem contains_step_of_not_writes (s : Cache K V) (op : Op K V) (k : K) (hw : writes s op k = false)
    (hc : contains (step s op).1 k = true) : contains s k = true := by
  cases op with
  | push k' v =>
    have : k ≠ k' := by simp [writes] at hw; exact fun e => hw e.symm
    exact contains_push_other s k' k v this hc
  | get k' => simpa [step, contains_get] using hc
  | contains k' => exact hc
  | front => exact hc
  | setFront v =>
    rw [contains_iff] at hc ⊢
    simpa [step, keys_setFront] using hc
  | clear => simp [writes] at hw
  | len => exact hc

/-- an operation that does not write `k` leaves the value stored under `k` alone (if `k` survives) -/
theorem lookup_step_of_not_writes (s : Cache K V) (op : Op K V) (k : K) (hw : writes s op k = false)
    (hc : contains (step s op).1 k = true) : lookup (step s op).1 k = lookup s k := by
  cases op with
  | push k' v =>
    have : k ≠ k' := by simp [writes] at hw; exact fun e => hw e.symm
    exact lookup_push_other s k' k v this hc
  | get k' => simp [step, lookup_get]
  | contains k' => rfl
  | front => rfl
  | setFront v =>
    apply lookup_setFront_other
    simpa [writes] using hw
  | clear => simp [writes] at hw
  | len => rfl

theorem contains_run_of_undisturbed (s : Cache K V) (ops : List (Op K V)) (k : K)
    (hu : Undisturbed s ops k) (hc : contains (run s ops) k = true) : contains s k = true := by
  induction ops generalizing s with
  | nil => exact hc
  | cons op ops ih =>
    rw [run_cons] at hc
    obtain ⟨h1, h2⟩ := hu
    exact contains_step_of_not_writes s op k h1 (ih _ h2 hc)

theorem lookup_run_of_undisturbed (s : Cache K V) (ops : List (Op K V)) (k : K)
    (hu : Undisturbed s ops k) (hc : contains (run s ops) k = true) : lookup (run s ops) k = lookup s k := by
  induction ops generalizing s with
  | nil => rfl
  | cons op ops ih =>
    rw [run_cons] at hc ⊢
    obtain ⟨h1, h2⟩ := hu
    rw [ih _ h2 hc]
    exact lookup_step_of_not_writes s op k h1 (contains_run_of_undisturbed _ ops k h2 hc)

/-! ### recency: the list is ordered by `lastUse` of the history that produced it -/

/-- every cached key has been used, and towards the back the last uses get strictly older -/
structure Rec (ops : List (Op K V)) (s : Cache K V) : Prop where
  used : ∀ k ∈ keys s, ∃ t, lastUse ops k = some t
  ordered : (keys s).Pairwise (fun a b => UsedBefore ops b a)

theorem usedBefore_snoc_of_not_use (ops : List (Op K V)) (op : Op K V) (a b : K)
    (ha : isUse op a = false) (hb : isUse op b = false) (h : UsedBefore ops a b) :
    UsedBefore (ops ++ [op]) a b := by
  obtain ⟨ta, tb, h1, h2, h3⟩ := h
  exact ⟨ta, tb, by rw [lastUse_snoc, ha]; simpa using h1, by rw [lastUse_snoc, hb]; simpa using h2, h3⟩

theorem usedBefore_snoc_of_use (ops : List (Op K V)) (op : Op K V) (a b : K)
    (ha : isUse op a = false) (hb : isUse op b = true) (h : ∃ t, lastUse ops a = some t) :
    UsedBefore (ops ++ [op]) a b := by
  obtain ⟨ta, h1⟩ := h
  exact ⟨ta, ops.length, by rw [lastUse_snoc, ha]; simpa using h1, by rw [lastUse_snoc, hb]; simp,
    lastUse_lt ops a ta h1⟩

/-- an operation that uses no cached key and leaves the keys alone -/
theorem rec_step_same (ops : List (Op K V)) (op : Op K V) (s s' : Cache K V) (h : Rec ops s)
    (hk : keys s' = keys s) (hu : ∀ k ∈ keys s, isUse op k = false) : Rec (ops ++ [op]) s' := by
  constructor
  · intro k hk'; rw [hk] at hk'
    obtain ⟨t, ht⟩ := h.used k hk'
    exact ⟨t, by rw [lastUse_snoc, hu k hk']; simpa using ht⟩
  · rw [hk]
    exact h.ordered.imp_of_mem (fun ha hb hab => usedBefore_snoc_of_not_use ops op _ _ (hu _ hb) (hu _ ha) hab)

/-- an operation that uses `k` only and moves it to the front of a sublist of the other keys -/
theorem rec_step_front (ops : List (Op K V)) (op : Op K V) (s s' : Cache K V) (k : K) (rest : List K)
    (h : Rec ops s) (hk : keys s' = k :: rest) (hsub : rest.Sublist (keys s)) (hnk : k ∉ rest)
    (huk : isUse op k = true) (hu : ∀ k', k' ≠ k → isUse op k' = false) : Rec (ops ++ [op]) s' := by
  have hne : ∀ k' ∈ rest, k' ≠ k := fun k' hm e => hnk (e ▸ hm)
  constructor
  · intro k' hk'
    rw [hk, List.mem_cons] at hk'
    rcases hk' with e | e
    · subst e; exact ⟨ops.length, by rw [lastUse_snoc, huk]; simp⟩
    · obtain ⟨t, ht⟩ := h.used k' (hsub.subset e)
      exact ⟨t, by rw [lastUse_snoc, hu k' (hne k' e)]; simpa using ht⟩
  · rw [hk, List.pairwise_cons]
    constructor
    · intro b hb
      exact usedBefore_snoc_of_use ops op b k (hu b (hne b hb)) huk (h.used b (hsub.subset hb))
    · exact (h.ordered.sublist hsub).imp_of_mem
        (fun ha hb hab => usedBefore_snoc_of_not_use ops op _ _ (hu _ (hne _ hb)) (hu _ (hne _ ha)) hab)

theorem isUse_push (k k' : K) (v : V) : isUse (Op.push k v : Op K V) k' = (k == k') := rfl
theorem isUse_get (k k' : K) : isUse (Op.get k : Op K V) k' = (k == k') := rfl

theorem rec_step (ops : List (Op K V)) (op : Op K V) (s : Cache K V) (hi : Inv s) (h : Rec ops s) :
    Rec (ops ++ [op]) (step s op).1 := by
  cases op with
  | push k v =>
    have huk : isUse (Op.push k v : Op K V) k = true := by simp [isUse_push]
    have hu : ∀ k', k' ≠ k → isUse (Op.push k v : Op K V) k' = false := by
      intro k' hk'; simp [isUse_push]; exact fun e => hk' e.symm
    simp only [step]
    unfold push
    split
    · apply rec_step_front ops _ s _ k ((keys s).filter (fun k' => !(k' == k))) h
        (by simp [keys, keys_remove]) (List.filter_sublist) (by simp) huk hu
    · rename_i hc
      have hk' : k ∉ keys s := by rw [← contains_iff]; exact hc
      split
      · apply rec_step_front ops _ s _ k (keys s).dropLast h
          (by simp [keys, List.map_dropLast]) (List.dropLast_sublist _)
          (fun hm => hk' (List.dropLast_subset _ hm)) huk hu
      · apply rec_step_front ops _ s _ k (keys s) h (by simp [keys]) (List.Sublist.refl _) hk' huk hu
  | get k =>
    have huk : isUse (Op.get k : Op K V) k = true := by simp [isUse_get]
    have hu : ∀ k', k' ≠ k → isUse (Op.get k : Op K V) k' = false := by
      intro k' hk'; simp [isUse_get]; exact fun e => hk' e.symm
    simp only [step]
    by_cases hc : contains s k = true
    · apply rec_step_front ops _ s _ k ((keys s).filter (fun k' => !(k' == k))) h
        (by rw [keys_get s k hi.nodup, hc]; simp) (List.filter_sublist) (by simp) huk hu
    · have hc' : contains s k = false := by simpa using hc
      apply rec_step_same ops _ s _ h (by rw [keys_get s k hi.nodup, hc']; simp)
      intro k' hk'
      apply hu
      intro e; subst e
      rw [← contains_iff] at hk'; exact hc hk'
  | contains k => exact rec_step_same ops _ s _ h rfl (fun _ _ => rfl)
  | front => exact rec_step_same ops _ s _ h rfl (fun _ _ => rfl)
  | setFront v => exact rec_step_same ops _ s _ h (keys_setFront s v) (fun _ _ => rfl)
  | clear => exact ⟨by simp [step, clear, keys], by simp [step, clear, keys]⟩
  | len => exact rec_step_same ops _ s _ h rfl (fun _ _ => rfl)

theorem rec_run (cap : Nat) (hc : 1 ≤ cap) (ops : List (Op K V)) :
    Rec ops (run (init cap : Cache K V) ops) := by
  induction ops using snoc_induction with
  | nil => exact ⟨by simp [run, init, keys], by simp [run, init, keys]⟩
  | snoc ops op ih =>
    rw [run_snoc]
    exact rec_step ops op _ (inv_run _ ops (by simpa [init] using hc) (inv_init cap)) ih

end Tbx.LruL0
