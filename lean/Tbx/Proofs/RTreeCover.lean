import Tbx.Proofs.RTreeLevels
import Tbx.Proofs.RTreeIter
/-
C12: the tree `bulkLoad` builds has a cover function (`IsCover`) whose value at the root is the whole
sorted element list.  Proved as an invariant of the level loop: the covers of the nodes of the current top
level, concatenated, are the element list.  Core Lean only.
-/
namespace Tbx.RTree

theorem flatMap_congr' {β γ : Type} {l : List β} {f g : β → List γ} (h : ∀ x ∈ l, f x = g x) :
    l.flatMap f = l.flatMap g := by
  induction l with
  | nil => rfl
  | cons a l ih =>
    rw [List.flatMap_cons, List.flatMap_cons, h a (List.mem_cons_self ..),
      ih (fun x hx => h x (List.mem_cons_of_mem _ hx))]

/-- regrouping a concatenation over `[0, w)` into chunks of `B` -/
theorem flatMap_chunks {β : Type} {B : Nat} (hB : 0 < B) (f : Nat → List β) (w : Nat) :
    (List.range (ceilDiv w B)).flatMap (fun j =>
      (List.range (min (B * (j + 1)) w - B * j)).flatMap fun m => f (B * j + m)) = (List.range w).flatMap f := by
  have key : ∀ c, c ≤ ceilDiv w B →
      (List.range c).flatMap (fun j =>
        (List.range (min (B * (j + 1)) w - B * j)).flatMap fun m => f (B * j + m)) =
      (List.range (min (B * c) w)).flatMap f := by
    intro c
    induction c with
    | zero => intro _; simp
    | succ c ih =>
      intro hc
      have hlt : B * c < w := (lt_ceilDiv_iff hB w c).mp (by omega)
      rw [List.range_succ, List.flatMap_append, ih (by omega), List.flatMap_singleton]
      have h1 : min (B * c) w = B * c := by omega
      have h2 : min (B * (c + 1)) w = B * c + (min (B * (c + 1)) w - B * c) := by
        rw [Nat.mul_succ]; omega
      rw [h1]
      conv => rhs; rw [h2, List.range_add, List.flatMap_append, List.flatMap_map]
  have := key (ceilDiv w B) (Nat.le_refl _)
  rw [this]
  have : min (B * ceilDiv w B) w = w := by have := le_mul_ceilDiv hB w; omega
  rw [this]

theorem flatMap_getD_range {β : Type} (l : List (List β)) :
    (List.range l.length).flatMap (fun m => l[m]?.getD []) = l.flatten := by
  induction l with
  | nil => rfl
  | cons a l ih =>
    rw [List.length_cons, range_succ_flatMap]
    simp only [List.getElem?_cons_zero, Option.getD_some, List.getElem?_cons_succ, List.flatten_cons]
    rw [ih]

theorem childrenCount_append {B : Nat} {ends : List Nat} {c e : Nat} (x : Nat) (he : e ∈ ends) (hc : c < e) :
    childrenCount B (ends ++ [x]) c = childrenCount B ends c := by
  unfold childrenCount
  rw [List.find?_append]
  cases hf : ends.find? (fun e => decide (c < e)) with
  | none =>
    have := List.find?_eq_none.mp hf e he
    simp at this
    omega
  | some v => simp

section
variable {α : Type}

/-- invariant of the level loop for the cover function -/
structure CoverInv (B : Nat) (leaves : List (List α)) (start end_ : Nat) (nodes : List SNode) (ends : List Nat)
    (cov : Nat → List α) : Prop where
  cover : IsCover B ⟨leaves, nodes, ends⟩ cov
  lt_end : ∀ (i : Nat) (nd : SNode), nodes[i]? = some nd → nd.kind ≠ 0 → nd.first < end_
  top : (List.range (end_ - start)).flatMap (fun i => cov (start + i)) = leaves.flatten
  pos : start < end_ ∨ end_ = 0

theorem coverInv_init {B : Nat} (hB : 0 < B) (leaves : List (List α)) :
    CoverInv B leaves 0 (ceilDiv leaves.length B) (level0 B (ceilDiv leaves.length B)) [ceilDiv leaves.length B]
      (fun i => leafRange ⟨leaves, [], []⟩ (B * i) (min (B * i + B) leaves.length - B * i)) := by
  have hget : ∀ (i : Nat) (nd : SNode), (level0 B (ceilDiv leaves.length B))[i]? = some nd →
      i < ceilDiv leaves.length B ∧ nd = ⟨0, B * i⟩ := by
    intro i nd h
    simp only [level0, List.getElem?_map] at h
    rcases Nat.lt_or_ge i (ceilDiv leaves.length B) with hi | hi
    · rw [List.getElem?_range hi] at h
      simp at h
      exact ⟨hi, h.symm⟩
    · rw [List.getElem?_eq_none (by simpa using hi)] at h
      cases h
  refine ⟨⟨?_, ?_⟩, ?_, ?_, ?_⟩
  · intro i nd h
    obtain ⟨_, rfl⟩ := hget i nd h
    simp [coverE, leafRange]
  · intro i nd h hk
    obtain ⟨_, rfl⟩ := hget i nd h
    exact absurd rfl hk
  · intro i nd h hk
    obtain ⟨_, rfl⟩ := hget i nd h
    exact absurd rfl hk
  · simp only [Nat.sub_zero, Nat.zero_add, leafRange]
    have := flatMap_chunks hB (fun m => leaves[m]?.getD []) leaves.length
    rw [flatMap_getD_range] at this
    rw [← this]
    apply flatMap_congr'
    intro j _
    rw [Nat.mul_succ]
  · rcases Nat.eq_zero_or_pos (ceilDiv leaves.length B) with h | h
    · exact Or.inr h
    · exact Or.inl h

theorem coverInv_step {B nl start end_ : Nat} {leaves : List (List α)} {nodes : List SNode} {ends : List Nat}
    {cov : Nat → List α} (hB : 0 < B) (h : LevelsInv B nl start end_ nodes ends)
    (hc : CoverInv B leaves start end_ nodes ends cov) (hlt : start + 1 < end_) :
    ∃ cov', CoverInv B leaves end_ (end_ + ceilDiv (end_ - start) B)
      (nodes ++ levelNodes B start (ceilDiv (end_ - start) B)) (ends ++ [end_ + ceilDiv (end_ - start) B]) cov' := by
  have hstep := levelsInv_step h hlt
  -- the new arrays as `Levels`, to use `childrenCount_levels` for the new nodes
  obtain ⟨K, hK⟩ : ∃ K, ends.length = K + 1 := ⟨ends.length - 1, by have := h.nonempty; omega⟩
  have hlen : (ends ++ [end_ + ceilDiv (end_ - start) B]).length = K + 2 := by simp [hK]
  have hL' : Levels B nl (nodes ++ levelNodes B start (ceilDiv (end_ - start) B))
      (ends ++ [end_ + ceilDiv (end_ - start) B]) :=
    ⟨hstep.nonempty, hstep.lvl0, hstep.step, hstep.mono, by rw [hstep.size, hstep.cur_end], hstep.groups, hstep.inner⟩
  have hce : lend ends K = end_ := by have := h.cur_end; rwa [hK] at this
  have hcs : lstart ends K = start := by have := h.cur_start; rwa [hK] at this
  have hsK : lstart (ends ++ [end_ + ceilDiv (end_ - start) B]) K = start := by
    rw [lstart_append_le _ _ _ (by omega)]; exact hcs
  have heK : lend (ends ++ [end_ + ceilDiv (end_ - start) B]) K = end_ := by
    rw [lend_append_lt _ _ _ (by omega)]; exact hce
  have hwK : lwidth (ends ++ [end_ + ceilDiv (end_ - start) B]) K = end_ - start := by
    unfold lwidth; rw [hsK, heK]
  have hwK1 : lwidth (ends ++ [end_ + ceilDiv (end_ - start) B]) (K + 1) = ceilDiv (end_ - start) B := by
    rw [hL'.width_succ K (by omega), hwK]
  have hcc : ∀ j, j < ceilDiv (end_ - start) B →
      childrenCount B (ends ++ [end_ + ceilDiv (end_ - start) B]) (start + B * j) =
        min (B * (j + 1)) (end_ - start) - B * j ∧
      start + B * j + childrenCount B (ends ++ [end_ + ceilDiv (end_ - start) B]) (start + B * j) ≤ end_ := by
    intro j hj
    have := childrenCount_levels hB hL' K (by omega) j (by rw [hwK1]; exact hj)
    rw [hsK, hwK, heK] at this
    exact this
  have hendmem : end_ ∈ ends := by
    rw [← hce, lend_eq_getElem ends K (by omega)]
    exact List.getElem_mem _
  -- the new cover function
  let ends' := ends ++ [end_ + ceilDiv (end_ - start) B]
  let cov' : Nat → List α := fun i =>
    if i < end_ then cov i
    else (List.range (childrenCount B ends' (start + B * (i - end_)))).flatMap fun m => cov (start + B * (i - end_) + m)
  have hcov_old : ∀ i, i < end_ → cov' i = cov i := by intro i hi; simp only [cov', hi, if_true]
  refine ⟨cov', ⟨⟨?_, ?_⟩, ?_, ?_, ?_⟩⟩
  · -- expansion equations
    intro i nd hnd
    rcases Nat.lt_or_ge i nodes.length with hi | hi
    · -- an old node
      rw [List.getElem?_append_left hi] at hnd
      have hie : i < end_ := by rw [← h.size]; exact hi
      rw [hcov_old i hie, hc.cover.eq i nd hnd]
      by_cases hk : nd.kind = 0
      · simp [coverE, hk, leafRange]
      · have hb := hc.cover.bound i nd hnd hk
        have hcs' := childrenCount_append (B := B) (end_ + ceilDiv (end_ - start) B) hendmem (hc.lt_end i nd hnd hk)
        simp only [coverE, hk, if_false]
        show _ = (List.range (childrenCount B ends' nd.first)).flatMap fun i => cov' (nd.first + i)
        rw [hcs']
        apply flatMap_congr'
        intro m hm
        have : nd.first + m < end_ := by
          have := List.mem_range.mp hm
          have hb' : nd.first + childrenCount B ends nd.first ≤ i := hb
          omega
        rw [hcov_old _ this]
    · -- a new node
      rw [List.getElem?_append_right hi, h.size] at hnd
      have hi' : end_ ≤ i := by rw [← h.size]; exact hi
      have hj : i - end_ < ceilDiv (end_ - start) B := by
        rcases Nat.lt_or_ge (i - end_) (ceilDiv (end_ - start) B) with hh | hh
        · exact hh
        · rw [List.getElem?_eq_none (by rw [levelNodes_length]; exact hh)] at hnd; cases hnd
      rw [levelNodes_get B start _ _ hj] at hnd
      simp only [Option.some.injEq] at hnd
      subst hnd
      have hnot : ¬ i < end_ := by omega
      simp only [cov', hnot, if_false, coverE]
      show _ = (List.range (childrenCount B ends' (start + B * (i - end_)))).flatMap fun m =>
        (if start + B * (i - end_) + m < end_ then cov (start + B * (i - end_) + m) else _)
      apply flatMap_congr'
      intro m hm
      have := (hcc (i - end_) hj).2
      have hm' := List.mem_range.mp hm
      have hlt' : start + B * (i - end_) + m < end_ := by
        show start + B * (i - end_) + m < end_
        have : childrenCount B ends' (start + B * (i - end_)) =
            childrenCount B (ends ++ [end_ + ceilDiv (end_ - start) B]) (start + B * (i - end_)) := rfl
        omega
      simp only [hlt', if_true]
  · -- children exist
    intro i nd hnd hk
    rcases Nat.lt_or_ge i nodes.length with hi | hi
    · rw [List.getElem?_append_left hi] at hnd
      have hb : nd.first + childrenCount B ends nd.first ≤ i := hc.cover.bound i nd hnd hk
      have hcs' := childrenCount_append (B := B) (end_ + ceilDiv (end_ - start) B) hendmem (hc.lt_end i nd hnd hk)
      show nd.first + childrenCount B (ends ++ [end_ + ceilDiv (end_ - start) B]) nd.first ≤ _
      rw [hcs']
      exact hb
    · rw [List.getElem?_append_right hi, h.size] at hnd
      have hj : i - end_ < ceilDiv (end_ - start) B := by
        rcases Nat.lt_or_ge (i - end_) (ceilDiv (end_ - start) B) with hh | hh
        · exact hh
        · rw [List.getElem?_eq_none (by rw [levelNodes_length]; exact hh)] at hnd; cases hnd
      rw [levelNodes_get B start _ _ hj] at hnd
      simp only [Option.some.injEq] at hnd
      subst hnd
      have := (hcc (i - end_) hj).2
      have hi' : end_ ≤ i := by rw [← h.size]; exact hi
      show start + B * (i - end_) + childrenCount B (ends ++ [end_ + ceilDiv (end_ - start) B]) (start + B * (i - end_)) ≤ _
      omega
  · -- first children lie below the new top level's start
    intro i nd hnd hk
    rcases Nat.lt_or_ge i nodes.length with hi | hi
    · rw [List.getElem?_append_left hi] at hnd
      have := hc.lt_end i nd hnd hk
      omega
    · rw [List.getElem?_append_right hi, h.size] at hnd
      have hj : i - end_ < ceilDiv (end_ - start) B := by
        rcases Nat.lt_or_ge (i - end_) (ceilDiv (end_ - start) B) with hh | hh
        · exact hh
        · rw [List.getElem?_eq_none (by rw [levelNodes_length]; exact hh)] at hnd; cases hnd
      rw [levelNodes_get B start _ _ hj] at hnd
      simp only [Option.some.injEq] at hnd
      subst hnd
      have := (lt_ceilDiv_iff hB _ _).mp hj
      show start + B * (i - end_) < _
      omega
  · -- the new top level covers the same elements
    have hw : end_ + ceilDiv (end_ - start) B - end_ = ceilDiv (end_ - start) B := by omega
    rw [hw, ← hc.top, ← flatMap_chunks hB (fun i => cov (start + i)) (end_ - start)]
    apply flatMap_congr'
    intro j hj
    have hj' := List.mem_range.mp hj
    have hnot : ¬ end_ + j < end_ := by omega
    have hsub : end_ + j - end_ = j := by omega
    simp only [cov', hnot, if_false, hsub]
    show (List.range (childrenCount B (ends ++ [end_ + ceilDiv (end_ - start) B]) (start + B * j))).flatMap _ = _
    rw [(hcc j hj').1]
    apply flatMap_congr'
    intro m _
    rw [Nat.add_assoc]
  · have := ceilDiv_pos hB (show 0 < end_ - start by omega)
    exact Or.inl (by omega)

/-- the level loop ends with a cover function whose root value is the concatenation of all leaves -/
theorem buildLevels_cover {B nl : Nat} (hB : 2 ≤ B) (leaves : List (List α)) :
    ∀ (fuel start end_ : Nat) (nodes : List SNode) (ends : List Nat) (cov : Nat → List α),
      LevelsInv B nl start end_ nodes ends → CoverInv B leaves start end_ nodes ends cov →
      end_ - start ≤ fuel + 1 →
      ∃ nodes' ends' cov', buildLevels B fuel start end_ nodes ends = some (nodes', ends') ∧
        IsCover B ⟨leaves, nodes', ends'⟩ cov' ∧ rootCover ⟨leaves, nodes', ends'⟩ cov' = leaves.flatten := by
  intro fuel
  induction fuel with
  | zero =>
    intro start end_ nodes ends cov h hc hw
    have hnot : ¬ (start + 1 < end_) := by omega
    refine ⟨nodes, ends, cov, by simp [buildLevels, hnot], hc.cover, ?_⟩
    have htop := hc.top
    rcases hc.pos with hp | hp
    · have he : end_ = start + 1 := by omega
      have hl : nodes.length = start + 1 := by rw [h.size, he]
      have h1 : end_ - start = 1 := by omega
      rw [h1] at htop
      simp only [rootCover, hl]
      simpa using htop
    · have hl : nodes.length = 0 := by rw [h.size, hp]
      have h0 : end_ - start = 0 := by omega
      rw [h0] at htop
      simp only [rootCover, hl]
      simpa using htop
  | succ fuel ih =>
    intro start end_ nodes ends cov h hc hw
    by_cases hlt : start + 1 < end_
    · obtain ⟨cov1, hc1⟩ := coverInv_step (by omega) h hc hlt
      have hdec : ceilDiv (end_ - start) B < end_ - start := ceilDiv_lt hB (by omega)
      obtain ⟨n', e', c', heq, hcov, hroot⟩ := ih end_ _ _ _ cov1 (levelsInv_step h hlt) hc1 (by omega)
      exact ⟨n', e', c', by simp only [buildLevels, hlt, if_true]; exact heq, hcov, hroot⟩
    · refine ⟨nodes, ends, cov, by simp [buildLevels, hlt], hc.cover, ?_⟩
      have htop := hc.top
      rcases hc.pos with hp | hp
      · have he : end_ = start + 1 := by omega
        have hl : nodes.length = start + 1 := by rw [h.size, he]
        have h1 : end_ - start = 1 := by omega
        rw [h1] at htop
        simp only [rootCover, hl]
        simpa using htop
      · have hl : nodes.length = 0 := by rw [h.size, hp]
        have h0 : end_ - start = 0 := by omega
        rw [h0] at htop
        simp only [rootCover, hl]
        simpa using htop

/-- `from_elements` (after the sort) succeeds for every element list, and below the root of the tree it
builds lie exactly the given elements, in order -/
theorem bulkLoad_cover {B L : Nat} (hB : 2 ≤ B) (hL : 1 ≤ L) (es : List α) :
    ∃ t cov, bulkLoad B L es = some t ∧ t.leaves = leavesOf L es ∧ IsCover B t cov ∧ rootCover t cov = es := by
  have hcond : ¬ (B = 0 ∨ L = 0) := by omega
  have hnl : (leavesOf L es).length = ceilDiv es.length L := leaves_length L es
  have hci := coverInv_init (B := B) (by omega) (leavesOf L es)
  rw [hnl] at hci
  obtain ⟨nodes', ends', cov', heq, hcov, hroot⟩ :=
    buildLevels_cover (nl := ceilDiv es.length L) hB (leavesOf L es) (ceilDiv (ceilDiv es.length L) B) 0
      (ceilDiv (ceilDiv es.length L) B) _ _ _ (levelsInv_init B _ _ rfl) hci (by omega)
  refine ⟨⟨leavesOf L es, nodes', ends'⟩, cov', ?_, rfl, hcov, ?_⟩
  · simp only [bulkLoad, bulkShape, hcond, if_false, heq, Option.map_some]
  · rw [hroot]; exact leaves_flatten (by omega) es

end
end Tbx.RTree
