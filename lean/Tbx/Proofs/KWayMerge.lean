import Tbx.Spec.MergeTree
import Tbx.Proofs.Sorting
/-
The k-way merge iterator over ANY tree satisfying `TreeSpec` yields the sorted multiset union of
sorted runs.  Proof: view the iterator state through `P : List (List Int)`, where `P[i]` is what
run i still contributes (its entry in the tree, if any, followed by the rest of its iterator);
`next` removes the head of one `P[i]`, and that head is minimal among everything pending.
-/
namespace Tbx.KWay
open Tbx.Sorting

/-- what a run still contributes: its live entry followed by the unread rest -/
def pend (o : Option Int) (l : List Int) : List Int :=
  match o with
  | some x => x :: l
  | none => l

theorem getD_set {α : Type} (l : List α) (i j : Nat) (a d : α) :
    (l.set i a).getD j d = if i = j ∧ i < l.length then a else l.getD j d := by
  simp only [List.getD_eq_getElem?_getD, List.getElem?_set]
  by_cases h : i = j
  · subst h
    by_cases h2 : i < l.length
    · simp [h2]
    · simp [h2]
  · simp [h]

theorem getD_mem {α : Type} (l : List α) (i : Nat) (d : α) (h : i < l.length) : l.getD i d ∈ l := by
  rw [List.getD_eq_getElem?_getD, List.getElem?_eq_getElem h]; simp

theorem mem_exists_getD {α : Type} (l : List α) (a d : α) (h : a ∈ l) : ∃ i, i < l.length ∧ l.getD i d = a := by
  obtain ⟨i, hi, rfl⟩ := List.mem_iff_getElem.mp h
  exact ⟨i, hi, by rw [List.getD_eq_getElem?_getD, List.getElem?_eq_getElem hi]; simp⟩

theorem flatten_set_perm (P : List (List Int)) (i : Nat) (x : Int) (rest : List Int)
    (hi : i < P.length) (h : P.getD i [] = x :: rest) :
    P.flatten.Perm (x :: (P.set i rest).flatten) := by
  induction P generalizing i with
  | nil => simp at hi
  | cons l L ih =>
    cases i with
    | zero =>
      simp only [List.getD_cons_zero] at h
      subst h
      simp
    | succ i =>
      simp only [List.getD_cons_succ] at h
      simp only [List.length_cons, Nat.add_lt_add_iff_right] at hi
      simp only [List.set_cons_succ, List.flatten_cons]
      exact (List.Perm.append_left l (ih i hi h)).trans List.perm_middle

theorem flatten_set_length (P : List (List Int)) (i : Nat) (x : Int) (rest : List Int)
    (hi : i < P.length) (h : P.getD i [] = x :: rest) :
    P.flatten.length = (P.set i rest).flatten.length + 1 := by
  have := (flatten_set_perm P i x rest hi h).length_eq
  simpa using this

variable {σ : Type} {T : MTree σ} {cap : Nat}

/-- the iterator state `it`, seen through `P` -/
structure Rel (S : TreeSpec T cap) (it : Iter σ) (P : List (List Int)) : Prop where
  ok : S.ok it.heap
  len : P.length = it.list.length
  lecap : P.length ≤ cap
  pend : ∀ i, i < P.length → P.getD i [] = pend (S.slot it.heap i) (it.list.getD i [])
  dry : ∀ i, i < P.length → S.slot it.heap i = none → it.list.getD i [] = []
  out : ∀ i, P.length ≤ i → S.slot it.heap i = none

/-- one call of `next`: it never panics; `None` only if nothing is pending; otherwise it yields the
    head of some `P[i]`, minimal among everything pending, and the state corresponds to `P` without it -/
theorem next_spec (S : TreeSpec T cap) (it : Iter σ) (P : List (List Int)) (hR : Rel S it P)
    (hs : ∀ l ∈ P, Sorted l) :
    ∃ r it', next T it = some (r, it') ∧
      match r with
      | none => P.flatten = []
      | some x => ∃ i rest, i < P.length ∧ P.getD i [] = x :: rest ∧ (∀ y ∈ P.flatten, x ≤ y) ∧
                    Rel S it' (P.set i rest) := by
  obtain ⟨r, s', hpop, hok', hr⟩ := S.pop_ok it.heap hR.ok
  cases r with
  | none =>
    obtain ⟨hall, hall'⟩ := hr
    refine ⟨none, { it with heap := s' }, by simp [next, hpop], ?_⟩
    show P.flatten = []
    rw [List.flatten_eq_nil_iff]
    intro l hl
    obtain ⟨i, hi, rfl⟩ := mem_exists_getD P l [] hl
    rw [hR.pend i hi, hall i, hR.dry i hi (hall i)]
    rfl
  | some e =>
    obtain ⟨hlive, hmin, hslots⟩ := hr
    have hidx : e.index < P.length := by
      apply Nat.lt_of_not_le
      intro hge
      rw [hR.out _ hge] at hlive
      cases hlive
    have hPe : P.getD e.index [] = e.item :: it.list.getD e.index [] := by
      rw [hR.pend _ hidx, hlive]; rfl
    have hminP : ∀ y ∈ P.flatten, e.item ≤ y := by
      intro y hy
      obtain ⟨l, hl, hyl⟩ := List.mem_flatten.mp hy
      obtain ⟨j, hj, rfl⟩ := mem_exists_getD P l [] hl
      have hsj : Sorted (P.getD j []) := hs _ hl
      rw [hR.pend j hj] at hyl hsj
      cases hslot : S.slot it.heap j with
      | none =>
        rw [hslot, hR.dry j hj hslot] at hyl
        cases hyl
      | some z =>
        rw [hslot] at hyl hsj
        have hez := hmin j z hslot
        rcases List.mem_cons.mp hyl with rfl | hyl
        · exact hez
        · exact Int.le_trans hez ((sorted_cons.mp hsj).1 y hyl)
    have hil : e.index < it.list.length := by rw [← hR.len]; exact hidx
    cases hrest : it.list.getD e.index [] with
    | nil =>
      refine ⟨some e.item, { it with heap := s' }, by simp only [next, hpop, if_pos hil, hrest], ?_⟩
      refine ⟨e.index, [], hidx, by rw [hPe, hrest], hminP, ?_⟩
      refine ⟨hok', by simp [hR.len], by simp [hR.lecap], ?_, ?_, ?_⟩
      · intro i hi
        simp only [List.length_set] at hi
        show (P.set e.index []).getD i [] = pend (S.slot s' i) (it.list.getD i [])
        rw [getD_set, hslots i]
        by_cases hie : i = e.index
        · subst hie; rw [if_pos ⟨rfl, hidx⟩, if_pos rfl, hrest]; rfl
        · have : ¬ (e.index = i) := fun h => hie h.symm
          simp only [this, false_and, if_false, if_neg hie]
          exact hR.pend i hi
      · intro i hi hnone
        simp only [List.length_set] at hi
        show it.list.getD i [] = []
        by_cases hie : i = e.index
        · subst hie; exact hrest
        · have h2 : S.slot s' i = none := hnone
          rw [hslots i, if_neg hie] at h2
          exact hR.dry i hi h2
      · intro i hi
        simp only [List.length_set] at hi
        show S.slot s' i = none
        rw [hslots i]
        by_cases hie : i = e.index
        · simp [hie]
        · rw [if_neg hie]; exact hR.out i hi
    | cons x r =>
      have hfree : S.slot s' (⟨x, e.index⟩ : Entry).index = none := by
        show S.slot s' e.index = none
        rw [hslots]; simp
      obtain ⟨s'', hpush, hok'', hslots''⟩ :=
        S.push_ok s' ⟨x, e.index⟩ hok' (Nat.lt_of_lt_of_le hidx hR.lecap) hfree
      have hslots2 : ∀ j, S.slot s'' j = if j = e.index then some x else S.slot s' j := hslots''
      refine ⟨some e.item, { heap := s'', list := it.list.set e.index r },
        by simp only [next, hpop, if_pos hil, hrest, hpush], ?_⟩
      refine ⟨e.index, x :: r, hidx, by rw [hPe, hrest], hminP, ?_⟩
      refine ⟨hok'', by simp [hR.len], by simp [hR.lecap], ?_, ?_, ?_⟩
      · intro i hi
        simp only [List.length_set] at hi
        show (P.set e.index (x :: r)).getD i [] = pend (S.slot s'' i) ((it.list.set e.index r).getD i [])
        rw [getD_set, getD_set, hslots2 i, hslots i]
        by_cases hie : i = e.index
        · subst hie; simp only [hidx, hil, and_self, if_true]; rfl
        · have : ¬ (e.index = i) := fun h => hie h.symm
          simp only [this, false_and, if_false, if_neg hie]
          exact hR.pend i hi
      · intro i hi hnone
        simp only [List.length_set] at hi
        have h2 : S.slot s'' i = none := hnone
        show (it.list.set e.index r).getD i [] = []
        rw [hslots2 i] at h2
        by_cases hie : i = e.index
        · rw [if_pos hie] at h2; cases h2
        · rw [if_neg hie, hslots i, if_neg hie] at h2
          have : ¬ (e.index = i) := fun h => hie h.symm
          rw [getD_set]
          simp only [this, false_and, if_false]
          exact hR.dry i hi h2
      · intro i hi
        simp only [List.length_set] at hi
        show S.slot s'' i = none
        have hie : ¬ (i = e.index) := by omega
        rw [hslots2 i, if_neg hie, hslots i, if_neg hie]
        exact hR.out i hi

/-- `collect` with enough fuel terminates normally with the sorted merge of everything pending -/
theorem collect_spec (S : TreeSpec T cap) (fuel : Nat) (it : Iter σ) (P : List (List Int)) (acc : List Int)
    (hR : Rel S it P) (hs : ∀ l ∈ P, Sorted l) (hf : P.flatten.length + 1 ≤ fuel)
    (hacc : Sorted acc) (hle : ∀ a ∈ acc, ∀ y ∈ P.flatten, a ≤ y) :
    ∃ out, collect T fuel it acc = .done out ∧ Sorted out ∧ out.Perm (acc ++ P.flatten) := by
  induction fuel generalizing it P acc with
  | zero => omega
  | succ fuel ih =>
    obtain ⟨r, it', hnext, hr⟩ := next_spec S it P hR hs
    cases r with
    | none =>
      have hr' : P.flatten = [] := hr
      refine ⟨acc, by simp [collect, hnext], hacc, ?_⟩
      rw [hr']; simp
    | some x =>
      obtain ⟨i, rest, hi, hPi, hmin, hR'⟩ := hr
      have hperm := flatten_set_perm P i x rest hi hPi
      have hlen := flatten_set_length P i x rest hi hPi
      have hxmem : x ∈ P.flatten := hperm.symm.subset List.mem_cons_self
      have hsub : ∀ y ∈ (P.set i rest).flatten, y ∈ P.flatten :=
        fun y hy => hperm.symm.subset (List.mem_cons_of_mem _ hy)
      have hs' : ∀ l ∈ P.set i rest, Sorted l := by
        intro l hl
        obtain ⟨j, hj, rfl⟩ := mem_exists_getD _ l [] hl
        rw [getD_set]
        split
        · have : Sorted (P.getD i []) := hs _ (getD_mem P i [] hi)
          rw [hPi] at this
          exact (sorted_cons.mp this).2
        · simp only [List.length_set] at hj
          exact hs _ (getD_mem P j [] hj)
      have hacc' : Sorted (acc ++ [x]) := by
        unfold Sorted
        rw [List.pairwise_append]
        refine ⟨hacc, by simp, ?_⟩
        intro a ha b hb
        simp only [List.mem_singleton] at hb
        subst hb
        exact hle a ha b hxmem
      have hle' : ∀ a ∈ acc ++ [x], ∀ y ∈ (P.set i rest).flatten, a ≤ y := by
        intro a ha y hy
        rcases List.mem_append.mp ha with ha | ha
        · exact hle a ha y (hsub y hy)
        · simp only [List.mem_singleton] at ha
          subst ha
          exact hmin y (hsub y hy)
      obtain ⟨out, hc, hso, hpo⟩ := ih it' (P.set i rest) (acc ++ [x]) hR' hs' (by omega) hacc' hle'
      refine ⟨out, by simp [collect, hnext, hc], hso, hpo.trans ?_⟩
      rw [List.append_assoc]
      exact List.Perm.append_left acc hperm.symm

/-- the loop of `new` pushes the head of every non-empty run -/
theorem newLoop_spec (S : TreeSpec T cap) (rest : List (List Int)) (i : Nat) (h : σ) (hok : S.ok h)
    (hcap : i + rest.length ≤ cap) (hfree : ∀ j, i ≤ j → S.slot h j = none) :
    ∃ h' ls, newLoop T i rest h = some (h', ls) ∧ S.ok h' ∧ ls.length = rest.length ∧
      (∀ j, j < i → S.slot h' j = S.slot h j) ∧
      (∀ j, i + rest.length ≤ j → S.slot h' j = none) ∧
      (∀ m, m < rest.length → rest.getD m [] = pend (S.slot h' (i + m)) (ls.getD m []) ∧
        (S.slot h' (i + m) = none → ls.getD m [] = [])) := by
  induction rest generalizing i h with
  | nil =>
    refine ⟨h, [], rfl, hok, rfl, fun _ _ => rfl, fun j hj => hfree j (by simpa using hj), ?_⟩
    intro m hm; simp at hm
  | cons run rs ih =>
    simp only [List.length_cons] at hcap
    cases run with
    | nil =>
      obtain ⟨h', ls, hl, hok', hlen, hlow, hhigh, hmid⟩ :=
        ih (i + 1) h hok (by omega) (fun j hj => hfree j (by omega))
      refine ⟨h', [] :: ls, by simp [newLoop, hl], hok', by simp [hlen], ?_, ?_, ?_⟩
      · intro j hj; exact hlow j (by omega)
      · intro j hj; simp only [List.length_cons] at hj; exact hhigh j (by omega)
      · intro m hm
        cases m with
        | zero =>
          have : S.slot h' i = none := by rw [hlow i (by omega)]; exact hfree i (Nat.le_refl _)
          simp [this, pend]
        | succ m =>
          simp only [List.length_cons, Nat.add_lt_add_iff_right] at hm
          have := hmid m hm
          have he : i + 1 + m = i + (m + 1) := by omega
          rw [he] at this
          simpa using this
    | cons x r =>
      obtain ⟨h1, hpush, hok1, hslot1⟩ :=
        S.push_ok h ⟨x, i⟩ hok (by show i < cap; omega) (hfree i (Nat.le_refl _))
      have hslot1' : ∀ j, S.slot h1 j = if j = i then some x else S.slot h j := hslot1
      obtain ⟨h', ls, hl, hok', hlen, hlow, hhigh, hmid⟩ :=
        ih (i + 1) h1 hok1 (by omega) (fun j hj => by
          rw [hslot1' j, if_neg (by omega)]; exact hfree j (by omega))
      refine ⟨h', r :: ls, by simp [newLoop, hpush, hl], hok', by simp [hlen], ?_, ?_, ?_⟩
      · intro j hj
        rw [hlow j (by omega), hslot1' j, if_neg (by omega)]
      · intro j hj; simp only [List.length_cons] at hj; exact hhigh j (by omega)
      · intro m hm
        cases m with
        | zero =>
          have : S.slot h' i = some x := by rw [hlow i (by omega), hslot1' i]; simp
          simp [this, pend]
        | succ m =>
          simp only [List.length_cons, Nat.add_lt_add_iff_right] at hm
          have := hmid m hm
          have he : i + 1 + m = i + (m + 1) := by omega
          rw [he] at this
          simpa using this

/-- merging sorted runs through any tree that satisfies `TreeSpec` (with at least as many slots as
    runs, starting empty) terminates without panic within the fuel and yields the sorted multiset union -/
theorem merge_spec (S : TreeSpec T cap) (runs : List (List Int)) (s0 : σ)
    (h0 : S.ok s0) (hempty : ∀ j, S.slot s0 j = none) (hk : runs.length ≤ cap)
    (hs : ∀ r ∈ runs, Sorted r) :
    ∃ out, merge T runs s0 = .done out ∧ Sorted out ∧ out.Perm runs.flatten := by
  obtain ⟨h', ls, hl, hok', hlen, _, hhigh, hmid⟩ :=
    newLoop_spec S runs 0 s0 h0 (by omega) (fun j _ => hempty j)
  have hR : Rel S ⟨h', ls⟩ runs := by
    refine ⟨hok', hlen.symm, hk, ?_, ?_, ?_⟩
    · intro i hi; have := (hmid i hi).1; simpa using this
    · intro i hi; have := (hmid i hi).2; simpa using this
    · intro i hi; exact hhigh i (by omega)
  obtain ⟨out, hc, hso, hpo⟩ :=
    collect_spec S (runs.flatten.length + 1) ⟨h', ls⟩ runs [] hR hs (Nat.le_refl _)
      (by simp [Sorted]) (by intro a ha; cases ha)
  refine ⟨out, by simp only [merge, new, hl, hc], hso, by simpa using hpo⟩

end Tbx.KWay
