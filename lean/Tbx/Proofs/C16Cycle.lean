import Tbx.Model.CycleCheck
import Tbx.Proofs.C16Arr
import Tbx.Spec.Components
/-
`cycle_check` (`Model/CycleCheck.lean`): whenever it returns, the answer is `true` iff the graph
has a directed cycle.

The explicit stack is read as a list of frames, deepest first: frame `(x, seg)` = the grey node
`x` whose copy on the stack is being explored, followed by the still unexplored entries `seg`
that `x` pushed.  `fin` is the ghost list of nodes that have been blackened, most recent first;
every successor of a finished node finished earlier (`Topo`), which excludes cycles.
A lower copy of a node pushed twice may sit in a segment while the node is grey (because a
higher copy is being explored) or already black (it is then greyed and scanned a second time,
finds only black successors, and is blackened again): the frame conditions allow both.
Core Lean only.
-/
namespace Tbx.CycleCheck
open Tbx Tbx.Csr Tbx.Comp

/-- the edge relation of the CSR graph -/
abbrev E (g : Graph) (u v : Nat) : Prop := (u, v) ∈ edgesOf g

theorem mem_succs (g : Graph) (u v : Nat) :
    v ∈ succs g u ↔ ∃ e, beginEdges g u ≤ e ∧ e < beginEdges g u + outDegree g u ∧ target g e = v := by
  simp only [succs, List.mem_map, List.mem_range'_1]
  constructor
  · rintro ⟨e, ⟨h1, h2⟩, h3⟩; exact ⟨e, h1, h2, h3⟩
  · rintro ⟨e, h1, h2, h3⟩; exact ⟨e, ⟨h1, h2⟩, h3⟩

theorem mem_edgesOf (g : Graph) (u v : Nat) : E g u v ↔ u < numNodes g ∧ v ∈ succs g u := by
  simp only [E, edgesOf, List.mem_flatMap, List.mem_range, List.mem_map, Prod.mk.injEq]
  constructor
  · rintro ⟨a, ha, b, hb, rfl, rfl⟩; exact ⟨ha, hb⟩
  · rintro ⟨h1, h2⟩; exact ⟨u, h1, v, h2, rfl, rfl⟩

instance : DecidableEq Color := inferInstance

/-- the targets the scan loop looks at -/
def scanTargets (g : Graph) (e k : Nat) : List Nat := (List.range' e k).map (target g)

theorem scan_spec (g : Graph) (colors : Array Color) :
    ∀ (k e : Nat) (stack : Array Nat),
      (scan g colors k e stack = .found → ∃ t, t ∈ scanTargets g e k ∧ gt colors t = .grey) ∧
      (∀ stack', scan g colors k e stack = .cont stack' →
        (∀ t, t ∈ scanTargets g e k → gt colors t ≠ .grey) ∧
        stack'.toList = stack.toList ++ (scanTargets g e k).filter (fun t => gt colors t = .white)) := by
  intro k
  induction k with
  | zero =>
    intro e stack
    simp [scan, scanTargets]
  | succ k ih =>
    intro e stack
    have hts : scanTargets g e (k + 1) = target g e :: scanTargets g (e + 1) k := by
      simp [scanTargets, List.range'_succ]
    simp only [scan]
    split
    · simp
    · cases hc : gt colors (target g e) with
      | white =>
        simp only
        obtain ⟨h1, h2⟩ := ih (e + 1) (stack.push (target g e))
        constructor
        · intro h
          obtain ⟨t, ht, hg⟩ := h1 h
          exact ⟨t, by rw [hts]; exact List.mem_cons_of_mem _ ht, hg⟩
        · intro stack' h
          obtain ⟨h3, h4⟩ := h2 stack' h
          constructor
          · intro t ht
            rw [hts] at ht
            rcases List.mem_cons.mp ht with rfl | ht
            · rw [hc]; intro hh; cases hh
            · exact h3 t ht
          · rw [h4, hts, Array.toList_push, List.filter_cons]
            simp [hc]
      | grey =>
        simp only
        constructor
        · intro _; exact ⟨target g e, by rw [hts]; exact List.mem_cons_self, hc⟩
        · intro stack' h; cases h
      | black =>
        simp only
        obtain ⟨h1, h2⟩ := ih (e + 1) stack
        constructor
        · intro h
          obtain ⟨t, ht, hg⟩ := h1 h
          exact ⟨t, by rw [hts]; exact List.mem_cons_of_mem _ ht, hg⟩
        · intro stack' h
          obtain ⟨h3, h4⟩ := h2 stack' h
          constructor
          · intro t ht
            rw [hts] at ht
            rcases List.mem_cons.mp ht with rfl | ht
            · rw [hc]; intro hh; cases hh
            · exact h3 t ht
          · rw [h4, hts, List.filter_cons]
            simp [hc]

/-- the scanned targets of `node` are exactly its successors -/
theorem mem_scanTargets (g : Graph) (node v : Nat) (hn : node < numNodes g) :
    v ∈ scanTargets g (beginEdges g node) (endEdges g node - beginEdges g node) ↔ E g node v := by
  rw [mem_edgesOf, mem_succs]
  simp only [scanTargets, List.mem_map, List.mem_range'_1, outDegree]
  constructor
  · rintro ⟨e, ⟨h1, h2⟩, h3⟩; exact ⟨hn, e, h1, h2, h3⟩
  · rintro ⟨_, e, h1, h2, h3⟩; exact ⟨e, ⟨h1, h2⟩, h3⟩

theorem toList_eq_pop_append (a : Array Nat) (h : a.size ≠ 0) : a.toList = a.pop.toList ++ [gt a (a.size - 1)] := by
  have hne : a.toList ≠ [] := by
    intro hh
    have := congrArg List.length hh
    simp only [Array.length_toList, List.length_nil] at this
    exact h this
  rw [Array.toList_pop]
  have h1 := List.dropLast_concat_getLast hne
  have h2 : a.toList.getLast hne = gt a (a.size - 1) := by
    rw [List.getLast_eq_getElem hne]
    simp only [gt, Array.getD_eq_getD_getElem?]
    have hlt : a.size - 1 < a.size := by omega
    rw [Array.getElem?_eq_getElem hlt]
    simp
  rw [h2] at h1
  exact h1.symm

/-! ### frames -/

abbrev Frame := Nat × List Nat

/-- the stack (bottom first) that a list of frames (deepest first) stands for -/
def flat : List Frame → List Nat
  | [] => []
  | f :: fs => flat fs ++ f.1 :: f.2

def greys (fs : List Frame) : List Nat := fs.map (·.1)

/-- `deeper` = the grey nodes of the frames above (nearest first) -/
def FramesOK (g : Graph) (colors : Array Color) (fin : List Nat) : List Nat → List Frame → Prop
  | _, [] => True
  | deeper, f :: fs =>
    (∀ c, c ∈ f.2 → E g f.1 c) ∧
    (∀ c, c ∈ f.2 → gt colors c = .grey → c ∈ deeper) ∧
    (∀ v, E g f.1 v → v ∈ fin ∨ v ∈ f.2 ∨ deeper.head? = some v) ∧
    (∀ c, deeper.head? = some c → E g f.1 c) ∧
    FramesOK g colors fin (f.1 :: deeper) fs

theorem head?_append_ne_nil {α : Type} (l : List α) (x : α) (h : l ≠ []) : (l ++ [x]).head? = l.head? := by
  cases l with
  | nil => exact absurd rfl h
  | cons a as => rfl

/-- a node `t` that was not grey turns grey and becomes the deepest frame -/
theorem framesOK_activate (g : Graph) (colors : Array Color) (fin : List Nat) (t : Nat) :
    ∀ (fs : List Frame) (deeper : List Nat), deeper ≠ [] → FramesOK g colors fin deeper fs →
      FramesOK g (st colors t .grey) fin (deeper ++ [t]) fs := by
  intro fs
  induction fs with
  | nil => intro _ _ _; trivial
  | cons f fs ih =>
    intro deeper hne h
    obtain ⟨h1, h2, h3, h4, h5⟩ := h
    refine ⟨h1, ?_, ?_, ?_, ?_⟩
    · intro c hc hg
      rw [gt_st] at hg
      split at hg
      · rename_i heq; rw [← heq.1]; simp
      · exact List.mem_append_left _ (h2 c hc hg)
    · rw [head?_append_ne_nil _ _ hne]; exact h3
    · rw [head?_append_ne_nil _ _ hne]; exact h4
    · have := ih (f.1 :: deeper) (by simp) h5
      simpa using this

/-- the deepest grey node `x` turns black and is (now) finished -/
theorem framesOK_pop (g : Graph) (colors : Array Color) (fin fin' : List Nat) (x : Nat)
    (hfin : ∀ v, v ∈ fin → v ∈ fin') (hx : x ∈ fin') :
    ∀ (fs : List Frame) (deeper : List Nat), FramesOK g colors fin (deeper ++ [x]) fs →
      FramesOK g (st colors x .black) fin' deeper fs := by
  intro fs
  induction fs with
  | nil => intro _ _; trivial
  | cons f fs ih =>
    intro deeper h
    obtain ⟨h1, h2, h3, h4, h5⟩ := h
    refine ⟨h1, ?_, ?_, ?_, ?_⟩
    · intro c hc hg
      rw [gt_st] at hg
      split at hg
      · cases hg
      · rename_i hne
        rcases List.mem_append.mp (h2 c hc hg) with h | h
        · exact h
        · simp only [List.mem_singleton] at h
          subst h
          -- c = x is grey in the old colouring, so x < size; then the update hits it
          have : c < colors.size := by
            apply Decidable.byContradiction
            intro hh
            rw [gt_of_ge _ _ (by omega)] at hg
            cases hg
          exact absurd ⟨rfl, this⟩ hne
    · intro v hv
      rcases h3 v hv with h | h | h
      · exact Or.inl (hfin v h)
      · exact Or.inr (Or.inl h)
      · cases deeper with
        | nil =>
          simp only [List.nil_append, List.head?_cons, Option.some.injEq] at h
          subst h
          exact Or.inl hx
        | cons d ds => exact Or.inr (Or.inr (by simpa using h))
    · intro c hc
      apply h4
      cases deeper with
      | nil => simp at hc
      | cons d ds => simpa using hc
    · have := ih (f.1 :: deeper) (by simpa using h5)
      exact this

/-- every grey node of the frames reaches the frame right above them -/
theorem framesOK_chain (g : Graph) (colors : Array Color) (fin : List Nat) :
    ∀ (fs : List Frame) (deeper : List Nat) (d : Nat), deeper.head? = some d → FramesOK g colors fin deeper fs →
      ∀ y, y ∈ greys fs → Reach (edgesOf g) y d := by
  intro fs
  induction fs with
  | nil => intro _ _ _ _ y hy; simp [greys] at hy
  | cons f fs ih =>
    intro deeper d hd h y hy
    obtain ⟨_, _, _, h4, h5⟩ := h
    have hfd : E g f.1 d := h4 d hd
    simp only [greys, List.map_cons, List.mem_cons] at hy
    rcases hy with rfl | hy
    · exact Reach.single hfd
    · exact (ih (f.1 :: deeper) f.1 rfl h5 y hy).trans (Reach.single hfd)

/-! ### finished nodes -/

inductive Topo (g : Graph) : List Nat → Prop where
  | nil : Topo g []
  | cons {u : Nat} {fin : List Nat} : Topo g fin → (∀ v, E g u v → v ∈ fin) → Topo g (u :: fin)

theorem Topo.closed {g : Graph} {fin : List Nat} (h : Topo g fin) : ∀ a b, a ∈ fin → E g a b → b ∈ fin := by
  induction h with
  | nil => intro a b ha; cases ha
  | cons _ hu ih =>
    intro a b ha hab
    rcases List.mem_cons.mp ha with rfl | ha
    · exact List.mem_cons_of_mem _ (hu b hab)
    · exact List.mem_cons_of_mem _ (ih a b ha hab)

theorem Topo.reach_closed {g : Graph} {fin : List Nat} (h : Topo g fin) {a b : Nat} (ha : a ∈ fin)
    (hr : Reach (edgesOf g) a b) : b ∈ fin := by
  induction hr with
  | refl => exact ha
  | tail _ he ih => exact h.closed _ _ ih he

/-- no edge out of a finished node lies on a cycle -/
theorem Topo.no_cycle {g : Graph} {fin : List Nat} (h : Topo g fin) :
    ∀ u v, u ∈ fin → E g u v → ¬ Reach (edgesOf g) v u := by
  induction h with
  | nil => intro u v hu; cases hu
  | @cons x fin ht hx ih =>
    intro u v hu huv hr
    have hvfin : v ∈ fin := by
      rcases List.mem_cons.mp hu with rfl | hu
      · exact hx v huv
      · exact ht.closed u v hu huv
    have hufin : u ∈ fin := ht.reach_closed hvfin hr
    exact ih u v hufin huv hr

/-! ### the loop invariant -/

theorem flat_ne_nil : ∀ (fs : List Frame), fs ≠ [] → flat fs ≠ []
  | [], h => absurd rfl h
  | f :: fs, _ => by simp [flat]

structure CInv (g : Graph) (colors : Array Color) (stack : Array Nat) (fin base : List Nat) (fs : List Frame) : Prop where
  csz : colors.size = numNodes g
  flat_eq : stack.toList = base ++ flat fs
  base_nil : fs ≠ [] → base = []
  base_len : base.length ≤ 1
  frames : FramesOK g colors fin [] fs
  grey_iff : ∀ x, gt colors x = .grey ↔ x ∈ greys fs
  nodup : (greys fs).Nodup
  black_fin : ∀ x, gt colors x = .black → x ∈ fin
  topo : Topo g fin
  fin_nw : ∀ x, x ∈ fin → gt colors x ≠ .white

/-- what the run of the `while` loop guarantees -/
abbrev Post (g : Graph) (colors : Array Color) (stack : Array Nat) (res : Res) : Prop :=
  (res = .found → HasCycle (edgesOf g)) ∧
  (∀ colors', res = .done colors' →
    ∃ fin', colors'.size = numNodes g ∧ (∀ x, gt colors' x ≠ .grey) ∧ (∀ x, gt colors' x = .black → x ∈ fin') ∧
      Topo g fin' ∧ (∀ x, gt colors x ≠ .white → gt colors' x ≠ .white) ∧
      (∀ x, x ∈ stack.toList → gt colors' x ≠ .white) ∧ (∀ x, x ∈ fin' → gt colors' x ≠ .white))

theorem gt_st_color (colors : Array Color) (t y : Nat) (c : Color) (ht : t < colors.size) :
    gt (st colors t c) y = if y = t then c else gt colors y := by
  rw [gt_st]
  by_cases h : y = t
  · subst h; simp [ht]
  · have : ¬ (t = y ∧ t < colors.size) := fun hh => h hh.1.symm
    simp [this, h]

/-- the white successors of `t`, in edge order: what the scan pushes -/
def pushedOf (g : Graph) (colors : Array Color) (t : Nat) : List Nat :=
  (scanTargets g (beginEdges g t) (endEdges g t - beginEdges g t)).filter (fun v => gt (st colors t .grey) v = .white)

/-- greying the top entry `t` and scanning its edges: either a cycle, or the invariant with the new frame -/
theorem activate_step (g : Graph) (colors : Array Color) (stack : Array Nat) (fin : List Nat) (ctx : List Frame)
    (t : Nat) (htn : t < numNodes g) (hcsz : colors.size = numNodes g) (hng : gt colors t ≠ .grey)
    (hstack : stack.toList = flat ctx ++ [t])
    (hctx : FramesOK g (st colors t .grey) fin [t] ctx)
    (hreach : ∀ y, y ∈ greys ctx → Reach (edgesOf g) y t)
    (hgrey : ∀ x, gt colors x = .grey ↔ x ∈ greys ctx) (hnd : (greys ctx).Nodup)
    (hbf : ∀ x, gt colors x = .black → x ∈ fin) (htopo : Topo g fin)
    (hfnw : ∀ x, x ∈ fin → gt colors x ≠ .white) :
    (scan g (st colors t .grey) (endEdges g t - beginEdges g t) (beginEdges g t) stack = .found → HasCycle (edgesOf g)) ∧
    (∀ stack', scan g (st colors t .grey) (endEdges g t - beginEdges g t) (beginEdges g t) stack = .cont stack' →
      stack'.toList = stack.toList ++ pushedOf g colors t ∧
        CInv g (st colors t .grey) stack' fin [] ((t, pushedOf g colors t) :: ctx)) := by
  have htc : t < colors.size := by omega
  obtain ⟨h1, h2⟩ := scan_spec g (st colors t .grey) (endEdges g t - beginEdges g t) (beginEdges g t) stack
  constructor
  · intro hf
    obtain ⟨T, hT, hg⟩ := h1 hf
    have hE : E g t T := (mem_scanTargets g t T htn).mp hT
    rw [gt_st_color _ _ _ _ htc] at hg
    split at hg
    · rename_i he; subst he
      exact ⟨T, T, hE, .refl _⟩
    · exact ⟨t, T, hE, hreach T ((hgrey T).mp hg)⟩
  · intro stack' hc
    obtain ⟨h3, h4⟩ := h2 stack' hc
    refine ⟨h4, ?_⟩
    show CInv g (st colors t .grey) stack' fin [] ((t, (scanTargets g (beginEdges g t) (endEdges g t - beginEdges g t)).filter
      (fun v => gt (st colors t .grey) v = .white)) :: ctx)
    constructor
    · rw [size_st]; exact hcsz
    · rw [h4, hstack]; simp [flat]
    · intro _; rfl
    · simp
    · refine ⟨?_, ?_, ?_, ?_, hctx⟩
      · intro c hc
        simp only [List.mem_filter] at hc
        exact (mem_scanTargets g t c htn).mp hc.1
      · intro c hc hg
        simp only [List.mem_filter, decide_eq_true_eq] at hc
        rw [hc.2] at hg; cases hg
      · intro v hv
        have hvT := (mem_scanTargets g t v htn).mpr hv
        have hng := h3 v hvT
        cases hcol : gt (st colors t .grey) v with
        | white =>
          right; left
          simp only [List.mem_filter, decide_eq_true_eq]
          exact ⟨hvT, hcol⟩
        | grey => exact absurd hcol hng
        | black =>
          left
          rw [gt_st_color _ _ _ _ htc] at hcol
          split at hcol
          · cases hcol
          · exact hbf v hcol
      · intro c hc; simp at hc
    · intro x
      rw [gt_st_color _ _ _ _ htc]
      simp only [greys, List.map_cons, List.mem_cons]
      by_cases hx : x = t
      · simp [hx]
      · simp only [hx, if_false, false_or]
        exact hgrey x
    · simp only [greys, List.map_cons]
      exact List.nodup_cons.mpr ⟨fun hh => hng ((hgrey t).mpr hh), hnd⟩
    · intro x hx
      rw [gt_st_color _ _ _ _ htc] at hx
      split at hx
      · cases hx
      · exact hbf x hx
    · exact htopo
    · intro x hx
      rw [gt_st_color _ _ _ _ htc]
      split
      · intro h; cases h
      · exact hfnw x hx

/-- number of pending (not yet explored) entries in the frames -/
def segLen (fs : List Frame) : Nat := (fs.map (fun f => f.2.length)).sum

/-- the context below a non-grey top entry -/
theorem context_of_top (g : Graph) (colors : Array Color) (stack : Array Nat) (fin base : List Nat) (fs : List Frame)
    (hinv : CInv g colors stack fin base fs) (top : Nat) (htc : top < colors.size)
    (hsplit : stack.toList = stack.pop.toList ++ [top]) (hng : gt colors top ≠ .grey) :
    ∃ ctx, stack.toList = flat ctx ++ [top] ∧ greys ctx = greys fs ∧
      FramesOK g (st colors top .grey) fin [top] ctx ∧ (∀ y, y ∈ greys ctx → Reach (edgesOf g) y top) ∧
      base.length + segLen fs = segLen ctx + 1 ∧ ctx.length = fs.length := by
  cases hfs : fs with
  | nil =>
    have hbl : base.length = 1 := by
      have h1 := hinv.flat_eq
      rw [hfs] at h1
      simp only [flat, List.append_nil] at h1
      have h2 := hinv.base_len
      have h3 := congrArg List.length h1
      rw [hsplit] at h3
      simp at h3
      omega
    refine ⟨[], ?_, rfl, trivial, fun y hy => by simp [greys] at hy, by simp [segLen, hbl], rfl⟩
    have h1 := hinv.flat_eq
    rw [hfs] at h1
    simp only [flat, List.append_nil] at h1
    have h2 := hinv.base_len
    rw [hsplit] at h1
    cases hb : base with
    | nil => rw [hb] at h1; simp at h1
    | cons b bs =>
      rw [hb] at h1 h2
      have : bs = [] := by
        cases bs with
        | nil => rfl
        | cons _ _ => simp at h2
      subst this
      have h1' : stack.pop.toList ++ [top] = [] ++ [b] := by rw [h1]; rfl
      have h3 := List.append_inj' h1' rfl
      simp only [flat, List.nil_append]
      rw [hsplit, h3.1]
      rfl
  | cons fr fs' =>
    obtain ⟨x, seg⟩ := fr
    have hb : base = [] := hinv.base_nil (by rw [hfs]; simp)
    have h1 := hinv.flat_eq
    rw [hfs, hb, hsplit] at h1
    simp only [flat, List.nil_append] at h1
    have hfr := hinv.frames
    rw [hfs] at hfr
    obtain ⟨f1, f2, f3, _, f5⟩ := hfr
    simp only at f1 f2 f3 f5
    rcases List.eq_nil_or_concat seg with hseg | ⟨seg', b, hseg⟩
    · -- then the top entry is x itself, which is grey
      subst hseg
      have h1' : stack.pop.toList ++ [top] = flat fs' ++ [x] := h1
      have h3 := List.append_inj' h1' rfl
      have : top = x := by simpa using h3.2
      subst this
      exact absurd ((hinv.grey_iff top).mpr (by rw [hfs]; simp [greys])) hng
    · rw [List.concat_eq_append] at hseg
      subst hseg
      have h1' : stack.pop.toList ++ [top] = (flat fs' ++ x :: seg') ++ [b] := by
        rw [h1]; simp
      have h3 := List.append_inj' h1' rfl
      have hb' : top = b := by simpa using h3.2
      subst hb'
      have hxt : E g x top := f1 _ (List.mem_append_right _ (by simp))
      refine ⟨(x, seg') :: fs', ?_, by simp [greys], ?_, ?_, by rw [hb]; simp [segLen]; omega, by simp⟩
      · rw [hsplit, h3.1]; simp [flat]
      · refine ⟨?_, ?_, ?_, ?_, ?_⟩
        · intro c hc; exact f1 c (List.mem_append_left _ hc)
        · intro c hc hg
          rw [gt_st_color _ _ _ _ htc] at hg
          split at hg
          · rename_i he; simp [he]
          · exact absurd (f2 c (List.mem_append_left _ hc) hg) (by simp)
        · intro v hv
          rcases f3 v hv with h | h | h
          · exact Or.inl h
          · rcases List.mem_append.mp h with h | h
            · exact Or.inr (Or.inl h)
            · right; right; simp only [List.mem_singleton] at h; simp [h]
          · simp at h
        · intro c hc
          simp only [List.head?_cons, Option.some.injEq] at hc
          subst hc
          exact hxt
        · have := framesOK_activate g colors fin top fs' [x] (by simp) f5
          simpa using this
      · intro y hy
        simp only [greys, List.map_cons, List.mem_cons] at hy
        rcases hy with rfl | hy
        · exact Reach.single hxt
        · exact (framesOK_chain g colors fin fs' [x] x rfl f5 y hy).trans (Reach.single hxt)

/-- a grey top entry is the deepest frame with nothing pending; blackening and popping it keeps the invariant -/
theorem pop_step (g : Graph) (colors : Array Color) (stack : Array Nat) (fin base : List Nat) (fs : List Frame)
    (hinv : CInv g colors stack fin base fs) (top : Nat) (htc : top < colors.size)
    (hsplit : stack.toList = stack.pop.toList ++ [top]) (hg' : gt colors top = .grey) :
    ∃ fs' fin', fs = (top, []) :: fs' ∧ base = [] ∧ (∀ v, v ∈ fin → v ∈ fin') ∧ top ∈ fin' ∧
      (∀ v, v ∈ fin' → v ∈ fin ∨ v = top) ∧ CInv g (st colors top .black) stack.pop fin' [] fs' := by
  have hmem := (hinv.grey_iff top).mp hg'
  cases hfs : fs with
  | nil => rw [hfs] at hmem; simp [greys] at hmem
  | cons fr fs' =>
    obtain ⟨x, seg⟩ := fr
    have hb : base = [] := hinv.base_nil (by rw [hfs]; simp)
    have h1 := hinv.flat_eq
    rw [hfs, hb, hsplit] at h1
    simp only [flat, List.nil_append] at h1
    have hfr := hinv.frames
    rw [hfs] at hfr
    obtain ⟨_, f2, f3, _, f5⟩ := hfr
    simp only at f2 f3 f5
    have hseg : seg = [] := by
      rcases List.eq_nil_or_concat seg with hseg | ⟨seg', b, hseg⟩
      · exact hseg
      · rw [List.concat_eq_append] at hseg
        subst hseg
        have h1' : stack.pop.toList ++ [top] = (flat fs' ++ x :: seg') ++ [b] := by
          rw [h1]; simp
        have h3 := List.append_inj' h1' rfl
        have hb' : top = b := by simpa using h3.2
        subst hb'
        exact absurd (f2 top (List.mem_append_right _ (by simp)) hg') (by simp)
    subst hseg
    have h1' : stack.pop.toList ++ [top] = flat fs' ++ [x] := h1
    have h3 := List.append_inj' h1' rfl
    have hx : top = x := by simpa using h3.2
    subst hx
    have hnd := hinv.nodup
    rw [hfs] at hnd
    simp only [greys, List.map_cons, List.nodup_cons] at hnd
    have hsucc : ∀ v, E g top v → v ∈ fin := by
      intro v hv
      rcases f3 v hv with h | h | h
      · exact h
      · cases h
      · simp at h
    -- the new list of finished nodes
    have hfin' : ∃ fin', (∀ v, v ∈ fin → v ∈ fin') ∧ top ∈ fin' ∧ (∀ v, v ∈ fin' → v ∈ fin ∨ v = top) ∧ Topo g fin' := by
      by_cases hin : top ∈ fin
      · exact ⟨fin, fun _ h => h, hin, fun _ h => Or.inl h, hinv.topo⟩
      · refine ⟨top :: fin, fun _ h => List.mem_cons_of_mem _ h, List.mem_cons_self, ?_, .cons hinv.topo hsucc⟩
        intro v hv
        rcases List.mem_cons.mp hv with h | h
        · exact Or.inr h
        · exact Or.inl h
    obtain ⟨fin', hsub, htin, hsup, htopo'⟩ := hfin'
    refine ⟨fs', fin', rfl, hb, hsub, htin, hsup, ?_⟩
    constructor
    · rw [size_st]; exact hinv.csz
    · rw [h3.1]; rfl
    · intro _; rfl
    · simp
    · exact framesOK_pop g colors fin fin' top hsub htin fs' [] (by simpa using f5)
    · intro y
      rw [gt_st_color _ _ _ _ htc]
      have hy := hinv.grey_iff y
      rw [hfs] at hy
      simp only [greys, List.map_cons, List.mem_cons] at hy
      split
      · rename_i he; subst he
        constructor
        · intro h; cases h
        · intro h; exact absurd h hnd.1
      · rename_i hne'
        rw [hy]
        constructor
        · rintro (h | h)
          · exact absurd h hne'
          · exact h
        · exact Or.inr
    · exact hnd.2
    · intro y hy
      rw [gt_st_color _ _ _ _ htc] at hy
      split at hy
      · rename_i he; subst he; exact htin
      · exact hsub y (hinv.black_fin y hy)
    · exact htopo'
    · intro y hy
      rw [gt_st_color _ _ _ _ htc]
      split
      · intro h; cases h
      · rename_i hne'
        rcases hsup y hy with h | h
        · exact hinv.fin_nw y h
        · exact absurd h hne'

theorem whileLoop_spec (g : Graph) :
    ∀ (f : Nat) (colors : Array Color) (stack : Array Nat) (fin base : List Nat) (fs : List Frame),
      CInv g colors stack fin base fs → Post g colors stack (whileLoop g f colors stack) := by
  intro f
  induction f with
  | zero =>
    intro colors stack fin base fs _
    simp only [whileLoop]
    exact ⟨fun h => (by cases h), fun _ h => (by cases h)⟩
  | succ f ih =>
    intro colors stack fin base fs hinv
    simp only [whileLoop]
    split
    · -- empty stack: done
      rename_i hemp
      refine ⟨fun h => (by cases h), ?_⟩
      intro colors' hd
      cases hd
      have hnil : stack.toList = [] := by
        apply List.eq_nil_of_length_eq_zero; simpa using hemp
      have hfs : fs = [] := by
        apply Decidable.byContradiction
        intro hne
        have h1 := flat_ne_nil fs hne
        have h2 := hinv.flat_eq
        rw [hnil] at h2
        have := List.append_eq_nil_iff.mp h2.symm
        exact h1 this.2
      refine ⟨fin, hinv.csz, ?_, hinv.black_fin, hinv.topo, fun _ h => h, ?_, hinv.fin_nw⟩
      · intro x hx
        have := (hinv.grey_iff x).mp hx
        rw [hfs] at this; simp [greys] at this
      · intro x hx; rw [hnil] at hx; cases hx
    · rename_i hne
      have hsplit := toList_eq_pop_append stack hne
      generalize htop : gt stack (stack.size - 1) = top at hsplit
      split
      · exact ⟨fun h => (by cases h), fun _ h => (by cases h)⟩
      · rename_i htopn
        have htc : top < colors.size := by omega
        have htn : top < numNodes g := by have := hinv.csz; omega
        split
        · -- the top entry is not grey: grey it and scan its edges
          rename_i hng
          obtain ⟨ctx, hst, hgr, hfr, hre, _, _⟩ := context_of_top g colors stack fin base fs hinv top htc hsplit hng
          obtain ⟨a1, a2⟩ := activate_step g colors stack fin ctx top htn hinv.csz hng hst hfr hre
            (by intro x; rw [hgr]; exact hinv.grey_iff x) (by rw [hgr]; exact hinv.nodup) hinv.black_fin hinv.topo
            hinv.fin_nw
          split
          · rename_i hsc
            exact ⟨fun _ => a1 hsc, fun _ h => (by cases h)⟩
          · exact ⟨fun h => (by cases h), fun _ h => (by cases h)⟩
          · rename_i stack' hsc
            obtain ⟨hp, hinv'⟩ := a2 stack' hsc
            obtain ⟨p1, p2⟩ := ih _ _ _ _ _ hinv'
            refine ⟨p1, ?_⟩
            intro colors' hd
            obtain ⟨fin', q1, q2, q3, q4, q5, q6, q7⟩ := p2 colors' hd
            refine ⟨fin', q1, q2, q3, q4, ?_, ?_, q7⟩
            · intro x hx
              apply q5
              rw [gt_st_color _ _ _ _ htc]
              split
              · intro h; cases h
              · exact hx
            · intro x hx
              exact q6 x (by rw [hp]; exact List.mem_append_left _ hx)
        · -- the top entry is grey: it is the deepest frame and has no pending entries; blacken and pop
          rename_i hg
          have hg' : gt colors top = .grey := Decidable.not_not.mp hg
          obtain ⟨fs', fin', _, _, _, _, _, hinv'⟩ := pop_step g colors stack fin base fs hinv top htc hsplit hg'
          obtain ⟨p1, p2⟩ := ih _ _ _ _ _ hinv'
          refine ⟨p1, ?_⟩
          intro colors' hd
          obtain ⟨fin'', q1, q2, q3, q4, q5, q6, q7⟩ := p2 colors' hd
          have htb : gt (st colors top .black) top ≠ .white := by
            rw [gt_st_color _ _ _ _ htc]; simp
          refine ⟨fin'', q1, q2, q3, q4, ?_, ?_, q7⟩
          · intro y hy
            apply q5
            rw [gt_st_color _ _ _ _ htc]
            split
            · intro h; cases h
            · exact hy
          · intro y hy
            rw [hsplit] at hy
            rcases List.mem_append.mp hy with h | h
            · exact q6 y h
            · simp only [List.mem_singleton] at h
              subst h
              exact q5 y htb

/-! ### termination and absence of panics on well-formed graphs -/

/-- total out-degree of the white nodes: the pushes still to come -/
def whiteDeg (g : Graph) (colors : Array Color) : Nat :=
  sumTo (fun v => if gt colors v = .white then outDegree g v else 0) (numNodes g)

/-- decreases with every iteration of the `while` loop -/
def phi (g : Graph) (colors : Array Color) (base : List Nat) (fs : List Frame) : Nat :=
  2 * whiteDeg g colors + 2 * (base.length + segLen fs) + fs.length

theorem whiteDeg_le (g : Graph) (hwf : WF g) (colors : Array Color) : whiteDeg g colors ≤ numEdges g :=
  Nat.le_trans (sumTo_le _ _ _ (fun i _ => by split <;> omega)) hwf.sum_outDegree

theorem whiteDeg_st (g : Graph) (colors : Array Color) (t : Nat) (c : Color) (ht : t < numNodes g)
    (htc : t < colors.size) (hc : c ≠ .white) :
    whiteDeg g (st colors t c) + (if gt colors t = .white then outDegree g t else 0) = whiteDeg g colors := by
  have h := sumTo_update (fun v => if gt colors v = .white then outDegree g v else 0)
    (fun v => if gt (st colors t c) v = .white then outDegree g v else 0) t
    (by intro i hi; simp only [gt_st_color _ _ _ _ htc, if_neg hi]) (numNodes g) ht
  have e1 : (if gt (st colors t c) t = .white then outDegree g t else 0) = 0 := by
    rw [gt_st_eq _ _ _ htc, if_neg hc]
  rw [e1] at h
  simp only [whiteDeg]
  omega

theorem scan_not_stuck (g : Graph) (colors : Array Color) :
    ∀ (k e : Nat) (stack : Array Nat), (∀ e', e ≤ e' → e' < e + k → target g e' < colors.size) →
      scan g colors k e stack ≠ .stuck := by
  intro k
  induction k with
  | zero => intro e stack _ h; simp [scan] at h
  | succ k ih =>
    intro e stack hb
    simp only [scan]
    have h0 := hb e (Nat.le_refl _) (by omega)
    rw [if_neg (by omega)]
    split
    · exact ih _ _ (fun e' h1 h2 => hb e' (by omega) (by omega))
    · intro h; cases h
    · exact ih _ _ (fun e' h1 h2 => hb e' (by omega) (by omega))

theorem whileLoop_total (g : Graph) (hwf : WF g) :
    ∀ (f : Nat) (colors : Array Color) (stack : Array Nat) (fin base : List Nat) (fs : List Frame),
      CInv g colors stack fin base fs → (∀ x, x ∈ stack.toList → x < numNodes g) →
      phi g colors base fs < f → whileLoop g f colors stack ≠ .stuck := by
  intro f
  induction f with
  | zero => intro _ _ _ _ _ _ _ h; omega
  | succ f ih =>
    intro colors stack fin base fs hinv hent hphi
    have hfnw := hinv.fin_nw
    simp only [whileLoop]
    split
    · intro h; cases h
    · rename_i hne
      have hsplit := toList_eq_pop_append stack hne
      generalize htop : gt stack (stack.size - 1) = top at hsplit
      have htn : top < numNodes g := hent top (by rw [hsplit]; simp)
      have htc : top < colors.size := by have := hinv.csz; omega
      rw [if_neg (by omega)]
      split
      · -- activation
        rename_i hng
        obtain ⟨ctx, hst, hgr, hfr, hre, hlen, hcl⟩ := context_of_top g colors stack fin base fs hinv top htc hsplit hng
        obtain ⟨_, a2⟩ := activate_step g colors stack fin ctx top htn hinv.csz hng hst hfr hre
          (by intro x; rw [hgr]; exact hinv.grey_iff x) (by rw [hgr]; exact hinv.nodup) hinv.black_fin hinv.topo
          hinv.fin_nw
        have htargets : ∀ v, v ∈ scanTargets g (beginEdges g top) (endEdges g top - beginEdges g top) → v < numNodes g := by
          intro v hv
          simp only [scanTargets, List.mem_map, List.mem_range'_1] at hv
          obtain ⟨e, ⟨_, h2⟩, rfl⟩ := hv
          exact hwf.target_lt top e htn (by omega)
        split
        · intro h; cases h
        · rename_i hsc
          exfalso
          refine scan_not_stuck g (st colors top .grey) _ _ stack ?_ hsc
          intro e' h1 h2
          rw [size_st, hinv.csz]
          exact hwf.target_lt top e' htn (by omega)
        · rename_i stack' hsc
          obtain ⟨hp, hinv'⟩ := a2 stack' hsc
          apply ih _ _ _ _ _ hinv'
          · intro x hx
            rw [hp] at hx
            rcases List.mem_append.mp hx with h | h
            · exact hent x h
            · exact htargets x (List.mem_filter.mp h).1
          · -- the measure decreases
            have hW := whiteDeg_st g colors top .grey htn htc (by intro h; cases h)
            have hpl : (pushedOf g colors top).length ≤ endEdges g top - beginEdges g top := by
              have := List.length_filter_le (fun v => decide (gt (st colors top .grey) v = .white))
                (scanTargets g (beginEdges g top) (endEdges g top - beginEdges g top))
              simpa [pushedOf, scanTargets] using this
            have hblack : gt colors top ≠ .white → pushedOf g colors top = [] := by
              intro hnw
              have hb : gt colors top = .black := by
                cases hc : gt colors top with
                | white => exact absurd hc hnw
                | grey => exact absurd hc hng
                | black => rfl
              have htf := hinv.black_fin top hb
              apply List.filter_eq_nil_iff.mpr
              intro v hv
              have hE : E g top v := (mem_scanTargets g top v htn).mp hv
              have hvf := hinv.topo.closed top v htf hE
              have := hfnw v hvf
              simp only [decide_eq_true_eq]
              rw [gt_st_color _ _ _ _ htc]
              split
              · intro h; cases h
              · exact this
            simp only [phi, segLen, List.map_cons, List.sum_cons, List.length_cons, List.length_nil] at hphi ⊢
            simp only [segLen] at hlen
            by_cases hw : gt colors top = .white
            · rw [if_pos hw] at hW
              simp only [outDegree] at hW
              omega
            · rw [if_neg hw] at hW
              rw [hblack hw]
              simp only [List.length_nil]
              omega
      · -- pop
        rename_i hg
        have hg' : gt colors top = .grey := Decidable.not_not.mp hg
        obtain ⟨fs', fin', hfs, hb, hsub, htin, hsup, hinv'⟩ := pop_step g colors stack fin base fs hinv top htc hsplit hg'
        apply ih _ _ _ _ _ hinv'
        · intro x hx
          exact hent x (by rw [hsplit]; exact List.mem_append_left _ hx)
        · have hW := whiteDeg_st g colors top .black htn htc (by intro h; cases h)
          rw [hg'] at hW
          simp only [show (Color.grey = Color.white) = False from by simp, if_false] at hW
          subst hfs hb
          simp only [phi, segLen, List.map_cons, List.sum_cons, List.length_cons, List.length_nil] at hphi ⊢
          omega

/-! ### the loop over the roots, and `cycle_check` -/

/-- between two roots: nothing is grey, every black node is finished -/
structure OInv (g : Graph) (colors : Array Color) (fin : List Nat) : Prop where
  csz : colors.size = numNodes g
  no_grey : ∀ x, gt colors x ≠ .grey
  black_fin : ∀ x, gt colors x = .black → x ∈ fin
  topo : Topo g fin
  fin_nw : ∀ x, x ∈ fin → gt colors x ≠ .white

theorem outer_spec (g : Graph) :
    ∀ (k root : Nat) (colors : Array Color) (fin : List Nat), OInv g colors fin → root + k = numNodes g →
      (∀ u, u < root → gt colors u ≠ .white) → ∀ b, outer g k root colors = some b →
      (b = true ↔ HasCycle (edgesOf g)) := by
  intro k
  induction k with
  | zero =>
    intro root colors fin hinv hk hall b hb
    simp only [outer] at hb
    cases hb
    constructor
    · intro h; cases h
    · rintro ⟨u, v, huv, hr⟩
      exfalso
      have hun : u < numNodes g := ((mem_edgesOf g u v).mp huv).1
      have hblack : gt colors u = .black := by
        have h1 := hall u (by omega)
        have h2 := hinv.no_grey u
        cases hc : gt colors u with
        | white => exact absurd hc h1
        | grey => exact absurd hc h2
        | black => rfl
      exact hinv.topo.no_cycle u v (hinv.black_fin u hblack) huv hr
  | succ k ih =>
    intro root colors fin hinv hk hall b hb
    simp only [outer] at hb
    split at hb
    · rename_i hnw
      refine ih (root + 1) colors fin hinv (by omega) ?_ b hb
      intro u hu
      by_cases hur : u = root
      · subst hur; exact hnw
      · exact hall u (by omega)
    · rename_i hw
      have hci : CInv g colors #[root] fin [root] [] := by
        constructor
        · exact hinv.csz
        · simp [flat]
        · intro h; exact absurd rfl h
        · simp
        · trivial
        · intro x
          constructor
          · intro h; exact absurd h (hinv.no_grey x)
          · intro h; simp [greys] at h
        · simp [greys]
        · exact hinv.black_fin
        · exact hinv.topo
        · exact hinv.fin_nw
      obtain ⟨p1, p2⟩ := whileLoop_spec g (loopFuel g) colors #[root] fin [root] [] hci
      split at hb
      · rename_i hres
        cases hb
        exact ⟨fun _ => p1 hres, fun _ => rfl⟩
      · cases hb
      · rename_i colors' hres
        obtain ⟨fin', q1, q2, q3, q4, q5, q6, q7⟩ := p2 colors' hres
        refine ih (root + 1) colors' fin' ⟨q1, q2, q3, q4, q7⟩ (by omega) ?_ b hb
        intro u hu
        by_cases hur : u = root
        · subst hur; exact q6 u (by simp)
        · exact q5 u (hall u (by omega))

/-- whenever `cycle_check` returns, it answers `true` iff the graph has a directed cycle -/
theorem cycleCheck_exact (g : Graph) (b : Bool) (h : cycleCheck g = some b) : b = true ↔ HasCycle (edgesOf g) := by
  refine outer_spec g (numNodes g) 0 _ [] ?_ (by omega) (fun u hu => by omega) b h
  constructor
  · simp
  · intro x hx
    by_cases hxn : x < numNodes g
    · rw [gt_replicate _ _ _ hxn] at hx; cases hx
    · rw [gt_of_ge _ _ (by simpa using Nat.le_of_not_lt hxn)] at hx; cases hx
  · intro x hx
    by_cases hxn : x < numNodes g
    · rw [gt_replicate _ _ _ hxn] at hx; cases hx
    · rw [gt_of_ge _ _ (by simpa using Nat.le_of_not_lt hxn)] at hx; cases hx
  · exact .nil
  · intro x hx; cases hx

theorem outer_total (g : Graph) (hwf : WF g) :
    ∀ (k root : Nat) (colors : Array Color) (fin : List Nat), OInv g colors fin → root + k = numNodes g →
      ∃ b, outer g k root colors = some b := by
  intro k
  induction k with
  | zero => intro root colors fin _ _; exact ⟨false, rfl⟩
  | succ k ih =>
    intro root colors fin hinv hk
    simp only [outer]
    split
    · exact ih (root + 1) colors fin hinv (by omega)
    · have hci : CInv g colors #[root] fin [root] [] := by
        constructor
        · exact hinv.csz
        · simp [flat]
        · intro h; exact absurd rfl h
        · simp
        · trivial
        · intro x
          constructor
          · intro h; exact absurd h (hinv.no_grey x)
          · intro h; simp [greys] at h
        · simp [greys]
        · exact hinv.black_fin
        · exact hinv.topo
        · exact hinv.fin_nw
      have hns := whileLoop_total g hwf (loopFuel g) colors #[root] fin [root] [] hci
        (by intro x hx; simp at hx; omega)
        (by
          have := whiteDeg_le g hwf colors
          simp only [phi, segLen, loopFuel, List.length_cons, List.length_nil, List.map_nil, List.sum_nil]
          omega)
      obtain ⟨_, p2⟩ := whileLoop_spec g (loopFuel g) colors #[root] fin [root] [] hci
      split
      · exact ⟨true, rfl⟩
      · rename_i hres; exact absurd hres hns
      · rename_i colors' hres
        obtain ⟨fin', q1, q2, q3, q4, _, _, q7⟩ := p2 colors' hres
        exact ih (root + 1) colors' fin' ⟨q1, q2, q3, q4, q7⟩ (by omega)

/-- on a well-formed graph `cycle_check` returns, and answers `true` iff the graph has a directed cycle -/
theorem cycleCheck_correct (g : Graph) (hwf : WF g) :
    ∃ b, cycleCheck g = some b ∧ (b = true ↔ HasCycle (edgesOf g)) := by
  have hinit : OInv g (Array.replicate (numNodes g) Color.white) [] := by
    constructor
    · simp
    · intro x hx
      by_cases hxn : x < numNodes g
      · rw [gt_replicate _ _ _ hxn] at hx; cases hx
      · rw [gt_of_ge _ _ (by simpa using Nat.le_of_not_lt hxn)] at hx; cases hx
    · intro x hx
      by_cases hxn : x < numNodes g
      · rw [gt_replicate _ _ _ hxn] at hx; cases hx
      · rw [gt_of_ge _ _ (by simpa using Nat.le_of_not_lt hxn)] at hx; cases hx
    · exact .nil
    · intro x hx; cases hx
  obtain ⟨b, hb⟩ := outer_total g hwf (numNodes g) 0 _ [] hinit (by omega)
  exact ⟨b, hb, cycleCheck_exact g b hb⟩

end Tbx.CycleCheck
