import Tbx.Proofs.BisectionTheory
import Tbx.Proofs.InertialFlowTable
import Tbx.Proofs.FlowDinicDfs
/-
C03: the model of `sub_step` (`Tbx.InertialFlow.subStepSorted`) satisfies `Bisection.Valid`, relative to
the C01/C02 theorems about the Dinic model (`Tbx.Flow.dinic_assignment`, `dfs_spec`, `bfs_spec`).

  bounded phase loop   `boundedLoop_ok_run` (a completed bounded run IS the unbounded run),
                       `boundedLoop_of_dinicLoop` (a bound ≥ the final flow never aborts: accumulated flows
                       are non-decreasing), `finished` is only set by a completed run
  `solve_ok`           what `(flow, bits)` the step works with
  `partitionIds_*`     the two returned lists as filters of the sorted id list
  `prep_contr`         the renumbering table is a `BisectionCore.Contr`
  `subStepSorted_valid`
-/
namespace Tbx.InertialFlow
open Tbx Tbx.Flow Tbx.FlowSpec Tbx.FlowTheory Tbx.Bisection Tbx.BisectionCore Tbx.BisectionTheory

/-! ### `finished` is not touched by bfs / dfs -/

theorem reachTarget_fin (d : Dinic) (ps : Array Nat) (u v : Nat) (a bf : Int) (d' : Dinic) (x : Int)
    (h : reachTarget d ps u v a bf = some (d', x)) : d'.finished = d.finished := by
  unfold reachTarget at h
  split at h
  · cases h
  · split at h
    · cases h
    · cases h; rfl

theorem dfsEdges_fin (u : Nat) (flow : Int) : ∀ (k e : Nat) (d : Dinic) (bf : Int) (d' : Dinic) (x : Int),
    dfsEdges u flow e k d bf = some (d', x) → d'.finished = d.finished := by
  intro k
  induction k with
  | zero => intro e d bf d' x h; simp [dfsEdges] at h; rw [← h.1]
  | succ k ih =>
    intro e d bf d' x h
    unfold dfsEdges at h
    simp only at h
    split at h
    · exact ih _ _ _ _ _ h
    · split at h
      · exact ih _ _ _ _ _ h
      · split at h
        · exact ih _ _ _ _ _ h
        · split at h
          · exact reachTarget_fin _ _ _ _ _ _ _ _ h
          · have := ih _ _ _ _ _ h
            exact this

theorem dfsLoop_fin : ∀ (fuel : Nat) (d : Dinic) (bf : Int) (d' : Dinic) (x : Int),
    dfsLoop fuel d bf = some (d', x) → d'.finished = d.finished := by
  intro fuel
  induction fuel with
  | zero => intro d bf d' x h; simp [dfsLoop] at h
  | succ f ih =>
    intro d bf d' x h
    unfold dfsLoop at h
    split at h
    · cases h; rfl
    · split at h
      · cases h
      · rename_i hh
        have a := dfsEdges_fin _ _ _ _ _ _ _ _ hh
        have b := ih _ _ _ _ h
        rw [b, a]

theorem dfs_fin (d d' : Dinic) (x : Int) (h : d.dfs = some (d', x)) : d'.finished = d.finished := by
  unfold Dinic.dfs at h
  simp only at h
  have := dfsLoop_fin _ _ _ _ _ h
  exact this

theorem bfs_fin (d d' : Dinic) (b : Bool) (h : d.bfs = some (d', b)) : d'.finished = d.finished := by
  unfold Dinic.bfs at h
  simp only at h
  split at h
  · cases h
  · cases h; rfl

theorem boundedLoop_fin (bound : Int) : ∀ (fuel : Nat) (d : Dinic) (flow : Int) (d' : Dinic) (F : Int) (ab : Bool),
    boundedLoop bound fuel d flow = some (d', F, ab) → d'.finished = d.finished := by
  intro fuel
  induction fuel with
  | zero => intro d flow d' F ab h; simp [boundedLoop] at h
  | succ f ih =>
    intro d flow d' F ab h
    unfold boundedLoop at h
    split at h
    · cases h
    · rename_i d1 hb
      cases h; exact bfs_fin _ _ _ hb
    · rename_i d1 hb
      split at h
      · cases h
      · rename_i d2 bf hd
        split at h
        · cases h
          rw [dfs_fin _ _ _ hd, bfs_fin _ _ _ hb]
        · rw [ih _ _ _ _ _ h, dfs_fin _ _ _ hd, bfs_fin _ _ _ hb]

/-! ### bounded vs. unbounded phase loop -/

/-- a bounded run that was not aborted went through exactly the phases of the unbounded run -/
theorem boundedLoop_ok_run (bound : Int) : ∀ (fuel : Nat) (d : Dinic) (flow : Int) (d' : Dinic) (F : Int),
    boundedLoop bound fuel d flow = some (d', F, false) → dinicLoop fuel d flow = some (d', F) := by
  intro fuel
  induction fuel with
  | zero => intro d flow d' F h; simp [boundedLoop] at h
  | succ f ih =>
    intro d flow d' F h
    unfold boundedLoop at h
    unfold dinicLoop
    split at h
    · cases h
    · rename_i d1 hb
      rw [hb]; cases h; rfl
    · rename_i d1 hb
      rw [hb]
      simp only
      split at h
      · cases h
      · rename_i d2 bf hd
        rw [hd]
        simp only
        split at h
        · cases h
        · exact ih _ _ _ _ h

/-- a bounded run that was not aborted never saw an accumulated flow above the bound -/
theorem boundedLoop_ok_le (bound : Int) : ∀ (fuel : Nat) (d : Dinic) (flow : Int) (d' : Dinic) (F : Int),
    flow ≤ bound → boundedLoop bound fuel d flow = some (d', F, false) → F ≤ bound := by
  intro fuel
  induction fuel with
  | zero => intro d flow d' F _ h; simp [boundedLoop] at h
  | succ f ih =>
    intro d flow d' F hle h
    unfold boundedLoop at h
    split at h
    · cases h
    · cases h; exact hle
    · split at h
      · cases h
      · split at h
        · cases h
        · rename_i hnot
          exact ih _ _ _ _ (by omega) h

/-- accumulated flows are non-decreasing over the phases (blocking flows are ≥ 0: C01's `dfs_spec`), so
    a bound that is at least the final flow never aborts, and the bounded loop then IS the unbounded one -/
theorem boundedLoop_of_dinicLoop {n : Nat} {c : Fin n → Fin n → ℤ} {s t : Fin n} (hst : s ≠ t)
    (hN : n + 2 < INV) (bound : Int) (fuel : Nat) : ∀ (d : Dinic) (flow F : ℤ) (d' : Dinic) (flow' : ℤ),
    DL c s t d F → dinicLoop fuel d flow = some (d', flow') → flow' ≤ bound →
    boundedLoop bound fuel d flow = some (d', flow', false) ∧ flow ≤ flow' := by
  induction fuel with
  | zero => intro d flow F d' flow' _ h; simp [dinicLoop] at h
  | succ fuel ih =>
    intro d flow F d' flow' hi h hle
    simp only [dinicLoop] at h
    unfold boundedLoop
    cases hb : d.bfs with
    | none => simp [hb] at h
    | some r =>
      obtain ⟨d1, b⟩ := r
      have hgn := hi.fi.hn
      obtain ⟨b1, b2, b3, b4, b5, _⟩ := bfs_spec d hi.fi.wf hi.uq hi.rc (by rw [hgn]; exact hN)
        (by rw [hi.lsz, hgn]) (by rw [hi.tgt, hgn]; exact t.isLt)
        (by rw [hi.src, hi.tgt]; exact fun e => hst (Fin.ext e)) d1 b hb
      have hi1 : DL c s t d1 F :=
        ⟨b1 ▸ hi.fi, b1 ▸ hi.uq, b1 ▸ hi.rc, b3 ▸ hi.src, b4 ▸ hi.tgt, b2 ▸ hi.psz, by rw [b5, hgn]⟩
      cases b with
      | false =>
        simp only [hb, Option.some.injEq, Prod.mk.injEq] at h
        obtain ⟨rfl, rfl⟩ := h
        exact ⟨rfl, Int.le_refl _⟩
      | true =>
        simp only [hb] at h
        cases hd : d1.dfs with
        | none => simp [hd] at h
        | some r2 =>
          obtain ⟨d2, bf⟩ := r2
          simp only [hd] at h
          obtain ⟨c1, hbf⟩ := dfs_spec hst (by omega) d1 F hi1 d2 bf hd
          obtain ⟨e1, e2⟩ := ih d2 (flow + bf) (F + bf) d' flow' c1 h hle
          have : ¬ (flow + bf > bound) := by omega
          simp only [hd, if_neg this]
          exact ⟨e1, by omega⟩

/-! ### `partitionIds` -/

/-- the side predicate the partition closure evaluates -/
def sideBit (bits : Array Bool) (p : Nat) : Bool := decide (p < bits.size) && gt bits p

theorem partitionIds_left (t : Table) (bits : Array Bool) : ∀ (l : List Nat) (x : Nat),
    x ∈ (partitionIds t bits l).1 ↔ (x ∈ l ∧ t.containsKey x = true ∧ sideBit bits (t.get x) = true) := by
  intro l
  induction l with
  | nil => intro x; simp [partitionIds]
  | cons id rest ih =>
    intro x
    unfold partitionIds
    simp only
    by_cases hc : t.containsKey id = true
    · rw [if_pos hc]
      by_cases hb : (decide (t.get id < bits.size) && gt bits (t.get id)) = true
      · rw [if_pos hb]
        simp only [List.mem_cons, ih]
        constructor
        · rintro (rfl | ⟨a, b, c⟩)
          · exact ⟨Or.inl rfl, hc, hb⟩
          · exact ⟨Or.inr a, b, c⟩
        · rintro ⟨rfl | a, b, c⟩
          · exact Or.inl rfl
          · exact Or.inr ⟨a, b, c⟩
      · rw [if_neg hb]
        simp only [List.mem_cons, ih]
        constructor
        · rintro ⟨a, b, c⟩; exact ⟨Or.inr a, b, c⟩
        · rintro ⟨rfl | a, b, c⟩
          · exact absurd c hb
          · exact ⟨a, b, c⟩
    · rw [if_neg hc]
      simp only [List.mem_cons, ih]
      constructor
      · rintro ⟨a, b, c⟩; exact ⟨Or.inr a, b, c⟩
      · rintro ⟨rfl | a, b, c⟩
        · exact absurd b hc
        · exact ⟨a, b, c⟩

theorem partitionIds_right (t : Table) (bits : Array Bool) : ∀ (l : List Nat) (x : Nat),
    x ∈ (partitionIds t bits l).2 ↔ (x ∈ l ∧ t.containsKey x = true ∧ sideBit bits (t.get x) = false) := by
  intro l
  induction l with
  | nil => intro x; simp [partitionIds]
  | cons id rest ih =>
    intro x
    unfold partitionIds
    simp only
    by_cases hc : t.containsKey id = true
    · rw [if_pos hc]
      by_cases hb : (decide (t.get id < bits.size) && gt bits (t.get id)) = true
      · rw [if_pos hb]
        simp only [List.mem_cons, ih]
        constructor
        · rintro ⟨a, b, c⟩; exact ⟨Or.inr a, b, c⟩
        · rintro ⟨rfl | a, b, c⟩
          · unfold sideBit at c; rw [hb] at c; cases c
          · exact ⟨a, b, c⟩
      · rw [if_neg hb]
        have hb' : sideBit bits (t.get id) = false := by
          unfold sideBit; cases h : (decide (t.get id < bits.size) && gt bits (t.get id)) <;> simp_all
        simp only [List.mem_cons, ih]
        constructor
        · rintro (rfl | ⟨a, b, c⟩)
          · exact ⟨Or.inl rfl, hc, hb'⟩
          · exact ⟨Or.inr a, b, c⟩
        · rintro ⟨rfl | a, b, c⟩
          · exact Or.inl rfl
          · exact Or.inr ⟨a, b, c⟩
    · rw [if_neg hc]
      simp only [List.mem_cons, ih]
      constructor
      · rintro ⟨a, b, c⟩; exact ⟨Or.inr a, b, c⟩
      · rintro ⟨rfl | a, b, c⟩
        · exact absurd b hc
        · exact ⟨a, b, c⟩

/-- the two lists are disjoint sublists of the id list that together hold every id with a table entry -/
theorem partitionIds_sublist (t : Table) (bits : Array Bool) : ∀ (l : List Nat),
    ((partitionIds t bits l).1).Sublist l ∧ ((partitionIds t bits l).2).Sublist l := by
  intro l
  induction l with
  | nil => simp [partitionIds]
  | cons id rest ih =>
    unfold partitionIds
    simp only
    split
    · split
      · exact ⟨ih.1.cons_cons id, ih.2.cons id⟩
      · exact ⟨ih.1.cons id, ih.2.cons_cons id⟩
    · exact ⟨ih.1.cons id, ih.2.cons id⟩

/-! ### the renumbering table is a `Contr` -/

theorem prep_table (edges : List (Nat × Nat)) (sorted : List Nat) (k : Nat)
    (hdisj : ∀ x, x ∈ firstK sorted k → x ∉ lastK sorted k) :
    let p := prep edges sorted k
    TWF p.table p.curId (firstK sorted k) (lastK sorted k) ∧
    (∀ y, p.table.containsKey y = true ↔
      (y ∈ firstK sorted k ∨ y ∈ lastK sorted k ∨ touched edges y = true)) ∧
    p.raw = edges.map (fun e => { src := p.table.get e.1, tgt := p.table.get e.2, cap := 1 }) ∧
    p.curId ≤ 2 + 2 * edges.length := by
  intro p
  have h0 := twf_init (firstK sorted k) (lastK sorted k) hdisj
  obtain ⟨a, _, c, d, _, f⟩ := renum_spec (firstK sorted k) (lastK sorted k) edges _ 2 h0
  refine ⟨a, ?_, d, f⟩
  intro y
  have := c y
  show (renumLoop _ 2 edges).1.containsKey y = true ↔ _
  unfold firstK lastK at *
  rw [this, containsKey_iff]
  constructor
  · rintro (⟨q, hq⟩ | h)
    · rw [find_setAll, find_setAll] at hq
      by_cases ht : y ∈ List.drop (sorted.length - k) sorted
      · exact Or.inr (Or.inl ht)
      · by_cases hs : y ∈ List.take k sorted
        · exact Or.inl hs
        · simp [ht, hs, Table.find] at hq
    · exact Or.inr (Or.inr h)
  · rintro (h | h | h)
    · left
      rw [find_setAll, find_setAll]
      by_cases ht : y ∈ List.drop (sorted.length - k) sorted
      · exact ⟨1, by simp [ht]⟩
      · exact ⟨0, by simp [ht, h]⟩
    · left
      rw [find_setAll]
      exact ⟨1, by simp [h]⟩
    · exact Or.inr h

theorem prep_contr (edges : List (Nat × Nat)) (sorted : List Nat) (k : Nat)
    (hpre : preOK edges sorted k = true) :
    Contr edges sorted (firstK sorted k) (lastK sorted k) (prep edges sorted k).table.get
      (prep edges sorted k).table.containsKey := by
  have hpre' := hpre
  simp only [preOK, Bool.and_eq_true, decide_eq_true_eq, List.all_eq_true, List.contains_iff_mem] at hpre
  obtain ⟨⟨⟨⟨hnd, hn⟩, hk1⟩, hk2⟩, hsrc⟩ := hpre
  have hdisj := take_drop_disjoint sorted k hnd hk2
  obtain ⟨tw, dom, _, _⟩ := prep_table edges sorted k hdisj
  refine ⟨?_, ?_, ?_, dom, fun e he => hsrc e he, firstK_sub sorted k, lastK_sub sorted k, hdisj,
    firstK_ne_nil sorted k hk1 (by omega)⟩
  · intro x hx
    obtain ⟨q, hq⟩ := (containsKey_iff _ x).mp hx
    rw [get_of_find hq]
    constructor
    · intro h; subst h; exact (tw.zero x).mp hq
    · intro h; have := (tw.zero x).mpr h; rw [hq] at this; cases this; rfl
  · intro x hx
    obtain ⟨q, hq⟩ := (containsKey_iff _ x).mp hx
    rw [get_of_find hq]
    constructor
    · intro h; subst h; exact (tw.one x).mp hq
    · intro h; have := (tw.one x).mpr h; rw [hq] at this; cases this; rfl
  · intro x y hx hy h2 heq
    obtain ⟨q, hq⟩ := (containsKey_iff _ x).mp hx
    obtain ⟨q', hq'⟩ := (containsKey_iff _ y).mp hy
    rw [get_of_find hq] at h2 heq
    rw [get_of_find hq'] at heq
    subst heq
    exact tw.inj x y q h2 hq hq'

theorem dropLoops_map (ρ : Nat → Nat) (edges : List (Nat × Nat)) :
    (dropLoops (edges.map fun e => ({ src := ρ e.1, tgt := ρ e.2, cap := 1 } : Edge))).map toE =
      contractBy ρ edges := by
  unfold dropLoops contractBy
  induction edges with
  | nil => rfl
  | cons e rest ih =>
    simp only [List.map_cons, List.filter_cons]
    by_cases h : ρ e.1 = ρ e.2
    · simp [h] at ih ⊢; exact ih
    · simp [h, toE] at ih ⊢; exact ih

/-- what `Dinic::from_edge_list` receives is the contracted graph of the table's renumbering -/
theorem prep_edges (edges : List (Nat × Nat)) (sorted : List Nat) (k : Nat)
    (hdisj : ∀ x, x ∈ firstK sorted k → x ∉ lastK sorted k) :
    (prep edges sorted k).edges.map toE = contractBy (prep edges sorted k).table.get edges := by
  obtain ⟨_, _, hraw, _⟩ := prep_table edges sorted k hdisj
  show (dropLoops (prep edges sorted k).raw).map toE = _
  rw [hraw]
  exact dropLoops_map _ edges

theorem nNodes_le (es : List E) (c : Nat) (hc : 0 < c) (h : ∀ e ∈ es, e.1 < c ∧ e.2.1 < c) :
    nNodes es ≤ c := by
  unfold nNodes FlowSpec.maxId
  induction es with
  | nil => simp; omega
  | cons a L ih =>
    have := ih (fun e he => h e (List.mem_cons_of_mem _ he))
    have ha := h a List.mem_cons_self
    simp only [List.foldr_cons]
    omega

/-! ### the solver call -/

theorem fromEdgeList_fin (es : List Edge) (s t : Nat) (d : Dinic) (h : Dinic.fromEdgeList es s t = some d) :
    d.finished = false := by
  unfold Dinic.fromEdgeList at h
  split at h
  · cases h
  · cases h; rfl

/-- `run_with_upper_bound`: either aborted (`finished` stays false, bound untouched) or the result of
    the unbounded `run`, with the bound lowered to the flow -/
theorem runBounded_spec (d : Dinic) (hf : d.finished = false) (fuel : Nat) (bound : Int) (d' : Dinic)
    (b' : Int) (h : runBounded d fuel bound = some (d', b')) :
    (d'.finished = false ∧ b' = bound) ∨
    (d'.finished = true ∧ d.run fuel = some d' ∧ b' = min bound d'.maxFlow ∧
      (0 ≤ bound → d'.maxFlow ≤ bound)) := by
  unfold runBounded at h
  simp only at h
  split at h
  · cases h
  · rename_i hg
    split at h
    · cases h
    · rename_i dl flow hl
      simp only [Option.some.injEq, Prod.mk.injEq] at h
      obtain ⟨rfl, rfl⟩ := h
      left
      have := boundedLoop_fin _ _ _ _ _ _ _ hl
      exact ⟨by show dl.finished = false; rw [this]; exact hf, rfl⟩
    · rename_i dl flow hl
      simp only [Option.some.injEq, Prod.mk.injEq] at h
      obtain ⟨rfl, rfl⟩ := h
      right
      refine ⟨rfl, ?_, rfl, ?_⟩
      · unfold Dinic.run
        simp only
        rw [if_neg hg, boundedLoop_ok_run _ _ _ _ _ _ hl]
      · intro hb
        exact boundedLoop_ok_le _ _ _ _ _ _ hb hl

theorem solve_ok (p : Prep) (bound : Int) (flow : Int) (bits : Array Bool) (b' : Int)
    (h : solve p bound = some (some (flow, bits), b')) :
    (p.edges = [] ∧ flow = 0 ∧ bits = #[true] ∧ b' = min bound 0) ∨
    (p.edges ≠ [] ∧ ∃ d d', Dinic.fromEdgeList p.edges 0 1 = some d ∧
      d.run (phaseFuel p) = some d' ∧ d'.maxFlow = flow ∧ d'.assignment? 0 = .ok bits ∧
      b' = min bound flow ∧ (0 ≤ bound → flow ≤ bound)) := by
  unfold solve at h
  split at h
  · rename_i he
    simp only [Option.some.injEq, Prod.mk.injEq] at h
    obtain ⟨⟨rfl, rfl⟩, rfl⟩ := h
    left
    exact ⟨by simpa using he, rfl, rfl, rfl⟩
  · rename_i he
    right
    refine ⟨by simpa using he, ?_⟩
    split at h
    · cases h
    · rename_i d hd
      split at h
      · cases h
      · rename_i d' bnd hr
        rcases runBounded_spec d (fromEdgeList_fin _ _ _ _ hd) _ _ _ _ hr with ⟨hf, _⟩ | ⟨hf, hrun, hb, hle⟩
        · have : d'.maxFlow? = .err := by unfold Dinic.maxFlow? maxFlowOut; simp [hf]
          rw [this] at h
          simp at h
        · have hmf : d'.maxFlow? = .ok d'.maxFlow := by unfold Dinic.maxFlow? maxFlowOut; simp [hf]
          rw [hmf] at h
          simp only at h
          split at h
          · rename_i bits' ha
            simp only [Option.some.injEq, Prod.mk.injEq] at h
            obtain ⟨⟨rfl, rfl⟩, rfl⟩ := h
            exact ⟨d, d', hd, hrun, rfl, ha, hb, hle⟩
          · cases h

/-- no edge between two different contracted nodes: every side has cut 0, and the side {0} is the
    canonical minimum cut -/
theorem mincut_of_empty (ρ : Nat → Nat) (edges : List (Nat × Nat)) (cell : List Nat) (dom : Nat → Bool)
    (inA : Nat → Bool) (he : contractBy ρ edges = []) (h0 : inA 0 = true)
    (hA : ∀ p, inA p = true → p = 0) : MinCut edges cell ρ dom 0 inA := by
  refine ⟨h0, ?_, ?_, ?_, ?_⟩
  · cases h : inA 1 with
    | false => rfl
    | true => have := hA 1 h; omega
  · rw [cutE_zero_of_empty ρ edges he]; rfl
  · intro inS _ _; rw [cutE_zero_of_empty ρ edges he]; exact Int.le_refl _
  · intro inS a _ _ x _ _ hx
    rw [hA _ hx]; exact a

/-- **the model of `sub_step` satisfies the property's statement** (relative to C01/C02 for the Dinic
    model, which are proved: `Tbx.Flow.dinic_assignment`).  Hypotheses = the property's quantifier
    (`preOK`: distinct ids, n ≥ 2, 1 ≤ k, 2k ≤ n, edge sources in the cell) and that node numbers stay
    below usize::MAX -/
theorem subStepSorted_valid (edges : List (Nat × Nat)) (sorted : List Nat) (k : Nat) (bound : Int)
    (hpre : preOK edges sorted k = true) (hsz : 2 * edges.length + 6 < INV) (r : FlowRes)
    (h : subStepSorted edges sorted k bound = .ok r) :
    Valid edges sorted k r.flow r.left r.right := by
  have hpre' := hpre
  simp only [preOK, Bool.and_eq_true, decide_eq_true_eq, List.all_eq_true, List.contains_iff_mem] at hpre'
  obtain ⟨⟨⟨⟨hnd, hn⟩, hk1⟩, hk2⟩, hsrc⟩ := hpre'
  have hdisj := take_drop_disjoint sorted k hnd hk2
  have hc := prep_contr edges sorted k hpre
  obtain ⟨tw, _, _, hcur⟩ := prep_table edges sorted k hdisj
  have hedges := prep_edges edges sorted k hdisj
  unfold subStepSorted subStepSortedB at h
  have hk : ¬ (k = 0 ∨ sorted.length < k) := by omega
  rw [if_neg hk] at h
  simp only at h
  split at h
  · cases h
  · cases h
  · rename_i flow bits b' hs
    split at h
    · cases h
    · simp only [StepOut.ok.injEq] at h
      subst h
      simp only
      have hl := partitionIds_left (prep edges sorted k).table bits sorted
      have hr := partitionIds_right (prep edges sorted k).table bits sorted
      have hm : MinCut edges sorted (prep edges sorted k).table.get (prep edges sorted k).table.containsKey
          flow (sideBit bits) := by
        rcases solve_ok _ _ _ _ _ hs with ⟨he, rfl, rfl, _⟩ | ⟨hne, d, d', hd, hrun, hflow, hbits, _, _⟩
        · apply mincut_of_empty
          · rw [← hedges, he]; rfl
          · decide
          · intro p hp
            simp only [sideBit, Bool.and_eq_true, decide_eq_true_eq] at hp
            have : (#[true] : Array Bool).size = 1 := rfl
            omega
        · -- ids of the flow graph are below current_id
          have hids : ∀ e ∈ (prep edges sorted k).edges.map toE, e.1 < (prep edges sorted k).curId ∧
              e.2.1 < (prep edges sorted k).curId := by
            intro e he
            rw [hedges] at he
            unfold contractBy at he
            simp only [List.mem_map, List.mem_filter] at he
            obtain ⟨e0, ⟨he0, _⟩, rfl⟩ := he
            obtain ⟨hd1, hd2⟩ := dom_of_edge hc he0
            obtain ⟨q1, hq1⟩ := (containsKey_iff _ _).mp hd1
            obtain ⟨q2, hq2⟩ := (containsKey_iff _ _).mp hd2
            simp only
            rw [get_of_find hq1, get_of_find hq2]
            exact ⟨tw.lt _ _ hq1, tw.lt _ _ hq2⟩
          have hnn : nNodes ((prep edges sorted k).edges.map toE) ≤ (prep edges sorted k).curId :=
            nNodes_le _ _ (by have := tw.cur2; omega) hids
          have hcap : ∀ e, e ∈ (prep edges sorted k).edges → 0 ≤ e.cap := by
            intro e he
            have : toE e ∈ (prep edges sorted k).edges.map toE := List.mem_map_of_mem he
            rw [hedges] at this
            unfold contractBy at this
            simp only [List.mem_map] at this
            obtain ⟨e0, _, he0⟩ := this
            have : e.cap = 1 := by
              have := congrArg (·.2.2) he0
              simpa [toE] using this.symm
            omega
          obtain ⟨hs0, ht1, hsize, h0, h1, hval, _, hmin, hcan⟩ :=
            dinic_assignment (prep edges sorted k).edges 0 1 hcap (by omega) (by omega) d hd _ d' hrun bits hbits
          rw [hflow] at hval hcan
          have hm := mincut_of_finset' (prep edges sorted k).table.get edges sorted
            (prep edges sorted k).table.containsKey flow (fun v => gt bits v)
            ((prep edges sorted k).edges.map toE) hedges.symm hs0 ht1 h0 h1 hval hmin hcan
          have hsb : sideBit bits = fun p =>
              decide (p < nNodes ((prep edges sorted k).edges.map toE)) && gt bits p := by
            funext p; unfold sideBit; rw [hsize]
          rw [hsb]; exact hm
      exact valid_of_mincut hc hm k rfl rfl _ _ hl hr

/-! ### the bound only decides between Ok and Err -/

/-- **`run_with_upper_bound` with a bound that is at least the final flow is the unbounded `run`**
    (and publishes the flow) -/
theorem runBounded_of_run (es : List Edge) (s t : Nat) (hnn : ∀ e, e ∈ es → 0 ≤ e.cap) (hst : s ≠ t)
    (hN : nNodes (es.map toE) + 2 < INV) (d : Dinic) (hd : Dinic.fromEdgeList es s t = some d)
    (fuel : Nat) (d' : Dinic) (h : d.run fuel = some d') (bound : Int) (hle : d'.maxFlow ≤ bound) :
    runBounded d fuel bound = some (d', min bound d'.maxFlow) := by
  unfold Dinic.fromEdgeList at hd
  split at hd
  · cases hd
  · simp only [Option.some.injEq] at hd
    subst hd
    have hm := merge_cap_dinic es hnn
    have hnum : (residualDinic es).numNodes = nNodes (es.map toE) := by rw [hm.2.1, maxId_eq_spec]; rfl
    unfold Dinic.run at h
    unfold runBounded
    simp only at h ⊢
    split at h
    · cases h
    · rename_i hg
      rw [if_neg hg]
      have hguard : s < nNodes (es.map toE) ∧ t < nNodes (es.map toE) := by
        have : ¬ (s ≥ (residualDinic es).numNodes ∨ t ≥ (residualDinic es).numNodes) := hg
        rw [hnum] at this; omega
      have hfi := init_finv (residualDinic es) es ⟨s, hguard.1⟩ ⟨t, hguard.2⟩ hm
      obtain ⟨huq, hrc⟩ := residualDinic_uniq_rev es
      split at h
      · cases h
      · rename_i d1 flow hloop
        simp only [Option.some.injEq] at h
        subst h
        have hdl : DL (cF (es.map toE) (nNodes (es.map toE))) ⟨s, hguard.1⟩ ⟨t, hguard.2⟩
            { g := residualDinic es, maxFlow := 0, finished := false,
              level := Array.replicate (residualDinic es).numNodes INV,
              parents := Array.replicate (residualDinic es).numNodes 0, stack := [], dfsCount := 0,
              bfsCount := 0, source := s, target := t } 0 :=
          ⟨hfi, huq, hrc, rfl, rfl, by simp [hnum], by simp [hnum]⟩
        obtain ⟨a, _⟩ := boundedLoop_of_dinicLoop (fun e => hst (Fin.mk.inj e)) hN bound fuel _ 0 0 d1 flow
          hdl hloop hle
        rw [a]

/-- what the solver needs to know about the renumbered edge list -/
theorem prep_solver_pre (edges : List (Nat × Nat)) (sorted : List Nat) (k : Nat)
    (hpre : preOK edges sorted k = true) (hsz : 2 * edges.length + 6 < INV) :
    (∀ e, e ∈ (prep edges sorted k).edges → 0 ≤ e.cap) ∧
    nNodes ((prep edges sorted k).edges.map toE) + 2 < INV := by
  have hpre' := hpre
  simp only [preOK, Bool.and_eq_true, decide_eq_true_eq, List.all_eq_true, List.contains_iff_mem] at hpre'
  obtain ⟨⟨⟨⟨hnd, hn⟩, hk1⟩, hk2⟩, hsrc⟩ := hpre'
  have hdisj := take_drop_disjoint sorted k hnd hk2
  have hc := prep_contr edges sorted k hpre
  obtain ⟨tw, _, _, hcur⟩ := prep_table edges sorted k hdisj
  have hedges := prep_edges edges sorted k hdisj
  have hids : ∀ e ∈ (prep edges sorted k).edges.map toE, e.1 < (prep edges sorted k).curId ∧
      e.2.1 < (prep edges sorted k).curId := by
    intro e he
    rw [hedges] at he
    unfold contractBy at he
    simp only [List.mem_map, List.mem_filter] at he
    obtain ⟨e0, ⟨he0, _⟩, rfl⟩ := he
    obtain ⟨hd1, hd2⟩ := dom_of_edge hc he0
    obtain ⟨q1, hq1⟩ := (containsKey_iff _ _).mp hd1
    obtain ⟨q2, hq2⟩ := (containsKey_iff _ _).mp hd2
    simp only
    rw [get_of_find hq1, get_of_find hq2]
    exact ⟨tw.lt _ _ hq1, tw.lt _ _ hq2⟩
  have hnn : nNodes ((prep edges sorted k).edges.map toE) ≤ (prep edges sorted k).curId :=
    nNodes_le _ _ (by have := tw.cur2; omega) hids
  refine ⟨?_, by omega⟩
  intro e he
  have : toE e ∈ (prep edges sorted k).edges.map toE := List.mem_map_of_mem he
  rw [hedges] at this
  unfold contractBy at this
  simp only [List.mem_map] at this
  obtain ⟨e0, _, he0⟩ := this
  have : e.cap = 1 := by
    have := congrArg (·.2.2) he0
    simpa [toE] using this.symm
  omega

/-- the solver call does not depend on the bound as long as the bound is at least the flow -/
theorem solve_bound_irrelevant (edges : List (Nat × Nat)) (sorted : List Nat) (k : Nat)
    (hpre : preOK edges sorted k = true) (hsz : 2 * edges.length + 6 < INV) (b b' b1 : Int) (flow : Int)
    (bits : Array Bool) (h : solve (prep edges sorted k) b = some (some (flow, bits), b1))
    (hle : flow ≤ b') :
    solve (prep edges sorted k) b' = some (some (flow, bits), min b' flow) := by
  rcases solve_ok _ _ _ _ _ h with ⟨he, rfl, rfl, _⟩ | ⟨hne, d, d', hd, hrun, hflow, hbits, _, _⟩
  · unfold solve; simp [he]
  · obtain ⟨hcap, hN⟩ := prep_solver_pre edges sorted k hpre hsz
    have hrb := runBounded_of_run _ 0 1 hcap (by omega) hN d hd _ d' hrun b' (by rw [hflow]; exact hle)
    have hfin : d'.finished = true := by
      rcases runBounded_spec d (fromEdgeList_fin _ _ _ _ hd) _ _ _ _ hrb with ⟨hf, hb⟩ | ⟨hf, _⟩
      · exfalso
        unfold Dinic.run at hrun
        simp only at hrun
        split at hrun
        · cases hrun
        · split at hrun
          · cases hrun
          · cases hrun; cases hf
      · exact hf
    unfold solve
    have hne' : (prep edges sorted k).edges.isEmpty = false := by
      cases h' : (prep edges sorted k).edges with
      | nil => exact absurd h' hne
      | cons _ _ => rfl
    simp only [hne', Bool.false_eq_true, ↓reduceIte, hd, hrb]
    have hmf : d'.maxFlow? = .ok d'.maxFlow := by unfold Dinic.maxFlow? maxFlowOut; simp [hfin]
    rw [hmf]
    simp only [hbits, hflow]

theorem subStepSortedB_bound_irrelevant (edges : List (Nat × Nat)) (sorted : List Nat) (k : Nat)
    (hpre : preOK edges sorted k = true) (hsz : 2 * edges.length + 6 < INV) (b b' : Int) (r : FlowRes)
    (h : subStepSorted edges sorted k b = .ok r) (hle : r.flow ≤ b') :
    subStepSortedB edges sorted k b' = (.ok r, min b' r.flow) := by
  unfold subStepSorted subStepSortedB at h
  unfold subStepSortedB
  split at h
  · cases h
  · rename_i hk
    rw [if_neg hk]
    simp only at h ⊢
    split at h
    · cases h
    · cases h
    · rename_i flow bits b1 hs
      split at h
      · cases h
      · rename_i hne
        simp only [StepOut.ok.injEq] at h
        subst h
        simp only at hle
        rw [solve_bound_irrelevant edges sorted k hpre hsz b b' b1 flow bits hs hle]
        simp only
        rw [if_neg hne]

/-- **Ok ⇒ the flow does not exceed a non-negative bound** -/
theorem subStepSorted_ok_le (edges : List (Nat × Nat)) (sorted : List Nat) (k : Nat) (b : Int)
    (hb : 0 ≤ b) (r : FlowRes) (h : subStepSorted edges sorted k b = .ok r) : r.flow ≤ b := by
  unfold subStepSorted subStepSortedB at h
  split at h
  · cases h
  · simp only at h
    split at h
    · cases h
    · cases h
    · rename_i flow bits b1 hs
      split at h
      · cases h
      · simp only [StepOut.ok.injEq] at h
        subst h
        simp only
        rcases solve_ok _ _ _ _ _ hs with ⟨_, rfl, _, _⟩ | ⟨_, _, _, _, _, _, _, _, hle⟩
        · exact hb
        · exact hle hb

/-- the two returned lists are non-empty, disjoint sublists of the sorted id list -/
theorem subStepSorted_sides (edges : List (Nat × Nat)) (sorted : List Nat) (k : Nat) (b : Int)
    (r : FlowRes) (h : subStepSorted edges sorted k b = .ok r) :
    r.left ≠ [] ∧ r.right ≠ [] ∧ r.left.Sublist sorted ∧ r.right.Sublist sorted ∧
    (∀ x, x ∈ r.left → x ∉ r.right) := by
  unfold subStepSorted subStepSortedB at h
  split at h
  · cases h
  · simp only at h
    split at h
    · cases h
    · cases h
    · rename_i flow bits b1 hs
      split at h
      · cases h
      · rename_i hne
        simp only [StepOut.ok.injEq] at h
        subst h
        simp only
        have hsub := partitionIds_sublist (prep edges sorted k).table bits sorted
        refine ⟨?_, ?_, hsub.1, hsub.2, ?_⟩
        · intro he; apply hne; left; simp [he]
        · intro he; apply hne; right; simp [he]
        · intro x hx hy
          have a := ((partitionIds_left _ _ _ x).mp hx).2.2
          have c := ((partitionIds_right _ _ _ x).mp hy).2.2
          rw [a] at c; cases c

end Tbx.InertialFlow
