import Tbx.Proofs.GeoEncloseAsm
/-
Global strict convexity of the monotone chain's output for inputs that are not all collinear.

`Good P x r`: the facts established by `Tbx.Geo.Inv` for the stack `x :: r` (top first) of a finished pass
over the sorted points `P`, plus non-degeneracy.  On such a chain
  * points collinear with an edge lie between its end points (`Good.between`),
  * neighbours are different and the chain has no repetition (`Good.nodup`).
The upper chain is a `Good` chain of the point-reflected input.  A vertex strictly inside an edge's
segment would have to be a vertex of the other chain whose two neighbours are on that line too,
contradicting the strict turn there (`strict_other`).
-/
namespace Tbx.Geo

def LexLt (a b : Coord) : Prop := LexLe a b ∧ a ≠ b

theorem lexLt_of_not_le {a b : Coord} (h : ¬ LexLe a b) : LexLt b a := by
  refine ⟨?_, ?_⟩
  · rcases LexLe.total a b with h' | h'
    · exact absurd h' h
    · exact h'
  · intro e; subst e; exact h (LexLe.refl _)

theorem lex0_neg_of_lexLt {a b : Coord} (h : LexLt a b) :
    Lex0 (-(a.lon - b.lon)) (-(a.lat - b.lat)) ∧ ¬ (a.lon - b.lon = 0 ∧ a.lat - b.lat = 0) := by
  obtain ⟨h1, h2⟩ := h
  constructor
  · unfold LexLe at h1; convert h1 using 1 <;> ring
  · rintro ⟨e1, e2⟩
    apply h2
    cases a; cases b; simp only [Coord.mk.injEq] at *; omega

theorem lex0_pos_of_lexLt {a b : Coord} (h : LexLt a b) :
    Lex0 (b.lon - a.lon) (b.lat - a.lat) ∧ ¬ (b.lon - a.lon = 0 ∧ b.lat - a.lat = 0) := by
  obtain ⟨h1, h2⟩ := h
  refine ⟨h1, ?_⟩
  rintro ⟨e1, e2⟩
  apply h2
  cases a; cases b; simp only [Coord.mk.injEq] at *; omega

/-- q beyond a on the line o → a, strict left turn o → a → a': q is strictly right of a → a' -/
theorem collinear_after {o a a' q : Coord} (hoa : LexLt o a) (haq : LexLt a q) (hcol : cross o a q = 0)
    (hturn : 0 < cross o a a') : cross a a' q < 0 := by
  obtain ⟨hα, hα0⟩ := lex0_neg_of_lexLt hoa
  obtain ⟨hc, hc0⟩ := lex0_pos_of_lexLt haq
  have hpar : (q.lon - a.lon) * (o.lat - a.lat) - (q.lat - a.lat) * (o.lon - a.lon) = 0 := by
    have : cross o a q = (q.lon - a.lon) * (o.lat - a.lat) - (q.lat - a.lat) * (o.lon - a.lon) := by
      unfold cross; ring
    omega
  have := (antipar_iff (o.lon - a.lon) (o.lat - a.lat) (q.lon - a.lon) (q.lat - a.lat) (a'.lon - a.lon) (a'.lat - a.lat)
    hα hα0 hc hc0 hpar).1
  have e1 : cross o a a' = (a'.lon - a.lon) * (o.lat - a.lat) - (a'.lat - a.lat) * (o.lon - a.lon) := by
    unfold cross; ring
  have e2 : cross a a' q = (a'.lon - a.lon) * (q.lat - a.lat) - (a'.lat - a.lat) * (q.lon - a.lon) := rfl
  rw [e2]
  exact this.mp (by omega)

/-- q before o on the line o → a, strict left turn o' → o → a: q is strictly right of o' → o -/
theorem collinear_before {o' o a q : Coord} (hoa : LexLt o a) (hqo : LexLt q o) (hcol : cross o a q = 0)
    (hturn : 0 < cross o' o a) : cross o' o q < 0 := by
  obtain ⟨hα, hα0⟩ := lex0_neg_of_lexLt hqo
  obtain ⟨hc, hc0⟩ := lex0_pos_of_lexLt hoa
  have hpar : (a.lon - o.lon) * (q.lat - o.lat) - (a.lat - o.lat) * (q.lon - o.lon) = 0 := hcol
  have := (antipar_iff (q.lon - o.lon) (q.lat - o.lat) (a.lon - o.lon) (a.lat - o.lat) (o'.lon - o.lon) (o'.lat - o.lat)
    hα hα0 hc hc0 hpar).1
  have e1 : cross o' o a = -((o'.lon - o.lon) * (a.lat - o.lat) - (o'.lat - o.lat) * (a.lon - o.lon)) := by
    unfold cross; ring
  have e2 : cross o' o q = -((o'.lon - o.lon) * (q.lat - o.lat) - (o'.lat - o.lat) * (q.lon - o.lon)) := by
    unfold cross; ring
  have := this.mpr (by omega)
  omega

/-- p strictly between u and v on their line; u and v both on the left of (or on) p → w: w is on the line -/
theorem on_line_of_between {u v p w : Coord} (hup : LexLt u p) (hpv : LexLt p v) (hcol : cross u v p = 0)
    (h1 : 0 ≤ cross p w u) (h2 : 0 ≤ cross p w v) : cross p w v = 0 := by
  obtain ⟨hα, hα0⟩ := lex0_neg_of_lexLt hup
  obtain ⟨hc, hc0⟩ := lex0_pos_of_lexLt hpv
  have hpar : (v.lon - p.lon) * (u.lat - p.lat) - (v.lat - p.lat) * (u.lon - p.lon) = 0 := by
    have : cross u v p = -((v.lon - p.lon) * (u.lat - p.lat) - (v.lat - p.lat) * (u.lon - p.lon)) := by
      unfold cross; ring
    omega
  have := (antipar_iff (u.lon - p.lon) (u.lat - p.lat) (v.lon - p.lon) (v.lat - p.lat) (w.lon - p.lon) (w.lat - p.lat)
    hα hα0 hc hc0 hpar).2
  have e1 : cross p w u = (w.lon - p.lon) * (u.lat - p.lat) - (w.lat - p.lat) * (u.lon - p.lon) := rfl
  have e2 : cross p w v = (w.lon - p.lon) * (v.lat - p.lat) - (w.lat - p.lat) * (v.lon - p.lon) := rfl
  by_contra hne
  have hpos : 0 < cross p w v := by omega
  have := this.mpr (by omega)
  omega

/-- the same for an edge w → p arriving at p -/
theorem on_line_of_between' {u v p w : Coord} (hup : LexLt u p) (hpv : LexLt p v) (hcol : cross u v p = 0)
    (h1 : 0 ≤ cross w p u) (h2 : 0 ≤ cross w p v) : cross p w v = 0 := by
  obtain ⟨hα, hα0⟩ := lex0_neg_of_lexLt hup
  obtain ⟨hc, hc0⟩ := lex0_pos_of_lexLt hpv
  have hpar : (v.lon - p.lon) * (u.lat - p.lat) - (v.lat - p.lat) * (u.lon - p.lon) = 0 := by
    have : cross u v p = -((v.lon - p.lon) * (u.lat - p.lat) - (v.lat - p.lat) * (u.lon - p.lon)) := by
      unfold cross; ring
    omega
  have := (antipar_iff (u.lon - p.lon) (u.lat - p.lat) (v.lon - p.lon) (v.lat - p.lat) (w.lon - p.lon) (w.lat - p.lat)
    hα hα0 hc hc0 hpar).1
  have e1 : cross w p u = -((w.lon - p.lon) * (u.lat - p.lat) - (w.lat - p.lat) * (u.lon - p.lon)) := by
    unfold cross; ring
  have e2 : cross w p v = -((w.lon - p.lon) * (v.lat - p.lat) - (w.lat - p.lat) * (v.lon - p.lon)) := by
    unfold cross; ring
  have e3 : cross p w v = (w.lon - p.lon) * (v.lat - p.lat) - (w.lat - p.lat) * (v.lon - p.lon) := rfl
  by_contra hne
  have hneg : (w.lon - p.lon) * (v.lat - p.lat) - (w.lat - p.lat) * (v.lon - p.lon) < 0 := by omega
  have := this.mpr hneg
  omega

/-- w and w' on the line through p and v (p ≠ v): p, w, w' collinear -/
theorem collinear_of_on_line {p v w w' : Coord} (hpv : p ≠ v) (h1 : cross p w v = 0) (h2 : cross p w' v = 0) :
    cross p w w' = 0 := by
  have hd : ¬ (v.lon - p.lon = 0 ∧ v.lat - p.lat = 0) := by
    rintro ⟨e1, e2⟩
    apply hpv
    cases p; cases v; simp only [Coord.mk.injEq] at *; omega
  exact par_par (w.lon - p.lon) (w.lat - p.lat) (w'.lon - p.lon) (w'.lat - p.lat) (v.lon - p.lon) (v.lat - p.lat) hd h1 h2

/-- three points on the line through u ≠ v are collinear -/
theorem collinear_of_line {u v a b c : Coord} (huv : u ≠ v) (ha : cross u v a = 0) (hb : cross u v b = 0)
    (hc : cross u v c = 0) : cross a b c = 0 := by
  have hd : ¬ (v.lon - u.lon = 0 ∧ v.lat - u.lat = 0) := by
    rintro ⟨e1, e2⟩
    apply huv
    cases u; cases v; simp only [Coord.mk.injEq] at *; omega
  have h1 : (b.lon - a.lon) * (v.lat - u.lat) - (b.lat - a.lat) * (v.lon - u.lon) = 0 := by
    unfold cross at ha hb; linarith
  have h2 : (c.lon - a.lon) * (v.lat - u.lat) - (c.lat - a.lat) * (v.lon - u.lon) = 0 := by
    unfold cross at ha hc; linarith
  exact par_par _ _ _ _ _ _ hd h1 h2

theorem cross_swap (o a b : Coord) : cross o b a = -cross o a b := by
  unfold cross; ring

theorem cross_flip (o a q : Coord) : cross a o q = -cross o a q := by
  unfold cross; ring

theorem cross_cycle (o a b : Coord) : cross a b o = cross o a b := by
  unfold cross; ring

/-! ### finished passes -/

/-- what is known about the stack `x :: r` (top first) after a pass over the sorted points `P` -/
structure Good (P : List Coord) (x : Coord) (r : List Coord) : Prop where
  sub : ∀ v ∈ x :: r, v ∈ P
  desc : Desc (x :: r)
  turns : Turns (x :: r)
  sup : Sup P (x :: r)
  top : ∀ q ∈ P, LexLe q x
  bot : ∀ q ∈ P, LexLe (lastD x r) q
  two : r ≠ []
  ne : x ≠ lastD x r

theorem lowerStack_good (c0 c1 : Coord) (cs : List Coord) (hsorted : List.Pairwise LexLe (c0 :: c1 :: cs))
    (hne : ∃ q ∈ c0 :: c1 :: cs, q ≠ c0) :
    ∃ x r, lowerStack (c0 :: c1 :: cs) = x :: r ∧ Good (c0 :: c1 :: cs) x r ∧ lastD x r = c0 := by
  obtain ⟨x, r, e, hsup, hbot, htop, hmem, hdesc⟩ := lowerStack_sup c0 (c1 :: cs) hsorted
  have hs := List.pairwise_cons.mp hsorted
  refine ⟨x, r, e, ?_, hbot⟩
  constructor
  · intro v hv
    rw [← e] at hv
    rcases chain_mem 2 _ [] v hv with h | h
    · cases h
    · exact h
  · exact hdesc
  · rw [← e]; exact chain_turns _ [] trivial
  · exact hsup
  · exact htop
  · intro q hq
    rw [hbot]
    rcases List.mem_cons.mp hq with h | h
    · rw [h]; exact LexLe.refl _
    · exact hs.1 q h
  · intro h0
    have := lowerStack_length_ge c0 c1 cs
    rw [e, h0] at this; simp at this
  · rw [hbot]
    intro hx
    obtain ⟨q, hq, hqc⟩ := hne
    apply hqc
    have h1 : LexLe q x := htop q hq
    have h2 : LexLe c0 q := by
      rcases List.mem_cons.mp hq with h | h
      · rw [h]; exact LexLe.refl _
      · exact hs.1 q h
    rw [hx] at h1
    exact LexLe.antisymm h1 h2

theorem mem_pairs_split {l : List Coord} {e : Coord × Coord} (h : e ∈ pairs l) :
    ∃ pre post, l = pre ++ e.1 :: e.2 :: post := by
  induction l with
  | nil => rw [pairs_nil] at h; cases h
  | cons a t ih =>
    cases t with
    | nil => rw [pairs_single] at h; cases h
    | cons b t' =>
      rw [pairs_cons2] at h
      rcases List.mem_cons.mp h with rfl | h
      · exact ⟨[], t', rfl⟩
      · obtain ⟨pre, post, hp⟩ := ih h
        exact ⟨a :: pre, post, by rw [hp]; rfl⟩

theorem mem_pairs_of_split (pre : List Coord) (a o : Coord) (post : List Coord) :
    (a, o) ∈ pairs (pre ++ a :: o :: post) := by
  induction pre with
  | nil => rw [List.nil_append, pairs_cons2]; exact List.mem_cons_self
  | cons b t ih =>
    cases t with
    | nil => simp only [List.cons_append, List.nil_append] at ih ⊢; rw [pairs_cons2]; exact List.mem_cons_of_mem _ ih
    | cons c t' => simp only [List.cons_append] at ih ⊢; rw [pairs_cons2]; exact List.mem_cons_of_mem _ ih

theorem lastD_append_cons (x : Coord) (pre : List Coord) (o : Coord) : lastD x (pre ++ [o]) = o :=
  lastD_append_single x pre o

/-- the entry above a stack edge, if the edge is not at the top -/
theorem above_of_split {x : Coord} {r pre post : List Coord} {a o : Coord} (h : x :: r = pre ++ a :: o :: post) :
    a = x ∨ ∃ a', [a', a, o] <:+: x :: r := by
  rcases List.eq_nil_or_concat pre with rfl | ⟨pre', a', rfl⟩
  · left
    simp only [List.nil_append, List.cons.injEq] at h
    exact h.1.symm
  · right
    refine ⟨a', pre', post, ?_⟩
    rw [h]; simp [List.concat_eq_append]

/-- the entry below a stack edge, if the edge is not at the bottom -/
theorem below_of_split {x : Coord} {r pre post : List Coord} {a o : Coord} (h : x :: r = pre ++ a :: o :: post) :
    o = lastD x r ∨ ∃ o', [a, o, o'] <:+: x :: r := by
  cases post with
  | nil =>
    left
    cases pre with
    | nil =>
      simp only [List.nil_append, List.cons.injEq] at h
      obtain ⟨rfl, rfl⟩ := h
      rfl
    | cons b pre' =>
      simp only [List.cons_append, List.cons.injEq] at h
      obtain ⟨rfl, rfl⟩ := h
      have : pre' ++ [a, o] = (pre' ++ [a]) ++ [o] := by simp
      rw [this, lastD_append_single]
  | cons o' post' =>
    right
    exact ⟨o', pre, post', by rw [h]; simp⟩

namespace Good

variable {P : List Coord} {x : Coord} {r : List Coord}

theorem adj_ne (g : Good P x r) : ∀ e ∈ pairs (x :: r), e.1 ≠ e.2 := by
  intro e he heq
  obtain ⟨pre, post, hsp⟩ := mem_pairs_split he
  obtain ⟨a, o⟩ := e
  simp only at heq hsp
  subst heq
  rcases above_of_split hsp with hax | ⟨a', hinf⟩
  · rcases below_of_split hsp with hol | ⟨o', hinf⟩
    · exact g.ne (hax.symm.trans hol)
    · have := (isCW_iff o' a a).mp (Turns_infix g.turns a a o' hinf)
      rw [cross_self_right] at this; omega
  · have := (isCW_iff a a a').mp (Turns_infix g.turns a' a a hinf)
    rw [cross_self_left] at this; omega

/-- an input point collinear with a chain edge lies between the edge's end points -/
theorem between (g : Good P x r) {a o : Coord} (he : (a, o) ∈ pairs (x :: r)) {q : Coord} (hq : q ∈ P)
    (hcol : cross o a q = 0) : LexLe o q ∧ LexLe q a := by
  obtain ⟨pre, post, hsp⟩ := mem_pairs_split he
  simp only at hsp
  have hoa : LexLt o a := by
    refine ⟨?_, fun h => g.adj_ne _ he h.symm⟩
    have hd := g.desc
    rw [hsp] at hd
    have := (List.pairwise_append.mp hd).2.1
    exact (List.pairwise_cons.mp this).1 o List.mem_cons_self
  constructor
  · by_contra hn
    have hqo : LexLt q o := lexLt_of_not_le hn
    rcases below_of_split hsp with hol | ⟨o', hinf⟩
    · exact hn (hol ▸ g.bot q hq)
    · have hturn := (isCW_iff o' o a).mp (Turns_infix g.turns a o o' hinf)
      have hpair : (o, o') ∈ pairs (x :: r) := by
        obtain ⟨s, t, hst⟩ := hinf
        have : x :: r = (s ++ [a]) ++ o :: o' :: t := by rw [← hst]; simp
        rw [this]; exact mem_pairs_of_split _ _ _ _
      have hsup : 0 ≤ cross o' o q := g.sup _ hpair q hq
      have := collinear_before hoa hqo hcol hturn
      omega
  · by_contra hn
    have haq : LexLt a q := lexLt_of_not_le hn
    rcases above_of_split hsp with hax | ⟨a', hinf⟩
    · exact hn (hax ▸ g.top q hq)
    · have hturn := (isCW_iff o a a').mp (Turns_infix g.turns a' a o hinf)
      have hpair : (a', a) ∈ pairs (x :: r) := by
        obtain ⟨s, t, hst⟩ := hinf
        have : x :: r = s ++ a' :: a :: (o :: t) := by rw [← hst]; simp
        rw [this]; exact mem_pairs_of_split _ _ _ _
      have hsup : 0 ≤ cross a a' q := g.sup _ hpair q hq
      have := collinear_after hoa haq hcol hturn
      omega

theorem nodup_of_desc : ∀ (l : List Coord), Desc l → (∀ e ∈ pairs l, e.1 ≠ e.2) → l.Nodup := by
  intro l
  induction l with
  | nil => intro _ _; exact List.nodup_nil
  | cons a t ih =>
    intro hd hne
    have hd' := List.pairwise_cons.mp hd
    refine List.nodup_cons.mpr ⟨?_, ih hd'.2 (fun e he => hne e (pairs_suffix (List.suffix_cons _ _) e he))⟩
    intro hmem
    cases t with
    | nil => cases hmem
    | cons o t' =>
      have hao : a ≠ o := hne (a, o) (by rw [pairs_cons2]; exact List.mem_cons_self)
      have h1 : LexLe o a := hd'.1 o List.mem_cons_self
      have h2 : LexLe a o := by
        rcases List.mem_cons.mp hmem with h | h
        · exact absurd h hao
        · exact (List.pairwise_cons.mp hd'.2).1 a h
      exact hao (LexLe.antisymm h2 h1)

theorem nodup (g : Good P x r) : (x :: r).Nodup := nodup_of_desc _ g.desc g.adj_ne

/-- a chain vertex other than an edge's end points is not on the edge's line -/
theorem strict_same (g : Good P x r) {a o : Coord} (he : (a, o) ∈ pairs (x :: r)) {p : Coord}
    (hp : p ∈ x :: r) (hpa : p ≠ a) (hpo : p ≠ o) : cross o a p ≠ 0 := by
  intro hcol
  obtain ⟨h1, h2⟩ := g.between he (g.sub p hp) hcol
  obtain ⟨pre, post, hsp⟩ := mem_pairs_split he
  simp only at hsp
  have hd := g.desc
  rw [hsp] at hd hp
  rcases List.mem_append.mp hp with hm | hm
  · -- p is above a
    have : LexLe a p := (List.pairwise_append.mp hd).2.2 p hm a List.mem_cons_self
    exact hpa (LexLe.antisymm h2 this)
  · rcases List.mem_cons.mp hm with h | hm
    · exact hpa h
    · rcases List.mem_cons.mp hm with h | hm
      · exact hpo h
      · have hd2 := (List.pairwise_append.mp hd).2.1
        have : LexLe p o := (List.pairwise_cons.mp (List.pairwise_cons.mp hd2).2).1 p hm
        exact hpo (LexLe.antisymm this h1)

/-- an interior position in a list -/
theorem interior_split {l : List Coord} {p : Coord} (hp : p ∈ l) (hhead : l.head? ≠ some p)
    (hlast : ∀ x r, l = x :: r → lastD x r ≠ p) : ∃ pre a o post, l = pre ++ a :: p :: o :: post := by
  obtain ⟨s, t, hst⟩ := List.mem_iff_append.mp hp
  rcases List.eq_nil_or_concat s with rfl | ⟨s', a, rfl⟩
  · exfalso; apply hhead; rw [hst]; rfl
  · cases t with
    | nil =>
      exfalso
      rw [List.concat_eq_append] at hst
      cases s' with
      | nil => exact hlast a [p] (by rw [hst]; rfl) rfl
      | cons b s'' =>
        refine hlast b (s'' ++ [a] ++ [p]) (by rw [hst]; simp) ?_
        rw [lastD_append_single]
    | cons o post => exact ⟨s', a, o, post, by rw [hst, List.concat_eq_append]; simp⟩

/-- a vertex of the other chain (a `Good` chain of the reflected points) is not on an edge's line either -/
theorem strict_other {P' : List Coord} {y : Coord} {s : List Coord} (g : Good P x r) (g' : Good P' y s)
    (h1 : ∀ q ∈ P, neg q ∈ P') (h2 : ∀ q' ∈ P', neg q' ∈ P)
    {a o : Coord} (he : (a, o) ∈ pairs (x :: r)) {p' : Coord} (hp' : p' ∈ y :: s)
    (hpa : neg p' ≠ a) (hpo : neg p' ≠ o) : cross o a (neg p') ≠ 0 := by
  intro hcol
  have hpP : neg p' ∈ P := h2 p' (g'.sub p' hp')
  obtain ⟨hop, hpa'⟩ := g.between he hpP hcol
  have haP : a ∈ P := g.sub a (by
    obtain ⟨pre, post, hsp⟩ := mem_pairs_split he
    simp only at hsp; rw [hsp]; simp)
  have hoP : o ∈ P := g.sub o (by
    obtain ⟨pre, post, hsp⟩ := mem_pairs_split he
    simp only at hsp; rw [hsp]; simp)
  -- in reflected coordinates: neg a ≺ p' ≺ neg o
  have hup : LexLt (neg a) p' := by
    refine ⟨?_, ?_⟩
    · have := LexLe_neg.mpr hpa'
      rwa [neg_neg] at this
    · intro h; apply hpa; rw [← h, neg_neg]
  have hpv : LexLt p' (neg o) := by
    refine ⟨?_, ?_⟩
    · have := LexLe_neg.mpr hop
      rwa [neg_neg] at this
    · intro h; apply hpo; rw [h, neg_neg]
  have hcol' : cross (neg a) (neg o) p' = 0 := by
    have : cross (neg a) (neg o) (neg (neg p')) = cross a o (neg p') := cross_neg _ _ _
    rw [neg_neg] at this
    rw [this, cross_flip]; omega
  -- p' is an interior vertex of the other chain
  have hint : ∃ pre a2 o2 post, y :: s = pre ++ a2 :: p' :: o2 :: post := by
    apply interior_split hp'
    · intro h
      simp only [List.head?_cons, Option.some.injEq] at h
      -- p' = y is the maximum of P', but neg o is larger
      have := g'.top (neg o) (h1 o hoP)
      rw [h] at this
      exact hpv.2 (LexLe.antisymm hpv.1 this)
    · intro x' r' hx hl
      simp only [List.cons.injEq] at hx
      obtain ⟨rfl, rfl⟩ := hx
      have := g'.bot (neg a) (h1 a haP)
      rw [hl] at this
      exact hup.2 (LexLe.antisymm hup.1 this).symm.symm
  obtain ⟨pre, a2, o2, post, hsp⟩ := hint
  have hturn : 0 < cross o2 p' a2 := (isCW_iff o2 p' a2).mp (Turns_infix g'.turns a2 p' o2 ⟨pre, post, by rw [hsp]; simp⟩)
  have hpair1 : (a2, p') ∈ pairs (y :: s) := by rw [hsp]; exact mem_pairs_of_split _ _ _ _
  have hpair2 : (p', o2) ∈ pairs (y :: s) := by
    have : y :: s = (pre ++ [a2]) ++ p' :: o2 :: post := by rw [hsp]; simp
    rw [this]; exact mem_pairs_of_split _ _ _ _
  have hna : neg a ∈ P' := h1 a haP
  have hno : neg o ∈ P' := h1 o hoP
  have l1 : cross p' a2 (neg o) = 0 :=
    on_line_of_between hup hpv hcol' (g'.sup _ hpair1 _ hna) (g'.sup _ hpair1 _ hno)
  have l2 : cross p' o2 (neg o) = 0 :=
    on_line_of_between' hup hpv hcol' (g'.sup _ hpair2 _ hna) (g'.sup _ hpair2 _ hno)
  have l3 : cross p' a2 o2 = 0 := collinear_of_on_line hpv.2 l1 l2
  rw [cross_cycle] at l3
  omega

/-- no point is an interior vertex of both chains -/
theorem not_interior_both {P' : List Coord} {y : Coord} {s : List Coord} (g : Good P x r) (g' : Good P' y s)
    (h1 : ∀ q ∈ P, neg q ∈ P') (h2 : ∀ q' ∈ P', neg q' ∈ P)
    {pre post pre2 post2 : List Coord} {a p o a2 o2 : Coord}
    (hC : x :: r = pre ++ a :: p :: o :: post) (hD : y :: s = pre2 ++ a2 :: neg p :: o2 :: post2) : False := by
  have hpairC : (a, p) ∈ pairs (x :: r) := by rw [hC]; exact mem_pairs_of_split _ _ _ _
  have hpairD : (a2, neg p) ∈ pairs (y :: s) := by rw [hD]; exact mem_pairs_of_split _ _ _ _
  have haC : a ∈ P := g.sub a (by rw [hC]; simp)
  have ha2D : a2 ∈ P' := g'.sub a2 (by rw [hD]; simp)
  -- neg a2 is strictly before p
  have hlt : LexLt (neg a2) p := by
    have hd := g'.desc
    rw [hD] at hd
    have h3 := (List.pairwise_append.mp hd).2.1
    have hle : LexLe (neg p) a2 := (List.pairwise_cons.mp h3).1 (neg p) List.mem_cons_self
    refine ⟨?_, ?_⟩
    · have := LexLe_neg.mpr hle
      rwa [neg_neg] at this
    · intro h
      have : a2 = neg p := by rw [← h, neg_neg]
      exact g'.adj_ne _ hpairD this
  have s1 : 0 ≤ cross p a (neg a2) := g.sup _ hpairC _ (h2 a2 ha2D)
  have s2 : 0 ≤ cross (neg p) a2 (neg a) := g'.sup _ hpairD _ (h1 a haC)
  have e : cross (neg p) a2 (neg a) = cross p (neg a2) a := by
    have := cross_neg p (neg a2) a
    rw [neg_neg] at this; exact this
  rw [e, cross_swap] at s2
  have hcol : cross p a (neg a2) = 0 := by omega
  obtain ⟨hb1, _⟩ := g.between hpairC (h2 a2 ha2D) hcol
  exact hlt.2 (LexLe.antisymm hlt.1 hb1)

end Good

end Tbx.Geo
