import Tbx.Model.LruL1
/-
Separation-style lemmas for the pointer model (L1): what a chain of nodes in memory is (`Seg`),
how it splits, and how single-field writes act on it.

A chain is described by the list of its (address, element) pairs FRONT FIRST.  In memory,
`next` of a node is the address of its predecessor in that list (towards the front) and `prev`
the address of its successor (towards the back).
-/
namespace Tbx.LruL1
open Tbx

variable {T : Type}

/-- address of the first node of `l`, or `pv` if `l` is empty -/
def headOr : List (Nat × T) → Option Nat → Option Nat
  | [], pv => pv
  | (a, _) :: _, _ => some a

/-- address of the last node of `l`, or `nx` if `l` is empty -/
def lastOr : List (Nat × T) → Option Nat → Option Nat
  | [], nx => nx
  | (a, _) :: r, _ => lastOr r (some a)

/-- `l` is laid out in `cells` as a doubly linked chain whose first node's `next` is `nx` and whose
    last node's `prev` is `pv` -/
def Seg (cells : Array (Option (Node T))) : Option Nat → List (Nat × T) → Option Nat → Prop
  | _, [], _ => True
  | nx, (a, t) :: rest, pv => gt cells a = some ⟨nx, headOr rest pv, t⟩ ∧ Seg cells (some a) rest pv

abbrev addrs (l : List (Nat × T)) : List Nat := l.map (·.1)

theorem headOr_append (l1 l2 : List (Nat × T)) (pv : Option Nat) :
    headOr (l1 ++ l2) pv = headOr l1 (headOr l2 pv) := by
  cases l1 with
  | nil => rfl
  | cons p l1 => rfl

theorem lastOr_append (l1 l2 : List (Nat × T)) (nx : Option Nat) :
    lastOr (l1 ++ l2) nx = lastOr l2 (lastOr l1 nx) := by
  induction l1 generalizing nx with
  | nil => rfl
  | cons p l1 ih => exact ih _

theorem lastOr_concat (l : List (Nat × T)) (a : Nat) (t : T) (nx : Option Nat) :
    lastOr (l ++ [(a, t)]) nx = some a := by
  rw [lastOr_append]; rfl

theorem lastOr_cons_indep (p : Nat × T) (l : List (Nat × T)) (nx nx' : Option Nat) :
    lastOr (p :: l) nx = lastOr (p :: l) nx' := rfl

theorem lastOr_ne_nil (l : List (Nat × T)) (h : l ≠ []) (nx nx' : Option Nat) :
    lastOr l nx = lastOr l nx' := by
  cases l with
  | nil => exact absurd rfl h
  | cons p l => rfl

theorem headOr_eq_head? (l : List (Nat × T)) : headOr l none = l.head?.map (·.1) := by
  cases l with
  | nil => rfl
  | cons p l => rfl

theorem lastOr_eq_getLast? (l : List (Nat × T)) (nx : Option Nat) :
    lastOr l nx = (l.getLast?.map (·.1)).or nx := by
  induction l generalizing nx with
  | nil => rfl
  | cons p l ih =>
    show lastOr l (some p.1) = _
    rw [ih]
    cases l with
    | nil => rfl
    | cons q l =>
      rw [List.getLast?_cons_cons]
      cases h : (q :: l).getLast? with
      | none => simp at h
      | some r => simp

theorem seg_append (cells : Array (Option (Node T))) (l1 l2 : List (Nat × T)) (nx pv : Option Nat) :
    Seg cells nx (l1 ++ l2) pv ↔ Seg cells nx l1 (headOr l2 pv) ∧ Seg cells (lastOr l1 nx) l2 pv := by
  induction l1 generalizing nx with
  | nil => simp [Seg, lastOr]
  | cons p l1 ih =>
    obtain ⟨a, t⟩ := p
    simp only [List.cons_append, Seg, lastOr, headOr_append, ih, and_assoc]

/-- writes outside the chain do not matter -/
theorem seg_frame (cells cells' : Array (Option (Node T))) (l : List (Nat × T)) (nx pv : Option Nat)
    (h : ∀ a ∈ addrs l, gt cells' a = gt cells a) (hs : Seg cells nx l pv) : Seg cells' nx l pv := by
  induction l generalizing nx with
  | nil => trivial
  | cons p l ih =>
    obtain ⟨a, t⟩ := p
    simp only [Seg] at hs ⊢
    refine ⟨by rw [h a (by simp [addrs])]; exact hs.1, ih _ (fun a' ha' => h a' (by simp [addrs] at ha' ⊢; exact Or.inr ha')) hs.2⟩

/-- every node of the chain is live and carries its element -/
theorem seg_mem (cells : Array (Option (Node T))) (l : List (Nat × T)) (nx pv : Option Nat)
    (hs : Seg cells nx l pv) (a : Nat) (t : T) (hm : (a, t) ∈ l) :
    ∃ n, gt cells a = some n ∧ n.elem = t := by
  induction l generalizing nx with
  | nil => cases hm
  | cons p l ih =>
    obtain ⟨a', t'⟩ := p
    simp only [Seg] at hs
    rcases List.mem_cons.1 hm with e | e
    · cases e; exact ⟨_, hs.1, rfl⟩
    · exact ih _ hs.2 e

theorem seg_live (cells : Array (Option (Node T))) (l : List (Nat × T)) (nx pv : Option Nat)
    (hs : Seg cells nx l pv) (a : Nat) (hm : a ∈ addrs l) : ∃ n, gt cells a = some n := by
  obtain ⟨p, hp, rfl⟩ := List.mem_map.1 hm
  obtain ⟨n, hn, _⟩ := seg_mem cells l nx pv hs p.1 p.2 hp
  exact ⟨n, hn⟩

/-- a live cell is inside the array -/
theorem lt_size_of_gt_some (cells : Array (Option (Node T))) (a : Nat) (n : Node T)
    (h : gt cells a = some n) : a < cells.size := by
  by_cases hlt : a < cells.size
  · exact hlt
  · rw [gt_of_ge cells a (by omega)] at h; cases h

/-- overwrite the `next` field of the first node -/
theorem seg_set_head_next (cells : Array (Option (Node T))) (c : Nat) (t : T) (l : List (Nat × T))
    (nx nx' pv : Option Nat) (hnd : c ∉ addrs l) (hs : Seg cells nx ((c, t) :: l) pv) :
    Seg (st cells c (some ⟨nx', headOr l pv, t⟩)) nx' ((c, t) :: l) pv := by
  simp only [Seg] at hs ⊢
  have hlt := lt_size_of_gt_some cells c _ hs.1
  refine ⟨gt_st_eq cells c _ hlt, seg_frame cells _ l _ _ ?_ hs.2⟩
  intro a ha
  exact gt_st_ne cells c a _ (fun e => hnd (e ▸ ha))

/-- overwrite the `prev` field of the last node -/
theorem seg_set_last_prev (cells : Array (Option (Node T))) (a : Nat) (t : T) (l : List (Nat × T))
    (nx pv pv' : Option Nat) (hnd : a ∉ addrs l) (hs : Seg cells nx (l ++ [(a, t)]) pv) :
    Seg (st cells a (some ⟨lastOr l nx, pv', t⟩)) nx (l ++ [(a, t)]) pv' := by
  rw [seg_append] at hs ⊢
  obtain ⟨h1, h2⟩ := hs
  simp only [Seg, headOr, and_true] at h2 ⊢
  have hlt := lt_size_of_gt_some cells a _ h2
  refine ⟨seg_frame cells _ l _ _ ?_ h1, gt_st_eq cells a _ hlt⟩
  intro a' ha'
  exact gt_st_ne cells a a' _ (fun e => hnd (e ▸ ha'))

/-! ### memory primitives on live cells -/

theorem rd_ok (m : Mem T) (a : Nat) (n : Node T) (h : gt m.cells a = some n) : m.rd a = .ok n := by
  have := lt_size_of_gt_some m.cells a n h
  simp [Mem.rd, this, h]

theorem setNext_ok (m : Mem T) (a : Nat) (n : Node T) (v : Option Nat) (h : gt m.cells a = some n) :
    m.setNext a v = .ok { m with cells := st m.cells a (some { n with next := v }) } := by
  simp [Mem.setNext, rd_ok m a n h]

theorem setPrev_ok (m : Mem T) (a : Nat) (n : Node T) (v : Option Nat) (h : gt m.cells a = some n) :
    m.setPrev a v = .ok { m with cells := st m.cells a (some { n with prev := v }) } := by
  simp [Mem.setPrev, rd_ok m a n h]

theorem setElem_ok (m : Mem T) (a : Nat) (n : Node T) (t : T) (h : gt m.cells a = some n) :
    m.setElem a t = .ok ({ m with cells := st m.cells a (some { n with elem := t }) }, n.elem) := by
  simp [Mem.setElem, rd_ok m a n h]

theorem free_ok (m : Mem T) (a : Nat) (n : Node T) (h : gt m.cells a = some n) :
    m.free a = .ok ({ cells := st m.cells a none, freed := a :: m.freed }, n) := by
  simp [Mem.free, rd_ok m a n h]

/-- overwriting a live cell by a live cell keeps the set of live addresses -/
theorem isSome_st_some (cells : Array (Option (Node T))) (a a' : Nat) (n n' : Node T)
    (h : gt cells a = some n) : (gt (st cells a (some n')) a').isSome = (gt cells a').isSome := by
  rw [gt_st]
  split
  · rename_i hc; rw [← hc.1, h]; rfl
  · rfl

theorem eq_none_st_some (cells : Array (Option (Node T))) (a a' : Nat) (n n' : Node T)
    (h : gt cells a = some n) : gt (st cells a (some n')) a' = none ↔ gt cells a' = none := by
  have := isSome_st_some cells a a' n n' h
  constructor
  · intro e; rw [e] at this; cases h' : gt cells a' with
    | none => rfl
    | some x => rw [h'] at this; cases this
  · intro e; rw [e] at this; cases h' : gt (st cells a (some n')) a' with
    | none => rfl
    | some x => rw [h'] at this; cases this

end Tbx.LruL1
