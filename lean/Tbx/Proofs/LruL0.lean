import Tbx.Spec.Lru
/-
Lemmas about the abstract recency list (L0): invariant (distinct keys, length ≤ capacity),
behaviour of `lookup` under every operation, and the recency invariant that ties the order of the
list to `lastUse` of the operation history.
-/
namespace Tbx.LruL0
open Tbx.LruSpec

set_option linter.unusedSectionVars false
variable {K V : Type} [DecidableEq K]

theorem contains_iff (s : Cache K V) (k : K) : contains s k = true ↔ k ∈ keys s := by
  simp [contains, keys]

theorem contains_false_iff (s : Cache K V) (k : K) : contains s k = false ↔ k ∉ keys s := by
  rw [← contains_iff]; cases contains s k <;> simp

theorem keys_remove (l : List (K × V)) (k : K) :
    (remove l k).map (·.1) = (l.map (·.1)).filter (fun k' => !(k' == k)) := by
  simp [remove, List.filter_map, Function.comp_def]

theorem not_mem_keys_remove (l : List (K × V)) (k : K) : k ∉ (remove l k).map (·.1) := by
  rw [keys_remove]; simp

theorem mem_keys_remove (l : List (K × V)) (k k' : K) :
    k' ∈ (remove l k).map (·.1) ↔ k' ∈ l.map (·.1) ∧ k' ≠ k := by
  rw [keys_remove]; simp

theorem nodup_keys_remove (l : List (K × V)) (k : K) (h : (l.map (·.1)).Nodup) :
    ((remove l k).map (·.1)).Nodup := by
  rw [keys_remove]; exact h.filter _

/-- with distinct keys, removing a present key shortens the list by exactly one -/
theorem length_remove (l : List (K × V)) (k : K) (h : (l.map (·.1)).Nodup) (hk : k ∈ l.map (·.1)) :
    (remove l k).length + 1 = l.length := by
  induction l with
  | nil => simp at hk
  | cons p l ih =>
    simp only [List.map_cons, List.nodup_cons] at h
    by_cases hp : p.1 = k
    · have hnot : k ∉ l.map (·.1) := hp ▸ h.1
      have hr : remove l k = l := by
        simp only [remove, List.filter_eq_self]
        intro q hq
        have : q.1 ≠ k := fun e => hnot (e ▸ List.mem_map_of_mem hq)
        simp [this]
      have e : remove (p :: l) k = remove l k := by simp [remove, List.filter_cons, hp]
      rw [e, hr]; simp
    · have hk' : k ∈ l.map (·.1) := by
        simp only [List.map_cons, List.mem_cons] at hk
        rcases hk with e | e
        · exact absurd e.symm hp
        · exact e
      have := ih h.2 hk'
      have e : remove (p :: l) k = p :: remove l k := by simp [remove, List.filter_cons, hp]
      rw [e]; simp only [List.length_cons]; omega

/-- with distinct keys, the entry found for `k` splits the list, and `remove` is the rest -/
theorem find_split (l : List (K × V)) (k : K) (p : K × V) (h : (l.map (·.1)).Nodup)
    (hf : l.find? (fun q => q.1 == k) = some p) :
    p.1 = k ∧ ∃ l1 l2, l = l1 ++ p :: l2 ∧ remove l k = l1 ++ l2 := by
  induction l with
  | nil => simp at hf
  | cons q l ih =>
    simp only [List.map_cons, List.nodup_cons] at h
    by_cases hq : q.1 = k
    · simp [List.find?, hq] at hf
      subst hf
      refine ⟨hq, [], l, rfl, ?_⟩
      have hnot : k ∉ l.map (·.1) := hq ▸ h.1
      simp only [remove, List.nil_append]
      rw [List.filter_cons]
      simp only [hq, beq_self_eq_true, Bool.not_true, Bool.false_eq_true, if_false]
      rw [List.filter_eq_self]
      intro r hr
      have : r.1 ≠ k := fun e => hnot (e ▸ List.mem_map_of_mem hr)
      simp [this]
    · have hq' : (q.1 == k) = false := by simpa using hq
      simp only [List.find?, hq'] at hf
      obtain ⟨h1, l1, l2, e1, e2⟩ := ih h.2 hf
      refine ⟨h1, q :: l1, l2, by simp [e1], ?_⟩
      simp only [remove] at e2 ⊢
      rw [List.filter_cons]
      simp [hq', e2]

/-! ### the invariant -/

/-- distinct keys, at most `cap` entries -/
structure Inv (s : Cache K V) : Prop where
  nodup : (keys s).Nodup
  le_cap : s.items.length ≤ s.cap

theorem inv_init (cap : Nat) : Inv (init cap : Cache K V) := ⟨by simp [init, keys], by simp [init]⟩

theorem cap_push (s : Cache K V) (k : K) (v : V) : (push s k v).cap = s.cap := by
  unfold push; split <;> first | rfl | (split <;> rfl)

theorem cap_get (s : Cache K V) (k : K) : (get s k).1.cap = s.cap := by
  unfold get; split <;> rfl

theorem cap_setFront (s : Cache K V) (v : V) : (setFront s v).1.cap = s.cap := by
  unfold setFront; split <;> rfl

theorem cap_step (s : Cache K V) (op : Op K V) : (step s op).1.cap = s.cap := by
  cases op <;> simp [step, cap_push, cap_get, cap_setFront, clear]

theorem inv_push (s : Cache K V) (k : K) (v : V) (hc : 1 ≤ s.cap) (h : Inv s) : Inv (push s k v) := by
  obtain ⟨hn, hl⟩ := h
  unfold push
  split
  · rename_i hk
    rw [contains_iff] at hk
    constructor
    · simp only [keys, List.map_cons, List.nodup_cons]
      exact ⟨not_mem_keys_remove _ _, nodup_keys_remove _ _ hn⟩
    · have := length_remove s.items k hn hk
      simp only [List.length_cons]; omega
  · rename_i hk
    have hk' : k ∉ keys s := by rw [← contains_iff]; exact hk
    split
    · rename_i hfull
      constructor
      · simp only [keys, List.map_cons, List.nodup_cons, List.map_dropLast]
        refine ⟨fun hm => hk' (List.dropLast_subset _ hm), ?_⟩
        exact hn.sublist (List.dropLast_sublist _)
      · simp only [List.length_cons, List.length_dropLast]; omega
    · rename_i hnf
      constructor
      · simp only [keys, List.map_cons, List.nodup_cons]
        exact ⟨hk', hn⟩
      · simp only [List.length_cons]; omega

theorem inv_get (s : Cache K V) (k : K) (h : Inv s) : Inv (get s k).1 := by
  obtain ⟨hn, hl⟩ := h
  unfold get
  split
  · rename_i p hf
    obtain ⟨hp, l1, l2, e1, e2⟩ := find_split s.items k p hn hf
    have hk : k ∈ s.items.map (·.1) := by rw [e1]; simp [hp]
    constructor
    · simp only [keys, List.map_cons, List.nodup_cons, hp]
      exact ⟨not_mem_keys_remove _ _, nodup_keys_remove _ _ hn⟩
    · have := length_remove s.items k hn hk
      simp only [List.length_cons]; omega
  · exact ⟨hn, hl⟩

theorem inv_setFront (s : Cache K V) (v : V) (h : Inv s) : Inv (setFront s v).1 := by
  obtain ⟨hn, hl⟩ := h
  unfold setFront
  split
  · exact ⟨hn, hl⟩
  · rename_i k old rest e
    constructor
    · simp only [keys, e, List.map_cons] at hn ⊢; exact hn
    · simp only [e, List.length_cons] at hl ⊢; exact hl

theorem inv_step (s : Cache K V) (op : Op K V) (hc : 1 ≤ s.cap) (h : Inv s) : Inv (step s op).1 := by
  cases op with
  | push k v => exact inv_push s k v hc h
  | get k => exact inv_get s k h
  | contains k => exact h
  | front => exact h
  | setFront v => exact inv_setFront s v h
  | clear => exact ⟨by simp [step, clear, keys], by simp [step, clear]⟩
  | len => exact h

theorem run_snoc (s : Cache K V) (ops : List (Op K V)) (op : Op K V) :
    run s (ops ++ [op]) = (step (run s ops) op).1 := by
  simp [run, List.foldl_append]

theorem run_cons (s : Cache K V) (ops : List (Op K V)) (op : Op K V) :
    run s (op :: ops) = run (step s op).1 ops := by
  simp [run]

theorem cap_run (s : Cache K V) (ops : List (Op K V)) : (run s ops).cap = s.cap := by
  induction ops using snoc_induction with
  | nil => rfl
  | snoc ops op ih => rw [run_snoc, cap_step, ih]

theorem inv_run (s : Cache K V) (ops : List (Op K V)) (hc : 1 ≤ s.cap) (h : Inv s) : Inv (run s ops) := by
  induction ops using snoc_induction with
  | nil => exact h
  | snoc ops op ih => rw [run_snoc]; exact inv_step _ op (by rw [cap_run]; exact hc) ih

end Tbx.LruL0
