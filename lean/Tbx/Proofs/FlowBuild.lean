import Tbx.Proofs.FlowCsr
import Tbx.Proofs.FlowEK
/-
C01 `merge_cap`: the residual graph the solvers build from an edge list (append reversed zero-capacity
copies, sort, `dedup_by` summing parallel capacities, CSR) is well formed, has max id + 1 nodes, has
non-negative capacities, and its pair residual equals the merged input capacity — so the initial state
satisfies the loop invariant `FInv` with flow 0.  Holds for both comparators (Dinic: (source,target);
EdmondsKarp/FordFulkerson: derived `Ord`).
-/
namespace Tbx.Flow
open Tbx Tbx.FlowTheory Tbx.FlowSpec

/-! ### insertion sort -/

theorem mem_insertSorted (le : Edge → Edge → Bool) (x y : Edge) (L : List Edge) :
    y ∈ insertSorted le x L ↔ y = x ∨ y ∈ L := by
  induction L with
  | nil => simp [insertSorted]
  | cons a L ih =>
    simp only [insertSorted]
    split
    · simp
    · simp only [List.mem_cons, ih]
      constructor
      · rintro (h | h | h)
        · exact Or.inr (Or.inl h)
        · exact Or.inl h
        · exact Or.inr (Or.inr h)
      · rintro (h | h | h)
        · exact Or.inr (Or.inl h)
        · exact Or.inl h
        · exact Or.inr (Or.inr h)

theorem mem_sortBy (le : Edge → Edge → Bool) (y : Edge) (L : List Edge) : y ∈ sortBy le L ↔ y ∈ L := by
  induction L with
  | nil => simp [sortBy]
  | cons a L ih => simp only [sortBy, mem_insertSorted, ih, List.mem_cons]

theorem capE_cons (a : Edge) (L : List Edge) (u v : Nat) :
    capE (a :: L) u v = (if a.src = u ∧ a.tgt = v then a.cap else 0) + capE L u v := by
  simp [capE]

theorem capE_insertSorted (le : Edge → Edge → Bool) (x : Edge) (L : List Edge) (u v : Nat) :
    capE (insertSorted le x L) u v = capE (x :: L) u v := by
  induction L with
  | nil => rfl
  | cons a L ih =>
    simp only [insertSorted]
    split
    · rfl
    · rw [capE_cons, ih, capE_cons, capE_cons, capE_cons]; omega

theorem capE_sortBy (le : Edge → Edge → Bool) (L : List Edge) (u v : Nat) :
    capE (sortBy le L) u v = capE L u v := by
  induction L with
  | nil => rfl
  | cons a L ih => simp only [sortBy]; rw [capE_insertSorted, capE_cons, capE_cons, ih]

/-- a comparator that respects the order of the sources -/
def SrcLe (le : Edge → Edge → Bool) : Prop :=
  ∀ a b, (le a b = true → a.src ≤ b.src) ∧ (le a b = false → b.src ≤ a.src)

theorem leST_srcLe : SrcLe leST := by
  intro a b; unfold leST
  constructor
  · intro h; split at h
    · omega
    · simpa using h
  · intro h; split at h
    · omega
    · have : ¬ a.src ≤ b.src := by simpa using h
      omega

theorem leOrd_srcLe : SrcLe leOrd := by
  intro a b; unfold leOrd
  constructor
  · intro h; split at h
    · have : a.src < b.src := by simpa using h
      omega
    · rename_i h1; have : a.src = b.src := by simpa using h1
      omega
  · intro h; split at h
    · have : ¬ a.src < b.src := by simpa using h
      omega
    · rename_i h1; have : a.src = b.src := by simpa using h1
      omega

theorem insertSorted_srcSorted (le : Edge → Edge → Bool) (hle : SrcLe le) (x : Edge) (L : List Edge)
    (h : SrcSorted L) : SrcSorted (insertSorted le x L) := by
  induction L with
  | nil => simp [insertSorted, SrcSorted]
  | cons a L ih =>
    simp only [insertSorted]
    unfold SrcSorted at *
    rw [List.pairwise_cons] at h
    split
    · rename_i hc
      have hxa := (hle x a).1 hc
      rw [List.pairwise_cons]
      refine ⟨?_, List.pairwise_cons.mpr h⟩
      intro y hy
      rcases List.mem_cons.mp hy with rfl | h1
      · exact hxa
      · have := h.1 y h1; omega
    · rename_i hc
      have hax := (hle x a).2 (by simpa using hc)
      rw [List.pairwise_cons]
      refine ⟨?_, ih h.2⟩
      intro y hy
      rcases (mem_insertSorted le x y L).mp hy with rfl | h1
      · exact hax
      · exact h.1 y h1

theorem sortBy_srcSorted (le : Edge → Edge → Bool) (hle : SrcLe le) (L : List Edge) :
    SrcSorted (sortBy le L) := by
  induction L with
  | nil => simp [sortBy, SrcSorted]
  | cons a L ih => simp only [sortBy]; exact insertSorted_srcSorted le hle a _ ih

/-! ### `dedup_by` -/

theorem capE_dedupInto (L : List Edge) (u v : Nat) : ∀ cur, capE (dedupInto cur L) u v = capE (cur :: L) u v := by
  induction L with
  | nil => intro cur; rfl
  | cons a L ih =>
    intro cur
    simp only [dedupInto]
    split
    · rename_i hc
      rw [ih, capE_cons, capE_cons, capE_cons]
      simp only
      by_cases h1 : cur.src = u ∧ cur.tgt = v
      · have h2 : a.src = u ∧ a.tgt = v := ⟨hc.1 ▸ h1.1, hc.2 ▸ h1.2⟩
        rw [if_pos h1, if_pos h1, if_pos h2]; omega
      · have h2 : ¬ (a.src = u ∧ a.tgt = v) := fun h => h1 ⟨hc.1 ▸ h.1, hc.2 ▸ h.2⟩
        rw [if_neg h1, if_neg h1, if_neg h2]; omega
    · rw [capE_cons, ih, capE_cons, capE_cons, capE_cons]

theorem capE_dedupMerge (L : List Edge) (u v : Nat) : capE (dedupMerge L) u v = capE L u v := by
  cases L with
  | nil => rfl
  | cons a L => exact capE_dedupInto L u v a

/-- every element of the merged list has the (source,target) of an original one and vice versa, and
    non-negativity of capacities is kept -/
theorem dedupInto_mem (L : List Edge) : ∀ cur,
    (∀ y, y ∈ dedupInto cur L → ∃ y', y' ∈ cur :: L ∧ y.src = y'.src ∧ y.tgt = y'.tgt) ∧
    (∀ y', y' ∈ cur :: L → ∃ y, y ∈ dedupInto cur L ∧ y.src = y'.src ∧ y.tgt = y'.tgt) ∧
    ((∀ y', y' ∈ cur :: L → 0 ≤ y'.cap) → ∀ y, y ∈ dedupInto cur L → 0 ≤ y.cap) := by
  induction L with
  | nil =>
    intro cur
    simp only [dedupInto]
    exact ⟨fun y hy => ⟨y, hy, rfl, rfl⟩, fun y hy => ⟨y, hy, rfl, rfl⟩, fun h y hy => h y hy⟩
  | cons a L ih =>
    intro cur
    simp only [dedupInto]
    split
    · rename_i hc
      obtain ⟨i1, i2, i3⟩ := ih { cur with cap := cur.cap + a.cap }
      refine ⟨?_, ?_, ?_⟩
      · intro y hy
        obtain ⟨y', h1, h2, h3⟩ := i1 y hy
        rcases List.mem_cons.mp h1 with rfl | h4
        · exact ⟨cur, List.mem_cons_self, h2, h3⟩
        · exact ⟨y', List.mem_cons_of_mem _ (List.mem_cons_of_mem _ h4), h2, h3⟩
      · intro y' hy'
        rcases List.mem_cons.mp hy' with rfl | h4
        · obtain ⟨y, h1, h2, h3⟩ := i2 _ List.mem_cons_self
          exact ⟨y, h1, h2, h3⟩
        · rcases List.mem_cons.mp h4 with rfl | h5
          · obtain ⟨y, h1, h2, h3⟩ := i2 _ List.mem_cons_self
            exact ⟨y, h1, by rw [h2]; exact hc.1.symm, by rw [h3]; exact hc.2.symm⟩
          · exact i2 y' (List.mem_cons_of_mem _ h5)
      · intro hnn y hy
        apply i3 _ y hy
        intro y' hy'
        rcases List.mem_cons.mp hy' with rfl | h4
        · have := hnn cur List.mem_cons_self
          have := hnn a (List.mem_cons_of_mem _ List.mem_cons_self)
          show 0 ≤ cur.cap + a.cap; omega
        · exact hnn y' (List.mem_cons_of_mem _ (List.mem_cons_of_mem _ h4))
    · obtain ⟨i1, i2, i3⟩ := ih a
      refine ⟨?_, ?_, ?_⟩
      · intro y hy
        rcases List.mem_cons.mp hy with rfl | h1
        · exact ⟨y, List.mem_cons_self, rfl, rfl⟩
        · obtain ⟨y', h2, h3, h4⟩ := i1 y h1
          exact ⟨y', List.mem_cons_of_mem _ h2, h3, h4⟩
      · intro y' hy'
        rcases List.mem_cons.mp hy' with rfl | h1
        · exact ⟨y', List.mem_cons_self, rfl, rfl⟩
        · obtain ⟨y, h2, h3, h4⟩ := i2 y' h1
          exact ⟨y, List.mem_cons_of_mem _ h2, h3, h4⟩
      · intro hnn y hy
        rcases List.mem_cons.mp hy with rfl | h1
        · exact hnn y List.mem_cons_self
        · exact i3 (fun y' hy' => hnn y' (List.mem_cons_of_mem _ hy')) y h1

theorem dedupInto_srcSorted (L : List Edge) : ∀ cur, (∀ y, y ∈ L → cur.src ≤ y.src) → SrcSorted L →
    SrcSorted (dedupInto cur L) ∧ ∀ y, y ∈ dedupInto cur L → cur.src ≤ y.src := by
  induction L with
  | nil =>
    intro cur _ _
    simp only [dedupInto, SrcSorted]
    exact ⟨List.pairwise_singleton _ _, fun y hy => by rw [List.mem_singleton] at hy; rw [hy]⟩
  | cons a L ih =>
    intro cur hle hs
    unfold SrcSorted at hs
    rw [List.pairwise_cons] at hs
    simp only [dedupInto]
    split
    · exact ih { cur with cap := cur.cap + a.cap }
        (fun y hy => hle y (List.mem_cons_of_mem _ hy)) hs.2
    · obtain ⟨i1, i2⟩ := ih a hs.1 hs.2
      have hca := hle a List.mem_cons_self
      refine ⟨?_, ?_⟩
      · unfold SrcSorted; rw [List.pairwise_cons]
        exact ⟨fun y hy => by have := i2 y hy; omega, i1⟩
      · intro y hy
        rcases List.mem_cons.mp hy with rfl | h1
        · exact Nat.le_refl _
        · have := i2 y h1; omega

theorem dedupMerge_srcSorted (L : List Edge) (h : SrcSorted L) : SrcSorted (dedupMerge L) := by
  cases L with
  | nil => simp [dedupMerge, SrcSorted]
  | cons a L =>
    unfold SrcSorted at h; rw [List.pairwise_cons] at h
    exact (dedupInto_srcSorted L a h.1 h.2).1

/-! ### ids -/

/-- `m` is the largest id occurring in the list (0 for no ids) -/
def IsMaxId (L : List Edge) (m : Nat) : Prop :=
  (∀ e, e ∈ L → e.src ≤ m ∧ e.tgt ≤ m) ∧ (m = 0 ∨ ∃ e, e ∈ L ∧ (e.src = m ∨ e.tgt = m))

theorem maxId_isMaxId (L : List Edge) : IsMaxId L (maxId L) :=
  ⟨le_maxId L, by unfold maxId; exact foldl_max_attained L 0⟩

theorem isMaxId_unique (L : List Edge) (m1 m2 : Nat) (h1 : IsMaxId L m1) (h2 : IsMaxId L m2) : m1 = m2 := by
  rcases h1.2 with z1 | ⟨e1, he1, a1⟩ <;> rcases h2.2 with z2 | ⟨e2, he2, a2⟩
  · omega
  · have := h1.1 e2 he2; omega
  · have := h2.1 e1 he1; omega
  · have := h1.1 e2 he2; have := h2.1 e1 he1; omega

/-- lists with the same set of ids have the same largest id -/
theorem isMaxId_transfer (L L' : List Edge) (m : Nat) (h : IsMaxId L m)
    (h1 : ∀ y, y ∈ L' → ∃ y', y' ∈ L ∧ (y.src = y'.src ∨ y.src = y'.tgt) ∧ (y.tgt = y'.src ∨ y.tgt = y'.tgt))
    (h2 : ∀ y', y' ∈ L → ∃ y, y ∈ L' ∧ (y'.src = y.src ∨ y'.src = y.tgt) ∧ (y'.tgt = y.src ∨ y'.tgt = y.tgt)) :
    IsMaxId L' m := by
  constructor
  · intro e he
    obtain ⟨y', a, b, c⟩ := h1 e he
    have := h.1 y' a
    omega
  · rcases h.2 with z | ⟨e, he, a⟩
    · exact Or.inl z
    · right
      obtain ⟨y, b, c, d⟩ := h2 e he
      refine ⟨y, b, ?_⟩
      have hy := h1 y b
      obtain ⟨y'', e1, _, _⟩ := hy
      have := h.1 y'' e1
      obtain ⟨z, hz, q1, q2⟩ := h1 y b
      have := h.1 z hz
      omega

theorem mem_extend (es : List Edge) (y : Edge) :
    y ∈ extend es ↔ y ∈ es ∨ ∃ e, e ∈ es ∧ y = { src := e.tgt, tgt := e.src, cap := 0 } := by
  unfold extend
  simp only [List.mem_append, List.mem_map]
  constructor
  · rintro (h | ⟨e, he, rfl⟩)
    · exact Or.inl h
    · exact Or.inr ⟨e, he, rfl⟩
  · rintro (h | ⟨e, he, rfl⟩)
    · exact Or.inl h
    · exact Or.inr ⟨e, he, rfl⟩

theorem capE_append (L1 L2 : List Edge) (u v : Nat) : capE (L1 ++ L2) u v = capE L1 u v + capE L2 u v := by
  simp [capE]

theorem capE_extend (es : List Edge) (u v : Nat) : capE (extend es) u v = capE es u v := by
  unfold extend
  rw [capE_append]
  have : capE (es.map fun e => ({ src := e.tgt, tgt := e.src, cap := 0 } : Edge)) u v = 0 := by
    induction es with
    | nil => rfl
    | cons a L ih => rw [List.map_cons, capE_cons, ih]; simp
  rw [this]; omega

/-- the list handed to `csr` by either constructor, for a comparator respecting sources -/
def mergedList (le : Edge → Edge → Bool) (es : List Edge) : List Edge := dedupMerge (sortBy le (extend es))

theorem mergedList_props (le : Edge → Edge → Bool) (hle : SrcLe le) (es : List Edge) :
    SrcSorted (mergedList le es) ∧ (∀ u v, capE (mergedList le es) u v = capE es u v) ∧
    IsMaxId (mergedList le es) (maxId es) ∧
    ((∀ e, e ∈ es → 0 ≤ e.cap) → ∀ y, y ∈ mergedList le es → 0 ≤ y.cap) := by
  unfold mergedList
  refine ⟨dedupMerge_srcSorted _ (sortBy_srcSorted le hle _), ?_, ?_, ?_⟩
  · intro u v; rw [capE_dedupMerge, capE_sortBy, capE_extend]
  · -- ids
    have hsorted : ∀ y, y ∈ sortBy le (extend es) ↔ y ∈ extend es := fun y => mem_sortBy le y _
    cases hL : sortBy le (extend es) with
    | nil =>
      -- then es is empty
      have : es = [] := by
        cases es with
        | nil => rfl
        | cons a t =>
          have : a ∈ sortBy le (extend (a :: t)) := (hsorted a).mpr ((mem_extend _ a).mpr (Or.inl List.mem_cons_self))
          rw [hL] at this; cases this
      subst this
      exact ⟨fun e he => (by cases he), Or.inl rfl⟩
    | cons a L =>
      obtain ⟨d1, d2, _⟩ := dedupInto_mem L a
      apply isMaxId_transfer es _ _ (maxId_isMaxId es)
      · intro y hy
        obtain ⟨y', m1, m2, m3⟩ := d1 y hy
        rw [← hL] at m1
        rcases (mem_extend es y').mp ((hsorted y').mp m1) with h | ⟨e, he, rfl⟩
        · exact ⟨y', h, Or.inl m2, Or.inr m3⟩
        · exact ⟨e, he, Or.inr m2, Or.inl m3⟩
      · intro y' hy'
        have : y' ∈ a :: L := by rw [← hL]; exact (hsorted y').mpr ((mem_extend es y').mpr (Or.inl hy'))
        obtain ⟨y, m1, m2, m3⟩ := d2 y' this
        exact ⟨y, m1, Or.inl m2.symm, Or.inr m3.symm⟩
  · intro hnn y hy
    cases hL : sortBy le (extend es) with
    | nil => rw [hL] at hy; simp [dedupMerge] at hy
    | cons a L =>
      rw [hL] at hy
      obtain ⟨_, _, d3⟩ := dedupInto_mem L a
      apply d3 _ y hy
      intro y' hy'
      rw [← hL] at hy'
      rcases (mem_extend es y').mp ((mem_sortBy le y' _).mp hy') with h | ⟨e, he, rfl⟩
      · exact hnn y' h
      · exact Int.le_refl _

/-- what `csr` yields on any list with the four properties of `mergedList_props` -/
theorem csr_props (L es : List Edge) (h1 : SrcSorted L) (h2 : ∀ u v, capE L u v = capE es u v)
    (h3 : IsMaxId L (maxId es)) (h4 : ∀ y, y ∈ L → 0 ≤ y.cap) :
    WF (csr L) ∧ (csr L).numNodes = maxId es + 1 ∧ NonNeg (csr L) ∧ ∀ u v, rOf (csr L) u v = capE es u v := by
  have hm : maxId L = maxId es := isMaxId_unique _ _ _ (maxId_isMaxId _) h3
  refine ⟨csr_wf _ h1, by rw [csr_numNodes _ h1, hm], ?_, fun u v => by rw [csr_rOf _ h1, h2]⟩
  intro e
  show 0 ≤ gt (L.toArray.map (·.cap)) e
  rcases Nat.lt_or_ge e L.length with hlt | hge
  · rw [gt_map_cap _ e hlt]; exact h4 _ (getD_mem _ e hlt)
  · rw [gt_of_ge _ _ (by simpa using hge)]; exact Int.le_refl _

/-- **merge_cap** for Dinic's constructor: sort by (source,target), merge, CSR -/
theorem merge_cap_dinic (es : List Edge) (hnn : ∀ e, e ∈ es → 0 ≤ e.cap) :
    WF (residualDinic es) ∧ (residualDinic es).numNodes = maxId es + 1 ∧
    NonNeg (residualDinic es) ∧ ∀ u v, rOf (residualDinic es) u v = capE es u v := by
  obtain ⟨h1, h2, h3, h4⟩ := mergedList_props leST leST_srcLe es
  exact csr_props _ es h1 h2 h3 (h4 hnn)

/-- **merge_cap** for the EdmondsKarp / FordFulkerson constructor: sort by the derived `Ord`, merge,
    `StaticGraph::new` (sorts once more), CSR -/
theorem merge_cap_ek (es : List Edge) (hnn : ∀ e, e ∈ es → 0 ≤ e.cap) :
    WF (residualEK es) ∧ (residualEK es).numNodes = maxId es + 1 ∧
    NonNeg (residualEK es) ∧ ∀ u v, rOf (residualEK es) u v = capE es u v := by
  obtain ⟨h1, h2, h3, h4⟩ := mergedList_props leOrd leOrd_srcLe es
  apply csr_props (sortBy leOrd (mergedList leOrd es)) es (sortBy_srcSorted leOrd leOrd_srcLe _)
  · intro u v; rw [capE_sortBy, h2]
  · exact isMaxId_transfer _ _ _ h3
      (fun y hy => ⟨y, (mem_sortBy _ _ _).mp hy, Or.inl rfl, Or.inr rfl⟩)
      (fun y hy => ⟨y, (mem_sortBy _ _ _).mpr hy, Or.inl rfl, Or.inr rfl⟩)
  · intro y hy; exact h4 hnn y ((mem_sortBy _ _ _).mp hy)

/-! ### link to the Spec's merged capacities -/

/-- the model's edge as the Spec's triple -/
def toE (e : Edge) : E := (e.src, e.tgt, e.cap)

theorem capE_eq_capOf (es : List Edge) (u v : Nat) : capE es u v = capOf (es.map toE) u v := by
  induction es with
  | nil => rfl
  | cons a L ih => rw [capE_cons, ih]; simp [capOf, toE]

theorem specMaxId_attained (es : List E) :
    FlowSpec.maxId es = 0 ∨ ∃ e, e ∈ es ∧ (e.1 = FlowSpec.maxId es ∨ e.2.1 = FlowSpec.maxId es) := by
  induction es with
  | nil => exact Or.inl rfl
  | cons a L ih =>
    simp only [FlowSpec.maxId, List.foldr_cons]
    rcases ih with h | ⟨e, he, h⟩
    · unfold FlowSpec.maxId at h
      rw [h]
      by_cases h0 : max (max a.1 a.2.1) 0 = 0
      · exact Or.inl h0
      · right; exact ⟨a, List.mem_cons_self, by omega⟩
    · unfold FlowSpec.maxId at h
      by_cases hc : max a.1 a.2.1 ≤ List.foldr (fun e m => max (max e.1 e.2.1) m) 0 L
      · right; refine ⟨e, List.mem_cons_of_mem _ he, ?_⟩
        have : max (max a.1 a.2.1) (List.foldr (fun e m => max (max e.1 e.2.1) m) 0 L) =
            List.foldr (fun e m => max (max e.1 e.2.1) m) 0 L := by omega
        rw [this]; exact h
      · right; exact ⟨a, List.mem_cons_self, by omega⟩

theorem maxId_eq_spec (es : List Edge) : maxId es = FlowSpec.maxId (es.map toE) := by
  apply isMaxId_unique es _ _ (maxId_isMaxId es)
  constructor
  · intro e he
    exact FlowTheory.le_maxId (es.map toE) (toE e) (List.mem_map_of_mem he)
  · rcases specMaxId_attained (es.map toE) with h | ⟨x, hx, h⟩
    · exact Or.inl h
    · obtain ⟨e, he, rfl⟩ := List.mem_map.mp hx
      exact Or.inr ⟨e, he, h⟩

/-- the initial state of a solver satisfies the loop invariant with flow 0 -/
theorem init_finv (g : Graph) (es : List Edge) (s t : Fin (nNodes (es.map toE)))
    (h : WF g ∧ g.numNodes = maxId es + 1 ∧ NonNeg g ∧ ∀ u v, rOf g u v = capE es u v) :
    FInv (cF (es.map toE) (nNodes (es.map toE))) s t g 0 := by
  obtain ⟨h1, h2, h3, h4⟩ := h
  have hrc : rF g (nNodes (es.map toE)) = cF (es.map toE) (nNodes (es.map toE)) := by
    funext u v; show rOf g u.val v.val = capOf (es.map toE) u.val v.val
    rw [h4, capE_eq_capOf]
  refine ⟨by rw [h2, maxId_eq_spec]; rfl, h1, h3, ⟨?_, ?_⟩, ?_, ?_⟩
  · intro u v; exact rOf_nonneg g h3 _ _
  · intro u v; rw [hrc]
  · intro u _ _; rw [hrc]; simp [resFlow]
  · rw [hrc]; simp [value, resFlow]

/-- **ek_ff_correct**: on every edge list with non-negative capacities, a `run` of the EdmondsKarp
    (`pop = popBack`, the DFS struct) or FordFulkerson (`pop = popFront`, the BFS struct) model that
    returns has computed the maximum s-t flow value of the merged input capacities, and `max_flow()`
    then returns it -/
theorem ek_ff_correct (es : List Edge) (s t : Nat) (hnn : ∀ e, e ∈ es → 0 ≤ e.cap) (hst : s ≠ t)
    (hN : nNodes (es.map toE) ≤ INV) (pop : List Nat → Option (Nat × List Nat)) (hp : PopOK pop)
    (fuel : Nat) (sv' : Solver) (h : (Solver.fromEdgeList es s t).run pop fuel = some sv') :
    ∃ (hs : s < nNodes (es.map toE)) (ht : t < nNodes (es.map toE)),
      IsMaxFlowValue (cF (es.map toE) (nNodes (es.map toE))) ⟨s, hs⟩ ⟨t, ht⟩ sv'.maxFlow ∧
      sv'.maxFlow? = .ok sv'.maxFlow := by
  have hm := merge_cap_ek es hnn
  have hnum : (residualEK es).numNodes = nNodes (es.map toE) := by rw [hm.2.1, maxId_eq_spec]; rfl
  have hguard : s < nNodes (es.map toE) ∧ t < nNodes (es.map toE) := by
    unfold Solver.run at h
    split at h
    · cases h
    · rename_i hg
      have : ¬ (s ≥ (residualEK es).numNodes ∨ t ≥ (residualEK es).numNodes) := hg
      rw [hnum] at this; omega
  refine ⟨hguard.1, hguard.2, ?_⟩
  have hi := init_finv (residualEK es) es ⟨s, hguard.1⟩ ⟨t, hguard.2⟩ hm
  obtain ⟨a, _, c, _⟩ := run_correct (fun e => hst (Fin.mk.inj e)) hN pop hp (Solver.fromEdgeList es s t) sv' fuel
    rfl rfl hi h
  refine ⟨a, ?_⟩
  unfold Solver.maxFlow? maxFlowOut; rw [c]; rfl

end Tbx.Flow
