import Tbx.Proofs.DijkstraInv
/-
The outer loops of both searches under `HeapLaws`: relaxing all out-edges (`RInv.all`), popping the
minimum (`LInv.pop`), the initial state (`LInv.start`), the lower-bound lemma over walks
(`LInv.walk_bound`) and the loop postconditions (`uniLoop_spec`, `o2mLoop_spec`).  No fuel
assumption: the specs say what holds IF the loop returns (`.fuel` is excluded in DijkstraFuel.lean).
-/
namespace Tbx.Dijkstra
open Tbx Tbx.AHeap
variable {Inv : Heap → Prop}

theorem RInv.congr {adj : Adj} {s u : Nat} {dist : Int} {D D' : Nat → Nat → Prop} {q : Heap}
    (R : RInv Inv adj s u dist D q) (h : ∀ a b, D a b ↔ D' a b) : RInv Inv adj s u dist D' q :=
  { toCore := R.toCore, cur := R.cur, closed := R.closed,
    done := fun a b hab => R.done a b ((h a b).mpr hab), le_cur := R.le_cur,
    par_cur := fun x hx hxs hp => by
      obtain ⟨w, hw⟩ := R.par_cur x hx hxs hp
      exact ⟨w, (h _ _).mp hw⟩ }

theorem RInv.all (L : HeapLaws Inv) {adj : Adj} {s u : Nat} {dist : Int} (es : List (Nat × Nat))
    {D : Nat → Nat → Prop} {q : Heap} (R : RInv Inv adj s u dist D q) (hes : ∀ e ∈ es, e ∈ adj u) :
    ∃ q', relaxAll q u dist es = some q' ∧ RInv Inv adj s u dist (fun a b => D a b ∨ (a, b) ∈ es) q' ∧
      ∀ x, Settled q' x ↔ Settled q x := by
  induction es generalizing D q with
  | nil =>
    exact ⟨q, rfl, R.congr (fun a b => by simp), fun _ => Iff.rfl⟩
  | cons e es ih =>
    obtain ⟨q1, e1, R1, S1⟩ := R.step L e.1 e.2 (hes e List.mem_cons_self)
    obtain ⟨q2, e2, R2, S2⟩ := ih R1 (fun e' he' => hes e' (List.mem_cons_of_mem _ he'))
    refine ⟨q2, ?_, R2.congr ?_, fun x => (S2 x).trans (S1 x)⟩
    · simp only [relaxAll, e1, e2]
    · intro a b
      constructor
      · rintro ((h | ⟨rfl, rfl⟩) | h)
        · exact Or.inl h
        · exact Or.inr List.mem_cons_self
        · exact Or.inr (List.mem_cons_of_mem _ h)
      · rintro (h | h)
        · exact Or.inl (Or.inl h)
        · rcases List.mem_cons.mp h with h | h
          · left; right; cases h; exact ⟨rfl, rfl⟩
          · exact Or.inr h

/-- every walk from `s` ends in a settled node whose label it does not undercut, or some queued
node has a label not above the walk's weight -/
theorem LInv.walk_bound {adj : Adj} {s : Nat} {q : Heap} (I : LInv Inv adj s q) {v d' : Nat}
    (hw : SP.Walk adj s v d') :
    (Settled q (v : Int) ∧ weight q (v : Int) ≤ (d' : Int)) ∨ ∃ y, contains q y = true ∧ weight q y ≤ (d' : Int) := by
  induction hw with
  | nil =>
    cases hc : contains q (s : Int)
    · left; exact ⟨⟨I.src.1, hc⟩, by rw [I.src.2.1]; omega⟩
    · right; exact ⟨s, hc, by rw [I.src.2.1]; omega⟩
  | @snoc x v d1 w _ he ih =>
    rcases ih with ⟨hs, hle⟩ | ⟨y, hy, hle⟩
    · obtain ⟨hi, hwv⟩ := I.closed x hs v w he
      cases hc : contains q (v : Int)
      · left; exact ⟨⟨hi, hc⟩, by omega⟩
      · right; exact ⟨v, hc, by omega⟩
    · right; exact ⟨y, hy, by omega⟩

theorem RInv.finish {adj : Adj} {s u : Nat} {dist : Int} {D : Nat → Nat → Prop} {q : Heap}
    (R : RInv Inv adj s u dist D q) (hD : ∀ v w, (v, w) ∈ adj u → D v w) : LInv Inv adj s q :=
  { toCore := R.toCore,
    closed := fun x hx => by
      by_cases hxu : x = u
      · subst hxu
        intro v w he
        have := R.done v w (hD v w he)
        rw [R.cur.2]; exact this
      · exact R.closed x hx hxu }

/-- popping the minimum: the popped node's label is exact and the relaxation phase starts -/
theorem LInv.pop (L : HeapLaws Inv) {adj : Adj} {s : Nat} {q : Heap} (I : LInv Inv adj s q)
    (hne : isEmpty q = false) :
    ∃ (q1 : Heap) (u : Nat), deleteMin q = some (q1, (u : Int)) ∧ contains q (u : Int) = true ∧
      RInv Inv adj s u (weight q1 (u : Int)) (fun _ _ => False) q1 ∧
      (∀ x, Settled q1 x ↔ (Settled q x ∨ x = (u : Int))) := by
  obtain ⟨q1, u0, e, i1, hc, hmin, o2, o1, o3, o4⟩ := L.delmin_ok q I.inv hne
  have hui := L.contains_inserted q u0 I.inv hc
  obtain ⟨u, du, hu, hwu, walku⟩ := I.sound u0 hui
  subst hu
  have S : ∀ x, Settled q1 x ↔ (Settled q x ∨ x = (u : Int)) := by
    intro x
    unfold Settled
    rw [o1, o2]
    constructor
    · rintro ⟨h1, h2⟩
      by_cases hx : x = (u : Int)
      · exact Or.inr hx
      · left; refine ⟨h1, ?_⟩; simpa [hx] using h2
    · rintro (⟨h1, h2⟩ | rfl)
      · exact ⟨h1, by simp [h2]⟩
      · exact ⟨hui, by simp⟩
  have hnotS : ¬ Settled q (u : Int) := fun h => by rw [h.2] at hc; cases hc
  have core : Core Inv adj s q1 := by
    refine ⟨i1, ?_, ?_, ?_, ?_, ?_, ?_, ?_⟩
    · have := deleteMin_params e; exact ⟨this.1.trans I.wf.1, this.2.trans I.wf.2⟩
    · rw [o1, o3, o4]; exact I.src
    · intro x hx; rw [o1] at hx; rw [o3]; exact I.sound x hx
    · intro v hv d' hw'
      rw [o3]
      rcases (S v).mp hv with h | h
      · exact I.exact v h d' hw'
      · have hvu : v = u := by omega
        subst hvu
        rcases I.walk_bound hw' with ⟨hs, _⟩ | ⟨y, hy, hle⟩
        · exact absurd hs hnotS
        · have := hmin y hy; omega
    · intro x y hx hy
      rw [o3, o3]
      rw [o2] at hy
      simp only [Bool.and_eq_true, bne_iff_ne, ne_eq] at hy
      rcases (S x).mp hx with h | h
      · exact I.mono x y h hy.1
      · rw [h]; exact hmin y hy.1
    · intro x hx hxs
      rw [o1] at hx
      obtain ⟨p, w, h1, h2, h3, h4⟩ := I.par x hx hxs
      exact ⟨p, w, by rw [o4]; exact h1, (S p).mpr (Or.inl h2), h3, by rw [o3, o3]; exact h4⟩
    · obtain ⟨rank, hr⟩ := I.rank
      refine ⟨rank, ?_⟩
      intro x hx hxs p hp
      rw [o1] at hx; rw [o4] at hp
      exact hr x hx hxs p hp
  refine ⟨q1, u, e, hc, ?_, S⟩
  refine { toCore := core, cur := ⟨(S u).mpr (Or.inr rfl), rfl⟩, closed := ?_, done := ?_, le_cur := ?_, par_cur := ?_ }
  · intro x hx hxu v w he
    have hx0 : Settled q (x : Int) := by
      rcases (S x).mp hx with h | h
      · exact h
      · exact absurd (by omega) hxu
    rw [o1, o3, o3]; exact I.closed x hx0 v w he
  · intro v w h; exact absurd h id
  · intro x hx
    rw [o3, o3]
    rcases (S x).mp hx with h | h
    · exact I.mono x u h hc
    · rw [h]; exact Int.le_refl _
  · intro x hx hxs hp
    rw [o1] at hx; rw [o4] at hp
    obtain ⟨p, w, h1, h2, _, _⟩ := I.par x hx hxs
    rw [h1] at hp
    have : (p : Int) = (u : Int) := by injection hp
    rw [this] at h2
    exact absurd h2 hnotS

theorem init_observers (a b x : Int) :
    inserted (init a b) x = false ∧ contains (init a b) x = false ∧ weight (init a b) x = b ∧ data? (init a b) x = none := by
  simp [init, inserted, contains, weight, data?, lookup]

/-- the state after `clear(); queue.insert(s, 0, s)` -/
theorem LInv.start (L : HeapLaws Inv) (adj : Adj) (s : Nat) :
    LInv Inv adj s (insert (init 0 UMAX) (s : Int) 0 (s : Int)) := by
  obtain ⟨h1, h2, h3, h4⟩ := init_observers 0 UMAX (s : Int)
  obtain ⟨i1, o1, o2, o3, o4⟩ := L.insert_ok (init 0 UMAX) (s : Int) 0 (s : Int) (L.inv_init 0 UMAX) h1 (Int.le_refl _)
  have ins : ∀ x, inserted (insert (init 0 UMAX) (s : Int) 0 (s : Int)) x = true → x = (s : Int) := by
    intro x hx; rw [o1, (init_observers 0 UMAX x).1] at hx; simpa using hx
  have noS : ∀ x, ¬ Settled (insert (init 0 UMAX) (s : Int) 0 (s : Int)) x := by
    intro x hx
    have := ins x hx.1
    subst this
    have h := hx.2
    rw [o2] at h; simp at h
  refine { inv := i1, wf := ⟨rfl, rfl⟩, src := ?_, sound := ?_, exact := ?_, mono := ?_, par := ?_, rank := ?_, closed := ?_ }
  · refine ⟨by rw [o1]; simp, by rw [o3]; simp, by rw [o4]; simp⟩
  · intro x hx
    have := ins x hx; subst this
    exact ⟨s, 0, rfl, by rw [o3]; simp, SP.Walk.nil⟩
  · intro v hv; exact absurd hv (noS _)
  · intro x y hx; exact absurd hx (noS _)
  · intro x hx hxs; exact absurd (ins x hx) hxs
  · exact ⟨fun _ => 0, fun x hx hxs => absurd (ins x hx) hxs⟩
  · intro x hx; exact absurd hx (noS _)


/-- `r.Holds P`: if the computation returned a value it satisfies `P`, and it did not hit a panic
branch (running out of fuel is not excluded here) -/
def Res.Holds {α : Type} (r : Res α) (P : α → Prop) : Prop :=
  match r with
  | .ok a => P a
  | .panic => False
  | .fuel => True

def Res.map {α β : Type} (f : α → β) : Res α → Res β
  | .ok a => .ok (f a)
  | .panic => .panic
  | .fuel => .fuel

/-! ### unidirectional loop -/

/-- what holds when the unidirectional loop returns `r` in state `st'` -/
inductive UniPost (Inv : Heap → Prop) (adj : Adj) (s t : Nat) (st' : Uni) (r : Int) : Prop
  | found (d : Nat) (hr : r = (d : Int)) (hub : st'.upperBound = r)
      (R : RInv Inv adj s t (d : Int) (fun _ _ => False) st'.queue)
  | drained (hr : r = UMAX) (hub : st'.upperBound = UMAX) (I : LInv Inv adj s st'.queue)
      (hempty : ∀ x, contains st'.queue x = false) (hnt : ¬ Settled st'.queue (t : Int))

theorem uniLoop_spec (L : HeapLaws Inv) (adj : Adj) (s t : Nat) (fuel : Nat) (st : Uni)
    (I : LInv Inv adj s st.queue) (hub : st.upperBound = UMAX) (hnt : ¬ Settled st.queue (t : Int)) :
    (uniLoop adj (t : Int) fuel st).Holds (fun p => UniPost Inv adj s t p.1 p.2) := by
  induction fuel generalizing st with
  | zero => simp [uniLoop, Res.Holds]
  | succ fuel ih =>
    simp only [uniLoop]
    cases hem : isEmpty st.queue with
    | true =>
      simp only [Bool.not_true, Bool.false_and, Bool.false_eq_true, if_false, Res.Holds]
      exact .drained hub hub I ((L.empty_iff _ I.inv).mp hem) hnt
    | false =>
      have hc : (st.upperBound == UMAX) = true := by rw [hub]; simp
      simp only [Bool.not_false, Bool.true_and, hc, if_true]
      obtain ⟨q1, u, e, _, R, S⟩ := I.pop L hem
      rw [e]
      simp only
      by_cases hut : ((u : Int) == (t : Int)) = true
      · rw [if_pos hut]
        simp only [Res.Holds]
        have h0 : (u : Int) = (t : Int) := by simpa using hut
        have : u = t := by omega
        subst this
        obtain ⟨v, d, hv, hd, _⟩ := R.sound u R.cur.1.1
        refine .found d hd rfl ?_
        rw [← hd]; exact R
      · rw [if_neg hut]
        have hut' : u ≠ t := by intro h; apply hut; simp [h]
        rw [Int.toNat_natCast]
        obtain ⟨q2, e2, R2, S2⟩ := R.all L (adj u) (fun _ h => h)
        rw [e2]
        simp only
        apply ih
        · exact R2.finish (fun v w h => Or.inr h)
        · exact hub
        · intro h
          have := (S _).mp ((S2 _).mp h)
          rcases this with h | h
          · exact hnt h
          · exact hut' (by omega)

/-! ### one-to-many loop -/

def settledB (q : Heap) (x : Int) : Bool := inserted q x && !contains q x

theorem settledB_iff (q : Heap) (x : Int) : settledB q x = true ↔ Settled q x := by
  unfold settledB Settled; simp

/-- number of targets that have been popped -/
def settledCount (q : Heap) (targets : List Nat) : Nat := (targets.filter fun (t : Nat) => settledB q (t : Int)).length

theorem settledCount_congr {q q' : Heap} (targets : List Nat) (h : ∀ x, Settled q' x ↔ Settled q x) :
    settledCount q' targets = settledCount q targets := by
  unfold settledCount
  congr 1
  apply List.filter_congr
  intro t _
  have := h (t : Int)
  rw [← settledB_iff, ← settledB_iff] at this
  cases h1 : settledB q' (t : Int) <;> cases h2 : settledB q (t : Int) <;> simp_all

theorem isTarget_iff (targets : List Nat) (u : Nat) : isTarget targets (u : Int) = true ↔ u ∈ targets := by
  unfold isTarget
  simp only [List.any_eq_true, beq_iff_eq]
  constructor
  · rintro ⟨x, hx, h⟩; have : x = u := by omega
    subst this; exact hx
  · intro h; exact ⟨u, h, rfl⟩

/-- popping `u` raises the count by one exactly if `u` is a target (targets distinct) -/
theorem settledCount_pop {q q1 : Heap} (targets : List Nat) (hnd : targets.Nodup) (u : Nat)
    (hS : ∀ x, Settled q1 x ↔ (Settled q x ∨ x = (u : Int))) (hnu : ¬ Settled q (u : Int)) :
    settledCount q1 targets = (if isTarget targets (u : Int) then settledCount q targets + 1 else settledCount q targets) := by
  unfold settledCount
  induction targets with
  | nil => simp [isTarget]
  | cons a rest ih =>
    have hnd' := (List.nodup_cons.mp hnd)
    have iha := ih hnd'.2
    simp only [List.filter_cons]
    have e1 : settledB q1 (a : Int) = (settledB q (a : Int) || decide (a = u)) := by
      have := hS (a : Int)
      rw [← settledB_iff, ← settledB_iff] at this
      cases h1 : settledB q1 (a : Int) <;> cases h2 : settledB q (a : Int) <;> simp_all <;> omega
    by_cases hau : a = u
    · subst hau
      have hq : settledB q (a : Int) = false := by
        cases h : settledB q (a : Int)
        · rfl
        · exact absurd ((settledB_iff _ _).mp h) hnu
      have hrest : isTarget rest (a : Int) = false := by
        cases h : isTarget rest (a : Int)
        · rfl
        · exact absurd ((isTarget_iff _ _).mp h) hnd'.1
      rw [hrest] at iha
      have ht : isTarget (a :: rest) (a : Int) = true := (isTarget_iff _ _).mpr List.mem_cons_self
      rw [e1, hq, ht]
      simp only [decide_true, Bool.or_true, if_true, Bool.false_eq_true, if_false, List.length_cons]
      simp only [Bool.false_eq_true, if_false] at iha
      rw [iha]
    · have ht : isTarget (a :: rest) (u : Int) = isTarget rest (u : Int) := by
        unfold isTarget
        simp only [List.any_cons]
        have : ((a : Int) == (u : Int)) = false := by simp; omega
        rw [this]; simp
      rw [e1, ht]
      simp only [hau, decide_false, Bool.or_false]
      cases hq : settledB q (a : Int)
      · simp only [Bool.false_eq_true, if_false]; exact iha
      · simp only [if_true, List.length_cons]
        rw [iha]
        split <;> rfl

/-- what holds when the one-to-many loop returns -/
structure O2MPost (Inv : Heap → Prop) (adj : Adj) (s : Nat) (targets : List Nat) (st' : O2M) : Prop where
  linv : LInv Inv adj s st'.queue
  count : st'.reached = settledCount st'.queue targets
  exit : targets.length ≤ st'.reached ∨ ∀ x, contains st'.queue x = false

theorem o2mLoop_spec (L : HeapLaws Inv) (adj : Adj) (s : Nat) (targets : List Nat) (hnd : targets.Nodup)
    (fuel : Nat) (st : O2M) (I : LInv Inv adj s st.queue) (hcnt : st.reached = settledCount st.queue targets) :
    (o2mLoop adj targets fuel st).Holds (O2MPost Inv adj s targets) := by
  induction fuel generalizing st with
  | zero => simp [o2mLoop, Res.Holds]
  | succ fuel ih =>
    simp only [o2mLoop]
    cases hem : isEmpty st.queue with
    | true =>
      simp only [Bool.not_true, Bool.false_and, Bool.false_eq_true, if_false, Res.Holds]
      exact ⟨I, hcnt, Or.inr ((L.empty_iff _ I.inv).mp hem)⟩
    | false =>
      simp only [Bool.not_false, Bool.true_and]
      by_cases hlt : st.reached < targets.length
      · simp only [hlt, decide_true, if_true]
        obtain ⟨q1, u, e, hcu, R, S⟩ := I.pop L hem
        rw [e]
        simp only
        rw [Int.toNat_natCast]
        obtain ⟨q2, e2, R2, S2⟩ := R.all L (adj u) (fun _ h => h)
        rw [e2]
        simp only
        apply ih
        · exact R2.finish (fun v w h => Or.inr h)
        · simp only
          rw [settledCount_congr targets S2]
          have hnu : ¬ Settled st.queue (u : Int) := fun h => by rw [h.2] at hcu; cases hcu
          rw [settledCount_pop targets hnd u S hnu, hcnt]
      · simp only [hlt, decide_false, Bool.false_eq_true, if_false, Res.Holds]
        exact ⟨I, hcnt, Or.inl (by omega)⟩

end Tbx.Dijkstra
