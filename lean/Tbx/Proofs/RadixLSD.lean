import Tbx.Proofs.RadixBucket
/-
LSD induction (C17): after the rounds `0..j-1` the list is ordered by `okey % 256^j`; a pass of round `j`
(in the pass's bucket order) or a skipped round `j` extends this to `j+1`.
-/
namespace Tbx.Radix
open Tbx Tbx.SortSpec

/-- ordered by the low `j` bytes of the order key -/
def lowLe (t : Ty) (j : Nat) (a b : Nat) : Prop := okey t a % 256 ^ j ≤ okey t b % 256 ^ j

theorem low_succ_of_lt (u v k : Nat) (h : u / 256 ^ k % 256 < v / 256 ^ k % 256) :
    u % 256 ^ (k + 1) ≤ v % 256 ^ (k + 1) := by
  rw [Nat.mod_pow_succ, Nat.mod_pow_succ]
  have hp := pow_pos256 k
  have h1 : u % 256 ^ k < 256 ^ k := Nat.mod_lt _ hp
  have h2 : 256 ^ k * (u / 256 ^ k % 256 + 1) ≤ 256 ^ k * (v / 256 ^ k % 256) := Nat.mul_le_mul_left _ h
  rw [Nat.mul_succ] at h2
  omega

theorem low_succ_of_eq (u v k : Nat) (h : u / 256 ^ k % 256 = v / 256 ^ k % 256)
    (hl : u % 256 ^ k ≤ v % 256 ^ k) : u % 256 ^ (k + 1) ≤ v % 256 ^ (k + 1) := by
  rw [Nat.mod_pow_succ, Nat.mod_pow_succ, h]
  omega

theorem lowLe_succ_of_key_eq (t : Ty) (k : Nat) (hk : k < t.w) (a b : Nat)
    (h : key t a k = key t b k) (hl : lowLe t k a b) : lowLe t (k + 1) a b := by
  unfold lowLe at *
  apply low_succ_of_eq _ _ _ _ hl
  rw [← okey_digit t a k hk, ← okey_digit t b k hk, h]

theorem lowLe_succ_of_rank_lt (t : Ty) (k : Nat) (hk : k < t.w) (a b : Nat)
    (h : rank t k (key t a k) < rank t k (key t b k)) : lowLe t (k + 1) a b := by
  unfold lowLe
  apply low_succ_of_lt
  rw [← okey_digit t a k hk, ← okey_digit t b k hk]
  exact h

/-- a pass of round `k` extends the order by one byte -/
theorem pass_extends (t : Ty) (k : Nat) (hk : k < t.w) (l : List Nat) (h : l.Pairwise (lowLe t k)) :
    (pass t k l).Pairwise (lowLe t (k + 1)) := by
  rw [pass_eq_passG]
  apply passG_pairwise
  · intro b _
    refine (h.sublist List.filter_sublist).imp_of_mem ?_
    intro x y hx hy hxy
    rw [List.mem_filter] at hx hy
    have h1 : key t x k = b := by simpa using hx.2
    have h2 : key t y k = b := by simpa using hy.2
    exact lowLe_succ_of_key_eq t k hk x y (h1.trans h2.symm) hxy
  · refine (bucketOrder_pairwise_rank t k).imp ?_
    intro b1 b2 hr x _ y _ h1 h2
    apply lowLe_succ_of_rank_lt t k hk
    rw [h1, h2]
    exact hr

/-- a skipped round `k` extends the order by one byte as well: all keys of that round coincide -/
theorem skip_extends (t : Ty) (k : Nat) (hk : k < t.w) (l : List Nat) (b : Nat)
    (hall : ∀ x ∈ l, key t x k = b) (h : l.Pairwise (lowLe t k)) : l.Pairwise (lowLe t (k + 1)) := by
  refine h.imp_of_mem ?_
  intro x y hx hy hxy
  exact lowLe_succ_of_key_eq t k hk x y ((hall x hx).trans (hall y hy).symm) hxy

/-- rounds `j, j+1, …, j+m-1` -/
theorem roundsB_spec (t : Ty) (xs : List Nat) (m : Nat) : ∀ (j : Nat) (l : List Nat), j + m ≤ t.w →
    l.Perm xs → l.Pairwise (lowLe t j) →
    (roundsB t xs (List.range' j m) l).Perm xs ∧ (roundsB t xs (List.range' j m) l).Pairwise (lowLe t (j + m)) := by
  induction m with
  | zero =>
    intro j l _ hp hs
    exact ⟨hp, hs⟩
  | succ m ih =>
    intro j l hj hp hs
    rw [List.range'_succ]
    show (roundsB t xs (List.range' (j + 1) m) (if skipRound t j xs then l else pass t j l)).Perm xs ∧
      (roundsB t xs (List.range' (j + 1) m) (if skipRound t j xs then l else pass t j l)).Pairwise
        (lowLe t (j + (m + 1)))
    have hjw : j < t.w := by omega
    have e : j + (m + 1) = (j + 1) + m := by omega
    rw [e]
    by_cases hsk : skipRound t j xs = true
    · rw [if_pos hsk]
      rcases skipRound_all t j xs hsk with ⟨b, _, hall⟩
      have hall' : ∀ x ∈ l, key t x j = b := fun x hx => hall x (hp.subset hx)
      exact ih (j + 1) l (by omega) hp (skip_extends t j hjw l b hall' hs)
    · rw [if_neg hsk]
      exact ih (j + 1) (pass t j l) (by omega) ((pass_perm t j l).trans hp) (pass_extends t j hjw l hs)

theorem sortB_spec (t : Ty) (xs : List Nat) :
    (sortB t xs).Perm xs ∧ (sortB t xs).Pairwise (lowLe t t.w) := by
  unfold sortB
  rw [List.range_eq_range']
  have := roundsB_spec t xs t.w 0 xs (by omega) (List.Perm.refl _)
    (List.pairwise_of_forall (by intro a b; unfold lowLe; simp [Nat.mod_one]))
  simpa using this

/-- after all rounds the list is a permutation of the input sorted in the type's order -/
theorem sortB_sorted (t : Ty) (hw : 0 < t.w) (xs : List Nat) (hx : ∀ x ∈ xs, x < t.card) :
    IsSortOf t xs (sortB t xs) := by
  rcases sortB_spec t xs with ⟨hp, hs⟩
  refine ⟨hp, hs.imp_of_mem ?_⟩
  intro a b ha hb hab
  have ha' := hx a (hp.subset ha)
  have hb' := hx b (hp.subset hb)
  rw [le_iff_okey t hw a b ha' hb']
  unfold lowLe at hab
  have e : (256 : Nat) ^ t.w = t.card := rfl
  rw [e, Nat.mod_eq_of_lt (okey_lt t hw a ha'), Nat.mod_eq_of_lt (okey_lt t hw b hb')] at hab
  exact hab

end Tbx.Radix
