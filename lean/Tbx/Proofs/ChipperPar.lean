import Tbx.Proofs.ChipperCmp
import Tbx.Proofs.ChipperLevel
import Tbx.Props.C04
/-
Concurrency of the four axes of one job (C06 `par_eq_seq`): whatever admissible value of the shared bound
each axis observes, the winner is the one of the sequential reference.

  StepSpec n step kOf      what chipper needs from `sub_step` on well-formed jobs (C03: `sides_nodup_subset`,
                           `sides_cover`, `sides_nonempty`)
  BoundMono n step kOf     the bound only ever stops a run whose flow exceeds it, and changes nothing else
                           (C03: `ok_flow_le_bound`, `ok_bound_irrelevant`, `aborted_flow_gt_bound`)
  ObsAdmissible            an observed value never exceeds the initial bound and never lies below a number that
                           is below the initial bound and below every flow the four axes can report — exactly
                           what `Tbx.Props.C04.reachable_inv` proves of every value the shared location ever
                           holds, under all interleavings and stale loads (`hist_admissible`)
  bestPar_eq_bestSeq       the per-job statement
-/
namespace Tbx.Chipper
open Tbx Tbx.Gen Tbx.InertialFlow

structure StepSpec (n : Nat) (step : Step) (kOf : Nat → Nat) : Prop where
  res : ∀ job a β r, JobOK n job → step job.edges job.ids a (kOf job.ids.length) β = .ok r →
    ResOK job r ∧ r.left ≠ [] ∧ r.right ≠ []

def BoundMono (n : Nat) (step : Step) (kOf : Nat → Nat) : Prop :=
  ∀ job, JobOK n job → ∃ full : Nat → FlowRes, ∀ a, a < 4 →
    0 ≤ (full a).flow ∧
    ∀ β : Int, 0 ≤ β →
      step job.edges job.ids a (kOf job.ids.length) β = if (full a).flow ≤ β then .ok (full a) else .aborted

def ObsAdmissible (step : Step) (k : Nat) (job : Job) (obs : Nat → Int) : Prop :=
  ∀ a, a < 4 →
    obs a ≤ (job.ids.length : Int) ∧
    ∀ m : Int, m ≤ (job.ids.length : Int) →
      (∀ a', a' < 4 → ∀ β : Int, 0 ≤ β → ∀ r, step job.edges job.ids a' k β = .ok r → m ≤ r.flow) → m ≤ obs a

/-! ### `minBy` returns a member; results of `bestOf` come from a step -/

theorem foldl_minOp_mem (xs : List FlowRes) (acc : FlowRes) : xs.foldl minOp acc = acc ∨ xs.foldl minOp acc ∈ xs := by
  induction xs generalizing acc with
  | nil => exact Or.inl rfl
  | cons y ys ih =>
    simp only [List.foldl_cons]
    rcases ih (minOp acc y) with h | h
    · rw [h]
      unfold minOp
      split
      · exact Or.inr List.mem_cons_self
      · exact Or.inl rfl
    · exact Or.inr (List.mem_cons_of_mem _ h)

theorem minBy_mem' {xs : List FlowRes} {x : FlowRes} (h : minBy xs = some x) : x ∈ xs := by
  cases xs with
  | nil => simp [minBy] at h
  | cons y ys =>
    simp only [minBy, Option.some.injEq] at h
    subst h
    rcases foldl_minOp_mem ys y with h | h
    · rw [h]; exact List.mem_cons_self
    · exact List.mem_cons_of_mem _ h

theorem bestOf_some {outs : List StepOut} {r : FlowRes} (h : bestOf outs = .some r) : StepOut.ok r ∈ outs := by
  unfold bestOf at h
  split at h
  · cases h
  · cases hm : minBy (outs.filterMap okOf) with
    | none => rw [hm] at h; cases h
    | some x =>
      rw [hm] at h
      simp only [Best.some.injEq] at h
      subst h
      obtain ⟨o, ho, hx⟩ := List.mem_filterMap.mp (minBy_mem' hm)
      cases o with
      | panic => simp [okOf] at hx
      | aborted => simp [okOf] at hx
      | ok r' => simp only [okOf, Option.some.injEq] at hx; subst hx; exact ho

/-- every result the four-axis search reports satisfies what chipper needs -/
theorem bestPar_ok (n : Nat) (step : Step) (kOf : Nat → Nat) (hstep : StepSpec n step kOf)
    (sched : Nat → Nat → Job → Nat → Int) :
    BestOK n (fun lvl idx job => bestPar step kOf (sched lvl idx job) job) := by
  intro lvl idx job res hjob h
  have := bestOf_some h
  unfold axisOuts at this
  obtain ⟨a, _, ha⟩ := List.mem_map.mp this
  exact (hstep.res job a _ res hjob ha).1

theorem bestSeq_ok (n : Nat) (step : Step) (kOf : Nat → Nat) (hstep : StepSpec n step kOf) :
    BestOK n (fun _ _ job => bestSeq step kOf job) :=
  bestPar_ok n step kOf hstep (fun _ _ job _ => (job.ids.length : Int))

/-! ### lists selected from an index list -/

/-- the results of the axes `a` of `idxs` with `c a` -/
def pick (idxs : List Nat) (full : Nat → FlowRes) (c : Nat → Bool) : List FlowRes :=
  idxs.filterMap fun a => if c a then some (full a) else none

theorem pick_filter (idxs : List Nat) (full : Nat → FlowRes) (c : Nat → Bool) (q : FlowRes → Bool) :
    (pick idxs full c).filter q = pick idxs full (fun a => c a && q (full a)) := by
  induction idxs with
  | nil => rfl
  | cons a rest ih =>
    unfold pick at *
    simp only [List.filterMap_cons]
    by_cases hc : c a = true
    · by_cases hq : q (full a) = true
      · simp [hc, hq, ih]
      · simp [hc, hq, ih]
    · simp [hc, ih]

theorem pick_congr (idxs : List Nat) (full : Nat → FlowRes) (c c' : Nat → Bool)
    (h : ∀ a ∈ idxs, c a = c' a) : pick idxs full c = pick idxs full c' := by
  induction idxs with
  | nil => rfl
  | cons a rest ih =>
    unfold pick at *
    simp only [List.filterMap_cons]
    rw [h a List.mem_cons_self, ih (fun b hb => h b (List.mem_cons_of_mem _ hb))]

theorem mem_pick {idxs : List Nat} {full : Nat → FlowRes} {c : Nat → Bool} {x : FlowRes} :
    x ∈ pick idxs full c ↔ ∃ a ∈ idxs, c a = true ∧ full a = x := by
  unfold pick
  rw [List.mem_filterMap]
  constructor
  · rintro ⟨a, ha, h⟩
    by_cases hc : c a = true
    · simp only [hc, if_true, Option.some.injEq] at h; exact ⟨a, ha, hc, h⟩
    · simp [hc] at h
  · rintro ⟨a, ha, hc, h⟩
    exact ⟨a, ha, by simp [hc, h]⟩

/-- a selection that keeps every axis of globally minimal flow has the winner of the canonical selection
    "all axes of globally minimal flow" -/
theorem minBy_pick_indep (idxs : List Nat) (full : Nat → FlowRes) (c : Nat → Bool)
    (hpos : ∀ a ∈ idxs, 0 < balanceDen (full a))
    (hmin : ∃ a ∈ idxs, ∀ a' ∈ idxs, (full a).flow ≤ (full a').flow)
    (hkeep : ∀ a ∈ idxs, (∀ a' ∈ idxs, (full a).flow ≤ (full a').flow) → c a = true) :
    minBy (pick idxs full c) =
      minBy (pick idxs full (fun a => decide (∀ a' ∈ idxs, (full a).flow ≤ (full a').flow))) := by
  obtain ⟨am, ham, hamin⟩ := hmin
  let q : FlowRes → Bool := fun x => decide (∀ a' ∈ idxs, x.flow ≤ (full a').flow)
  have h1 : minBy ((pick idxs full c).filter q) = minBy (pick idxs full c) := by
    apply minBy_filter
    · intro y hy
      obtain ⟨a, ha, _, rfl⟩ := mem_pick.mp hy
      exact hpos a ha
    · intro x hx hxmin
      have hmem : full am ∈ pick idxs full c := mem_pick.mpr ⟨am, ham, hkeep am ham hamin, rfl⟩
      have h2 := hxmin _ hmem
      simp only [q, decide_eq_true_eq]
      intro a' ha'
      exact Int.le_trans h2 (hamin a' ha')
  rw [← h1, pick_filter]
  congr 1
  apply pick_congr
  intro a ha
  simp only [q]
  by_cases hq : ∀ a' ∈ idxs, (full a).flow ≤ (full a').flow
  · simp [hkeep a ha hq]
  · simp [hq]

theorem minBy_pick_nil (idxs : List Nat) (full : Nat → FlowRes) (c : Nat → Bool)
    (h : ∀ a ∈ idxs, c a = false) : pick idxs full c = [] := by
  induction idxs with
  | nil => rfl
  | cons a rest ih =>
    unfold pick at *
    simp only [List.filterMap_cons, h a List.mem_cons_self]
    exact ih (fun b hb => h b (List.mem_cons_of_mem _ hb))

/-! ### the four axes under `BoundMono` -/

theorem exists_min4 (f : Nat → Int) : ∃ a ∈ List.range 4, ∀ a' ∈ List.range 4, f a ≤ f a' := by
  have key : (f 0 ≤ f 1 ∧ f 0 ≤ f 2 ∧ f 0 ≤ f 3) ∨ (f 1 ≤ f 0 ∧ f 1 ≤ f 2 ∧ f 1 ≤ f 3) ∨
      (f 2 ≤ f 0 ∧ f 2 ≤ f 1 ∧ f 2 ≤ f 3) ∨ (f 3 ≤ f 0 ∧ f 3 ≤ f 1 ∧ f 3 ≤ f 2) := by omega
  have all4 : ∀ (g : Nat → Prop), g 0 → g 1 → g 2 → g 3 → ∀ a' ∈ List.range 4, g a' := by
    intro g g0 g1 g2 g3 a' ha'
    have : a' < 4 := List.mem_range.mp ha'
    have : a' = 0 ∨ a' = 1 ∨ a' = 2 ∨ a' = 3 := by omega
    rcases this with rfl | rfl | rfl | rfl <;> assumption
  rcases key with ⟨h1, h2, h3⟩ | ⟨h1, h2, h3⟩ | ⟨h1, h2, h3⟩ | ⟨h1, h2, h3⟩
  · exact ⟨0, by simp, all4 _ (Int.le_refl _) h1 h2 h3⟩
  · exact ⟨1, by simp, all4 _ h1 (Int.le_refl _) h2 h3⟩
  · exact ⟨2, by simp, all4 _ h1 h2 (Int.le_refl _) h3⟩
  · exact ⟨3, by simp, all4 _ h1 h2 h3 (Int.le_refl _)⟩

theorem filterMap_congr' {α β : Type} (l : List α) (f g : α → Option β) (h : ∀ a ∈ l, f a = g a) :
    l.filterMap f = l.filterMap g := by
  induction l with
  | nil => rfl
  | cons a rest ih =>
    simp only [List.filterMap_cons, h a List.mem_cons_self,
      ih (fun b hb => h b (List.mem_cons_of_mem _ hb))]

/-- the outcome list of the four axes when every observed bound is non-negative -/
theorem axisOuts_eq (step : Step) (k : Nat) (job : Job) (obs : Nat → Int) (full : Nat → FlowRes)
    (hfull : ∀ a, a < 4 → ∀ β : Int, 0 ≤ β →
      step job.edges job.ids a k β = if (full a).flow ≤ β then .ok (full a) else .aborted)
    (hobs : ∀ a, a < 4 → 0 ≤ obs a) :
    (axisOuts step k job obs).any isPanic = false ∧
    (axisOuts step k job obs).filterMap okOf =
      pick (List.range 4) full (fun a => decide ((full a).flow ≤ obs a)) := by
  unfold axisOuts pick
  constructor
  · rw [List.any_eq_false]
    intro o ho
    obtain ⟨a, ha, rfl⟩ := List.mem_map.mp ho
    have ha4 := List.mem_range.mp ha
    rw [hfull a ha4 _ (hobs a ha4)]
    split <;> simp [isPanic]
  · rw [List.filterMap_map]
    apply filterMap_congr'
    intro a ha
    have ha4 := List.mem_range.mp ha
    simp only [Function.comp]
    rw [hfull a ha4 _ (hobs a ha4)]
    by_cases h : (full a).flow ≤ obs a <;> simp [h, okOf]

theorem bestPar_eq_bestSeq (n : Nat) (step : Step) (kOf : Nat → Nat) (hstep : StepSpec n step kOf)
    (hmono : BoundMono n step kOf) (job : Job) (hjob : JobOK n job) (obs : Nat → Int)
    (hadm : ObsAdmissible step (kOf job.ids.length) job obs) :
    bestPar step kOf obs job = bestSeq step kOf job := by
  obtain ⟨full, hf⟩ := hmono job hjob
  have hfull : ∀ a, a < 4 → ∀ β : Int, 0 ≤ β →
      step job.edges job.ids a (kOf job.ids.length) β = if (full a).flow ≤ β then .ok (full a) else .aborted :=
    fun a ha => (hf a ha).2
  have hnn : ∀ a, a < 4 → 0 ≤ (full a).flow := fun a ha => (hf a ha).1
  -- every reported flow is one of the four
  have hrep : ∀ a', a' < 4 → ∀ β : Int, 0 ≤ β → ∀ r,
      step job.edges job.ids a' (kOf job.ids.length) β = .ok r → r = full a' := by
    intro a' ha' β hβ r h
    rw [hfull a' ha' β hβ] at h
    split at h
    · cases h; rfl
    · cases h
  have hB0 : (0 : Int) ≤ (job.ids.length : Int) := Int.natCast_nonneg _
  have hobs : ∀ a, a < 4 → 0 ≤ obs a := by
    intro a ha
    apply (hadm a ha).2 0 hB0
    intro a' ha' β hβ r h
    rw [hrep a' ha' β hβ r h]; exact hnn a' ha'
  have hpos : ∀ a ∈ List.range 4, 0 < balanceDen (full a) := by
    intro a ha
    have ha4 := List.mem_range.mp ha
    have hok : step job.edges job.ids a (kOf job.ids.length) (full a).flow = .ok (full a) := by
      rw [hfull a ha4 _ (hnn a ha4)]; simp
    obtain ⟨_, hl, _⟩ := hstep.res job a _ _ hjob hok
    unfold balanceDen
    have : 0 < (full a).left.length := List.length_pos_iff.mpr hl
    omega
  obtain ⟨hp1, hk1⟩ := axisOuts_eq step (kOf job.ids.length) job obs full hfull hobs
  obtain ⟨hp2, hk2⟩ := axisOuts_eq step (kOf job.ids.length) job (fun _ => (job.ids.length : Int)) full hfull
    (fun _ _ => hB0)
  unfold bestSeq bestPar bestOf
  rw [hp1, hp2, hk1, hk2]
  simp only [Bool.false_eq_true, if_false]
  have hmin := exists_min4 (fun a => (full a).flow)
  obtain ⟨am, ham, hamin⟩ := hmin
  by_cases hle : (full am).flow ≤ (job.ids.length : Int)
  · -- the smallest flow is within the initial bound: both selections keep every minimal axis
    have e1 := minBy_pick_indep (List.range 4) full (fun a => decide ((full a).flow ≤ obs a)) hpos
      ⟨am, ham, hamin⟩ (by
        intro a ha hmina
        have ha4 := List.mem_range.mp ha
        simp only [decide_eq_true_eq]
        apply (hadm a ha4).2 _ (Int.le_trans (hmina am ham) hle)
        intro a' ha' β hβ r h
        rw [hrep a' ha' β hβ r h]
        exact hmina a' (List.mem_range.mpr ha'))
    have e2 := minBy_pick_indep (List.range 4) full (fun a => decide ((full a).flow ≤ (job.ids.length : Int))) hpos
      ⟨am, ham, hamin⟩ (by
        intro a ha hmina
        simp only [decide_eq_true_eq]
        exact Int.le_trans (hmina am ham) hle)
    rw [e1, e2]
  · -- every flow exceeds the initial bound: nobody finishes, in either semantics
    have n1 : pick (List.range 4) full (fun a => decide ((full a).flow ≤ obs a)) = [] := by
      apply minBy_pick_nil
      intro a ha
      have ha4 := List.mem_range.mp ha
      have := hamin a ha
      have := (hadm a ha4).1
      simp only [decide_eq_false_iff_not]
      omega
    have n2 : pick (List.range 4) full (fun a => decide ((full a).flow ≤ (job.ids.length : Int))) = [] := by
      apply minBy_pick_nil
      intro a ha
      have := hamin a ha
      simp only [decide_eq_false_iff_not]
      omega
    rw [n1, n2]

/-! ### the link to C04 -/

open Tbx.Bound in
theorem hist_le_step {N} (P : Fin N → Proc) (B0 : Int) (s : St N) (i : Fin N) (v : Int)
    (hb : s.bound ≤ B0) (hh : ∀ w ∈ s.hist, w ≤ B0) : ∀ w ∈ (step P s i v).hist, w ≤ B0 := by
  unfold step
  split
  · split
    · split <;> exact hh
    · intro w hw
      simp only [List.mem_cons] at hw
      rcases hw with rfl | hw
      · exact Int.le_trans (Int.min_le_left _ _) hb
      · exact hh w hw
  · exact hh

open Tbx.Bound in
theorem hist_le_run {N} (P : Fin N → Proc) (B0 : Int) (sched : List (Fin N × Int)) (s : St N)
    (hinv : Inv P B0 s) (hh : ∀ w ∈ s.hist, w ≤ B0) : ∀ w ∈ (run P s sched).hist, w ≤ B0 := by
  induction sched generalizing s with
  | nil => exact hh
  | cons e rest ih =>
    exact ih _ (inv_step P B0 s e.1 e.2 hinv) (hist_le_step P B0 s e.1 e.2 hinv.bound_le_B0 hh)

open Tbx.Bound in
/-- Every value the shared bound ever holds in ANY execution of the C04 model (any interleaving of the N
    computations, loads as stale as they like) lies between "any number below the initial bound and below all
    true flows" and the initial bound.  Instantiates `Tbx.Props.C04.reachable_inv` (fields `low`, `hist_ge`). -/
theorem hist_admissible {N} (P : Fin N → Proc) (B0 : Int) (sched : List (Fin N × Int)) (v : Int)
    (hv : v ∈ (run P (init B0) sched).hist) :
    v ≤ B0 ∧ ∀ m : Int, m ≤ B0 → (∀ i, m ≤ (P i).F) → m ≤ v := by
  have hinv := Tbx.Props.C04.reachable_inv P B0 sched
  refine ⟨hist_le_run P B0 sched (init B0) (inv_init P B0) (by simp [init]) v hv, ?_⟩
  intro m hm hall
  exact Int.le_trans (hinv.low m hm hall) (hinv.hist_ge v hv)

end Tbx.Chipper
