import Tbx.Proofs.SearchSound
/-
Helper lemmas for C15, part 4: with the QUEUE discipline (`popFront`) the tree path of the discovered
target has the minimal number of edges.

Ghost level function `d` (never stored by the code): `d v + 1` = length of the tree path of `v`.
Invariant at the boundaries of the outer loop (`BInv`): the queue is sorted by level; every marked node
not on the queue is processed (all its unfiltered successors are marked, at most one level deeper);
no marked node is more than one level deeper than any queued node; sources have level 0; marked nodes
are sources or non-targets.  Consequence (`BInv.near`): when `u` is at the head of the queue every node
with a walk of `k ≤ d u` edges from a source is already marked — so none of them is a target.  Core only.
-/
namespace Tbx.Search
open Tbx

structure BInv (g : Graph) (filt isT : Nat → Bool) (isSrc : Nat → Prop) (d : Nat → Nat) (s : S) : Prop where
  tree   : ∀ v, marked s.par v → ∃ l, Tree g filt isSrc (gt s.par) v l ∧ l.length = d v + 1
  wl     : ∀ x, x ∈ s.wl → marked s.par x
  sorted : s.wl.Pairwise (fun x y => d x ≤ d y)
  proc   : ∀ v, marked s.par v → v ∉ s.wl → ∀ w, Reach.Edge g filt v w → marked s.par w ∧ d w ≤ d v + 1
  span   : ∀ v, marked s.par v → ∀ x, x ∈ s.wl → d v ≤ d x + 1
  src    : ∀ v, isSrc v → marked s.par v ∧ d v = 0
  noT    : ∀ v, marked s.par v → isSrc v ∨ isT v = false

/-- everything within `d u` edges of a source is marked when `u` is the head of the queue -/
theorem BInv.near {g : Graph} {filt isT : Nat → Bool} {isSrc : Nat → Prop} {d : Nat → Nat} {s : S}
    (hi : BInv g filt isT isSrc d s) (u : Nat) (rest : List Nat) (hw : s.wl = u :: rest) :
    ∀ k w, Reach.Walk g filt isSrc k w → k ≤ d u → marked s.par w ∧ d w ≤ k := by
  intro k w hwalk
  induction hwalk with
  | src v hs =>
    intro _
    obtain ⟨a, b⟩ := hi.src v hs
    exact ⟨a, by omega⟩
  | step k x w _ he ih =>
    intro hk
    obtain ⟨hmx, hdx⟩ := ih (by omega)
    have hs := hi.sorted
    rw [hw, List.pairwise_cons] at hs
    have hx : x ∉ s.wl := by
      rw [hw]
      intro hmem
      rcases List.mem_cons.mp hmem with rfl | hmem
      · omega
      · have := hs.1 x hmem
        omega
    obtain ⟨a, b⟩ := hi.proc x hmx hx w he
    exact ⟨a, by omega⟩

/-- the invariant survives a full pass over the out-edges of the queue head -/
theorem BInv.step {g : Graph} {filt isT : Nat → Bool} {isSrc : Nat → Prop} {d : Nat → Nat} {s s1 : S}
    (hi : BInv g filt isT isSrc d s) (u : Nat) (rest news : List Nat) (hw : s.wl = u :: rest)
    (hd : Disc filt u (g u) { s with wl := rest } s1 news) (hw1 : s1.wl = rest ++ news)
    (hT : ∀ v, v ∈ news → isT v = false)
    (hm : ∀ v e, (v, e) ∈ g u → filt e = false → marked s1.par v) :
    BInv g filt isT isSrc (fun x => if x ∈ news then d u + 1 else d x) s1 := by
  have mk := hd.marked_iff
  simp only at mk
  have hu : marked s.par u := hi.wl u (by rw [hw]; simp)
  have hold : ∀ x, marked s.par x → x ∉ news := by
    intro x hx hn
    have := (hd.fresh x hn).1
    simp only at this
    unfold marked at hx; rw [this] at hx; cases hx
  have hs := hi.sorted
  rw [hw, List.pairwise_cons] at hs
  have hrest : ∀ x, x ∈ rest → marked s.par x := fun x hx => hi.wl x (by rw [hw]; simp [hx])
  have hub : ∀ v, marked s.par v → d v ≤ d u + 1 := fun v hv => hi.span v hv u (by rw [hw]; simp)
  obtain ⟨lu, hlu, hlen⟩ := hi.tree u hu
  constructor
  · -- tree
    intro v hv
    rcases (mk v).mp hv with h1 | h1
    · refine ⟨lu ++ [v], hd.tree_new hlu h1, ?_⟩
      simp [h1, hlen]
    · obtain ⟨l, hl, hl2⟩ := hi.tree v h1
      refine ⟨l, hd.tree_old hl, ?_⟩
      simp [hold v h1, hl2]
  · -- wl
    intro x hx
    rw [hw1] at hx
    rcases List.mem_append.mp hx with h1 | h1
    · exact (mk x).mpr (Or.inr (hrest x h1))
    · exact (mk x).mpr (Or.inl h1)
  · -- sorted
    rw [hw1, List.pairwise_append]
    refine ⟨?_, ?_, ?_⟩
    · apply List.Pairwise.imp_of_mem _ hs.2
      intro a b ha hb hab
      simp only [hold a (hrest a ha), hold b (hrest b hb), if_false]
      exact hab
    · apply List.pairwise_of_forall_mem_list
      intro a ha b hb
      simp [ha, hb]
    · intro a ha b hb
      simp only [hold a (hrest a ha), hb, if_false, if_true]
      exact hub a (hrest a ha)
  · -- proc
    intro v hv hnw w he
    rw [hw1] at hnw
    have hvn : v ∉ news := fun h => hnw (List.mem_append_right _ h)
    have hvr : v ∉ rest := fun h => hnw (List.mem_append_left _ h)
    have hvm : marked s.par v := by
      rcases (mk v).mp hv with h1 | h1
      · exact absurd h1 hvn
      · exact h1
    simp only [hvn, if_false]
    by_cases hvu : v = u
    · subst hvu
      obtain ⟨e, he1, he2⟩ := he
      have hmw := hm w e he1 he2
      refine ⟨hmw, ?_⟩
      by_cases hwn : w ∈ news
      · simp [hwn]
      · simp only [hwn, if_false]
        rcases (mk w).mp hmw with h1 | h1
        · exact absurd h1 hwn
        · exact hub w h1
    · have hvwl : v ∉ s.wl := by
        rw [hw]
        intro hmem
        rcases List.mem_cons.mp hmem with h1 | h1
        · exact hvu h1
        · exact hvr h1
      obtain ⟨a, b⟩ := hi.proc v hvm hvwl w he
      refine ⟨(mk w).mpr (Or.inr a), ?_⟩
      simp only [hold w a, if_false]
      exact b
  · -- span
    intro v hv x hx
    rw [hw1] at hx
    have hlow : d u ≤ (if x ∈ news then d u + 1 else d x) := by
      rcases List.mem_append.mp hx with h1 | h1
      · simp only [hold x (hrest x h1), if_false]
        exact hs.1 x h1
      · simp [h1]
    have hup : (if v ∈ news then d u + 1 else d v) ≤ d u + 1 := by
      rcases (mk v).mp hv with h1 | h1
      · simp [h1]
      · simp only [hold v h1, if_false]
        exact hub v h1
    omega
  · -- src
    intro v hv
    obtain ⟨a, b⟩ := hi.src v hv
    refine ⟨(mk v).mpr (Or.inr a), ?_⟩
    simp only [hold v a, if_false]
    exact b
  · -- noT
    intro v hv
    rcases (mk v).mp hv with h1 | h1
    · exact Or.inr (hT v h1)
    · exact hi.noT v h1

theorem popFront_some (l : List Nat) (u : Nat) (rest : List Nat) (h : popFront l = some (u, rest)) :
    l = u :: rest := by
  cases l with
  | nil => simp [popFront] at h
  | cons a as =>
    simp only [popFront, Option.some.injEq, Prod.mk.injEq] at h
    obtain ⟨rfl, rfl⟩ := h
    rfl

/-- BFS: the discovered target's tree path has `hops` edges and no target is within fewer edges -/
theorem loop_bfs (g : Graph) (filt isT : Nat → Bool) (isSrc : Nat → Prop)
    (hdisj : ∀ v, isSrc v → isT v = false)
    (fuel : Nat) (s s' : S) (t : Nat) (d : Nat → Nat) (hi : BInv g filt isT isSrc d s)
    (h : loop g filt isT popFront fuel s = .done (some t) s') :
    ∃ l, Tree g filt isSrc (gt s'.par) t l ∧
      Reach.NoShorter g filt isSrc (fun v => isT v = true) (l.length - 1) := by
  induction fuel generalizing s d with
  | zero => simp [loop] at h
  | succ fuel ih =>
    simp only [loop] at h
    split at h
    · simp at h
    · rename_i u rest hpop
      have hw := popFront_some _ _ _ hpop
      split at h
      · cases h
      · split at h
        · cases h
        · rename_i t' s1 he
          simp only [LR.done.injEq, Option.some.injEq] at h
          obtain ⟨rfl, rfl⟩ := h
          obtain ⟨news, hd, _, _, _⟩ := edges_found filt isT u _ (g u) _ s1 t' he
          have hu : marked s.par u := hi.wl u (by rw [hw]; simp)
          obtain ⟨lu, hlu, hlen⟩ := hi.tree u hu
          refine ⟨lu ++ [t'], hd.tree_new hlu (by simp), ?_⟩
          intro k w hk hwalk hTw
          have hk' : k ≤ d u := by simp [hlen] at hk; omega
          obtain ⟨hmw, _⟩ := hi.near u rest hw k w hwalk hk'
          rcases hi.noT w hmw with h1 | h1
          · rw [hdisj w h1] at hTw; cases hTw
          · rw [h1] at hTw; cases hTw
        · rename_i s1 he
          obtain ⟨news, hd, hw1, hT, hm⟩ := edges_cont filt isT u _ (g u) _ s1 he
          exact ih s1 _ (hi.step u rest news hw hd hw1 hT hm) h

theorem init_BInv (g : Graph) (filt isT : Nat → Bool) (sr : Searcher) (par : Array (Option Nat))
    (h : resetParents sr = some par) :
    BInv g filt isT (· ∈ sr.sources) (fun _ => 0) { par := par, wl := sr.sources } := by
  have hs := init_SInv g filt sr par h
  have hm := init_marked sr par h
  constructor
  · intro v hv
    have hsv : v ∈ sr.sources := (hm v).mp hv
    obtain ⟨_, _, h3⟩ := resetParents_spec sr par h
    exact ⟨[v], .root v hsv (by simp only; rw [h3 v]; simp [hsv]), rfl⟩
  · exact hs.wl
  · exact List.pairwise_of_forall (fun _ _ => Nat.le_refl 0)
  · intro v hv hn; exact absurd ((hm v).mp hv) hn
  · intro v _ x _; omega
  · intro v hv; exact ⟨(hm v).mpr hv, rfl⟩
  · intro v hv; exact Or.inl ((hm v).mp hv)

end Tbx.Search
