import Tbx.Spec.MergeTree
/-
The stand-in for `BinaryHeap<MergeEntry<T>>` used by the driver's model of heap merges (`KWay.bag`:
a list of entries, `pop` removes the first entry with minimal item) satisfies `TreeSpec` for every
capacity; so `TreeSpec` has a second, structurally different model besides the loser tree.
-/
namespace Tbx.KWay
open Tbx

def bagOk (s : List Entry) : Prop := s.Pairwise (fun a b => a.index ≠ b.index)
def bagSlot (s : List Entry) (j : Nat) : Option Int := (s.find? (fun e => e.index == j)).map (·.item)

theorem bagSlot_none_of (s : List Entry) (j : Nat) (h : ∀ x ∈ s, x.index ≠ j) : bagSlot s j = none := by
  unfold bagSlot
  rw [List.find?_eq_none.mpr (fun x hx => by simpa using h x hx)]
  rfl

theorem bagSlot_cons (e : Entry) (s : List Entry) (j : Nat) :
    bagSlot (e :: s) j = if e.index = j then some e.item else bagSlot s j := by
  unfold bagSlot
  by_cases h : e.index = j
  · rw [List.find?_cons_of_pos (by simpa using h), if_pos h]; rfl
  · rw [List.find?_cons_of_neg (by simpa using h), if_neg h]

theorem exists_of_bagSlot (s : List Entry) (j : Nat) (y : Int) (h : bagSlot s j = some y) :
    ∃ x ∈ s, x.index = j ∧ x.item = y := by
  unfold bagSlot at h
  cases hf : s.find? (fun e => e.index == j) with
  | none => rw [hf] at h; cases h
  | some x =>
    rw [hf] at h
    refine ⟨x, List.mem_of_find?_eq_some hf, by simpa using List.find?_some hf, by simpa using h⟩

theorem bagPop_spec (s : List Entry) (hok : bagOk s) :
    ∃ r s', bagPop s = some (r, s') ∧
      match r with
      | none => s = [] ∧ s' = []
      | some m => m ∈ s ∧ (∀ x ∈ s, m.item ≤ x.item) ∧ bagOk s' ∧ (∀ x ∈ s', x ∈ s) ∧
                  ∀ j, bagSlot s' j = if j = m.index then none else bagSlot s j := by
  induction s with
  | nil => exact ⟨none, [], rfl, rfl, rfl⟩
  | cons e es ih =>
    have hok' : bagOk es := (List.pairwise_cons.mp hok).2
    have hne : ∀ x ∈ es, e.index ≠ x.index := (List.pairwise_cons.mp hok).1
    -- popping e itself
    have popE : ∀ j, bagSlot es j = if j = e.index then none else bagSlot (e :: es) j := by
      intro j
      rw [bagSlot_cons]
      by_cases hj : j = e.index
      · rw [if_pos hj, hj]
        exact bagSlot_none_of es _ (fun x hx h => hne x hx h.symm)
      · rw [if_neg hj, if_neg (fun h => hj h.symm)]
    obtain ⟨r, s', hp, hr⟩ := ih hok'
    cases r with
    | none =>
      obtain ⟨h1, _⟩ := hr
      subst h1
      refine ⟨some e, [], by simp [bagPop], by simp, ?_, hok', (fun x hx => by cases hx), popE⟩
      intro x hx
      simp at hx; subst hx; exact Int.le_refl _
    | some m =>
      obtain ⟨hm, hmin, hoks, hsub, hsl⟩ := hr
      by_cases hlt : m.item < e.item
      · refine ⟨some m, e :: s', by simp [bagPop, hp, hlt], List.mem_cons_of_mem _ hm, ?_, ?_, ?_, ?_⟩
        · intro x hx
          rcases List.mem_cons.mp hx with rfl | hx
          · omega
          · exact hmin x hx
        · exact List.pairwise_cons.mpr ⟨fun x hx => hne x (hsub x hx), hoks⟩
        · intro x hx
          rcases List.mem_cons.mp hx with rfl | hx
          · exact List.mem_cons_self
          · exact List.mem_cons_of_mem _ (hsub x hx)
        · intro j
          rw [bagSlot_cons, bagSlot_cons, hsl j]
          by_cases hj : j = m.index
          · have : ¬ (e.index = j) := by rw [hj]; exact hne m hm
            rw [if_neg this, if_pos hj, if_pos hj]
          · rw [if_neg hj, if_neg hj]
      · refine ⟨some e, es, by simp [bagPop, hp, hlt], List.mem_cons_self, ?_, hok',
          fun x hx => List.mem_cons_of_mem _ hx, popE⟩
        intro x hx
        rcases List.mem_cons.mp hx with rfl | hx
        · exact Int.le_refl _
        · have := hmin x hx; omega

theorem bagSlot_mem (s : List Entry) (m : Entry) (hok : bagOk s) (hm : m ∈ s) : bagSlot s m.index = some m.item := by
  induction s with
  | nil => cases hm
  | cons a as ih =>
    rw [bagSlot_cons]
    rcases List.mem_cons.mp hm with rfl | hm'
    · simp
    · have hne : a.index ≠ m.index := (List.pairwise_cons.mp hok).1 m hm'
      rw [if_neg hne]
      exact ih (List.pairwise_cons.mp hok).2 hm'


/-- the bag satisfies the merge-tree specification (any capacity) -/
def bagSpec (cap : Nat) : TreeSpec bag cap where
  ok := bagOk
  slot := bagSlot
  push_ok := by
    intro s e hok _ hfree
    refine ⟨s ++ [e], rfl, ?_, ?_⟩
    · have hno : ∀ x ∈ s, x.index ≠ e.index := by
        intro x hx hxe
        have : bagSlot s e.index ≠ none := by
          unfold bagSlot
          cases hf : s.find? (fun a => a.index == e.index) with
          | none =>
            have := List.find?_eq_none.mp hf x hx
            simp [hxe] at this
          | some y => simp
        exact this hfree
      unfold bagOk
      rw [List.pairwise_append]
      refine ⟨hok, by simp, ?_⟩
      intro a ha b hb
      simp at hb; subst hb
      exact hno a ha
    · intro j
      unfold bagSlot
      rw [List.find?_append]
      cases hf : s.find? (fun a => a.index == j) with
      | some y =>
        have hy : y.index = j := by simpa using List.find?_some hf
        have hne : ¬ (j = e.index) := by
          intro h
          have : bagSlot s e.index = some y.item := by unfold bagSlot; rw [← h, hf]; rfl
          rw [hfree] at this; cases this
        rw [if_neg hne]; rfl
      | none =>
        by_cases hj : j = e.index
        · subst hj; simp
        · have : ¬ (e.index = j) := fun h => hj h.symm
          simp [this, hj]
  pop_ok := by
    intro s hok
    obtain ⟨r, s', hp, hr⟩ := bagPop_spec s hok
    cases r with
    | none =>
      obtain ⟨h1, h2⟩ := hr
      subst h1; subst h2
      exact ⟨none, [], hp, hok, fun _ => rfl, fun _ => rfl⟩
    | some m =>
      obtain ⟨hm, hmin, hoks, _, hsl⟩ := hr
      refine ⟨some m, s', hp, hoks, ?_, ?_, hsl⟩
      · -- the slot of m holds m's item: m is the only entry with its index
        exact bagSlot_mem s m hok hm
      · intro j y hj
        obtain ⟨x, hx, _, hxy⟩ := exists_of_bagSlot s j y hj
        rw [← hxy]; exact hmin x hx
end Tbx.KWay
