import Tbx.Model.Huffman
import Tbx.Spec.HuffmanCode
/-
Shared vocabulary of the Huffman optimality proof (Tbx/Proofs/HuffmanOpt*.lean):

* `optCost` (the judge's greedy optimum) depends only on the multiset of weights (`optCost_perm`) and obeys
  the merge recurrence `optCost_merge`: if `a ≤ b` are two minimal weights, then
  `optCost (a :: b :: R) = a + b + optCost ((a + b) :: R)`;
* `KraftLe L ls`: lengths `ls` are at most `L` and satisfy Kraft's inequality scaled by `2^L`;
* `wsum ps`: weighted length `Σ w · l` of a list of (weight, length) pairs;
* `HeapOrd a`: the array is a binary min-heap with respect to `Tree.freq`.
Core Lean only.
-/
namespace Tbx.Spec.Huff

theorem sum_perm {l l' : List Int} (h : l.Perm l') : l.sum = l'.sum := by
  induction h with
  | nil => rfl
  | cons x _ ih => simp [ih]
  | swap x y l => simp only [List.sum_cons]; omega
  | trans _ _ ih1 ih2 => exact ih1.trans ih2

theorem sum_perm_nat {l l' : List Nat} (h : l.Perm l') : l.sum = l'.sum := by
  induction h with
  | nil => rfl
  | cons x _ ih => simp [ih]
  | swap x y l => simp only [List.sum_cons]; omega
  | trans _ _ ih1 ih2 => exact ih1.trans ih2

theorem insertSorted_comm (x y : Int) (l : List Int) :
    insertSorted x (insertSorted y l) = insertSorted y (insertSorted x l) := by
  induction l with
  | nil =>
    simp only [insertSorted]
    by_cases h1 : x ≤ y <;> by_cases h2 : y ≤ x <;> simp [insertSorted, h1, h2]
    · omega
    · omega
  | cons z zs ih =>
    by_cases hx : x ≤ z <;> by_cases hy : y ≤ z
    · simp only [insertSorted, hx, hy, if_true]
      by_cases h1 : x ≤ y <;> by_cases h2 : y ≤ x <;> simp [insertSorted, h1, h2, hx, hy]
      · omega
      · omega
    · have hyx : ¬ y ≤ x := by omega
      have hxy : x ≤ y := by omega
      simp [insertSorted, hx, hy, hyx]
    · have hxy : ¬ x ≤ y := by omega
      simp [insertSorted, hx, hy, hxy]
    · simp [insertSorted, hx, hy, ih]

theorem sortInts_perm_eq {l l' : List Int} (h : l.Perm l') : sortInts l = sortInts l' := by
  induction h with
  | nil => rfl
  | cons x _ ih => simp only [sortInts, List.foldr_cons] at ih ⊢; rw [ih]
  | swap x y l => simp only [sortInts, List.foldr_cons]; exact insertSorted_comm y x _
  | trans _ _ ih1 ih2 => exact ih1.trans ih2

theorem insertSorted_perm (x : Int) (l : List Int) : (insertSorted x l).Perm (x :: l) := by
  induction l with
  | nil => exact List.Perm.refl _
  | cons y ys ih =>
    simp only [insertSorted]
    split
    · exact List.Perm.refl _
    · exact (List.Perm.cons y ih).trans (List.Perm.swap x y ys)

theorem sortInts_perm (l : List Int) : (sortInts l).Perm l := by
  induction l with
  | nil => exact List.Perm.refl _
  | cons x xs ih =>
    show (insertSorted x (sortInts xs)).Perm (x :: xs)
    exact (insertSorted_perm x _).trans (List.Perm.cons x ih)

theorem sortInts_length (l : List Int) : (sortInts l).length = l.length := (sortInts_perm l).length_eq

/-- the judge's optimum depends only on the multiset of weights -/
theorem optCost_perm {l l' : List Int} (h : l.Perm l') : optCost l = optCost l' := by
  unfold optCost
  rw [sortInts_perm_eq h, h.length_eq]

theorem insertSorted_of_le (x : Int) (l : List Int) (h : ∀ r ∈ l, x ≤ r) : insertSorted x l = x :: l := by
  cases l with
  | nil => rfl
  | cons y ys => simp [insertSorted, h y (by simp)]

@[simp] theorem optCost_nil : optCost [] = 0 := rfl
@[simp] theorem optCost_single (w : Int) : optCost [w] = 0 := rfl

/-- merge recurrence: `a ≤ b` are two minimal weights of the multiset `a :: b :: R` -/
theorem optCost_merge (a b : Int) (R : List Int) (hab : a ≤ b) (hR : ∀ r ∈ R, b ≤ r) :
    optCost (a :: b :: R) = a + b + optCost ((a + b) :: R) := by
  have hmem : ∀ r ∈ sortInts R, b ≤ r := fun r hr => hR r ((sortInts_perm R).mem_iff.mp hr)
  have e1 : sortInts (a :: b :: R) = a :: b :: sortInts R := by
    show insertSorted a (insertSorted b (sortInts R)) = _
    rw [insertSorted_of_le b _ hmem, insertSorted_of_le a]
    intro r hr
    rcases List.mem_cons.mp hr with rfl | hr
    · exact hab
    · exact Int.le_trans hab (hmem r hr)
  unfold optCost
  rw [e1]
  simp only [List.length_cons, greedyCost]
  rfl

/-- lengths at most `L` with Kraft sum (scaled by `2^L`) at most one -/
def KraftLe (L : Nat) (ls : List Nat) : Prop :=
  (∀ l ∈ ls, l ≤ L) ∧ (ls.map fun l => 2 ^ (L - l)).sum ≤ 2 ^ L

/-- weighted length of (weight, length) pairs -/
def wsum (ps : List (Int × Nat)) : Int := (ps.map fun p => p.1 * (p.2 : Int)).sum

end Tbx.Spec.Huff

namespace Tbx.Huffman

/-- binary min-heap with respect to `freq` (what `BinaryHeap<Reverse<node>>` maintains) -/
def HeapOrd (a : Array Tree) : Prop := ∀ i, 1 ≤ i → i < a.size → fr a ((i - 1) / 2) ≤ fr a i

end Tbx.Huffman
