import Tbx.Model.InertialFlow
/-
C03: the sort of `sub_step` by its contract (core Lean only).

`sort_unstable_by_key` returns SOME permutation of the id list that is non-decreasing in the key.  When
the keys of the ids are pairwise distinct there is exactly one such list (`sorted_perm_unique`), and it is
the one the model's insertion sort computes (`sortIds_perm`, `sortIds_sorted`): so for distinct keys
`subStep` is a function of the inputs that the Rust must agree with; for tied keys `subStepSorted` is
applied to whatever order the Rust's sort produced.
-/
namespace Tbx.InertialFlow

theorem insertByKey_perm (key : Nat → Int) (x : Nat) : ∀ l, (insertByKey key x l).Perm (x :: l) := by
  intro l
  induction l with
  | nil => exact List.Perm.refl _
  | cons y ys ih =>
    unfold insertByKey
    split
    · exact List.Perm.refl _
    · exact (List.Perm.cons y ih).trans (List.Perm.swap x y ys)

theorem sortByKey_perm (key : Nat → Int) : ∀ l, (sortByKey key l).Perm l := by
  intro l
  induction l with
  | nil => exact List.Perm.refl _
  | cons x xs ih =>
    unfold sortByKey
    exact (insertByKey_perm key x _).trans (List.Perm.cons x ih)

theorem insertByKey_sorted (key : Nat → Int) (x : Nat) : ∀ l,
    l.Pairwise (fun a b => key a ≤ key b) → (insertByKey key x l).Pairwise (fun a b => key a ≤ key b) := by
  intro l
  induction l with
  | nil => intro _; simp [insertByKey]
  | cons y ys ih =>
    intro h
    unfold insertByKey
    have hy := List.pairwise_cons.mp h
    split
    · rename_i hle
      apply List.pairwise_cons.mpr
      refine ⟨?_, h⟩
      intro z hz
      rcases List.mem_cons.mp hz with rfl | hz
      · exact hle
      · exact Int.le_trans hle (hy.1 z hz)
    · rename_i hnle
      apply List.pairwise_cons.mpr
      refine ⟨?_, ih hy.2⟩
      intro z hz
      have := (insertByKey_perm key x ys).mem_iff.mp hz
      rcases List.mem_cons.mp this with rfl | hz'
      · omega
      · exact hy.1 z hz'

theorem sortByKey_sorted (key : Nat → Int) : ∀ l, (sortByKey key l).Pairwise (fun a b => key a ≤ key b) := by
  intro l
  induction l with
  | nil => simp [sortByKey]
  | cons x xs ih => unfold sortByKey; exact insertByKey_sorted key x _ ih

/-- two key-sorted permutations of a list whose keys are pairwise distinct are equal -/
theorem sorted_perm_unique (key : Nat → Int) : ∀ (l1 l2 : List Nat), l1.Perm l2 →
    (∀ a b, a ∈ l1 → b ∈ l1 → key a = key b → a = b) →
    l1.Pairwise (fun a b => key a ≤ key b) → l2.Pairwise (fun a b => key a ≤ key b) → l1 = l2 := by
  intro l1
  induction l1 with
  | nil => intro l2 hp _ _ _; exact (List.Perm.nil_eq hp)
  | cons a t1 ih =>
    intro l2 hp hinj h1 h2
    cases l2 with
    | nil => exact absurd hp.length_eq (by simp)
    | cons b t2 =>
      have h1' := List.pairwise_cons.mp h1
      have h2' := List.pairwise_cons.mp h2
      have hab : a = b := by
        have ha2 : a ∈ b :: t2 := hp.mem_iff.mp List.mem_cons_self
        have hb1 : b ∈ a :: t1 := hp.mem_iff.mpr List.mem_cons_self
        have le1 : key a ≤ key b := by
          rcases List.mem_cons.mp hb1 with rfl | hb
          · exact Int.le_refl _
          · exact h1'.1 b hb
        have le2 : key b ≤ key a := by
          rcases List.mem_cons.mp ha2 with rfl | ha
          · exact Int.le_refl _
          · exact h2'.1 a ha
        exact hinj a b List.mem_cons_self hb1 (by omega)
      subst hab
      have hp' : t1.Perm t2 := (List.perm_cons a).mp hp
      rw [ih t2 hp' (fun x y hx hy => hinj x y (List.mem_cons_of_mem _ hx) (List.mem_cons_of_mem _ hy))
        h1'.2 h2'.2]

theorem sortIds_perm (ids : List Nat) (coord : Nat → Coord) (axis : Nat) :
    (sortIds ids coord axis).Perm ids := sortByKey_perm _ ids

theorem sortIds_sorted (ids : List Nat) (coord : Nat → Coord) (axis : Nat) :
    (sortIds ids coord axis).Pairwise (fun a b => axisKey axis (coord a) ≤ axisKey axis (coord b)) :=
  sortByKey_sorted _ ids

end Tbx.InertialFlow
