import Tbx.Proofs.DijkstraBasic
/-
Index arithmetic of src/cell.rs (no heap invariant needed):
  * `process_matrix`   : after `BaseCell::process`, `matrix[i·|out| + j]` holds what the i-th search
                         reported for the j-th target id (or 0 / MAX for a boundary node without edges);
  * `distanceRow_spec` : `get_distance_row(u)` is the slice `[i·|out|, (i+1)·|out|)` for the index i of u;
  * `overlayEdges_spec`: `overlay_edges` lists, row-major, exactly the finite cells with their boundary nodes.
-/
namespace Tbx.Dijkstra
open Tbx Tbx.AHeap


theorem getElem?_lt {α} {l : List α} {j : Nat} {x : α} (h : l[j]? = some x) : j < l.length := by
  by_cases hj : j < l.length
  · exact hj
  · rw [List.getElem?_eq_none (by omega)] at h; cases h

theorem fillRow_spec (dist : Nat → Int) (row : Nat) (ts : List Nat) (ti : Nat) (mx mx' : Array Int)
    (h : fillRow dist row ti ts mx = some mx') :
    mx'.size = mx.size ∧
    (∀ j t, ts[j]? = some t → row + ti + j < mx.size ∧ gt mx' (row + ti + j) = dist t) ∧
    (∀ k, (k < row + ti ∨ row + ti + ts.length ≤ k) → gt mx' k = gt mx k) := by
  induction ts generalizing ti mx with
  | nil =>
    simp only [fillRow, Option.some.injEq] at h; subst h
    refine ⟨rfl, ?_, fun _ _ => rfl⟩
    intro j t hj; simp at hj
  | cons target ts ih =>
    simp only [fillRow] at h
    split at h
    · rename_i hlt
      obtain ⟨h1, h2, h3⟩ := ih (ti + 1) _ h
      rw [size_st] at h1
      refine ⟨h1, ?_, ?_⟩
      · intro j t hj
        cases j with
        | zero =>
          simp only [List.getElem?_cons_zero, Option.some.injEq] at hj; subst hj
          refine ⟨by simpa using hlt, ?_⟩
          rw [Nat.add_zero, h3 (row + ti) (Or.inl (by omega)), gt_st_eq _ _ _ hlt]
        | succ j =>
          simp only [List.getElem?_cons_succ] at hj
          have := h2 j t hj
          rw [size_st] at this
          have e : row + (ti + 1) + j = row + ti + (j + 1) := by omega
          rw [e] at this; exact this
      · intro k hk
        rw [h3 k (by simp only [List.length_cons] at hk; omega)]
        rw [gt_st_ne]
        simp only [List.length_cons] at hk; omega
    · cases h

theorem zeroRow_spec (source row : Nat) (ts : List Nat) (ti : Nat) (mx mx' : Array Int)
    (h : zeroRow source row ti ts mx = some mx') :
    mx'.size = mx.size ∧
    (∀ j t, ts[j]? = some t → gt mx' (row + ti + j) = if t = source then 0 else gt mx (row + ti + j)) ∧
    (∀ j t, ts[j]? = some t → t = source → row + ti + j < mx.size) ∧
    (∀ k, (k < row + ti ∨ row + ti + ts.length ≤ k) → gt mx' k = gt mx k) := by
  induction ts generalizing ti mx with
  | nil =>
    simp only [zeroRow, Option.some.injEq] at h; subst h
    refine ⟨rfl, ?_, ?_, fun _ _ => rfl⟩
    · intro j t hj; simp at hj
    · intro j t hj; simp at hj
  | cons target ts ih =>
    simp only [zeroRow] at h
    split at h
    · rename_i heq
      have heq' : target = source := by simpa using heq
      split at h
      · rename_i hlt
        obtain ⟨h1, h2, h2', h3⟩ := ih (ti + 1) _ h
        rw [size_st] at h1
        refine ⟨h1, ?_, ?_, ?_⟩
        · intro j t hj
          cases j with
          | zero =>
            simp only [List.getElem?_cons_zero, Option.some.injEq] at hj; subst hj
            rw [Nat.add_zero, h3 (row + ti) (Or.inl (by omega)), gt_st_eq _ _ _ hlt, if_pos heq']
          | succ j =>
            simp only [List.getElem?_cons_succ] at hj
            have := h2 j t hj
            have e : row + (ti + 1) + j = row + ti + (j + 1) := by omega
            rw [e] at this; rw [this]
            rw [gt_st_ne]; omega
        · intro j t hj hts
          cases j with
          | zero => simpa using hlt
          | succ j =>
            simp only [List.getElem?_cons_succ] at hj
            have := h2' j t hj hts
            rw [size_st] at this; omega
        · intro k hk
          simp only [List.length_cons] at hk
          rw [h3 k (by omega), gt_st_ne]; omega
      · cases h
    · rename_i hne
      have hne' : target ≠ source := by simpa using hne
      obtain ⟨h1, h2, h2', h3⟩ := ih (ti + 1) _ h
      refine ⟨h1, ?_, ?_, ?_⟩
      · intro j t hj
        cases j with
        | zero =>
          simp only [List.getElem?_cons_zero, Option.some.injEq] at hj; subst hj
          rw [Nat.add_zero, h3 (row + ti) (Or.inl (by omega)), if_neg hne']
        | succ j =>
          simp only [List.getElem?_cons_succ] at hj
          have := h2 j t hj
          have e : row + (ti + 1) + j = row + ti + (j + 1) := by omega
          rw [e] at this; exact this
      · intro j t hj hts
        cases j with
        | zero =>
          simp only [List.getElem?_cons_zero, Option.some.injEq] at hj; subst hj; exact absurd hts hne'
        | succ j =>
          simp only [List.getElem?_cons_succ] at hj
          have := h2' j t hj hts; omega
      · intro k hk
        simp only [List.length_cons] at hk
        exact h3 k (by omega)
/-- what `process` leaves in the matrix cell of (source id, target id); `old` = previous content -/
def cellEntry (adj : Adj) (nn : Nat) (ee : Bool) (targetIds : List Nat) (source target : Nat) (old : Int) : Int :=
  if ee || decide (source ≥ nn) then (if target = source then 0 else old)
  else
    match o2mRun adj nn O2M.new source targetIds with
    | .ok (st, _) => st.distance target
    | _ => old

theorem processLoop_spec (adj : Adj) (nn : Nat) (ee : Bool) (targetIds : List Nat) (nOut : Nat)
    (hlen : targetIds.length = nOut) (srcs : List Nat) (si : Nat) (st : O2M) (hw : WFq st.queue)
    (mx : Array Int) (st' : O2M) (mx' : Array Int)
    (h : processLoop adj nn ee targetIds nOut si srcs st mx = .ok (st', mx')) :
    mx'.size = mx.size ∧
    (∀ i source j target, srcs[i]? = some source → targetIds[j]? = some target →
      gt mx' ((si + i) * nOut + j) =
        cellEntry adj nn ee targetIds source target (gt mx ((si + i) * nOut + j))) ∧
    (∀ k, (k < si * nOut ∨ (si + srcs.length) * nOut ≤ k) → gt mx' k = gt mx k) := by
  induction srcs generalizing si st mx with
  | nil =>
    simp only [processLoop, Res.ok.injEq, Prod.mk.injEq] at h
    obtain ⟨_, h2⟩ := h; subst h2
    refine ⟨rfl, ?_, fun _ _ => rfl⟩
    intro i source j target hi; simp at hi
  | cons source rest ih =>
    simp only [processLoop] at h
    have hrow : (si + 1) * nOut = si * nOut + nOut := Nat.succ_mul si nOut
    have hrowi : ∀ i, (si + (i + 1)) * nOut = si * nOut + nOut + i * nOut := by
      intro i; rw [Nat.add_mul, Nat.succ_mul]; omega
    have hrow0 : (si + 0) * nOut = si * nOut := by rw [Nat.add_zero]
    split at h
    · -- boundary node without incident edge
      rename_i hcond
      split at h
      · cases h
      · rename_i mx1 hz
        obtain ⟨z1, z2, _, z4⟩ := zeroRow_spec source (si * nOut) targetIds 0 mx mx1 hz
        obtain ⟨a1, a2, a3⟩ := ih (si + 1) st hw mx1 h
        refine ⟨a1.trans z1, ?_, ?_⟩
        · intro i src j target hi hj
          have hjl := getElem?_lt hj
          cases i with
          | zero =>
            simp only [List.getElem?_cons_zero, Option.some.injEq] at hi; subst hi
            rw [hrow0, a3 _ (Or.inl (by rw [hrow]; omega))]
            have := z2 j target hj
            rw [Nat.add_zero] at this
            rw [this]; unfold cellEntry; rw [if_pos hcond]
          | succ i =>
            simp only [List.getElem?_cons_succ] at hi
            have := a2 i src j target hi hj
            have e : (si + 1 + i) * nOut = (si + (i + 1)) * nOut := by congr 1; omega
            rw [e] at this; rw [this]
            congr 1
            apply z4; right
            rw [hrowi]; omega
        · intro k hk
          simp only [List.length_cons] at hk
          rw [a3 k (by
            rcases hk with hk | hk
            · left; rw [hrow]; omega
            · right
              have e : (si + 1 + rest.length) * nOut = (si + (rest.length + 1)) * nOut := by congr 1; omega
              rw [e]; exact hk)]
          apply z4
          rcases hk with hk | hk
          · left; omega
          · right; rw [hrowi] at hk; omega
    · rename_i hcond
      rw [o2mRun_reuse adj nn st source targetIds hw] at h
      split at h
      · cases h
      · cases h
      · rename_i st1 b hrun
        split at h
        · cases h
        · rename_i mx1 hf
          obtain ⟨f1, f2, f3⟩ := fillRow_spec _ (si * nOut) targetIds 0 mx mx1 hf
          have hw1 := o2mRun_params adj nn O2M.new st1 source targetIds b hrun WFq_new_o2m
          obtain ⟨a1, a2, a3⟩ := ih (si + 1) st1 hw1 mx1 h
          refine ⟨a1.trans f1, ?_, ?_⟩
          · intro i src j target hi hj
            have hjl := getElem?_lt hj
            cases i with
            | zero =>
              simp only [List.getElem?_cons_zero, Option.some.injEq] at hi; subst hi
              rw [hrow0, a3 _ (Or.inl (by rw [hrow]; omega))]
              have := (f2 j target hj).2
              rw [Nat.add_zero] at this
              rw [this]; unfold cellEntry; rw [if_neg hcond, hrun]
            | succ i =>
              simp only [List.getElem?_cons_succ] at hi
              have := a2 i src j target hi hj
              have e : (si + 1 + i) * nOut = (si + (i + 1)) * nOut := by congr 1; omega
              rw [e] at this; rw [this]
              congr 1
              apply f3; right
              rw [hrowi]; omega
          · intro k hk
            simp only [List.length_cons] at hk
            rw [a3 k (by
              rcases hk with hk | hk
              · left; rw [hrow]; omega
              · right
                have e : (si + 1 + rest.length) * nOut = (si + (rest.length + 1)) * nOut := by congr 1; omega
                rw [e]; exact hk)]
            apply f3
            rcases hk with hk | hk
            · left; omega
            · right; rw [hrowi] at hk; omega


theorem lookupAll_spec (seen : List (Nat × Nat)) (xs r : List Nat) (h : lookupAll seen xs = some r) :
    r.length = xs.length ∧ ∀ (i id : Nat), r[i]? = some id → ∃ x, xs[i]? = some x ∧ seen.lookup x = some id := by
  induction xs generalizing r with
  | nil => simp only [lookupAll, Option.some.injEq] at h; subst h; exact ⟨rfl, by intro i id hi; simp at hi⟩
  | cons x xs ih =>
    simp only [lookupAll] at h
    split at h
    · rename_i id0 r0 h1 h2
      cases h
      obtain ⟨l, e⟩ := ih r0 h2
      refine ⟨by simp [l], ?_⟩
      intro i id hi
      cases i with
      | zero => simp only [List.getElem?_cons_zero, Option.some.injEq] at hi; subst hi; exact ⟨x, rfl, h1⟩
      | succ i => simp only [List.getElem?_cons_succ] at hi ⊢; exact e i id hi
    · cases h

theorem gt_replicate (k : Nat) (v : Int) (i : Nat) (h : i < k) : gt (Array.replicate k v) i = v := by
  simp [gt, Array.getD_eq_getD_getElem?, h]

theorem idx_lt {n m i j : Nat} (hi : i < n) (hj : j < m) : i * m + j < n * m := by
  have h1 : i * m + j < (i + 1) * m := by rw [Nat.succ_mul]; omega
  exact Nat.lt_of_lt_of_le h1 (Nat.mul_le_mul_right m hi)

/-- row-major addresses are unique -/
theorem idx_inj {m i j i' j' : Nat} (hj : j < m) (hj' : j' < m) (h : i * m + j = i' * m + j') : i = i' ∧ j = j' := by
  have hm : 0 < m := by omega
  have a : (i * m + j) / m = i := by rw [Nat.mul_comm, Nat.mul_add_div hm, Nat.div_eq_of_lt hj]; rfl
  have b : (i' * m + j') / m = i' := by rw [Nat.mul_comm, Nat.mul_add_div hm, Nat.div_eq_of_lt hj']; rfl
  have e : i = i' := by rw [← a, ← b, h]
  subst e
  exact ⟨rfl, by omega⟩

theorem indexOf?_spec (l : List Nat) (u i : Nat) (h : indexOf? l u = some i) :
    l[i]? = some u ∧ ∀ k, k < i → l[k]? ≠ some u := by
  induction l generalizing i with
  | nil => simp [indexOf?] at h
  | cons x xs ih =>
    simp only [indexOf?] at h
    split at h
    · rename_i hx
      cases h
      exact ⟨by simp [hx], fun k hk => by omega⟩
    · rename_i hx
      cases hr : indexOf? xs u with
      | none => rw [hr] at h; simp at h
      | some i0 =>
        rw [hr] at h; simp only [Option.map_some, Option.some.injEq] at h; subst h
        obtain ⟨a, b⟩ := ih i0 hr
        refine ⟨by simpa using a, ?_⟩
        intro k hk
        cases k with
        | zero => simp; exact hx
        | succ k => simp only [List.getElem?_cons_succ]; exact b k (by omega)

theorem gt_extract (a : Array Int) (s e j : Nat) (h : e ≤ a.size) (hj : s + j < e) :
    gt (a.extract s e) j = gt a (s + j) := by
  simp only [gt, Array.getD_eq_getD_getElem?, Array.getElem?_extract]
  have : j < min e a.size - s := by omega
  simp [this]

theorem distanceRow_spec (c : MatrixCell) (u : Nat) (row : Array Int) (h : distanceRow c u = some row) :
    ∃ i, c.incoming[i]? = some u ∧ (∀ k, k < i → c.incoming[k]? ≠ some u) ∧
      row = c.matrix.extract (i * c.outgoing.length) ((i + 1) * c.outgoing.length) ∧
      row.size = c.outgoing.length ∧
      ∀ j, j < c.outgoing.length →
        i * c.outgoing.length + j < c.matrix.size ∧ gt row j = gt c.matrix (i * c.outgoing.length + j) := by
  unfold distanceRow at h
  split at h
  · cases h
  · rename_i i hi
    simp only at h
    split at h
    · rename_i hsz
      cases h
      obtain ⟨a, b⟩ := indexOf?_spec _ _ _ hi
      refine ⟨i, a, b, rfl, ?_, ?_⟩
      · rw [Array.size_extract, Nat.min_eq_left hsz, Nat.succ_mul]; omega
      · intro j hj
        have : i * c.outgoing.length + j < (i + 1) * c.outgoing.length := by rw [Nat.succ_mul]; omega
        exact ⟨by omega, gt_extract _ _ _ _ hsz this⟩
    · cases h

/-- entry (i, j) of the overlay: present iff the matrix cell is finite -/
def overlayEntry (c : MatrixCell) (i j : Nat) : Option (Nat × Nat × Int) :=
  if gt c.matrix (i * c.outgoing.length + j) != UMAX then
    match c.incoming[i]?, c.outgoing[j]? with
    | some s, some t => some (s, t, gt c.matrix (i * c.outgoing.length + j))
    | _, _ => none
  else none

theorem overlayInner_spec (c : MatrixCell) (i source : Nat) (hs : c.incoming[i]? = some source) (js : List Nat)
    (acc acc' : Array (Nat × Nat × Int)) (h : overlayInner c i source js acc = some acc') :
    acc'.toList = acc.toList ++ js.filterMap (overlayEntry c i) ∧
    ∀ j ∈ js, i * c.outgoing.length + j < c.matrix.size := by
  induction js generalizing acc with
  | nil => simp only [overlayInner, Option.some.injEq] at h; subst h; simp
  | cons j js ih =>
    simp only [overlayInner] at h
    split at h
    · rename_i hlt
      split at h
      · rename_i hne
        split at h
        · cases h
        · rename_i target ht
          obtain ⟨a, b⟩ := ih _ h
          refine ⟨?_, ?_⟩
          · rw [a, Array.toList_push, List.filterMap_cons]
            have : overlayEntry c i j = some (source, target, gt c.matrix (i * c.outgoing.length + j)) := by
              unfold overlayEntry; rw [if_pos hne, hs, ht]
            rw [this]; simp
          · intro j' hj'
            rcases List.mem_cons.mp hj' with e | e
            · subst e; exact hlt
            · exact b j' e
      · rename_i hne
        obtain ⟨a, b⟩ := ih _ h
        refine ⟨?_, ?_⟩
        · rw [a, List.filterMap_cons]
          have : overlayEntry c i j = none := by unfold overlayEntry; rw [if_neg hne]
          rw [this]
        · intro j' hj'
          rcases List.mem_cons.mp hj' with e | e
          · subst e; exact hlt
          · exact b j' e
    · cases h

theorem overlayOuter_spec (c : MatrixCell) (is : List Nat) (acc acc' : Array (Nat × Nat × Int))
    (h : overlayOuter c is acc = some acc') :
    acc'.toList = acc.toList ++ is.flatMap (fun i => (List.range c.outgoing.length).filterMap (overlayEntry c i)) := by
  induction is generalizing acc with
  | nil => simp only [overlayOuter, Option.some.injEq] at h; subst h; simp
  | cons i is ih =>
    simp only [overlayOuter] at h
    split at h
    · cases h
    · rename_i source hs
      split at h
      · cases h
      · rename_i acc1 hi
        obtain ⟨a, _⟩ := overlayInner_spec c i source hs _ _ _ hi
        rw [ih _ h, a, List.flatMap_cons, List.append_assoc]


theorem overlayEdges_spec (c : MatrixCell) (r : Array (Nat × Nat × Int)) (h : overlayEdges c = some r) :
    r.toList = (List.range c.incoming.length).flatMap
      (fun i => (List.range c.outgoing.length).filterMap (overlayEntry c i)) := by
  unfold overlayEdges at h
  have := overlayOuter_spec c _ _ _ h
  simpa using this

/-- **matrix layout after `process`** -/
theorem process_matrix (c : BaseCell) (mc : MatrixCell) (h : process c = .ok mc) :
    mc.incoming = c.incoming ∧ mc.outgoing = c.outgoing ∧
    mc.matrix.size = c.incoming.length * c.outgoing.length ∧
    ∃ newEdges seenF sourceIds targetIds,
      renumber c.edges (c.outgoing.foldl orInsert (c.incoming.foldl orInsert [])) = some (newEdges, seenF) ∧
      lookupAll seenF c.incoming = some sourceIds ∧ lookupAll seenF c.outgoing = some targetIds ∧
      ∀ (i j source target : Nat), sourceIds[i]? = some source → targetIds[j]? = some target →
        i * c.outgoing.length + j < mc.matrix.size ∧
        gt mc.matrix (i * c.outgoing.length + j) =
          cellEntry (staticAdj newEdges) (staticNodes newEdges) c.edges.isEmpty targetIds source target UMAX := by
  unfold process at h
  simp only at h
  split at h
  · cases h
  · rename_i newEdges seenF hren
    split at h
    · rename_i sourceIds targetIds hs ht
      split at h
      · cases h
      · cases h
      · rename_i st' mx hl
        cases h
        obtain ⟨ls, _⟩ := lookupAll_spec _ _ _ hs
        obtain ⟨lt, _⟩ := lookupAll_spec _ _ _ ht
        obtain ⟨a1, a2, _⟩ := processLoop_spec _ _ _ targetIds c.outgoing.length lt sourceIds 0 O2M.new WFq_new_o2m _ _ _ hl
        have hsz : mx.size = c.incoming.length * c.outgoing.length := by rw [a1]; simp
        refine ⟨rfl, rfl, hsz, newEdges, seenF, sourceIds, targetIds, hren, hs, ht, ?_⟩
        intro i j source target hi hj
        have hil : i < c.incoming.length := by rw [← ls]; exact getElem?_lt hi
        have hjl : j < c.outgoing.length := by rw [← lt]; exact getElem?_lt hj
        have hidx := idx_lt hil hjl
        refine ⟨by rw [hsz]; exact hidx, ?_⟩
        have := a2 i source j target hi hj
        rw [Nat.zero_add] at this
        rw [this, gt_replicate _ _ _ hidx]
    · cases h

end Tbx.Dijkstra
