import Tbx.Proofs.LruL1Ref
/-
Histories of the bare list: every in-domain operation sequence keeps the list well-formed and
never reaches an error branch; what the abstract chain becomes is given by the L0 list functions.
-/
namespace Tbx.LruL1
open Tbx

set_option linter.unusedSectionVars false
set_option linter.unusedSimpArgs false
variable {T : Type}

/-- effect of a list operation on the abstract chain; `fresh` is the address the next
    `push_front` will get -/
def absStep (ch : List (Nat × T)) (fresh : Nat) : LL.Op T → List (Nat × T)
  | .pushFront t => LruL0.AList.pushFront ch fresh t
  | .moveToFront c => LruL0.AList.moveToFront ch c
  | .popBack => (LruL0.AList.popBack ch).1
  | .setFront t => LruL0.AList.setFront ch t
  | .clear => []

/-- number of allocations an operation performs -/
def allocs : LL.Op T → Nat
  | .pushFront _ => 1
  | _ => 0

/-- the property's quantifier for the bare list: `move_to_front` only with the cursor of a node that
    is in the list, `get_front_mut` only on a non-empty list -/
def InDomain (ch : List (Nat × T)) : LL.Op T → Prop
  | .moveToFront c => c ∈ addrs ch
  | .setFront _ => ch ≠ []
  | _ => True

def absRun (ch : List (Nat × T)) (fresh : Nat) : List (LL.Op T) → List (Nat × T)
  | [] => ch
  | op :: ops => absRun (absStep ch fresh op) (fresh + allocs op) ops

def InDomainAll (ch : List (Nat × T)) (fresh : Nat) : List (LL.Op T) → Prop
  | [] => True
  | op :: ops => InDomain ch op ∧ InDomainAll (absStep ch fresh op) (fresh + allocs op) ops

theorem step_wf (s : LL T) (ch : List (Nat × T)) (op : LL.Op T) (h : WF s ch) (hd : InDomain ch op) :
    ∃ s', LL.step s op = .ok s' ∧ WF s' (absStep ch s.mem.cells.size op) ∧
      s'.mem.cells.size = s.mem.cells.size + allocs op := by
  cases op with
  | pushFront t =>
    obtain ⟨s', e, hwf, _, hsz⟩ := pushFront_wf s ch t h
    exact ⟨s', by simp [LL.step, e], hwf, hsz⟩
  | moveToFront c =>
    obtain ⟨p, hp, hpc⟩ := List.mem_map.1 hd
    have hn : (ch.map (·.1)).Nodup := h.nodup
    cases hf : ch.find? (fun q => q.1 == c) with
    | none =>
      rw [List.find?_eq_none] at hf
      exact absurd (by simpa using hpc) (hf p hp)
    | some q =>
      obtain ⟨hq, l1, l2, e1, e2⟩ := LruL0.find_split ch c q hn hf
      obtain ⟨b, tb⟩ := q
      simp only at hq; subst hq
      subst e1
      obtain ⟨s', e, hwf, _, hsz⟩ := moveToFront_wf s l1 l2 b tb h
      refine ⟨s', by simp [LL.step, e], ?_, by simp [allocs, hsz]⟩
      simp only [absStep, LruL0.AList.moveToFront, hf]
      have : List.filter (fun p => !p.1 == b) (l1 ++ (b, tb) :: l2) = l1 ++ l2 := e2
      rw [this]; exact hwf
  | popBack =>
    rcases eq_nil_or_snoc ch with e | ⟨l, ⟨a, t⟩, e⟩
    · subst e
      exact ⟨s, by simp [LL.step, popBack_wf_nil s h], by simpa [absStep, LruL0.AList.popBack] using h, rfl⟩
    · subst e
      obtain ⟨s', e, hwf, _, hsz⟩ := popBack_wf_concat s l a t h
      exact ⟨s', by simp [LL.step, e], by simpa [absStep, LruL0.AList.popBack] using hwf, by simp [allocs, hsz]⟩
  | setFront t =>
    cases ch with
    | nil => exact absurd rfl hd
    | cons p rest =>
      obtain ⟨f, t0⟩ := p
      obtain ⟨s', e, hwf, _, hsz⟩ := setFront_wf s f t0 t rest h
      exact ⟨s', by simp [LL.step, e], by simpa [absStep, LruL0.AList.setFront] using hwf, by simp [allocs, hsz]⟩
  | clear =>
    obtain ⟨s', e, hwf, hsz⟩ := clear_wf s ch h
    exact ⟨s', by simp [LL.step, e], by simpa [absStep] using hwf, by simp [allocs, hsz]⟩

theorem run_wf (s : LL T) (ch : List (Nat × T)) (ops : List (LL.Op T)) (h : WF s ch)
    (hd : InDomainAll ch s.mem.cells.size ops) :
    ∃ s', LL.run s ops = .ok s' ∧ WF s' (absRun ch s.mem.cells.size ops) := by
  induction ops generalizing s ch with
  | nil => exact ⟨s, rfl, h⟩
  | cons op ops ih =>
    obtain ⟨hd1, hd2⟩ := hd
    obtain ⟨s1, e1, hwf1, hsz1⟩ := step_wf s ch op h hd1
    rw [← hsz1] at hd2
    obtain ⟨s', e2, hwf2⟩ := ih s1 _ hwf1 hd2
    refine ⟨s', by simp only [LL.run, e1, e2], ?_⟩
    simp only [absRun]; rw [← hsz1]; exact hwf2

end Tbx.LruL1
