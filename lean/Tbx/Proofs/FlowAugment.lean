import Mathlib.Algebra.BigOperators.Ring.Finset
import Tbx.Proofs.FlowTheory
/-
C01 `residual_inv` / `augment_ok` at the level of residual functions (DESIGN.md Appendix A.5 ported):
pushing δ along a simple s–t path of residual edges, 0 ≤ δ ≤ every residual capacity on the path, keeps
the residual invariant and conservation and raises the value by δ.
-/
set_option linter.unnecessarySeqFocus false
open Finset
namespace Tbx.FlowTheory
variable {n : Nat}

/-- signed indicator of the edges of a walk: +1 on (vᵢ,vᵢ₊₁), −1 on (vᵢ₊₁,vᵢ) -/
def chi : List (Fin n) → Fin n → Fin n → ℤ
  | a :: b :: rest, u, v =>
      (if u = a ∧ v = b then 1 else 0) - (if u = b ∧ v = a then 1 else 0) + chi (b :: rest) u v
  | _, _, _ => 0

theorem chi_anti (p : List (Fin n)) (u v : Fin n) : chi p u v = - chi p v u := by
  induction p with
  | nil => simp [chi]
  | cons a rest ih =>
    cases rest with
    | nil => simp [chi]
    | cons b rest =>
      simp only [chi]
      rw [ih]
      have e1 : (u = a ∧ v = b) ↔ (v = b ∧ u = a) := And.comm
      have e2 : (u = b ∧ v = a) ↔ (v = a ∧ u = b) := And.comm
      simp only [e1, e2]; ring

/-- net outflow of the walk's indicator at `u`: +1 at the first node, −1 at the last -/
theorem chi_sum (a : Fin n) (rest : List (Fin n)) (u : Fin n) :
    ∑ v, chi (a :: rest) u v =
      (if u = a then 1 else 0) - (if u = (a :: rest).getLast (by simp) then 1 else 0) := by
  induction rest generalizing a with
  | nil => by_cases h : u = a <;> simp [chi, h]
  | cons b rest ih =>
    simp only [chi, Finset.sum_add_distrib, Finset.sum_sub_distrib]
    rw [ih b]
    have h1 : ∑ v : Fin n, (if u = a ∧ v = b then (1:ℤ) else 0) = if u = a then 1 else 0 := by
      by_cases h : u = a <;> simp [h]
    have h2 : ∑ v : Fin n, (if u = b ∧ v = a then (1:ℤ) else 0) = if u = b then 1 else 0 := by
      by_cases h : u = b <;> simp [h]
    rw [h1, h2]
    simp only [List.getLast_cons_cons]
    by_cases hb : u = b <;> simp [hb, sub_eq_add_neg] <;> congr

theorem chi_not_mem_left (p : List (Fin n)) (u v : Fin n) (h : u ∉ p) : chi p u v = 0 := by
  induction p with
  | nil => simp [chi]
  | cons a rest ih =>
    cases rest with
    | nil => simp [chi]
    | cons b rest =>
      simp only [chi]
      have ha : u ≠ a := fun e => h (e ▸ List.mem_cons_self)
      have hb : u ≠ b := fun e => h (e ▸ List.mem_cons_of_mem _ List.mem_cons_self)
      rw [ih (fun hm => h (List.mem_cons_of_mem _ hm))]
      simp [ha, hb]

theorem chi_not_mem_right (p : List (Fin n)) (u v : Fin n) (h : v ∉ p) : chi p u v = 0 := by
  rw [chi_anti, chi_not_mem_left p v u h]; simp

/-- consecutive pairs of a list -/
def consec {α : Type} : List α → List (α × α)
  | a :: b :: rest => (a, b) :: consec (b :: rest)
  | _ => []

/-- on a simple path the indicator is at most 1, and positive only on the path's own edges -/
theorem chi_le_one (p : List (Fin n)) (hnd : p.Nodup) (u v : Fin n) :
    chi p u v ≤ 1 ∧ (0 < chi p u v → (u, v) ∈ consec p) := by
  induction p with
  | nil => simp [chi]
  | cons a rest ih =>
    cases rest with
    | nil => simp [chi]
    | cons b rest =>
      have hnd' : (b :: rest).Nodup := (List.nodup_cons.mp hnd).2
      have ha : a ∉ b :: rest := (List.nodup_cons.mp hnd).1
      have hab : a ≠ b := fun e => ha (e ▸ List.mem_cons_self)
      obtain ⟨i1, i2⟩ := ih hnd'
      simp only [chi, consec]
      by_cases h1 : u = a ∧ v = b
      · have : chi (b :: rest) u v = 0 := chi_not_mem_left _ _ _ (h1.1 ▸ ha)
        have h2 : ¬ (u = b ∧ v = a) := fun h => hab (h1.1 ▸ h.1)
        rw [this, if_pos h1, if_neg h2]
        refine ⟨by omega, fun _ => ?_⟩
        rw [h1.1, h1.2]; exact List.mem_cons_self
      · by_cases h2 : u = b ∧ v = a
        · have : chi (b :: rest) u v = 0 := chi_not_mem_right _ _ _ (h2.2 ▸ ha)
          rw [this, if_neg h1, if_pos h2]
          exact ⟨by omega, fun h => by omega⟩
        · rw [if_neg h1, if_neg h2]
          refine ⟨by omega, fun h => ?_⟩
          exact List.mem_cons_of_mem _ (i2 (by omega))

/-- residual function after pushing δ along the walk p -/
def pushAlong (r : Fin n → Fin n → ℤ) (δ : ℤ) (p : List (Fin n)) : Fin n → Fin n → ℤ :=
  fun u v => r u v - δ * chi p u v

/-- **residual_inv**: the invariant is preserved by an augmentation along a simple path whose residual
    capacities are all at least δ -/
theorem pushAlong_resInv {c r : Fin n → Fin n → ℤ} (h : ResInv c r) (δ : ℤ) (hδ : 0 ≤ δ)
    (p : List (Fin n)) (hnd : p.Nodup) (hcap : ∀ ab ∈ consec p, δ ≤ r ab.1 ab.2) :
    ResInv c (pushAlong r δ p) := by
  constructor
  · intro u v
    unfold pushAlong
    obtain ⟨h1, h2⟩ := chi_le_one p hnd u v
    have hr := h.nonneg u v
    by_cases hpos : 0 < chi p u v
    · have := hcap (u, v) (h2 hpos)
      have : chi p u v = 1 := by omega
      rw [this]; simp only [mul_one]; simp only at *; omega
    · have : δ * chi p u v ≤ 0 := mul_nonpos_of_nonneg_of_nonpos hδ (by omega)
      omega
  · intro u v
    unfold pushAlong
    have := h.pair u v
    rw [chi_anti p v u]
    have : δ * chi p u v + δ * -chi p u v = 0 := by ring
    omega

/-- **augment_ok**: … and conservation is kept and the value grows by exactly δ -/
theorem augment_ok {c r : Fin n → Fin n → ℤ} {s t : Fin n} (hst : s ≠ t) (h : ResInv c r)
    (hc : Conserved c r s t) (δ : ℤ) (hδ : 0 ≤ δ) (rest : List (Fin n)) (hnd : (s :: rest).Nodup)
    (hlast : (s :: rest).getLast (by simp) = t)
    (hcap : ∀ ab ∈ consec (s :: rest), δ ≤ r ab.1 ab.2) :
    ResInv c (pushAlong r δ (s :: rest)) ∧ Conserved c (pushAlong r δ (s :: rest)) s t ∧
    value (resFlow c (pushAlong r δ (s :: rest))) s = value (resFlow c r) s + δ := by
  have hsum : ∀ u, ∑ v, resFlow c (pushAlong r δ (s :: rest)) u v =
      ∑ v, resFlow c r u v + δ * ((if u = s then 1 else 0) - (if u = t then 1 else 0)) := by
    intro u
    have : ∀ v, resFlow c (pushAlong r δ (s :: rest)) u v = resFlow c r u v + δ * chi (s :: rest) u v := by
      intro v; unfold resFlow pushAlong; ring
    simp only [this, Finset.sum_add_distrib, ← Finset.mul_sum]
    rw [chi_sum, hlast]
  refine ⟨pushAlong_resInv h δ hδ _ hnd hcap, ?_, ?_⟩
  · intro u hus hut
    rw [hsum u, hc u hus hut, if_neg hus, if_neg hut]; ring
  · unfold value
    rw [hsum s, if_pos rfl, if_neg hst]; ring

/-- the same for a path listed from the target back to the source (the order in which the solvers'
    `path_iter()` yields it): `t :: rest` ends in `s`, and a window (a,b) stands for the edge b → a -/
theorem augment_ok_rev {c r : Fin n → Fin n → ℤ} {s t : Fin n} (hst : s ≠ t) (h : ResInv c r)
    (hc : Conserved c r s t) (δ : ℤ) (hδ : 0 ≤ δ) (rest : List (Fin n)) (hnd : (t :: rest).Nodup)
    (hlast : (t :: rest).getLast (by simp) = s)
    (hcap : ∀ ab ∈ consec (t :: rest), δ ≤ r ab.2 ab.1) :
    ResInv c (fun u v => r u v + δ * chi (t :: rest) u v) ∧
    Conserved c (fun u v => r u v + δ * chi (t :: rest) u v) s t ∧
    value (resFlow c (fun u v => r u v + δ * chi (t :: rest) u v)) s = value (resFlow c r) s + δ := by
  have hsum : ∀ u, ∑ v, resFlow c (fun u v => r u v + δ * chi (t :: rest) u v) u v =
      ∑ v, resFlow c r u v - δ * ((if u = t then 1 else 0) - (if u = s then 1 else 0)) := by
    intro u
    have : ∀ v, resFlow c (fun u v => r u v + δ * chi (t :: rest) u v) u v =
        resFlow c r u v - δ * chi (t :: rest) u v := by
      intro v; unfold resFlow; ring
    simp only [this, Finset.sum_sub_distrib, ← Finset.mul_sum]
    rw [chi_sum, hlast]
  refine ⟨⟨?_, ?_⟩, ?_, ?_⟩
  · intro u v
    show 0 ≤ r u v + δ * chi (t :: rest) u v
    rw [chi_anti]
    obtain ⟨h1, h2⟩ := chi_le_one (t :: rest) hnd v u
    have hr := h.nonneg u v
    by_cases hpos : 0 < chi (t :: rest) v u
    · have := hcap (v, u) (h2 hpos)
      have : chi (t :: rest) v u = 1 := by omega
      rw [this]; simp only [mul_neg, mul_one]; simp only at *; omega
    · have : δ * chi (t :: rest) v u ≤ 0 := mul_nonpos_of_nonneg_of_nonpos hδ (by omega)
      have : δ * -chi (t :: rest) v u = -(δ * chi (t :: rest) v u) := by ring
      omega
  · intro u v
    show r u v + δ * chi (t :: rest) u v + (r v u + δ * chi (t :: rest) v u) = _
    have := h.pair u v
    rw [chi_anti (t :: rest) v u]
    have : δ * chi (t :: rest) u v + δ * -chi (t :: rest) u v = 0 := by ring
    omega
  · intro u hus hut
    rw [hsum u, hc u hus hut, if_neg hut, if_neg hus]; ring
  · unfold value
    rw [hsum s, if_neg hst, if_pos rfl]; ring

end Tbx.FlowTheory
