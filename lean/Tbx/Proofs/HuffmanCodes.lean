/-
C20 (Huffman part): both constructions of /repo/src/huffman_code.rs produce a prefix-free code book whose
symbols are a permutation of the table's.

* `retrieveCodebook_eq`: the explicit-stack loop equals the recursive description `codesRec` (right
  subtree first) and the fuel `root.size` is enough;
* `codesRec_prefixFree`: the code words of a tree are pairwise non-prefixes;
* two-queue construction: `minNode` preserves the multiset of trees, `sortedLoop` terminates within
  `q1.length + q2.length` iterations and cannot panic unless it starts with exactly one node;
* heap construction: `swp` / `siftUp` / `siftDownLoop` / `heapPush` / `heapPop` preserve the multiset of
  trees (no ordering property of the heap is needed), `unsortedLoop` ends with exactly one tree.
-/
import Tbx.Model.Huffman
import Tbx.Spec.HuffmanCode

namespace Tbx.Huffman

/-- recursive description of the code book: the right subtree comes first (it is popped first) -/
def codesRec : Tree → Code → Book
  | .leaf s _, p => [(s, p)]
  | .node _ l r, p => codesRec r (p ++ [true]) ++ codesRec l (p ++ [false])

/-- leaf symbols of a tree, in code-book order -/
def Tree.syms (t : Tree) : List Nat := (codesRec t []).map (·.1)

theorem Tree.size_pos (t : Tree) : 0 < t.size := by
  cases t <;> simp [Tree.size]

def stackCodes (st : List (Tree × Code)) : Book := st.flatMap fun e => codesRec e.1 e.2

def stackSize (st : List (Tree × Code)) : Nat := (st.map fun e => e.1.size).sum

/-- generalised loop statement: any fuel at least the total node count of the stack is enough -/
theorem retrieveLoop_eq (fuel : Nat) (stack : List (Tree × Code)) (book : Book)
    (h : stackSize stack ≤ fuel) :
    retrieveLoop fuel stack book = some (book ++ stackCodes stack) := by
  induction fuel generalizing stack book with
  | zero =>
    cases stack with
    | nil => simp [retrieveLoop, stackCodes]
    | cons e st =>
      have := e.1.size_pos
      simp [stackSize] at h
      omega
  | succ fuel ih =>
    cases stack with
    | nil => simp [retrieveLoop, stackCodes]
    | cons e st =>
      obtain ⟨cur, pre⟩ := e
      cases cur with
      | leaf s f =>
        simp only [retrieveLoop]
        rw [ih]
        · simp [stackCodes, codesRec]
        · simp [stackSize, Tree.size] at h ⊢; omega
      | node f l r =>
        simp only [retrieveLoop]
        rw [ih]
        · simp [stackCodes, codesRec]
        · simp [stackSize, Tree.size] at h ⊢; omega

/-- the stack loop computes the recursive description; the fuel `root.size` suffices -/
theorem retrieveCodebook_eq (t : Tree) : retrieveCodebook t = some (codesRec t []) := by
  unfold retrieveCodebook
  rw [retrieveLoop_eq]
  · simp [stackCodes]
  · simp [stackSize]

theorem codesRec_prefix (t : Tree) (p : Code) : ∀ e ∈ codesRec t p, p <+: e.2 := by
  induction t generalizing p with
  | leaf s f => intro e he; simp [codesRec] at he; subst he; exact List.prefix_refl _
  | node f l r ihl ihr =>
    intro e he
    simp only [codesRec, List.mem_append] at he
    rcases he with he | he
    · exact List.IsPrefix.trans (List.prefix_append _ _) (ihr _ e he)
    · exact List.IsPrefix.trans (List.prefix_append _ _) (ihl _ e he)

theorem not_prefix_of_split (p a b : Code) (ha : p ++ [true] <+: a) (hb : p ++ [false] <+: b) :
    ¬ a <+: b ∧ ¬ b <+: a := by
  have key : ∀ c : Code, p ++ [true] <+: c → p ++ [false] <+: c → False := by
    intro c h1 h2
    have h3 := List.prefix_of_prefix_length_le h1 h2 (by simp)
    have h4 := h3.eq_of_length (by simp)
    simp at h4
  exact ⟨fun h => key b (ha.trans h) hb, fun h => key a ha (hb.trans h)⟩

theorem codesRec_prefixFree (t : Tree) (p : Code) :
    Spec.Huff.PrefixFree ((codesRec t p).map (·.2)) := by
  unfold Spec.Huff.PrefixFree
  induction t generalizing p with
  | leaf s f => simp [codesRec]
  | node f l r ihl ihr =>
    simp only [codesRec, List.map_append, List.pairwise_append]
    refine ⟨ihr _, ihl _, ?_⟩
    intro a ha b hb
    simp only [List.mem_map] at ha hb
    obtain ⟨ea, hea, rfl⟩ := ha
    obtain ⟨eb, heb, rfl⟩ := hb
    exact not_prefix_of_split p _ _ (codesRec_prefix r _ ea hea) (codesRec_prefix l _ eb heb)

/-- leaf symbols, independent of the prefix -/
def symsRec : Tree → List Nat
  | .leaf s _ => [s]
  | .node _ l r => symsRec r ++ symsRec l

theorem codesRec_map_fst (t : Tree) (p : Code) : (codesRec t p).map (·.1) = symsRec t := by
  induction t generalizing p with
  | leaf s f => simp [codesRec, symsRec]
  | node f l r ihl ihr => simp [codesRec, symsRec, ihl, ihr]

theorem Tree.syms_eq (t : Tree) : t.syms = symsRec t := codesRec_map_fst t []

theorem Tree.syms_leaf (s : Nat) (f : Int) : (Tree.leaf s f).syms = [s] := by simp [Tree.syms_eq, symsRec]
theorem Tree.syms_node (f : Int) (l r : Tree) : (Tree.node f l r).syms = r.syms ++ l.syms := by
  simp [Tree.syms_eq, symsRec]

/-! ### sorted construction -/

def symsL (q : List Tree) : List Nat := q.flatMap Tree.syms

theorem symsL_perm {q q' : List Tree} (h : q.Perm q') : (symsL q).Perm (symsL q') :=
  List.Perm.flatMap_right _ h

theorem symsL_leaves (v : List (Nat × Int)) : symsL (leaves v) = v.map (·.1) := by
  induction v with
  | nil => rfl
  | cons e v ih =>
    simp only [symsL, leaves, List.map_cons, List.flatMap_cons] at ih ⊢
    rw [ih, Tree.syms_leaf]; rfl

theorem minNode_some (q1 q2 : List Tree) (h : 1 ≤ q1.length + q2.length) :
    ∃ x q1' q2', minNode q1 q2 = some (x, q1', q2') ∧ (x :: (q1' ++ q2')).Perm (q1 ++ q2) ∧
      q1'.length + q2'.length + 1 = q1.length + q2.length ∧ q1'.length ≤ q1.length := by
  cases q1 with
  | nil =>
    cases q2 with
    | nil => simp at h
    | cons y q2' => exact ⟨y, [], q2', rfl, by simp, by simp, by simp⟩
  | cons x q1' =>
    cases q2 with
    | nil => exact ⟨x, q1', [], rfl, by simp, by simp, by simp⟩
    | cons y q2' =>
      simp only [minNode]
      split
      · exact ⟨x, q1', y :: q2', rfl, by simp, by simp only [List.length_cons]; omega, by simp⟩
      · refine ⟨y, x :: q1', q2', rfl, ?_, by simp; omega, by simp⟩
        exact (List.perm_middle (l₁ := x :: q1') (a := y) (l₂ := q2')).symm

theorem sortedLoop_some (fuel : Nat) (q1 q2 : List Tree)
    (hf : q1.length + q2.length ≤ fuel) (h1 : 1 ≤ q1.length + q2.length)
    (h2 : q1.length + q2.length = 1 → q1.length = 0) :
    ∃ t, sortedLoop fuel q1 q2 = some t ∧ t.syms.Perm (symsL (q1 ++ q2)) := by
  induction fuel generalizing q1 q2 with
  | zero => omega
  | succ fuel ih =>
    unfold sortedLoop
    split
    next hc =>
      have hge : 2 ≤ q1.length + q2.length := by
        simp only [Bool.or_eq_true, Bool.not_eq_eq_eq_not, Bool.not_true, List.isEmpty_eq_false_iff,
          decide_eq_true_eq] at hc
        rcases hc with hc | hc
        · have : q1.length ≠ 0 := by simpa using hc
          omega
        · omega
      obtain ⟨left, q1a, q2a, e1, p1, l1, _⟩ := minNode_some q1 q2 h1
      obtain ⟨right, q1b, q2b, e2, p2, l2, _⟩ := minNode_some q1a q2a (by omega)
      simp only [e1, e2]
      obtain ⟨t, et, pt⟩ := ih q1b (q2b ++ [.node (left.freq + right.freq) left right])
        (by simp only [List.length_append, List.length_cons, List.length_nil]; omega)
        (by simp only [List.length_append, List.length_cons, List.length_nil]; omega)
        (by simp only [List.length_append, List.length_cons, List.length_nil]; omega)
      refine ⟨t, et, pt.trans ?_⟩
      have p3 : (left :: right :: (q1b ++ q2b)).Perm (q1 ++ q2) :=
        (List.Perm.cons left p2).trans p1
      refine List.Perm.trans ?_ (symsL_perm p3)
      have p4 : (q1b ++ (q2b ++ [Tree.node (left.freq + right.freq) left right])).Perm
          (Tree.node (left.freq + right.freq) left right :: (q1b ++ q2b)) := by
        rw [← List.append_assoc]
        exact List.perm_append_comm
      refine (symsL_perm p4).trans ?_
      simp only [symsL, List.flatMap_cons, Tree.syms_node]
      rw [← List.append_assoc left.syms]
      exact List.Perm.append_right _ List.perm_append_comm
    next hc =>
      simp only [Bool.or_eq_true, Bool.not_eq_eq_eq_not, Bool.not_true, List.isEmpty_eq_false_iff,
        decide_eq_true_eq, not_or, Decidable.not_not] at hc
      obtain ⟨hq1, hq2⟩ := hc
      subst hq1
      cases q2 with
      | nil => simp at h1
      | cons y q2' =>
        cases q2' with
        | nil => exact ⟨y, rfl, by simp [symsL]⟩
        | cons z q => simp at hq2

theorem sortedTree_some (v : List (Nat × Int)) (h0 : v ≠ []) (hv : v.length ≠ 1) :
    ∃ t, sortedTree v = some t ∧ t.syms.Perm (v.map (·.1)) := by
  have hl : (leaves v).length = v.length := by simp [leaves]
  have hpos : 0 < v.length := List.length_pos_iff.mpr h0
  obtain ⟨t, e, p⟩ := sortedLoop_some v.length (leaves v) [] (by simp [hl]) (by simp [hl]; omega)
    (by simp [hl]; omega)
  refine ⟨t, e, ?_⟩
  rw [List.append_nil, symsL_leaves] at p
  exact p

theorem fromSorted_cases (v : List (Nat × Int)) (book : Book) (h : fromSorted v = some book) :
    book = [] ∨ ∃ t, book = codesRec t [] := by
  unfold fromSorted at h
  split at h
  · left; simpa using h.symm
  · split at h
    · simp at h
    · right
      rw [retrieveCodebook_eq] at h
      exact ⟨_, by simpa using h.symm⟩

/-- codes_prefix_free, sorted construction -/
theorem fromSorted_prefix_free (v : List (Nat × Int)) (book : Book) (h : fromSorted v = some book) :
    Spec.Huff.PrefixFree (book.map (·.2)) := by
  rcases fromSorted_cases v book h with rfl | ⟨t, rfl⟩
  · simp [Spec.Huff.PrefixFree]
  · exact codesRec_prefixFree t []

example : fromSorted [(0,5),(1,9),(2,12),(3,13),(4,16),(5,45)] =
    some [(4, [true, true, true]), (1, [true, true, false, true]), (0, [true, true, false, false]),
      (3, [true, false, true]), (2, [true, false, false]), (5, [false])] := by decide

/-- all_symbols_coded, sorted construction: no panic for any table that does not have exactly one
    symbol, and the code book's symbols are a permutation of the table's -/
theorem fromSorted_all_coded (v : List (Nat × Int)) (hv : v.length ≠ 1) :
    ∃ book, fromSorted v = some book ∧ (book.map (·.1)).Perm (v.map (·.1)) := by
  unfold fromSorted
  split
  next he =>
    have : v = [] := by simpa using he
    subst this
    exact ⟨[], rfl, by simp⟩
  next he =>
    have h0 : v ≠ [] := by simpa using he
    obtain ⟨t, e, p⟩ := sortedTree_some v h0 hv
    simp only [e, retrieveCodebook_eq]
    exact ⟨_, rfl, p⟩

example : ([(0,5),(1,9),(2,12),(3,13),(4,16),(5,45)] : List (Nat × Int)).length ≠ 1 := by decide

example : ((fromSorted [(0,5),(1,9),(2,12),(3,13),(4,16),(5,45)]).map (·.map (·.1))) =
    some [4, 1, 0, 3, 2, 5] := by decide

/-- the excluded case is a real panic of the sorted construction -/
example : fromSorted [(7, 3)] = none := by decide

/-! ### heap construction -/

theorem swp_perm (a : Array Tree) (i j : Nat) : (swp a i j).Perm a := by
  unfold swp Array.swapIfInBounds
  split
  · split
    · exact Array.swap_perm _ _
    · exact Array.Perm.refl _
  · exact Array.Perm.refl _

theorem siftUp_perm (start fuel : Nat) (a : Array Tree) (pos : Nat) :
    (siftUp start fuel a pos).Perm a := by
  induction fuel generalizing a pos with
  | zero => exact Array.Perm.refl _
  | succ fuel ih =>
    simp only [siftUp]
    split
    · split
      · exact Array.Perm.refl _
      · exact (ih _ _).trans (swp_perm _ _ _)
    · exact Array.Perm.refl _

theorem siftDownLoop_perm (e fuel : Nat) (a : Array Tree) (pos : Nat) :
    (siftDownLoop e fuel a pos).1.Perm a := by
  induction fuel generalizing a pos with
  | zero => exact Array.Perm.refl _
  | succ fuel ih =>
    simp only [siftDownLoop]
    split
    · exact (ih _ _).trans (swp_perm _ _ _)
    · split
      · exact swp_perm _ _ _
      · exact Array.Perm.refl _

theorem siftDownToBottom_perm (a : Array Tree) (pos : Nat) : (siftDownToBottom a pos).Perm a := by
  unfold siftDownToBottom
  exact (siftUp_perm _ _ _ _).trans (siftDownLoop_perm _ _ _ _)

theorem heapPush_perm (a : Array Tree) (x : Tree) : (heapPush a x).toList.Perm (x :: a.toList) := by
  unfold heapPush
  refine (siftUp_perm _ _ _ _).toList.trans ?_
  simp only [Array.toList_push]
  exact List.perm_append_comm

theorem heapPush_size (a : Array Tree) (x : Tree) : (heapPush a x).size = a.size + 1 := by
  have := (heapPush_perm a x).length_eq
  simpa using this

theorem heapPop_some (a : Array Tree) (h : 1 ≤ a.size) :
    ∃ x a', heapPop a = some (x, a') ∧ (x :: a'.toList).Perm a.toList ∧ a'.size + 1 = a.size := by
  obtain ⟨l⟩ := a
  rcases List.eq_nil_or_concat l with rfl | ⟨l', item, rfl⟩
  · simp at h
  · unfold heapPop
    cases l' with
    | nil => exact ⟨item, #[], by simp, by simp, by simp⟩
    | cons d0 rest =>
      refine ⟨d0, siftDownToBottom (item :: rest).toArray 0, ?_, ?_, ?_⟩
      · have e1 : (d0 :: (rest ++ [item])).getLast? = some item := by
          rw [← List.cons_append]; exact List.getLast?_concat
        have e2 : (d0 :: (rest ++ [item])).dropLast = d0 :: rest := by
          rw [← List.cons_append]; exact List.dropLast_concat
        simp [e1, e2]
      · have := (siftDownToBottom_perm (item :: rest).toArray 0).toList
        refine (List.Perm.cons d0 this).trans ?_
        simp only [List.concat_eq_append, List.cons_append]
        refine List.Perm.cons d0 ?_
        exact (List.perm_append_comm (l₁ := [item]) (l₂ := rest))
      · have := (siftDownToBottom_perm (item :: rest).toArray 0).size_eq
        simp at this ⊢
        exact this

theorem unsortedLoop_some (fuel : Nat) (a : Array Tree) (hf : a.size ≤ fuel) (h1 : 1 ≤ a.size) :
    ∃ b, unsortedLoop fuel a = some b ∧ b.size = 1 ∧ (symsL b.toList).Perm (symsL a.toList) := by
  induction fuel generalizing a with
  | zero => omega
  | succ fuel ih =>
    unfold unsortedLoop
    split
    next hc =>
      obtain ⟨x, a1, e1, p1, s1⟩ := heapPop_some a h1
      obtain ⟨y, a2, e2, p2, s2⟩ := heapPop_some a1 (by omega)
      simp only [e1, e2]
      obtain ⟨b, eb, sb, pb⟩ := ih (heapPush a2 (.node (x.freq + y.freq) x y))
        (by rw [heapPush_size]; omega) (by rw [heapPush_size]; omega)
      refine ⟨b, eb, sb, pb.trans ?_⟩
      have p3 : (x :: y :: a2.toList).Perm a.toList := (List.Perm.cons x p2).trans p1
      refine List.Perm.trans ?_ (symsL_perm p3)
      refine (symsL_perm (heapPush_perm a2 _)).trans ?_
      simp only [symsL, List.flatMap_cons, Tree.syms_node]
      rw [← List.append_assoc x.syms]
      exact List.Perm.append_right _ List.perm_append_comm
    next hc =>
      exact ⟨a, rfl, by omega, List.Perm.refl _⟩

theorem foldl_heapPush_perm (l : List Tree) (a : Array Tree) :
    (l.foldl heapPush a).toList.Perm (l ++ a.toList) := by
  induction l generalizing a with
  | nil => exact List.Perm.refl _
  | cons x l ih =>
    simp only [List.foldl_cons]
    refine (ih _).trans ?_
    refine (List.Perm.append_left l (heapPush_perm a x)).trans ?_
    exact (List.perm_middle (l₁ := l) (a := x) (l₂ := a.toList))

theorem buildHeap_perm (v : List (Nat × Int)) : (buildHeap v).toList.Perm (leaves v) := by
  have := foldl_heapPush_perm (leaves v) #[]
  simpa [buildHeap] using this

theorem unsortedTree_some (v : List (Nat × Int)) (h0 : v ≠ []) :
    ∃ t, unsortedTree v = some t ∧ t.syms.Perm (v.map (·.1)) := by
  have hl : (buildHeap v).size = v.length := by
    have := (buildHeap_perm v).length_eq
    simpa [leaves] using this
  have hpos : 0 < v.length := List.length_pos_iff.mpr h0
  obtain ⟨b, eb, sb, pb⟩ := unsortedLoop_some v.length (buildHeap v) (by omega) (by omega)
  obtain ⟨x, b', ex, px, sx⟩ := heapPop_some b (by omega)
  refine ⟨x, by simp [unsortedTree, eb, ex], ?_⟩
  have hb' : b'.toList = [] := by
    have : b'.size = 0 := by omega
    simpa using this
  rw [hb'] at px
  have q1 := symsL_perm px
  have q2 := symsL_perm (buildHeap_perm v)
  rw [symsL_leaves] at q2
  have q3 : symsL [x] = x.syms := by simp [symsL]
  rw [q3] at q1
  exact q1.trans (pb.trans q2)

theorem fromUnsorted_cases (v : List (Nat × Int)) (book : Book) (h : fromUnsorted v = some book) :
    book = [] ∨ ∃ t, book = codesRec t [] := by
  unfold fromUnsorted at h
  split at h
  · left; simpa using h.symm
  · split at h
    · simp at h
    · right
      rw [retrieveCodebook_eq] at h
      exact ⟨_, by simpa using h.symm⟩

/-- codes_prefix_free, heap construction -/
theorem fromUnsorted_prefix_free (v : List (Nat × Int)) (book : Book)
    (h : fromUnsorted v = some book) : Spec.Huff.PrefixFree (book.map (·.2)) := by
  rcases fromUnsorted_cases v book h with rfl | ⟨t, rfl⟩
  · simp [Spec.Huff.PrefixFree]
  · exact codesRec_prefixFree t []

example : fromUnsorted [(3,13),(5,45),(0,5),(2,12),(4,16),(1,9)] =
    some [(4, [true, true, true]), (1, [true, true, false, true]), (0, [true, true, false, false]),
      (3, [true, false, true]), (2, [true, false, false]), (5, [false])] := by decide +kernel

/-- all_symbols_coded, heap construction (every table, including the one-symbol one) -/
theorem fromUnsorted_all_coded (v : List (Nat × Int)) :
    ∃ book, fromUnsorted v = some book ∧ (book.map (·.1)).Perm (v.map (·.1)) := by
  unfold fromUnsorted
  split
  next he =>
    have : v = [] := by simpa using he
    subst this
    exact ⟨[], rfl, by simp⟩
  next he =>
    have h0 : v ≠ [] := by simpa using he
    obtain ⟨t, e, p⟩ := unsortedTree_some v h0
    simp only [e, retrieveCodebook_eq]
    exact ⟨_, rfl, p⟩

example : fromUnsorted [(7, 3)] = some [(7, [])] := by decide

example : fromUnsorted [(3,13),(5,45),(0,5),(2,12)] =
    some [(5, [true]), (2, [false, true, true]), (0, [false, true, false]), (3, [false, false])] := by
  decide

end Tbx.Huffman
