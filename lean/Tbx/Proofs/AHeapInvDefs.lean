import Tbx.Spec.PQ
import Tbx.Proofs.AHeapInvUp
import Tbx.Proofs.AHeapInvDown
/-
C10: the representation invariant `Inv`, the abstraction function `abs` into the reference queue
`Tbx.PQ`, and the glue lemmas shared by the per-operation proofs.
-/
namespace Tbx.AHeap
open Tbx

/-- the reference-queue entry a node stands for: `live` iff its back pointer is non-zero -/
def ent (n : Node) : PQ.Entry := ⟨n.id, n.weight, n.data, decide (n.key ≠ 0)⟩

/-- abstraction function: the nodes in insertion order -/
def abs (s : Heap) : PQ.Q := s.nodes.toList.map ent

/-- contract of the id map: it maps exactly the ids of the node slots to their slots -/
def IdMap (idx : List (Int × Nat)) (ns : Array Node) : Prop :=
  ∀ id i, lookup idx id = some i ↔ (i < ns.size ∧ (gt ns i).id = id)

/-- the representation invariant of `AddressableHeap` -/
structure Inv (s : Heap) : Prop where
  /-- the sentinel slot exists -/
  size_pos : 1 ≤ s.heap.size
  /-- the sentinel carries `Weight::min_value()` -/
  sentinel : (gt s.heap 0).weight = s.wmin
  /-- no stored weight is below `Weight::min_value()` -/
  wlo : ∀ k, k < s.heap.size → s.wmin ≤ (gt s.heap k).weight
  /-- heap order -/
  ord : ∀ k, 2 ≤ k → k < s.heap.size → (gt s.heap (k / 2)).weight ≤ (gt s.heap k).weight
  /-- every heap slot points to a node that points back and stores the same weight -/
  back : ∀ k, 1 ≤ k → k < s.heap.size → (gt s.heap k).index < s.nodes.size ∧
    (gt s.nodes (gt s.heap k).index).key = k ∧
    (gt s.nodes (gt s.heap k).index).weight = (gt s.heap k).weight
  /-- every node with a non-zero key is the node of that heap slot (`key = 0` exactly for removed nodes) -/
  fwd : ∀ i, i < s.nodes.size → (gt s.nodes i).key ≠ 0 →
    (gt s.nodes i).key < s.heap.size ∧ (gt s.heap (gt s.nodes i).key).index = i
  /-- the id map is the inverse of `slot ↦ id` (so ids are distinct) -/
  idmap : IdMap s.idx s.nodes

theorem Inv.ptr {s : Heap} (I : Inv s) : PtrX s.heap s.nodes s.nodes.size := by
  refine ⟨?_, ?_⟩
  · intro k k1 k2
    obtain ⟨a, b, c⟩ := I.back k k1 k2
    exact ⟨a, by omega, b, c⟩
  · intro i i1 _ i3
    exact I.fwd i i1 i3

theorem Inv.of_ptr {s : Heap} (h1 : 1 ≤ s.heap.size) (h2 : (gt s.heap 0).weight = s.wmin)
    (h3 : ∀ k, k < s.heap.size → s.wmin ≤ (gt s.heap k).weight) (h4 : Ord s.heap)
    (P : PtrX s.heap s.nodes s.nodes.size) (h5 : IdMap s.idx s.nodes) : Inv s := by
  refine ⟨h1, h2, h3, h4, ?_, ?_, h5⟩
  · intro k k1 k2
    obtain ⟨a, _, b, c⟩ := P.back k k1 k2
    exact ⟨a, b, c⟩
  · intro i i1 i3
    exact P.fwd i i1 (by omega) i3

/-- ids are distinct -/
theorem IdMap.uniq {idx : List (Int × Nat)} {ns : Array Node} (M : IdMap idx ns) {i j : Nat}
    (hi : i < ns.size) (hj : j < ns.size) (e : (gt ns j).id = (gt ns i).id) : j = i := by
  have a := (M (gt ns i).id i).2 ⟨hi, rfl⟩
  have b := (M (gt ns i).id j).2 ⟨hj, e⟩
  rw [a] at b
  exact (Option.some.inj b).symm

theorem IdMap.frame {idx : List (Int × Nat)} {ns ns' : Array Node} (M : IdMap idx ns)
    (hs : ns'.size = ns.size) (hid : ∀ i, (gt ns' i).id = (gt ns i).id) : IdMap idx ns' := by
  intro id i
  rw [M id i, hs, hid i]

theorem Frame.ent_eq {ns ns' : Array Node} (F : Frame ns ns') (i : Nat) : ent (gt ns' i) = ent (gt ns i) := by
  obtain ⟨a, b, c, d⟩ := F.2 i
  unfold AHeap.ent
  rw [a, b, c]
  congr 1
  by_cases e : (gt ns i).key = 0
  · simp [e, d.2 e]
  · have : (gt ns' i).key ≠ 0 := fun g => e (d.1 g)
    simp [e, this]

theorem map_ent_congr {ns ns' : Array Node} (hs : ns'.size = ns.size)
    (h : ∀ i, i < ns.size → ent (gt ns' i) = ent (gt ns i)) :
    ns'.toList.map ent = ns.toList.map ent := by
  rw [toList_eq_map_range ns', toList_eq_map_range ns, hs, List.map_map, List.map_map]
  apply List.map_congr_left
  intro i hi
  simp at hi
  exact h i hi

theorem Frame.abs_eq {ns ns' : Array Node} (F : Frame ns ns') :
    ns'.toList.map ent = ns.toList.map ent :=
  map_ent_congr F.1 (fun i _ => F.ent_eq i)

/-- updating the entries with a given id in the reference queue = updating the unique node slot
with that id -/
theorem abs_upd (ns ns' : Array Node) (i : Nat) (id : Int) (f : PQ.Entry → PQ.Entry)
    (hs : ns'.size = ns.size) (hid : (gt ns i).id = id)
    (huniq : ∀ j, j < ns.size → (gt ns j).id = id → j = i)
    (hi' : ent (gt ns' i) = f (ent (gt ns i)))
    (hne : ∀ j, j < ns.size → j ≠ i → ent (gt ns' j) = ent (gt ns j)) :
    ns'.toList.map ent = (ns.toList.map ent).map (fun e => if e.id == id then f e else e) := by
  rw [toList_eq_map_range ns', toList_eq_map_range ns, hs, List.map_map, List.map_map, List.map_map]
  apply List.map_congr_left
  intro j hj
  simp only [List.mem_range] at hj
  simp only [Function.comp]
  by_cases e : j = i
  · subst e
    have : (ent (gt ns j)).id = id := hid
    simp [this, hi']
  · have : ¬ (ent (gt ns j)).id = id := fun g => e (huniq j hj g)
    simp [this, hne j hj e]

/-- an operation that ends in `up_heap(key)` re-establishes the invariant -/
theorem upHeap_inv (s : Heap) (key : Nat) (h1 : 1 ≤ key) (h2 : key < s.heap.size)
    (hsent : (gt s.heap 0).weight = s.wmin)
    (hwlo : ∀ k, k < s.heap.size → s.wmin ≤ (gt s.heap k).weight)
    (P : PtrX s.heap s.nodes s.nodes.size) (M : IdMap s.idx s.nodes)
    (ho : OrdW s.heap key (gt s.heap key).weight) (hb : 2 ≤ key → Below s.heap key) :
    Inv (upHeap s key) ∧ abs (upHeap s key) = abs s ∧ Frame s.nodes (upHeap s key).nodes := by
  obtain ⟨a1, a2, a3, a4, a5, a6⟩ := upHeap_spec s key s.nodes.size s.wmin h1 h2 P hwlo
    (by rw [hsent]; exact hwlo key h2) ho hb
  refine ⟨?_, a4.abs_eq, a4⟩
  apply Inv.of_ptr
  · omega
  · rw [a6]; exact hsent
  · intro k hk; exact a5 k (by omega)
  · exact a2
  · rw [a4.1]; exact a3
  · exact M.frame a4.1 (fun i => (a4.2 i).1)

end Tbx.AHeap
