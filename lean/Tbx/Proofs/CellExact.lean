import Tbx.Proofs.CellExactPre
/-
`BaseCell::process` computes the true boundary distances of the cell's own graph (`process_exact`):
totality of the loops, index layout (`process_matrix`), exactness of the one-to-many searches on the
renumbered graph (`O2MPost.exact`, heap laws discharged from C10) and the transfer of walks through
the renumbering.
-/
namespace Tbx.Dijkstra
open Tbx Tbx.AHeap

theorem nodup_map_newId {seenF : List (Nat × Nat)} (M : MapOK seenF) (l : List Nat) (hl : l.Nodup)
    (hk : ∀ k ∈ l, Known seenF k) : (l.map (newId seenF)).Nodup := by
  induction l with
  | nil => simp
  | cons a l ih =>
    have hnd := List.nodup_cons.mp hl
    rw [List.map_cons, List.nodup_cons]
    refine ⟨?_, ih hnd.2 (fun k h => hk k (List.mem_cons_of_mem _ h))⟩
    intro hm
    obtain ⟨b, hb, e⟩ := List.mem_map.mp hm
    have := newId_inj M (hk b (List.mem_cons_of_mem _ hb)) (hk a List.mem_cons_self) e
    subst this
    exact hnd.1 hb

/-- **matrix_exact**: for a cell whose outgoing boundary has no duplicates, `process` returns and
`matrix[i·|out| + j]` is the true distance `incoming[i] → outgoing[j]` in the cell's own graph
(original node ids), or the unreachable marker if there is no walk. -/
theorem process_exact (c : BaseCell) (hout : c.outgoing.Nodup) :
    ∃ mc, process c = .ok mc ∧ mc.incoming = c.incoming ∧ mc.outgoing = c.outgoing ∧
      mc.matrix.size = c.incoming.length * c.outgoing.length ∧
      ∀ (i j a b : Nat), c.incoming[i]? = some a → c.outgoing[j]? = some b →
        (∃ d : Nat, gt mc.matrix (i * c.outgoing.length + j) = (d : Int) ∧ SP.IsDist (cellGraph c.edges) a b d) ∨
        (gt mc.matrix (i * c.outgoing.length + j) = UMAX ∧ ¬ SP.Reachable (cellGraph c.edges) a b) := by
  obtain ⟨Min, _, has_in⟩ := foldl_orInsert_ok c.incoming [] MapOK.nil
  obtain ⟨M0, ext0, has_out⟩ := foldl_orInsert_ok c.outgoing _ Min
  obtain ⟨newEdges, seenF, hren, MF, extF, hmap, hK0⟩ := renumber_spec c.edges _ M0
  have hK : ∀ e ∈ c.edges, Known seenF e.1 ∧ Known seenF e.2.1 := hK0
  have kin : ∀ k ∈ c.incoming, Known seenF k := by
    intro k hk
    obtain ⟨i, hi⟩ := has_in k hk
    exact ⟨i, extF k i (ext0 k i hi)⟩
  have kout : ∀ k ∈ c.outgoing, Known seenF k := by
    intro k hk
    obtain ⟨i, hi⟩ := has_out k hk
    exact ⟨i, extF k i hi⟩
  have hsrc := lookupAll_total seenF c.incoming kin
  have htgt := lookupAll_total seenF c.outgoing kout
  have hndT := nodup_map_newId MF c.outgoing hout kout
  have hmapped : newEdges = mapped c.edges seenF := hmap
  obtain ⟨stF, mxF, hloop⟩ := processLoop_total (staticAdj newEdges) (staticNodes newEdges) c.edges.isEmpty
    (c.outgoing.map (newId seenF)) c.outgoing.length (by simp) hndT (bounded_static newEdges)
    (c.incoming.map (newId seenF)) 0 O2M.new WFq_new_o2m
    (Array.replicate (c.incoming.length * c.outgoing.length) UMAX) (by simp)
  have hproc : process c = .ok { incoming := c.incoming, outgoing := c.outgoing, matrix := mxF } := by
    unfold process
    simp only [hren, hsrc, htgt, hloop]
  obtain ⟨_, _, hsz, ne', sf', si', ti', hren', hs', ht', hentry⟩ := process_matrix c _ hproc
  rw [hren] at hren'
  simp only [Option.some.injEq, Prod.mk.injEq] at hren'
  obtain ⟨e1, e2⟩ := hren'
  subst e1; subst e2
  rw [hsrc] at hs'; rw [htgt] at ht'
  simp only [Option.some.injEq] at hs' ht'
  subst hs'; subst ht'
  refine ⟨_, hproc, rfl, rfl, hsz, ?_⟩
  intro i j a b hi hj
  have ha : Known seenF a := kin a (List.mem_of_getElem? hi)
  have hb : Known seenF b := kout b (List.mem_of_getElem? hj)
  have hsi : (c.incoming.map (newId seenF))[i]? = some (newId seenF a) := by simp [hi]
  have htj : (c.outgoing.map (newId seenF))[j]? = some (newId seenF b) := by simp [hj]
  obtain ⟨_, hval⟩ := hentry i j _ _ hsi htj
  simp only at hval
  rw [hval]
  unfold cellEntry
  split
  · -- boundary node without incident edge
    rename_i hcond
    have hiso : ∀ e ∈ c.edges, e.1 ≠ a := by
      intro e he hea
      simp only [Bool.or_eq_true, decide_eq_true_eq] at hcond
      rcases hcond with h | h
      · rw [List.isEmpty_iff.mp h] at he; cases he
      · have hm : (newId seenF e.1, newId seenF e.2.1, e.2.2) ∈ newEdges := by
          rw [hmapped]; exact List.mem_map.mpr ⟨e, he, rfl⟩
        have := (staticNodes_bound newEdges _ hm).1
        simp only at this
        rw [hea] at this; omega
    by_cases hab : newId seenF b = newId seenF a
    · rw [if_pos hab]
      have : b = a := newId_inj MF hb ha hab
      subst this
      left; exact ⟨0, rfl, SP.isDist_self _ _⟩
    · rw [if_neg hab]
      right
      refine ⟨rfl, ?_⟩
      rintro ⟨d, hw⟩
      have := (walk_isolated hiso hw).1
      subst this
      exact hab rfl
  · rename_i hcond
    have hs : newId seenF a < staticNodes newEdges := by
      simp only [Bool.or_eq_true, decide_eq_true_eq, not_or] at hcond
      omega
    have hspec := o2mRun_spec heapLaws (staticAdj newEdges) (staticNodes newEdges) O2M.new (newId seenF a)
      (c.outgoing.map (newId seenF)) hndT WFq_new_o2m
    obtain ⟨p, hp, hP⟩ := Res.ok_of hspec
      (o2mRun_fuel heapLaws (bounded_static newEdges) hs _ O2M.new WFq_new_o2m)
    rw [hp]
    simp only
    have hmem : newId seenF b ∈ c.outgoing.map (newId seenF) := List.mem_map.mpr ⟨b, List.mem_of_getElem? hj, rfl⟩
    rcases (hP.1.exact heapLaws).2 _ hmem with ⟨d, hd, hdist⟩ | ⟨hd, hnr⟩
    · left
      refine ⟨d, hd, ?_⟩
      rw [hmapped] at hdist
      exact (isDist_transfer MF hK ha hb).mp hdist
    · right
      refine ⟨hd, ?_⟩
      intro hr
      apply hnr
      rw [hmapped]
      exact (reachable_transfer MF hK ha hb).mpr hr

end Tbx.Dijkstra
