import Tbx.Proofs.GeoHull
import Tbx.Proofs.GeoPlane
/-
Enclosure: after a pass of the monotone chain over points sorted by (lon, lat), every processed
point lies on the left of (or on) the line through every two consecutive stack entries.

Loop invariant of the inner `while` (`popWhile_K`): every processed point q with top ≼ q lies left of
top → p.  Step (`step_inv`): the new edge o → p has every processed point on its left (points after o by
the loop invariant, points before o by the strict turn o' → o → p), and p lies left of every older edge
(backward propagation along the strictly convex, lexicographically increasing chain).
The stack is a list with the top at the head.
-/
namespace Tbx.Geo

/-- consecutive pairs of a list, in list order -/
def pairs : List Coord → List (Coord × Coord)
  | x :: y :: r => (x, y) :: pairs (y :: r)
  | _ => []

theorem pairs_cons2 (x y : Coord) (r : List Coord) : pairs (x :: y :: r) = (x, y) :: pairs (y :: r) := rfl
theorem pairs_single (x : Coord) : pairs [x] = [] := rfl
theorem pairs_nil : pairs [] = [] := rfl

theorem pairs_suffix {l₁ l₂ : List Coord} (h : l₁ <:+ l₂) : ∀ e ∈ pairs l₁, e ∈ pairs l₂ := by
  induction l₂ with
  | nil =>
    have : l₁ = [] := List.suffix_nil.mp h
    subst this; intro e he; exact he
  | cons a l ih =>
    rcases List.suffix_cons_iff.mp h with rfl | h'
    · intro e he; exact he
    · intro e he
      have := ih h' e he
      cases l with
      | nil => rw [pairs_nil] at this; cases this
      | cons b r => rw [pairs_cons2]; exact List.mem_cons_of_mem _ this

/-- every point of `done` is on the left of (or on) every stack edge; the stack is top first, so the pair
(a, o) of the list is the directed edge o → a -/
def Sup (done st : List Coord) : Prop := ∀ e ∈ pairs st, ∀ q ∈ done, 0 ≤ cross e.2 e.1 q

/-- stack entries descend (top first) in the (lon, lat) order -/
def Desc (st : List Coord) : Prop := List.Pairwise (fun a b => LexLe b a) st

theorem Desc_suffix {l₁ l₂ : List Coord} (h : l₁ <:+ l₂) (hd : Desc l₂) : Desc l₁ :=
  List.Pairwise.sublist h.sublist hd

theorem lastD_mem_cons (x : Coord) (r : List Coord) : lastD x r ∈ x :: r := by
  rcases lastD_mem x r with h | h
  · rw [h]; exact List.mem_cons_self
  · exact List.mem_cons_of_mem _ h

/-- the inner loop: pops while keeping "every processed q with top ≼ q is left of top → p" -/
theorem popWhile_K (done : List Coord) (p : Coord) (hp : ∀ q ∈ done, LexLe q p) :
    ∀ (r : List Coord) (x : Coord), (∀ v ∈ x :: r, v ∈ done) → Desc (x :: r) → Sup done (x :: r) →
      (∀ q ∈ done, LexLe x q → 0 ≤ cross x p q) →
      ∃ x' r', popWhile 2 p (x :: r) = x' :: r' ∧ (x' :: r') <:+ (x :: r) ∧ lastD x' r' = lastD x r ∧
        (∀ q ∈ done, LexLe x' q → 0 ≤ cross x' p q) ∧ (∀ o r'', r' = o :: r'' → isCW o x' p = true) := by
  intro r
  induction r with
  | nil =>
    intro x _ _ _ hK
    exact ⟨x, [], rfl, List.suffix_refl _, rfl, hK, fun o r'' h => by cases h⟩
  | cons o r2 ih =>
    intro x hsub hdesc hsup hK
    rw [popWhile_cons2]
    by_cases hcw : isCW o x p = true
    · have : ¬ (2 ≤ (o :: r2).length + 1 ∧ (!isCW o x p) = true) := by simp [hcw]
      rw [if_neg this]
      refine ⟨x, o :: r2, rfl, List.suffix_refl _, rfl, hK, ?_⟩
      intro o' r'' h
      simp only [List.cons.injEq] at h
      rw [← h.1]; exact hcw
    · have hcond : 2 ≤ (o :: r2).length + 1 ∧ (!isCW o x p) = true := by
        refine ⟨by simp only [List.length_cons]; omega, ?_⟩
        simpa using hcw
      rw [if_pos hcond]
      have hle : cross o x p ≤ 0 := by
        have : ¬ 0 < cross o x p := fun h => hcw ((isCW_iff o x p).mpr h)
        omega
      have hox : LexLe o x := (List.pairwise_cons.mp hdesc).1 o List.mem_cons_self
      have hxp : LexLe x p := hp x (hsub x List.mem_cons_self)
      have hK' : ∀ q ∈ done, LexLe o q → 0 ≤ cross o p q := by
        intro q hq hoq
        rcases LexLe.total x q with hxq | hqx
        · exact crossX2 hox hxq (hp q hq) hle (hK q hq hxq)
        · have h1 : 0 ≤ cross o x q := hsup (x, o) (by rw [pairs_cons2]; exact List.mem_cons_self) q hq
          exact crossX1 hoq hqx hxp h1 hle
      obtain ⟨x', r', e, hs, hl, hk, hex⟩ := ih o (fun v hv => hsub v (List.mem_cons_of_mem _ hv))
        (List.pairwise_cons.mp hdesc).2
        (fun e he => hsup e (pairs_suffix (List.suffix_cons _ _) e he)) hK'
      exact ⟨x', r', e, List.IsSuffix.trans hs (List.suffix_cons _ _), hl, hk, hex⟩

/-- the incoming point lies left of every older edge once it lies left of the top edge -/
theorem sup_point (p : Coord) : ∀ (r : List Coord) (a o : Coord), Turns (a :: o :: r) → Desc (a :: o :: r) →
    LexLe a p → 0 ≤ cross o a p → ∀ e ∈ pairs (a :: o :: r), 0 ≤ cross e.2 e.1 p := by
  intro r
  induction r with
  | nil =>
    intro a o _ _ _ h e he
    simp only [pairs, List.mem_cons, List.not_mem_nil, or_false] at he
    subst he; exact h
  | cons o2 r2 ih =>
    intro a o ht hd hap h e he
    rw [pairs_cons2] at he
    rcases List.mem_cons.mp he with rfl | he
    · exact h
    · have hd1 := List.pairwise_cons.mp hd
      have hd2 := List.pairwise_cons.mp hd1.2
      have hoa : LexLe o a := hd1.1 o List.mem_cons_self
      have ho2o : LexLe o2 o := hd2.1 o2 List.mem_cons_self
      have hturn : 0 < cross o2 o a := (isCW_iff o2 o a).mp ht.1
      have hnext : 0 ≤ cross o2 o p := crossP' ho2o hoa (LexLe.trans hoa hap) h hturn
      exact ih o o2 ht.2 hd1.2 (LexLe.trans hoa hap) hnext e he

/-- invariant of a pass: `done` = the points processed so far -/
structure Inv (done : List Coord) (x : Coord) (r : List Coord) : Prop where
  sub : ∀ v ∈ x :: r, v ∈ done
  desc : Desc (x :: r)
  turns : Turns (x :: r)
  sup : Sup done (x :: r)
  top : ∀ q ∈ done, LexLe q x
  bot : ∀ q ∈ done, LexLe (lastD x r) q

theorem step_inv {done : List Coord} {x : Coord} {r : List Coord} (h : Inv done x r) (p : Coord)
    (hp : ∀ q ∈ done, LexLe q p) :
    ∃ x' r', popWhile 2 p (x :: r) = x' :: r' ∧ Inv (p :: done) p (x' :: r') := by
  have hK0 : ∀ q ∈ done, LexLe x q → 0 ≤ cross x p q := by
    intro q hq hxq
    have : q = x := LexLe.antisymm (h.top q hq) hxq
    rw [this, cross_self_base]
  obtain ⟨x', r', e, hs, hl, hk, hex⟩ := popWhile_K done p hp r x h.sub h.desc h.sup hK0
  refine ⟨x', r', e, ?_⟩
  have hsub' : ∀ v ∈ x' :: r', v ∈ done := fun v hv => h.sub v (List.IsSuffix.mem hv hs)
  have hdesc' : Desc (x' :: r') := Desc_suffix hs h.desc
  have hturns : Turns (p :: x' :: r') := by
    have := push_turns p (x :: r) h.turns
    rw [e] at this; exact this
  have hx'p : LexLe x' p := hp x' (hsub' x' List.mem_cons_self)
  constructor
  · intro v hv
    rcases List.mem_cons.mp hv with rfl | hv
    · exact List.mem_cons_self
    · exact List.mem_cons_of_mem _ (hsub' v hv)
  · exact List.pairwise_cons.mpr ⟨fun v hv => hp v (hsub' v hv), hdesc'⟩
  · exact hturns
  · -- Sup (p :: done) (p :: x' :: r')
    intro e' he' q hq
    rw [pairs_cons2] at he'
    rcases List.mem_cons.mp he' with rfl | he2
    · -- the new edge x' → p
      show 0 ≤ cross x' p q
      rcases List.mem_cons.mp hq with rfl | hq
      · rw [cross_self_right]
      · rcases LexLe.total x' q with hxq | hqx
        · exact hk q hq hxq
        · cases r' with
          | nil =>
            -- x' is the bottom entry: it precedes every processed point
            have : LexLe x' q := by
              have := h.bot q hq
              rw [← hl] at this; exact this
            exact hk q hq this
          | cons o r'' =>
            have hox : LexLe o x' := (List.pairwise_cons.mp hdesc').1 o List.mem_cons_self
            have h1 : 0 ≤ cross o x' q :=
              h.sup (x', o) (pairs_suffix hs _ (by rw [pairs_cons2]; exact List.mem_cons_self)) q hq
            exact crossP hox hx'p hqx h1 ((isCW_iff o x' p).mp (hex o r'' rfl))
    · -- older edges
      rcases List.mem_cons.mp hq with rfl | hq
      · clear he'
        cases r' with
        | nil => rw [pairs_single] at he2; cases he2
        | cons o r'' =>
          have h0 : 0 ≤ cross o x' q := le_of_lt ((isCW_iff o x' q).mp (hex o r'' rfl))
          exact sup_point q r'' x' o (Turns_tail hturns) hdesc' hx'p h0 e' he2
      · exact h.sup e' (pairs_suffix hs e' he2) q hq
  · intro q hq
    rcases List.mem_cons.mp hq with rfl | hq
    · exact LexLe.refl _
    · exact hp q hq
  · intro q hq
    show LexLe (lastD x' r') q
    rw [hl]
    rcases List.mem_cons.mp hq with rfl | hq
    · exact hp _ (h.sub _ (lastD_mem_cons x r))
    · exact h.bot q hq

/-- a whole pass over points that continue the sorted order -/
theorem chain_inv : ∀ (pts : List Coord) (done : List Coord) (x : Coord) (r : List Coord), Inv done x r →
    List.Pairwise LexLe pts → (∀ p ∈ pts, ∀ q ∈ done, LexLe q p) →
    ∃ x' r', chain 2 (x :: r) pts = x' :: r' ∧ Inv (pts.reverse ++ done) x' r' := by
  intro pts
  induction pts with
  | nil => intro done x r h _ _; exact ⟨x, r, rfl, by simpa using h⟩
  | cons p ps ih =>
    intro done x r h hsorted hge
    obtain ⟨x', r', e, hinv⟩ := step_inv h p (hge p List.mem_cons_self)
    have hs := List.pairwise_cons.mp hsorted
    obtain ⟨x'', r'', e2, hinv2⟩ := ih (p :: done) p (x' :: r') hinv hs.2 (by
      intro p' hp' q hq
      rcases List.mem_cons.mp hq with rfl | hq
      · exact hs.1 p' hp'
      · exact hge p' (List.mem_cons_of_mem _ hp') q hq)
    refine ⟨x'', r'', ?_, ?_⟩
    · simp only [chain, List.foldl_cons]
      rw [e]
      exact e2
    · have : (p :: ps).reverse ++ done = ps.reverse ++ (p :: done) := by simp
      rw [this]; exact hinv2

/-- result for the lower pass over a sorted list -/
theorem lowerStack_sup (c0 : Coord) (cs : List Coord) (hsorted : List.Pairwise LexLe (c0 :: cs)) :
    ∃ x r, lowerStack (c0 :: cs) = x :: r ∧ Sup (c0 :: cs) (x :: r) ∧ lastD x r = c0 ∧
      (∀ q ∈ c0 :: cs, LexLe q x) ∧ x ∈ c0 :: cs ∧ Desc (x :: r) := by
  have h0 : Inv [c0] c0 [] := by
    constructor
    · intro v hv; exact hv
    · exact List.pairwise_singleton _ _
    · trivial
    · intro e he; simp [pairs] at he
    · intro q hq; rcases List.mem_cons.mp hq with rfl | hq
      · exact LexLe.refl _
      · cases hq
    · intro q hq; rcases List.mem_cons.mp hq with rfl | hq
      · exact LexLe.refl _
      · cases hq
  have hs := List.pairwise_cons.mp hsorted
  obtain ⟨x, r, e, hinv⟩ := chain_inv cs [c0] c0 [] h0 hs.2 (by
    intro p hp q hq
    rcases List.mem_cons.mp hq with rfl | hq
    · exact hs.1 p hp
    · cases hq)
  have hmem : ∀ q, q ∈ c0 :: cs → q ∈ cs.reverse ++ [c0] := by
    intro q hq
    rcases List.mem_cons.mp hq with rfl | hq
    · simp
    · simp [hq]
  have hmem' : ∀ q, q ∈ cs.reverse ++ [c0] → q ∈ c0 :: cs := by
    intro q hq
    rcases List.mem_append.mp hq with h | h
    · exact List.mem_cons_of_mem _ (List.mem_reverse.mp h)
    · rcases List.mem_cons.mp h with rfl | h
      · exact List.mem_cons_self
      · cases h
  refine ⟨x, r, ?_, ?_, ?_, ?_, ?_, hinv.desc⟩
  · simpa [lowerStack, chain, popWhile] using e
  · intro e' he' q hq; exact hinv.sup e' he' q (hmem q hq)
  · have h1 := hinv.bot c0 (by simp)
    have h2 : LexLe c0 (lastD x r) := by
      have := hmem' _ (hinv.sub _ (lastD_mem_cons x r))
      rcases List.mem_cons.mp this with h | h
      · rw [h]; exact LexLe.refl _
      · exact hs.1 _ h
    exact LexLe.antisymm h1 h2
  · intro q hq; exact hinv.top q (hmem q hq)
  · exact hmem' _ (hinv.sub x List.mem_cons_self)

end Tbx.Geo
