import Tbx.Model.HashTable
/-
Function-level theory of the table's probing (core Lean only).

Cells are seen through two functions `tm ky : Nat → Nat` (stamp and key of the cell at an index); the
array-level bridge is in Proofs/HashTableRefine.lean.  Contents: counting of live cells, cyclic index
arithmetic, `probeF` (the model's `probe` on functions), the invariant `InvF`, what a probe finds
under the invariant (`find_spec`), and preservation of the invariant by a write and by emptying.
-/
namespace Tbx.HashTable

/-! ### counting -/

def cnt (f : Nat → Bool) : Nat → Nat
  | 0 => 0
  | n + 1 => cnt f n + (if f n then 1 else 0)

theorem cnt_le (f : Nat → Bool) (n : Nat) : cnt f n ≤ n := by
  induction n with
  | zero => simp [cnt]
  | succ n ih => simp only [cnt]; split <;> omega

theorem cnt_congr (f g : Nat → Bool) (n : Nat) (h : ∀ i, i < n → f i = g i) : cnt f n = cnt g n := by
  induction n with
  | zero => rfl
  | succ n ih =>
    simp only [cnt]
    rw [ih (fun i hi => h i (by omega)), h n (by omega)]

theorem cnt_zero (f : Nat → Bool) (n : Nat) (h : ∀ i, i < n → f i = false) : cnt f n = 0 := by
  induction n with
  | zero => rfl
  | succ n ih =>
    simp only [cnt]
    rw [ih (fun i hi => h i (by omega)), h n (by omega)]
    simp

theorem cnt_lt_exists (f : Nat → Bool) (n : Nat) (h : cnt f n < n) : ∃ i, i < n ∧ f i = false := by
  induction n with
  | zero => omega
  | succ n ih =>
    simp only [cnt] at h
    cases hf : f n with
    | false => exact ⟨n, by omega, hf⟩
    | true =>
      rw [hf] at h
      simp at h
      obtain ⟨i, hi, hfi⟩ := ih h
      exact ⟨i, by omega, hfi⟩

theorem cnt_set (f g : Nat → Bool) (n p : Nat) (hp : p < n) (hfp : f p = false) (hgp : g p = true)
    (hne : ∀ i, i ≠ p → g i = f i) : cnt g n = cnt f n + 1 := by
  induction n with
  | zero => omega
  | succ n ih =>
    simp only [cnt]
    by_cases h : p = n
    · subst h
      rw [cnt_congr g f p (fun i hi => hne i (by omega)), hfp, hgp]
      simp
    · rw [ih (by omega), hne n (fun x => h x.symm)]
      omega

/-! ### cyclic index arithmetic -/

theorem addmod (N a d : Nat) (ha : a < N) (hd : d < N) :
    (a + d) % N = if a + d < N then a + d else a + d - N := by
  split
  · rename_i h; exact Nat.mod_eq_of_lt h
  · rename_i h
    rw [Nat.mod_eq_sub_mod (by omega)]
    exact Nat.mod_eq_of_lt (by omega)

theorem addmod_lt (N a d : Nat) (hN : 0 < N) : (a + d) % N < N := Nat.mod_lt _ hN

theorem addmod_inj (N a d e : Nat) (ha : a < N) (hd : d < N) (he : e < N)
    (h : (a + d) % N = (a + e) % N) : d = e := by
  rw [addmod N a d ha hd, addmod N a e ha he] at h
  split at h <;> split at h <;> omega

theorem exists_offset (N a j : Nat) (ha : a < N) (hj : j < N) : ∃ e, e < N ∧ (a + e) % N = j := by
  by_cases h : a ≤ j
  · refine ⟨j - a, by omega, ?_⟩
    rw [addmod N a (j - a) ha (by omega)]
    split <;> omega
  · refine ⟨j + N - a, by omega, ?_⟩
    rw [addmod N a (j + N - a) ha (by omega)]
    split <;> omega

theorem step_offset (N a e : Nat) : ((a + e) % N + 1) % N = (a + (e + 1)) % N := by
  rw [Nat.mod_add_mod]
  congr 1

/-! ### the probe loop on functions -/

def probeF (N : Nat) (tm ky : Nat → Nat) (ts key : Nat) : Nat → Nat → Option Nat
  | 0, _ => none
  | fuel + 1, pos =>
    if tm pos = ts ∧ ky pos ≠ key then probeF N tm ky ts key fuel ((pos + 1) % N) else some pos

/-- the loop continues at `p`: live cell holding another key -/
def Busy (tm ky : Nat → Nat) (ts key p : Nat) : Prop := tm p = ts ∧ ky p ≠ key

theorem probeF_some (N : Nat) (tm ky : Nat → Nat) (ts key : Nat) (hN : 0 < N) :
    ∀ fuel pos p, pos < N → probeF N tm ky ts key fuel pos = some p →
      ∃ d, d < fuel ∧ p = (pos + d) % N ∧ ¬ Busy tm ky ts key p ∧
        ∀ e, e < d → Busy tm ky ts key ((pos + e) % N) := by
  intro fuel
  induction fuel with
  | zero => intro pos p _ h; simp [probeF] at h
  | succ fuel ih =>
    intro pos p hpos h
    simp only [probeF] at h
    split at h
    · rename_i hb
      obtain ⟨d, hd, hp, hnb, hall⟩ := ih ((pos + 1) % N) p (Nat.mod_lt _ hN) h
      refine ⟨d + 1, by omega, ?_, hnb, ?_⟩
      · rw [hp, Nat.mod_add_mod]; congr 1; omega
      · intro e he
        cases e with
        | zero => simpa [Busy, Nat.mod_eq_of_lt hpos] using hb
        | succ e =>
          have := hall e (by omega)
          rw [Nat.mod_add_mod] at this
          have h2 : pos + 1 + e = pos + (e + 1) := by omega
          rwa [h2] at this
    · rename_i hb
      injection h with h
      subst h
      exact ⟨0, by omega, by simp [Nat.mod_eq_of_lt hpos], hb, by intro e he; omega⟩

theorem probeF_none (N : Nat) (tm ky : Nat → Nat) (ts key : Nat) (hN : 0 < N) :
    ∀ fuel pos, pos < N → probeF N tm ky ts key fuel pos = none →
      ∀ e, e < fuel → Busy tm ky ts key ((pos + e) % N) := by
  intro fuel
  induction fuel with
  | zero => intro pos _ _ e he; omega
  | succ fuel ih =>
    intro pos hpos h e he
    simp only [probeF] at h
    split at h
    · rename_i hb
      cases e with
      | zero => simpa [Busy, Nat.mod_eq_of_lt hpos] using hb
      | succ e =>
        have := ih ((pos + 1) % N) (Nat.mod_lt _ hN) h e (by omega)
        rw [Nat.mod_add_mod] at this
        have h2 : pos + 1 + e = pos + (e + 1) := by omega
        rwa [h2] at this
    · cases h

/-! ### the invariant -/

structure InvF (N : Nat) (h : Nat → Nat) (tm ky : Nat → Nat) (ts len : Nat) : Prop where
  /-- the generation fits u32 -/
  tsLe : ts ≤ u32Max
  /-- live keys are distinct -/
  distinct : ∀ i j, i < N → j < N → tm i = ts → tm j = ts → ky i = ky j → i = j
  /-- probe-chain contiguity: every position cyclically between `h k` and k's cell is live -/
  chain : ∀ i, i < N → tm i = ts →
    ∃ d, d < N ∧ i = (h (ky i) + d) % N ∧ ∀ e, e < d → tm ((h (ky i) + e) % N) = ts
  /-- `length` counts the live cells … -/
  count : len = cnt (fun i => tm i == ts) N
  /-- … and at least one cell is dead -/
  room : len < N
  /-- stamp hygiene: no stamp lies in the future of the current epoch (so the stamp a later clear
  moves to is carried by no cell); `u32::MAX` is the stamp of never-written cells -/
  hygiene : ∀ i, i < N → tm i ≤ ts ∨ tm i = u32Max

theorem InvF.exists_dead {N : Nat} {h tm ky : Nat → Nat} {ts len : Nat} (I : InvF N h tm ky ts len) :
    ∃ j, j < N ∧ tm j ≠ ts := by
  have := I.room
  rw [I.count] at this
  obtain ⟨j, hj, hf⟩ := cnt_lt_exists _ _ this
  exact ⟨j, hj, by simpa using hf⟩

/-- What the probe for `key` finds under the invariant: it terminates within `N` steps at a position
`p` reached through live cells holding other keys; either `p` is live and holds `key`, or `p` is dead
and no live cell holds `key`. -/
theorem find_spec {N : Nat} {h tm ky : Nat → Nat} {ts len : Nat} (I : InvF N h tm ky ts len)
    (hh : ∀ k, h k < N) (key : Nat) :
    ∃ p d, probeF N tm ky ts key N (h key) = some p ∧ p < N ∧ d < N ∧ p = (h key + d) % N ∧
      (∀ e, e < d → tm ((h key + e) % N) = ts ∧ ky ((h key + e) % N) ≠ key) ∧
      ((tm p = ts ∧ ky p = key) ∨ (tm p ≠ ts ∧ ∀ i, i < N → tm i = ts → ky i ≠ key)) := by
  have hN : 0 < N := by have := hh 0; omega
  cases hp : probeF N tm ky ts key N (h key) with
  | none =>
    exfalso
    obtain ⟨j, hj, hdead⟩ := I.exists_dead
    obtain ⟨e, he, hej⟩ := exists_offset N (h key) j (hh key) hj
    have := probeF_none N tm ky ts key hN N (h key) (hh key) hp e he
    rw [hej] at this
    exact hdead this.1
  | some p =>
    obtain ⟨d, hd, hpd, hnb, hall⟩ := probeF_some N tm ky ts key hN N (h key) p (hh key) hp
    have hpN : p < N := by rw [hpd]; exact Nat.mod_lt _ hN
    refine ⟨p, d, rfl, hpN, hd, hpd, hall, ?_⟩
    by_cases hl : tm p = ts
    · left
      refine ⟨hl, ?_⟩
      by_cases hk : ky p = key
      · exact hk
      · exact absurd ⟨hl, hk⟩ hnb
    · right
      refine ⟨hl, ?_⟩
      intro i hi hli hki
      obtain ⟨d', hd', hid', hch⟩ := I.chain i hi hli
      rw [hki] at hid' hch
      -- compare d' with d
      by_cases hlt : d < d'
      · have := hch d hlt
        rw [← hpd] at this
        exact hl this
      · by_cases hgt : d' < d
        · have := (hall d' hgt).2
          rw [← hid'] at this
          exact this hki
        · have : d = d' := by omega
          subst this
          rw [← hpd] at hid'
          subst hid'
          exact hl hli

/-- probing terminates: the fuel `N` handed in by every caller suffices -/
theorem probeF_terminates {N : Nat} {h tm ky : Nat → Nat} {ts len : Nat} (I : InvF N h tm ky ts len)
    (hh : ∀ k, h k < N) (key : Nat) : (probeF N tm ky ts key N (h key)).isSome = true := by
  obtain ⟨p, d, hp, _⟩ := find_spec I hh key
  simp [hp]

/-! ### the invariant is preserved by the write `get_mut` performs -/

/-- stamp and key functions after writing `(ts, key)` to cell `p` -/
def wr (f : Nat → Nat) (p x : Nat) : Nat → Nat := fun j => if j = p then x else f j

theorem InvF_write {N : Nat} {h tm ky : Nat → Nat} {ts len : Nat} (I : InvF N h tm ky ts len)
    (key p d : Nat) (hpN : p < N) (hd : d < N) (hpd : p = (h key + d) % N)
    (hall : ∀ e, e < d → tm ((h key + e) % N) = ts ∧ ky ((h key + e) % N) ≠ key)
    (hcase : (tm p = ts ∧ ky p = key) ∨ (tm p ≠ ts ∧ ∀ i, i < N → tm i = ts → ky i ≠ key))
    (len' : Nat) (hlen : len' = if tm p = ts then len else len + 1) (hroom : len' < N) :
    InvF N h (wr tm p ts) (wr ky p key) ts len' := by
  have hN : 0 < N := by omega
  -- no other live cell holds `key`
  have huniq : ∀ i, i < N → i ≠ p → tm i = ts → ky i ≠ key := by
    intro i hi hne hli hki
    rcases hcase with ⟨hlp, hkp⟩ | ⟨_, habs⟩
    · exact hne (I.distinct i p hi hpN hli hlp (by rw [hki, hkp]))
    · exact habs i hi hli hki
  have hlive : ∀ i, wr tm p ts i = ts ↔ (i = p ∨ tm i = ts) := by
    intro i; simp only [wr]; by_cases hi : i = p <;> simp [hi]
  refine ⟨I.tsLe, ?_, ?_, ?_, hroom, ?_⟩
  · -- distinct
    intro i j hi hj hli hlj hk
    simp only [wr] at hli hlj hk
    by_cases hip : i = p <;> by_cases hjp : j = p
    · omega
    · simp only [hip, hjp, if_true, if_false] at hli hlj hk
      exact absurd hk.symm (huniq j hj hjp hlj)
    · simp only [hip, hjp, if_true, if_false] at hli hlj hk
      exact absurd hk (huniq i hi hip hli)
    · simp only [hip, hjp, if_false] at hli hlj hk
      exact I.distinct i j hi hj hli hlj hk
  · -- chain
    intro i hi hli
    by_cases hip : i = p
    · subst hip
      refine ⟨d, hd, ?_, ?_⟩
      · simp only [wr, if_true]; exact hpd
      · intro e he
        simp only [wr, if_true]
        split
        · rfl
        · exact (hall e he).1
    · have hli' : tm i = ts := by simpa [wr, hip] using hli
      obtain ⟨d', hd', hid', hch⟩ := I.chain i hi hli'
      refine ⟨d', hd', ?_, ?_⟩
      · simp only [wr, hip, if_false]; exact hid'
      · intro e he
        simp only [wr, hip, if_false]
        by_cases hq : (h (ky i) + e) % N = p
        · simp [hq]
        · simp only [hq, if_false]; exact hch e he
  · -- count
    rw [hlen]
    by_cases hlp : tm p = ts
    · simp only [hlp, if_true]
      rw [I.count]
      apply cnt_congr
      intro i _
      simp only [wr]
      by_cases hip : i = p
      · simp [hip, hlp]
      · simp [hip]
    · simp only [hlp, if_false]
      rw [I.count]
      refine (cnt_set (fun i => tm i == ts) (fun i => wr tm p ts i == ts) N p hpN (by simpa using hlp) (by simp [wr]) ?_).symm
      intro i hi
      simp [wr, hi]
  · -- hygiene
    intro i hi
    simp only [wr]
    by_cases hip : i = p
    · simp [hip]
    · simp only [hip, if_false]; exact I.hygiene i hi

/-! ### an emptied table satisfies the invariant -/

theorem InvF_empty (N : Nat) (h tm ky : Nat → Nat) (ts : Nat) (hN : 0 < N) (hts : ts ≤ u32Max)
    (hdead : ∀ i, i < N → tm i ≠ ts) (hhyg : ∀ i, i < N → tm i ≤ ts ∨ tm i = u32Max) :
    InvF N h tm ky ts 0 := by
  refine ⟨hts, ?_, ?_, ?_, hN, hhyg⟩
  · intro i j hi _ hli; exact absurd hli (hdead i hi)
  · intro i hi hli; exact absurd hli (hdead i hi)
  · rw [cnt_zero]; intro i hi; simpa using hdead i hi

/-- the three stamp updates of `clear`, as functions: unchanged / all zero / all `u32::MAX` -/
theorem InvF_clear {N : Nat} {h tm ky : Nat → Nat} {ts len : Nat} (I : InvF N h tm ky ts len) (hN : 0 < N) :
    (ts + 1 < u32Max → InvF N h tm ky (ts + 1) 0) ∧
    (ts + 1 = u32Max → InvF N h (fun _ => 0) ky u32Max 0) ∧
    (ts = u32Max → ∀ ky', InvF N h (fun _ => u32Max) ky' 0 0) := by
  refine ⟨?_, ?_, ?_⟩
  · intro hlt
    apply InvF_empty N h tm ky (ts + 1) hN (by omega)
    · intro i hi
      rcases I.hygiene i hi with h1 | h1 <;> omega
    · intro i hi
      rcases I.hygiene i hi with h1 | h1
      · left; omega
      · right; exact h1
  · intro _
    apply InvF_empty N h _ ky u32Max hN (Nat.le_refl _)
    · intro i _; simp [u32Max]
    · intro i _; left; simp
  · intro _ ky'
    apply InvF_empty N h _ ky' 0 hN (by simp [u32Max])
    · intro i _; simp [u32Max]
    · intro i _; right; rfl

end Tbx.HashTable
