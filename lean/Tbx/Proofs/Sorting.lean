import Tbx.Spec.Sorting
/-
Facts about the naive sort `isort` (Spec/Sorting.lean): it is sorted, a permutation, and the only
sorted permutation; so "equals `isort xs`" is the same as "sorted and the same multiset as xs".
-/
namespace Tbx.Sorting

theorem sorted_cons {x : Int} {l : List Int} : Sorted (x :: l) ↔ (∀ y ∈ l, x ≤ y) ∧ Sorted l := by
  unfold Sorted; exact List.pairwise_cons

theorem sortedB_iff (l : List Int) : sortedB l = true ↔ Sorted l := by
  induction l with
  | nil => simp [sortedB, Sorted]
  | cons x t ih =>
    cases t with
    | nil => simp [sortedB, Sorted]
    | cons y r =>
      simp only [sortedB, Bool.and_eq_true, decide_eq_true_eq, ih]
      rw [sorted_cons (x := x), sorted_cons (x := y)]
      constructor
      · rintro ⟨hxy, hy, hr⟩
        refine ⟨?_, hy, hr⟩
        intro z hz
        rcases List.mem_cons.mp hz with rfl | hz
        · exact hxy
        · exact Int.le_trans hxy (hy z hz)
      · rintro ⟨hx, hy, hr⟩
        exact ⟨hx y (List.mem_cons_self), hy, hr⟩

theorem ins_perm (x : Int) (l : List Int) : (ins x l).Perm (x :: l) := by
  induction l with
  | nil => exact List.Perm.refl _
  | cons y ys ih =>
    simp only [ins]
    split
    · exact List.Perm.refl _
    · exact (List.Perm.cons y ih).trans (List.Perm.swap x y ys)

theorem mem_ins {x z : Int} {l : List Int} : z ∈ ins x l ↔ z = x ∨ z ∈ l := by
  rw [(ins_perm x l).mem_iff]; simp

theorem ins_sorted (x : Int) (l : List Int) (h : Sorted l) : Sorted (ins x l) := by
  induction l with
  | nil => simp [ins, Sorted]
  | cons y ys ih =>
    simp only [ins]
    rw [sorted_cons] at h
    split
    · rename_i hxy
      rw [sorted_cons]
      refine ⟨?_, sorted_cons.mpr h⟩
      intro z hz
      rcases List.mem_cons.mp hz with rfl | hz
      · omega
      · have := h.1 z hz; omega
    · rename_i hxy
      rw [sorted_cons]
      refine ⟨?_, ih h.2⟩
      intro z hz
      rcases mem_ins.mp hz with rfl | hz
      · omega
      · exact h.1 z hz

theorem isort_perm (l : List Int) : (isort l).Perm l := by
  induction l with
  | nil => exact List.Perm.refl _
  | cons x xs ih => exact (ins_perm x (isort xs)).trans (List.Perm.cons x ih)

theorem isort_sorted (l : List Int) : Sorted (isort l) := by
  induction l with
  | nil => simp [isort, Sorted]
  | cons x xs ih => exact ins_sorted x _ ih

theorem sorted_perm_eq {a b : List Int} (ha : Sorted a) (hb : Sorted b) (h : a.Perm b) : a = b :=
  List.Perm.eq_of_pairwise (le := (· ≤ ·)) (fun _ _ _ _ h1 h2 => Int.le_antisymm h1 h2) ha hb h

/-- the judge's test "equals the naive sort" means: sorted, and the same multiset -/
theorem eq_isort_iff (out xs : List Int) : out = isort xs ↔ Sorted out ∧ out.Perm xs := by
  constructor
  · rintro rfl; exact ⟨isort_sorted xs, isort_perm xs⟩
  · rintro ⟨h1, h2⟩
    exact sorted_perm_eq h1 (isort_sorted xs) (h2.trans (isort_perm xs).symm)

theorem isort_congr {a b : List Int} (h : a.Perm b) : isort a = isort b :=
  sorted_perm_eq (isort_sorted a) (isort_sorted b) ((isort_perm a).trans (h.trans (isort_perm b).symm))

theorem isort_of_sorted {a : List Int} (h : Sorted a) : isort a = a :=
  ((eq_isort_iff a a).mpr ⟨h, List.Perm.refl _⟩).symm

theorem length_isort (l : List Int) : (isort l).length = l.length := (isort_perm l).length_eq

/-- insertion sort itself satisfies both std contracts (non-vacuity of the contracts) -/
theorem isort_sortContract : SortContract isort := fun l => ⟨isort_sorted l, isort_perm l⟩

end Tbx.Sorting
