import Tbx.Model.Fenwick
/-
Arithmetic of `lsb` (the largest power of two dividing n): the intervals (p − lsb p, p] form a
laminar family.  Every lemma is proved by recursion on the binary representation (halving), the
arithmetic being closed by `omega`.
-/
namespace Tbx.Fenwick

theorem lsb_zero : lsb 0 = 0 := by rw [lsb]; simp

theorem lsb_odd (n : Nat) (h : n % 2 = 1) : lsb n = 1 := by
  rw [lsb]
  have : n ≠ 0 := by omega
  simp [this, h]

theorem lsb_even (n : Nat) (h0 : n ≠ 0) (h : n % 2 = 0) : lsb n = 2 * lsb (n / 2) := by
  rw [lsb]
  have : ¬ (n % 2 = 1) := by omega
  simp [h0, this]

theorem lsb_pos (n : Nat) (h : 0 < n) : 0 < lsb n := by
  induction n using Nat.strongRecOn with
  | ind n ih =>
    by_cases hp : n % 2 = 1
    · rw [lsb_odd n hp]; omega
    · rw [lsb_even n (by omega) (by omega)]
      have := ih (n / 2) (by omega) (by omega)
      omega

theorem lsb_le (n : Nat) : lsb n ≤ n := by
  induction n using Nat.strongRecOn with
  | ind n ih =>
    by_cases h0 : n = 0
    · subst h0; rw [lsb_zero]; omega
    by_cases hp : n % 2 = 1
    · rw [lsb_odd n hp]; omega
    · rw [lsb_even n h0 (by omega)]
      have := ih (n / 2) (by omega)
      omega

/-- p − lsb p is even unless p is odd … in fact p − lsb p is always a multiple of 2·lsb p; we only
    need: it is even -/
theorem sub_lsb_even (n : Nat) : (n - lsb n) % 2 = 0 := by
  by_cases h0 : n = 0
  · subst h0; simp
  by_cases hp : n % 2 = 1
  · rw [lsb_odd n hp]; omega
  · rw [lsb_even n h0 (by omega)]
    have := lsb_le (n / 2)
    omega

/-- for r above p: r covers p iff r is at least the next node p + lsb p and covers it (update walk) -/
theorem cover_step (p r : Nat) (hp : 0 < p) (hr : p < r) :
    r - lsb r < p ↔ (p + lsb p ≤ r ∧ r - lsb r < p + lsb p) := by
  induction p using Nat.strongRecOn generalizing r with
  | ind p ih =>
    have hlr := lsb_le r
    have hev := sub_lsb_even r
    by_cases hpo : p % 2 = 1
    · rw [lsb_odd p hpo]
      by_cases hro : r % 2 = 1
      · rw [lsb_odd r hro]; omega
      · omega
    · have hlp := lsb_even p (by omega) (by omega)
      by_cases hro : r % 2 = 1
      · rw [lsb_odd r hro]
        have := lsb_pos (p / 2) (by omega)
        omega
      · have hlr2 := lsb_even r (by omega) (by omega)
        have := ih (p / 2) (by omega) (r / 2) (by omega) (by omega)
        have := lsb_le (r / 2)
        omega

/-- a child c of p (c + lsb c = p) lies strictly above p − lsb p -/
theorem child_above (c : Nat) (hc : 0 < c) : (c + lsb c) - lsb (c + lsb c) < c := by
  induction c using Nat.strongRecOn with
  | ind c ih =>
    by_cases hco : c % 2 = 1
    · rw [lsb_odd c hco]
      have h1 := lsb_even (c + 1) (by omega) (by omega)
      have h2 := lsb_pos ((c + 1) / 2) (by omega)
      omega
    · have h1 := lsb_even c (by omega) (by omega)
      have h2 := lsb_pos (c / 2) (by omega)
      have h3 := lsb_even (c + lsb c) (by omega) (by omega)
      have h4 := ih (c / 2) (by omega) (by omega)
      have h5 : (c + lsb c) / 2 = c / 2 + lsb (c / 2) := by omega
      rw [h5] at h3
      omega

/-- two children of the same node: the smaller one is at most c − lsb c -/
theorem child_gap (c c' : Nat) (hc' : 0 < c') (hlt : c' < c) (h : c' + lsb c' = c + lsb c) :
    c' ≤ c - lsb c := by
  induction c using Nat.strongRecOn generalizing c' with
  | ind c ih =>
    by_cases hco : c % 2 = 1
    · rw [lsb_odd c hco] at h ⊢
      omega
    · have h1 := lsb_even c (by omega) (by omega)
      have h2 := lsb_pos (c / 2) (by omega)
      have h2' := lsb_le (c / 2)
      by_cases hco' : c' % 2 = 1
      · rw [lsb_odd c' hco'] at h
        omega
      · have h3 := lsb_even c' (by omega) (by omega)
        have := ih (c / 2) (by omega) (c' / 2) (by omega) (by omega) (by omega)
        omega

/-- below a child c of p, the next boundary c − lsb c is again a child of p or the left end of p -/
theorem child_prev (c : Nat) (hc : 0 < c) :
    (c - lsb c) + lsb (c - lsb c) = c + lsb c ∨ c - lsb c = (c + lsb c) - lsb (c + lsb c) := by
  induction c using Nat.strongRecOn with
  | ind c ih =>
    by_cases hco : c % 2 = 1
    · rw [lsb_odd c hco]
      -- c − 1 and c + 1 are consecutive even numbers: one of them is 2 mod 4
      by_cases h4 : (c + 1) % 4 = 2
      · right
        have h1 := lsb_even (c + 1) (by omega) (by omega)
        have h2 := lsb_odd ((c + 1) / 2) (by omega)
        omega
      · left
        have h1 := lsb_even (c - 1) (by omega) (by omega)
        have h2 := lsb_odd ((c - 1) / 2) (by omega)
        omega
    · have h1 := lsb_even c (by omega) (by omega)
      have h2 := lsb_pos (c / 2) (by omega)
      have h2' := lsb_le (c / 2)
      have h3 := lsb_even (c + lsb c) (by omega) (by omega)
      have h5 : (c + lsb c) / 2 = c / 2 + lsb (c / 2) := by omega
      rw [h5] at h3
      have h6 : (c - lsb c) / 2 = c / 2 - lsb (c / 2) := by omega
      by_cases hd0 : c - lsb c = 0
      · right
        have hc2 : c / 2 - lsb (c / 2) = 0 := by omega
        rcases ih (c / 2) (by omega) (by omega) with h | h
        · rw [hc2, lsb_zero] at h; omega
        · omega
      · have h7 := lsb_even (c - lsb c) hd0 (by omega)
        rw [h6] at h7
        rcases ih (c / 2) (by omega) (by omega) with h | h
        · left; omega
        · right; omega

/-- nesting used by `range`: if y covers a and a < y then the left end of y is at most the left end of a -/
theorem cover_nest (y a : Nat) (ha : 0 < a) (h1 : y - lsb y < a) (h2 : a < y) : y - lsb y ≤ a - lsb a := by
  induction y using Nat.strongRecOn generalizing a with
  | ind y ih =>
    by_cases hyo : y % 2 = 1
    · rw [lsb_odd y hyo] at h1; omega
    · have hy := lsb_even y (by omega) (by omega)
      have hev := sub_lsb_even y
      by_cases hao : a % 2 = 1
      · rw [lsb_odd a hao]; omega
      · have hla := lsb_even a (by omega) (by omega)
        have hl1 := lsb_le (y / 2)
        have hl2 := lsb_le (a / 2)
        have := ih (y / 2) (by omega) (a / 2) (by omega) (by omega) (by omega)
        omega

end Tbx.Fenwick
