import Tbx.Proofs.AHeapInvDefs
/-
C10: `insert`, `decrease_key`, `data_mut`, `decrease_key_and_update_data` preserve `Inv` and
commute with `abs`.
-/
namespace Tbx.AHeap
open Tbx

theorem gt_st_field {α β : Type} [Inhabited α] (f : α → β) (ns : Array α) (i : Nat) (n' : α) (j : Nat)
    (hf : f n' = f (gt ns i)) : f (gt (st ns i n') j) = f (gt ns j) := by
  rw [gt_st]; split
  · rename_i h; rw [hf, h.1]
  · rfl

theorem lookup_cons_eq (idx : List (Int × Nat)) (id : Int) (n : Nat) (id' : Int) :
    lookup ((id, n) :: idx) id' = if id' = id then some n else lookup idx id' := by
  unfold lookup
  rw [List.lookup_cons]
  by_cases h : id' = id
  · simp [h]
  · have : (id' == id) = false := by simp [h]
    rw [this]; simp [h]

/-! ### insert -/

/-- the state of `insert` just before `up_heap` -/
def insertPre (s : Heap) (id w d : Int) : Heap :=
  { s with heap := s.heap.push ⟨s.nodes.size, w⟩,
           nodes := s.nodes.push ⟨id, s.heap.size, w, d⟩,
           idx := (id, s.nodes.size) :: s.idx }

theorem insert_eq (s : Heap) (id w d : Int) :
    insert s id w d = upHeap (insertPre s id w d) s.heap.size := rfl

theorem insertPre_ptr (s : Heap) (I : Inv s) (id w d : Int) :
    PtrX (insertPre s id w d).heap (insertPre s id w d).nodes (insertPre s id w d).nodes.size := by
  have hp := I.size_pos
  show PtrX (s.heap.push _) (s.nodes.push _) (s.nodes.push _).size
  refine ⟨?_, ?_⟩
  · intro k k1 k2
    simp only [Array.size_push] at k2 ⊢
    by_cases e : k = s.heap.size
    · subst e
      rw [gt_push_eq]
      refine ⟨by simp, by simp, ?_, ?_⟩
      · show (gt (s.nodes.push _) s.nodes.size).key = _
        rw [gt_push_eq]
      · show (gt (s.nodes.push _) s.nodes.size).weight = _
        rw [gt_push_eq]
    · rw [gt_push_lt _ _ _ (by omega)]
      obtain ⟨a, b, c⟩ := I.back k k1 (by omega)
      rw [gt_push_lt _ _ _ a]
      exact ⟨by omega, by omega, b, c⟩
  · intro i i1 _ i3
    simp only [Array.size_push] at i1 ⊢
    by_cases e : i = s.nodes.size
    · subst e
      rw [gt_push_eq]
      refine ⟨by simp, ?_⟩
      show (gt (s.heap.push _) s.heap.size).index = _
      rw [gt_push_eq]
    · rw [gt_push_lt _ _ _ (by omega)] at i3 ⊢
      obtain ⟨a, b⟩ := I.fwd i (by omega) i3
      rw [gt_push_lt _ _ _ a]
      exact ⟨by omega, b⟩

theorem insertPre_idmap (s : Heap) (I : Inv s) (id w d : Int) (hfresh : lookup s.idx id = none) :
    IdMap (insertPre s id w d).idx (insertPre s id w d).nodes := by
  intro id' i
  show lookup ((id, s.nodes.size) :: s.idx) id' = some i ↔
    (i < (s.nodes.push _).size ∧ (gt (s.nodes.push _) i).id = id')
  rw [lookup_cons_eq, Array.size_push]
  by_cases e : id' = id
  · subst e
    simp only [if_true]
    constructor
    · intro h
      have : i = s.nodes.size := (Option.some.inj h).symm
      subst this
      rw [gt_push_eq]; exact ⟨by omega, rfl⟩
    · rintro ⟨h1, h2⟩
      by_cases e2 : i = s.nodes.size
      · rw [e2]
      · exfalso
        rw [gt_push_lt _ _ _ (by omega)] at h2
        have := (I.idmap id' i).2 ⟨by omega, h2⟩
        rw [hfresh] at this; cases this
  · simp only [e, if_false]
    rw [I.idmap id' i]
    constructor
    · rintro ⟨h1, h2⟩
      rw [gt_push_lt _ _ _ h1]; exact ⟨by omega, h2⟩
    · rintro ⟨h1, h2⟩
      by_cases e2 : i = s.nodes.size
      · exfalso; subst e2; rw [gt_push_eq] at h2; exact e h2.symm
      · rw [gt_push_lt _ _ _ (by omega)] at h2; exact ⟨by omega, h2⟩

theorem insert_spec (s : Heap) (I : Inv s) (id w d : Int) (hfresh : lookup s.idx id = none)
    (hw : s.wmin ≤ w) :
    Inv (insert s id w d) ∧ abs (insert s id w d) = PQ.insert (abs s) id w d := by
  have hp := I.size_pos
  rw [insert_eq]
  have hh : (insertPre s id w d).heap = s.heap.push ⟨s.nodes.size, w⟩ := rfl
  have hn : (insertPre s id w d).nodes = s.nodes.push ⟨id, s.heap.size, w, d⟩ := rfl
  obtain ⟨a, b, _⟩ := upHeap_inv (insertPre s id w d) s.heap.size hp (by rw [hh]; simp)
    (by rw [hh, gt_push_lt _ _ _ (by omega)]; exact I.sentinel)
    (by
      intro k hk
      rw [hh] at hk ⊢
      simp only [Array.size_push] at hk
      by_cases e : k = s.heap.size
      · subst e; rw [gt_push_eq]; exact hw
      · rw [gt_push_lt _ _ _ (by omega)]; exact I.wlo k (by omega))
    (insertPre_ptr s I id w d) (insertPre_idmap s I id w d hfresh)
    (by
      rw [hh, gt_push_eq]
      intro k k1 k2 k3
      simp only [Array.size_push] at k2
      unfold wt
      simp only [k3, show k / 2 ≠ s.heap.size by omega, if_false]
      rw [gt_push_lt _ _ _ (by omega), gt_push_lt _ _ _ (by omega)]
      exact I.ord k k1 (by omega))
    (by
      intro _ k k1 k2 k3
      rw [hh] at k2
      simp only [Array.size_push] at k2
      omega)
  refine ⟨a, ?_⟩
  rw [b]
  unfold abs PQ.insert
  rw [hn, Array.toList_push, List.map_append]
  congr 1
  simp only [List.map_cons, List.map_nil, ent]
  have : decide (s.heap.size ≠ 0) = true := decide_eq_true (by omega)
  rw [this]

/-! ### decrease_key -/

/-- the state of `decrease_key` just before `up_heap` -/
def decPre (s : Heap) (index : Nat) (w : Int) : Heap :=
  { s with heap := st s.heap (gt s.nodes index).key { gt s.heap (gt s.nodes index).key with weight := w },
           nodes := st s.nodes index { gt s.nodes index with weight := w } }

theorem decreaseKey_eq (s : Heap) (id w : Int) (index : Nat) (h : lookup s.idx id = some index) :
    decreaseKey s id w = some (upHeap (decPre s index w) (gt s.nodes index).key) := by
  unfold decreaseKey; rw [h]; rfl

theorem decreaseKey_spec (s : Heap) (I : Inv s) (id w : Int) (i : Nat)
    (hl : lookup s.idx id = some i) (hk : (gt s.nodes i).key ≠ 0)
    (hw1 : s.wmin ≤ w) (hw2 : w ≤ (gt s.nodes i).weight) :
    ∃ s', decreaseKey s id w = some s' ∧ Inv s' ∧ abs s' = PQ.decreaseKey (abs s) id w ∧
      s'.idx = s.idx ∧ s'.wmin = s.wmin ∧ s'.wmax = s.wmax ∧ Frame (decPre s i w).nodes s'.nodes := by
  refine ⟨_, decreaseKey_eq s id w i hl, ?_⟩
  obtain ⟨i1, i2⟩ := (I.idmap id i).1 hl
  obtain ⟨f1, f2⟩ := I.fwd i i1 hk
  obtain ⟨b1, b2, b3⟩ := I.back _ (by omega) f1
  rw [f2] at b3
  generalize hkey : (gt s.nodes i).key = key at *
  have hh : (decPre s i w).heap = st s.heap key { gt s.heap key with weight := w } := by
    unfold decPre; rw [hkey]
  have hn : (decPre s i w).nodes = st s.nodes i { gt s.nodes i with weight := w } := rfl
  have hidx : ∀ k, (gt (decPre s i w).heap k).index = (gt s.heap k).index := by
    intro k; rw [hh]; exact gt_st_field Elem.index _ _ _ _ rfl
  have hkeys : ∀ j, (gt (decPre s i w).nodes j).key = (gt s.nodes j).key := by
    intro j; rw [hn]; exact gt_st_field Node.key _ _ _ _ rfl
  have hids : ∀ j, (gt (decPre s i w).nodes j).id = (gt s.nodes j).id := by
    intro j; rw [hn]; exact gt_st_field Node.id _ _ _ _ rfl
  have hsz : (decPre s i w).nodes.size = s.nodes.size := by rw [hn]; simp
  have hhsz : (decPre s i w).heap.size = s.heap.size := by rw [hh]; simp
  have hwk : (gt (decPre s i w).heap key).weight = w := by rw [hh, gt_st_eq _ _ _ f1]
  have hwne : ∀ k, k ≠ key → gt (decPre s i w).heap k = gt s.heap k := by
    intro k hne; rw [hh, gt_st_ne _ _ _ _ (Ne.symm hne)]
  obtain ⟨a, b, c⟩ := upHeap_inv (decPre s i w) key (by omega) (by omega)
    (by rw [hwne 0 (by omega)]; exact I.sentinel)
    (by
      intro k hk'
      by_cases e : k = key
      · subst e; rw [hwk]; exact hw1
      · rw [hwne k e]; exact I.wlo k (by omega))
    (by
      refine ⟨?_, ?_⟩
      · intro k k1 k2
        rw [hidx, hsz]
        obtain ⟨c1, c2, c3⟩ := I.back k k1 (by omega)
        refine ⟨c1, by omega, by rw [hkeys]; exact c2, ?_⟩
        by_cases e : k = key
        · subst e
          rw [hwk, f2, hn, gt_st_eq _ _ _ i1]
        · rw [hwne k e, hn, gt_st_ne _ _ _ _ (by
            intro e'; rw [← e', hkey] at c2; exact e c2.symm)]
          exact c3
      · intro j j1 _ j3
        rw [hkeys] at j3 ⊢
        rw [hidx, hhsz]
        exact I.fwd j (by omega) j3)
    (I.idmap.frame hsz hids)
    (by
      rw [hwk]
      intro k k1 k2 k3
      unfold wt
      simp only [k3, if_false]
      rw [hwne k k3]
      by_cases e : k / 2 = key
      · simp only [e, if_true]
        have := I.ord k k1 (by omega)
        rw [e] at this; omega
      · simp only [e, if_false]
        rw [hwne _ e]
        exact I.ord k k1 (by omega))
    (by
      intro h2 k k1 k2 k3
      rw [hwne k (by omega), hwne (key / 2) (by omega)]
      have o1 := I.ord k k1 (by omega)
      have o2 := I.ord key h2 f1
      rw [k3] at o1; omega)
  refine ⟨a, ?_, rfl, rfl, rfl, c⟩
  rw [b]
  unfold abs PQ.decreaseKey
  apply abs_upd s.nodes (decPre s i w).nodes i id _ hsz i2
  · intro j j1 j2
    exact I.idmap.uniq i1 j1 (by rw [j2, i2])
  · rw [hn, gt_st_eq _ _ _ i1]; rfl
  · intro j _ jne
    rw [hn, gt_st_ne _ _ _ _ (Ne.symm jne)]

/-! ### data_mut -/

theorem setData_spec (s : Heap) (I : Inv s) (id d : Int) (i : Nat) (hl : lookup s.idx id = some i) :
    ∃ s', setData s id d = some s' ∧ Inv s' ∧ abs s' = PQ.setData (abs s) id d ∧
      s'.idx = s.idx ∧ s'.wmin = s.wmin ∧ s'.wmax = s.wmax := by
  have he : setData s id d = some { s with nodes := st s.nodes i { gt s.nodes i with data := d } } := by
    unfold setData; rw [hl]
  refine ⟨_, he, ?_, ?_, rfl, rfl, rfl⟩
  · obtain ⟨i1, i2⟩ := (I.idmap id i).1 hl
    have hkeys : ∀ j, (gt (st s.nodes i { gt s.nodes i with data := d }) j).key = (gt s.nodes j).key :=
      fun j => gt_st_field Node.key _ _ _ _ rfl
    have hids : ∀ j, (gt (st s.nodes i { gt s.nodes i with data := d }) j).id = (gt s.nodes j).id :=
      fun j => gt_st_field Node.id _ _ _ _ rfl
    have hws : ∀ j, (gt (st s.nodes i { gt s.nodes i with data := d }) j).weight = (gt s.nodes j).weight :=
      fun j => gt_st_field Node.weight _ _ _ _ rfl
    refine ⟨I.size_pos, I.sentinel, I.wlo, I.ord, ?_, ?_, ?_⟩
    · intro k k1 k2
      show _ < (st s.nodes i _).size ∧ _
      rw [hkeys, hws, size_st]
      exact I.back k k1 k2
    · intro j j1 j3
      show (gt (st s.nodes i _) j).key < _ ∧ (gt s.heap (gt (st s.nodes i _) j).key).index = j
      have j3' : (gt (st s.nodes i { gt s.nodes i with data := d }) j).key ≠ 0 := j3
      rw [hkeys] at j3' ⊢
      exact I.fwd j (by simpa using j1) j3'
    · exact I.idmap.frame (by simp) hids
  · obtain ⟨i1, i2⟩ := (I.idmap id i).1 hl
    unfold abs PQ.setData
    apply abs_upd s.nodes _ i id _ (by simp) i2
    · intro j j1 j2
      exact I.idmap.uniq i1 j1 (by rw [j2, i2])
    · show ent (gt (st s.nodes i _) i) = _
      rw [gt_st_eq _ _ _ i1]; rfl
    · intro j _ jne
      show ent (gt (st s.nodes i _) j) = _
      rw [gt_st_ne _ _ _ _ (Ne.symm jne)]

/-! ### decrease_key_and_update_data -/

theorem decreaseKeyData_spec (s : Heap) (I : Inv s) (id w d : Int) (i : Nat)
    (hl : lookup s.idx id = some i) (hk : (gt s.nodes i).key ≠ 0)
    (hw1 : s.wmin ≤ w) (hw2 : w ≤ (gt s.nodes i).weight) :
    ∃ s', decreaseKeyData s id w d = some s' ∧ Inv s' ∧
      abs s' = PQ.setData (PQ.decreaseKey (abs s) id w) id d ∧
      s'.idx = s.idx ∧ s'.wmin = s.wmin ∧ s'.wmax = s.wmax := by
  obtain ⟨s1, e1, I1, a1, x1, m1, M1, _⟩ := decreaseKey_spec s I id w i hl hk hw1 hw2
  obtain ⟨s2, e2, I2, a2, x2, m2, M2⟩ := setData_spec s1 I1 id d i (by rw [x1]; exact hl)
  refine ⟨s2, ?_, I2, by rw [a2, a1], by rw [x2, x1], by rw [m2, m1], by rw [M2, M1]⟩
  unfold decreaseKeyData; rw [e1]; exact e2

end Tbx.AHeap
