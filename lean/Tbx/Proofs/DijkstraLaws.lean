import Tbx.Proofs.DijkstraBasic
import Tbx.Spec.ShortestPath
/-
The queue interface the Dijkstra proofs rely on (`HeapLaws`, an explicit hypothesis, discharged for
the heap model in Tbx/Proofs/DijkstraHeapInst.lean) and the effect of one edge relaxation on the
queue's observers (`relax_spec`).
-/
namespace Tbx.Dijkstra
open Tbx Tbx.AHeap

/-- What the searches need from the queue: an invariant preserved by the queue operations and the
effect of every operation on the observers `inserted / contains / weight / data?`.
This is an explicit HYPOTHESIS of the theorems below (never an axiom); it is discharged for the
real heap model in `Tbx/Proofs/DijkstraHeapInst.lean` from C10's refinement theorems. -/
structure HeapLaws (Inv : Heap → Prop) : Prop where
  inv_init : ∀ a b : Int, Inv (init a b)
  contains_inserted : ∀ q x, Inv q → contains q x = true → inserted q x = true
  insert_ok : ∀ q id w d, Inv q → inserted q id = false → q.wmin ≤ w →
    Inv (insert q id w d) ∧
    (∀ x, inserted (insert q id w d) x = (x == id || inserted q x)) ∧
    (∀ x, contains (insert q id w d) x = (x == id || contains q x)) ∧
    (∀ x, weight (insert q id w d) x = if x = id then w else weight q x) ∧
    (∀ x, data? (insert q id w d) x = if x = id then some d else data? q x)
  decd_ok : ∀ q id w d, Inv q → contains q id = true → q.wmin ≤ w → w ≤ weight q id →
    ∃ q', decreaseKeyData q id w d = some q' ∧ Inv q' ∧
    (∀ x, inserted q' x = inserted q x) ∧
    (∀ x, contains q' x = contains q x) ∧
    (∀ x, weight q' x = if x = id then w else weight q x) ∧
    (∀ x, data? q' x = if x = id then some d else data? q x)
  delmin_ok : ∀ q, Inv q → isEmpty q = false →
    ∃ q' u, deleteMin q = some (q', u) ∧ Inv q' ∧ contains q u = true ∧
    (∀ x, contains q x = true → weight q u ≤ weight q x) ∧
    (∀ x, contains q' x = (contains q x && x != u)) ∧
    (∀ x, inserted q' x = inserted q x) ∧
    (∀ x, weight q' x = weight q x) ∧
    (∀ x, data? q' x = data? q x)
  empty_iff : ∀ q, Inv q → (isEmpty q = true ↔ ∀ x, contains q x = false)
  data_some : ∀ q x, Inv q → inserted q x = true → ∃ d, data? q x = some d
  weight_wmax : ∀ q x, Inv q → inserted q x = false → weight q x = q.wmax
  /-- at most `inserted_len` distinct ids are inserted -/
  inserted_bound : ∀ q (l : List Int), Inv q → l.Nodup → (∀ x ∈ l, inserted q x = true) → l.length ≤ insertedLen q

variable {Inv : Heap → Prop}

/-- the relaxation lowers (or creates) the label of `v` -/
def Improves (q : Heap) (v nd : Int) : Prop :=
  inserted q v = false ∨ (contains q v = true ∧ weight q v > nd)

instance (q : Heap) (v nd : Int) : Decidable (Improves q v nd) := by unfold Improves; infer_instance

/-- effect of one relaxation on the observers -/
theorem relax_spec (L : HeapLaws Inv) (q : Heap) (u d : Int) (v w : Nat) (hi : Inv q) (hw : q.wmin = 0)
    (hd : 0 ≤ d) :
    ∃ q', relax q u d v w = some q' ∧ Inv q' ∧
      (∀ x, inserted q' x = (x == (v : Int) || inserted q x)) ∧
      (∀ x, contains q' x = (contains q x || (x == (v : Int) && !inserted q (v : Int)))) ∧
      (∀ x, weight q' x = if x = (v : Int) ∧ Improves q v (d + w) then d + (w : Int) else weight q x) ∧
      (∀ x, data? q' x = if x = (v : Int) ∧ Improves q v (d + w) then some u else data? q x) := by
  rw [relax_eq]
  unfold relaxPre
  cases hins : inserted q (v : Int) with
  | false =>
    have hnd : q.wmin ≤ d + (w : Int) := by rw [hw]; omega
    obtain ⟨i1, i2, i3, i4, i5⟩ := L.insert_ok q v (d + w) u hi hins hnd
    simp only [Bool.not_false, if_true]
    have hwv : weight (insert q (v : Int) (d + w) u) (v : Int) = d + w := by rw [i4]; simp
    have hcond : (contains (insert q (v : Int) (d + w) u) (v : Int) &&
        decide (weight (insert q (v : Int) (d + w) u) (v : Int) > d + w)) = false := by
      rw [hwv]; simp
    rw [hcond]
    have himp : Improves q v (d + w) := Or.inl hins
    refine ⟨_, rfl, i1, ?_, ?_, ?_, ?_⟩
    · intro x; rw [i2]
    · intro x; rw [i3]; simp [Bool.or_comm]
    · intro x; rw [i4]; simp [himp]
    · intro x; rw [i5]; simp [himp]
  | true =>
    simp only [Bool.not_true, Bool.false_eq_true, if_false]
    by_cases hc : (contains q (v : Int) && decide (weight q (v : Int) > d + w)) = true
    · rw [if_pos hc]
      simp only [Bool.and_eq_true, decide_eq_true_eq] at hc
      obtain ⟨q', e, i1, i2, i3, i4, i5⟩ := L.decd_ok q v (d + w) u hi hc.1 (by rw [hw]; omega) (by omega)
      have himp : Improves q v (d + w) := Or.inr hc
      refine ⟨q', e, i1, ?_, ?_, ?_, ?_⟩
      · intro x; rw [i2]
        by_cases hx : x = (v : Int)
        · subst hx; simp [hins]
        · simp [hx]
      · intro x; rw [i3]; simp
      · intro x; rw [i4]; simp [himp]
      · intro x; rw [i5]; simp [himp]
    · rw [if_neg hc]
      have himp : ¬ Improves q v (d + w) := by
        intro h
        rcases h with h | h
        · rw [hins] at h; cases h
        · apply hc; simp [h.1, h.2]
      refine ⟨q, rfl, hi, ?_, ?_, ?_, ?_⟩
      · intro x
        by_cases hx : x = (v : Int)
        · subst hx; simp [hins]
        · simp [hx]
      · intro x; simp
      · intro x; simp [himp]
      · intro x; simp [himp]
end Tbx.Dijkstra
