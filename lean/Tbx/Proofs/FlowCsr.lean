import Tbx.Proofs.FlowGraph
/-
`StaticGraph::new_from_sorted_list` (model: `csr`) on a list sorted by source:
the result is well formed, the adjacency range of `u` holds exactly the list entries with source `u`,
and therefore `rOf (csr L) u v` is the sum of the capacities of the entries u→v (`capE L u v`).
Core Lean only.
-/
namespace Tbx.Flow
open Tbx

/-- sum of the capacities of all list entries `u → v` -/
def capE (L : List Edge) (u v : Nat) : Int :=
  (L.map fun e => if e.src = u ∧ e.tgt = v then e.cap else 0).sum

def sumIdx (f : Nat → Int) : Nat → Nat → Int
  | _, 0 => 0
  | e, k + 1 => f e + sumIdx f (e + 1) k

theorem rowSum_eq_sumIdx (g : Graph) (v : Nat) (k : Nat) : ∀ e,
    rowSum g v e k = sumIdx (fun x => if gt g.tgt x = v then gt g.cap x else 0) e k := by
  induction k with
  | zero => intro e; rfl
  | succ k ih => intro e; simp only [rowSum, sumIdx]; rw [ih]

theorem sumIdx_add (f : Nat → Int) (k1 k2 : Nat) : ∀ e,
    sumIdx f e (k1 + k2) = sumIdx f e k1 + sumIdx f (e + k1) k2 := by
  induction k1 with
  | zero => intro e; simp [sumIdx]
  | succ k1 ih =>
    intro e
    have : k1 + 1 + k2 = (k1 + k2) + 1 := by omega
    rw [this]; simp only [sumIdx]; rw [ih (e + 1)]
    have : e + 1 + k1 = e + (k1 + 1) := by omega
    rw [this]; omega

theorem sumIdx_zero (f : Nat → Int) (k : Nat) : ∀ e, (∀ x, e ≤ x → x < e + k → f x = 0) → sumIdx f e k = 0 := by
  induction k with
  | zero => intro e _; rfl
  | succ k ih =>
    intro e h
    simp only [sumIdx]
    rw [h e (Nat.le_refl _) (by omega), ih (e + 1) (fun x h1 h2 => h x (by omega) (by omega))]; rfl

theorem sumIdx_congr (f f' : Nat → Int) (k : Nat) : ∀ e, (∀ x, e ≤ x → x < e + k → f x = f' x) →
    sumIdx f e k = sumIdx f' e k := by
  induction k with
  | zero => intro e _; rfl
  | succ k ih =>
    intro e h
    simp only [sumIdx]
    rw [h e (Nat.le_refl _) (by omega), ih (e + 1) (fun x h1 h2 => h x (by omega) (by omega))]

theorem sumIdx_shift (f : Nat → Int) (k : Nat) : ∀ e, sumIdx f (e + 1) k = sumIdx (fun x => f (x + 1)) e k := by
  induction k with
  | zero => intro e; rfl
  | succ k ih => intro e; simp only [sumIdx]; rw [ih]

theorem list_sum_eq_sumIdx (L : List Edge) (h : Edge → Int) :
    (L.map h).sum = sumIdx (fun x => h (L.getD x default)) 0 L.length := by
  induction L with
  | nil => rfl
  | cons a L ih =>
    simp only [List.map_cons, List.sum_cons, List.length_cons, sumIdx]
    rw [sumIdx_shift, ih]
    simp

/-! ### `advance` / `buildNodes` -/

/-- sorted by source, index-wise -/
def SrcSortedA (inp : Array Edge) : Prop :=
  ∀ j1 j2, j1 ≤ j2 → j2 < inp.size → (gt inp j1).src ≤ (gt inp j2).src

/-- `off` is the number of entries with source `< i` (they form a prefix) -/
def OffInv (inp : Array Edge) (i off : Nat) : Prop :=
  off ≤ inp.size ∧ ∀ j, j < inp.size → (j < off ↔ (gt inp j).src < i)

theorem advance_spec (inp : Array Edge) (i : Nat) (fuel : Nat) : ∀ off, inp.size - off ≤ fuel → off ≤ inp.size →
    off ≤ advance inp i fuel off ∧ advance inp i fuel off ≤ inp.size ∧
    (∀ j, off ≤ j → j < advance inp i fuel off → (gt inp j).src = i) ∧
    (advance inp i fuel off < inp.size → (gt inp (advance inp i fuel off)).src ≠ i) := by
  induction fuel with
  | zero =>
    intro off hf ho
    simp only [advance]
    exact ⟨Nat.le_refl _, ho, fun j h1 h2 => by omega, fun h => by omega⟩
  | succ fuel ih =>
    intro off hf ho
    simp only [advance]
    split
    · rename_i hc
      obtain ⟨a, b, c, d⟩ := ih (off + 1) (by omega) (by omega)
      refine ⟨by omega, b, ?_, d⟩
      intro j h1 h2
      by_cases hj : j = off
      · subst hj; exact hc.2
      · exact c j (by omega) h2
    · rename_i hc
      refine ⟨Nat.le_refl _, ho, fun j h1 h2 => by omega, ?_⟩
      intro hlt he
      exact hc ⟨by omega, he⟩

theorem advance_inv (inp : Array Edge) (hs : SrcSortedA inp) (i off : Nat) (h : OffInv inp i off) :
    OffInv inp (i + 1) (advance inp i (inp.size - off) off) := by
  obtain ⟨a, b, c, d⟩ := advance_spec inp i (inp.size - off) off (Nat.le_refl _) h.1
  refine ⟨b, ?_⟩
  intro j hj
  constructor
  · intro hlt
    by_cases h1 : j < off
    · have := (h.2 j hj).mp h1; omega
    · have := c j (by omega) hlt; omega
  · intro hsrc
    by_cases h1 : (gt inp j).src < i
    · have := (h.2 j hj).mpr h1; omega
    · have hji : (gt inp j).src = i := by omega
      rcases Nat.lt_or_ge j (advance inp i (inp.size - off) off) with h2 | h2
      · exact h2
      · exfalso
        have hlt : advance inp i (inp.size - off) off < inp.size := by omega
        have hne := d hlt
        have hge : ¬ (gt inp (advance inp i (inp.size - off) off)).src < i := by
          intro hh
          have := (h.2 _ hlt).mpr hh; omega
        have := hs _ j h2 hj
        omega

theorem buildNodes_spec (inp : Array Edge) (hs : SrcSortedA inp) (k : Nat) : ∀ (i off : Nat) (acc : Array Nat),
    acc.size = i + 1 → gt acc i = off → (∀ j, j ≤ i → OffInv inp j (gt acc j)) →
    (buildNodes inp k i off acc).size = i + 1 + k ∧
    ∀ j, j ≤ i + k → OffInv inp j (gt (buildNodes inp k i off acc) j) := by
  induction k with
  | zero => intro i off acc h1 _ h3; simp only [buildNodes]; exact ⟨by omega, fun j hj => h3 j (by omega)⟩
  | succ k ih =>
    intro i off acc h1 h2 h3
    simp only [buildNodes]
    have hoff : OffInv inp i off := h2 ▸ h3 i (Nat.le_refl _)
    have hnew := advance_inv inp hs i off hoff
    obtain ⟨a, b⟩ := ih (i + 1) (advance inp i (inp.size - off) off)
      (acc.push (advance inp i (inp.size - off) off)) (by simp [h1])
      (by rw [← h1]; exact gt_push_eq _ _)
      (by
        intro j hj
        by_cases hji : j = i + 1
        · subst hji; rw [← h1, gt_push_eq]; rw [h1]; exact hnew
        · rw [gt_push_lt _ _ _ (by omega)]; exact h3 j (by omega))
    exact ⟨by omega, fun j hj => b j (by omega)⟩

/-! ### `maxId` -/

theorem foldl_max_ge (L : List Edge) : ∀ m0, m0 ≤ L.foldl (fun m e => max e.tgt (max e.src m)) m0 ∧
    ∀ e, e ∈ L → e.src ≤ L.foldl (fun m e => max e.tgt (max e.src m)) m0 ∧
                 e.tgt ≤ L.foldl (fun m e => max e.tgt (max e.src m)) m0 := by
  induction L with
  | nil => intro m0; exact ⟨Nat.le_refl _, fun e h => by cases h⟩
  | cons a L ih =>
    intro m0
    simp only [List.foldl_cons]
    obtain ⟨h1, h2⟩ := ih (max a.tgt (max a.src m0))
    refine ⟨by omega, ?_⟩
    intro e he
    rcases List.mem_cons.mp he with rfl | h
    · omega
    · exact h2 e h

theorem le_maxId (L : List Edge) (e : Edge) (he : e ∈ L) : e.src ≤ maxId L ∧ e.tgt ≤ maxId L :=
  (foldl_max_ge L 0).2 e he

/-- the fold reaches one of the ids (or stays at its start value) -/
theorem foldl_max_attained (L : List Edge) : ∀ m0,
    L.foldl (fun m e => max e.tgt (max e.src m)) m0 = m0 ∨
    ∃ e, e ∈ L ∧ (e.src = L.foldl (fun m e => max e.tgt (max e.src m)) m0 ∨
                  e.tgt = L.foldl (fun m e => max e.tgt (max e.src m)) m0) := by
  induction L with
  | nil => intro m0; exact Or.inl rfl
  | cons a L ih =>
    intro m0
    simp only [List.foldl_cons]
    rcases ih (max a.tgt (max a.src m0)) with h | ⟨e, he, h⟩
    · rw [h]
      by_cases h1 : max a.tgt (max a.src m0) = m0
      · exact Or.inl h1
      · right; refine ⟨a, List.mem_cons_self, ?_⟩; omega
    · exact Or.inr ⟨e, List.mem_cons_of_mem _ he, h⟩

/-! ### the CSR graph of a source-sorted list -/

theorem gt_toArray (L : List Edge) (j : Nat) : gt L.toArray j = L.getD j default := by
  unfold gt; simp [Array.getD_eq_getD_getElem?, List.getD_eq_getElem?_getD]

theorem gt_map_tgt (L : List Edge) (j : Nat) (hj : j < L.length) :
    gt (L.toArray.map (·.tgt)) j = (L.getD j default).tgt := by
  unfold gt; simp [Array.getD_eq_getD_getElem?, List.getD_eq_getElem?_getD, hj]

theorem gt_map_cap (L : List Edge) (j : Nat) (hj : j < L.length) :
    gt (L.toArray.map (·.cap)) j = (L.getD j default).cap := by
  unfold gt; simp [Array.getD_eq_getD_getElem?, List.getD_eq_getElem?_getD, hj]

theorem getD_mem (L : List Edge) (j : Nat) (hj : j < L.length) : L.getD j default ∈ L := by
  rw [List.getD_eq_getElem?_getD, List.getElem?_eq_getElem hj]; exact List.getElem_mem hj

/-- source-sortedness as a list predicate -/
def SrcSorted (L : List Edge) : Prop := L.Pairwise fun a b => a.src ≤ b.src

theorem srcSortedA_of (L : List Edge) (h : SrcSorted L) : SrcSortedA L.toArray := by
  intro j1 j2 h12 hj2
  rw [gt_toArray, gt_toArray]
  have hj2' : j2 < L.length := by simpa using hj2
  rcases Nat.lt_or_ge j1 j2 with hlt | hge
  · have := (List.pairwise_iff_getElem.mp h) j1 j2 (by omega) hj2' hlt
    simp only [List.getD_eq_getElem?_getD, List.getElem?_eq_getElem hj2',
      List.getElem?_eq_getElem (show j1 < L.length by omega), Option.getD_some]
    exact this
  · have : j1 = j2 := by omega
    subst this; exact Nat.le_refl _

theorem csr_first (L : List Edge) (hs : SrcSorted L) :
    (csr L).first.size = maxId L + 2 ∧
    ∀ j, j ≤ maxId L + 1 → OffInv L.toArray j (gt (csr L).first j) := by
  have hsA := srcSortedA_of L hs
  have h0 : OffInv L.toArray 0 (gt (#[0] : Array Nat) 0) := by
    refine ⟨by show (0:Nat) ≤ _; omega, ?_⟩
    intro j _
    show j < 0 ↔ _
    constructor <;> intro h <;> omega
  obtain ⟨a, b⟩ := buildNodes_spec L.toArray hsA (maxId L) 0 0 #[0] rfl rfl
    (fun j hj => by have : j = 0 := by omega
                    subst this; exact h0)
  have hsz : (csr L).first.size = maxId L + 2 := by
    show ((buildNodes L.toArray (maxId L) 0 0 #[0]).push L.toArray.size).size = _
    rw [Array.size_push, a]; omega
  refine ⟨hsz, ?_⟩
  intro j hj
  show OffInv L.toArray j (gt ((buildNodes L.toArray (maxId L) 0 0 #[0]).push L.toArray.size) j)
  by_cases hjl : j = maxId L + 1
  · subst hjl
    have hsz' : (buildNodes L.toArray (maxId L) 0 0 #[0]).size = maxId L + 1 := by rw [a]; omega
    have hb := gt_push_eq (buildNodes L.toArray (maxId L) 0 0 #[0]) L.toArray.size
    rw [hsz'] at hb
    rw [hb]
    refine ⟨Nat.le_refl _, ?_⟩
    intro j hj'
    have hjl : j < L.length := by simpa using hj'
    have := (le_maxId L _ (getD_mem L j hjl)).1
    rw [gt_toArray]
    constructor
    · intro _; omega
    · intro _; exact hj'
  · rw [gt_push_lt _ _ _ (by rw [a]; omega)]
    have := b j (by omega)
    simpa using this

theorem csr_numNodes (L : List Edge) (hs : SrcSorted L) : (csr L).numNodes = maxId L + 1 := by
  unfold Graph.numNodes; rw [(csr_first L hs).1]; omega

/-- an index lies in the range of `u` iff its entry has source `u` -/
theorem csr_inRange (L : List Edge) (hs : SrcSorted L) (u e : Nat) (hu : u ≤ maxId L) :
    InRange (csr L) u e ↔ e < L.length ∧ (L.getD e default).src = u := by
  obtain ⟨_, hf⟩ := csr_first L hs
  have h1 := hf u (by omega)
  have h2 := hf (u + 1) (by omega)
  have hsz : L.toArray.size = L.length := by simp
  unfold InRange Graph.deg Graph.beginEdges Graph.endEdges
  constructor
  · intro ⟨a, b⟩
    have hlt : e < gt (csr L).first (u + 1) := by omega
    have hel : e < L.length := by have := h2.1; omega
    refine ⟨hel, ?_⟩
    have i1 := (h1.2 e (by omega))
    have i2 := (h2.2 e (by omega))
    rw [gt_toArray] at i1 i2
    have := i2.mp hlt
    have : ¬ (L.getD e default).src < u := fun hh => by have := i1.mpr hh; omega
    omega
  · intro ⟨hel, hsrc⟩
    have i1 := (h1.2 e (by omega))
    have i2 := (h2.2 e (by omega))
    rw [gt_toArray] at i1 i2
    have a : gt (csr L).first u ≤ e := by
      rcases Nat.lt_or_ge e (gt (csr L).first u) with hh | hh
      · have := i1.mp hh; omega
      · exact hh
    have b : e < gt (csr L).first (u + 1) := i2.mpr (by omega)
    omega

theorem csr_wf (L : List Edge) (hs : SrcSorted L) : WF (csr L) := by
  obtain ⟨hsz, hf⟩ := csr_first L hs
  have hnn := csr_numNodes L hs
  have hlen : L.toArray.size = L.length := by simp
  refine ⟨by omega, ?_, ?_, ?_, ?_⟩
  · intro i hi
    rw [hnn] at hi
    have h1 := hf i (by omega)
    have h2 := hf (i + 1) (by omega)
    rcases Nat.lt_or_ge (gt (csr L).first (i + 1)) (gt (csr L).first i) with hlt | hge
    · exfalso
      have hlt2 : gt (csr L).first (i + 1) < L.toArray.size := by have := h1.1; omega
      have := (h1.2 _ hlt2).mp hlt
      have := (h2.2 _ hlt2).mpr (by omega)
      omega
    · exact hge
  · rw [hnn]
    have h := hf (maxId L + 1) (Nat.le_refl _)
    show gt (csr L).first (maxId L + 1) = (L.toArray.map (·.tgt)).size
    rw [Array.size_map]
    rcases Nat.lt_or_ge (gt (csr L).first (maxId L + 1)) L.toArray.size with hlt | hge
    · exfalso
      have hl : gt (csr L).first (maxId L + 1) < L.length := by omega
      have := (le_maxId L _ (getD_mem L _ hl)).1
      have h3 := (h.2 _ hlt).mpr (by rw [gt_toArray]; omega)
      omega
    · have := h.1; omega
  · show (L.toArray.map (·.cap)).size = (L.toArray.map (·.tgt)).size
    simp
  · intro e he
    have hel : e < L.length := by
      have : (csr L).tgt.size = L.length := by show (L.toArray.map (·.tgt)).size = _; simp
      omega
    show gt (L.toArray.map (·.tgt)) e < _
    rw [gt_map_tgt L e hel, hnn]
    have := (le_maxId L _ (getD_mem L e hel)).2
    omega

/-- **merge_cap, CSR part**: the pair residual of the CSR graph is the sum over the list entries -/
theorem csr_rOf (L : List Edge) (hs : SrcSorted L) (u v : Nat) : rOf (csr L) u v = capE L u v := by
  have hwf := csr_wf L hs
  have hnn := csr_numNodes L hs
  have htsz : (csr L).tgt.size = L.length := by show (L.toArray.map (·.tgt)).size = _; simp
  unfold capE
  rw [list_sum_eq_sumIdx]
  by_cases hu : u ≤ maxId L
  · have hun : u < (csr L).numNodes := by omega
    -- split [0, length) into before / range / after
    have hb : (csr L).beginEdges u ≤ L.length := by
      have := hwf.mono_le u (csr L).numNodes (by omega) (Nat.le_refl _)
      rw [hwf.last, htsz] at this; exact this
    have he : (csr L).beginEdges u + (csr L).deg u ≤ L.length := by
      rw [hwf.end_eq u hun]; have := hwf.end_le u hun; omega
    have hsplit : L.length = (csr L).beginEdges u + ((csr L).deg u +
        (L.length - ((csr L).beginEdges u + (csr L).deg u))) := by omega
    rw [hsplit, sumIdx_add, sumIdx_add]
    rw [sumIdx_zero _ _ 0, sumIdx_zero _ _ (0 + (csr L).beginEdges u + (csr L).deg u)]
    · unfold rOf; rw [rowSum_eq_sumIdx]
      simp only [Nat.zero_add, Int.zero_add, Int.add_zero]
      apply sumIdx_congr
      intro x h1 h2
      have hr : InRange (csr L) u x := ⟨h1, h2⟩
      obtain ⟨hxl, hxs⟩ := (csr_inRange L hs u x hu).mp hr
      show (if gt (L.toArray.map (·.tgt)) x = v then gt (L.toArray.map (·.cap)) x else 0) = _
      rw [gt_map_tgt L x hxl, gt_map_cap L x hxl]
      by_cases hv : (L.getD x default).tgt = v
      · rw [if_pos hv, if_pos ⟨hxs, hv⟩]
      · rw [if_neg hv, if_neg (fun h => hv h.2)]
    · intro x h1 h2
      have : ¬ InRange (csr L) u x := fun hr => by unfold InRange at hr; omega
      by_cases hxl : x < L.length
      · have : ¬ (L.getD x default).src = u := fun hh => this ((csr_inRange L hs u x hu).mpr ⟨hxl, hh⟩)
        rw [if_neg (fun h => this h.1)]
      · omega
    · intro x h1 h2
      have : ¬ InRange (csr L) u x := fun hr => by unfold InRange at hr; omega
      have hxl : x < L.length := by omega
      have : ¬ (L.getD x default).src = u := fun hh => this ((csr_inRange L hs u x hu).mpr ⟨hxl, hh⟩)
      rw [if_neg (fun h => this h.1)]
  · have hd := hwf.deg_zero_of_ge u (by omega)
    unfold rOf; rw [hd]
    simp only [rowSum]
    symm
    apply sumIdx_zero
    intro x _ hx
    have hxl : x < L.length := by omega
    have := (le_maxId L _ (getD_mem L x hxl)).1
    rw [if_neg (fun h => by omega)]

end Tbx.Flow
