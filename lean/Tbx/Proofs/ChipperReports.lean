import Tbx.Proofs.ChipperHier
/-
Reports and levels.

  cutEdges_iff / cutRows_eq / assignmentRows_eq      the two CSV writers against `Tbx.Hierarchy.expectedCut` /
                                                    `expectedAssignment` (C05 `reports_consistent`)
  specSides_length                                  if every reached cell is split and every cell node has an
                                                    outgoing edge in its job, a node's side list has length d
                                                    (C05 `level_exact`)
-/
namespace Tbx.Chipper
open Tbx Tbx.Gen Tbx.InertialFlow Tbx.Hierarchy

theorem gt_eq_getD (pid : Array Nat) (i : Nat) : gt pid i = pid.toList.getD i 0 := by
  simp [gt, Array.getD_eq_getD_getElem?, List.getD_eq_getElem?_getD]

theorem cutEdges_iff (edges : List Edge) (pid : Array Nat) (e : Edge) :
    e ∈ cutEdges edges pid ↔ e ∈ edges ∧ gt pid e.1 ≠ gt pid e.2 := by
  simp [cutEdges, List.mem_filter]

theorem cutEdges_sublist (edges : List Edge) (pid : Array Nat) : (cutEdges edges pid).Sublist edges :=
  List.filter_sublist

def pairOf (c : Coord) : Int × Int := (c.lat, c.lon)

theorem cutRows_eq (edges : List Edge) (pid : Array Nat) (coord : Nat → Coord) :
    (cutRows edges pid coord).map (fun r => (pairOf r.1, pairOf r.2)) =
      expectedCut edges pid.toList (fun i => pairOf (coord i)) := by
  unfold cutRows cutEdges expectedCut
  rw [List.map_map]
  have : (edges.filter fun e => gt pid e.1 != gt pid e.2) =
      (edges.filter fun e => pid.toList.getD e.1 0 != pid.toList.getD e.2 0) := by
    apply List.filter_congr
    intro e _
    rw [gt_eq_getD, gt_eq_getD]
  rw [this]
  rfl

theorem assignmentRows_eq (pid : Array Nat) (coord : Nat → Coord) :
    (assignmentRows pid coord).map (fun r => (r.1, (pairOf r.2).1, (pairOf r.2).2)) =
      expectedAssignment pid.toList (fun i => pairOf (coord i)) := by
  unfold assignmentRows expectedAssignment
  rw [List.map_map]
  simp only [Array.length_toList]
  apply List.map_congr_left
  intro i _
  simp [gt_eq_getD, pairOf]

/-! ### levels -/

/-- every node of the job is the source of one of its edges -/
def JobFull (job : Job) : Prop := ∀ x ∈ job.ids, ∃ e ∈ job.edges, e.1 = x

theorem subJob_full {job : Job} {side : List Nat} (hfull : JobFull job) (hsub : ∀ x ∈ side, x ∈ job.ids) :
    JobFull (subJob job side) := by
  intro x hx
  obtain ⟨e, he, rfl⟩ := hfull x (hsub x hx)
  refine ⟨e, ?_, rfl⟩
  unfold subJob
  exact List.mem_filter.mpr ⟨he, List.contains_iff_mem.mpr hx⟩

theorem specSides_length (cfg : Cfg) (B : Job → Best) (n : Nat) (hm : 1 ≤ cfg.m)
    (hbest : BestOK n (fun _ _ => B))
    (hfin : ∀ job, JobOK n job → JobFull job → ∃ res, B job = .some res) :
    ∀ (d : Nat) (job : Job) (x : Nat), JobOK n job → JobFull job → x ∈ job.ids →
      (specSides (specBest B) cfg.m d (cellOf job) x).length = d := by
  intro d
  induction d with
  | zero => intro job x _ _ _; simp [specSides]
  | succ d ih =>
    intro job x hjob hfull hx
    rw [specSides_succ]
    obtain ⟨res, hb⟩ := hfin job hjob hfull
    rw [hb]
    simp only []
    have hres := hbest 0 0 job res hjob hb
    obtain ⟨hndL, hndR, _⟩ := List.nodup_append.mp hres.nodup
    have hcov : x ∈ res.left ++ res.right := by
      obtain ⟨e, he, rfl⟩ := hfull x hx
      exact hres.cover e he
    by_cases hxL : x ∈ res.left
    · have hcL : res.left.contains x = true := List.contains_iff_mem.mpr hxL
      simp only [hcL, if_true, List.length_cons]
      by_cases hl : res.left.length > cfg.m
      · simp only [hl, if_true]
        have hsub : ∀ y ∈ res.left, y ∈ job.ids := fun y hy => hres.sub y (List.mem_append_left _ hy)
        rw [ih (subJob job res.left) x (subJob_ok hjob hndL hsub (by omega)) (subJob_full hfull hsub) hxL]
      · simp [hl]
    · have hxR : x ∈ res.right := by
        rcases List.mem_append.mp hcov with h | h
        · exact absurd h hxL
        · exact h
      have hcL : res.left.contains x = false := by
        cases hc : res.left.contains x with
        | false => rfl
        | true => exact absurd (List.contains_iff_mem.mp hc) hxL
      have hcR : res.right.contains x = true := List.contains_iff_mem.mpr hxR
      simp only [hcL, hcR, if_true, List.length_cons, Bool.false_eq_true, if_false]
      by_cases hr : res.right.length > cfg.m
      · simp only [hr, if_true]
        have hsub : ∀ y ∈ res.right, y ∈ job.ids := fun y hy => hres.sub y (List.mem_append_right _ hy)
        rw [ih (subJob job res.right) x (subJob_ok hjob hndR hsub (by omega)) (subJob_full hfull hsub) hxR]
      · simp [hr]

end Tbx.Chipper
