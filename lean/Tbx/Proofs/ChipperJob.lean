import Tbx.Model.Chipper
import Tbx.Proofs.ChipperIds
/-
One job of chipper: what `processJob` does to the id array and which jobs it creates, as pure functions of the
bisection result (`newId`, `children`), under the conditions the inertial-flow step guarantees (`ResOK`).

  mapAt lemmas        ids outside the list are untouched, ids inside (no duplicates, in range) get `f`
  JobOK n job         the cell's ids are distinct, in range, at least two, every edge source is a cell id, and the
                      edge list is far below usize::MAX
  ResOK job res       left ++ right has no duplicates, lies inside the cell, and contains every edge source
  processJob_spec     size kept; id of x becomes `newId … x (old id)`; next jobs = `children`
  children_ok / children_disj / children_sub
-/
namespace Tbx.Chipper
open Tbx Tbx.Gen Tbx.InertialFlow Tbx.Props.GenFns

/-! ### mapAt -/

@[simp] theorem size_mapAt (f : Nat → Nat) (pid : Array Nat) (ids : List Nat) :
    (mapAt f pid ids).size = pid.size := by
  induction ids generalizing pid with
  | nil => rfl
  | cons i rest ih => simp [mapAt, ih]

theorem gt_mapAt_not_mem (f : Nat → Nat) (pid : Array Nat) (ids : List Nat) (x : Nat) (h : x ∉ ids) :
    gt (mapAt f pid ids) x = gt pid x := by
  induction ids generalizing pid with
  | nil => rfl
  | cons i rest ih =>
    simp only [mapAt]
    rw [ih _ (fun hh => h (List.mem_cons_of_mem _ hh)), gt_st_ne]
    intro e; exact h (e ▸ List.mem_cons_self)

theorem gt_mapAt_mem (f : Nat → Nat) (pid : Array Nat) (ids : List Nat) (x : Nat)
    (hnd : ids.Nodup) (h : x ∈ ids) (hx : x < pid.size) :
    gt (mapAt f pid ids) x = f (gt pid x) := by
  induction ids generalizing pid with
  | nil => cases h
  | cons i rest ih =>
    simp only [mapAt]
    have hnd' := List.nodup_cons.mp hnd
    rcases List.mem_cons.mp h with rfl | hr
    · rw [gt_mapAt_not_mem _ _ _ _ hnd'.1, gt_st_eq _ _ _ hx]
    · have hne : i ≠ x := fun e => hnd'.1 (e ▸ hr)
      rw [ih _ hnd'.2 hr (by simpa using hx), gt_st_ne _ _ _ _ hne]

/-! ### conditions -/

/-- a well-formed job for a graph of `n` nodes -/
structure JobOK (n : Nat) (job : Job) : Prop where
  nodup : job.ids.Nodup
  lt    : ∀ x ∈ job.ids, x < n
  two   : 2 ≤ job.ids.length
  src   : ∀ e ∈ job.edges, e.1 ∈ job.ids
  small : 2 * job.edges.length + 6 < Tbx.Flow.INV     -- the solver's node ids stay below usize::MAX

/-- what chipper needs from a bisection result of `job` -/
structure ResOK (job : Job) (res : FlowRes) : Prop where
  nodup : (res.left ++ res.right).Nodup
  sub   : ∀ x ∈ res.left ++ res.right, x ∈ job.ids
  cover : ∀ e ∈ job.edges, e.1 ∈ res.left ++ res.right

/-! ### one job as pure functions -/

/-- the id of node `x` after the job was processed, from its id before -/
def newId (cfg : Cfg) (lvl : Nat) (res : FlowRes) (x old : Nat) : Nat :=
  if x ∈ res.left then
    if res.left.length > cfg.m then pidMakeLeftChild old
    else pidLeftmostDescendant (pidMakeLeftChild old) (cfg.r - lvl - 1)
  else if x ∈ res.right then
    if res.right.length > cfg.m then pidMakeRightChild old
    else pidRightmostDescendant (pidMakeRightChild old) (cfg.r - lvl - 1)
  else old

/-- the sub-job of one side: the edges whose source lies in it, and its ids -/
def subJob (job : Job) (side : List Nat) : Job :=
  { edges := job.edges.filter fun e => side.contains e.1, ids := side }

/-- the jobs created for the next level -/
def children (cfg : Cfg) (job : Job) (res : FlowRes) : List Job :=
  (if res.left.length > cfg.m then [subJob job res.left] else []) ++
  (if res.right.length > cfg.m then [subJob job res.right] else [])

theorem newId_of_not_mem (cfg : Cfg) (lvl : Nat) (res : FlowRes) (x old : Nat)
    (h : x ∉ res.left ++ res.right) : newId cfg lvl res x old = old := by
  have h1 : x ∉ res.left := fun hh => h (List.mem_append_left _ hh)
  have h2 : x ∉ res.right := fun hh => h (List.mem_append_right _ hh)
  simp [newId, h1, h2]

theorem isLeft_makeLeft (x : Nat) : pidIsLeftChild (pidMakeLeftChild x) = true := by
  rw [make_left_child_eq]; exact (left_child_is_left x).1

theorem isLeft_makeRight (x : Nat) : pidIsLeftChild (pidMakeRightChild x) = false := by
  rw [make_right_child_eq]; exact (right_child_is_right x).2

theorem processJob_spec (cfg : Cfg) (lvl : Nat) (pid : Array Nat) (job : Job) (res : FlowRes)
    (hres : ResOK job res) (hlt : ∀ x ∈ res.left ++ res.right, x < pid.size) :
    (processJob cfg lvl pid job res).1.size = pid.size ∧
    (∀ x, gt (processJob cfg lvl pid job res).1 x = newId cfg lvl res x (gt pid x)) ∧
    (processJob cfg lvl pid job res).2 = children cfg job res := by
  obtain ⟨hndL, hndR, hdisj⟩ := List.nodup_append.mp hres.nodup
  have hltL : ∀ x ∈ res.left, x < pid.size := fun x hx => hlt x (List.mem_append_left _ hx)
  have hltR : ∀ x ∈ res.right, x < pid.size := fun x hx => hlt x (List.mem_append_right _ hx)
  have hLR : ∀ x, x ∈ res.left → x ∉ res.right := fun x h1 h2 => hdisj x h1 x h2 rfl
  -- ids after the two child loops
  let pid1 := mapAt pidMakeLeftChild pid res.left
  let pid2 := mapAt pidMakeRightChild pid1 res.right
  have h2L : ∀ x ∈ res.left, gt pid2 x = pidMakeLeftChild (gt pid x) := by
    intro x hx
    show gt (mapAt pidMakeRightChild pid1 res.right) x = _
    rw [gt_mapAt_not_mem _ _ _ _ (hLR x hx)]
    exact gt_mapAt_mem _ _ _ _ hndL hx (hltL x hx)
  have h2R : ∀ x ∈ res.right, gt pid2 x = pidMakeRightChild (gt pid x) := by
    intro x hx
    show gt (mapAt pidMakeRightChild pid1 res.right) x = _
    rw [gt_mapAt_mem _ _ _ _ hndR hx (by simpa [pid1] using hltR x hx)]
    congr 1
    exact gt_mapAt_not_mem _ _ _ _ (fun h => hLR x h hx)
  have h2N : ∀ x, x ∉ res.left → x ∉ res.right → gt pid2 x = gt pid x := by
    intro x h1 h2
    show gt (mapAt pidMakeRightChild pid1 res.right) x = _
    rw [gt_mapAt_not_mem _ _ _ _ h2]
    exact gt_mapAt_not_mem _ _ _ _ h1
  -- the edge split
  have hEL : job.edges.filter (fun e => pidIsLeftChild (gt pid2 e.1)) =
      job.edges.filter (fun e => res.left.contains e.1) := by
    apply List.filter_congr
    intro e he
    rcases List.mem_append.mp (hres.cover e he) with h | h
    · rw [h2L _ h, isLeft_makeLeft]; exact (List.contains_iff_mem.mpr h).symm
    · rw [h2R _ h, isLeft_makeRight]
      have : ¬ e.1 ∈ res.left := fun hh => hLR _ hh h
      simp [this]
  have hER : job.edges.filter (fun e => !pidIsLeftChild (gt pid2 e.1)) =
      job.edges.filter (fun e => res.right.contains e.1) := by
    apply List.filter_congr
    intro e he
    rcases List.mem_append.mp (hres.cover e he) with h | h
    · rw [h2L _ h, isLeft_makeLeft]
      have : ¬ e.1 ∈ res.right := hLR _ h
      simp [this]
    · rw [h2R _ h, isLeft_makeRight]; simp [h]
  unfold processJob
  simp only []
  rw [hEL, hER]
  by_cases hl : res.left.length > cfg.m <;> by_cases hr : res.right.length > cfg.m
  all_goals simp only [hl, hr, if_true, if_false]
  all_goals refine ⟨by simp, ?_, by simp [children, subJob, hl, hr]⟩
  all_goals intro x
  all_goals unfold newId
  all_goals by_cases hxL : x ∈ res.left
  all_goals (try have hxR : x ∉ res.right := hLR x hxL)
  · simp only [hxL, if_true, hl]; exact h2L x hxL
  · by_cases hxR : x ∈ res.right
    · simp only [hxL, hxR, if_true, if_false, hr]; exact h2R x hxR
    · simp only [hxL, hxR, if_false]; exact h2N x hxL hxR
  · simp only [hxL, if_true, hl]
    rw [gt_mapAt_not_mem _ _ _ _ hxR]; exact h2L x hxL
  · by_cases hxR : x ∈ res.right
    · simp only [hxL, hxR, if_true, if_false, hr]
      rw [gt_mapAt_mem _ _ _ _ hndR hxR (by simpa [pid1, pid2] using hltR x hxR)]
      congr 1; exact h2R x hxR
    · simp only [hxL, hxR, if_false]
      rw [gt_mapAt_not_mem _ _ _ _ hxR]; exact h2N x hxL hxR
  · simp only [hxL, if_true, hl, if_false]
    rw [gt_mapAt_mem _ _ _ _ hndL hxL (by simpa [pid1, pid2] using hltL x hxL)]
    congr 1; exact h2L x hxL
  · by_cases hxR : x ∈ res.right
    · simp only [hxL, hxR, if_true, if_false, hr]
      rw [gt_mapAt_not_mem _ _ _ _ hxL]; exact h2R x hxR
    · simp only [hxL, hxR, if_false]
      rw [gt_mapAt_not_mem _ _ _ _ hxL]; exact h2N x hxL hxR
  · simp only [hxL, if_true, hl, if_false]
    rw [gt_mapAt_not_mem _ _ _ _ hxR, gt_mapAt_mem _ _ _ _ hndL hxL (by simpa [pid1, pid2] using hltL x hxL)]
    congr 1; exact h2L x hxL
  · by_cases hxR : x ∈ res.right
    · simp only [hxL, hxR, if_true, if_false, hr]
      rw [gt_mapAt_mem _ _ _ _ hndR hxR (by simpa [pid1, pid2] using hltR x hxR), gt_mapAt_not_mem _ _ _ _ hxL]
      congr 1; exact h2R x hxR
    · simp only [hxL, hxR, if_false]
      rw [gt_mapAt_not_mem _ _ _ _ hxR, gt_mapAt_not_mem _ _ _ _ hxL]; exact h2N x hxL hxR

/-! ### the children of a well-formed job -/

theorem subJob_ok {n : Nat} {job : Job} {side : List Nat} (hjob : JobOK n job)
    (hnd : side.Nodup) (hsub : ∀ x ∈ side, x ∈ job.ids) (htwo : 2 ≤ side.length) :
    JobOK n (subJob job side) where
  nodup := hnd
  lt := fun x hx => hjob.lt x (hsub x hx)
  two := htwo
  src := by
    intro e he
    have := (List.mem_filter.mp he).2
    exact List.contains_iff_mem.mp this
  small := by
    have h1 : (subJob job side).edges.length ≤ job.edges.length := List.length_filter_le _ _
    have h2 := hjob.small
    omega

theorem children_ok {n : Nat} {cfg : Cfg} {job : Job} {res : FlowRes} (hm : 1 ≤ cfg.m)
    (hjob : JobOK n job) (hres : ResOK job res) :
    ∀ c ∈ children cfg job res, JobOK n c ∧ (∀ x ∈ c.ids, x ∈ job.ids) ∧
      (c = subJob job res.left ∧ res.left.length > cfg.m ∨ c = subJob job res.right ∧ res.right.length > cfg.m) := by
  obtain ⟨hndL, hndR, _⟩ := List.nodup_append.mp hres.nodup
  intro c hc
  unfold children at hc
  rcases List.mem_append.mp hc with h | h
  · by_cases hl : res.left.length > cfg.m
    · simp only [hl, if_true, List.mem_singleton] at h
      subst h
      have hsub : ∀ x ∈ res.left, x ∈ job.ids := fun x hx => hres.sub x (List.mem_append_left _ hx)
      exact ⟨subJob_ok hjob hndL hsub (by omega), hsub, Or.inl ⟨rfl, hl⟩⟩
    · simp [hl] at h
  · by_cases hr : res.right.length > cfg.m
    · simp only [hr, if_true, List.mem_singleton] at h
      subst h
      have hsub : ∀ x ∈ res.right, x ∈ job.ids := fun x hx => hres.sub x (List.mem_append_right _ hx)
      exact ⟨subJob_ok hjob hndR hsub (by omega), hsub, Or.inr ⟨rfl, hr⟩⟩
    · simp [hr] at h

/-- two jobs share no node -/
def Disj (a b : Job) : Prop := ∀ x, x ∈ a.ids → x ∉ b.ids

theorem children_disj {cfg : Cfg} {job : Job} {res : FlowRes} (hres : ResOK job res) :
    (children cfg job res).Pairwise Disj := by
  obtain ⟨_, _, hdisj⟩ := List.nodup_append.mp hres.nodup
  unfold children
  by_cases hl : res.left.length > cfg.m <;> by_cases hr : res.right.length > cfg.m <;>
    simp [hl, hr, Disj, subJob]
  intro x h1 h2
  exact hdisj x h1 x h2 rfl

end Tbx.Chipper
