import Tbx.Model.Dijkstra
/-
Basic facts about the Dijkstra models that need no heap invariant:
  * the queue's type constants (wmin, wmax) never change;
  * `run` starts with `clear`, so its result (returned value AND the whole search state) does not
    depend on the state the object was in (`uniRun_reuse`, `o2mRun_reuse`), and this lifts to
    sequences of queries on one object.
-/
namespace Tbx.Dijkstra
open Tbx Tbx.AHeap

theorem upHeap_params (s : Heap) (k : Nat) : (upHeap s k).wmin = s.wmin ∧ (upHeap s k).wmax = s.wmax := ⟨rfl, rfl⟩
theorem downHeap_params (s : Heap) (k : Nat) : (downHeap s k).wmin = s.wmin ∧ (downHeap s k).wmax = s.wmax := ⟨rfl, rfl⟩
theorem insert_params (s : Heap) (id w d : Int) : (insert s id w d).wmin = s.wmin ∧ (insert s id w d).wmax = s.wmax := ⟨rfl, rfl⟩

theorem decreaseKey_params {s s' : Heap} {id w : Int} (h : decreaseKey s id w = some s') :
    s'.wmin = s.wmin ∧ s'.wmax = s.wmax := by
  unfold decreaseKey at h
  split at h
  · cases h
  · cases h; exact ⟨rfl, rfl⟩

theorem setData_params {s s' : Heap} {id d : Int} (h : setData s id d = some s') :
    s'.wmin = s.wmin ∧ s'.wmax = s.wmax := by
  unfold setData at h
  split at h
  · cases h
  · cases h; exact ⟨rfl, rfl⟩

theorem decreaseKeyData_params {s s' : Heap} {id w d : Int} (h : decreaseKeyData s id w d = some s') :
    s'.wmin = s.wmin ∧ s'.wmax = s.wmax := by
  unfold decreaseKeyData at h
  split at h
  · cases h
  · rename_i s1 h1
    have a := decreaseKey_params h1
    have b := setData_params h
    exact ⟨b.1.trans a.1, b.2.trans a.2⟩

theorem deleteMin_params {s s' : Heap} {u : Int} (h : deleteMin s = some (s', u)) :
    s'.wmin = s.wmin ∧ s'.wmax = s.wmax := by
  unfold deleteMin at h
  split at h
  · cases h
  · simp only [Option.some.injEq, Prod.mk.injEq] at h
    obtain ⟨h1, _⟩ := h
    subst h1
    split <;> exact ⟨rfl, rfl⟩


/-- the queue after the `if !inserted(v) { insert }` statement -/
def relaxPre (q : Heap) (u distance : Int) (v w : Nat) : Heap :=
  if !(inserted q (v : Int)) then insert q (v : Int) (distance + (w : Int)) u else q

theorem relax_eq (q : Heap) (u d : Int) (v w : Nat) :
    relax q u d v w =
      if contains (relaxPre q u d v w) (v : Int) && decide (weight (relaxPre q u d v w) (v : Int) > d + (w : Int)) then
        decreaseKeyData (relaxPre q u d v w) (v : Int) (d + (w : Int)) u
      else some (relaxPre q u d v w) := rfl

theorem relaxPre_params (q : Heap) (u d : Int) (v w : Nat) :
    (relaxPre q u d v w).wmin = q.wmin ∧ (relaxPre q u d v w).wmax = q.wmax := by
  unfold relaxPre; split <;> exact ⟨rfl, rfl⟩

theorem relax_params {q q' : Heap} {u d : Int} {v w : Nat} (h : relax q u d v w = some q') :
    q'.wmin = q.wmin ∧ q'.wmax = q.wmax := by
  rw [relax_eq] at h
  have p1 := relaxPre_params q u d v w
  split at h
  · have := decreaseKeyData_params h; exact ⟨this.1.trans p1.1, this.2.trans p1.2⟩
  · cases h; exact p1

theorem relaxAll_params {q q' : Heap} {u d : Int} {es : List (Nat × Nat)} (h : relaxAll q u d es = some q') :
    q'.wmin = q.wmin ∧ q'.wmax = q.wmax := by
  induction es generalizing q with
  | nil => simp only [relaxAll, Option.some.injEq] at h; subst h; exact ⟨rfl, rfl⟩
  | cons e es ih =>
    simp only [relaxAll] at h
    split at h
    · cases h
    · rename_i q1 h1
      have a := relax_params h1
      have b := ih h
      exact ⟨b.1.trans a.1, b.2.trans a.2⟩

/-- the queue's weight-type constants are those of `AddressableHeap<NodeID, usize, NodeID>` -/
def WFq (q : Heap) : Prop := q.wmin = 0 ∧ q.wmax = UMAX

theorem uniLoop_params (adj : Adj) (t : Int) (fuel : Nat) (st st' : Uni) (r : Int)
    (h : uniLoop adj t fuel st = .ok (st', r)) : st'.queue.wmin = st.queue.wmin ∧ st'.queue.wmax = st.queue.wmax := by
  induction fuel generalizing st with
  | zero => simp [uniLoop] at h
  | succ fuel ih =>
    simp only [uniLoop] at h
    split at h
    · split at h
      · cases h
      · rename_i q1 u hd
        have a := deleteMin_params hd
        split at h
        · cases h; exact a
        · split at h
          · cases h
          · rename_i q2 hr
            have b := relaxAll_params hr
            have c := ih _ h
            simp only at c
            exact ⟨c.1.trans (b.1.trans a.1), c.2.trans (b.2.trans a.2)⟩
    · cases h; exact ⟨rfl, rfl⟩

theorem uniRun_reuse (adj : Adj) (n : Nat) (st : Uni) (s t : Nat) (h : WFq st.queue) :
    uniRun adj n st s t = uniRun adj n Uni.new s t := by
  unfold uniRun Uni.clear Uni.new AHeap.clear
  simp only [h.1, h.2]
  rfl

theorem uniRun_params (adj : Adj) (n : Nat) (st st' : Uni) (s t : Nat) (r : Int)
    (h : uniRun adj n st s t = .ok (st', r)) (hw : WFq st.queue) : WFq st'.queue := by
  unfold uniRun at h
  have := uniLoop_params adj t (n + 1) _ st' r h
  simp only [Uni.clear, AHeap.clear] at this
  have i := insert_params (init st.queue.wmin st.queue.wmax) (s : Int) 0 (s : Int)
  exact ⟨this.1.trans (i.1.trans hw.1), this.2.trans (i.2.trans hw.2)⟩

theorem WFq_new_uni : WFq Uni.new.queue := ⟨rfl, rfl⟩
theorem WFq_new_o2m : WFq O2M.new.queue := ⟨rfl, rfl⟩

theorem o2mLoop_params (adj : Adj) (targets : List Nat) (fuel : Nat) (st st' : O2M)
    (h : o2mLoop adj targets fuel st = .ok st') : st'.queue.wmin = st.queue.wmin ∧ st'.queue.wmax = st.queue.wmax := by
  induction fuel generalizing st with
  | zero => simp [o2mLoop] at h
  | succ fuel ih =>
    simp only [o2mLoop] at h
    split at h
    · split at h
      · cases h
      · rename_i q1 u hd
        have a := deleteMin_params hd
        split at h
        · cases h
        · rename_i q2 hr
          have b := relaxAll_params hr
          have c := ih _ h
          simp only at c
          exact ⟨c.1.trans (b.1.trans a.1), c.2.trans (b.2.trans a.2)⟩
    · cases h; exact ⟨rfl, rfl⟩

theorem o2mRun_reuse (adj : Adj) (n : Nat) (st : O2M) (source : Nat) (targets : List Nat) (h : WFq st.queue) :
    o2mRun adj n st source targets = o2mRun adj n O2M.new source targets := by
  unfold o2mRun O2M.clear O2M.new AHeap.clear
  simp only [h.1, h.2]
  rfl

theorem o2mRun_params (adj : Adj) (n : Nat) (st st' : O2M) (source : Nat) (targets : List Nat) (ok : Bool)
    (h : o2mRun adj n st source targets = .ok (st', ok)) (hw : WFq st.queue) : WFq st'.queue := by
  unfold o2mRun at h
  simp only at h
  split at h
  · rename_i st1 hl
    cases h
    have := o2mLoop_params adj targets (n + 1) _ _ hl
    simp only [O2M.clear, AHeap.clear] at this
    have i := insert_params (init st.queue.wmin st.queue.wmax) (source : Int) 0 (source : Int)
    exact ⟨this.1.trans (i.1.trans hw.1), this.2.trans (i.2.trans hw.2)⟩
  · cases h
  · cases h

/-! ### sequences of queries on one object vs a fresh object per query -/

/-- results of consecutive `run(s,t)` calls on ONE object (stops at the first call that does not return) -/
def uniSeq (adj : Adj) (n : Nat) : Uni → List (Nat × Nat) → List (Option (Uni × Int))
  | _, [] => []
  | st, q :: qs =>
    match uniRun adj n st q.1 q.2 with
    | .ok (st', d) => some (st', d) :: uniSeq adj n st' qs
    | _ => [none]

/-- the same queries, each on a fresh object -/
def uniSeqFresh (adj : Adj) (n : Nat) : List (Nat × Nat) → List (Option (Uni × Int))
  | [] => []
  | q :: qs =>
    match uniRun adj n Uni.new q.1 q.2 with
    | .ok (st', d) => some (st', d) :: uniSeqFresh adj n qs
    | _ => [none]

theorem uniSeq_eq_fresh (adj : Adj) (n : Nat) (st : Uni) (hw : WFq st.queue) (qs : List (Nat × Nat)) :
    uniSeq adj n st qs = uniSeqFresh adj n qs := by
  induction qs generalizing st with
  | nil => rfl
  | cons q qs ih =>
    simp only [uniSeq, uniSeqFresh]
    rw [uniRun_reuse adj n st q.1 q.2 hw]
    cases hr : uniRun adj n Uni.new q.1 q.2 with
    | ok a =>
      obtain ⟨st', d⟩ := a
      simp only
      rw [ih st' (uniRun_params adj n Uni.new st' q.1 q.2 d hr WFq_new_uni)]
    | panic => rfl
    | fuel => rfl

def o2mSeq (adj : Adj) (n : Nat) : O2M → List (Nat × List Nat) → List (Option (O2M × Bool))
  | _, [] => []
  | st, q :: qs =>
    match o2mRun adj n st q.1 q.2 with
    | .ok (st', b) => some (st', b) :: o2mSeq adj n st' qs
    | _ => [none]

def o2mSeqFresh (adj : Adj) (n : Nat) : List (Nat × List Nat) → List (Option (O2M × Bool))
  | [] => []
  | q :: qs =>
    match o2mRun adj n O2M.new q.1 q.2 with
    | .ok (st', b) => some (st', b) :: o2mSeqFresh adj n qs
    | _ => [none]

theorem o2mSeq_eq_fresh (adj : Adj) (n : Nat) (st : O2M) (hw : WFq st.queue) (qs : List (Nat × List Nat)) :
    o2mSeq adj n st qs = o2mSeqFresh adj n qs := by
  induction qs generalizing st with
  | nil => rfl
  | cons q qs ih =>
    simp only [o2mSeq, o2mSeqFresh]
    rw [o2mRun_reuse adj n st q.1 q.2 hw]
    cases hr : o2mRun adj n O2M.new q.1 q.2 with
    | ok a =>
      obtain ⟨st', d⟩ := a
      simp only
      rw [ih st' (o2mRun_params adj n O2M.new st' q.1 q.2 d hr WFq_new_o2m)]
    | panic => rfl
    | fuel => rfl

end Tbx.Dijkstra
