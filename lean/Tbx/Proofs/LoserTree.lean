import Tbx.Model.LoserTree
/-
The tournament invariant of the loser tree (for every number of leaves n ≥ 1, power of two or not):
every internal node holds a leaf of its own subtree that wins the subtree (it is live whenever any
leaf of the subtree is live, with a minimal item).  `rebuild_path` re-establishes it along the path
from a changed leaf to the root.
-/
namespace Tbx.LoserTree
open Tbx

/-- `Anc v u`: node v is u itself or an ancestor of u in the heap numbering (parent of u = (u-1)/2) -/
inductive Anc : Nat → Nat → Prop
  | refl (u : Nat) : Anc u u
  | up {v u : Nat} : 0 < u → Anc v ((u - 1) / 2) → Anc v u

theorem anc_le {v u : Nat} (h : Anc v u) : v ≤ u := by
  induction h with
  | refl => exact Nat.le_refl _
  | up hu _ ih => omega

theorem anc_of_left {p u : Nat} (h : Anc (2 * p + 1) u) : Anc p u := by
  induction h with
  | refl => exact Anc.up (by omega) (by have : (2 * p + 1 - 1) / 2 = p := by omega
                                        rw [this]; exact Anc.refl p)
  | up hu _ ih => exact Anc.up hu ih

theorem anc_of_right {p u : Nat} (h : Anc (2 * p + 2) u) : Anc p u := by
  induction h with
  | refl => exact Anc.up (by omega) (by have : (2 * p + 2 - 1) / 2 = p := by omega
                                        rw [this]; exact Anc.refl p)
  | up hu _ ih => exact Anc.up hu ih

theorem anc_child {p u : Nat} (h : Anc p u) : u = p ∨ Anc (2 * p + 1) u ∨ Anc (2 * p + 2) u := by
  induction h with
  | refl => exact Or.inl rfl
  | @up u hu _ ih =>
    rcases ih with h | h | h
    · -- the parent of u is p: u is one of the two children
      have : u = 2 * p + 1 ∨ u = 2 * p + 2 := by omega
      rcases this with h' | h'
      · right; left; rw [h']; exact Anc.refl _
      · right; right; rw [h']; exact Anc.refl _
    · right; left; exact Anc.up hu h
    · right; right; exact Anc.up hu h

theorem anc_strict {v u : Nat} (h : Anc v u) (hne : u ≠ v) : 2 * v + 1 ≤ u := by
  rcases anc_child h with h | h | h
  · exact absurd h hne
  · exact anc_le h
  · have := anc_le h; omega

theorem anc_root (u : Nat) : Anc 0 u := by
  induction u using Nat.strongRecOn with
  | ind u ih =>
    by_cases h : u = 0
    · subst h; exact Anc.refl 0
    · exact Anc.up (by omega) (ih ((u - 1) / 2) (by omega))

/-- strict ancestors of i are exactly the ancestors of its parent -/
theorem anc_parent {v i : Nat} (h : Anc v i) (hne : v ≠ i) : 0 < i ∧ Anc v ((i - 1) / 2) := by
  cases h with
  | refl => exact absurd rfl hne
  | up hu h => exact ⟨hu, h⟩

/-- leaf l wins the subtree of node v (n leaves) -/
def Wins (lv : Array (Option Entry)) (n v l : Nat) : Prop :=
  l < n ∧ Anc v (l + (n - 1)) ∧
  ∀ j e, j < n → Anc v (j + (n - 1)) → gt lv j = some e → ∃ e', gt lv l = some e' ∧ e'.item ≤ e.item

/-- node v (internal or leaf) stands for a leaf that wins its subtree -/
def Good (lv : Array (Option Entry)) (ls : Array Nat) (n v : Nat) : Prop :=
  Wins lv n v (nodeVal ls (n - 1) v)

theorem good_leaf (lv : Array (Option Entry)) (ls : Array Nat) (n v : Nat)
    (h1 : n - 1 ≤ v) (h2 : v ≤ 2 * n - 2) (hn : 0 < n) : Good lv ls n v := by
  unfold Good Wins nodeVal
  simp only [ge_iff_le, h1, if_true]
  have hv : v - (n - 1) + (n - 1) = v := by omega
  refine ⟨by omega, by rw [hv]; exact Anc.refl v, ?_⟩
  intro j e hj ha hg
  have : j + (n - 1) = v := by
    apply Classical.byContradiction
    intro hne
    have := anc_strict ha hne
    omega
  have hj' : v - (n - 1) = j := by omega
  rw [hj']
  exact ⟨e, hg, Int.le_refl _⟩

/-- the match between the winners of the two children decides the parent -/
theorem wins_match (lv : Array (Option Entry)) (n p c1 c2 l1 l2 : Nat) (hp : p < n - 1)
    (hc : (c1 = 2 * p + 1 ∧ c2 = 2 * p + 2) ∨ (c1 = 2 * p + 2 ∧ c2 = 2 * p + 1))
    (h1 : Wins lv n c1 l1) (h2 : Wins lv n c2 l2) : Wins lv n p (playMatch lv l1 l2) := by
  obtain ⟨hl1, ha1, hw1⟩ := h1
  obtain ⟨hl2, ha2, hw2⟩ := h2
  have hup1 : Anc p (l1 + (n - 1)) := by
    rcases hc with ⟨h, _⟩ | ⟨h, _⟩ <;> subst h
    · exact anc_of_left ha1
    · exact anc_of_right ha1
  have hup2 : Anc p (l2 + (n - 1)) := by
    rcases hc with ⟨_, h⟩ | ⟨_, h⟩ <;> subst h
    · exact anc_of_right ha2
    · exact anc_of_left ha2
  -- a leaf below p is below c1 or below c2
  have hsplit : ∀ j, j < n → Anc p (j + (n - 1)) → Anc c1 (j + (n - 1)) ∨ Anc c2 (j + (n - 1)) := by
    intro j _ ha
    rcases anc_child ha with h | h | h
    · omega
    · rcases hc with ⟨h1, h2⟩ | ⟨h1, h2⟩
      · left; rw [h1]; exact h
      · right; rw [h2]; exact h
    · rcases hc with ⟨h1, h2⟩ | ⟨h1, h2⟩
      · right; rw [h2]; exact h
      · left; rw [h1]; exact h
  unfold playMatch
  cases hg1 : gt lv l1 with
  | none =>
    show Wins lv n p l2
    refine ⟨hl2, hup2, ?_⟩
    intro j e hj ha hg
    rcases hsplit j hj ha with h | h
    · obtain ⟨e', he', _⟩ := hw1 j e hj h hg
      rw [hg1] at he'; cases he'
    · exact hw2 j e hj h hg
  | some v1 =>
    cases hg2 : gt lv l2 with
    | none =>
      show Wins lv n p l1
      refine ⟨hl1, hup1, ?_⟩
      intro j e hj ha hg
      rcases hsplit j hj ha with h | h
      · exact hw1 j e hj h hg
      · obtain ⟨e', he', _⟩ := hw2 j e hj h hg
        rw [hg2] at he'; cases he'
    | some v2 =>
      show Wins lv n p (if v1.item < v2.item then l1 else l2)
      split
      · rename_i hlt
        refine ⟨hl1, hup1, ?_⟩
        intro j e hj ha hg
        refine ⟨v1, hg1, ?_⟩
        rcases hsplit j hj ha with h | h
        · obtain ⟨e', he', hle⟩ := hw1 j e hj h hg
          rw [hg1] at he'; cases he'; exact hle
        · obtain ⟨e', he', hle⟩ := hw2 j e hj h hg
          rw [hg2] at he'; cases he'; omega
      · rename_i hlt
        refine ⟨hl2, hup2, ?_⟩
        intro j e hj ha hg
        refine ⟨v2, hg2, ?_⟩
        rcases hsplit j hj ha with h | h
        · obtain ⟨e', he', hle⟩ := hw1 j e hj h hg
          rw [hg1] at he'; cases he'; omega
        · obtain ⟨e', he', hle⟩ := hw2 j e hj h hg
          rw [hg2] at he'; cases he'; exact hle

theorem nodeVal_st_ne (ls : Array Nat) (internal p w v : Nat) (h : v ≠ p) :
    nodeVal (st ls p w) internal v = nodeVal ls internal v := by
  unfold nodeVal
  split
  · rfl
  · exact gt_st_ne ls p v w (fun h' => h h'.symm)

/-- the `while i > 0` loop: if every internal node that is not a strict ancestor of i is good, then
    afterwards every internal node is good -/
theorem rebuildLoop_spec (lv : Array (Option Entry)) (n : Nat) (hn : 0 < n) (fuel : Nat) (ls : Array Nat) (i : Nat)
    (hsz : ls.size = n - 1) (hi : i ≤ 2 * n - 2) (hf : i ≤ fuel)
    (H : ∀ v, v < n - 1 → ¬ (Anc v i ∧ v ≠ i) → Good lv ls n v) :
    (rebuildLoop lv (n - 1) fuel ls i).size = n - 1 ∧
    ∀ v, v < n - 1 → Good lv (rebuildLoop lv (n - 1) fuel ls i) n v := by
  induction fuel generalizing ls i with
  | zero =>
    have hi0 : i = 0 := by omega
    subst hi0
    refine ⟨hsz, fun v hv => H v hv ?_⟩
    rintro ⟨ha, hne⟩
    have := anc_le ha; omega
  | succ fuel ih =>
    unfold rebuildLoop
    by_cases hpos : i > 0
    · simp only [hpos, if_true]
      -- the sibling and the parent
      have hsib : ∀ s, s = (if i % 2 = 0 then i - 1 else i + 1) →
          s ≤ 2 * n - 2 ∧ s ≠ i ∧ ¬ (Anc s i ∧ s ≠ i) ∧
          ((i = 2 * ((i - 1) / 2) + 1 ∧ s = 2 * ((i - 1) / 2) + 2) ∨
           (i = 2 * ((i - 1) / 2) + 2 ∧ s = 2 * ((i - 1) / 2) + 1)) := by
        intro s hs
        by_cases hev : i % 2 = 0
        · rw [if_pos hev] at hs
          refine ⟨by omega, by omega, ?_, by omega⟩
          rintro ⟨ha, hne⟩
          have := anc_strict ha (fun h => hne h.symm)
          omega
        · rw [if_neg hev] at hs
          refine ⟨by omega, by omega, ?_, by omega⟩
          rintro ⟨ha, _⟩
          have := anc_le ha
          omega
      obtain ⟨hs1, hs2, hs3, hs4⟩ := hsib _ rfl
      generalize (if i % 2 = 0 then i - 1 else i + 1) = s at hs1 hs2 hs3 hs4 ⊢
      have hp : (i - 1) / 2 < n - 1 := by omega
      have goodAt : ∀ u, u ≤ 2 * n - 2 → ¬ (Anc u i ∧ u ≠ i) → Good lv ls n u := by
        intro u hu hna
        by_cases hint : u < n - 1
        · exact H u hint hna
        · exact good_leaf lv ls n u (by omega) hu hn
      have gi : Good lv ls n i := goodAt i hi (fun h => h.2 rfl)
      have gs : Good lv ls n s := goodAt s hs1 hs3
      have gp := wins_match lv n ((i - 1) / 2) i s _ _ hp hs4 gi gs
      apply ih
      · simp [hsz]
      · omega
      · omega
      · intro v hv hna
        by_cases hvp : v = (i - 1) / 2
        · subst hvp
          unfold Good nodeVal
          have : ¬ ((i - 1) / 2 ≥ n - 1) := by omega
          rw [if_neg this, gt_st_eq _ _ _ (by omega)]
          exact gp
        · have hold : Good lv ls n v := by
            apply H v hv
            rintro ⟨ha, hne⟩
            obtain ⟨_, hap⟩ := anc_parent ha hne
            exact hna ⟨hap, hvp⟩
          unfold Good at hold ⊢
          rw [nodeVal_st_ne _ _ _ _ _ hvp]
          exact hold
    · have hi0 : i = 0 := by omega
      subst hi0
      simp only [Nat.lt_irrefl, if_false]
      refine ⟨hsz, fun v hv => H v hv ?_⟩
      rintro ⟨ha, hne⟩
      have := anc_le ha; omega


/-! ### the invariant of the whole tree and its preservation by push / pop / clear -/

/-- number of live leaves among the first k slots -/
def cnt (lv : Array (Option Entry)) : Nat → Nat
  | 0 => 0
  | k + 1 => cnt lv k + (if (gt lv k).isSome then 1 else 0)

/-- number of live entries -/
def live (lv : Array (Option Entry)) : Nat := cnt lv lv.size

theorem cnt_st_ge (lv : Array (Option Entry)) (i : Nat) (x : Option Entry) (k : Nat) (h : k ≤ i) :
    cnt (st lv i x) k = cnt lv k := by
  induction k with
  | zero => rfl
  | succ k ih =>
    simp only [cnt]
    rw [ih (by omega), gt_st_ne lv i k x (by omega)]

theorem cnt_st_lt (lv : Array (Option Entry)) (i : Nat) (x : Option Entry) (k : Nat) (h : i < k)
    (hi : i < lv.size) :
    cnt (st lv i x) k + (if (gt lv i).isSome then 1 else 0) = cnt lv k + (if x.isSome then 1 else 0) := by
  induction k with
  | zero => omega
  | succ k ih =>
    simp only [cnt]
    by_cases hik : i = k
    · subst hik
      rw [cnt_st_ge lv i x i (Nat.le_refl _), gt_st_eq lv i x hi]
      omega
    · rw [gt_st_ne lv i k x hik]
      have := ih (by omega)
      omega

theorem cnt_none (lv : Array (Option Entry)) (h : ∀ j, gt lv j = none) (k : Nat) : cnt lv k = 0 := by
  induction k with
  | zero => rfl
  | succ k ih => simp [cnt, ih, h k]

theorem gt_replicate_none (n j : Nat) : gt (Array.replicate n (none : Option Entry)) j = none := by
  simp only [gt, Array.getD_eq_getD_getElem?]
  by_cases h : j < n
  · simp [h]
  · simp [h]; rfl

structure Inv (t : Tree) : Prop where
  npos : 0 < t.leaves.size
  lsz : t.losers.size = t.leaves.size - 1
  /-- every internal node holds a leaf of its own subtree that wins it -/
  good : ∀ v, v < t.leaves.size - 1 → Good t.leaves t.losers t.leaves.size v
  /-- `winner` is live whenever anything is live, with a minimal item -/
  win : t.winner < t.leaves.size ∧
        ∀ j e, gt t.leaves j = some e → ∃ e', gt t.leaves t.winner = some e' ∧ e'.item ≤ e.item
  idx : ∀ j e, gt t.leaves j = some e → e.index = j
  size : t.size = live t.leaves

theorem good_st (lv : Array (Option Entry)) (ls : Array Nat) (n v i : Nat) (x : Option Entry)
    (hg : Good lv ls n v) (hna : ¬ Anc v (i + (n - 1))) : Good (st lv i x) ls n v := by
  obtain ⟨h1, h2, h3⟩ := hg
  refine ⟨h1, h2, ?_⟩
  intro j e hj ha hgj
  have hji : i ≠ j := fun h => hna (h ▸ ha)
  have hli : i ≠ nodeVal ls (n - 1) v := fun h => hna (h ▸ h2)
  rw [gt_st_ne lv i j x hji] at hgj
  rw [gt_st_ne lv i _ x hli]
  exact h3 j e hj ha hgj

/-- `rebuild_path(i)` after leaf i changed -/
theorem rebuildPath_spec (t : Tree) (i : Nat) (hn : 0 < t.leaves.size) (hl : t.losers.size = t.leaves.size - 1)
    (hi : i < t.leaves.size)
    (H : ∀ v, v < t.leaves.size - 1 → ¬ Anc v (i + (t.leaves.size - 1)) → Good t.leaves t.losers t.leaves.size v) :
    (rebuildPath t i).leaves = t.leaves ∧ (rebuildPath t i).size = t.size ∧
    (rebuildPath t i).losers.size = t.leaves.size - 1 ∧
    (∀ v, v < t.leaves.size - 1 → Good t.leaves (rebuildPath t i).losers t.leaves.size v) ∧
    ((rebuildPath t i).winner < t.leaves.size ∧
      ∀ j e, gt t.leaves j = some e → ∃ e', gt t.leaves (rebuildPath t i).winner = some e' ∧ e'.item ≤ e.item) := by
  obtain ⟨hs, hg⟩ := rebuildLoop_spec t.leaves t.leaves.size hn (i + (t.leaves.size - 1)) t.losers
    (i + (t.leaves.size - 1)) hl (by omega) (Nat.le_refl _)
    (fun v hv hna => H v hv (fun ha => hna ⟨ha, by omega⟩))
  refine ⟨rfl, rfl, hs, hg, ?_⟩
  have hwdef : (rebuildPath t i).winner =
      (if (rebuildLoop t.leaves (t.leaves.size - 1) (i + (t.leaves.size - 1)) t.losers (i + (t.leaves.size - 1))).size = 0
        then 0 else gt (rebuildLoop t.leaves (t.leaves.size - 1) (i + (t.leaves.size - 1)) t.losers (i + (t.leaves.size - 1))) 0) := rfl
  rw [hwdef]
  generalize rebuildLoop t.leaves (t.leaves.size - 1) (i + (t.leaves.size - 1)) t.losers (i + (t.leaves.size - 1)) = ls' at hs hg
  by_cases h0 : ls'.size = 0
  · rw [if_pos h0]
    refine ⟨hn, ?_⟩
    intro j e hj
    have hjn : j < t.leaves.size := by
      apply Classical.byContradiction
      intro h
      rw [gt_of_ge _ _ (by omega)] at hj
      cases hj
    have : j = 0 := by omega
    subst this
    exact ⟨e, hj, Int.le_refl _⟩
  · rw [if_neg h0]
    have hg0 := hg 0 (by omega)
    unfold Good nodeVal at hg0
    have : ¬ (0 ≥ t.leaves.size - 1) := by omega
    rw [if_neg this] at hg0
    obtain ⟨h1, _, h3⟩ := hg0
    refine ⟨h1, ?_⟩
    intro j e hj
    have hjn : j < t.leaves.size := by
      apply Classical.byContradiction
      intro h
      rw [gt_of_ge _ _ (by omega)] at hj
      cases hj
    exact h3 j e hjn (anc_root _) hj

/-- `push` into a free slot below the number of leaves -/
theorem push_spec (t : Tree) (e : Entry) (hI : Inv t) (hi : e.index < t.leaves.size)
    (hfree : gt t.leaves e.index = none) :
    ∃ t', push t e = some t' ∧ Inv t' ∧ t'.leaves = st t.leaves e.index (some e) ∧ t'.size = t.size + 1 := by
  let t1 : Tree := { t with leaves := st t.leaves e.index (some e) }
  have hsz : t1.leaves.size = t.leaves.size := by simp [t1]
  obtain ⟨r1, r2, r3, r4, r5⟩ := rebuildPath_spec t1 e.index (by rw [hsz]; exact hI.npos)
    (by rw [hsz]; exact hI.lsz) (by rw [hsz]; exact hi)
    (fun v hv hna => by
      rw [hsz] at hv hna ⊢
      exact good_st _ _ _ _ _ _ (hI.good v hv) hna)
  rw [hsz] at r3 r4 r5
  refine ⟨{ rebuildPath t1 e.index with size := (rebuildPath t1 e.index).size + 1 }, by simp [push, hi, t1], ?_, r1, ?_⟩
  · refine ⟨?_, ?_, ?_, ?_, ?_, ?_⟩
    · show 0 < (rebuildPath t1 e.index).leaves.size
      rw [r1, hsz]; exact hI.npos
    · show (rebuildPath t1 e.index).losers.size = (rebuildPath t1 e.index).leaves.size - 1
      rw [r1, hsz]; exact r3
    · show ∀ v, v < (rebuildPath t1 e.index).leaves.size - 1 →
        Good (rebuildPath t1 e.index).leaves (rebuildPath t1 e.index).losers (rebuildPath t1 e.index).leaves.size v
      rw [r1, hsz]; exact r4
    · show (rebuildPath t1 e.index).winner < (rebuildPath t1 e.index).leaves.size ∧ _
      rw [r1, hsz]; exact r5
    · show ∀ j e', gt (rebuildPath t1 e.index).leaves j = some e' → e'.index = j
      rw [r1]
      intro j e' hj
      show e'.index = j
      have hj' : gt (st t.leaves e.index (some e)) j = some e' := hj
      rw [gt_st] at hj'
      split at hj'
      · rename_i h; cases hj'; exact h.1
      · exact hI.idx j e' hj'
    · show (rebuildPath t1 e.index).size + 1 = live (rebuildPath t1 e.index).leaves
      rw [r1, r2]
      show t.size + 1 = cnt (st t.leaves e.index (some e)) (st t.leaves e.index (some e)).size
      have := cnt_st_lt t.leaves e.index (some e) t.leaves.size hi hi
      rw [hfree] at this
      simp only [size_st]
      have hs := hI.size
      unfold live at hs
      simp at this
      omega
  · show (rebuildPath t1 e.index).size + 1 = t.size + 1
    rw [r2]

/-- `pop`: never out of bounds; `None` iff no entry is live; otherwise a live entry with minimal item,
    whose slot is freed -/
theorem pop_spec (t : Tree) (hI : Inv t) :
    ∃ r t', pop t = some (r, t') ∧ Inv t' ∧
      match r with
      | none => (∀ j, gt t.leaves j = none) ∧ t' = t
      | some e => gt t.leaves e.index = some e ∧ (∀ j e', gt t.leaves j = some e' → e.item ≤ e'.item) ∧
                  t'.leaves = st t.leaves e.index none ∧ t'.size + 1 = t.size := by
  obtain ⟨hw, hmin⟩ := hI.win
  cases hg : gt t.leaves t.winner with
  | none =>
    refine ⟨none, t, by simp [pop, hw, hg], hI, ?_, rfl⟩
    intro j
    cases hj : gt t.leaves j with
    | none => rfl
    | some e =>
      obtain ⟨e', he', _⟩ := hmin j e hj
      rw [hg] at he'; cases he'
  | some e =>
    have hidx : e.index = t.winner := hI.idx _ _ hg
    let t1 : Tree := { t with leaves := st t.leaves t.winner none, size := t.size - 1 }
    have hsz : t1.leaves.size = t.leaves.size := by simp [t1]
    obtain ⟨r1, r2, r3, r4, r5⟩ := rebuildPath_spec t1 t.winner (by rw [hsz]; exact hI.npos)
      (by rw [hsz]; exact hI.lsz) (by rw [hsz]; exact hw)
      (fun v hv hna => by
        rw [hsz] at hv hna ⊢
        exact good_st _ _ _ _ _ _ (hI.good v hv) hna)
    rw [hsz] at r3 r4 r5
    have hcnt := cnt_st_lt t.leaves t.winner none t.leaves.size hw hw
    rw [hg] at hcnt
    have hs := hI.size
    unfold live at hs
    simp at hcnt
    refine ⟨some e, rebuildPath t1 t.winner, by simp [pop, hw, hg, t1], ?_, ?_⟩
    · refine ⟨?_, ?_, ?_, ?_, ?_, ?_⟩
      · rw [r1, hsz]; exact hI.npos
      · rw [r1, hsz]; exact r3
      · rw [r1, hsz]; exact r4
      · rw [r1, hsz]; exact r5
      · rw [r1]
        intro j e' hj
        have hj' : gt (st t.leaves t.winner none) j = some e' := hj
        rw [gt_st] at hj'
        split at hj'
        · cases hj'
        · exact hI.idx j e' hj'
      · rw [r1, r2]
        show t.size - 1 = cnt (st t.leaves t.winner none) (st t.leaves t.winner none).size
        simp only [size_st]
        omega
    · show gt t.leaves e.index = some e ∧ _
      rw [hidx]
      refine ⟨hg, ?_, r1, ?_⟩
      · intro j e' hj
        obtain ⟨e'', he'', hle⟩ := hmin j e' hj
        rw [hg] at he''; cases he''; exact hle
      · rw [r2]
        show t.size - 1 + 1 = t.size
        omega

/-- `clear` empties the tree and keeps the invariant -/
theorem clear_spec (t : Tree) (hI : Inv t) :
    Inv (clear t) ∧ (∀ j, gt (clear t).leaves j = none) ∧ (clear t).size = 0 ∧
    (clear t).leaves.size = t.leaves.size := by
  have hnone : ∀ j, gt (clear t).leaves j = none := fun j => gt_replicate_none _ j
  refine ⟨⟨?_, ?_, ?_, ?_, ?_, ?_⟩, hnone, rfl, by simp [clear]⟩
  · simp [clear]; exact hI.npos
  · simp [clear]; exact hI.lsz
  · intro v hv
    have hsz : (clear t).leaves.size = t.leaves.size := by simp [clear]
    rw [hsz] at hv ⊢
    obtain ⟨h1, h2, _⟩ := hI.good v hv
    refine ⟨h1, h2, ?_⟩
    intro j e _ _ hj
    rw [hnone j] at hj; cases hj
  · refine ⟨by simp [clear]; exact hI.npos, ?_⟩
    intro j e hj
    rw [hnone j] at hj; cases hj
  · intro j e hj
    rw [hnone j] at hj; cases hj
  · show 0 = live (clear t).leaves
    unfold live
    rw [cnt_none _ hnone]

end Tbx.LoserTree
