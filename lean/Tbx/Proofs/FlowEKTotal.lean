import Tbx.Proofs.FlowCount
/-
C01 `ek_ff_terminates` and total correctness of the EdmondsKarp / FordFulkerson models: with the fuel the
driver passes (2 + sum of all capacities) `run` returns, for every edge list with non-negative capacities
and every source ≠ target that are nodes of the graph.

  search      : each node is marked at most once, so `|worklist| + #unmarked` drops with every pop
  pathIter    : a parent chain is simple, hence not longer than the number of nodes (pigeonhole)
  minByCap / pushPath : every path edge and its reverse exist; the bottleneck is ≥ 1
  outer loop  : every augmentation raises the value by ≥ 1 and the value is bounded by the capacity of the
                cut ({s}, rest) ≤ sum of all capacities (`weak_duality`)
-/
namespace Tbx.Flow
open Tbx Tbx.FlowTheory Tbx.FlowSpec

/-- a pop removes exactly one element -/
def PopLen (pop : List Nat → Option (Nat × List Nat)) : Prop :=
  ∀ l u rest, pop l = some (u, rest) → rest.length + 1 = l.length

theorem popFront_len : PopLen popFront := by
  intro l u rest h
  cases l with
  | nil => simp [popFront] at h
  | cons a r =>
    simp only [popFront, Option.some.injEq, Prod.mk.injEq] at h
    rw [← h.2]; simp

theorem popBack_len : PopLen popBack := by
  intro l u rest h
  unfold popBack at h
  split at h
  · cases h
  · rename_i y hy
    simp only [Option.some.injEq, Prod.mk.injEq] at h
    rw [← h.2]
    have hne : l ≠ [] := by intro e; subst e; simp at hy
    rw [List.length_dropLast]
    have := List.length_pos_iff.mpr hne
    omega

theorem relax_measure (g : Graph) (t node : Nat) (b : Bool) (n : Nat) (hT : ∀ e, 0 < gt g.cap e → gt g.tgt e < n)
    (hnode : node ≠ INV) (k : Nat) : ∀ (e : Nat) (sr sr' : Search), sr.parents.size = n →
    relax g t node b e k sr = .cont sr' →
    sr'.parents.size = n ∧ sr'.wl.length + unm sr'.parents n = sr.wl.length + unm sr.parents n := by
  induction k with
  | zero =>
    intro e sr sr' hsz h
    simp only [relax, Relax.cont.injEq] at h
    subst h; exact ⟨hsz, rfl⟩
  | succ k ih =>
    intro e sr sr' hsz h
    simp only [relax] at h
    split at h
    · exact ih (e + 1) sr sr' hsz h
    · rename_i hcap
      split at h
      · exact ih (e + 1) sr sr' hsz h
      · rename_i hnew
        have hun : gt sr.parents (gt g.tgt e) = INV := by
          cases Nat.decEq (gt sr.parents (gt g.tgt e)) INV with
          | isTrue h => exact h
          | isFalse h => exact absurd (Or.inl h) hnew
        have hvn : gt g.tgt e < n := hT e (by omega)
        split at h
        · cases h
        · obtain ⟨a, b'⟩ := ih (e + 1) _ sr' (by simp [hsz]) h
          refine ⟨a, ?_⟩
          rw [b']
          simp only [List.length_append, List.length_singleton]
          have := unm_st_mark sr.parents (gt g.tgt e) node n hvn (by rw [hsz]; exact hvn) hun hnode
          omega

theorem searchLoop_total (g : Graph) (s t : Nat) (pop : List Nat → Option (Nat × List Nat)) (hp : PopOK pop)
    (hl : PopLen pop) (hT : TargetsOK g) (hN : g.numNodes ≤ INV) (fuel : Nat) :
    ∀ (sr : Search), SInv g s t sr → sr.wl.length + unm sr.parents g.numNodes < fuel →
    ∃ r, searchLoop g t pop fuel sr = some r := by
  induction fuel with
  | zero => intro sr _ h; omega
  | succ fuel ih =>
    intro sr hi hm
    cases hpop : pop sr.wl with
    | none => simp only [searchLoop, hpop]; exact ⟨_, rfl⟩
    | some r =>
      obtain ⟨node, rest⟩ := r
      have hnodeIn : node ∈ sr.wl := (hp.2 _ _ _ hpop node).mpr (Or.inl rfl)
      obtain ⟨hnn, hnm⟩ := hi.wlOK node hnodeIn
      have hlen := hl _ _ _ hpop
      have hi1 : SInv g s t { sr with wl := rest } :=
        ⟨hi.hsize, hi.hs, hi.hsn, hi.tree,
          fun v hv => hi.wlOK v ((hp.2 _ _ _ hpop v).mpr (Or.inr hv)), hi.noT⟩
      have hpost := relax_spec g s t node (gt sr.parents node == node) hT hN hnn (g.deg node)
        (g.beginEdges node) { sr with wl := rest } (Nat.le_refl _) (Nat.le_refl _) hi1 hnm
      cases hres : relax g t node (gt sr.parents node == node) (g.beginEdges node) (g.deg node)
          { sr with wl := rest } with
      | found srf => simp only [searchLoop, hpop, hres]; exact ⟨_, rfl⟩
      | cont src =>
        simp only [searchLoop, hpop, hres]
        rw [hres] at hpost
        obtain ⟨a, _⟩ := hpost
        obtain ⟨_, hmeas⟩ := relax_measure g t node _ g.numNodes hT (by omega) (g.deg node) (g.beginEdges node)
          { sr with wl := rest } src hi.hsize hres
        apply ih src a
        simp only at hmeas
        omega

theorem search_total (g : Graph) (s t : Nat) (pop : List Nat → Option (Nat × List Nat)) (hp : PopOK pop)
    (hl : PopLen pop) (hT : TargetsOK g) (hN : g.numNodes ≤ INV) (hs : s < g.numNodes) :
    ∃ r, search g s t pop = some r := by
  obtain ⟨hi, _⟩ := search_init g s t hs hN
  apply searchLoop_total g s t pop hp hl hT hN _ _ hi
  simp only [List.length_singleton]
  have h1 := unm_st_mark (Array.replicate g.numNodes INV) s s g.numNodes hs (by simp [hs])
    (by unfold gt; simp [Array.getD_eq_getD_getElem?, hs]) (by omega)
  have h2 := unm_replicate g.numNodes g.numNodes (Nat.le_refl _)
  omega

theorem minByCap_total (g : Graph) (ws : List (Nat × Nat)) (hne : ws ≠ [])
    (h : ∀ ab, ab ∈ ws → ∃ k, windowCap g ab = some k) : ∃ r, minByCap g ws = some r := by
  induction ws with
  | nil => exact absurd rfl hne
  | cons p tl ih =>
    obtain ⟨k, hk⟩ := h p List.mem_cons_self
    cases tl with
    | nil => simp only [minByCap, hk]; exact ⟨_, rfl⟩
    | cons q rest =>
      obtain ⟨r, hr⟩ := ih (by simp) (fun ab hab => h ab (List.mem_cons_of_mem _ hab))
      obtain ⟨m, km⟩ := r
      simp only [minByCap, hk, hr]
      split <;> exact ⟨_, rfl⟩

theorem pushPath_total (pf : ℤ) (path : List Nat) : ∀ (g : Graph),
    (∀ ab, ab ∈ windows path → (∃ e, g.findEdge ab.1 ab.2 = some e) ∧ ∃ e, g.findEdge ab.2 ab.1 = some e) →
    ∃ g', pushPath g pf (windows path) = some g' := by
  induction path with
  | nil => intro g _; exact ⟨g, by simp [windows, pushPath]⟩
  | cons a tl ih =>
    cases tl with
    | nil => intro g _; exact ⟨g, by simp [windows, pushPath]⟩
    | cons b rest =>
      intro g h
      obtain ⟨⟨rev, h1⟩, ⟨fwd, h2⟩⟩ := h (a, b) (by simp [windows])
      simp only at h1 h2
      simp only [windows, pushPath, h1, h2]
      apply ih
      intro ab hab
      simp only [findEdge_cap_irrel]
      exact h ab (by simp only [windows, List.mem_cons]; exact Or.inr hab)

/-- a positive edge makes its source a node -/
theorem posEdge_src_lt {g : Graph} (hwf : WF g) {u v : Nat} (h : PosEdge g u v) : u < g.numNodes := by
  obtain ⟨e, h1, h2, _, _⟩ := h
  rcases Nat.lt_or_ge u g.numNodes with hlt | hge
  · exact hlt
  · have := hwf.deg_zero_of_ge u hge; omega

/-- the outer loop returns within `(T - flow) + 2` iterations, `T` the sum of all capacities -/
theorem augmentLoop_total (es : List E) (hnn : ∀ e, e ∈ es → 0 ≤ e.2.2) (s t : Fin (nNodes es)) (hst : s ≠ t)
    (hN : nNodes es ≤ INV) (pop : List Nat → Option (Nat × List Nat)) (hp : PopOK pop) (hl : PopLen pop)
    (fuel : Nat) : ∀ (g : Graph) (flow : ℤ) (augs : Nat), FInv (cF es (nNodes es)) s t g flow → Uniq g →
    RevClosed g → ((es.map fun e => e.2.2).sum - flow).toNat + 2 ≤ fuel →
    ∃ r, augmentLoop pop s.val t.val fuel g flow augs = some r := by
  induction fuel with
  | zero => intro g flow augs _ _ _ h; omega
  | succ fuel ih =>
    intro g flow augs hi huq hrc hfuel
    have hNg : g.numNodes ≤ INV := by rw [hi.hn]; exact hN
    have hsn : s.val < g.numNodes := by rw [hi.hn]; exact s.isLt
    simp only [augmentLoop]
    obtain ⟨r, hsearch⟩ := search_total g s.val t.val pop hp hl hi.wf.targetsOK hNg hsn
    obtain ⟨res, sr⟩ := r
    rw [hsearch]
    cases res with
    | false => exact ⟨_, rfl⟩
    | true =>
      simp only
      have hsf := search_found g s.val t.val pop hp hi.wf.targetsOK hNg hsn sr hsearch
      obtain ⟨rank, hr⟩ := hsf.tree
      obtain ⟨l, hl', _⟩ := pchain_of_tree g s.val sr.parents rank hr (rank t.val) t.val hsf.htn hsf.ht
        (Nat.le_refl _)
      have hlen := pchain_length_le hsn hsf.hs hNg hl'
      have hpath := pathIter_of_pchain hsn hsf.hs hNg hl' (g.numNodes + 1) (by omega)
      rw [hpath]
      simp only
      obtain ⟨tail, e1, _, hnd, hlast, hlt, hwin⟩ :=
        pathIter_spec g s.val sr.parents hsf.hs hNg rank hr _ t.val l hsf.htn hsf.ht hpath
      -- every window is an existing positive edge
      have hwc : ∀ ab, ab ∈ windows l → ∃ e, g.findEdge ab.2 ab.1 = some e ∧ 0 < gt g.cap e := by
        intro ab hab
        have hpe := hwin ab hab
        obtain ⟨e, h1, h2, h3, h4⟩ := hpe
        have hb := posEdge_src_lt hi.wf ⟨e, h1, h2, h3, h4⟩
        exact ⟨e, findEdge_eq_of_uniq huq _ _ e hb ⟨h1, h2⟩ h3, h4⟩
      have hwne : windows l ≠ [] := by
        rw [e1]
        cases tail with
        | nil =>
          rw [e1] at hlast
          simp only [List.getLast?_singleton, Option.some.injEq] at hlast
          exact absurd (Fin.ext hlast.symm) hst
        | cons b tl => simp [windows]
      obtain ⟨mk, hmin⟩ := minByCap_total g (windows l) hwne (fun ab hab => by
        obtain ⟨e, he, _⟩ := hwc ab hab
        exact ⟨gt g.cap e, by unfold windowCap; rw [he]; rfl⟩)
      obtain ⟨m, km⟩ := mk
      rw [hmin]
      simp only
      obtain ⟨hm1, hm2, _⟩ := minByCap_spec g _ m km hmin
      rw [hm2]
      simp only
      obtain ⟨em, hem, hempos⟩ := hwc m hm1
      have hkm : km = gt g.cap em := by
        unfold windowCap at hm2; rw [hem] at hm2
        simp only [Option.map_some, Option.some.injEq] at hm2
        exact hm2.symm
      have hkpos : ¬ km ≤ 0 := by omega
      rw [if_neg hkpos]
      obtain ⟨g1, hpush⟩ := pushPath_total km l g (fun ab hab => by
        obtain ⟨e, he, _⟩ := hwc ab hab
        obtain ⟨hb, hre, hte⟩ := findEdge_spec g _ _ e he
        obtain ⟨e', hr', ht'⟩ := hrc ab.2 e hb hre
        rw [hte] at hr'
        have ha : ab.1 < g.numNodes := by rw [← hte]; exact hi.wf.tgtOK e (hi.wf.inRange_lt hb hre)
        exact ⟨findEdge_some_of_edge g ab.1 ab.2 e' ha hr' ht', ⟨e, he⟩⟩)
      rw [hpush]
      simp only
      obtain ⟨hi1, hf1, ht1⟩ := augment_step hst hN g flow hi sr hsf l hpath m km km hmin hm2 hkpos g1 hpush
      have hbound := finv_flow_le_total es hnn s t hst g1 (flow + km) hi1
      apply ih g1 (flow + km) (augs + 1) hi1 (uniq_of_eq huq hf1 ht1) (revClosed_of_eq hrc hf1 ht1)
      omega

/-- **ek_ff_terminates**: with fuel `2 + Σ capacities` the run returns -/
theorem ek_ff_run_total (es : List Edge) (s t : Nat) (hnn : ∀ e, e ∈ es → 0 ≤ e.cap) (hst : s ≠ t)
    (hs : s < nNodes (es.map toE)) (ht : t < nNodes (es.map toE)) (hN : nNodes (es.map toE) ≤ INV)
    (pop : List Nat → Option (Nat × List Nat)) (hp : PopOK pop) (hl : PopLen pop) :
    ∃ sv', (Solver.fromEdgeList es s t).run pop ((es.map Edge.cap).sum.toNat + 2) = some sv' := by
  have hm := merge_cap_ek es hnn
  have hnum : (residualEK es).numNodes = nNodes (es.map toE) := by rw [hm.2.1, maxId_eq_spec]; rfl
  have hi := init_finv (residualEK es) es ⟨s, hs⟩ ⟨t, ht⟩ hm
  obtain ⟨huq, hrc⟩ := residualEK_uniq_rev es
  have hsum : ((es.map toE).map fun e => e.2.2).sum = (es.map Edge.cap).sum := by
    rw [List.map_map]; rfl
  have hnnE : ∀ e, e ∈ es.map toE → 0 ≤ e.2.2 := by
    intro e he
    obtain ⟨x, hx, rfl⟩ := List.mem_map.mp he
    exact hnn x hx
  obtain ⟨r, hr⟩ := augmentLoop_total (es.map toE) hnnE ⟨s, hs⟩ ⟨t, ht⟩ (fun e => hst (Fin.mk.inj e)) hN pop hp hl
    ((es.map Edge.cap).sum.toNat + 2) (residualEK es) 0 0 hi huq hrc (by rw [hsum]; simp)
  obtain ⟨g', flow', augs'⟩ := r
  unfold Solver.run
  have hguard : ¬ ((Solver.fromEdgeList es s t).source ≥ (Solver.fromEdgeList es s t).g.numNodes ∨
      (Solver.fromEdgeList es s t).target ≥ (Solver.fromEdgeList es s t).g.numNodes) := by
    show ¬ (s ≥ (residualEK es).numNodes ∨ t ≥ (residualEK es).numNodes)
    rw [hnum]; omega
  rw [if_neg hguard]
  have hr' : augmentLoop pop (Solver.fromEdgeList es s t).source (Solver.fromEdgeList es s t).target
      ((es.map Edge.cap).sum.toNat + 2) (Solver.fromEdgeList es s t).g (Solver.fromEdgeList es s t).maxFlow
      (Solver.fromEdgeList es s t).augs = some (g', flow', augs') := hr
  rw [hr']
  exact ⟨_, rfl⟩

/-- **total correctness** of the EdmondsKarp / FordFulkerson models -/
theorem ek_ff_total (es : List Edge) (s t : Nat) (hnn : ∀ e, e ∈ es → 0 ≤ e.cap) (hst : s ≠ t)
    (hs : s < nNodes (es.map toE)) (ht : t < nNodes (es.map toE)) (hN : nNodes (es.map toE) ≤ INV)
    (pop : List Nat → Option (Nat × List Nat)) (hp : PopOK pop) (hl : PopLen pop) :
    ∃ sv', (Solver.fromEdgeList es s t).run pop ((es.map Edge.cap).sum.toNat + 2) = some sv' ∧
      IsMaxFlowValue (cF (es.map toE) (nNodes (es.map toE))) ⟨s, hs⟩ ⟨t, ht⟩ sv'.maxFlow ∧
      sv'.maxFlow? = .ok sv'.maxFlow := by
  obtain ⟨sv', h⟩ := ek_ff_run_total es s t hnn hst hs ht hN pop hp hl
  obtain ⟨_, _, a, b⟩ := ek_ff_correct es s t hnn hst hN pop hp _ sv' h
  exact ⟨sv', h, a, b⟩

end Tbx.Flow
