import Tbx.Model.StaticGraph
/-
Lemmas about the static graph model: the edge-search loop, and the offset computation on a list
sorted by source (`cntLt inp i` = number of edges with source < i is the offset of node i).
-/
namespace Tbx.SG
open Tbx

theorem getD_eq {α : Type} (l : List α) (i : Nat) (d : α) (h : i < l.length) : l.getD i d = l[i] := by
  simp [List.getD_eq_getElem?_getD, h]

/-! ### `Range::find` -/

theorem findLoop_some (g : Graph) (t : Nat) (k e r : Nat) (h : findLoop g t k e = some r) :
    e ≤ r ∧ r < e + k ∧ target g r = t ∧ ∀ j, e ≤ j → j < r → target g j ≠ t := by
  induction k generalizing e with
  | zero => simp [findLoop] at h
  | succ k ih =>
    simp only [findLoop] at h
    split at h
    · rename_i ht
      cases h
      exact ⟨Nat.le_refl _, by omega, ht, fun j h1 h2 => by omega⟩
    · rename_i ht
      have := ih (e + 1) h
      refine ⟨by omega, by omega, this.2.2.1, ?_⟩
      intro j h1 h2
      by_cases hj : j = e
      · subst hj; exact ht
      · exact this.2.2.2 j (by omega) h2

theorem findLoop_none (g : Graph) (t : Nat) (k e : Nat) :
    findLoop g t k e = none ↔ ∀ j, e ≤ j → j < e + k → target g j ≠ t := by
  induction k generalizing e with
  | zero => simp [findLoop]; intro j h1 h2; omega
  | succ k ih =>
    simp only [findLoop]
    split
    · rename_i ht
      simp only [reduceCtorEq, false_iff]
      intro h
      exact h e (Nat.le_refl _) (by omega) ht
    · rename_i ht
      rw [ih]
      constructor
      · intro h j h1 h2
        by_cases hj : j = e
        · subst hj; exact ht
        · exact h j (by omega) (by omega)
      · intro h j h1 h2
        exact h j (by omega) (by omega)

/-! ### lists sorted by source -/

def SortedBySrc (inp : List InEdge) : Prop := inp.Pairwise fun a b => a.src ≤ b.src

/-- number of edges with source below `i` -/
def cntLt (inp : List InEdge) (i : Nat) : Nat := (inp.filter fun e => decide (e.src < i)).length

theorem cntLt_le_length (inp : List InEdge) (i : Nat) : cntLt inp i ≤ inp.length :=
  List.length_filter_le _ _

theorem cntLt_mono (inp : List InEdge) (i : Nat) : cntLt inp i ≤ cntLt inp (i + 1) := by
  unfold cntLt
  induction inp with
  | nil => simp
  | cons a l ih =>
    simp only [List.filter_cons]
    by_cases h1 : a.src < i
    · have h2 : a.src < i + 1 := by omega
      simp [h1, h2]; exact ih
    · by_cases h2 : a.src < i + 1
      · simp [h1, h2]; omega
      · simp [h1, h2]; exact ih

theorem filter_lt_nil_of_ge (l : List InEdge) (i : Nat) (h : ∀ x ∈ l, i ≤ x.src) :
    l.filter (fun e => decide (e.src < i)) = [] := by
  rw [List.filter_eq_nil_iff]
  intro x hx
  have := h x hx
  simp; omega

/-- in a list sorted by source, position `j` has a source below `i` iff `j < cntLt i` -/
theorem pos_lt_iff (inp : List InEdge) (hs : SortedBySrc inp) (i j : Nat) (hj : j < inp.length) :
    (inp.getD j default).src < i ↔ j < cntLt inp i := by
  induction inp generalizing j with
  | nil => simp at hj
  | cons a l ih =>
    have hs' : SortedBySrc l := (List.pairwise_cons.mp hs).2
    have ha : ∀ x ∈ l, a.src ≤ x.src := (List.pairwise_cons.mp hs).1
    by_cases h1 : a.src < i
    · have hc : cntLt (a :: l) i = cntLt l i + 1 := by simp [cntLt, h1]
      cases j with
      | zero => simp [hc, h1]
      | succ j =>
        have hj' : j < l.length := by simpa using hj
        have := ih hs' j hj'
        simp only [List.getD_cons_succ]
        rw [hc]; omega
    · have hnil : l.filter (fun e => decide (e.src < i)) = [] :=
        filter_lt_nil_of_ge l i (fun x hx => by have := ha x hx; omega)
      have hc : cntLt (a :: l) i = 0 := by simp [cntLt, h1, hnil]
      rw [hc]
      constructor
      · intro h
        exfalso
        cases j with
        | zero => simp at h; omega
        | succ j =>
          have hj' : j < l.length := by simpa using hj
          simp only [List.getD_cons_succ] at h
          have hm : l.getD j default ∈ l := by
            rw [getD_eq _ _ _ hj']; exact List.getElem_mem hj'
          have := ha _ hm
          omega
      · intro h; omega

/-- the inner `while` lands on the offset of the next node -/
theorem skipLoop_eq (inp : List InEdge) (hs : SortedBySrc inp) (i fuel off : Nat)
    (h1 : cntLt inp i ≤ off) (h2 : off ≤ cntLt inp (i + 1)) (hf : inp.length - off ≤ fuel) :
    skipLoop inp i fuel off = cntLt inp (i + 1) := by
  have hle := cntLt_le_length inp (i + 1)
  induction fuel generalizing off with
  | zero => simp only [skipLoop]; omega
  | succ fuel ih =>
    simp only [skipLoop]
    by_cases hlen : off = inp.length
    · simp [hlen]; omega
    · have hlt : off < inp.length := by omega
      have pa := pos_lt_iff inp hs i off hlt
      have pb := pos_lt_iff inp hs (i + 1) off hlt
      by_cases hsrc : (inp.getD off default).src = i
      · have : off < cntLt inp (i + 1) := pb.mp (by omega)
        rw [if_pos ⟨hlen, hsrc⟩]
        exact ih (off + 1) (by omega) (by omega) (by omega)
      · rw [if_neg (by intro h; exact hsrc h.2)]
        have hge : ¬ (inp.getD off default).src < i := fun h => by have := pa.mp h; omega
        have : ¬ off < cntLt inp (i + 1) := fun h => by have := pb.mpr h; omega
        omega

/-- the outer `for` loop fills the node array with the offsets `cntLt` -/
theorem offsetsLoop_spec (inp : List InEdge) (hs : SortedBySrc inp) (k i off : Nat) (acc : Array Nat)
    (hoff : off = cntLt inp i) (hsz : acc.size = i + 1) (hacc : ∀ j, j ≤ i → gt acc j = cntLt inp j) :
    (offsetsLoop inp k i off acc).size = i + 1 + k ∧
    ∀ j, j ≤ i + k → gt (offsetsLoop inp k i off acc) j = cntLt inp j := by
  induction k generalizing i off acc with
  | zero => simp only [offsetsLoop]; exact ⟨by omega, fun j hj => hacc j (by omega)⟩
  | succ k ih =>
    simp only [offsetsLoop]
    have hsk : skipLoop inp i (inp.length - off) off = cntLt inp (i + 1) :=
      skipLoop_eq inp hs i _ off (by omega) (by rw [hoff]; exact cntLt_mono inp i) (Nat.le_refl _)
    rw [hsk]
    have := ih (i + 1) (cntLt inp (i + 1)) (acc.push (cntLt inp (i + 1))) rfl (by simp [hsz])
      (by
        intro j hj
        by_cases e : j = i + 1
        · subst e
          have : i + 1 = acc.size := by omega
          rw [this]; exact gt_push_eq _ _
        · rw [gt_push_lt _ _ _ (by omega)]; exact hacc j (by omega))
    refine ⟨by omega, ?_⟩
    intro j hj
    exact this.2 j (by omega)

/-! ### the running maximum -/

theorem maxIdLoop_ge (inp : List InEdge) (n : Nat) :
    n ≤ maxIdLoop inp n ∧ ∀ e ∈ inp, e.src ≤ maxIdLoop inp n ∧ e.tgt ≤ maxIdLoop inp n := by
  induction inp generalizing n with
  | nil => simp [maxIdLoop]
  | cons a l ih =>
    simp only [maxIdLoop]
    have := ih (max a.tgt (max a.src n))
    refine ⟨by omega, ?_⟩
    intro e he
    rcases List.mem_cons.mp he with rfl | he
    · omega
    · exact this.2 e he

theorem maxIdLoop_attained (inp : List InEdge) (n : Nat) :
    maxIdLoop inp n = n ∨ ∃ e ∈ inp, e.src = maxIdLoop inp n ∨ e.tgt = maxIdLoop inp n := by
  induction inp generalizing n with
  | nil => simp [maxIdLoop]
  | cons a l ih =>
    simp only [maxIdLoop]
    rcases ih (max a.tgt (max a.src n)) with h | ⟨e, he, h⟩
    · rw [h]
      by_cases h1 : max a.tgt (max a.src n) = n
      · left; exact h1
      · right
        refine ⟨a, List.mem_cons_self, ?_⟩
        omega
    · right; exact ⟨e, List.mem_cons_of_mem _ he, h⟩

theorem cntLt_all (inp : List InEdge) (i : Nat) (h : ∀ e ∈ inp, e.src < i) : cntLt inp i = inp.length := by
  unfold cntLt
  rw [List.filter_eq_self.mpr]
  intro e he
  simp [h e he]

/-! ### the slice of a sorted list between two offsets is the filter -/

theorem split_lt_ge (l : List InEdge) (hs : SortedBySrc l) (i : Nat) :
    l = l.filter (fun e => decide (e.src < i)) ++ l.filter (fun e => decide (i ≤ e.src)) := by
  induction l with
  | nil => simp
  | cons a t ih =>
    have hs' : SortedBySrc t := (List.pairwise_cons.mp hs).2
    have ha : ∀ x ∈ t, a.src ≤ x.src := (List.pairwise_cons.mp hs).1
    by_cases h1 : a.src < i
    · have h2 : ¬ i ≤ a.src := by omega
      simp only [List.filter_cons, h1, h2, decide_true, decide_false, if_true, List.cons_append]
      congr 1
      exact ih hs'
    · have h2 : i ≤ a.src := by omega
      have hnil := filter_lt_nil_of_ge t i (fun x hx => by have := ha x hx; omega)
      have hall : t.filter (fun e => decide (i ≤ e.src)) = t := by
        rw [List.filter_eq_self]
        intro x hx
        have := ha x hx
        simp; omega
      simp [h1, h2, hnil, hall]

theorem sorted_filter (l : List InEdge) (hs : SortedBySrc l) (p : InEdge → Bool) : SortedBySrc (l.filter p) :=
  List.Pairwise.sublist List.filter_sublist hs

/-- `drop (offset n) |> take (offset (n+1) - offset n)` is the sublist with source `n` -/
theorem slice_eq_filter (l : List InEdge) (hs : SortedBySrc l) (n : Nat) :
    (l.drop (cntLt l n)).take (cntLt l (n + 1) - cntLt l n) = l.filter (fun e => e.src == n) := by
  have h1 := split_lt_ge l hs n
  have hR := sorted_filter l hs (fun e => decide (n ≤ e.src))
  have h2 := split_lt_ge _ hR (n + 1)
  -- the middle part is the filter on equality
  have hmid : (l.filter (fun e => decide (n ≤ e.src))).filter (fun e => decide (e.src < n + 1))
      = l.filter (fun e => e.src == n) := by
    rw [List.filter_filter]
    apply List.filter_congr
    intro x _
    by_cases hx : x.src = n
    · simp [hx]
    · have h3 : (x.src == n) = false := by simp [hx]
      rw [h3]
      simp only [Bool.and_eq_false_iff, decide_eq_false_iff_not]
      omega
  -- lengths
  have hlen : cntLt l (n + 1) = cntLt l n + (l.filter (fun e => e.src == n)).length := by
    unfold cntLt
    clear h1 h2 hR hmid hs
    induction l with
    | nil => simp
    | cons a t ih =>
      simp only [List.filter_cons]
      by_cases c1 : a.src < n
      · have c2 : a.src < n + 1 := by omega
        have c3 : ¬ a.src = n := by omega
        simp [c1, c2, c3]; omega
      · by_cases c3 : a.src = n
        · have c2 : a.src < n + 1 := by omega
          simp [c3]; subst c3; omega
        · have c2 : ¬ a.src < n + 1 := by omega
          simp [c1, c2, c3]; omega
  have hdrop : l.drop (cntLt l n) = l.filter (fun e => decide (n ≤ e.src)) := by
    have := congrArg (List.drop (cntLt l n)) h1
    rw [this]
    exact List.drop_left' rfl
  rw [hdrop]
  have := congrArg (List.take (cntLt l (n + 1) - cntLt l n)) h2
  rw [this, hmid]
  exact List.take_left' (by omega)

/-- reading a list through indices `b .. b+k` is `drop b |> take k` -/
theorem map_range'_getD {α : Type} (l : List α) (d : α) (b k : Nat) (h : b + k ≤ l.length) :
    (List.range' b k).map (fun i => l.getD i d) = (l.drop b).take k := by
  induction k generalizing b with
  | zero => simp
  | succ k ih =>
    have hb : b < l.length := by omega
    rw [List.range'_succ, List.map_cons, ih (b + 1) (by omega)]
    rw [getD_eq _ _ _ hb]
    rw [List.drop_eq_getElem_cons hb, List.take_succ_cons]

end Tbx.SG
