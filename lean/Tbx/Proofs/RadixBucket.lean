import Tbx.Proofs.RadixArith
/-
Bucket-level lemmas (C17): a pass over an arbitrary duplicate-free bucket order `bo` with digit function
`d` is a stable permutation; pairwise relations lift through a pass; skipped rounds are the identity.
-/
namespace Tbx.Radix
open Tbx Tbx.SortSpec

/-- generic pass: concatenate, in the order `bo`, the sublists of elements whose digit is `b` -/
def passG (bo : List Nat) (d : Nat → Nat) (xs : List Nat) : List Nat :=
  bo.flatMap (fun b => xs.filter (fun x => d x == b))

theorem pass_eq_passG (t : Ty) (k : Nat) (xs : List Nat) :
    pass t k xs = passG (bucketOrder t k) (fun x => key t x k) xs := rfl

/-- a `flatMap` in which only one (duplicate-free) index contributes -/
theorem flatMap_single {β : Type} (bo : List Nat) (f : Nat → List β) (b : Nat) (hnd : bo.Nodup) (hb : b ∈ bo)
    (hz : ∀ b' ∈ bo, b' ≠ b → f b' = []) : bo.flatMap f = f b := by
  induction bo with
  | nil => cases hb
  | cons c bo ih =>
    rw [List.flatMap_cons]
    rw [List.nodup_cons] at hnd
    rcases List.mem_cons.mp hb with rfl | hb'
    · have : bo.flatMap f = [] := by
        rw [List.flatMap_eq_nil_iff]
        intro b' hb'
        exact hz b' (List.mem_cons_of_mem _ hb') (fun h => hnd.1 (h ▸ hb'))
      rw [this, List.append_nil]
    · have hc : f c = [] := hz c List.mem_cons_self (fun h => hnd.1 (h ▸ hb'))
      rw [hc, List.nil_append]
      exact ih hnd.2 hb' (fun b' h1 h2 => hz b' (List.mem_cons_of_mem _ h1) h2)

theorem passG_cons_notin (bo : List Nat) (d : Nat → Nat) (x : Nat) (xs : List Nat) (h : d x ∉ bo) :
    passG bo d (x :: xs) = passG bo d xs := by
  unfold passG
  induction bo with
  | nil => rfl
  | cons c bo ih =>
    rw [List.flatMap_cons, List.flatMap_cons]
    have hc : (d x == c) = false := by
      simp only [beq_eq_false_iff_ne, ne_eq]
      intro e; exact h (e ▸ List.mem_cons_self)
    rw [List.filter_cons, hc]
    simp only [Bool.false_eq_true, if_false]
    rw [ih (fun h' => h (List.mem_cons_of_mem _ h'))]

theorem passG_cons_perm (bo : List Nat) (d : Nat → Nat) (x : Nat) (xs : List Nat) (hnd : bo.Nodup)
    (h : d x ∈ bo) : (passG bo d (x :: xs)).Perm (x :: passG bo d xs) := by
  induction bo with
  | nil => cases h
  | cons c bo ih =>
    rw [List.nodup_cons] at hnd
    show (List.filter (fun y => d y == c) (x :: xs) ++ passG bo d (x :: xs)).Perm
      (x :: (List.filter (fun y => d y == c) xs ++ passG bo d xs))
    by_cases hc : d x = c
    · have hni : d x ∉ bo := hc ▸ hnd.1
      rw [passG_cons_notin bo d x xs hni, List.filter_cons]
      have : (d x == c) = true := by simp [hc]
      rw [this]
      simp only [if_true, List.cons_append]
      exact List.Perm.refl _
    · have hmem : d x ∈ bo := by
        rcases List.mem_cons.mp h with e | h'
        · exact absurd e hc
        · exact h'
      have hf : (d x == c) = false := by simp [hc]
      rw [List.filter_cons, hf]
      simp only [Bool.false_eq_true, if_false]
      exact (List.Perm.append_left _ (ih hnd.2 hmem)).trans List.perm_middle

/-- a pass is a permutation when every digit has a bucket -/
theorem passG_perm (bo : List Nat) (d : Nat → Nat) (xs : List Nat) (hnd : bo.Nodup)
    (h : ∀ x ∈ xs, d x ∈ bo) : (passG bo d xs).Perm xs := by
  induction xs with
  | nil =>
    have : passG bo d [] = [] := by
      unfold passG
      rw [List.flatMap_eq_nil_iff]
      intro b _; rfl
    rw [this]
  | cons x xs ih =>
    exact (passG_cons_perm bo d x xs hnd (h x List.mem_cons_self)).trans
      (List.Perm.cons x (ih (fun y hy => h y (List.mem_cons_of_mem _ hy))))

/-- a pass is stable: the elements of every bucket keep their relative order -/
theorem passG_stable (bo : List Nat) (d : Nat → Nat) (xs : List Nat) (hnd : bo.Nodup) (b : Nat) (hb : b ∈ bo) :
    (passG bo d xs).filter (fun x => d x == b) = xs.filter (fun x => d x == b) := by
  unfold passG
  rw [List.filter_flatMap]
  rw [flatMap_single bo _ b hnd hb]
  · rw [List.filter_filter]
    congr 1
    funext x
    simp
  · intro b' _ hne
    rw [List.filter_filter, List.filter_eq_nil_iff]
    intro x _
    simp only [Bool.and_eq_true, beq_iff_eq, not_and]
    intro h1 h2
    exact hne (h2 ▸ h1)

/-- a pairwise relation holds after a pass if it holds inside every bucket and between elements of an
    earlier and a later bucket -/
theorem passG_pairwise (bo : List Nat) (d : Nat → Nat) (xs : List Nat) (R : Nat → Nat → Prop)
    (hin : ∀ b ∈ bo, (xs.filter (fun x => d x == b)).Pairwise R)
    (hacross : bo.Pairwise (fun b1 b2 => ∀ x ∈ xs, ∀ y ∈ xs, d x = b1 → d y = b2 → R x y)) :
    (passG bo d xs).Pairwise R := by
  unfold passG
  rw [List.pairwise_flatMap]
  refine ⟨hin, ?_⟩
  refine hacross.imp ?_
  intro b1 b2 h x hx y hy
  rw [List.mem_filter] at hx hy
  exact h x hx.1 y hy.1 (by simpa using hx.2) (by simpa using hy.2)

/-! ### the concrete bucket orders -/

theorem bucketOrder_nodup (t : Ty) (k : Nat) : (bucketOrder t k).Nodup := by
  unfold bucketOrder
  split
  · rw [List.nodup_append]
    refine ⟨List.nodup_range', List.nodup_range', ?_⟩
    intro a ha b hb
    rw [List.mem_range'_1] at ha hb
    omega
  · exact List.nodup_range'

theorem mem_bucketOrder (t : Ty) (k b : Nat) : b ∈ bucketOrder t k ↔ b < 256 := by
  unfold bucketOrder
  split
  · rw [List.mem_append, List.mem_range'_1, List.mem_range'_1]; omega
  · rw [List.mem_range'_1]; omega

theorem rank_lt (t : Ty) (k b : Nat) (hb : b < 256) : rank t k b < 256 := by
  unfold rank; split <;> omega

/-- `bucketOrder` lists the buckets by increasing `rank` -/
theorem bucketOrder_pairwise_rank (t : Ty) (k : Nat) :
    (bucketOrder t k).Pairwise (fun b1 b2 => rank t k b1 < rank t k b2) := by
  unfold bucketOrder rank
  split
  · rw [List.pairwise_append]
    refine ⟨?_, ?_, ?_⟩
    · refine (List.pairwise_lt_range' (s := 128) (n := 128)).imp_of_mem ?_
      intro a b ha hb hab
      rw [List.mem_range'_1] at ha hb
      omega
    · refine (List.pairwise_lt_range' (s := 0) (n := 128)).imp_of_mem ?_
      intro a b ha hb hab
      rw [List.mem_range'_1] at ha hb
      omega
    · intro a ha b hb
      rw [List.mem_range'_1] at ha hb
      omega
  · exact List.pairwise_lt_range'

theorem pass_perm (t : Ty) (k : Nat) (xs : List Nat) : (pass t k xs).Perm xs := by
  rw [pass_eq_passG]
  exact passG_perm _ _ _ (bucketOrder_nodup t k) (fun x _ => (mem_bucketOrder t k _).2 (key_lt t x k))

theorem pass_stable (t : Ty) (k : Nat) (xs : List Nat) (b : Nat) (hb : b < 256) :
    (pass t k xs).filter (fun x => key t x k == b) = xs.filter (fun x => key t x k == b) := by
  rw [pass_eq_passG]
  exact passG_stable _ (fun x => key t x k) _ (bucketOrder_nodup t k) b ((mem_bucketOrder t k b).2 hb)

theorem pass_grouped (t : Ty) (k : Nat) (xs : List Nat) :
    (pass t k xs).Pairwise (fun a b => rank t k (key t a k) ≤ rank t k (key t b k)) := by
  rw [pass_eq_passG]
  apply passG_pairwise
  · intro b _
    rw [List.pairwise_iff_forall_sublist]
    intro x y hs
    have hx : x ∈ xs.filter (fun x => key t x k == b) := hs.subset (by simp)
    have hy : y ∈ xs.filter (fun x => key t x k == b) := hs.subset (by simp)
    rw [List.mem_filter] at hx hy
    have h1 : key t x k = b := by simpa using hx.2
    have h2 : key t y k = b := by simpa using hy.2
    rw [h1, h2]
    exact Nat.le_refl _
  · refine (bucketOrder_pairwise_rank t k).imp ?_
    intro b1 b2 h x _ y _ h1 h2
    rw [h1, h2]
    exact Nat.le_of_lt h

/-! ### skipped rounds -/

theorem skipRound_iff (t : Ty) (k : Nat) (xs : List Nat) :
    skipRound t k xs = true ↔ ∃ b, b < 256 ∧ xs.countP (fun x => key t x k == b) = xs.length := by
  unfold skipRound
  rw [List.any_eq_true]
  constructor
  · rintro ⟨b, hb, h⟩
    rw [List.mem_range'_1] at hb
    exact ⟨b, by omega, by simpa using h⟩
  · rintro ⟨b, hb, h⟩
    exact ⟨b, by rw [List.mem_range'_1]; omega, by simpa using h⟩

/-- all keys of round `k` coincide -/
theorem skipRound_all (t : Ty) (k : Nat) (xs : List Nat) (h : skipRound t k xs = true) :
    ∃ b, b < 256 ∧ ∀ x ∈ xs, key t x k = b := by
  rcases (skipRound_iff t k xs).1 h with ⟨b, hb, hc⟩
  refine ⟨b, hb, ?_⟩
  rw [List.countP_eq_length] at hc
  intro x hx
  simpa using hc x hx

/-- a pass over a list whose keys all coincide changes nothing -/
theorem pass_of_all_eq (t : Ty) (k : Nat) (l : List Nat) (b : Nat) (hb : b < 256)
    (h : ∀ x ∈ l, key t x k = b) : pass t k l = l := by
  unfold pass bucket
  rw [flatMap_single (bucketOrder t k) _ b (bucketOrder_nodup t k) ((mem_bucketOrder t k b).2 hb)]
  · rw [List.filter_eq_self]
    intro x hx
    simp [h x hx]
  · intro b' _ hne
    rw [List.filter_eq_nil_iff]
    intro x hx
    simp only [beq_iff_eq]
    rw [h x hx]
    exact fun e => hne e.symm

theorem skipRound_perm (t : Ty) (k : Nat) (xs l : List Nat) (hp : l.Perm xs) :
    skipRound t k l = skipRound t k xs := by
  unfold skipRound
  congr 1
  funext b
  rw [hp.countP_eq, hp.length_eq]

end Tbx.Radix
