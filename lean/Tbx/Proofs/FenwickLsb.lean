import Tbx.Proofs.FenwickBits
/-
`n & n.wrapping_neg()` on a w-bit word is the largest power of two dividing n: the bit formula of
`largest_power_of_two_divisor` (`lsbBits`) equals the recursive `lsb` the proofs use.
-/
namespace Tbx.Fenwick

theorem and_rec (a b : Nat) :
    a &&& b = 2 * (a / 2 &&& b / 2) + (if a % 2 = 1 ∧ b % 2 = 1 then 1 else 0) := by
  have h1 := @Nat.and_div_two a b
  have h2 := @Nat.and_mod_two_eq_one a b
  by_cases h : a % 2 = 1 ∧ b % 2 = 1
  · rw [if_pos h]
    have := h2.mpr h
    omega
  · rw [if_neg h]
    have : ¬ ((a &&& b) % 2 = 1) := fun h' => h (h2.mp h')
    omega

/-- m and its complement in w bits share no bit -/
theorem and_compl (w m : Nat) (h : m < 2 ^ w) : m &&& (2 ^ w - 1 - m) = 0 := by
  induction w generalizing m with
  | zero =>
    have : m = 0 := by simpa using h
    subst this; exact Nat.zero_and _
  | succ w ih =>
    have hp : 2 ^ (w + 1) = 2 * 2 ^ w := by rw [Nat.pow_succ]; omega
    rw [hp] at h ⊢
    generalize 2 ^ w = P at h ih ⊢
    rw [and_rec]
    have h1 : (2 * P - 1 - m) / 2 = P - 1 - m / 2 := by omega
    rw [h1, ih (m / 2) (by omega)]
    have : ¬ (m % 2 = 1 ∧ (2 * P - 1 - m) % 2 = 1) := by omega
    rw [if_neg this]

theorem lsbW_eq (w n : Nat) (h : n < 2 ^ w) : n &&& ((2 ^ w - n) % 2 ^ w) = lsb n := by
  induction w generalizing n with
  | zero =>
    have : n = 0 := by simpa using h
    subst this; rw [Nat.zero_and, lsb_zero]
  | succ w ih =>
    by_cases h0 : n = 0
    · subst h0; rw [Nat.zero_and, lsb_zero]
    have hp : 2 ^ (w + 1) = 2 * 2 ^ w := by rw [Nat.pow_succ]; omega
    have hc := and_compl w (n / 2)
    rw [hp] at h ⊢
    have hP : 0 < 2 ^ w := Nat.two_pow_pos w
    generalize 2 ^ w = P at h ih hc hP ⊢
    rw [Nat.mod_eq_of_lt (by omega : 2 * P - n < 2 * P), and_rec]
    by_cases hodd : n % 2 = 1
    · have h1 : (2 * P - n) / 2 = P - 1 - n / 2 := by omega
      rw [h1, hc (by omega), lsb_odd n hodd]
      have : n % 2 = 1 ∧ (2 * P - n) % 2 = 1 := by omega
      rw [if_pos this]
    · have h1 : (2 * P - n) / 2 = P - n / 2 := by omega
      have h2 := ih (n / 2) (by omega)
      rw [Nat.mod_eq_of_lt (by omega : P - n / 2 < P)] at h2
      rw [h1, h2, lsb_even n h0 (by omega)]
      have : ¬ (n % 2 = 1 ∧ (2 * P - n) % 2 = 1) := fun h' => hodd h'.1
      rw [if_neg this, Nat.add_zero]

/-- the bit trick of the Rust (`n & n.wrapping_neg()` on 64-bit usize) is `lsb` -/
theorem lsbBits_eq (n : Nat) (h : n < 2 ^ 64) : lsbBits n = lsb n := lsbW_eq 64 n h

end Tbx.Fenwick
