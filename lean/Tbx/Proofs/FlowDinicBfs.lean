import Tbx.Proofs.FlowUniq
import Tbx.Model.FlowDinic
/-
C01 `dinic_bfs_exact`, the direction the correctness of `run` needs: if `bfs()` returns `false` then the
target is not reachable from the source through residual edges of positive capacity.
(The labels need not be exact distances for this: the source may be relabelled, see DESIGN.md C01.)
-/
namespace Tbx.Flow
open Tbx

def Lab (lv : Array Nat) (v : Nat) : Prop := gt lv v ≠ INV

theorem bfsEdges_spec (g : Graph) (hwf : WF g) (source u L : Nat) (hu : u < g.numNodes) (hus : u ≠ source)
    (hL : L + 1 ≠ INV) (k : Nat) : ∀ (e : Nat) (lv : Array Nat) (q : List Nat) (lv' : Array Nat) (q' : List Nat),
    g.beginEdges u ≤ e → e + k ≤ g.beginEdges u + g.deg u → lv.size = g.numNodes →
    Lab lv u → gt lv u = L → bfsEdges g source u e k lv q = some (lv', q') →
    lv'.size = g.numNodes ∧ gt lv' u = L ∧ (∀ x, Lab lv x → Lab lv' x) ∧ (∀ x, x ∈ q → x ∈ q') ∧
    (∀ e', e ≤ e' → e' < e + k → Lab lv' (gt g.tgt e') ∨
        ∃ rev, g.findEdge (gt g.tgt e') u = some rev ∧ gt g.cap rev < 1) ∧
    (∀ x, x ≠ source → Lab lv' x → Lab lv x ∨ (x ∈ q' ∧ gt lv' x = L + 1)) ∧
    (∀ x, x ∈ q' → x ∈ q ∨ (x < g.numNodes ∧ x ≠ source ∧ Lab lv' x)) ∧
    (∀ x, x ≠ source → Lab lv x → gt lv' x = gt lv x) := by
  induction k with
  | zero =>
    intro e lv q lv' q' _ _ hsz hlab hlu h
    simp only [bfsEdges, Option.some.injEq, Prod.mk.injEq] at h
    obtain ⟨rfl, rfl⟩ := h
    exact ⟨hsz, hlu, fun _ h => h, fun _ h => h, fun e' h1 h2 => by omega, fun _ _ h => Or.inl h,
      fun _ h => Or.inl h, fun _ _ _ => rfl⟩
  | succ k ih =>
    intro e lv q lv' q' hr1 hr2 hsz hlab hlu h
    simp only [bfsEdges] at h
    have hvn : gt g.tgt e < g.numNodes := by
      apply hwf.tgtOK
      exact hwf.inRange_lt hu ⟨hr1, by omega⟩
    split at h
    · -- already labelled, not the source
      rename_i hc
      obtain ⟨a1, a2, a3, a4, a5, a6, a7, a8⟩ := ih (e + 1) lv q lv' q' (by omega) (by omega) hsz hlab hlu h
      refine ⟨a1, a2, a3, a4, ?_, a6, a7, a8⟩
      intro e' h1 h2
      by_cases he : e' = e
      · subst he; exact Or.inl (a3 _ hc.2)
      · exact a5 e' (by omega) (by omega)
    · rename_i hc
      cases hf : g.findEdge (gt g.tgt e) u with
      | none => simp [hf] at h
      | some rev =>
        simp only [hf] at h
        split at h
        · -- reverse edge has no capacity
          rename_i hcap
          obtain ⟨a1, a2, a3, a4, a5, a6, a7, a8⟩ := ih (e + 1) lv q lv' q' (by omega) (by omega) hsz hlab hlu h
          refine ⟨a1, a2, a3, a4, ?_, a6, a7, a8⟩
          intro e' h1 h2
          by_cases he : e' = e
          · subst he; exact Or.inr ⟨rev, hf, hcap⟩
          · exact a5 e' (by omega) (by omega)
        · rename_i hcap
          -- v gets the label L + 1
          have hvu : gt g.tgt e ≠ u := by
            intro hh
            apply hc
            rw [hh]; exact ⟨hus, hlab⟩
          have hlab1 : Lab (st lv (gt g.tgt e) (gt lv u + 1)) u := by
            unfold Lab; rw [gt_st_ne _ _ _ _ hvu]; exact hlab
          have hlu1 : gt (st lv (gt g.tgt e) (gt lv u + 1)) u = L := by
            rw [gt_st_ne _ _ _ _ hvu]; exact hlu
          have hmono1 : ∀ x, Lab lv x → Lab (st lv (gt g.tgt e) (gt lv u + 1)) x := by
            intro x hx; unfold Lab at *; rw [gt_st]; split
            · rw [hlu]; exact hL
            · exact hx
          have hlabv : Lab (st lv (gt g.tgt e) (gt lv u + 1)) (gt g.tgt e) := by
            unfold Lab; rw [gt_st_eq _ _ _ (by rw [hsz]; exact hvn), hlu]; exact hL
          have hvalv : gt (st lv (gt g.tgt e) (gt lv u + 1)) (gt g.tgt e) = L + 1 := by
            rw [gt_st_eq _ _ _ (by rw [hsz]; exact hvn), hlu]
          -- old labelled non-source nodes keep their value: v was unlabelled or is the source
          have hkeep : ∀ x, x ≠ source → Lab lv x → gt (st lv (gt g.tgt e) (gt lv u + 1)) x = gt lv x := by
            intro x hxs hx
            have : gt g.tgt e ≠ x := by
              intro hh; apply hc; rw [hh]; exact ⟨hxs, hx⟩
            rw [gt_st_ne _ _ _ _ this]
          split at h
          · rename_i hvs
            obtain ⟨a1, a2, a3, a4, a5, a6, a7, a8⟩ := ih (e + 1) _ _ lv' q' (by omega) (by omega)
              (by simp [hsz]) hlab1 hlu1 h
            refine ⟨a1, a2, fun x hx => a3 x (hmono1 x hx), fun x hx => a4 x (List.mem_append_left _ hx),
              ?_, ?_, ?_, ?_⟩
            · intro e' h1 h2
              by_cases he : e' = e
              · subst he; exact Or.inl (a3 _ hlabv)
              · exact a5 e' (by omega) (by omega)
            · intro x hxs hx
              rcases a6 x hxs hx with h1 | h1
              · by_cases hxv : x = gt g.tgt e
                · right
                  refine ⟨a4 x (by rw [hxv]; exact List.mem_append_right _ (List.mem_singleton.mpr rfl)), ?_⟩
                  rw [a8 x hxs h1, hxv, hvalv]
                · left; unfold Lab at h1 ⊢
                  rw [gt_st_ne _ _ _ _ (fun hh => hxv hh.symm)] at h1; exact h1
              · exact Or.inr h1
            · intro x hx
              rcases a7 x hx with h1 | h1
              · rcases List.mem_append.mp h1 with h2 | h2
                · exact Or.inl h2
                · rw [List.mem_singleton] at h2; subst h2
                  exact Or.inr ⟨hvn, hvs, a3 _ hlabv⟩
              · exact Or.inr h1
            · intro x hxs hx
              rw [a8 x hxs (hmono1 x hx), hkeep x hxs hx]
          · rename_i hvs
            obtain ⟨a1, a2, a3, a4, a5, a6, a7, a8⟩ := ih (e + 1) _ _ lv' q' (by omega) (by omega)
              (by simp [hsz]) hlab1 hlu1 h
            refine ⟨a1, a2, fun x hx => a3 x (hmono1 x hx), a4, ?_, ?_, a7, ?_⟩
            · intro e' h1 h2
              by_cases he : e' = e
              · subst he; exact Or.inl (a3 _ hlabv)
              · exact a5 e' (by omega) (by omega)
            · intro x hxs hx
              rcases a6 x hxs hx with h1 | h1
              · have hxv : x ≠ gt g.tgt e := by
                  intro hh; apply hxs; rw [hh]
                  cases Nat.decEq (gt g.tgt e) source with
                  | isTrue h => exact h
                  | isFalse h => exact absurd h hvs
                left; unfold Lab at h1 ⊢
                rw [gt_st_ne _ _ _ _ (fun hh => hxv hh.symm)] at h1; exact h1
              · exact Or.inr h1
            · intro x hxs hx
              rw [a8 x hxs (hmono1 x hx), hkeep x hxs hx]

/-- loop invariant of the reverse BFS -/
structure BInv (g : Graph) (source t : Nat) (lv : Array Nat) (q : List Nat) (fuel : Nat) : Prop where
  hsz    : lv.size = g.numNodes
  labT   : Lab lv t
  qOK    : ∀ x, x ∈ q → x < g.numNodes ∧ x ≠ source ∧ Lab lv x
  closed : ∀ x, x < g.numNodes → x ≠ source → Lab lv x → x ∈ q ∨ ∀ v, PosEdge g v x → Lab lv v
  bound  : ∀ x, x < g.numNodes → x ≠ source → Lab lv x → gt lv x + fuel ≤ g.numNodes + 1

/-- one iteration of the BFS loop keeps the invariant -/
theorem binv_step (g : Graph) (hwf : WF g) (huq : Uniq g) (hrc : RevClosed g) (source t : Nat)
    (hN : g.numNodes + 2 < INV) (fuel : Nat) (lv : Array Nat) (u : Nat) (rest : List Nat)
    (lv1 : Array Nat) (q1 : List Nat) (hi : BInv g source t lv (u :: rest) (fuel + 1))
    (hb : bfsEdges g source u (g.beginEdges u) (g.deg u) lv rest = some (lv1, q1)) :
    BInv g source t lv1 q1 fuel := by
  obtain ⟨hun, hus, hul⟩ := hi.qOK u List.mem_cons_self
  have hbd := hi.bound u hun hus hul
  obtain ⟨a1, a2, a3, a4, a5, a6, a7, a8⟩ := bfsEdges_spec g hwf source u (gt lv u) hun hus (by omega)
    (g.deg u) (g.beginEdges u) lv rest lv1 q1 (Nat.le_refl _) (Nat.le_refl _) hi.hsz hul rfl hb
  refine ⟨a1, a3 _ hi.labT, ?_, ?_, ?_⟩
  · intro x hx
    rcases a7 x hx with h1 | h1
    · have := hi.qOK x (List.mem_cons_of_mem _ h1)
      exact ⟨this.1, this.2.1, a3 _ this.2.2⟩
    · exact h1
  · intro x hx hxs hl
    rcases a6 x hxs hl with h1 | h1
    · rcases hi.closed x hx hxs h1 with h2 | h2
      · rcases List.mem_cons.mp h2 with rfl | h3
        · -- x = u has just been expanded
          right
          intro v hpe
          obtain ⟨e0, r1, r2, r3, r4⟩ := hpe
          have hvn : v < g.numNodes := by
            rcases Nat.lt_or_ge v g.numNodes with hlt | hge
            · exact hlt
            · have := hwf.deg_zero_of_ge v hge; omega
          obtain ⟨e', re', te'⟩ := hrc v e0 hvn ⟨r1, r2⟩
          rw [r3] at re'
          rcases a5 e' re'.1 re'.2 with h4 | ⟨rev, h4, h5⟩
          · rw [te'] at h4; exact h4
          · rw [te'] at h4
            have := findEdge_eq_of_uniq huq v x e0 hvn ⟨r1, r2⟩ r3
            rw [this] at h4
            cases h4
            omega
        · exact Or.inl (a4 x h3)
      · right; intro v hv; exact a3 v (h2 v hv)
    · exact Or.inl h1.1
  · intro x hx hxs hl
    rcases a6 x hxs hl with h1 | h1
    · rw [a8 x hxs h1]
      have := hi.bound x hx hxs h1; omega
    · rw [h1.2]; omega

theorem bfsLoop_spec (g : Graph) (hwf : WF g) (huq : Uniq g) (hrc : RevClosed g) (source t : Nat)
    (hN : g.numNodes + 2 < INV) (fuel : Nat) :
    ∀ (lv : Array Nat) (q : List Nat) (lv' : Array Nat), BInv g source t lv q fuel →
    bfsLoop g source fuel lv q = some lv' →
    lv'.size = g.numNodes ∧
    Lab lv' t ∧ ∀ x, x < g.numNodes → x ≠ source → Lab lv' x → ∀ v, PosEdge g v x → Lab lv' v := by
  induction fuel with
  | zero => intro lv q lv' _ h; simp [bfsLoop] at h
  | succ fuel ih =>
    intro lv q lv' hi h
    cases q with
    | nil =>
      simp only [bfsLoop, Option.some.injEq] at h
      subst h
      refine ⟨hi.hsz, hi.labT, ?_⟩
      intro x hx hxs hl
      rcases hi.closed x hx hxs hl with h1 | h1
      · cases h1
      · exact h1
    | cons u rest =>
      simp only [bfsLoop] at h
      cases hb : bfsEdges g source u (g.beginEdges u) (g.deg u) lv rest with
      | none => simp [hb] at h
      | some r =>
        obtain ⟨lv1, q1⟩ := r
        simp only [hb] at h
        exact ih lv1 q1 lv' (binv_step g hwf huq hrc source t hN fuel lv u rest lv1 q1 hi hb) h

/-- transitive closure the other way round: `v` reaches `t` -/
inductive ReachTo (g : Graph) (t : Nat) : Nat → Prop where
  | refl : ReachTo g t t
  | step {v w : Nat} : PosEdge g v w → ReachTo g t w → ReachTo g t v

theorem reachTo_of_reachG (g : Graph) (s t : Nat) (h : ReachG g s t) : ReachTo g t s := by
  have key : ∀ v, ReachG g s v → ∀ w, ReachTo g w v → ReachTo g w s := by
    intro v hv
    induction hv with
    | refl => intro w hw; exact hw
    | step _ he ih => intro w hw; exact ih w (ReachTo.step he hw)
  exact key t h t ReachTo.refl

/-- what `bfs()` leaves untouched, and what its result means -/
theorem bfs_spec (d : Dinic) (hwf : WF d.g) (huq : Uniq d.g) (hrc : RevClosed d.g)
    (hN : d.g.numNodes + 2 < INV) (hsz : d.level.size = d.g.numNodes) (ht : d.target < d.g.numNodes)
    (hst : d.source ≠ d.target) (d' : Dinic) (b : Bool) (h : d.bfs = some (d', b)) :
    d'.g = d.g ∧ d'.parents = d.parents ∧ d'.source = d.source ∧ d'.target = d.target ∧
    d'.level.size = d.g.numNodes ∧ (b = false → ¬ ReachG d.g d.source d.target) := by
  unfold Dinic.bfs at h
  simp only at h
  cases hl : bfsLoop d.g d.source (d.g.numNodes + 1)
      (st (Array.replicate d.level.size INV) d.target 0) [d.target] with
  | none => simp [hl] at h
  | some lv =>
    simp only [hl, Option.some.injEq, Prod.mk.injEq] at h
    obtain ⟨rfl, rfl⟩ := h
    have hrep : ∀ x, x < d.level.size → gt (Array.replicate d.level.size INV) x = INV := by
      intro x hx; unfold gt; simp [Array.getD_eq_getD_getElem?, hx]
    have hlab0 : ∀ x, x < d.g.numNodes →
        Lab (st (Array.replicate d.level.size INV) d.target 0) x → x = d.target := by
      intro x hx hl'
      unfold Lab at hl'
      rw [gt_st] at hl'
      split at hl'
      · rename_i hh; exact hh.1.symm
      · exact absurd (hrep x (by rw [hsz]; exact hx)) hl'
    have hlt0 : Lab (st (Array.replicate d.level.size INV) d.target 0) d.target := by
      unfold Lab; rw [gt_st_eq _ _ _ (by simp [hsz, ht])]; unfold INV; omega
    have hinv : BInv d.g d.source d.target (st (Array.replicate d.level.size INV) d.target 0)
        [d.target] (d.g.numNodes + 1) := by
      refine ⟨by simp [hsz], hlt0, ?_, ?_, ?_⟩
      · intro x hx; rw [List.mem_singleton] at hx; subst hx
        exact ⟨ht, fun e => hst e.symm, hlt0⟩
      · intro x hx _ hl'
        left; rw [hlab0 x hx hl']; exact List.mem_singleton.mpr rfl
      · intro x hx _ hl'
        rw [hlab0 x hx hl', gt_st_eq _ _ _ (by simp [hsz, ht])]; omega
    obtain ⟨a0, a1, a2⟩ := bfsLoop_spec d.g hwf huq hrc d.source d.target hN _ _ _ lv hinv hl
    refine ⟨rfl, rfl, rfl, rfl, a0, ?_⟩
    intro hb hreach
    have hns : gt lv d.source = INV := by
      cases Nat.decEq (gt lv d.source) INV with
      | isTrue h => exact h
      | isFalse h => simp [h] at hb
    have key : ∀ v, ReachTo d.g d.target v → Lab lv v ∨ Lab lv d.source := by
      intro v hv
      induction hv with
      | refl => exact Or.inl a1
      | @step v w he _ ih =>
        rcases ih with h1 | h1
        · by_cases hws : w = d.source
          · right; rw [← hws]; exact h1
          · left
            have hwn : w < d.g.numNodes := by
              obtain ⟨e, _, _, h3, h4⟩ := he
              rw [← h3]; exact hwf.targetsOK e h4
            exact a2 w hwn hws h1 v he
        · exact Or.inr h1
    rcases key d.source (reachTo_of_reachG d.g d.source d.target hreach) with h1 | h1
    · exact h1 hns
    · exact h1 hns

end Tbx.Flow
