import Tbx.Proofs.LruL1List
/-
`move_to_front` on a well-formed list: the node is unlinked (also when it is the back, in which
case `back` moves to its `next`), relinked at the front, no error branch is reached, and the
abstract chain changes as the L0 model says.
-/
namespace Tbx.LruL1
open Tbx

variable {T : Type}

theorem memOK_mono (cells : Array (Option (Node T))) (freed A A' : List Nat) (hA : ∀ a ∈ A, a ∈ A')
    (h : MemOK cells freed A) : MemOK cells freed A' :=
  ⟨fun a n hn => hA a (h.1 a n hn), h.2⟩

theorem lastOr_mem (l : List (Nat × T)) (h : l ≠ []) (nx : Option Nat) :
    ∃ a, a ∈ addrs l ∧ lastOr l nx = some a := by
  rcases eq_nil_or_snoc l with e | ⟨l', ⟨a, t⟩, e⟩
  · exact absurd e h
  · exact ⟨a, by rw [e]; simp [addrs], by rw [e, lastOr_concat]⟩

/-- unlinking `b` (second half: the successor towards the back, and `back`) -/
theorem mtf_relink_back (c1 : Array (Option (Node T))) (fr : List Nat) (A : List Nat)
    (l1 l2 : List (Nat × T)) (b a' : Nat) (tb : T) (sback : Option Nat)
    (hs1 : Seg c1 none l1 (headOr l2 none)) (hs2 : Seg c1 (some b) l2 none)
    (hgb : gt c1 b = some ⟨some a', headOr l2 none, tb⟩)
    (hbl2 : b ∉ addrs l2) (hnd2 : (addrs l2).Nodup) (hdisj : ∀ a ∈ addrs l1, a ∉ addrs l2)
    (hback : sback = lastOr l2 (some b)) (hm : MemOK c1 fr A) :
    ∃ c2 bk, LL.mtfRelinkC ({ cells := c1, freed := fr } : Mem T) ⟨some a', headOr l2 none, tb⟩
        = .ok { cells := c2, freed := fr } ∧
      sback = some bk ∧
      LL.mtfFixBack ({ cells := c2, freed := fr } : Mem T) (some bk) bk b (some a') = .ok (lastOr l2 (some a')) ∧
      Seg c2 none l1 (headOr l2 none) ∧ Seg c2 (some a') l2 none ∧
      gt c2 b = some ⟨some a', headOr l2 none, tb⟩ ∧ MemOK c2 fr A ∧ c2.size = c1.size := by
  cases l2 with
  | nil =>
    refine ⟨c1, b, by simp [LL.mtfRelinkC, headOr], by simpa [lastOr] using hback, ?_, hs1, trivial, hgb, hm, rfl⟩
    simp only [LL.mtfFixBack, if_true]
    rw [rd_ok _ _ _ hgb]; simp [headOr, lastOr]
  | cons p l2' =>
    obtain ⟨c, tc⟩ := p
    simp only [Seg] at hs2
    simp only [addrs, List.map_cons, List.nodup_cons, List.mem_cons, not_or] at hnd2 hbl2
    have hcl1 : c ∉ addrs l1 := fun hmem => hdisj c hmem (by simp [addrs])
    let c2 := st c1 c (some ⟨some a', headOr l2' none, tc⟩)
    obtain ⟨bk, hbkm, hbk⟩ := lastOr_mem ((c, tc) :: l2') (by simp) (some b)
    have hbkb : ¬ bk = b := by
      intro e; subst e
      simp only [addrs, List.map_cons, List.mem_cons] at hbkm
      rcases hbkm with e | e
      · exact hbl2.1 e
      · exact hbl2.2 e
    refine ⟨c2, bk, ?_, by rw [hback, hbk], ?_, ?_, ?_, ?_, memOK_st_some _ _ _ _ _ _ hs2.1 hm, by simp [c2]⟩
    · simp only [LL.mtfRelinkC, headOr]
      rw [setNext_ok _ _ _ _ hs2.1]
    · simp only [LL.mtfFixBack, if_neg hbkb]
      rw [← hbk]; rfl
    · apply seg_frame _ _ _ _ _ _ hs1
      intro a ha
      exact gt_st_ne _ _ _ _ (fun e => hcl1 (e ▸ ha))
    · exact seg_set_head_next c1 c tc l2' (some b) (some a') none hnd2.1 (by simp only [Seg]; exact hs2)
    · show gt c2 b = _
      rw [gt_st_ne _ _ _ _ (fun e => hbl2.1 e.symm)]; exact hgb

theorem moveToFront_wf_ne (s : LL T) (l1 l2 : List (Nat × T)) (b : Nat) (tb : T) (hl1ne : l1 ≠ [])
    (h : WF s (l1 ++ (b, tb) :: l2)) :
    ∃ s', LL.moveToFront s b = .ok s' ∧ WF s' ((b, tb) :: (l1 ++ l2)) ∧ s'.mem.freed = s.mem.freed ∧
      s'.mem.cells.size = s.mem.cells.size := by
  have hlen : ¬ s.len = 0 := by rw [h.len]; simp
  -- name the chain before `b` once as a cons and once as a snoc
  obtain ⟨⟨x', tx⟩, l1'', hl1⟩ : ∃ p r, l1 = p :: r := by
    cases l1 with
    | nil => exact absurd rfl hl1ne
    | cons p r => exact ⟨p, r, rfl⟩
  obtain ⟨l1', ⟨a', ta⟩, hl1s⟩ : ∃ l1' y, l1 = l1' ++ [y] := by
    rcases eq_nil_or_snoc l1 with e | e
    · exact absurd e hl1ne
    · exact e
  have main : ∃ s', LL.moveToFront s b = .ok s' ∧ WF s' ((b, tb) :: (l1 ++ l2)) ∧ s'.mem.freed = s.mem.freed ∧
      s'.mem.cells.size = s.mem.cells.size := by
    -- distinctness facts
    have hnd := h.nodup
    simp only [addrs, List.map_append, List.map_cons] at hnd
    obtain ⟨hnd1, hnd2b, hdisj⟩ := List.nodup_append.1 hnd
    have hnd2 := (List.nodup_cons.1 hnd2b).2
    have hbl2 : b ∉ addrs l2 := (List.nodup_cons.1 hnd2b).1
    have hbl1 : b ∉ addrs l1 := fun hm => hdisj b hm b (by simp) rfl
    have hdisj12 : ∀ a ∈ addrs l1, a ∉ addrs l2 := fun a ha ha2 => hdisj a ha a (by simp [addrs] at ha2 ⊢; exact Or.inr ha2) rfl
    have hx'l1 : x' ∈ addrs l1 := by rw [hl1]; simp [addrs]
    have ha'l1 : a' ∈ addrs l1 := by rw [hl1s]; simp [addrs]
    have hx'b : x' ≠ b := fun e => hbl1 (e ▸ hx'l1)
    have ha'b : a' ≠ b := fun e => hbl1 (e ▸ ha'l1)
    have hx'l1'' : x' ∉ addrs l1'' := by
      have := hnd1; rw [hl1] at this
      simp only [List.map_cons, List.nodup_cons] at this; exact this.1
    have ha'l1' : a' ∉ addrs l1' := by
      have := hnd1; rw [hl1s] at this
      simp only [List.map_append, List.map_cons, List.map_nil] at this
      obtain ⟨_, _, hd⟩ := List.nodup_append.1 this
      exact fun hm => hd a' hm a' (by simp) rfl
    have hfx : s.front = some x' := by rw [h.front, headOr_append, hl1]; rfl
    have hfr : ¬ s.front = some b := by rw [hfx]; simpa using hx'b
    have hlast1 : ∀ nx, lastOr l1 nx = some a' := fun nx => by rw [hl1s, lastOr_concat]
    -- the chain in memory
    obtain ⟨hs1, hsb⟩ := (seg_append _ _ _ _ _).1 h.seg
    simp only [Seg, headOr] at hsb hs1
    obtain ⟨hgb, hs2⟩ := hsb
    rw [hlast1] at hgb
    have hga' : gt s.mem.cells a' = some ⟨lastOr l1' none, some b, ta⟩ := by
      have := hs1; rw [hl1s, seg_append] at this
      have h2 := this.2
      simp only [Seg, headOr, and_true] at h2; exact h2
    -- W1: (*a).prev = (*b).prev
    let c1 := st s.mem.cells a' (some ⟨lastOr l1' none, headOr l2 none, ta⟩)
    have e1 : s.mem.rd b = .ok ⟨some a', headOr l2 none, tb⟩ := rd_ok _ _ _ hgb
    have e2 : s.mem.setPrev a' (headOr l2 none) = .ok { cells := c1, freed := s.mem.freed } := by
      rw [setPrev_ok _ _ _ _ hga']
    have hs1_1 : Seg c1 none l1 (headOr l2 none) := by
      have := hs1; rw [hl1s] at this ⊢
      exact seg_set_last_prev s.mem.cells a' ta l1' none (some b) (headOr l2 none) ha'l1' this
    have hs2_1 : Seg c1 (some b) l2 none := by
      apply seg_frame _ _ _ _ _ _ hs2
      intro a ha
      exact gt_st_ne _ _ _ _ (fun e => hdisj12 a' ha'l1 (e ▸ ha))
    have hgb1 : gt c1 b = some ⟨some a', headOr l2 none, tb⟩ := by
      show gt (st _ _ _) b = _
      rw [gt_st_ne _ _ _ _ ha'b]; exact hgb
    have e3 : ({ cells := c1, freed := s.mem.freed } : Mem T).rd b = .ok ⟨some a', headOr l2 none, tb⟩ :=
      rd_ok _ _ _ hgb1
    have hm1 : MemOK c1 s.mem.freed (addrs (l1 ++ (b, tb) :: l2)) := memOK_st_some _ _ _ _ _ _ hga' h.mem
    have hback0 : s.back = lastOr l2 (some b) := by rw [h.back, lastOr_append]; rfl
    -- W2 and the back pointer
    obtain ⟨c2, bk, e4, hbk, e5, hs1_2, hs2_2, hgb2, hm2, hsz2⟩ :=
      mtf_relink_back c1 s.mem.freed _ l1 l2 b a' tb s.back hs1_1 hs2_1 hgb1 hbl2 hnd2 hdisj12 hback0 hm1
    -- W3: (*b).prev = front; (*b).next = None
    let c3 := st c2 b (some ⟨some a', some x', tb⟩)
    let c4 := st c3 b (some ⟨none, some x', tb⟩)
    have hblt : b < c2.size := lt_size_of_gt_some _ _ _ hgb2
    have hgb3 : gt c3 b = some ⟨some a', some x', tb⟩ := gt_st_eq _ _ _ hblt
    have hgb4 : gt c4 b = some ⟨none, some x', tb⟩ := gt_st_eq _ _ _ (by simp [c3]; exact hblt)
    have e6 : ({ cells := c2, freed := s.mem.freed } : Mem T).setPrev b (some x')
        = .ok { cells := c3, freed := s.mem.freed } := by rw [setPrev_ok _ _ _ _ hgb2]
    have e7 : ({ cells := c3, freed := s.mem.freed } : Mem T).setNext b none
        = .ok { cells := c4, freed := s.mem.freed } := by rw [setNext_ok _ _ _ _ hgb3]
    have hframe4 : ∀ a, a ≠ b → gt c4 a = gt c2 a := by
      intro a ha
      show gt (st (st c2 b _) b _) a = _
      rw [gt_st_ne _ _ _ _ (fun e => ha e.symm), gt_st_ne _ _ _ _ (fun e => ha e.symm)]
    have hs1_4 : Seg c4 none l1 (headOr l2 none) := by
      apply seg_frame _ _ _ _ _ _ hs1_2
      intro a ha; exact hframe4 a (fun e => hbl1 (e ▸ ha))
    have hs2_4 : Seg c4 (some a') l2 none := by
      apply seg_frame _ _ _ _ _ _ hs2_2
      intro a ha; exact hframe4 a (fun e => hbl2 (e ▸ ha))
    -- W4: (*front).next = Some(b)
    have hgx4 : gt c4 x' = some ⟨none, headOr l1'' (headOr l2 none), tx⟩ := by
      have := hs1_4; rw [hl1] at this; simp only [Seg] at this; exact this.1
    let c5 := st c4 x' (some ⟨some b, headOr l1'' (headOr l2 none), tx⟩)
    have e8 : ({ cells := c4, freed := s.mem.freed } : Mem T).setNext x' (some b)
        = .ok { cells := c5, freed := s.mem.freed } := by rw [setNext_ok _ _ _ _ hgx4]
    have hs1_5 : Seg c5 (some b) l1 (headOr l2 none) := by
      have := hs1_4; rw [hl1] at this ⊢
      exact seg_set_head_next c4 x' tx l1'' none (some b) (headOr l2 none) hx'l1'' this
    have hs2_5 : Seg c5 (some a') l2 none := by
      apply seg_frame _ _ _ _ _ _ hs2_4
      intro a ha
      exact gt_st_ne _ _ _ _ (fun e => hdisj12 x' hx'l1 (e ▸ ha))
    have hgb5 : gt c5 b = some ⟨none, some x', tb⟩ := by
      show gt (st _ _ _) b = _
      rw [gt_st_ne _ _ _ _ hx'b]; exact hgb4
    have hm5 : MemOK c5 s.mem.freed (addrs (l1 ++ (b, tb) :: l2)) :=
      memOK_st_some _ _ _ _ _ _ hgx4 (memOK_st_some _ _ _ _ _ _ hgb3 (memOK_st_some _ _ _ _ _ _ hgb2 hm2))
    refine ⟨{ mem := { cells := c5, freed := s.mem.freed }, front := some b, back := lastOr l2 (some a'), len := s.len },
      ?_, ?_, rfl, by simp [c5, c4, c3, hsz2, c1]⟩
    · simp only [LL.moveToFront, if_neg hlen, if_neg hfr]
      rw [e1]; simp only []
      rw [e2]; simp only []
      rw [e3]; simp only []
      rw [e4]; simp only []
      rw [hbk]; simp only []
      rw [e5]; simp only []
      rw [hfx]
      rw [e6]; simp only []
      rw [e7]; simp only []
      rw [e8]
    · refine ⟨?_, ?_, rfl, ?_, ?_, h.freedNodup, ?_⟩
      · simp only [Seg]
        refine ⟨?_, ?_⟩
        · rw [hgb5, headOr_append, hl1]; rfl
        · rw [seg_append, hlast1]; exact ⟨hs1_5, hs2_5⟩
      · simp only [addrs, List.map_cons, List.map_append, List.nodup_cons, List.mem_append, not_or]
        refine ⟨⟨hbl1, hbl2⟩, List.nodup_append.2 ⟨hnd1, hnd2, ?_⟩⟩
        intro a ha a2 ha2 e
        exact hdisj12 a ha (e ▸ ha2)
      · show lastOr l2 (some a') = lastOr ((b, tb) :: (l1 ++ l2)) none
        show _ = lastOr (l1 ++ l2) (some b)
        rw [lastOr_append, hlast1]
      · show s.len = ((b, tb) :: (l1 ++ l2)).length
        rw [h.len]; simp; omega
      · apply memOK_mono _ _ _ _ _ hm5
        intro a ha
        simp only [addrs, List.map_append, List.map_cons, List.mem_append, List.mem_cons] at ha ⊢
        rcases ha with ha | ha | ha
        · exact Or.inr (Or.inl ha)
        · exact Or.inl ha
        · exact Or.inr (Or.inr ha)
  exact main

theorem moveToFront_wf (s : LL T) (l1 l2 : List (Nat × T)) (b : Nat) (tb : T)
    (h : WF s (l1 ++ (b, tb) :: l2)) :
    ∃ s', LL.moveToFront s b = .ok s' ∧ WF s' ((b, tb) :: (l1 ++ l2)) ∧ s'.mem.freed = s.mem.freed ∧
      s'.mem.cells.size = s.mem.cells.size := by
  cases l1 with
  | nil =>
    have hlen : ¬ s.len = 0 := by rw [h.len]; simp
    have hf : s.front = some b := h.front
    exact ⟨s, by simp [LL.moveToFront, hlen, hf], h, rfl, rfl⟩
  | cons px l1'' => exact moveToFront_wf_ne s (px :: l1'') l2 b tb (by simp) h

end Tbx.LruL1
