import Tbx.Proofs.FlowDinicPos
import Tbx.Proofs.FlowUniqEK
/-
Measures for the termination proofs: the number of unmarked entries of a parent / level array, the
pigeonhole bound on simple chains, totality of `pathIter` on a parent chain, and the bound of the flow
value by the sum of all capacities.
-/
namespace Tbx.Flow
open Tbx Tbx.FlowTheory Tbx.FlowSpec

/-- number of indices `i < k` whose entry is `INV` -/
def unm (a : Array Nat) : Nat → Nat
  | 0 => 0
  | k + 1 => unm a k + (if gt a k = INV then 1 else 0)

theorem unm_le (a : Array Nat) (k : Nat) : unm a k ≤ k := by
  induction k with
  | zero => simp [unm]
  | succ k ih => simp only [unm]; split <;> omega

theorem unm_st_ge (a : Array Nat) (v x k : Nat) (hv : k ≤ v) : unm (st a v x) k = unm a k := by
  induction k with
  | zero => rfl
  | succ k ih =>
    simp only [unm]
    rw [ih (by omega), gt_st_ne _ _ _ _ (by omega)]

/-- marking an unmarked entry -/
theorem unm_st_mark (a : Array Nat) (v x k : Nat) (hv : v < k) (hsz : v < a.size) (hI : gt a v = INV)
    (hx : x ≠ INV) : unm (st a v x) k + 1 = unm a k := by
  induction k with
  | zero => omega
  | succ k ih =>
    simp only [unm]
    by_cases hvk : v = k
    · subst hvk
      rw [unm_st_ge _ _ _ _ (Nat.le_refl _), gt_st_eq _ _ _ hsz, if_neg hx, if_pos hI]
    · rw [gt_st_ne _ _ _ _ hvk]
      have := ih (by omega)
      omega

/-- overwriting a marked entry with another mark -/
theorem unm_st_remark (a : Array Nat) (v x k : Nat) (hI : gt a v ≠ INV) (hx : x ≠ INV) :
    unm (st a v x) k = unm a k := by
  induction k with
  | zero => rfl
  | succ k ih =>
    simp only [unm]
    rw [ih]
    by_cases hvk : v = k
    · subst hvk
      rw [gt_st]
      split
      · simp [hx, hI]
      · rfl
    · rw [gt_st_ne _ _ _ _ hvk]

/-- resetting a marked entry -/
theorem unm_st_reset (a : Array Nat) (v k : Nat) (hv : v < k) (hsz : v < a.size) (hI : gt a v ≠ INV) :
    unm (st a v INV) k = unm a k + 1 := by
  induction k with
  | zero => omega
  | succ k ih =>
    simp only [unm]
    by_cases hvk : v = k
    · subst hvk
      rw [unm_st_ge _ _ _ _ (Nat.le_refl _), gt_st_eq _ _ _ hsz, if_pos rfl, if_neg hI]
    · rw [gt_st_ne _ _ _ _ hvk]
      have := ih (by omega)
      omega

theorem unm_replicate (n k : Nat) (hk : k ≤ n) : unm (Array.replicate n INV) k = k := by
  induction k with
  | zero => rfl
  | succ k ih =>
    simp only [unm]
    have : gt (Array.replicate n INV) k = INV := by
      unfold gt; simp [Array.getD_eq_getD_getElem?, show k < n by omega]
    rw [ih (by omega), if_pos this]

/-- pigeonhole: a duplicate-free list of numbers below n has at most n elements -/
theorem nodup_length_le (n : Nat) (l : List Nat) (hnd : l.Nodup) (h : ∀ x, x ∈ l → x < n) : l.length ≤ n := by
  obtain ⟨p, hp⟩ := exists_fin_list n l h
  have hndp : p.Nodup := by apply List.Nodup.of_map Fin.val; rw [hp]; exact hnd
  have := List.Nodup.length_le_card hndp
  rw [← hp, List.length_map]
  simpa using this

/-- a parent chain is what `PathIter` yields, given enough fuel -/
theorem pathIter_of_pchain {n s : Nat} {ps : Array Nat} (hs : s < n) (hps : gt ps s = s) (hN : n ≤ INV)
    {v : Nat} {l : List Nat} (h : PChain n s ps v l) : ∀ fuel, l.length ≤ fuel → pathIter ps fuel v = some l := by
  induction h with
  | base =>
    intro fuel hf
    cases fuel with
    | zero => simp at hf
    | succ f =>
      simp only [pathIter]
      rw [if_neg (by omega), if_pos hps.symm]
  | @step y l h1 h2 h3 h4 h5 ih =>
    intro fuel hf
    cases fuel with
    | zero => simp at hf
    | succ f =>
      simp only [pathIter]
      obtain ⟨tl, rfl⟩ := pchain_head h4
      have hne : y ≠ gt ps y := fun e => h5 (by rw [← e]; exact List.mem_cons_self)
      rw [if_neg (by omega), if_neg hne, ih f (by simpa using hf)]
      rfl

/-- a simple chain fits into the fuel `n + 1` -/
theorem pchain_length_le {n s : Nat} {ps : Array Nat} (hs : s < n) (hps : gt ps s = s) (hN : n ≤ INV)
    {v : Nat} {l : List Nat} (h : PChain n s ps v l) : l.length ≤ n := by
  obtain ⟨a, b, _⟩ := pchain_props hs hps hN h
  exact nodup_length_le n l b (fun x hx => (a x hx).1)

/-- from the rank formulation of the search tree to an explicit chain -/
theorem pchain_of_tree (g : Graph) (s : Nat) (ps : Array Nat) (rank : Nat → Nat)
    (hr : ∀ v, v < g.numNodes → v ≠ s → Marked ps v →
      gt ps v < g.numNodes ∧ Marked ps (gt ps v) ∧ rank (gt ps v) < rank v ∧ PosEdge g (gt ps v) v)
    (k : Nat) : ∀ v, v < g.numNodes → Marked ps v → rank v ≤ k →
    ∃ l, PChain g.numNodes s ps v l ∧ ∀ y, y ∈ l → rank y ≤ rank v := by
  induction k with
  | zero =>
    intro v hv hm hk
    by_cases hvs : v = s
    · subst hvs; exact ⟨[v], PChain.base, fun y hy => by rw [List.mem_singleton] at hy; rw [hy]⟩
    · have := (hr v hv hvs hm).2.2.1; omega
  | succ k ih =>
    intro v hv hm hk
    by_cases hvs : v = s
    · subst hvs; exact ⟨[v], PChain.base, fun y hy => by rw [List.mem_singleton] at hy; rw [hy]⟩
    · obtain ⟨a, b, c, _⟩ := hr v hv hvs hm
      obtain ⟨l, hl, hrank⟩ := ih (gt ps v) a b (by omega)
      refine ⟨v :: l, PChain.step hvs hv a hl ?_, ?_⟩
      · intro hm'; have := hrank v hm'; omega
      · intro y hy
        rcases List.mem_cons.mp hy with rfl | hy'
        · exact Nat.le_refl _
        · have := hrank y hy'; omega

/-! ### the flow value is bounded by the sum of all capacities -/

theorem cutCapL_le_total (es : List E) (hnn : ∀ e, e ∈ es → 0 ≤ e.2.2) (inA : Nat → Bool) :
    cutCapL es inA ≤ (es.map fun e => e.2.2).sum := by
  induction es with
  | nil => simp [cutCapL]
  | cons a L ih =>
    have h1 := ih (fun e he => hnn e (List.mem_cons_of_mem _ he))
    have h2 := hnn a List.mem_cons_self
    simp only [cutCapL, List.map_cons, List.sum_cons] at h1 ⊢
    split <;> omega

theorem finv_flow_le_total (es : List E) (hnn : ∀ e, e ∈ es → 0 ≤ e.2.2) (s t : Fin (nNodes es)) (hst : s ≠ t)
    (g : Graph) (flow : ℤ) (hi : FInv (cF es (nNodes es)) s t g flow) :
    flow ≤ (es.map fun e => e.2.2).sum := by
  have hf := resFlow_isFlow hi.inv hi.cons
  have hw := weak_duality hf (setOf (nNodes es) (fun v => v == s.val))
    (by rw [mem_setOf]; simp) (by rw [mem_setOf]; simp; exact fun e => hst (Fin.ext e.symm))
  rw [hi.val] at hw
  rw [← cutCapL_eq es (nNodes es) (fun e he => by
    have := FlowTheory.le_maxId es e he
    unfold nNodes; omega)] at hw
  exact le_trans hw (cutCapL_le_total es hnn _)

end Tbx.Flow
