import Tbx.Proofs.DGraphNode
import Tbx.Proofs.DGraphWrite
import Tbx.Proofs.DGraphPlace
/-
`insert_edge` (composition of the node loops, `placeSlice`, `writeEdge`), `remove_edge` and
`data_mut`: invariant preservation and effect on the adjacency lists.
-/
namespace Tbx.DG
open Tbx
open Tbx.SG (InEdge EEntry maxId)

/-! ### insert_edge -/

theorem insertEdge_inv (g : Graph) (s t : Nat) (d : Int) (hI : Inv g) (ht : t ≠ maxId) :
    ∃ g', insertEdge g s t d = some g' ∧ Inv g' ∧ g'.numNodes = max g.numNodes (max s t + 1) ∧
      g'.numEdges = g.numEdges + 1 ∧ (adjM g' s).Perm (adjM g s ++ [(t, d)]) ∧
      (∀ v, v ≠ s → adjM g' v = adjM g v) := by
  obtain ⟨g1, h1, hI1, hn1, hm1, _, _, ha1⟩ := ensureNode_inv (s + 1 - g.numNodes) g s hI (Nat.le_refl _)
  obtain ⟨g2, h2, hI2, hn2, hm2, _, _, ha2⟩ := ensureNode_inv (t + 1 - g1.numNodes) g1 t hI1 (Nat.le_refl _)
  have hs2 : s < g2.numNodes := by omega
  obtain ⟨g3, h3⟩ := Option.isSome_iff_exists.mp (placeSlice_isSome g2 s d hI2 hs2)
  obtain ⟨hI3, hn3, hm3, hfree, hsp, hp3, ha3⟩ := placeSlice_inv g2 g3 s d hI2 hs2 h3
  have hs3 : s < g3.nodes.size := by have := hI3.size; omega
  obtain ⟨g4, h4⟩ := Option.isSome_iff_exists.mp (writeEdge_isSome g3 s t d hs3 hfree)
  obtain ⟨hI4, hn4, hm4, hs4, ha4⟩ := writeEdge_inv g3 g4 s t d hI3 (by omega) ht hsp h4
  refine ⟨g4, ?_, hI4, by omega, by omega, ?_, ?_⟩
  · unfold insertEdge
    rw [h1]; simp only [Option.bind_some]
    rw [h2]; simp only [Option.bind_some]
    rw [h3]; simp only [Option.bind_some]
    exact h4
  · rw [hs4]
    apply List.Perm.append_right
    rw [← ha1 s, ← ha2 s]; exact hp3
  · intro v hv
    rw [ha4 v hv, ha3 v hv, ha2 v, ha1 v]

/-! ### list lemmas for replacing one position -/

theorem map_replace_perm {α : Type} (R : List Nat) (hnd : R.Nodup) (e : Nat) (he : e ∈ R) (f : Nat → α) (y : α) :
    (R.map f ++ [y]).Perm (f e :: R.map (fun x => if x = e then y else f x)) := by
  induction R with
  | nil => cases he
  | cons r R' ih =>
    have hnd' := (List.nodup_cons.mp hnd)
    by_cases c : r = e
    · subst c
      have hsame : R'.map (fun x => if x = r then y else f x) = R'.map f := by
        apply List.map_congr_left
        intro x hx
        have : x ≠ r := fun h => hnd'.1 (h ▸ hx)
        simp [this]
      simp only [List.map_cons, List.cons_append, if_true, hsame]
      exact List.Perm.cons _ (List.perm_append_singleton _ _)
    · have he' : e ∈ R' := by
        rcases List.mem_cons.mp he with h | h
        · exact absurd h.symm c
        · exact h
      have := ih hnd'.2 he'
      simp only [List.map_cons, List.cons_append, if_neg c]
      exact (List.Perm.cons _ this).trans (List.Perm.swap _ _ _)

theorem map_replace_perm2 {α : Type} (R : List Nat) (hnd : R.Nodup) (e : Nat) (he : e ∈ R) (f : Nat → α) (y : α) :
    (f e :: R.map (fun x => if x = e then y else f x)).Perm (y :: R.map f) := by
  induction R with
  | nil => cases he
  | cons r R' ih =>
    have hnd' := (List.nodup_cons.mp hnd)
    by_cases c : r = e
    · subst c
      have hsame : R'.map (fun x => if x = r then y else f x) = R'.map f := by
        apply List.map_congr_left
        intro x hx
        have : x ≠ r := fun h => hnd'.1 (h ▸ hx)
        simp [this]
      simp only [List.map_cons, if_true, hsame]
      exact List.Perm.swap _ _ _
    · have he' : e ∈ R' := by
        rcases List.mem_cons.mp he with h | h
        · exact absurd h.symm c
        · exact h
      have := ih hnd'.2 he'
      simp only [List.map_cons, if_neg c]
      exact ((List.Perm.swap _ _ _).trans (List.Perm.cons _ this)).trans (List.Perm.swap _ _ _)

theorem count_le_sumCounts (nodes : Array NEntry) (n s : Nat) (hs : s < n) : (gt nodes s).count ≤ sumCounts nodes n := by
  induction n with
  | zero => omega
  | succ n ih =>
    simp only [sumCounts]
    by_cases c : s = n
    · subst c; omega
    · have := ih (by omega); omega

/-! ### remove_edge -/

theorem removeEdge_inv (g : Graph) (s e : Nat) (hI : Inv g) (hs : s < g.numNodes) (ho : owns g s e) :
    ∃ g', removeEdge g s e = some g' ∧ Inv g' ∧ g'.numNodes = g.numNodes ∧ g'.numEdges + 1 = g.numEdges ∧
      (adjM g s).Perm ((target g e, data g e) :: adjM g' s) ∧ (∀ v, v ≠ s → adjM g' v = adjM g v) := by
  have hsz := hI.size
  have hsn : s < g.nodes.size := by omega
  have hb := hI.bound s hsn
  have hcs := count_le_sumCounts g.nodes g.numNodes s hs
  have hed := hI.edges
  generalize hF : (gt g.nodes s).first = F at *
  generalize hC : (gt g.nodes s).count = C at *
  have ow_s0 : ∀ x, owns g s x ↔ (F ≤ x ∧ x < F + C) := by
    intro x; unfold owns; rw [hF, hC]
  have hoe := (ow_s0 e).mp ho
  have hC1 : 1 ≤ C := by omega
  -- the resulting graph
  let es := swapE g.edges (F + (C - 1)) e
  let g' : Graph := { g with numEdges := g.numEdges - 1, nodes := st g.nodes s ⟨F, C - 1⟩,
                             edges := st es (F + (C - 1)) { gt es (F + (C - 1)) with tgt := maxId } }
  have hres : removeEdge g s e = some g' := by
    unfold removeEdge
    rw [if_neg (by rw [hC]; omega)]
    simp only [hF, hC]
    rw [if_neg (by omega)]
  refine ⟨g', hres, ?_⟩
  have hn : g'.nodes = st g.nodes s ⟨F, C - 1⟩ := rfl
  have hnn : g'.numNodes = g.numNodes := rfl
  have hne : g'.numEdges = g.numEdges - 1 := rfl
  have esz : g'.edges.size = g.edges.size := by simp [g', es]
  have gn : ∀ v, gt g'.nodes v = if v = s then ⟨F, C - 1⟩ else gt g.nodes v := by
    intro v; rw [hn, gt_st]
    by_cases c : s = v
    · subst c; simp [hsn]
    · have : ¬ v = s := fun h => c h.symm
      simp [c, this]
  have ge_last : (gt g'.edges (F + (C - 1))).tgt = maxId := by
    show (gt (st es (F + (C - 1)) _) (F + (C - 1))).tgt = maxId
    rw [gt_st_eq _ _ _ (by simp [es]; omega)]
  have ge : ∀ k, k ≠ F + (C - 1) → gt g'.edges k = if k = e then gt g.edges (F + (C - 1)) else gt g.edges k := by
    intro k hk
    show gt (st es (F + (C - 1)) _) k = _
    rw [gt_st_ne _ _ _ _ (fun h => hk h.symm)]
    show gt (swapE g.edges (F + (C - 1)) e) k = _
    rw [gt_swapE _ _ _ _ (by omega) (by omega), if_neg hk]
  clear_value g'
  have ow_ne : ∀ v x, v ≠ s → (owns g' v x ↔ owns g v x) := by
    intro v x hv; unfold owns; rw [gn, if_neg hv]
  have ow_s : ∀ x, owns g' s x ↔ (F ≤ x ∧ x < F + (C - 1)) := by
    intro x; unfold owns; rw [gn, if_pos rfl]
  have keep : ∀ v x, v ≠ s → owns g v x → gt g'.edges x = gt g.edges x := by
    intro v x hv hx
    have hns : ¬ (F ≤ x ∧ x < F + C) := fun c => hv (hI.disj v s x hx ((ow_s0 x).mpr c))
    rw [ge x (by omega), if_neg (by omega)]
  refine ⟨⟨?_, ?_, ?_, ?_, ?_, ?_, ?_⟩, hnn, ?_, ?_, ?_⟩
  · rw [hn, hnn]; simp; exact hI.size
  · intro v hv
    rw [hn] at hv; simp only [size_st] at hv
    rw [esz, gn]
    by_cases c : v = s
    · rw [if_pos c]; simp only; omega
    · rw [if_neg c]; exact hI.bound v hv
  · intro v hv
    rw [hnn] at hv
    rw [gn, if_neg (by omega)]; exact hI.extra v hv
  · intro u v x h1 h2
    by_cases cu : u = s <;> by_cases cv : v = s
    · omega
    · subst cu
      rw [ow_s] at h1; rw [ow_ne v x cv] at h2
      exact hI.disj _ _ x ((ow_s0 x).mpr (by omega)) h2
    · subst cv
      rw [ow_s] at h2; rw [ow_ne u x cu] at h1
      exact hI.disj _ _ x h1 ((ow_s0 x).mpr (by omega))
    · rw [ow_ne u x cu] at h1; rw [ow_ne v x cv] at h2
      exact hI.disj _ _ x h1 h2
  · intro v x hx
    by_cases cv : v = s
    · subst cv
      rw [ow_s] at hx
      rw [ge x (by omega)]
      split
      · exact hI.used v _ ((ow_s0 _).mpr (by omega))
      · exact hI.used v _ ((ow_s0 _).mpr (by omega))
    · have hx' := (ow_ne v x cv).mp hx
      rw [keep v x cv hx']; exact hI.used v x hx'
  · intro x hlt hne'
    rw [esz] at hlt
    rw [hnn]
    by_cases c1 : x = F + (C - 1)
    · subst c1; exact absurd ge_last hne'
    · rw [ge x c1] at hne'
      by_cases c2 : x = e
      · exact ⟨s, hs, (ow_s x).mpr (by omega)⟩
      · rw [if_neg c2] at hne'
        obtain ⟨v, hv, hx⟩ := hI.spare x hlt hne'
        refine ⟨v, hv, ?_⟩
        by_cases cv : v = s
        · subst cv
          have := (ow_s0 x).mp hx
          exact (ow_s x).mpr (by omega)
        · exact (ow_ne v x cv).mpr hx
  · rw [hne, hnn]
    have := sumCounts_update g.nodes g'.nodes g.numNodes s hs (fun v _ hv => by rw [gn, if_neg hv])
    rw [gn, if_pos rfl, hC] at this
    simp only at this
    omega
  · omega
  · unfold adjM
    rw [hnn, if_pos hs, if_pos hs]
    unfold adjList edgeRange beginEdges outDegree target data
    rw [gn, if_pos rfl, hF, hC]
    simp only
    have hCs : C = (C - 1) + 1 := by omega
    generalize hC' : C - 1 = C' at *
    rw [hCs, List.range'_concat, List.map_append]
    simp only [List.map_cons, List.map_nil, Nat.one_mul]
    have hmap : (List.range' F C').map (fun x => ((gt g'.edges x).tgt, (gt g'.edges x).data)) =
        (List.range' F C').map (fun x => if x = e then ((gt g.edges (F + C')).tgt, (gt g.edges (F + C')).data)
          else ((gt g.edges x).tgt, (gt g.edges x).data)) := by
      apply List.map_congr_left
      intro x hm
      have := List.mem_range'_1.mp hm
      rw [ge x (by omega)]
      split <;> rfl
    rw [hmap]
    by_cases ce : e = F + C'
    · subst ce
      have hsame : (List.range' F C').map (fun x => if x = F + C' then ((gt g.edges (F + C')).tgt, (gt g.edges (F + C')).data)
          else ((gt g.edges x).tgt, (gt g.edges x).data)) =
          (List.range' F C').map (fun x => ((gt g.edges x).tgt, (gt g.edges x).data)) := by
        apply List.map_congr_left
        intro x hm
        have := List.mem_range'_1.mp hm
        rw [if_neg (by omega)]
      rw [hsame]
      exact List.perm_append_singleton _ _
    · exact map_replace_perm (List.range' F C') (List.nodup_range') e
        (List.mem_range'_1.mpr (by omega)) (fun x => ((gt g.edges x).tgt, (gt g.edges x).data)) _
  · intro v hv
    unfold adjM
    rw [hnn]
    split
    · exact adjList_congr g g' v (by rw [gn, if_neg hv]) (fun x hx => keep v x hv hx)
    · rfl


/-! ### data_mut -/

theorem setData_inv (g : Graph) (s e : Nat) (d' : Int) (hI : Inv g) (hs : s < g.numNodes) (ho : owns g s e) :
    Inv (setData g e d') ∧ (setData g e d').numNodes = g.numNodes ∧ (setData g e d').numEdges = g.numEdges ∧
    data (setData g e d') e = d' ∧ (∀ x, target (setData g e d') x = target g x) ∧
    ((target g e, data g e) :: adjM (setData g e d') s).Perm ((target g e, d') :: adjM g s) ∧
    (∀ v, v ≠ s → adjM (setData g e d') v = adjM g v) := by
  have hsz := hI.size
  have hsn : s < g.nodes.size := by omega
  have hb := hI.bound s hsn
  have hlt : e < g.edges.size := by unfold owns at ho; omega
  have ge : ∀ x, gt (setData g e d').edges x = if x = e then { gt g.edges e with data := d' } else gt g.edges x := by
    intro x
    show gt (st g.edges e _) x = _
    rw [gt_st]
    by_cases c : e = x
    · subst c; simp [hlt]
    · have : ¬ x = e := fun h => c h.symm
      simp [c, this]
  have gtgt : ∀ x, (gt (setData g e d').edges x).tgt = (gt g.edges x).tgt := by
    intro x; rw [ge]; split
    · rename_i c; subst c; rfl
    · rfl
  have ow : ∀ v x, owns (setData g e d') v x ↔ owns g v x := fun v x => Iff.rfl
  refine ⟨⟨hI.size, ?_, hI.extra, hI.disj, ?_, ?_, hI.edges⟩, rfl, rfl, ?_, ?_, ?_, ?_⟩
  · intro v hv
    have : (setData g e d').edges.size = g.edges.size := by simp [setData]
    rw [this]; exact hI.bound v hv
  · intro v x hx
    rw [gtgt]; exact hI.used v x hx
  · intro x hx hne
    have : (setData g e d').edges.size = g.edges.size := by simp [setData]
    rw [this] at hx
    rw [gtgt] at hne
    exact hI.spare x hx hne
  · show (gt (setData g e d').edges e).data = d'
    rw [ge, if_pos rfl]
  · intro x; exact gtgt x
  · have hnn : (setData g e d').numNodes = g.numNodes := rfl
    unfold adjM
    rw [hnn, if_pos hs, if_pos hs]
    unfold adjList edgeRange beginEdges outDegree target data
    have hnodes : (setData g e d').nodes = g.nodes := rfl
    rw [hnodes]
    have hmap : (List.range' (gt g.nodes s).first (gt g.nodes s).count).map
          (fun x => ((gt (setData g e d').edges x).tgt, (gt (setData g e d').edges x).data)) =
        (List.range' (gt g.nodes s).first (gt g.nodes s).count).map
          (fun x => if x = e then ((gt g.edges e).tgt, d') else ((gt g.edges x).tgt, (gt g.edges x).data)) := by
      apply List.map_congr_left
      intro x _
      rw [ge]
      split <;> rfl
    rw [hmap]
    exact map_replace_perm2 _ (List.nodup_range') e (List.mem_range'_1.mpr ho)
      (fun x => ((gt g.edges x).tgt, (gt g.edges x).data)) _
  · intro v hv
    have hnn : (setData g e d').numNodes = g.numNodes := rfl
    unfold adjM
    rw [hnn]
    split
    · apply adjList_congr g (setData g e d') v rfl
      intro x hx
      rw [ge, if_neg]
      intro c; subst c
      exact hv (hI.disj v s x hx ho)
    · rfl

/-! ### find_edge -/

theorem findLoop_some (g : Graph) (t : Nat) (k e r : Nat) (h : findLoop g t k e = some r) :
    e ≤ r ∧ r < e + k ∧ target g r = t ∧ ∀ j, e ≤ j → j < r → target g j ≠ t := by
  induction k generalizing e with
  | zero => simp [findLoop] at h
  | succ k ih =>
    simp only [findLoop] at h
    split at h
    · rename_i ht
      cases h
      exact ⟨Nat.le_refl _, by omega, ht, fun j h1 h2 => by omega⟩
    · rename_i ht
      have := ih (e + 1) h
      refine ⟨by omega, by omega, this.2.2.1, ?_⟩
      intro j h1 h2
      by_cases hj : j = e
      · subst hj; exact ht
      · exact this.2.2.2 j (by omega) h2

theorem findLoop_none (g : Graph) (t : Nat) (k e : Nat) :
    findLoop g t k e = none ↔ ∀ j, e ≤ j → j < e + k → target g j ≠ t := by
  induction k generalizing e with
  | zero => simp [findLoop]; intro j h1 h2; omega
  | succ k ih =>
    simp only [findLoop]
    split
    · rename_i ht
      simp only [reduceCtorEq, false_iff]
      intro h
      exact h e (Nat.le_refl _) (by omega) ht
    · rename_i ht
      rw [ih]
      constructor
      · intro h j h1 h2
        by_cases hj : j = e
        · subst hj; exact ht
        · exact h j (by omega) (by omega)
      · intro h j h1 h2
        exact h j (by omega) (by omega)

/-- under the invariant `find_edge` never panics, answers `None` for every `s ≥ number_of_nodes`, and
    otherwise returns the first edge id of the slice of `s` with target `t`, if there is one -/
theorem findEdge_spec (g : Graph) (hI : Inv g) (s t : Nat) :
    ∃ r, findEdge g s t = some r ∧
      (g.numNodes ≤ s → r = none) ∧
      (∀ e, r = some e → s < g.numNodes ∧ owns g s e ∧ target g e = t ∧ ∀ j, owns g s j → j < e → target g j ≠ t) ∧
      (r = none → ∀ e, owns g s e → target g e ≠ t) := by
  have hsz := hI.size
  unfold findEdge
  by_cases c1 : s > g.numNodes
  · rw [if_pos c1]
    refine ⟨none, rfl, fun _ => rfl, ?_, ?_⟩
    · intro e h; cases h
    intro _ e ho
    have := hI.extra s (by omega)
    unfold owns at ho; omega
  · rw [if_neg c1, if_neg (by omega)]
    refine ⟨_, rfl, ?_, ?_, ?_⟩
    · intro hle
      have h0 := hI.extra s hle
      unfold outDegree
      rw [h0]; rfl
    · intro e he
      have := findLoop_some g t _ _ e he
      unfold outDegree beginEdges at this
      have hs : s < g.numNodes := by
        rcases Nat.lt_or_ge s g.numNodes with h | h
        · exact h
        · have := hI.extra s h; omega
      refine ⟨hs, ⟨this.1, this.2.1⟩, this.2.2.1, ?_⟩
      intro j hj hlt
      exact this.2.2.2 j hj.1 hlt
    · intro hnone e ho
      have := (findLoop_none g t _ _).mp hnone
      exact this e ho.1 ho.2

end Tbx.DG
