import Tbx.Model.CountMin
/-
Counters of the count-min model never decrease below a bound already reached, each `insert` of a key
raises that key's counter in every row (saturating), and `estimate` is the minimum over exactly those
counters (core Lean only).
-/
namespace Tbx.CountMin
open Tbx

/-- shape of the counter matrix: `k` rows of `m` columns -/
structure Shape (c : Array (Array Nat)) (k m : Nat) : Prop where
  rows : c.size = k
  cols : ∀ r, r < k → (gt c r).size = m

theorem le_satInc (x v : Nat) (hx : x ≤ u32Max) (h : x ≤ v) : x ≤ satInc v := by
  simp only [satInc]; split <;> omega

theorem succ_le_satInc (x v : Nat) (h : x ≤ v) : Nat.min (x + 1) u32Max ≤ satInc v := by
  simp only [satInc]
  split
  · exact Nat.min_le_right _ _
  · exact Nat.le_trans (Nat.min_le_left _ _) (by omega)

/-- effect of bumping one counter on any cell -/
theorem cellAt_bump (c : Array (Array Nat)) (k m r b r' b' : Nat) (S : Shape c k m) (hr : r < k) (hb : b < m) :
    cellAt (st c r (st (gt c r) b (satInc (cellAt c r b)))) r' b' =
      if r' = r ∧ b' = b then satInc (cellAt c r b) else cellAt c r' b' := by
  simp only [cellAt]
  rw [gt_st]
  by_cases h1 : r = r'
  · subst h1
    have : r < c.size := by rw [S.rows]; exact hr
    simp only [this, and_self, if_true, true_and]
    rw [gt_st]
    have hb' : b < (gt c r).size := by rw [S.cols r hr]; exact hb
    by_cases h2 : b = b'
    · subst h2; simp [hb']
    · have : ¬ b' = b := fun e => h2 e.symm
      simp [h2, this]
  · have : ¬ r' = r := fun e => h1 e.symm
    simp [h1, this]

theorem shape_bump (c : Array (Array Nat)) (k m r b : Nat) (v : Nat) (S : Shape c k m) (hr : r < k) :
    Shape (st c r (st (gt c r) b v)) k m := by
  refine ⟨by rw [size_st]; exact S.rows, ?_⟩
  intro r' hr'
  rw [gt_st]
  split
  · rw [size_st]; exact S.cols r hr
  · exact S.cols r' hr'

theorem shape_bumpRows (c : Array (Array Nat)) (k m : Nat) (bs : List Nat) (r0 : Nat) (S : Shape c k m)
    (hlen : r0 + bs.length ≤ k) : Shape (bumpRows c bs r0) k m := by
  induction bs generalizing c r0 with
  | nil => exact S
  | cons b bs ih =>
    simp only [bumpRows]
    simp only [List.length_cons] at hlen
    exact ih _ (r0 + 1) (shape_bump c k m r0 b _ S (by omega)) (by omega)

/-- a lower bound `x ≤ u32::MAX` on a cell survives any bumping -/
theorem bumpRows_mono (c : Array (Array Nat)) (k m : Nat) (bs : List Nat) (r0 r b x : Nat) (S : Shape c k m)
    (hlen : r0 + bs.length ≤ k) (hbs : ∀ y ∈ bs, y < m) (hx : x ≤ u32Max) (h : x ≤ cellAt c r b) :
    x ≤ cellAt (bumpRows c bs r0) r b := by
  induction bs generalizing c r0 with
  | nil => exact h
  | cons b0 bs ih =>
    simp only [bumpRows]
    simp only [List.length_cons] at hlen
    apply ih _ (r0 + 1) (shape_bump c k m r0 b0 _ S (by omega)) (by omega) (fun y hy => hbs y (List.mem_cons_of_mem _ hy))
    rw [cellAt_bump c k m r0 b0 r b S (by omega) (hbs b0 (List.mem_cons_self ..))]
    split
    · rename_i e; rw [← e.1, ← e.2]; exact le_satInc x _ hx h
    · exact h

/-- the cell of row `r` that `bs` names is raised by one (saturating) -/
theorem bumpRows_hit (c : Array (Array Nat)) (k m : Nat) (bs : List Nat) (r0 r b x : Nat) (S : Shape c k m)
    (hlen : r0 + bs.length ≤ k) (hbs : ∀ y ∈ bs, y < m) (hr0 : r0 ≤ r) (hrb : bs[r - r0]? = some b)
    (h : x ≤ cellAt c r b) : Nat.min (x + 1) u32Max ≤ cellAt (bumpRows c bs r0) r b := by
  induction bs generalizing c r0 with
  | nil => simp at hrb
  | cons b0 bs ih =>
    simp only [bumpRows]
    simp only [List.length_cons] at hlen
    have hb0 : b0 < m := hbs b0 (List.mem_cons_self ..)
    have S' := shape_bump c k m r0 b0 (satInc (cellAt c r0 b0)) S (by omega)
    have hbs' : ∀ y ∈ bs, y < m := fun y hy => hbs y (List.mem_cons_of_mem _ hy)
    by_cases e : r = r0
    · subst e
      simp only [Nat.sub_self, List.getElem?_cons_zero, Option.some.injEq] at hrb
      subst hrb
      apply bumpRows_mono _ k m bs (r + 1) r b0 _ S' (by omega) hbs' (Nat.min_le_right _ _)
      rw [cellAt_bump c k m r b0 r b0 S (by omega) hb0]
      simp only [and_self, if_true]
      exact succ_le_satInc x _ h
    · have hlt : r0 < r := by omega
      have hidx : r - r0 = (r - (r0 + 1)) + 1 := by omega
      rw [hidx, List.getElem?_cons_succ] at hrb
      apply ih _ (r0 + 1) S' (by omega) hbs' (by omega) hrb
      rw [cellAt_bump c k m r0 b0 r b S (by omega) hb0]
      have : ¬ (r = r0 ∧ b = b0) := fun a => e a.1
      simp only [this, if_false]; exact h

/-- `fold(u32::MAX, min)` is bounded below by any common lower bound of the list -/
theorem foldl_min_ge (l : List Nat) (a x : Nat) (ha : x ≤ a) (hl : ∀ y ∈ l, x ≤ y) : x ≤ l.foldl Nat.min a := by
  induction l generalizing a with
  | nil => exact ha
  | cons y l ih =>
    simp only [List.foldl_cons]
    apply ih
    · exact Nat.le_min.mpr ⟨ha, hl y (List.mem_cons_self ..)⟩
    · intro z hz; exact hl z (List.mem_cons_of_mem _ hz)

theorem mem_rowVals (c : Array (Array Nat)) (bs : List Nat) (r0 y : Nat) (hy : y ∈ rowVals c bs r0) :
    ∃ r b, r0 ≤ r ∧ bs[r - r0]? = some b ∧ y = cellAt c r b := by
  induction bs generalizing r0 with
  | nil => simp [rowVals] at hy
  | cons b0 bs ih =>
    simp only [rowVals, List.mem_cons] at hy
    rcases hy with e | hm
    · exact ⟨r0, b0, Nat.le_refl _, by simp, e⟩
    · obtain ⟨r, b, hr, hb, he⟩ := ih (r0 + 1) hm
      refine ⟨r, b, by omega, ?_, he⟩
      have hidx : r - r0 = (r - (r0 + 1)) + 1 := by omega
      rw [hidx, List.getElem?_cons_succ]; exact hb

theorem buckets_length (k m h1 h2 : Nat) : (buckets k m h1 h2).length = k := by
  simp only [buckets]
  split
  · rename_i h; simp [h]
  · simp

theorem buckets_lt (k m h1 h2 : Nat) (hm : 0 < m) : ∀ y ∈ buckets k m h1 h2, y < m := by
  intro y hy
  simp only [buckets] at hy
  split at hy
  · simp only [List.mem_singleton] at hy; subst hy; exact Nat.mod_lt _ hm
  · simp only [List.mem_map] at hy
    obtain ⟨i, _, e⟩ := hy
    subst e; exact Nat.mod_lt _ hm

theorem shape_init (k m : Nat) : Shape (init k m).counter k m := by
  refine ⟨by simp [init], ?_⟩
  intro r hr
  simp [init, gt, Array.getD_eq_getD_getElem?, hr]

/-- well-formed sketch: the dimensions stored agree with the matrix -/
structure WF (s : Sketch) (k m : Nat) : Prop where
  k_eq : s.k = k
  m_eq : s.m = m
  shape : Shape s.counter k m

theorem wf_init (k m : Nat) : WF (init k m) k m := ⟨rfl, rfl, shape_init k m⟩

theorem wf_insert (s : Sketch) (k m h1 h2 : Nat) (W : WF s k m) : WF (insert s h1 h2) k m := by
  refine ⟨W.k_eq, W.m_eq, ?_⟩
  simp only [insert]
  apply shape_bumpRows _ k m _ 0 W.shape
  rw [W.k_eq, W.m_eq, buckets_length]; omega

/-- every counter `estimate (g1,g2)` reads is at least `x` -/
def LB (s : Sketch) (k m g1 g2 x : Nat) : Prop :=
  ∀ r b, (buckets k m g1 g2)[r]? = some b → x ≤ cellAt s.counter r b

theorem estimate_ge (s : Sketch) (k m g1 g2 x : Nat) (W : WF s k m) (hx : x ≤ u32Max) (L : LB s k m g1 g2 x) :
    x ≤ estimate s g1 g2 := by
  simp only [estimate]
  apply foldl_min_ge _ _ _ hx
  intro y hy
  obtain ⟨r, b, _, hb, e⟩ := mem_rowVals _ _ 0 y hy
  rw [W.k_eq, W.m_eq] at hb
  subst e
  exact L r b (by simpa using hb)

theorem lb_insert_other (s : Sketch) (k m g1 g2 h1 h2 x : Nat) (W : WF s k m) (hm : 0 < m) (hx : x ≤ u32Max)
    (L : LB s k m g1 g2 x) : LB (insert s h1 h2) k m g1 g2 x := by
  intro r b hb
  simp only [insert]
  rw [W.k_eq, W.m_eq]
  exact bumpRows_mono _ k m _ 0 r b x W.shape (by rw [buckets_length]; omega) (buckets_lt k m h1 h2 hm) hx (L r b hb)

theorem lb_insert_same (s : Sketch) (k m g1 g2 x : Nat) (W : WF s k m) (hm : 0 < m)
    (L : LB s k m g1 g2 x) : LB (insert s g1 g2) k m g1 g2 (Nat.min (x + 1) u32Max) := by
  intro r b hb
  simp only [insert]
  rw [W.k_eq, W.m_eq]
  exact bumpRows_hit _ k m _ 0 r b x W.shape (by rw [buckets_length]; omega) (buckets_lt k m g1 g2 hm)
    (Nat.zero_le _) (by simpa using hb) (L r b hb)

end Tbx.CountMin
