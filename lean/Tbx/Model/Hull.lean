import Tbx.Model.Cross
/-
Executable model of `convex_hull::monotone_chain` (src/convex_hull.rs), Andrew's monotone chain.

  * n <= 3: the input is returned as it is;
  * `sort_unstable_by_key(|a| (a.lon, a.lat))`: modelled by an insertion sort with the same
    lexicographic key (structural recursion, so that concrete instances reduce in the kernel).
    Two coordinates with equal keys are equal values, so every sorting algorithm (stable or not)
    produces the same list (`Tbx.Geo.sortLonLat_sorted`, `mem_sortLonLat`); duplicates stay in the list;
  * the Rust `stack: Vec<_>` is the list `st` with the TOP AT THE HEAD, so `stack[len-1]` is the
    head `a` and `stack[len-2]` the second element `o`;
  * `while stack.len() >= 2 + lower && !is_clock_wise_turn(stack[len-2], stack[len-1], p) { pop }`
    is `popWhile (2 + lower) p st` (structural recursion on the stack; pops on non-strict turns);
  * `stack.pop()` after each half is `List.tail` (a no-op on the empty stack, like `Vec::pop`).
-/
namespace Tbx.Geo

/-- the sort key comparison (a.lon, a.lat) <= (b.lon, b.lat) -/
def lonLatLe (a b : Coord) : Bool := decide (a.lon < b.lon) || (decide (a.lon = b.lon) && decide (a.lat ≤ b.lat))

def insertLonLat (x : Coord) : List Coord → List Coord
  | [] => [x]
  | y :: ys => if lonLatLe x y then x :: y :: ys else y :: insertLonLat x ys

def sortLonLat (l : List Coord) : List Coord := l.foldr insertLonLat []

/-- the inner `while` loop for the incoming point `p`; `minLen` is `2` for the lower and
`2 + lower_stack_len` for the upper half -/
def popWhile (minLen : Nat) (p : Coord) : List Coord → List Coord
  | [] => []
  | a :: rest =>
    match rest with
    | [] => [a]
    | o :: _ => if minLen ≤ rest.length + 1 ∧ !isCW o a p then popWhile minLen p rest else a :: rest

/-- one `for_each` pass over `pts` -/
def chain (minLen : Nat) (st : List Coord) (pts : List Coord) : List Coord :=
  pts.foldl (fun st p => p :: popWhile minLen p st) st

/-- the stack after the first pass (before its `pop`), top first -/
def lowerStack (cs : List Coord) : List Coord := chain 2 [] cs

def monotoneChain (input : List Coord) : List Coord :=
  if input.length ≤ 3 then input
  else
    let cs := sortLonLat input
    let lower := (lowerStack cs).tail
    let full := (chain (2 + lower.length) lower cs.reverse).tail
    full.reverse

/-! The same algorithm with the i64 orientation test of the source (`isCWI64`): `none` = an intermediate
of `is_clock_wise_turn` leaves the i64 range (overflow panic / wrap).  `&&` short-circuits: the test is
only evaluated when the stack is long enough.  `Tbx.Props.C19.hull_no_overflow` shows that on valid
coordinates this never happens and the result is `monotoneChain`. -/

def popWhileI64 (minLen : Nat) (p : Coord) : List Coord → Option (List Coord)
  | [] => some []
  | a :: rest =>
    match rest with
    | [] => some [a]
    | o :: _ =>
      if minLen ≤ rest.length + 1 then
        match isCWI64 o a p with
        | none => none
        | some cw => if !cw then popWhileI64 minLen p rest else some (a :: rest)
      else some (a :: rest)

def chainI64 (minLen : Nat) (st : List Coord) : List Coord → Option (List Coord)
  | [] => some st
  | p :: ps =>
    match popWhileI64 minLen p st with
    | none => none
    | some st' => chainI64 minLen (p :: st') ps

def monotoneChainI64 (input : List Coord) : Option (List Coord) :=
  if input.length ≤ 3 then some input
  else
    let cs := sortLonLat input
    match chainI64 2 [] cs with
    | none => none
    | some low =>
      let lower := low.tail
      match chainI64 (2 + lower.length) lower cs.reverse with
      | none => none
      | some full => some full.tail.reverse

/-- number of pops the `while` loop performs (statistics for the driver only) -/
def popCount (minLen : Nat) (p : Coord) : List Coord → Nat
  | [] => 0
  | a :: rest =>
    match rest with
    | [] => 0
    | o :: _ => if minLen ≤ rest.length + 1 ∧ !isCW o a p then 1 + popCount minLen p rest else 0

end Tbx.Geo
