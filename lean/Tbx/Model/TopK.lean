/-
Executable model of `src/top_k.rs` (`top_k`), items modelled as `Int` with `value() = id`.

`select_nth_unstable` and `sort_unstable` (std) are modelled by their contracts: the model is
parametric in the two functions (`Std`), the theorem `Tbx.TopK.topk_eq` holds for every pair that
satisfies the contracts in `Tbx/Spec/Sorting.lean`; the driver instantiates both with insertion sort.
-/
namespace Tbx.TopK

structure Std where
  /-- `v.select_nth_unstable(i)`: the reordered vector -/
  selectNth : List Int → Nat → List Int
  /-- `v.sort_unstable()` -/
  sortUnstable : List Int → List Int

/-- `usize::MAX` -/
def usizeMax : Nat := 2 ^ 64 - 1

/-- `k.saturating_mul(2)` on 64-bit usize -/
def limitOf (k : Nat) : Nat := if 2 * k > usizeMax then usizeMax else 2 * k

/-- the `for item in input` loop; `buf` is the vector `top_k`, `th` the threshold, `limit` the
    buffer length at which the selection runs -/
def loop (S : Std) (k limit : Nat) : List Int → List Int → Option Int → List Int
  | [], buf, _ => buf
  | x :: xs, buf, th =>
    let skip := match th with
      | some t => decide (x ≥ t)
      | none => false
    if skip then loop S k limit xs buf th
    else
      let buf' := buf ++ [x]
      if buf'.length = limit then
        let b := S.selectNth buf' (k - 1)
        -- `median` is the element at position k-1 after the selection
        loop S k limit xs (b.take k) b[k - 1]?
      else loop S k limit xs buf' th

/-- `top_k(input, k)`; the reserved capacity `limit.min(size_hint)` has no observable effect -/
def topK (S : Std) (xs : List Int) (k : Nat) : List Int :=
  if k = 0 then []
  else (S.sortUnstable (loop S k (limitOf k) xs [] none)).take k

end Tbx.TopK
