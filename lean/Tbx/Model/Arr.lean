/-
Opaque array accessors used by all array-based models.

`gt a i` reads with a default for out-of-range indices, `st a i x` writes if in range.
Models are written with these two functions only and proofs use the three rewrite lemmas
below, never the definitions (see DESIGN.md Appendix A.3: `abbrev` accessors are unfolded by
`simp` and make goals unreadable).
-/
namespace Tbx

def gt {α : Type} [Inhabited α] (a : Array α) (i : Nat) : α := a.getD i default
def st {α : Type} (a : Array α) (i : Nat) (x : α) : Array α := a.setIfInBounds i x

theorem gt_st {α : Type} [Inhabited α] (a : Array α) (i j : Nat) (x : α) :
    gt (st a i x) j = if i = j ∧ i < a.size then x else gt a j := by
  simp only [gt, st, Array.getD_eq_getD_getElem?, Array.getElem?_setIfInBounds]
  split
  · rename_i h; subst h
    by_cases hi : i < a.size <;> simp [hi]
  · rename_i h; simp [h]

theorem gt_st_eq {α : Type} [Inhabited α] (a : Array α) (i : Nat) (x : α) (h : i < a.size) :
    gt (st a i x) i = x := by
  rw [gt_st]; simp [h]

theorem gt_st_ne {α : Type} [Inhabited α] (a : Array α) (i j : Nat) (x : α) (h : i ≠ j) :
    gt (st a i x) j = gt a j := by
  rw [gt_st]; simp [h]

@[simp] theorem size_st {α : Type} (a : Array α) (i : Nat) (x : α) : (st a i x).size = a.size := by
  simp [st]

theorem gt_push_lt {α : Type} [Inhabited α] (a : Array α) (x : α) (i : Nat) (h : i < a.size) :
    gt (a.push x) i = gt a i := by
  simp only [gt, Array.getD_eq_getD_getElem?]
  rw [Array.getElem?_push]
  have : ¬ (i = a.size) := by omega
  simp [this]

theorem gt_push_eq {α : Type} [Inhabited α] (a : Array α) (x : α) :
    gt (a.push x) a.size = x := by
  simp [gt, Array.getD_eq_getD_getElem?]

theorem gt_of_ge {α : Type} [Inhabited α] (a : Array α) (i : Nat) (h : a.size ≤ i) :
    gt a i = default := by
  simp [gt, Array.getD_eq_getD_getElem?, Array.getElem?_eq_none h]

end Tbx
