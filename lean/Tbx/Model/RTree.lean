import Tbx.Gen.Consts
/-
Executable model of /repo/src/r_tree.rs (as it is after the D6 fix), core Lean only.

* `zorderCmp`            space_filling_curve.rs `zorder_cmp` on i32 pairs (bit operations on `BitVec 32`)
* `Box`, `extendWith`    bounding_box.rs `invalid`, `extend_with`, `from_coordinate`
* `bulkShape`/`bulkLoad` `RTree::from_elements`: leaves = chunks of `L` sorted elements, level 0 of the search
                         nodes = one `LeafNode` per chunk of `B` leaves (first leaf index `B*j`), then tree
                         levels (`TreeNode`, first child `start + B*j`) until `start + 1 < end` fails;
                         `level_ends`.  The `while` loop is `buildLevels` with fuel; the fuel passed is shown
                         sufficient in `Tbx.Props.C12.pack_partition`.
* `childrenCount`        `RTree::children_count`
* `next` / `collect`     `RTreeNearestIterator::next` and the caller's loop over it.  The `BinaryHeap` is a
                         parameter `PQOps` known only through its contract `PQOps.Lawful` (pop returns an entry
                         of minimal distance = a maximum of the reversed order; ties are free).
                         `dist` (value of `distance_to(query)`) and `prio` (value of `min_distance(query)` of a
                         search node's box, by search node index) are inputs: haversine is not modelled.
The branching constants are parameters `B L`; the driver instantiates them with the values regenerated
from /repo (`Tbx.Gen.rtreeBranchingFactor`, `Tbx.Gen.rtreeLeafPackFactor`).
-/
namespace Tbx.RTree

/-! ## Z-order comparison -/

structure Coord where
  lat : Int
  lon : Int
deriving Repr, DecidableEq, Inhabited

/-- `zorder_cmp`: `lat`/`lon` are i32 values; xor, `leading_zeros` and the bit test are done on the
two's-complement bit pattern, the final comparisons on the signed values. -/
def zorderCmp (a b : Coord) : Ordering :=
  let la := BitVec.ofInt 32 a.lat
  let lb := BitVec.ofInt 32 b.lat
  let latX := (la ^^^ lb).toNat
  let lonX := (BitVec.ofInt 32 a.lon ^^^ BitVec.ofInt 32 b.lon).toNat
  if latX == 0 && lonX == 0 then .eq
  else if latX == 0 then compare a.lon b.lon
  else if lonX == 0 then compare a.lat b.lat
  else
    -- 31 - leading_zeros = position of the most significant set bit
    let latMsb := Nat.log2 latX
    let lonMsb := Nat.log2 lonX
    match compare latMsb lonMsb with
    | .gt => compare a.lat b.lat
    | .lt => compare a.lon b.lon
    | .eq =>
      if la.getLsbD latMsb != lb.getLsbD latMsb then compare a.lat b.lat else compare a.lon b.lon

/-- `elements.sort_by(|a, b| zorder_cmp(a.center(), b.center()))`: a stable sort -/
def zsort {α : Type} (center : α → Coord) (es : List α) : List α :=
  es.mergeSort (fun a b => zorderCmp (center a) (center b) != .gt)

/-! ## Bounding boxes -/

structure Box where
  minLat : Int
  minLon : Int
  maxLat : Int
  maxLon : Int
deriving Repr, DecidableEq, Inhabited

def i32Max : Int := 2147483647
def i32Min : Int := -2147483648

def Box.invalid : Box := ⟨i32Max, i32Max, i32Min, i32Min⟩
def Box.ofCoord (c : Coord) : Box := ⟨c.lat, c.lon, c.lat, c.lon⟩
def Box.extendWith (a o : Box) : Box :=
  ⟨min a.minLat o.minLat, min a.minLon o.minLon, max a.maxLat o.maxLat, max a.maxLon o.maxLon⟩
/-- `fold(BoundingBox::invalid(), |acc, x| acc.extend_with(x))` -/
def Box.union (bs : List Box) : Box := bs.foldl Box.extendWith Box.invalid
def Box.contains (b : Box) (c : Coord) : Bool :=
  decide (b.minLat ≤ c.lat) && decide (c.lat ≤ b.maxLat) && decide (b.minLon ≤ c.lon) && decide (c.lon ≤ b.maxLon)

/-! ## Bulk loading -/

/-- `usize::div_ceil` / the number of chunks `slice.chunks(b)` yields -/
def ceilDiv (a b : Nat) : Nat := (a + b - 1) / b

/-- `slice.chunks(k)`'s `j`-th chunk -/
def chunk {α : Type} (es : List α) (k j : Nat) : List α := (es.drop (k * j)).take k

/-- the leaves: `elements.chunks(LEAF_PACK_FACTOR)` -/
def leavesOf {α : Type} (L : Nat) (es : List α) : List (List α) :=
  (List.range (ceilDiv es.length L)).map (chunk es L)

/-- a search node: `kind = 0` is `SearchNode::LeafNode` (a group of leaves), `kind = 1` is
`SearchNode::TreeNode`; `first` is the `index` field (first leaf / first child search node) -/
structure SNode where
  kind : Nat
  first : Nat
deriving Repr, DecidableEq, Inhabited

/-- level 0: one `LeafNode(index = B * j)` per chunk of `B` leaves -/
def level0 (B g0 : Nat) : List SNode := (List.range g0).map fun j => ⟨0, B * j⟩

/-- one pass of the `while` body: a `TreeNode(index = start + B * j)` per chunk of `B` nodes -/
def levelNodes (B start cnt : Nat) : List SNode := (List.range cnt).map fun j => ⟨1, start + B * j⟩

/-- the `while start + 1 < end` loop of `from_elements`; `none` = the fuel ran out -/
def buildLevels (B : Nat) : Nat → Nat → Nat → List SNode → List Nat → Option (List SNode × List Nat)
  | 0, start, end_, nodes, ends => if start + 1 < end_ then none else some (nodes, ends)
  | fuel + 1, start, end_, nodes, ends =>
    if start + 1 < end_ then
      let cnt := ceilDiv (end_ - start) B
      buildLevels B fuel end_ (end_ + cnt) (nodes ++ levelNodes B start cnt) (ends ++ [end_ + cnt])
    else some (nodes, ends)

structure Shape where
  nLeaves : Nat
  nodes : List SNode
  ends : List Nat
deriving Repr, DecidableEq

/-- the index structure `from_elements` builds for `n` elements. `none`: `chunks(0)` panics (B = 0 or
L = 0), or the level loop ran out of fuel (impossible for B ≥ 2: `pack_partition`). -/
def bulkShape (B L n : Nat) : Option Shape :=
  if B = 0 ∨ L = 0 then none
  else
    let nl := ceilDiv n L
    let g0 := ceilDiv nl B
    match buildLevels B g0 0 g0 (level0 B g0) [g0] with
    | some (nodes, ends) => some ⟨nl, nodes, ends⟩
    | none => none

structure Tree (α : Type) where
  leaves : List (List α)
  nodes : List SNode
  ends : List Nat

/-- `from_elements` after the sort: `es` is the sorted element list -/
def bulkLoad {α : Type} (B L : Nat) (es : List α) : Option (Tree α) :=
  (bulkShape B L es.length).map fun s => ⟨leavesOf L es, s.nodes, s.ends⟩

/-- `children_count`: first level end beyond the child start index, at most `B` children -/
def childrenCount (B : Nat) (ends : List Nat) (c : Nat) : Nat :=
  min B (((ends.find? fun e => decide (c < e)).getD c) - c)

/-! ## The priority queue, by contract -/

inductive Kind where
  | tree
  | leaf
  | cand (off : Nat)
deriving Repr, DecidableEq, Inhabited

/-- `QueueElement`: `key` = distance (bit pattern of a non-negative double), `idx` = `child_start_index` -/
structure Entry where
  key : Nat
  idx : Nat
  kind : Kind
deriving Repr, DecidableEq, Inhabited

/-- operations of a priority queue of entries; `abs` (the multiset of queued entries as a list) is
ghost: it is used by the contract only, never by the iterator -/
structure PQOps (Q : Type) where
  empty : Q
  push : Q → Entry → Q
  pop : Q → Option (Entry × Q)
  abs : Q → List Entry

/-- contract of `BinaryHeap<QueueElement>` with the reversed order: `pop` removes an entry whose
distance is minimal; which one among equal distances is not specified -/
structure PQOps.Lawful {Q : Type} (P : PQOps Q) : Prop where
  abs_empty : P.abs P.empty = []
  abs_push : ∀ q e, (P.abs (P.push q e)).Perm (e :: P.abs q)
  pop_none : ∀ q, P.pop q = none → P.abs q = []
  pop_some : ∀ q e q', P.pop q = some (e, q') →
    (P.abs q).Perm (e :: P.abs q') ∧ ∀ y ∈ P.abs q, e.key ≤ y.key

/-! ## The iterator -/

/-- the queue element pushed for search node `i`: `(min_distance(bbox_i), index_i, kind_i)` -/
def nodeEntry (prio : Nat → Nat) (nodes : List SNode) (i : Nat) : Option Entry :=
  nodes[i]?.map fun nd => ⟨prio i, nd.first, if nd.kind = 0 then .leaf else .tree⟩

section Iter
variable {α Q : Type} (P : PQOps Q) (B : Nat) (t : Tree α) (dist : α → Nat) (prio : Nat → Nat)

/-- `for i in 0..children_count { push(search_nodes[child_start + i]) }`; `none` = index panic -/
def pushNodes : Q → Nat → Nat → Option Q
  | q, _, 0 => some q
  | q, c, k + 1 =>
    match nodeEntry prio t.nodes c with
    | none => none
    | some e => pushNodes (P.push q e) (c + 1) k

/-- `for (elem_idx, elem) in leaf.elements().iter().enumerate() { push(Candidate) }` -/
def pushCands (leafIdx : Nat) : Q → List α → Nat → Q
  | q, [], _ => q
  | q, x :: xs, off => pushCands leafIdx (P.push q ⟨dist x, leafIdx, .cand off⟩) xs (off + 1)

/-- `for leaf_idx in child_start..leaf_end { … }`; `none` = index panic -/
def pushLeaves : Q → Nat → Nat → Option Q
  | q, _, 0 => some q
  | q, j, k + 1 =>
    match t.leaves[j]? with
    | none => none
    | some lf => pushLeaves (pushCands P dist j q lf 0) (j + 1) k

inductive Step (α Q : Type) where
  | item (x : α) (d : Nat) (q : Q)
  | done
  | panic
  | outOfFuel

/-- `RTreeNearestIterator::next`: the `while let Some(..) = queue.pop()` loop, fuelled -/
def next : Nat → Q → Step α Q
  | 0, _ => .outOfFuel
  | fuel + 1, q =>
    match P.pop q with
    | none => .done
    | some (e, q') =>
      match e.kind with
      | .tree =>
        match pushNodes P t prio q' e.idx (childrenCount B t.ends e.idx) with
        | none => .panic
        | some q'' => next fuel q''
      | .leaf =>
        match pushLeaves P t dist q' e.idx (min (e.idx + B) t.leaves.length - e.idx) with
        | none => .panic
        | some q'' => next fuel q''
      | .cand off =>
        match t.leaves[e.idx]?.bind (·[off]?) with
        | none => .panic
        | some x => .item x e.key q'

/-- `RTreeNearestIterator::new`: the queue holds the root (the last search node), if any -/
def initQ : Q :=
  match t.nodes.length with
  | 0 => P.empty
  | m + 1 =>
    match nodeEntry prio t.nodes m with
    | some e => P.push P.empty e
    | none => P.empty

inductive Res (α : Type) where
  | ok (out : List (α × Nat))
  | panic
  | outOfFuel
deriving Repr

/-- the caller's `for (elem, d) in tree.nearest_iter(q)`: calls `next` until it answers `None`;
`acc` holds the items so far, newest first -/
def collectAux (fuelNext : Nat) : Nat → Q → List (α × Nat) → Res α
  | 0, _, _ => .outOfFuel
  | fuel + 1, q, acc =>
    match next P B t dist prio fuelNext q with
    | .item x d q' => collectAux fuelNext fuel q' ((x, d) :: acc)
    | .done => .ok acc.reverse
    | .panic => .panic
    | .outOfFuel => .outOfFuel

def collect (fuelNext fuel : Nat) : Res α :=
  collectAux P B t dist prio fuelNext fuel (initQ P t prio) []

end Iter

/-! ## A priority queue satisfying the contract (lawfulness: `Tbx.RTree.listPQ_lawful` in Model/RTreeHeap.lean,
which also has the leftist heap the driver uses) -/

/-- removes the first entry of minimal key from a list -/
def extractMin : List Entry → Option (Entry × List Entry)
  | [] => none
  | e :: es =>
    match extractMin es with
    | none => some (e, [])
    | some (m, rest) => if e.key ≤ m.key then some (e, es) else some (m, e :: rest)

/-- the queue as a plain list (used in kernel-evaluated examples) -/
def listPQ : PQOps (List Entry) where
  empty := []
  push q e := e :: q
  pop := extractMin
  abs q := q

end Tbx.RTree
