import Tbx.Model.FlowDinic
/-
Executable model of one inertial-flow bisection step: `src/inertial_flow.rs` (`sub_step`,
`ROTATED_COMPARATORS`), `src/renumbering_table.rs`, and the bounded phase loop of `src/dinic.rs`
(`run_with_upper_bound`).  Everything else of Dinic is `Tbx.Model.FlowDinic`.

  axisKey          : the four `ROTATED_COMPARATORS`
  sortIds          : `sort_unstable_by_key` by its contract (a stable insertion sort on the same key; the
                     result is THE sorted list when the keys are pairwise distinct, one admissible order
                     otherwise)
  Table            : `RenumberingTable` by its map contract (association list, newest binding first).
                     Both Rust variants (`Vec` filled with usize::MAX / `FxHashMap`) behave like this map
                     for keys < coordinates.len(), which is a precondition of `sub_step` anyway
                     (`coordinates[*a]`): `get` of an absent key returns usize::MAX (the Vec variant; the
                     Map variant would panic) and the model never reads an absent key
                     (`Tbx.InertialFlow.renum_spec`, `ext_get` in Proofs/InertialFlowTable.lean).
  renumLoop        : `for e in &mut edges { … }` — consecutive numbering of the remaining end points from
                     2 in edge order, source before target
  runBounded       : `run_with_upper_bound`: `while bfs() { flow += dfs(); if flow > bound { abort } }`,
                     then `bound.fetch_min(flow)` — sequential semantics of the shared bound (C04 treats
                     the interleavings)
  subStepSorted    : everything after the sort, with `k = size_of_contraction` as an input (the f64
                     expression `max(1, (n as f64 * b) as usize)` is evaluated by the caller: the harness
                     in Rust, the driver once more with Lean `Float`)
  subStep          : sort, then `subStepSorted`

`StepOut.panic` = a branch in which the Rust panics (slice out of range, `debug_assert!`s on empty
contracted ends / empty sides) or the model ran out of fuel;
`StepOut.aborted` = `Err(FlowError::String(_))` because the solver stopped at the bound.
The `axis >= 4` guard (`Err(AxisOutOfBounds)`) is outside the property's quantifier; `axisKey` maps such
an axis to comparator 3 and the driver never passes one.
-/
namespace Tbx.InertialFlow
open Tbx Tbx.Flow

structure Coord where
  lat : Int
  lon : Int
deriving Repr, Inhabited, DecidableEq

/-- ids in the order the Rust returns them -/
structure FlowRes where
  flow  : Int
  left  : List Nat
  right : List Nat
deriving Repr, Inhabited, DecidableEq

/-- `ROTATED_COMPARATORS[axis](lat, lon)` -/
def axisKey (axis : Nat) (c : Coord) : Int :=
  match axis with
  | 0 => c.lat
  | 1 => c.lon
  | 2 => c.lon + c.lat
  | _ => -c.lon + c.lat

inductive StepOut where
  | panic
  | aborted
  | ok (r : FlowRes)
deriving Repr, Inhabited, DecidableEq

/-! ### RenumberingTable -/

abbrev Table := List (Nat × Nat)

def Table.find : Table → Nat → Option Nat
  | [], _ => none
  | (k, v) :: rest, key => if k = key then some v else Table.find rest key

/-- `set(key, value)` (overwrites) -/
def Table.set (t : Table) (key value : Nat) : Table := (key, value) :: t

def Table.containsKey (t : Table) (key : Nat) : Bool := (t.find key).isSome

/-- `get(key)`; usize::MAX for an absent key (Vec variant) -/
def Table.get (t : Table) (key : Nat) : Nat := (t.find key).getD INV

/-- `for s in sources { table.set(*s, v) }` -/
def setAll (t : Table) (v : Nat) : List Nat → Table
  | [] => t
  | s :: rest => setAll (t.set s v) v rest

/-! ### renumbering of the edge list -/

/-- `if !contains_key(x) { set(x, current_id); current_id += 1 }` -/
def touch (tc : Table × Nat) (x : Nat) : Table × Nat :=
  if tc.1.containsKey x then tc else (tc.1.set x tc.2, tc.2 + 1)

/-- the loop `for e in &mut edges`: returns the final table, the final `current_id` and the renumbered
    unit-capacity edges in input order -/
def renumLoop : Table → Nat → List (Nat × Nat) → Table × Nat × List Edge
  | t, cur, [] => (t, cur, [])
  | t, cur, (u, v) :: rest =>
    let tc := touch (touch (t, cur) u) v
    let r := renumLoop tc.1 tc.2 rest
    (r.1, r.2.1, { src := tc.1.get u, tgt := tc.1.get v, cap := 1 } :: r.2.2)

/-- `edges.retain(|edge| edge.source != edge.target)` -/
def dropLoops (es : List Edge) : List Edge := es.filter fun e => e.src ≠ e.tgt

/-! ### Dinic with the shared upper bound, sequential semantics -/

/-- `while self.bfs() { flow += self.dfs(); if flow > bound.load() { abort } }`;
    the Bool is `true` iff the loop was left through the abort branch -/
def boundedLoop (bound : Int) : Nat → Dinic → Int → Option (Dinic × Int × Bool)
  | 0, _, _ => none
  | fuel + 1, d, flow =>
    match d.bfs with
    | none => none
    | some (d1, false) => some (d1, flow, false)
    | some (d1, true) =>
      match d1.dfs with
      | none => none
      | some (d2, bf) =>
        if flow + bf > bound then some (d2, flow + bf, true)
        else boundedLoop bound fuel d2 (flow + bf)

/-- `run_with_upper_bound(bound)`: the solver afterwards (`finished` stays false after an abort) and the
    value of the bound afterwards (`fetch_min` on completion) -/
def runBounded (d : Dinic) (fuel : Nat) (bound : Int) : Option (Dinic × Int) :=
  let n := d.g.numNodes
  if d.source ≥ n ∨ d.target ≥ n then none
  else
    let d0 := { d with parents := Array.replicate n 0, level := Array.replicate n INV }
    match boundedLoop bound fuel d0 0 with
    | none => none
    | some (d', flow, true) => some ({ d' with maxFlow := flow }, bound)
    | some (d', flow, false) => some ({ d' with maxFlow := flow, finished := true }, min bound flow)

/-- `run()` / `run_with_upper_bound(bound)` on an object in ANY state whose stored bound currently has the value
    `bound` (after an aborted bounded run, after a completed one): the repaired loop continues from the stored
    flow counter (`let mut flow = self.max_flow`, D24).  `runBounded` is the special case of a fresh object. -/
def runBoundedAgain (d : Dinic) (fuel : Nat) (bound : Int) : Option (Dinic × Int) :=
  let n := d.g.numNodes
  if d.source ≥ n ∨ d.target ≥ n then none
  else
    let d0 := { d with parents := Array.replicate n 0, level := Array.replicate n INV }
    match boundedLoop bound fuel d0 d.maxFlow with
    | none => none
    | some (d', flow, true) => some ({ d' with maxFlow := flow }, bound)
    | some (d', flow, false) => some ({ d' with maxFlow := flow, finished := true }, min bound flow)

/-- the harness' `rr k` history after a bounded run: run number `i` is `run()` (the stored bound keeps its
    current value) for even `i` and `run_with_upper_bound(i32::MAX)` (a new bound) for odd `i` -/
def rerunHistory (fuel : Nat) : Nat → Nat → Dinic → Int → Option (Dinic × Int)
  | 0, _, d, b => some (d, b)
  | k + 1, i, d, b =>
    let b0 := if i % 2 == 0 then b else I32MAX
    match runBoundedAgain d fuel b0 with
    | none => none
    | some (d', b') => rerunHistory fuel k (i + 1) d' b'

/-! ### the step -/

/-- everything `sub_step` computes before the solver runs: contracted ends, table, `current_id`,
    renumbered loop-free edge list -/
structure Prep where
  sources : List Nat
  targets : List Nat
  table   : Table
  curId   : Nat
  raw     : List Edge       -- renumbered, before self-loop removal
  edges   : List Edge       -- what `Dinic::from_edge_list` receives
deriving Repr, Inhabited

def prep (edges : List (Nat × Nat)) (sortedIds : List Nat) (k : Nat) : Prep :=
  let n := sortedIds.length
  let sources := sortedIds.take k
  let targets := sortedIds.drop (n - k)
  let t1 := setAll (setAll [] 0 sources) 1 targets
  let r := renumLoop t1 2 edges
  { sources := sources, targets := targets, table := r.1, curId := r.2.1, raw := r.2.2,
    edges := dropLoops r.2.2 }

/-- `node_id_list.into_iter().filter(contains_key).partition(|id| { let node = table.get(id);
    node < assignment.len() && assignment[node] })` -/
def partitionIds (t : Table) (bits : Array Bool) : List Nat → List Nat × List Nat
  | [] => ([], [])
  | id :: rest =>
    let lr := partitionIds t bits rest
    if t.containsKey id then
      if decide (t.get id < bits.size) && gt bits (t.get id) then (id :: lr.1, lr.2) else (lr.1, id :: lr.2)
    else lr

/-- fuel for the phase loop: every phase but the last pushes at least one unit and the flow is at most
    the number of (unit) edges; the driver reports `model-out-of-fuel` if this is ever not enough -/
def phaseFuel (p : Prep) : Nat := p.edges.length + 2

/-- `(flow, intermediate_assignment)` and the bound afterwards: without a connecting edge no solver
    runs (flow 0, the one-bit vector `[true]`, `fetch_min(0)`); otherwise Dinic between 0 and 1.
    `none` = panic branch / out of fuel; `some none` = aborted -/
def solve (p : Prep) (bound : Int) : Option (Option (Int × Array Bool) × Int) :=
  if p.edges.isEmpty then some (some (0, #[true]), min bound 0)
  else
    match Dinic.fromEdgeList p.edges 0 1 with
    | none => none
    | some d =>
      match runBounded d (phaseFuel p) bound with
      | none => none
      | some (d', bound') =>
        match d'.maxFlow? with
        | .err => some (none, bound')
        | .stuck => none
        | .ok flow =>
          match d'.assignment? 0 with
          | .ok bits => some (some (flow, bits), bound')
          | _ => none                            -- `expect("max flow computation did not run")`

/-- the outcome of the step and the value of the shared bound afterwards.
    `sortedIds` must already be sorted as the Rust's sort leaves them; `k` = size_of_contraction;
    `bound` = value of the shared upper bound -/
def subStepSortedB (edges : List (Nat × Nat)) (sortedIds : List Nat) (k : Nat) (bound : Int) :
    StepOut × Int :=
  -- `&node_id_list[0..k]`, `&node_id_list[len-k..]`, debug_assert!(!sources.is_empty())
  if k = 0 ∨ sortedIds.length < k then (.panic, bound)
  else
    let p := prep edges sortedIds k
    match solve p bound with
    | none => (.panic, bound)
    | some (none, bound') => (.aborted, bound')
    | some (some (flow, bits), bound') =>
      let lr := partitionIds p.table bits sortedIds
      -- debug_assert!(!left_ids.is_empty()); debug_assert!(!right_ids.is_empty())
      if lr.1.isEmpty ∨ lr.2.isEmpty then (.panic, bound')
      else (.ok { flow := flow, left := lr.1, right := lr.2 }, bound')

def subStepSorted (edges : List (Nat × Nat)) (sortedIds : List Nat) (k : Nat) (bound : Int) : StepOut :=
  (subStepSortedB edges sortedIds k bound).1

/-- the value of the shared bound after the step -/
def boundAfter (edges : List (Nat × Nat)) (sortedIds : List Nat) (k : Nat) (bound : Int) : Int :=
  (subStepSortedB edges sortedIds k bound).2

/-! ### the sort -/

/-- insert `x` before the first element whose key is not smaller (stable when used from the right) -/
def insertByKey (key : Nat → Int) (x : Nat) : List Nat → List Nat
  | [] => [x]
  | y :: ys => if key x ≤ key y then x :: y :: ys else y :: insertByKey key x ys

def sortByKey (key : Nat → Int) : List Nat → List Nat
  | [] => []
  | x :: xs => insertByKey key x (sortByKey key xs)

/-- stable sort by `axisKey` -/
def sortIds (ids : List Nat) (coord : Nat → Coord) (axis : Nat) : List Nat :=
  sortByKey (fun a => axisKey axis (coord a)) ids

def subStep (edges : List (Nat × Nat)) (ids : List Nat) (coord : Nat → Coord) (axis : Nat) (k : Nat)
    (bound : Int) : StepOut :=
  subStepSorted edges (sortIds ids coord axis) k bound

def balanceNum (r : FlowRes) : Nat := min r.left.length r.right.length
def balanceDen (r : FlowRes) : Nat := r.left.length + r.right.length

/-- `max(1, x as usize)` for the truncated product `x` the caller computed -/
def sizeOfContraction (truncProduct : Nat) : Nat := max 1 truncProduct

end Tbx.InertialFlow
