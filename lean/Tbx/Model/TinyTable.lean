/-
Executable model of `src/tiny_table.rs` (TinyTable<K,V>): an unsorted `Vec<(K,V)>` with linear search.
Keys `Nat`, values `Int`.  The vector is a `List` in index order; `Vec::swap_remove` is mirrored
exactly (the last element moves into the hole), since it determines the order later searches see.

`find_mut` hands out `&mut (K,V)`; it is modelled for its map use (overwriting the value).  Rewriting
the *key* through that reference can create duplicate keys and is outside the property's operations.
-/
namespace Tbx.TinyTable

abbrev T := List (Nat × Int)

def new : T := []

/-- `data.iter().any(|x| x.0 == *k)` -/
def contains (t : T) (k : Nat) : Bool := t.any (fun e => e.1 == k)

/-- `data.iter().find(|x| x.0 == *k)` -/
def find : T → Nat → Option Int
  | [], _ => none
  | (k', v) :: t, k => if k' = k then some v else find t k

/-- `data.iter().position(|value| value.0 == *k)` -/
def position : T → Nat → Option Nat
  | [], _ => none
  | (k', _) :: t, k => if k' = k then some 0 else (position t k).map (· + 1)

/-- `Vec::swap_remove(index)` for an index in range: the last element takes the removed place -/
def swapRemove : T → Nat → T
  | [], _ => []
  | _ :: xs, 0 =>
    match xs.getLast? with
    | none => []
    | some z => z :: xs.dropLast
  | x :: xs, i + 1 => x :: swapRemove xs i

/-- `remove`: table afterwards and whether something was removed -/
def remove (t : T) (k : Nat) : T × Bool :=
  match position t k with
  | some i => (swapRemove t i, true)
  | none => (t, false)

/-- `insert`: remove, then push; returns what `remove` returned -/
def insert (t : T) (k : Nat) (v : Int) : T × Bool :=
  let r := remove t k
  (r.1 ++ [(k, v)], r.2)

/-- `find_mut` used to overwrite the value of the first entry with key `k` -/
def setVal : T → Nat → Int → T × Bool
  | [], _, _ => ([], false)
  | (k', v') :: t, k, v =>
    if k' = k then ((k', v) :: t, true) else (((k', v') :: (setVal t k v).1), (setVal t k v).2)

def len (t : T) : Nat := t.length
def isEmpty (t : T) : Bool := t.isEmpty
def clear (_ : T) : T := []

end Tbx.TinyTable
