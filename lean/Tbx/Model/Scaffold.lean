import Tbx.Model.Hull
import Tbx.Model.BBox
/-
Executable model of what `scaffold --convex-cells-geojson` emits (src/scaffold/bin/main.rs lines
53-78, serialize.rs lines 7-41): nodes are grouped by partition id (the `FxHashMap<PartitionID,
Vec<usize>>` is modelled by its contract: one entry per distinct id holding the node indices in
ascending order), every group is fed to `monotone_chain`, the ring of a feature is the hull followed by
its first vertex again (`iter().cycle().take(len + 1)`), the bbox is `from_coordinates(hull)`.
The order of the features in the file (z-order of the box centres, ties by the unspecified parallel
collect order) is not part of the property; the model lists them by ascending id.
-/
namespace Tbx.Geo

structure SNode where
  p : Coord
  pid : Nat
deriving Repr, Inhabited

structure Feature where
  id : Nat
  ring : List Coord
  box : BoxCorners
deriving Repr, Inhabited

def insertNat (x : Nat) : List Nat → List Nat
  | [] => [x]
  | y :: ys => if x ≤ y then x :: y :: ys else y :: insertNat x ys

/-- insertion sort (structural recursion, so that concrete instances reduce in the kernel) -/
def sortNat (l : List Nat) : List Nat := l.foldr insertNat []

/-- the distinct partition ids, ascending -/
def cellIds (ns : List SNode) : List Nat := sortNat (ns.map (·.pid)).eraseDups

/-- coordinates of the nodes carrying the id, in node order -/
def cellOf (ns : List SNode) (id : Nat) : List Coord := (ns.filter (·.pid == id)).map (·.p)

/-- `convex_hull.iter().cycle().take(convex_hull.len() + 1)` -/
def closeRing (h : List Coord) : List Coord := h ++ h.take 1

def scaffoldFeatures (ns : List SNode) : List Feature :=
  (cellIds ns).map fun id =>
    let hull := monotoneChain (cellOf ns id)
    { id := id, ring := closeRing hull, box := boxFromCoordinates hull }

end Tbx.Geo
