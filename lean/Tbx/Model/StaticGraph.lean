import Tbx.Model.Arr
/-
Executable model of `src/static_graph.rs` (StaticGraph<T>), mirroring the Rust statement by
statement:

  node_array : Vec<NodeArrayEntry{first_edge}>   one entry per node + one sentinel
  edge_array : Vec<EdgeArrayEntry{target,data}>

Node ids / edge ids are `Nat` (usize), edge data is `Int` (the Rust is generic; the harness
instantiates i32).  The input `Vec<InputEdge>` is a `List InEdge`; `input[offset]` is
`inp.getD offset default` and is only evaluated behind the Rust's own guard
`offset != input.len()`.  `input.sort()` (derived lexicographic `Ord` on
(source,target,data)) is modelled by its contract through core's `List.mergeSort`.
The `debug_assert!(check_integrity())` at the end of the constructor is not modelled
(it cannot fail: targets are below max id + 1 and the offsets are non-decreasing).
-/
namespace Tbx.SG

/-- `InputEdge<T>` -/
structure InEdge where
  src : Nat
  tgt : Nat
  data : Int
deriving Repr, Inhabited, DecidableEq

/-- `EdgeArrayEntry<T>` -/
structure EEntry where
  tgt : Nat
  data : Int
deriving Repr, Inhabited, DecidableEq

structure Graph where
  nodes : Array Nat
  edges : Array EEntry
deriving Repr

/-- `usize::MAX` = `EdgeID::MAX` = `INVALID_NODE_ID` -/
def maxId : Nat := 18446744073709551615

/-- derived `Ord` of `InputEdge`: lexicographic on (source, target, data) -/
def edgeLe (a b : InEdge) : Bool :=
  a.src < b.src || (a.src == b.src && (a.tgt < b.tgt || (a.tgt == b.tgt && decide (a.data ≤ b.data))))

/-- the first `for edge in &input` loop: running maximum over sources and targets, from 0 -/
def maxIdLoop : List InEdge → Nat → Nat
  | [], n => n
  | e :: es, n => maxIdLoop es (max e.tgt (max e.src n))

/-- `while offset != input.len() && input[offset].source() == i { offset += 1 }`
    (fuel handed in: `input.len() - offset`, one unit per increment) -/
def skipLoop (inp : List InEdge) (i : Nat) : Nat → Nat → Nat
  | 0, off => off
  | fuel + 1, off =>
    if off ≠ inp.length ∧ (inp.getD off default).src = i then skipLoop inp i fuel (off + 1) else off

/-- `for i in 0..number_of_nodes { while …; node_array.push(offset) }`; `k` iterations left -/
def offsetsLoop (inp : List InEdge) : Nat → Nat → Nat → Array Nat → Array Nat
  | 0, _, _, acc => acc
  | k + 1, i, off, acc =>
    let off' := skipLoop inp i (inp.length - off) off
    offsetsLoop inp k (i + 1) off' (acc.push off')

/-- `new_from_sorted_list(input)` -/
def newFromSortedList (inp : List InEdge) : Graph :=
  let n := maxIdLoop inp 0
  let nodes := offsetsLoop inp n 0 0 #[0]
  { nodes := nodes.push inp.length,
    edges := (inp.map fun e => (⟨e.tgt, e.data⟩ : EEntry)).toArray }

/-- `new(input)`: sort, then `new_from_sorted_list` -/
def new (inp : List InEdge) : Graph := newFromSortedList (inp.mergeSort (fun a b => edgeLe a b))

def numberOfNodes (g : Graph) : Nat := g.nodes.size - 1
def numberOfEdges (g : Graph) : Nat := g.edges.size
def beginEdges (g : Graph) (n : Nat) : Nat := gt g.nodes n
def endEdges (g : Graph) (n : Nat) : Nat := gt g.nodes (n + 1)
/-- `out_degree(n) = end_edges(n) - begin_edges(n)` -/
def outDegree (g : Graph) (n : Nat) : Nat := endEdges g n - beginEdges g n
def target (g : Graph) (e : Nat) : Nat := (gt g.edges e).tgt
def data (g : Graph) (e : Nat) : Int := (gt g.edges e).data
/-- `*data_mut(e) = d` -/
def setData (g : Graph) (e : Nat) (d : Int) : Graph :=
  { g with edges := st g.edges e { gt g.edges e with data := d } }

/-- the ids of `edge_range(n)` = `begin_edges(n) .. end_edges(n)` -/
def edgeRange (g : Graph) (n : Nat) : List Nat := List.range' (beginEdges g n) (endEdges g n - beginEdges g n)

/-- `Range::find(|e| target(e) == t)` over `e .. e+k` -/
def findLoop (g : Graph) (t : Nat) : Nat → Nat → Option Nat
  | 0, _ => none
  | k + 1, e => if target g e = t then some e else findLoop g t k (e + 1)

/-- `find_edge(s,t)` with the guard `s >= number_of_nodes()` (D10 fixed) -/
def findEdge (g : Graph) (s t : Nat) : Option Nat :=
  if s ≥ numberOfNodes g then none
  else findLoop g t (endEdges g s - beginEdges g s) (beginEdges g s)

/-- `find_edge_unchecked(s,t)`: `EdgeID::MAX` for "none" -/
def findEdgeUnchecked (g : Graph) (s t : Nat) : Nat :=
  if s ≥ numberOfNodes g then maxId
  else match findLoop g t (endEdges g s - beginEdges g s) (beginEdges g s) with
    | some e => e
    | none => maxId

/-- the guard as it was before the D10 fix (`s > n`), kept only for the regression example in
    Props/C14: `none` where the Rust indexes `node_array[s+1]` out of bounds (panic) -/
def legacyFindEdge (g : Graph) (s t : Nat) : Option (Option Nat) :=
  if s > numberOfNodes g then some none
  else if s + 1 ≥ g.nodes.size then none
  else some (findLoop g t (endEdges g s - beginEdges g s) (beginEdges g s))

/-- (target, data) pairs read through `edge_range / target / data`, in slice order -/
def adjList (g : Graph) (n : Nat) : List (Nat × Int) :=
  (edgeRange g n).map fun e => (target g e, data g e)

end Tbx.SG
