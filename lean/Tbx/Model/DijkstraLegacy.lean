import Tbx.Model.Dijkstra
/-
Legacy definitions: the expressions of defects D3 and D5 as they were BEFORE the fixes in /repo
(commits 387b415, ed6dc93).  Used only by examples in Props/C08.lean and Props/C09.lean which show
that the legacy behaviour violates the property statements on the recorded witnesses, so a
regression to it is recognised immediately.  Nothing else imports these.
-/
namespace Tbx.Dijkstra.Legacy
open Tbx Tbx.AHeap Tbx.Dijkstra

/-- D3: `decrease_key_and_update_data(v, new_distance, v)` — the node itself as its new parent -/
def relaxD3 (q : Heap) (u distance : Int) (v w : Nat) : Option Heap :=
  let newDistance := distance + (w : Int)
  let q1 := if !(inserted q (v : Int)) then insert q (v : Int) newDistance u else q
  if contains q1 (v : Int) && decide (weight q1 (v : Int) > newDistance) then
    decreaseKeyData q1 (v : Int) newDistance (v : Int)
  else some q1

def relaxAllD3 (q : Heap) (u distance : Int) : List (Nat × Nat) → Option Heap
  | [] => some q
  | e :: es =>
    match relaxD3 q u distance e.1 e.2 with
    | none => none
    | some q' => relaxAllD3 q' u distance es

def uniLoopD3 (adj : Adj) (t : Int) : Nat → Uni → Res (Uni × Int)
  | 0, _ => .fuel
  | fuel + 1, st =>
    if !(isEmpty st.queue) && st.upperBound == UMAX then
      match deleteMin st.queue with
      | none => .panic
      | some (q1, u) =>
        let distance := weight q1 u
        if u == t then .ok ({ queue := q1, upperBound := distance }, distance)
        else
          match relaxAllD3 q1 u distance (adj u.toNat) with
          | none => .panic
          | some q2 => uniLoopD3 adj t fuel { st with queue := q2 }
    else .ok (st, st.upperBound)

def uniRunD3 (adj : Adj) (n : Nat) (st : Uni) (s t : Nat) : Res (Uni × Int) :=
  let st := st.clear
  let st := { st with queue := insert st.queue (s : Int) 0 (s : Int) }
  uniLoopD3 adj (t : Int) (n + 1) st

/-- D5: `&self.matrix[index * self.incoming_nodes.len()..(index + 1) * self.outgoing_nodes.len()]` -/
def distanceRowD5 (c : MatrixCell) (u : Nat) : Option (Array Int) :=
  match indexOf? c.incoming u with
  | none => none
  | some index =>
    let lo := index * c.incoming.length
    let hi := (index + 1) * c.outgoing.length
    if lo ≤ hi ∧ hi ≤ c.matrix.size then some (c.matrix.extract lo hi) else none

/-- D5: `let distance = self.matrix[i * j + i];` -/
def overlayD5 (c : MatrixCell) : List (Nat × Nat × Int) :=
  (List.range c.incoming.length).flatMap fun i =>
    (List.range c.outgoing.length).filterMap fun j =>
      let distance := gt c.matrix (i * j + i)
      if distance != UMAX then
        match c.incoming[i]?, c.outgoing[j]? with
        | some s, some t => some (s, t, distance)
        | _, _ => none
      else none

end Tbx.Dijkstra.Legacy
