import Tbx.Model.Arr
/-
Executable model of `src/addressable_binary_heap.rs` (AddressableHeap), mirroring the Rust
statement by statement:

  heap            : Vec<HeapElement{index,weight}>  with a sentinel at position 0
  inserted_nodes  : Vec<HeapNode{node,key,weight,data}>
  node_index      : FxHashMap<NodeID,usize>          (modelled by its map contract: assoc list)

Node ids, weights and data are modelled as `Int` (the Rust is generic over integer types);
`wmin`/`wmax` stand for `Weight::min_value()` / `Weight::max_value()`.
Loops carry explicit fuel; the fuel handed in by the callers is shown sufficient in
`Tbx/Proofs/AHeap*.lean`.
-/
namespace Tbx.AHeap

structure Elem where
  index : Nat
  weight : Int
deriving Repr, Inhabited, DecidableEq

structure Node where
  id : Int
  key : Nat
  weight : Int
  data : Int
deriving Repr, Inhabited, DecidableEq

structure Heap where
  heap  : Array Elem
  nodes : Array Node
  idx   : List (Int × Nat)
  wmin  : Int
  wmax  : Int
deriving Repr

def lookup (idx : List (Int × Nat)) (id : Int) : Option Nat := List.lookup id idx

def setKey (ns : Array Node) (i : Nat) (k : Nat) : Array Node := st ns i { gt ns i with key := k }

/-- `AddressableHeap::new` -/
def init (wmin wmax : Int) : Heap :=
  { heap := #[⟨0, wmin⟩], nodes := #[], idx := [], wmin := wmin, wmax := wmax }

/-- `clear` -/
def clear (s : Heap) : Heap := init s.wmin s.wmax

def len (s : Heap) : Nat := s.heap.size - 1
def isEmpty (s : Heap) : Bool := len s == 0
def insertedLen (s : Heap) : Nat := s.nodes.size

/-- the `while` loop of `up_heap`: moves parents down while they are heavier than `w` -/
def upLoop : Nat → Array Elem → Array Node → Nat → Int → Array Elem × Array Node × Nat
  | 0, h, ns, key, _ => (h, ns, key)
  | fuel + 1, h, ns, key, w =>
    if (gt h (key / 2)).weight > w then
      let h' := st h key (gt h (key / 2))
      let ns' := setKey ns (gt h' key).index key
      upLoop fuel h' ns' (key / 2) w
    else (h, ns, key)

/-- `up_heap(key)` -/
def upHeap (s : Heap) (key : Nat) : Heap :=
  let rising := (gt s.heap key).index
  let w := (gt s.heap key).weight
  let r := upLoop key s.heap s.nodes key w
  let h := st r.1 r.2.2 ⟨rising, w⟩
  let ns := setKey r.2.1 rising r.2.2
  { s with heap := h, nodes := ns }

/-- the `while` loop of `down_heap` -/
def downLoop : Nat → Array Elem → Array Node → Nat → Int → Array Elem × Array Node × Nat
  | 0, h, ns, key, _ => (h, ns, key)
  | fuel + 1, h, ns, key, w =>
    let next := 2 * key
    if next < h.size then
      let next := if next + 1 < h.size ∧ (gt h next).weight > (gt h (next + 1)).weight then next + 1 else next
      if w ≤ (gt h next).weight then (h, ns, key)
      else
        let h' := st h key (gt h next)
        let ns' := setKey ns (gt h' key).index key
        downLoop fuel h' ns' next w
    else (h, ns, key)

/-- `down_heap(key)` -/
def downHeap (s : Heap) (key : Nat) : Heap :=
  let dropping := (gt s.heap key).index
  let w := (gt s.heap key).weight
  let r := downLoop s.heap.size s.heap s.nodes key w
  let h := st r.1 r.2.2 ⟨dropping, w⟩
  let ns := setKey r.2.1 dropping r.2.2
  { s with heap := h, nodes := ns }

/-- `insert(node, weight, data)` -/
def insert (s : Heap) (id w d : Int) : Heap :=
  let index := s.nodes.size
  let key := s.heap.size
  let s1 : Heap := { s with heap := s.heap.push ⟨index, w⟩,
                            nodes := s.nodes.push ⟨id, key, w, d⟩,
                            idx := (id, index) :: s.idx }
  upHeap s1 key

/-- `decrease_key(node, weight)`; `none` where the Rust indexes the map with an absent id (panic) -/
def decreaseKey (s : Heap) (id w : Int) : Option Heap :=
  match lookup s.idx id with
  | none => none
  | some index =>
    let key := (gt s.nodes index).key
    let ns := st s.nodes index { gt s.nodes index with weight := w }
    let h := st s.heap key { gt s.heap key with weight := w }
    some (upHeap { s with heap := h, nodes := ns } key)

/-- `data_mut(node) = d` -/
def setData (s : Heap) (id d : Int) : Option Heap :=
  match lookup s.idx id with
  | none => none
  | some index => some { s with nodes := st s.nodes index { gt s.nodes index with data := d } }

/-- `decrease_key_and_update_data` -/
def decreaseKeyData (s : Heap) (id w d : Int) : Option Heap :=
  match decreaseKey s id w with
  | none => none
  | some s' => setData s' id d

/-- `min()`; `none` where the Rust panics (empty heap) -/
def min? (s : Heap) : Option Int :=
  if s.heap.size ≤ 1 then none else some (gt s.nodes (gt s.heap 1).index).id

/-- `delete_min()`; `none` where the Rust panics (empty heap) -/
def deleteMin (s : Heap) : Option (Heap × Int) :=
  if s.heap.size ≤ 1 then none
  else
    let removed := (gt s.heap 1).index
    let last := s.heap.size - 1
    -- swap(1, last); pop()
    let h := (st s.heap 1 (gt s.heap last)).pop
    let s1 : Heap := { s with heap := h }
    let s2 := if h.size > 1 then downHeap s1 1 else s1
    let ns := setKey s2.nodes removed 0
    some ({ s2 with nodes := ns }, (gt ns removed).id)

/-- the loop of `flush`: every heap slot's node gets key 0 -/
def flushLoop : Nat → Array Elem → Array Node → Array Node
  | 0, _, ns => ns
  | i + 1, h, ns => flushLoop i h (setKey ns (gt h (i + 1)).index 0)

/-- `flush()` -/
def flush (s : Heap) : Heap :=
  { s with nodes := flushLoop (s.heap.size - 1) s.heap s.nodes, heap := s.heap.extract 0 1 }

def weight (s : Heap) (id : Int) : Int :=
  match lookup s.idx id with
  | some i => (gt s.nodes i).weight
  | none => s.wmax

def removed (s : Heap) (id : Int) : Bool :=
  match lookup s.idx id with
  | some i => (gt s.nodes i).key == 0
  | none => false

def contains (s : Heap) (id : Int) : Bool :=
  match lookup s.idx id with
  | some i => (gt s.nodes i).key != 0
  | none => false

def inserted (s : Heap) (id : Int) : Bool :=
  match lookup s.idx id with
  | some i => (gt s.nodes i).id == id
  | none => false

/-- `data(node)`; `none` where the Rust unwraps an absent id -/
def data? (s : Heap) (id : Int) : Option Int :=
  match lookup s.idx id with
  | some i => some (gt s.nodes i).data
  | none => none

end Tbx.AHeap
