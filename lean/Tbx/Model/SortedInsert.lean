/-
Executable model of `src/single_linked_list.rs` (SingleLinkedList, after the D17 fix).
The chain of boxes `head -> node -> ... -> None` is modelled by the list of its elements
(`Int`; the Rust needs `PartialOrd`, the property is about totally ordered items).
A cursor walking the links is structural recursion on the list.
-/
namespace Tbx.SList

abbrev SL := List Int

def new : SL := []
/-- `push_front` -/
def pushFront (l : SL) (e : Int) : SL := e :: l
/-- `pop_front` -/
def popFront : SL → Option Int × SL
  | [] => (none, [])
  | x :: xs => (some x, xs)
/-- `peek_front` -/
def peekFront : SL → Option Int
  | [] => none
  | x :: _ => some x
def isEmpty (l : SL) : Bool := l.isEmpty
def clear (_ : SL) : SL := []

/-- `is_sorted`: false at the first node that is greater than its successor -/
def isSorted : SL → Bool
  | [] => true
  | [_] => true
  | x :: y :: r => if x > y then false else isSorted (y :: r)

/-- `insert_sorted(elem)`: advance while the node at the cursor is smaller than `elem`, then link
    the new node in front of the cursor (possibly at the head or at the end) -/
def insertSorted : SL → Int → SL
  | [], e => [e]
  | x :: xs, e => if x < e then x :: insertSorted xs e else e :: x :: xs

end Tbx.SList
