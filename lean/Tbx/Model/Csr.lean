import Tbx.Model.Arr
/-
The part of `src/static_graph.rs` that the C16 analyses read, as an executable model
(core Lean only).  Edge data never influences the analyses, so an input edge is a pair
`(source, target)`.

  StaticGraph::new(input)        = ofEdges   : sort by (source, target), then
  new_from_sorted_list           = ofSorted  : node_array = [0, off_0, …, off_{max-1}, len]
  number_of_nodes()              = node_array.len() - 1   ( = max id + 1; the empty edge list gives ONE node)
  begin_edges / end_edges / out_degree / target / edge_range

`input.sort()` is modelled by its contract (a stable insertion sort on the derived
lexicographic order; parallel edges have equal targets so their relative order is unobservable
here).
-/
namespace Tbx.Csr

/-- `usize::MAX`, the "unset" sentinel of all C16 algorithms -/
def maxU : Nat := 18446744073709551615

structure Graph where
  nodes : Array Nat      -- `first_edge` of every node, plus the sentinel
  targets : Array Nat    -- `edge_array[e].target`
deriving Repr, Inhabited

def numNodes (g : Graph) : Nat := g.nodes.size - 1
def numEdges (g : Graph) : Nat := g.targets.size
def beginEdges (g : Graph) (n : Nat) : Nat := gt g.nodes n
def endEdges (g : Graph) (n : Nat) : Nat := gt g.nodes (n + 1)
def outDegree (g : Graph) (n : Nat) : Nat := endEdges g n - beginEdges g n
def target (g : Graph) (e : Nat) : Nat := gt g.targets e

/-- lexicographic `Ord` on (source, target) -/
def edgeLe (a b : Nat × Nat) : Bool := a.1 < b.1 || (a.1 == b.1 && a.2 ≤ b.2)

def insertSorted (e : Nat × Nat) : List (Nat × Nat) → List (Nat × Nat)
  | [] => [e]
  | x :: xs => if edgeLe x e then x :: insertSorted e xs else e :: x :: xs

def sortEdges (es : List (Nat × Nat)) : List (Nat × Nat) :=
  es.foldl (fun acc e => insertSorted e acc) []

/-- running maximum over sources and targets, from 0 -/
def maxId : List (Nat × Nat) → Nat → Nat
  | [], n => n
  | e :: es, n => maxId es (max e.2 (max e.1 n))

/-- `while offset != input.len() && input[offset].source() == i { offset += 1 }` -/
def skipLoop (inp : Array (Nat × Nat)) (i : Nat) : Nat → Nat → Nat
  | 0, off => off
  | fuel + 1, off =>
    if off ≠ inp.size ∧ (gt inp off).1 = i then skipLoop inp i fuel (off + 1) else off

/-- `for i in 0..number_of_nodes { while …; node_array.push(offset) }`; `k` iterations left -/
def offsetsLoop (inp : Array (Nat × Nat)) : Nat → Nat → Nat → Array Nat → Array Nat
  | 0, _, _, acc => acc
  | k + 1, i, off, acc =>
    let off' := skipLoop inp i (inp.size - off) off
    offsetsLoop inp k (i + 1) off' (acc.push off')

def ofSorted (inp : List (Nat × Nat)) : Graph :=
  let a := inp.toArray
  let n := maxId inp 0
  let nodes := offsetsLoop a n 0 0 #[0]
  { nodes := nodes.push a.size, targets := a.map (·.2) }

def ofEdges (es : List (Nat × Nat)) : Graph := ofSorted (sortEdges es)

/-! ### well-formedness (what `check_integrity` checks, plus the sentinel) -/

/-- offsets are monotone, the sentinel equals the number of edges, every target is a node -/
structure WF (g : Graph) : Prop where
  size_pos : 1 ≤ g.nodes.size
  mono : ∀ i, i < numNodes g → gt g.nodes i ≤ gt g.nodes (i + 1)
  last : gt g.nodes (numNodes g) = g.targets.size
  tgt : ∀ e, e < g.targets.size → gt g.targets e < numNodes g

def wfB (g : Graph) : Bool :=
  decide (1 ≤ g.nodes.size) &&
  (List.range (numNodes g)).all (fun i => decide (gt g.nodes i ≤ gt g.nodes (i + 1))) &&
  decide (gt g.nodes (numNodes g) = g.targets.size) &&
  (List.range g.targets.size).all (fun e => decide (gt g.targets e < numNodes g))

theorem wfB_sound (g : Graph) (h : wfB g = true) : WF g := by
  simp only [wfB, Bool.and_eq_true, decide_eq_true_eq, List.all_eq_true, List.mem_range] at h
  obtain ⟨⟨⟨h1, h2⟩, h3⟩, h4⟩ := h
  exact ⟨h1, h2, h3, h4⟩

/-- the out-neighbours of `u` in edge order -/
def succs (g : Graph) (u : Nat) : List Nat :=
  (List.range' (beginEdges g u) (outDegree g u)).map (target g)

/-- all edges `(u, v)` as pairs, node by node -/
def edgesOf (g : Graph) : List (Nat × Nat) :=
  (List.range (numNodes g)).flatMap fun u => (succs g u).map fun v => (u, v)

end Tbx.Csr
