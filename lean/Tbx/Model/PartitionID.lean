/-
Model of /repo/src/partition_id.rs (`PartitionID(pub u32)`) and /repo/src/level_directory.rs on `Nat`
with the 32-bit width explicit: `<<` on u32 wraps (`% U32`) and panics only for a shift amount ≥ 32,
`+`/`+=` are overflow-checked, `PartitionID::new` carries `debug_assert!(id != 0)`.
`none` = a panic of the checked build.  `leading_zeros` is a hardware primitive, modelled by its
contract (`32` for 0, else `31 - log2`).
-/
namespace Tbx.PartitionID

def U32 : Nat := 4294967296

def leadingZeros (x : Nat) : Nat := if x = 0 then 32 else 31 - Nat.log2 x

/-- `PartitionID::new`: `debug_assert!(id != 0)` -/
def new (id : Nat) : Option Nat := if id ≠ 0 then some id else none

def root : Nat := 1

/-- `parent`: `new(max(1, self.0 >> 1))`; the assertion in `new` can never fire here -/
def parent (x : Nat) : Nat := max 1 (x >>> 1)

def leftChild (x : Nat) : Nat := (x <<< 1) % U32
/-- `temp + 1` cannot overflow: `temp` is even -/
def rightChild (x : Nat) : Nat := (x <<< 1) % U32 + 1
def children (x : Nat) : Nat × Nat := ((x <<< 1) % U32, (x <<< 1) % U32 + 1)

/-- `self.0 <<= k` (k: usize): shift-amount overflow panics for k ≥ 32 -/
def makeLeftmostDescendant (x k : Nat) : Option Nat := if k < 32 then some ((x <<< k) % U32) else none

/-- `self.make_leftmost_descendant(k); self.0 += (1 << k) - 1` -/
def makeRightmostDescendant (x k : Nat) : Option Nat :=
  match makeLeftmostDescendant x k with
  | none => none
  | some t =>
    let r := t + ((1 <<< k) % U32 - 1)
    if r < U32 then some r else none

def makeLeftChild (x : Nat) : Option Nat := makeLeftmostDescendant x 1
def makeRightChild (x : Nat) : Option Nat := makeRightmostDescendant x 1

/-- `(31 - leading_zeros).try_into::<u8>().unwrap()`: the subtraction underflows for id 0 -/
def level (x : Nat) : Option Nat := if leadingZeros x ≤ 31 then some (31 - leadingZeros x) else none

def isLeftChild (x : Nat) : Bool := x % 2 == 0
def isRightChild (x : Nat) : Bool := x % 2 == 1

/-- `new(self.0 & (0xffff_ffff ^ ((1 << level) - 1)))` (level: u32) -/
def parentAtLevel (x lvl : Nat) : Option Nat :=
  if lvl < 32 then new (x &&& (0xffffffff ^^^ ((1 <<< lvl) % U32 - 1))) else none

/-- the `while left != right` loop -/
def lcaLoop : Nat → Nat → Nat → Option Nat
  | 0, l, r => if l = r then some l else none        -- out of fuel; never with fuel 32 (`lcaLoop_fuel`)
  | fuel + 1, l, r => if l ≠ r then lcaLoop fuel (parent l) (parent r) else some l

def lowestCommonAncestor (x y : Nat) : Option Nat :=
  match level x, level y with
  | some ll, some rl =>
    let l := if ll > rl then x >>> (ll - rl) else x
    let r := if rl > ll then y >>> (rl - ll) else y
    lcaLoop 32 l r
  | _, _ => none

/-- `let mask = 1 << index; mask & self.0 > 0` (index: usize, mask: u32) -/
def extractBit (x idx : Nat) : Option Bool :=
  if idx < 32 then some (decide (((1 <<< idx) % U32) &&& x > 0)) else none

/-! level_directory.rs -/

/-- `crosses_at_level(u, v, level)`; `ids` = `partition_ids`; indexing out of range panics -/
def crossesAtLevel (ids : Array Nat) (u v lvl : Nat) : Option Bool :=
  match ids[u]?, ids[v]? with
  | some a, some b =>
    match parentAtLevel a lvl, parentAtLevel b lvl with
    | some pa, some pb => some (pa != pb)
    | _, _ => none
  | _, _ => none

/-- `get_crossing_levels`: the longest prefix of `levels` on which u and v cross -/
def crossingCount (ids : Array Nat) (u v : Nat) : List Nat → Option Nat
  | [] => some 0
  | l :: ls =>
    match crossesAtLevel ids u v l with
    | none => none
    | some true => (crossingCount ids u v ls).map (· + 1)
    | some false => some 0

def getCrossingLevels (ids : Array Nat) (levels : List Nat) (u v : Nat) : Option (List Nat) :=
  (crossingCount ids u v levels).map fun i => levels.take i

end Tbx.PartitionID
