/-
Model of /repo/src/polyline.rs — the INTEGER layer.

`encode` = float glue (`(p * 10^prec).round() as i32`, executed with Lean `Float` in the driver, never
reasoned about) followed by `polyline_encode_line` on the rounded `[i32; 2]` sequence; `decode` =
the accumulation of `lat`/`lng` (i32) followed by float glue (`lat as f64 / factor`).  This file models
everything between the two float steps.  Bytes are `Nat`s (`u8`), i32 values are `Int`s with the
checks the harness build performs (`overflow-checks = true`):

* `+`, `-`, `+=` on i32 panic on overflow       → `chk32 … = none`
* `<<` panics only when the shift AMOUNT is ≥ 32; the value wraps silently.  Every place where the
  real code could wrap is modelled as `none` as well (`shl32`): the property's quantifier (|lat| ≤ 90·10^6,
  |lon| ≤ 180·10^6) excludes those inputs (`Tbx.Props.C20.polyline_int_roundtrip` proves `some` there).
-/
namespace Tbx.Polyline

def I32_MIN : Int := -2147483648
def I32_MAX : Int := 2147483647

/-- result of an overflow-checked i32 operation -/
def chk32 (x : Int) : Option Int := if I32_MIN ≤ x ∧ x ≤ I32_MAX then some x else none

/-- `b << shift` on i32: panics for `shift ≥ 32`; `none` as well where the value would wrap -/
def shl32 (b : Int) (shift : Nat) : Option Int := if shift < 32 then chk32 (b * 2 ^ shift) else none

/-- `polyline_encode_unsigned` for a non-negative i32 `value`:
    `while value >= 0x20 { push((0x20 | (value & 0x1f)) + 63); value >>= 5 } push(value + 63)`.
    Fuelled; called with `fuel = value`, which always suffices (`value ≥ 0x20 → value >>> 5 < value`), the
    fuel-0 branch is reached only with `value = 0` and then coincides with the loop exit. -/
def encU : Nat → Nat → List Nat
  | 0, value => [value + 63]
  | fuel + 1, value =>
    if value ≥ 0x20 then ((0x20 ||| (value &&& 0x1f)) + 63) :: encU fuel (value >>> 5)
    else [value + 63]

def encodeUnsigned (value : Nat) : List Nat := encU value value

/-- `polyline_encode_signed(value)`: `encode_unsigned(if value < 0 { !(value << 1) } else { value << 1 })`.
    `none` where `value << 1` wraps (|value| ≥ 2^30; the real code then emits a garbage byte). -/
def encodeSigned (value : Int) : Option (List Nat) :=
  match chk32 (value * 2) with
  | none => none
  | some sh =>
    let u : Int := if value < 0 then -sh - 1 else sh     -- `!x = -x - 1`
    some (encodeUnsigned u.toNat)

/-- the `for point in path` loop of `polyline_encode_line` after `transform`; `start` is the previous point -/
def encodeLine : List (Int × Int) → Int × Int → Option (List Nat)
  | [], _ => some []
  | e :: rest, start =>
    match chk32 (e.1 - start.1), chk32 (e.2 - start.2) with
    | some d0, some d1 =>
      match encodeSigned d0, encodeSigned d1, encodeLine rest e with
      | some a, some b, some c => some (a ++ b ++ c)
      | _, _, _ => none
    | _, _ => none

/-- integer layer of `encode` -/
def encodeInts (xs : List (Int × Int)) : Option (List Nat) := encodeLine xs (0, 0)

/-- `decode_unsigned(encoded, index)` on the remaining bytes; returns the value and the remaining bytes.
    `result`/`shift` are the loop variables (initially 1 and 0). -/
def decodeUnsigned : List Nat → Int → Nat → Option (Int × List Nat)
  | [], result, _ => some (result, [])
  | byte :: rest, result, shift =>
    let b : Int := (byte : Int) - 63 - 1
    match shl32 b shift with
    | none => none
    | some t =>
      match chk32 (result + t) with
      | none => none
      | some r' => if b < 0x1f then some (r', rest) else decodeUnsigned rest r' (shift + 5)

/-- `if result & 1 != 0 { !(result >> 1) } else { result >> 1 }` (`& 1` on two's complement = parity) -/
def unzig (result : Int) : Int := if result % 2 != 0 then -(result >>> 1) - 1 else result >>> 1

/-- the `while index < len` loop of `decode`.  Every iteration consumes at least one byte, so
    `fuel = bytes.length` suffices (`Tbx.Polyline.decodeLoop_fuel`); `none` = an i32 overflow panic. -/
def decodeLoop : Nat → List Nat → Int → Int → Option (List (Int × Int))
  | _, [], _, _ => some []
  | 0, _ :: _, _, _ => none
  | fuel + 1, b :: bs, lat, lng =>
    match decodeUnsigned (b :: bs) 1 0 with
    | none => none
    | some (r1, rest1) =>
      match chk32 (lat + unzig r1) with
      | none => none
      | some lat' =>
        match decodeUnsigned rest1 1 0 with
        | none => none
        | some (r2, rest2) =>
          match chk32 (lng + unzig r2) with
          | none => none
          | some lng' =>
            match decodeLoop fuel rest2 lat' lng' with
            | none => none
            | some tail => some ((lat', lng') :: tail)

/-- integer layer of `decode` -/
def decodeInts (cs : List Nat) : Option (List (Int × Int)) := decodeLoop cs.length cs 0 0

/-- the property's domain on the integer layer for precision ≤ 6 (10^6 · 90 / 180) -/
def InRange (p : Int × Int) : Prop :=
  -90000000 ≤ p.1 ∧ p.1 ≤ 90000000 ∧ -180000000 ≤ p.2 ∧ p.2 ≤ 180000000

instance (p : Int × Int) : Decidable (InRange p) := by unfold InRange; infer_instance

end Tbx.Polyline
