import Tbx.Model.HashTable
/-
The two pre-fix behaviours of `medium_size_hash_table.rs` (DESIGN.md section 5, D8 and D9), kept only so
that Props/C13.lean can show by `decide` that they violate the statement on the recorded witnesses
(a regression to the old code is recognised immediately).  Not used by the driver's model run.
-/
namespace Tbx.HashTable.Legacy
open Tbx Tbx.HashTable

/-- D8: `clear` without the restamp at generation u32::MAX -/
def clear (N : Nat) (t : Table) : Table :=
  let ts' := (t.ts + 1) % 4294967296
  if ts' = 0 then { cells := Array.replicate N default, ts := ts', length := 0 }
  else { cells := t.cells, ts := ts', length := 0 }

/-- D9: `get_mut` that does not reset the value of a (re)created cell -/
def getMut (N : Nat) (h : Nat → Nat) (t : Table) (key : Nat) : Option (Table × Nat) :=
  match probe N t.cells t.ts key N (h key) with
  | none => none
  | some p =>
    let c := gt t.cells p
    if c.time ≠ t.ts then
      some ({ cells := st t.cells p ⟨t.ts, key, c.val⟩, ts := t.ts, length := t.length + 1 }, p)
    else
      some ({ cells := st t.cells p ⟨t.ts, key, c.val⟩, ts := t.ts, length := t.length }, p)

end Tbx.HashTable.Legacy
