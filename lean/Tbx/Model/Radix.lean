import Tbx.Model.Arr
import Tbx.Spec.SortOrder
/-
Executable model of /repo/src/rdx_sort.rs (`impl<T: RadixType> Sort for Vec<T>`), C17.

Element types are `(width in bytes, kind)`; elements are their bit patterns (`Nat < 256^w`).
`usize`/`isize` have `mem::size_of = 8` on the platform the harness runs on (the driver maps them to w = 8).

Two levels:
 (a) histogram level — mirrors the Rust loops one to one:
       `histAll`      Friend's single pass filling `histogram_table[k][key(k)] += 1` for all rounds k,
       `prefixRound`  the per-round exclusive prefix sums and the skip flag, with the two branches
                      (`T::IS_SIGNED && k == rounds-1`: buckets 0..127 offset by the number of
                      negatives, then buckets 128..255 from 0; otherwise buckets 0..255 from 0),
       `place`        `output[histogram_table[k][radix]] = num; histogram_table[k][radix] += 1`
                      (the `get_unchecked` writes: the model returns `none` if a target index were out
                      of bounds, which in Rust would be undefined behaviour),
       `permute`      the round loop with `continue` on skipped rounds and `mem::swap(self, output)`,
       `radixSort`    the whole function.
 (b) bucket level — a pass is the stable concatenation of the 256 buckets in the pass's bucket order
       (`bucketOrder`), a round is skipped iff one bucket holds all n elements (`skipRound`),
       `sortB` folds the rounds.
`Tbx.Props.C17.placement_eq_buckets` proves (a) = (b) with every write in bounds.

Abstractions: `Vec<Vec<usize>>` is an `Array (Array Nat)` (no overflow: counts ≤ n ≤ isize::MAX);
the arithmetic shift of signed integers in `key` is replaced by the logical shift of the two's
complement pattern (identical low byte because `round < size_of::<T>()`); `!bits` and
`bits | (1 << 31)` in the float keys are written arithmetically (`card-1-bits`, `bits + half` when the
sign bit is clear).
-/
namespace Tbx.Radix
open Tbx Tbx.SortSpec

/-- Rust `T::IS_SIGNED` (the `is_signed!` table; floats are NOT flagged signed) -/
def isSigned (t : Ty) : Bool :=
  match t.kind with
  | .signed => true
  | _ => false

/-- float key transform: `if bits >> (8w-1) == 1 { !bits } else { bits | (1 << (8w-1)) }` -/
def floatTr (t : Ty) (x : Nat) : Nat :=
  if x / t.half = 1 then t.card - 1 - x else x + t.half

/-- the pattern whose bytes are the radix keys -/
def tr (t : Ty) (x : Nat) : Nat :=
  match t.kind with
  | .float => floatTr t x
  | _ => x

/-- `key(round)` = `(v >> (round << 3)) as u8` -/
def key (t : Ty) (x : Nat) (round : Nat) : Nat := (tr t x >>> (round <<< 3)) % 256

/-! ### (a) histogram level -/

abbrev Table := Array (Array Nat)

/-- `histogram_table[k][r] += 1` -/
def incr (tab : Table) (k r : Nat) : Table := st tab k (st (gt tab k) r (gt (gt tab k) r + 1))

/-- `for k in 0..rounds { histogram_table[k][num.key(k)] += 1 }` (`ks` = the rounds still to do) -/
def histOne (t : Ty) (x : Nat) : List Nat → Table → Table
  | [], tab => tab
  | k :: ks, tab => histOne t x ks (incr tab k (key t x k))

/-- `self.iter().for_each(|num| …)` over `rounds × 256` zeroed counters -/
def histFrom (t : Ty) : List Nat → Table → Table
  | [], tab => tab
  | x :: xs, tab => histFrom t xs (histOne t x (List.range t.w) tab)

def zeroTable (t : Ty) : Table := Array.replicate t.w (Array.replicate 256 0)

def histAll (t : Ty) (xs : List Nat) : Table := histFrom t xs (zeroTable t)

/-- one `(lo..hi).for_each(|i| { skip |= h[i] == n; temp = h[i]; h[i] = prev; prev += temp })` loop -/
def scan (n : Nat) : List Nat → Array Nat → Nat → Bool → Array Nat × Nat × Bool
  | [], h, prev, skip => (h, prev, skip)
  | i :: is, h, prev, skip =>
    let temp := gt h i
    scan n is (st h i prev) (prev + temp) (skip || temp == n)

/-- `histogram_table[k].iter().skip(128).sum()` -/
def sumFrom128 (h : Array Nat) : Nat := ((List.range' 128 128).map (gt h)).sum

/-- body of `for k in 0..rounds` of the prefix-sum phase on row `h = histogram_table[k]` with
    `skip0 = skip_table[k]`; returns the row of start offsets and the skip flag -/
def prefixRound (t : Ty) (n k : Nat) (h : Array Nat) (skip0 : Bool) : Array Nat × Bool :=
  if isSigned t && k == t.w - 1 then
    let prev := sumFrom128 h
    let r1 := scan n (List.range' 0 128) h prev skip0
    let r2 := scan n (List.range' 128 128) r1.1 0 r1.2.2
    (r2.1, r2.2.2)
  else
    let r := scan n (List.range' 0 256) h 0 (gt h 0 == n)
    (r.1, r.2.2)

def prefixAll (t : Ty) (n : Nat) : List Nat → Table → Array Bool → Table × Array Bool
  | [], tab, sk => (tab, sk)
  | k :: ks, tab, sk =>
    let r := prefixRound t n k (gt tab k) (gt sk k)
    prefixAll t n ks (st tab k r.1) (st sk k r.2)

/-- placement of one round: running offsets `offs = histogram_table[k]`, unchecked writes into `out` -/
def place (t : Ty) (k : Nat) : List Nat → Array Nat → Array Nat → Option (Array Nat × Array Nat)
  | [], offs, out => some (offs, out)
  | x :: xs, offs, out =>
    let r := key t x k
    let target := gt offs r
    if target < out.size ∧ r < offs.size then
      place t k xs (st offs r (target + 1)) (st out target x)
    else none

/-- the permutation rounds; `cur` = `self`, `out` = `output` -/
def permute (t : Ty) : List Nat → Table → Array Bool → Array Nat → Array Nat → Option (Array Nat)
  | [], _, _, cur, _ => some cur
  | k :: ks, tab, sk, cur, out =>
    if gt sk k then permute t ks tab sk cur out
    else
      match place t k cur.toList (gt tab k) out with
      | none => none
      | some (offs, out') => permute t ks (st tab k offs) sk out' cur

/-- `rdx_sort`; `none` = an unchecked access would have been out of bounds -/
def radixSort (t : Ty) (xs : Array Nat) : Option (Array Nat) :=
  let n := xs.size
  let output := Array.replicate n 0
  let rounds := List.range t.w
  let tab0 := histAll t xs.toList
  let p := prefixAll t n rounds tab0 (Array.replicate t.w false)
  permute t rounds p.1 p.2 xs output

/-! ### (b) bucket level -/

/-- order in which the buckets of round `k` are laid out -/
def bucketOrder (t : Ty) (k : Nat) : List Nat :=
  if isSigned t && k == t.w - 1 then List.range' 128 128 ++ List.range' 0 128 else List.range' 0 256

/-- position of bucket `b` in `bucketOrder t k` -/
def rank (t : Ty) (k b : Nat) : Nat :=
  if isSigned t && k == t.w - 1 then (b + 128) % 256 else b

def bucket (t : Ty) (k b : Nat) (xs : List Nat) : List Nat := xs.filter (fun x => key t x k == b)

/-- one pass: stable concatenation of the buckets -/
def pass (t : Ty) (k : Nat) (xs : List Nat) : List Nat :=
  (bucketOrder t k).flatMap (fun b => bucket t k b xs)

/-- one bucket of round `k` holds all elements -/
def skipRound (t : Ty) (k : Nat) (xs : List Nat) : Bool :=
  (List.range' 0 256).any (fun b => xs.countP (fun x => key t x k == b) == xs.length)

/-- rounds `ks` applied to `l`, skip flags taken from the histograms of the original input `xs` -/
def roundsB (t : Ty) (xs : List Nat) : List Nat → List Nat → List Nat
  | [], l => l
  | k :: ks, l => roundsB t xs ks (if skipRound t k xs then l else pass t k l)

def sortB (t : Ty) (xs : List Nat) : List Nat := roundsB t xs (List.range t.w) xs

end Tbx.Radix
