/-
L0 model of `src/lru.rs` (and of the list in `src/linked_list.rs` seen from outside): the
abstract recency list.  No pointers, no hash map: the cache is the list of its entries, most
recently used first, plus the capacity.  Every public function of `LRU` is here with the control
flow of the Rust (existing key / full / room left).

This is the reference the judge follows (see Tbx/Drv/C11.lean) and the abstract side of the
refinement `l1_refines_l0` (Tbx/Props/C11.lean); the history-level meaning of "least recently
used" is in Tbx/Spec/Lru.lean.
-/
namespace Tbx.LruL0

structure Cache (K V : Type) where
  items : List (K × V)      -- front = most recently used
  cap   : Nat
deriving Repr

variable {K V : Type} [DecidableEq K]

/-- `LRU::new_with_capacity` -/
def init (cap : Nat) : Cache K V := { items := [], cap := cap }

/-- `capacity()` -/
def capacity (s : Cache K V) : Nat := s.cap

/-- `len()` -/
def len (s : Cache K V) : Nat := s.items.length

/-- `is_empty()` -/
def isEmpty (s : Cache K V) : Bool := s.items.length == 0

/-- `contains(key)`: a pure observer -/
def contains (s : Cache K V) (k : K) : Bool := s.items.any (fun p => p.1 == k)

/-- the stored value of `k`, if any (what `get` will return) -/
def lookup (s : Cache K V) (k : K) : Option V := (s.items.find? (fun p => p.1 == k)).map (·.2)

/-- all entries except the one of key `k` -/
def remove (l : List (K × V)) (k : K) : List (K × V) := l.filter (fun p => !(p.1 == k))

/-- the keys, most recent first -/
def keys (s : Cache K V) : List K := s.items.map (·.1)

/-- `push(key, value)`:
    existing key → entry moves to the front with the new value;
    otherwise, if `len == capacity`, the back entry is evicted; then the new entry is put in front. -/
def push (s : Cache K V) (k : K) (v : V) : Cache K V :=
  if contains s k then { s with items := (k, v) :: remove s.items k }
  else if s.items.length = s.cap then { s with items := (k, v) :: s.items.dropLast }
  else { s with items := (k, v) :: s.items }

/-- the values that leave the cache during `push` (overwritten or evicted) -/
def pushReleased (s : Cache K V) (k : K) : List V :=
  if contains s k then (lookup s k).toList
  else if s.items.length = s.cap then (s.items.getLast?.map (·.2)).toList
  else []

/-- `get(key)`: a hit moves the entry to the front and returns its value; a miss changes nothing -/
def get (s : Cache K V) (k : K) : Cache K V × Option V :=
  match s.items.find? (fun p => p.1 == k) with
  | some p => ({ s with items := p :: remove s.items k }, some p.2)
  | none => (s, none)

/-- `get_front()` -/
def getFront (s : Cache K V) : Option (K × V) := s.items.head?

/-- `get_front_mut()` followed by an assignment of `v` through the returned reference;
    returns the entry as it was (`none` = empty cache, nothing assigned) -/
def setFront (s : Cache K V) (v : V) : Cache K V × Option (K × V) :=
  match s.items with
  | [] => (s, none)
  | (k, old) :: rest => ({ s with items := (k, v) :: rest }, some (k, old))

/-- `clear()` -/
def clear (s : Cache K V) : Cache K V := { s with items := [] }

/-! ### operation histories -/

inductive Op (K V : Type) where
  | push (k : K) (v : V)
  | get (k : K)
  | contains (k : K)
  | front
  | setFront (v : V)
  | clear
  | len
deriving Repr

/-- what an operation returns -/
inductive Out (K V : Type) where
  | unit
  | val (v : Option V)
  | bool (b : Bool)
  | entry (e : Option (K × V))
  | nat (n : Nat)
deriving Repr, DecidableEq

def step (s : Cache K V) : Op K V → Cache K V × Out K V
  | .push k v => (push s k v, .unit)
  | .get k => ((get s k).1, .val (get s k).2)
  | .contains k => (s, .bool (contains s k))
  | .front => (s, .entry (getFront s))
  | .setFront v => ((setFront s v).1, .entry (setFront s v).2)
  | .clear => (clear s, .unit)
  | .len => (s, .nat (len s))

/-- state after a history (chronological order) -/
def run (s : Cache K V) (ops : List (Op K V)) : Cache K V :=
  ops.foldl (fun s op => (step s op).1) s

/-- state and outputs after a history -/
def runOut (s : Cache K V) : List (Op K V) → Cache K V × List (Out K V)
  | [] => (s, [])
  | op :: ops => ((runOut (step s op).1 ops).1, (step s op).2 :: (runOut (step s op).1 ops).2)

/-! ### the list underneath, seen abstractly: entries are (cursor, element), front first -/

namespace AList
variable {T : Type}

abbrev L (T : Type) := List (Nat × T)

def pushFront (l : L T) (c : Nat) (t : T) : L T := (c, t) :: l

/-- `move_to_front(cursor)`; meaningful for cursors of entries in the list -/
def moveToFront (l : L T) (c : Nat) : L T :=
  match l.find? (fun p => p.1 == c) with
  | some p => p :: l.filter (fun p => !(p.1 == c))
  | none => l

def popBack (l : L T) : L T × Option T := (l.dropLast, l.getLast?.map (·.2))

def front (l : L T) : Option T := l.head?.map (·.2)

def setFront (l : L T) (t : T) : L T :=
  match l with
  | [] => []
  | (c, _) :: rest => (c, t) :: rest

end AList

end Tbx.LruL0
