import Tbx.Model.Arr
/-
Executable model of `src/fenwick.rs` (Fenwick) and of `math::prev_power_of_two`.
`tree : Vec<T>` is one-indexed (slot 0 unused), values are modelled as `Int`
(the Rust is generic over `num::Integer`; the harness instantiates `i64` with values far from
overflow).  Loops carry fuel; the fuel handed in by the callers is shown sufficient in
`Tbx/Proofs/Fenwick.lean`.
-/
namespace Tbx.Fenwick
open Tbx

/-- `largest_power_of_two_divisor(n) = n & n.wrapping_neg()` on 64-bit `usize` -/
def lsbBits (n : Nat) : Nat := n &&& ((2 ^ 64 - n) % 2 ^ 64)

/-- the same value by recursion on the binary representation: the largest power of two dividing n
    (0 for 0); `Tbx.Fenwick.lsbBits_eq` proves `lsbBits n = lsb n` for n < 2^64 -/
def lsb (n : Nat) : Nat :=
  if h : n = 0 then 0
  else if n % 2 = 1 then 1
  else 2 * lsb (n / 2)
decreasing_by omega

structure FW where
  tree : Array Int
deriving Repr

/-- `with_size(n)` -/
def withSize (n : Nat) : FW := ⟨Array.replicate (n + 1) 0⟩

/-- the `for index in 1..tree.len()` loop of `from_values` -/
def fvLoop : Nat → Nat → Array Int → Array Int
  | 0, _, t => t
  | fuel + 1, index, t =>
    if index < t.size then
      let parent := index + lsb index
      let t' := if parent < t.size then st t parent (gt t parent + gt t index) else t
      fvLoop fuel (index + 1) t'
    else t

/-- `from_values(values)` -/
def fromValues (values : List Int) : FW :=
  let tree := (#[0] : Array Int) ++ values.toArray
  ⟨fvLoop tree.size 1 tree⟩

def len (f : FW) : Nat := f.tree.size - 1
def isEmpty (f : FW) : Bool := len f == 0

/-- the `while index > 0` loop shared by `rank` and (twice) by `range`: walks down while `index > stop` -/
def downLoop (t : Array Int) (stop : Nat) : Nat → Nat → Int → Nat × Int
  | 0, index, sum => (index, sum)
  | fuel + 1, index, sum =>
    if index > stop then downLoop t stop fuel (index - lsb index) (sum + gt t index)
    else (index, sum)

/-- `rank(index)`: prefix sum of the entries 0..=index -/
def rank (f : FW) (index : Nat) : Option Int :=
  if index ≥ len f then none
  else some (downLoop f.tree 0 (index + 1) (index + 1) 0).2

/-- the `while index < self.tree.len()` loop of `update` -/
def upLoop (value : Int) : Nat → Nat → Array Int → Array Int
  | 0, _, t => t
  | fuel + 1, index, t =>
    if index < t.size then upLoop value fuel (index + lsb index) (st t index (gt t index + value))
    else t

/-- `update(index, value)`; `none` = `Err(IndexOutOfRangeError)` -/
def update (f : FW) (index : Nat) (value : Int) : Option FW :=
  if index ≥ len f then none
  else some ⟨upLoop value f.tree.size (index + 1) f.tree⟩

/-- `range(i, j)`; `none` where the Rust indexes `tree[j + 1]` out of bounds (j ≥ len, i < j) -/
def range (f : FW) (i j : Nat) : Option Int :=
  if i ≥ j then some 0
  else if j + 1 ≥ f.tree.size then none
  else
    let a := downLoop f.tree i (j + 1) (j + 1) 0
    -- second loop subtracts: run it on the negated accumulator
    let b := downLoop f.tree a.1 (i + 1) (i + 1) 0
    some (a.2 - b.2)

/-- `slow_range(i, j)`; `none` where a `rank(..).unwrap()` panics -/
def slowRange (f : FW) (i j : Nat) : Option Int :=
  if i > j then some 0
  else
    match rank f j, rank f i with
    | some a, some b => some (a - b)
    | _, _ => none

/-- `math::prev_power_of_two(n)`: largest power of two ≤ n, 0 for 0 -/
def prevPow2 (n : Nat) : Nat := if n = 0 then 0 else 2 ^ Nat.log2 n

/-- the `while step > 0` loop of `select` -/
def selLoop (t : Array Int) : Nat → Nat → Nat → Int → Nat
  | 0, index, _, _ => index
  | fuel + 1, index, step, value =>
    if step > 0 then
      if index + step < t.size ∧ gt t (index + step) ≤ value then
        selLoop t fuel (index + step) (step / 2) (value - gt t (index + step))
      else selLoop t fuel index (step / 2) value
    else index

/-- `select(value)` -/
def select (f : FW) (value : Int) : Option Nat :=
  let step := prevPow2 (len f)
  let index := selLoop f.tree (step + 1) 0 step value
  if index = 0 then none else some (index - 1)

end Tbx.Fenwick
