import Tbx.Spec.Geometry
/-
Executable model of `space_filling_curve::zorder_cmp` (src/space_filling_curve.rs).

i32 values are `Int`s in the i32 range; `pat32 x` is the two's complement bit pattern, so
`lhs.lat ^ rhs.lat` is `pat32 l.lat ^^^ pat32 r.lat` (as a u32 pattern; `== 0` and
`leading_zeros` only look at the pattern), `31 - x.leading_zeros()` for `x != 0` is the index of
the highest set bit `Nat.log2`, `(v >> k) & 1` (arithmetic shift, k <= 31) is bit `k` of the
pattern, and `i32::cmp` is `compare` on `Int`.
-/
namespace Tbx.Geo

def pat32 (x : Int) : Nat := (x % 4294967296).toNat

def zorderCmp (l r : Coord) : Ordering :=
  let latXor := pat32 l.lat ^^^ pat32 r.lat
  let lonXor := pat32 l.lon ^^^ pat32 r.lon
  if latXor = 0 ∧ lonXor = 0 then .eq
  else if latXor = 0 then compare l.lon r.lon
  else if lonXor = 0 then compare l.lat r.lat
  else
    let latMsb := Nat.log2 latXor
    let lonMsb := Nat.log2 lonXor
    match compare latMsb lonMsb with
    | .gt => compare l.lat r.lat
    | .lt => compare l.lon r.lon
    | .eq =>
      if (pat32 l.lat).testBit latMsb != (pat32 r.lat).testBit latMsb then compare l.lat r.lat
      else compare l.lon r.lon

end Tbx.Geo
