/-
Executable model of `src/bin_pack.rs` (`bin_pack_next_fit`).  Items and capacity are `u32` in the
Rust; the model uses `Nat` (no arithmetic in the function can overflow: `current_bin` is at most
the number of items, `remaining_capacity -= item` happens only after `item <= remaining_capacity`).
-/
namespace Tbx.NextFit

/-- the `for (i, &item) in items.iter().enumerate()` loop: returns the final `current_bin` and
    the assignments of the remaining items -/
def loop (capacity : Nat) : List Nat → Nat → Nat → Nat × List Nat
  | [], cur, _ => (cur, [])
  | x :: xs, cur, rem =>
    if x > rem then
      let r := loop capacity xs (cur + 1) (capacity - x)
      (r.1, (cur + 1) :: r.2)
    else
      let r := loop capacity xs cur (rem - x)
      (r.1, cur :: r.2)

/-- `bin_pack_next_fit(items, capacity)`; `none` = `Err(_)` -/
def nextFit (items : List Nat) (capacity : Nat) : Option (Nat × List Nat) :=
  if capacity = 0 then none
  else if items.isEmpty then some (0, [])
  else if items.any (fun x => x > capacity) then none
  else
    let r := loop capacity items 0 capacity
    some (r.1 + 1, r.2)

end Tbx.NextFit
