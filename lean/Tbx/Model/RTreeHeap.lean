import Tbx.Model.RTree
/-
Two priority queues that satisfy the contract `PQOps.Lawful` the R-tree iterator is verified against
(core Lean only; the driver links this file):
* `listPQ`  — a plain list with a linear scan (kernel-evaluable, used in examples);
* `heapPQ`  — a leftist heap, carried together with its heap-order invariant (used by the driver).
Which entry wins among equal keys differs between them (and from Rust's `BinaryHeap`): the contract
leaves it free.
-/
namespace Tbx.RTree

theorem extractMin_none {l : List Entry} (h : extractMin l = none) : l = [] := by
  cases l with
  | nil => rfl
  | cons e es =>
    simp only [extractMin] at h
    split at h
    · cases h
    · split at h <;> cases h

theorem extractMin_some {l : List Entry} {m : Entry} {r : List Entry} (h : extractMin l = some (m, r)) :
    l.Perm (m :: r) ∧ ∀ y ∈ l, m.key ≤ y.key := by
  induction l generalizing m r with
  | nil => simp [extractMin] at h
  | cons e es ih =>
    simp only [extractMin] at h
    split at h
    · rename_i hn
      have := extractMin_none hn
      subst this
      cases h
      exact ⟨List.Perm.refl _, by intro y hy; simp at hy; subst hy; exact Nat.le_refl _⟩
    · rename_i m' rest hs
      have ⟨hp, hmin⟩ := ih hs
      split at h
      · rename_i hle
        cases h
        refine ⟨List.Perm.refl _, ?_⟩
        intro y hy
        rcases List.mem_cons.mp hy with rfl | hy
        · exact Nat.le_refl _
        · exact Nat.le_trans hle (hmin y hy)
      · rename_i hgt
        cases h
        refine ⟨?_, ?_⟩
        · exact (List.Perm.cons e hp).trans (List.Perm.swap _ _ _)
        · intro y hy
          rcases List.mem_cons.mp hy with rfl | hy
          · omega
          · exact hmin y hy

theorem listPQ_lawful : listPQ.Lawful where
  abs_empty := rfl
  abs_push _ _ := List.Perm.refl _
  pop_none _ h := extractMin_none h
  pop_some _ _ _ h := extractMin_some h

/-- leftist heap -/
inductive LHeap where
  | nil
  | node (rank : Nat) (e : Entry) (l r : LHeap)
deriving Repr, Inhabited

namespace LHeap
def rank : LHeap → Nat
  | nil => 0
  | node r _ _ _ => r
def makeT (e : Entry) (a b : LHeap) : LHeap :=
  if rank b ≤ rank a then node (rank b + 1) e a b else node (rank a + 1) e b a
def merge : LHeap → LHeap → LHeap
  | nil, h => h
  | node r x a b, nil => node r x a b
  | node r1 x a1 b1, node r2 y a2 b2 =>
    if x.key ≤ y.key then makeT x a1 (merge b1 (node r2 y a2 b2))
    else makeT y a2 (merge (node r1 x a1 b1) b2)
def toList : LHeap → List Entry
  | nil => []
  | node _ e l r => e :: (toList l ++ toList r)
/-- heap order: every node's key is at most every key below it -/
def Ordered : LHeap → Prop
  | nil => True
  | node _ e l r => (∀ y ∈ toList l ++ toList r, e.key ≤ y.key) ∧ Ordered l ∧ Ordered r
def pop : LHeap → Option (Entry × LHeap)
  | nil => none
  | node _ e l r => some (e, merge l r)

theorem toList_makeT (e : Entry) (a b : LHeap) : (toList (makeT e a b)).Perm (e :: (toList a ++ toList b)) := by
  unfold makeT
  split
  · exact List.Perm.refl _
  · simp only [toList]
    exact List.Perm.cons e List.perm_append_comm

theorem ordered_makeT {e : Entry} {a b : LHeap} (h : ∀ y ∈ toList a ++ toList b, e.key ≤ y.key)
    (ha : Ordered a) (hb : Ordered b) : Ordered (makeT e a b) := by
  unfold makeT
  split
  · exact ⟨h, ha, hb⟩
  · refine ⟨?_, hb, ha⟩
    intro y hy
    exact h y (List.perm_append_comm.mem_iff.mp hy)

theorem toList_merge (a b : LHeap) : (toList (merge a b)).Perm (toList a ++ toList b) := by
  fun_induction merge a b with
  | case1 h => simp [toList]
  | case2 r x a b => simp [toList]
  | case3 r1 x a1 b1 r2 y a2 b2 hle ih =>
    refine (toList_makeT _ _ _).trans ?_
    simp only [toList, List.cons_append]
    refine List.Perm.cons x ?_
    refine (List.Perm.append_left _ ih).trans ?_
    simp [toList, List.append_assoc]
  | case4 r1 x a1 b1 r2 y a2 b2 hgt ih =>
    refine (toList_makeT _ _ _).trans ?_
    simp only [toList, List.cons_append]
    -- y :: (a2 ++ merge (x-node) b2)  ~  x :: (a1 ++ b1) ++ y :: (a2 ++ b2)
    have h1 : (toList a2 ++ toList (merge (node r1 x a1 b1) b2)).Perm
        (toList a2 ++ (x :: (toList a1 ++ toList b1) ++ toList b2)) := by
      refine List.Perm.append_left _ ?_
      simpa [toList] using ih
    refine (List.Perm.cons y h1).trans ?_
    have h2 : (x :: (toList a1 ++ toList b1) ++ y :: (toList a2 ++ toList b2)).Perm
        (y :: (x :: (toList a1 ++ toList b1) ++ (toList a2 ++ toList b2))) := List.perm_middle
    refine List.Perm.trans ?_ h2.symm
    refine List.Perm.cons y ?_
    -- a2 ++ (X ++ b2) ~ X ++ (a2 ++ b2)
    rw [← List.append_assoc, ← List.append_assoc]
    exact List.Perm.append_right _ List.perm_append_comm

theorem ordered_merge {a b : LHeap} (ha : Ordered a) (hb : Ordered b) : Ordered (merge a b) := by
  fun_induction merge a b with
  | case1 h => exact hb
  | case2 r x a b => exact ha
  | case3 r1 x a1 b1 r2 y a2 b2 hle ih =>
    obtain ⟨hx, ha1, hb1⟩ := ha
    refine ordered_makeT ?_ ha1 (ih hb1 hb)
    intro z hz
    rcases List.mem_append.mp hz with hz | hz
    · exact hx z (List.mem_append.mpr (Or.inl hz))
    · have := (toList_merge b1 (node r2 y a2 b2)).mem_iff.mp hz
      rcases List.mem_append.mp this with h | h
      · exact hx z (List.mem_append.mpr (Or.inr h))
      · simp only [toList, List.mem_cons] at h
        rcases h with rfl | h
        · exact hle
        · exact Nat.le_trans hle (hb.1 z h)
  | case4 r1 x a1 b1 r2 y a2 b2 hgt ih =>
    obtain ⟨hy, ha2, hb2⟩ := hb
    refine ordered_makeT ?_ ha2 (ih ha hb2)
    intro z hz
    rcases List.mem_append.mp hz with hz | hz
    · exact hy z (List.mem_append.mpr (Or.inl hz))
    · have := (toList_merge (node r1 x a1 b1) b2).mem_iff.mp hz
      rcases List.mem_append.mp this with h | h
      · simp only [toList, List.mem_cons] at h
        rcases h with rfl | h
        · omega
        · have := ha.1 z h
          omega
      · exact hy z (List.mem_append.mpr (Or.inr h))

end LHeap

/-- the leftist heap together with its invariant -/
def heapPQ : PQOps { h : LHeap // h.Ordered } where
  empty := ⟨.nil, trivial⟩
  push q e := ⟨LHeap.merge (.node 1 e .nil .nil) q.1,
    LHeap.ordered_merge ⟨by intro y hy; simp [LHeap.toList] at hy, trivial, trivial⟩ q.2⟩
  pop q :=
    match q with
    | ⟨.nil, _⟩ => none
    | ⟨.node _ e l r, h⟩ => some (e, ⟨LHeap.merge l r, LHeap.ordered_merge h.2.1 h.2.2⟩)
  abs q := q.1.toList

theorem heapPQ_lawful : heapPQ.Lawful where
  abs_empty := rfl
  abs_push q e := by
    show (LHeap.toList (LHeap.merge (.node 1 e .nil .nil) q.1)).Perm (e :: LHeap.toList q.1)
    simpa [LHeap.toList] using LHeap.toList_merge (.node 1 e .nil .nil) q.1
  pop_none q h := by
    obtain ⟨hq, ho⟩ := q
    cases hq with
    | nil => rfl
    | node _ e l r => simp [heapPQ] at h
  pop_some q e q' h := by
    obtain ⟨hq, ho⟩ := q
    cases hq with
    | nil => simp [heapPQ] at h
    | node rk x l r =>
      simp only [heapPQ, Option.some.injEq, Prod.mk.injEq] at h
      obtain ⟨rfl, rfl⟩ := h
      refine ⟨?_, ?_⟩
      · show (LHeap.toList (.node rk x l r)).Perm (x :: LHeap.toList (LHeap.merge l r))
        exact List.Perm.cons x (LHeap.toList_merge l r).symm
      · intro y hy
        have : y ∈ LHeap.toList (.node rk x l r) := hy
        simp only [LHeap.toList, List.mem_cons] at this
        rcases this with rfl | hy
        · exact Nat.le_refl _
        · exact ho.1 y hy

end Tbx.RTree
