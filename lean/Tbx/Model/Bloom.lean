import Tbx.Model.Arr
/-
Executable model of `src/bloom_filter.rs` (BloomFilter).

  bit_vector          : BitVec      -> `bits : Array Bool`
  number_of_functions : usize       -> `k`

The two xxh3 hashes of a value (`fn1`, `fn2`: seeds 0xdeadbeef and 123) are INPUTS `h1 h2` (the harness
computes them with the same xxh3 function).  `add_bytes` and `contains` mirror the index expression
`(fn1 % len + i * (fn2 % len)) % len` for `i in 0..k`.  The float sizing formulas of
`new_from_size_and_probabilty` are not modelled: `init len k` takes the resulting sizes.
usize arithmetic is modelled in `Nat` (`len * k < 2^64` for every allocatable filter, so
`fn1 % len + i * (fn2 % len)` cannot wrap).
-/
namespace Tbx.Bloom

structure Filter where
  bits : Array Bool
  k : Nat
deriving Repr

def init (len k : Nat) : Filter := { bits := Array.replicate len false, k := k }

/-- `(fn1_value + (i * fn2_value)) % len` with `fn1_value = fn1 % len`, `fn2_value = fn2 % len` -/
def index (len h1 h2 i : Nat) : Nat := (h1 % len + i * (h2 % len)) % len

/-- the `for_each` of `add_bytes` over the remaining `i`s -/
def setAll (len h1 h2 : Nat) : List Nat → Array Bool → Array Bool
  | [], bits => bits
  | i :: is, bits => setAll len h1 h2 is (st bits (index len h1 h2 i) true)

/-- `add_bytes` -/
def add (f : Filter) (h1 h2 : Nat) : Filter :=
  { f with bits := setAll f.bits.size h1 h2 (List.range f.k) f.bits }

/-- `contains`: `true` = `YesWhp`, `false` = `No` -/
def contains (f : Filter) (h1 h2 : Nat) : Bool :=
  (List.range f.k).all fun i => gt f.bits (index f.bits.size h1 h2 i)

end Tbx.Bloom
