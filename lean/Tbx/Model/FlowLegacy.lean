import Tbx.Model.FlowDinic
/-
The `dfs` of `src/dinic.rs` BEFORE the fix of defect D1 (commit "Dinic recomputes the path bottleneck
when the target is reached"): the bottleneck pushed on the stack together with the node was used as the
amount to augment.  It goes stale when an earlier augmentation of the same DFS used capacity on a shared
prefix.  Kept ONLY for the refutation example in Props/C01.lean and for the driver's `d1` statistic
(how many generated cases would have exposed the defect).  Never used by a theorem about the model.
-/
namespace Tbx.FlowLegacy
open Tbx Tbx.Flow

def reachTargetLegacy (d : Dinic) (parents : Array Nat) (u v : Nat) (flow' : Int) (bf : Int) :
    Option (Dinic × Int) :=
  match augChain parents flow' (d.g.numNodes + 1) v u d.g with
  | none => none
  | some (g', ct) =>
    some ({ d with g := g', parents := st parents d.target INV, stack := unwind parents ct d.stack,
                   dfsCount := d.dfsCount + 1 }, bf + flow')

def dfsEdges (u : Nat) (flow : Int) : Nat → Nat → Dinic → Int → Option (Dinic × Int)
  | _, 0, d, bf => some (d, bf)
  | e, k + 1, d, bf =>
    let v := gt d.g.tgt e
    if gt d.parents v ≠ INV then dfsEdges u flow (e + 1) k d bf
    else if gt d.level u < gt d.level v then dfsEdges u flow (e + 1) k d bf
    else
      let avail := gt d.g.cap e
      if avail = 0 then dfsEdges u flow (e + 1) k d bf
      else
        let parents := st d.parents v u
        let flow' := min flow avail
        if v = d.target then reachTargetLegacy d parents u v flow' bf
        else dfsEdges u flow (e + 1) k { d with parents := parents, stack := (v, flow') :: d.stack } bf

def dfsLoop : Nat → Dinic → Int → Option (Dinic × Int)
  | 0, _, _ => none
  | fuel + 1, d, bf =>
    match d.stack with
    | [] => some (d, bf)
    | (u, flow) :: rest =>
      match dfsEdges u flow (d.g.beginEdges u) (d.g.deg u) { d with stack := rest } bf with
      | none => none
      | some (d', bf') => dfsLoop fuel d' bf'

def dfs (d : Dinic) : Option (Dinic × Int) :=
  let ps := st (Array.replicate d.parents.size INV) d.source d.source
  dfsLoop (2 * d.g.numNodes + 2)
    { d with dfsCount := d.dfsCount + 1, stack := [(d.source, I32MAX)], parents := ps } 0

def dinicLoop : Nat → Dinic → Int → Option (Dinic × Int)
  | 0, _, _ => none
  | fuel + 1, d, flow =>
    match d.bfs with
    | none => none
    | some (d1, false) => some (d1, flow)
    | some (d1, true) =>
      match dfs d1 with
      | none => none
      | some (d2, bf) => dinicLoop fuel d2 (flow + bf)

def run (d : Dinic) (fuel : Nat) : Option Dinic :=
  let n := d.g.numNodes
  if d.source ≥ n ∨ d.target ≥ n then none
  else
    let d0 := { d with parents := Array.replicate n 0, level := Array.replicate n INV }
    match dinicLoop fuel d0 0 with
    | none => none
    | some (d', flow) => some { d' with maxFlow := flow, finished := true }

end Tbx.FlowLegacy
