import Tbx.Model.LoserTree
import Tbx.Model.SortedInsert
/-
The definitions as they were BEFORE the fixes of D16 and D17 (DESIGN.md section 5).  Used only by
the examples in Tbx/Props/C18.lean that show the old behaviour violates the statements on the
recorded witnesses (so a regression is recognised), never by the driver's model.
-/
namespace Tbx.LegacyC18
open Tbx

/-- `with_capacity` before 8dacaf2: `losers.resize(size - 1, 0)` — every internal node points to leaf 0 -/
def loserWithCapacity (capacity : Nat) : LoserTree.Tree :=
  let n := LoserTree.nextPow2 capacity
  { losers := Array.replicate (n - 1) 0, leaves := Array.replicate n none, winner := 0, size := 0 }

/-- `insert_sorted` before 74c17f0: only looked at `node.next`, never at the head; nothing on an empty list -/
def insertSorted : List Int → Int → List Int
  | [], _ => []
  | [x], e => [x, e]
  | x :: y :: r, e => if y < e then x :: insertSorted (y :: r) e else x :: e :: y :: r

end Tbx.LegacyC18
