import Tbx.Model.UnionFind
/-
Executable model of `src/kruskal.rs`.  Input edges are triples `(source, target, weight)`.
`BinaryHeap<(Reverse<u32>, usize)>` is modelled by its contract: `pop` returns the greatest
element, i.e. the smallest weight and, among equal weights, the LARGEST input index (all
entries are distinct because the indices are).  `none` = the Rust would panic (u32 overflow of
the cost, an index out of bounds) or a loop ran out of fuel.
-/
namespace Tbx.Kruskal
open Tbx Tbx.UF

abbrev WEdge := Nat × Nat × Nat

/-- `(Reverse(w1), i1) > (Reverse(w2), i2)` -/
def better (a b : Nat × Nat) : Bool := a.1 < b.1 || (a.1 == b.1 && a.2 > b.2)

/-- the greatest heap entry -/
def best : List (Nat × Nat) → Option (Nat × Nat)
  | [] => none
  | x :: xs =>
    match best xs with
    | none => some x
    | some y => if better y x then some y else some x

/-- `heap.pop()` -/
def popBest (h : List (Nat × Nat)) : Option ((Nat × Nat) × List (Nat × Nat)) :=
  match best h with
  | none => none
  | some b => some (b, h.erase b)

/-- the first loop: running maximum of all ids, heap of `(weight, index)` -/
def maxNode : List WEdge → Nat → Nat
  | [], n => n
  | e :: es, n => maxNode es (max e.2.1 (max e.1 n))

/-- `for edge in input_edges { heap.push((Reverse(edge.data), heap.len())) }` -/
def heapOf (inp : List WEdge) : List (Nat × Nat) :=
  inp.zipIdx.map fun p => (p.1.2.2, p.2)

structure Loop where
  heap : List (Nat × Nat)
  mst : Array WEdge
  uf : UF
  cost : Nat

/-- `while mst.len() < number_of_nodes && !heap.is_empty() { … }` -/
def loop (inp : Array WEdge) (n : Nat) : Nat → Loop → Option Loop
  | 0, _ => none
  | f + 1, l =>
    if l.mst.size < n ∧ l.heap ≠ [] then
      match popBest l.heap with
      | none => none
      | some ((_, idx), heap) =>
        if idx ≥ inp.size then none else
        let edge := gt inp idx
        match find l.uf edge.1 with
        | none => none
        | some (uf, x) =>
          match find uf edge.2.1 with
          | none => none
          | some (uf, y) =>
            if x = y then loop inp n f { l with heap := heap, uf := uf }
            else
              match union uf x y with
              | none => none
              | some uf =>
                if l.cost + edge.2.2 ≥ 4294967296 then none     -- u32 `+=` overflows
                else loop inp n f { heap := heap, mst := l.mst.push edge, uf := uf, cost := l.cost + edge.2.2 }
    else some l

/-- `kruskal(input_edges)` -/
def kruskal (inp : List WEdge) : Option (Nat × List WEdge) :=
  let n := maxNode inp 0
  match loop inp.toArray n (inp.length + 1) ⟨heapOf inp, #[], UF.new (n + 1), 0⟩ with
  | none => none
  | some l => some (l.cost, l.mst.toList)

end Tbx.Kruskal
