import Tbx.Model.FlowDinic
/-
`MaxFlow::from_generic_edge_list` (src/max_flow.rs): map every input edge to an `InputEdge` whose data is
`function(edge)`, then call `from_edge_list`.  The model is that one-line composition; `genCap` are the
capacity closures the correspondence harness passes (constant 1, payload + 1, |payload|, table lookup).
-/
namespace Tbx.Flow

/-- capacity closure number `k` of the harness (harness/src/flow_common.rs `gen_cap`) -/
def genCap (k : Nat) (payload : Int) : Int :=
  match k with
  | 0 => 1
  | 1 => payload + 1
  | 2 => payload.natAbs
  | _ => [3, 0, 5, 1, 2].getD (payload % 5).toNat 0

/-- `.map(|edge| InputEdge { source, target, data: function(edge) })` -/
def mapCaps (f : Int → Int) (es : List Edge) : List Edge := es.map fun e => { e with cap := f e.cap }

/-- `from_generic_edge_list` for EdmondsKarp / FordFulkerson -/
def Solver.fromGenericEdgeList (f : Int → Int) (es : List Edge) (s t : Nat) : Solver :=
  Solver.fromEdgeList (mapCaps f es) s t

/-- `from_generic_edge_list` for Dinic -/
def Dinic.fromGenericEdgeList (f : Int → Int) (es : List Edge) (s t : Nat) : Option Dinic :=
  Dinic.fromEdgeList (mapCaps f es) s t

end Tbx.Flow
