import Tbx.Model.Csr
/-
Executable model of `src/cycle_check.rs`: three-colour DFS with one explicit stack on which a
node may sit several times.  A node is greyed when its top-most copy is first seen, blackened
when that copy is seen again; a lower copy of an already black node is greyed a second time
(`node_colors[node] != Grey`), rescanned and blackened again.
-/
namespace Tbx.CycleCheck
open Tbx Tbx.Csr

inductive Color where
  | white | grey | black
deriving Repr, DecidableEq, Inhabited

inductive ScanRes where
  | found                                   -- `return true`
  | stuck                                   -- `node_colors[target]` out of bounds
  | cont (stack : Array Nat)
deriving Repr

/-- `for edge in graph.edge_range(node) { match node_colors[target] { White => push, Grey => return true, _ => {} } }`
    over the edge ids `e, e+1, …` (`k` left) -/
def scan (g : Graph) (colors : Array Color) : Nat → Nat → Array Nat → ScanRes
  | 0, _, stack => .cont stack
  | k + 1, e, stack =>
    if target g e ≥ colors.size then .stuck else
    match gt colors (target g e) with
    | .white => scan g colors k (e + 1) (stack.push (target g e))
    | .grey => .found
    | .black => scan g colors k (e + 1) stack

inductive Res where
  | found                                   -- `return true`
  | done (colors : Array Color)             -- the `while` ended with an empty stack
  | stuck                                   -- out of fuel / the Rust would panic
deriving Repr

/-- `while let Some(&node) = stack.last() { … }` -/
def whileLoop (g : Graph) : Nat → Array Color → Array Nat → Res
  | 0, _, _ => .stuck
  | f + 1, colors, stack =>
    if stack.size = 0 then .done colors
    else
      let node := gt stack (stack.size - 1)
      if node ≥ colors.size then .stuck else
      if gt colors node ≠ .grey then
        let colors := st colors node .grey
        match scan g colors (endEdges g node - beginEdges g node) (beginEdges g node) stack with
        | .found => .found
        | .stuck => .stuck
        | .cont stack => whileLoop g f colors stack
      else
        whileLoop g f (st colors node .black) stack.pop

/-- per root: every stack entry is entered once and left once -/
def loopFuel (g : Graph) : Nat := 2 * (numEdges g + numNodes g) + 2

/-- `for root in graph.node_range()` -/
def outer (g : Graph) : Nat → Nat → Array Color → Option Bool
  | 0, _, _ => some false
  | k + 1, root, colors =>
    if gt colors root ≠ .white then outer g k (root + 1) colors
    else
      match whileLoop g (loopFuel g) colors #[root] with
      | .found => some true
      | .stuck => none
      | .done colors => outer g k (root + 1) colors

/-- `cycle_check(graph)`; `none` = out of fuel or panic -/
def cycleCheck (g : Graph) : Option Bool :=
  outer g (numNodes g) 0 (Array.replicate (numNodes g) .white)

end Tbx.CycleCheck
