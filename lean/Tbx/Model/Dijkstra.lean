import Tbx.Model.AHeap
/-
Executable model of
  src/unidirectional_dijkstra.rs   UnidirectionalDijkstra::{new, clear, run, retrieve_node_path}
  src/one_to_many_dijkstra.rs      OneToManyDijkstra::{new, clear, run, distance, retrieve_node_path}
  src/cell.rs                      BaseCell::process, MatrixCell::{get_distance_row, overlay_edges}
on top of the heap model `Tbx.AHeap` (queue: AddressableHeap<NodeID, usize, NodeID>), mirroring the
Rust statement by statement.

Graphs (`Graph<usize>`: StaticGraph / DynamicGraph) are abstracted to what the searches use:
`adj u` = the list of (target, weight) of `graph.edge_range(u)` in edge order.  Node ids are `Nat`
on the graph side and `Int` inside the heap (the heap model is generic over integer ids).

`Res`: `.panic` where the Rust would panic (indexing an absent id, out-of-range index), `.fuel` where
a fuelled loop ran out of fuel.  The fuel passed by the callers is `n + 1` for a graph with `n`
nodes (every iteration settles a different node; see Proofs/DijkstraFuel.lean) and
`inserted_len + 1` for path retrieval.  The drivers report `.fuel` as a failure.

usize arithmetic is modelled in `Int` without wrap-around; the side condition "all path weights
< 2^64 - 1" is checked by the drivers (sum of all edge weights).
-/
namespace Tbx.Dijkstra
open Tbx Tbx.AHeap

abbrev Adj := Nat → List (Nat × Nat)

/-- `usize::MAX` (64-bit) = `graph::UNREACHABLE` = `Weight::max_value()` of the queue -/
def UMAX : Int := 18446744073709551615

inductive Res (α : Type) where
  | ok (a : α)
  | panic
  | fuel
deriving Repr, Inhabited

/-- body of `for edge in graph.edge_range(u)`: the edge `u → v` of weight `w` -/
def relax (q : Heap) (u distance : Int) (v w : Nat) : Option Heap :=
  let newDistance := distance + (w : Int)
  -- if !self.queue.inserted(v) { self.queue.insert(v, new_distance, u); }
  let q1 := if !(inserted q (v : Int)) then insert q (v : Int) newDistance u else q
  -- if self.queue.contains(v) && self.queue.weight(v) > new_distance { decrease_key_and_update_data(v, new_distance, u) }
  if contains q1 (v : Int) && decide (weight q1 (v : Int) > newDistance) then
    decreaseKeyData q1 (v : Int) newDistance u
  else some q1

/-- the whole `for` loop over the out-edges of `u`, in edge order -/
def relaxAll (q : Heap) (u distance : Int) : List (Nat × Nat) → Option Heap
  | [] => some q
  | e :: es =>
    match relax q u distance e.1 e.2 with
    | none => none
    | some q' => relaxAll q' u distance es

/-! ### UnidirectionalDijkstra -/

structure Uni where
  queue : Heap
  upperBound : Int
deriving Repr

def Uni.new : Uni := { queue := init 0 UMAX, upperBound := UMAX }

def Uni.clear (st : Uni) : Uni := { queue := AHeap.clear st.queue, upperBound := UMAX }

/-- `while !self.queue.is_empty() && self.upper_bound == usize::MAX { … }` followed by
`self.upper_bound`; the second component is the value `run` returns -/
def uniLoop (adj : Adj) (t : Int) : Nat → Uni → Res (Uni × Int)
  | 0, _ => .fuel
  | fuel + 1, st =>
    if !(isEmpty st.queue) && st.upperBound == UMAX then
      match deleteMin st.queue with
      | none => .panic
      | some (q1, u) =>
        let distance := weight q1 u
        if u == t then
          .ok ({ queue := q1, upperBound := distance }, distance)
        else
          match relaxAll q1 u distance (adj u.toNat) with
          | none => .panic
          | some q2 => uniLoop adj t fuel { st with queue := q2 }
    else .ok (st, st.upperBound)

/-- `run(graph, s, t)` on a graph with `n` nodes -/
def uniRun (adj : Adj) (n : Nat) (st : Uni) (s t : Nat) : Res (Uni × Int) :=
  let st := st.clear
  let st := { st with queue := insert st.queue (s : Int) 0 (s : Int) }
  uniLoop adj (t : Int) (n + 1) st

/-- the `loop` of `retrieve_node_path` -/
def pathLoop (q : Heap) : Nat → Int → Array Int → Res (Array Int)
  | 0, _, _ => .fuel
  | fuel + 1, node, path =>
    match data? q node with
    | none => .panic
    | some parent =>
      if parent == node then .ok path.reverse
      else pathLoop q fuel parent (path.push parent)

def retrievePath (q : Heap) (target : Nat) : Res (Option (Array Int)) :=
  match pathLoop q (insertedLen q + 1) (target : Int) #[(target : Int)] with
  | .ok p => .ok (some p)
  | .panic => .panic
  | .fuel => .fuel

/-- `UnidirectionalDijkstra::retrieve_node_path` -/
def Uni.retrieveNodePath (st : Uni) (target : Nat) : Res (Option (Array Int)) :=
  if st.upperBound == UMAX || !(inserted st.queue (target : Int)) then .ok none
  else retrievePath st.queue target

/-! ### OneToManyDijkstra -/

structure O2M where
  queue : Heap
  reached : Nat
deriving Repr

def O2M.new : O2M := { queue := init 0 UMAX, reached := 0 }

def O2M.clear (st : O2M) : O2M := { queue := AHeap.clear st.queue, reached := 0 }

/-- `targets.contains(&u)` -/
def isTarget (targets : List Nat) (u : Int) : Bool := targets.any fun x => (x : Int) == u

/-- `while !self.queue.is_empty() && self.reached_target_count < targets.len() { … }` -/
def o2mLoop (adj : Adj) (targets : List Nat) : Nat → O2M → Res O2M
  | 0, _ => .fuel
  | fuel + 1, st =>
    if !(isEmpty st.queue) && decide (st.reached < targets.length) then
      match deleteMin st.queue with
      | none => .panic
      | some (q1, u) =>
        let distance := weight q1 u
        let reached := if isTarget targets u then st.reached + 1 else st.reached
        match relaxAll q1 u distance (adj u.toNat) with
        | none => .panic
        | some q2 => o2mLoop adj targets fuel { queue := q2, reached := reached }
    else .ok st

/-- `run(graph, source, targets)`; the Bool is the returned success flag -/
def o2mRun (adj : Adj) (n : Nat) (st : O2M) (source : Nat) (targets : List Nat) : Res (O2M × Bool) :=
  let st := st.clear
  let st := { st with queue := insert st.queue (source : Int) 0 (source : Int) }
  match o2mLoop adj targets (n + 1) st with
  | .ok st' => .ok (st', st'.reached == targets.length)
  | .panic => .panic
  | .fuel => .fuel

/-- `distance(node)` = `queue.weight(node)`: `usize::MAX` for a node that was never inserted -/
def O2M.distance (st : O2M) (node : Nat) : Int := weight st.queue (node : Int)

/-- `OneToManyDijkstra::retrieve_node_path` -/
def O2M.retrieveNodePath (st : O2M) (target : Nat) : Res (Option (Array Int)) :=
  if !(inserted st.queue (target : Int)) then .ok none
  else retrievePath st.queue target

/-! ### StaticGraph::new on an edge list (what `BaseCell::process` builds) -/

abbrev Edge := Nat × Nat × Nat     -- source, target, data  (field order = derive(Ord) order)

def edgeLe (a b : Edge) : Bool :=
  a.1 < b.1 || (a.1 == b.1 && (a.2.1 < b.2.1 || (a.2.1 == b.2.1 && a.2.2 ≤ b.2.2)))

def insertSorted (e : Edge) : List Edge → List Edge
  | [] => [e]
  | x :: xs => if edgeLe e x then e :: x :: xs else x :: insertSorted e xs

/-- `input.sort()` (total order on the full triple, so the result does not depend on stability) -/
def sortEdges (es : List Edge) : List Edge := es.foldr insertSorted []

/-- edge range of `u` in the adjacency array built from the sorted list -/
def staticAdj (es : List Edge) : Adj := fun u =>
  (sortEdges es).filterMap fun e => if e.1 = u then some (e.2.1, e.2.2) else none

/-- `number_of_nodes()` of `StaticGraph::new(es)`: largest endpoint + 1 (1 for an empty list) -/
def staticNodes (es : List Edge) : Nat := es.foldl (fun m e => max (max m e.1) e.2.1) 0 + 1

/-! ### cell.rs -/

structure BaseCell where
  incoming : List Nat
  outgoing : List Nat
  edges : List Edge
deriving Repr

structure MatrixCell where
  incoming : List Nat
  outgoing : List Nat
  matrix : Array Int
deriving Repr

/-- `seen_nodes.entry(k).or_insert(seen_nodes.len())` on the FxHashMap modelled as an association list -/
def orInsert (m : List (Nat × Nat)) (k : Nat) : List (Nat × Nat) :=
  match m.lookup k with
  | some _ => m
  | none => (k, m.length) :: m

/-- the `.map(|edge| …)` closure over all edges, threading `seen_nodes`; returns the renumbered
edges and the final map -/
def renumber : List Edge → List (Nat × Nat) → Option (List Edge × List (Nat × Nat))
  | [], seen => some ([], seen)
  | e :: es, seen =>
    let seen1 := orInsert seen e.1
    match seen1.lookup e.1 with
    | none => none                       -- expect("renumbering broken")
    | some src =>
      let seen2 := orInsert seen1 e.2.1
      match seen2.lookup e.2.1 with
      | none => none
      | some tgt =>
        match renumber es seen2 with
        | none => none
        | some (rest, seenF) => some ((src, tgt, e.2.2) :: rest, seenF)

/-- `nodes.iter().map(|node| *seen_nodes.get(node).expect("renumbering broken")).collect_vec()` -/
def lookupAll (seen : List (Nat × Nat)) : List Nat → Option (List Nat)
  | [] => some []
  | x :: xs =>
    match seen.lookup x, lookupAll seen xs with
    | some i, some r => some (i :: r)
    | _, _ => none

/-- `for (target_index, &target) in target_ids.iter().enumerate() { matrix[row + target_index] = dijkstra.distance(target) }`
(`ti` = the running `target_index`) -/
def fillRow (dist : Nat → Int) (row : Nat) : Nat → List Nat → Array Int → Option (Array Int)
  | _, [], mx => some mx
  | ti, target :: ts, mx =>
    let idx := row + ti
    if idx < mx.size then fillRow dist row (ti + 1) ts (st mx idx (dist target)) else none

/-- `for (target_index, &target) in … { if target == source { matrix[row + target_index] = 0 } }` -/
def zeroRow (source row : Nat) : Nat → List Nat → Array Int → Option (Array Int)
  | _, [], mx => some mx
  | ti, target :: ts, mx =>
    if target == source then
      let idx := row + ti
      if idx < mx.size then zeroRow source row (ti + 1) ts (st mx idx 0) else none
    else zeroRow source row (ti + 1) ts mx

/-- `for (source_index, &source) in source_ids.iter().enumerate() { … }` on ONE reused search
object (`si` = the running `source_index`, `nn = graph.number_of_nodes()`) -/
def processLoop (adj : Adj) (nn : Nat) (edgesEmpty : Bool) (targetIds : List Nat) (nOut : Nat) :
    Nat → List Nat → O2M → Array Int → Res (O2M × Array Int)
  | _, [], st, mx => .ok (st, mx)
  | si, source :: rest, st, mx =>
    let row := si * nOut
    if edgesEmpty || decide (source ≥ nn) then
      -- a boundary node that no edge of the cell touches reaches only itself
      match zeroRow source row 0 targetIds mx with
      | none => .panic
      | some mx' => processLoop adj nn edgesEmpty targetIds nOut (si + 1) rest st mx'
    else
      match o2mRun adj nn st source targetIds with
      | .panic => .panic
      | .fuel => .fuel
      | .ok (st', _) =>
        match fillRow (fun t => st'.distance t) row 0 targetIds mx with
        | none => .panic
        | some mx' => processLoop adj nn edgesEmpty targetIds nOut (si + 1) rest st' mx'

/-- `BaseCell::process` -/
def process (c : BaseCell) : Res MatrixCell :=
  let seen := c.incoming.foldl orInsert []
  let seen := c.outgoing.foldl orInsert seen
  match renumber c.edges seen with
  | none => .panic
  | some (newEdges, seenF) =>
    let nOut := c.outgoing.length
    let matrix : Array Int := Array.replicate (c.incoming.length * nOut) UMAX
    match lookupAll seenF c.incoming, lookupAll seenF c.outgoing with
    | some sourceIds, some targetIds =>
      match processLoop (staticAdj newEdges) (staticNodes newEdges) c.edges.isEmpty targetIds nOut 0 sourceIds
              O2M.new matrix with
      | .panic => .panic
      | .fuel => .fuel
      | .ok (_, mx) => .ok { incoming := c.incoming, outgoing := c.outgoing, matrix := mx }
    | _, _ => .panic

/-- `incoming_nodes.binary_search(&u)` by its contract on a strictly sorted slice: the index of
`u`, `none` (→ panic in the caller) if absent.  (std's probing order is not modelled; on a strictly
sorted slice the result is unique.) -/
def indexOf? : List Nat → Nat → Option Nat
  | [], _ => none
  | x :: xs, u => if x = u then some 0 else (indexOf? xs u).map (· + 1)

/-- `MatrixCell::get_distance_row(u)` -/
def distanceRow (c : MatrixCell) (u : Nat) : Option (Array Int) :=
  match indexOf? c.incoming u with
  | none => none
  | some index =>
    let m := c.outgoing.length
    if (index + 1) * m ≤ c.matrix.size then some (c.matrix.extract (index * m) ((index + 1) * m)) else none

/-- inner loop `for j in 0..|out|` of `overlay_edges` -/
def overlayInner (c : MatrixCell) (i source : Nat) : List Nat → Array (Nat × Nat × Int) → Option (Array (Nat × Nat × Int))
  | [], acc => some acc
  | j :: js, acc =>
    let idx := i * c.outgoing.length + j
    if idx < c.matrix.size then
      let distance := gt c.matrix idx
      if distance != UMAX then
        match c.outgoing[j]? with
        | none => none
        | some target => overlayInner c i source js (acc.push (source, target, distance))
      else overlayInner c i source js acc
    else none

/-- outer loop `for i in 0..|in|` -/
def overlayOuter (c : MatrixCell) : List Nat → Array (Nat × Nat × Int) → Option (Array (Nat × Nat × Int))
  | [], acc => some acc
  | i :: is, acc =>
    match c.incoming[i]? with
    | none => none
    | some source =>
      match overlayInner c i source (List.range c.outgoing.length) acc with
      | none => none
      | some acc' => overlayOuter c is acc'

/-- `MatrixCell::overlay_edges` -/
def overlayEdges (c : MatrixCell) : Option (Array (Nat × Nat × Int)) :=
  overlayOuter c (List.range c.incoming.length) #[]

end Tbx.Dijkstra
