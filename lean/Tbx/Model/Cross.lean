import Tbx.Spec.Geometry
/-
Executable model of `geometry::cross_product` / `geometry::is_clock_wise_turn`
(src/geometry.rs), with the i64 arithmetic made explicit: every intermediate is computed in
unbounded `Int` and then checked against the i64 range; `none` = the Rust would overflow
(panic with overflow checks, wrap without).  The i32 -> i64 casts are exact.

`isCW` is the overflow-free reading used by the hull model; `Tbx.Props.C19.cross_no_overflow`
shows the two coincide on the valid latitude/longitude range.
-/
namespace Tbx.Geo

def i64Min : Int := -9223372036854775808
def i64Max : Int := 9223372036854775807

/-- checked i64 result -/
def chk64 (x : Int) : Option Int := if i64Min ≤ x ∧ x ≤ i64Max then some x else none

/-- `cross_product`: first = (a.lon - o.lon) * (b.lat - o.lat), second = (a.lat - o.lat) * (b.lon - o.lon),
result first - second, all in i64 -/
def crossI64 (o a b : Coord) : Option Int := do
  let d1 ← chk64 (a.lon - o.lon)
  let d2 ← chk64 (b.lat - o.lat)
  let first ← chk64 (d1 * d2)
  let d3 ← chk64 (a.lat - o.lat)
  let d4 ← chk64 (b.lon - o.lon)
  let second ← chk64 (d3 * d4)
  chk64 (first - second)

/-- `is_clock_wise_turn`: `first > second` (no subtraction) in i64 -/
def isCWI64 (o a b : Coord) : Option Bool := do
  let d1 ← chk64 (a.lon - o.lon)
  let d2 ← chk64 (b.lat - o.lat)
  let first ← chk64 (d1 * d2)
  let d3 ← chk64 (a.lat - o.lat)
  let d4 ← chk64 (b.lon - o.lon)
  let second ← chk64 (d3 * d4)
  pure (decide (first > second))

/-- `is_clock_wise_turn` without the width: used by the hull model -/
def isCW (o a b : Coord) : Bool :=
  decide ((a.lon - o.lon) * (b.lat - o.lat) > (a.lat - o.lat) * (b.lon - o.lon))

end Tbx.Geo
