import Tbx.Model.Flow
/-
Executable model of `src/dinic.rs` (Cherkassky's variant of Dinitz' algorithm as implemented there):

  bfs   : one reverse BFS from the target; the source is never queued and may be relabelled
  dfs   : a single stack DFS over edges with `level[u] >= level[v]` and capacity != 0; when the target
          is reached the bottleneck is RECOMPUTED along the parent chain (`chainMin`, the fix of D1),
          flow is pushed along the parents (`augChain`), the stack is unwound to (one child of) the tail
          of the saturated edge closest to the source (`unwind`), `parents[target]` is reset and the
          `for` loop over the edges of `u` is left
  run   : `while bfs() { flow += dfs() }` without an upper bound (C04 models the bound)

The bottleneck value that the Rust still carries on the stack (`(NodeID, i32)`) is mirrored although it
is dead after the fix; `Tbx.FlowLegacy` keeps the pre-fix `dfs` that used it.
-/
namespace Tbx.Flow

structure Dinic where
  g        : Graph
  maxFlow  : Int
  finished : Bool
  level    : Array Nat
  parents  : Array Nat
  stack    : List (Nat × Int)      -- head = top of the Vec
  dfsCount : Nat
  bfsCount : Nat
  source   : Nat
  target   : Nat
  trace    : List (Nat × List Nat × Int) := []   -- ghost: (bfs_count, path target…source, flow) per augmentation
deriving Repr, Inhabited

/-- `i32::MAX` -/
def I32MAX : Int := 2147483647

/-- `from_edge_list`; `none` = `debug_assert!(!edge_list.is_empty())` -/
def Dinic.fromEdgeList (es : List Edge) (s t : Nat) : Option Dinic :=
  if es.isEmpty then none
  else some { g := residualDinic es, maxFlow := 0, finished := false, level := #[], parents := #[],
              stack := [], dfsCount := 0, bfsCount := 0, source := s, target := t }

/-- the `for edge in edge_range(u)` loop of `bfs` -/
def bfsEdges (g : Graph) (source u : Nat) : Nat → Nat → Array Nat → List Nat → Option (Array Nat × List Nat)
  | _, 0, lv, q => some (lv, q)
  | e, k + 1, lv, q =>
    let v := gt g.tgt e
    if v ≠ source ∧ gt lv v ≠ INV then bfsEdges g source u (e + 1) k lv q
    else
      match g.findEdge v u with
      | none => none
      | some rev =>
        if gt g.cap rev < 1 then bfsEdges g source u (e + 1) k lv q
        else
          let lv' := st lv v (gt lv u + 1)
          if v ≠ source then bfsEdges g source u (e + 1) k lv' (q ++ [v])
          else bfsEdges g source u (e + 1) k lv' q

/-- `while let Some(u) = queue.pop_front()` -/
def bfsLoop (g : Graph) (source : Nat) : Nat → Array Nat → List Nat → Option (Array Nat)
  | 0, _, _ => none
  | _ + 1, lv, [] => some lv
  | fuel + 1, lv, u :: q =>
    match bfsEdges g source u (g.beginEdges u) (g.deg u) lv q with
    | none => none
    | some (lv', q') => bfsLoop g source fuel lv' q'

/-- `bfs()` -/
def Dinic.bfs (d : Dinic) : Option (Dinic × Bool) :=
  let lv0 := st (Array.replicate d.level.size INV) d.target 0
  match bfsLoop d.g d.source (d.g.numNodes + 1) lv0 [d.target] with
  | none => none
  | some lv => some ({ d with level := lv, bfsCount := d.bfsCount + 1 }, gt lv d.source != INV)

/-- the bottleneck recomputation `while parents[w] != w { … }` (D1 fix) -/
def chainMin (g : Graph) (parents : Array Nat) : Nat → Nat → Int → Option Int
  | 0, _, _ => none
  | fuel + 1, w, flow =>
    let p := gt parents w
    if p = w then some flow
    else
      match g.findEdge p w with
      | none => none
      | some e => chainMin g parents fuel p (min flow (gt g.cap e))

/-- the augmentation `loop { let u = parents[v]; if u == v { break } … }`; returns the new graph and
    `closest_tail` -/
def augChain (parents : Array Nat) (flow : Int) : Nat → Nat → Nat → Graph → Option (Graph × Nat)
  | 0, _, _, _ => none
  | fuel + 1, v, ct, g =>
    let u := gt parents v
    if u = v then some (g, ct)
    else
      match g.findEdge u v, g.findEdge v u with
      | some fwd, some rev =>
        let c1 := st g.cap fwd (gt g.cap fwd - flow)
        let ct' := if gt c1 fwd = 0 then u else ct
        let c2 := st c1 rev (gt c1 rev + flow)
        augChain parents flow fuel u ct' { g with cap := c2 }
      | _, _ => none

/-- `while let Some((node, _)) = stack.pop() { if parents[node] == closest_tail { break } }` -/
def unwind (parents : Array Nat) (ct : Nat) : List (Nat × Int) → List (Nat × Int)
  | [] => []
  | (node, _) :: rest => if gt parents node = ct then rest else unwind parents ct rest

/-- what happens when the edge `u → v` reaches the target with capacity `avail` (after
    `parents[v] = u`): recompute, augment, unwind, reset `parents[target]` -/
def reachTarget (d : Dinic) (parents : Array Nat) (u v : Nat) (avail : Int) (bf : Int) :
    Option (Dinic × Int) :=
  match chainMin d.g parents (d.g.numNodes + 1) u avail with
  | none => none
  | some fl =>
    match augChain parents fl (d.g.numNodes + 1) v u d.g with
    | none => none
    | some (g', ct) =>
      some ({ d with g := g', parents := st parents d.target INV, stack := unwind parents ct d.stack,
                     dfsCount := d.dfsCount + 1,
                     trace := (d.bfsCount, (pathIter parents (d.g.numNodes + 1) v).getD [], fl) :: d.trace },
            bf + fl)

/-- the `for edge in edge_range(u)` loop of `dfs` for the popped entry `(u, flow)` -/
def dfsEdges (u : Nat) (flow : Int) : Nat → Nat → Dinic → Int → Option (Dinic × Int)
  | _, 0, d, bf => some (d, bf)
  | e, k + 1, d, bf =>
    let v := gt d.g.tgt e
    if gt d.parents v ≠ INV then dfsEdges u flow (e + 1) k d bf
    else if gt d.level u < gt d.level v then dfsEdges u flow (e + 1) k d bf
    else
      let avail := gt d.g.cap e
      if avail = 0 then dfsEdges u flow (e + 1) k d bf
      else
        let parents := st d.parents v u
        let flow' := min flow avail
        if v = d.target then reachTarget d parents u v avail bf      -- … `break`
        else dfsEdges u flow (e + 1) k { d with parents := parents, stack := (v, flow') :: d.stack } bf

/-- `while let Some((u, flow)) = stack.pop()` -/
def dfsLoop : Nat → Dinic → Int → Option (Dinic × Int)
  | 0, _, _ => none
  | fuel + 1, d, bf =>
    match d.stack with
    | [] => some (d, bf)
    | (u, flow) :: rest =>
      match dfsEdges u flow (d.g.beginEdges u) (d.g.deg u) { d with stack := rest } bf with
      | none => none
      | some (d', bf') => dfsLoop fuel d' bf'

/-- `dfs()`: returns the blocking flow -/
def Dinic.dfs (d : Dinic) : Option (Dinic × Int) :=
  let ps := st (Array.replicate d.parents.size INV) d.source d.source
  dfsLoop (2 * d.g.numNodes + 2)
    { d with dfsCount := d.dfsCount + 1, stack := [(d.source, I32MAX)], parents := ps } 0

/-- `while self.bfs() { flow += self.dfs() }` -/
def dinicLoop : Nat → Dinic → Int → Option (Dinic × Int)
  | 0, _, _ => none
  | fuel + 1, d, flow =>
    match d.bfs with
    | none => none
    | some (d1, false) => some (d1, flow)
    | some (d1, true) =>
      match d1.dfs with
      | none => none
      | some (d2, bf) => dinicLoop fuel d2 (flow + bf)

/-- `run()` (no bound); `level[target]` / `parents[source]` are indexed -/
def Dinic.run (d : Dinic) (fuel : Nat) : Option Dinic :=
  let n := d.g.numNodes
  if d.source ≥ n ∨ d.target ≥ n then none
  else
    let d0 := { d with parents := Array.replicate n 0, level := Array.replicate n INV }
    match dinicLoop fuel d0 0 with
    | none => none
    | some (d', flow) => some { d' with maxFlow := flow, finished := true }

/-- `run()` called on an object in ANY state - in particular a second time on a finished solver, or after an
    aborted bounded run (fix D24: `let mut flow = self.max_flow`).  `parents.resize(n, 0)` /
    `level.resize(n, usize::MAX)` keep the old contents when the vectors already have `n` entries; `bfs` and
    `dfs` overwrite both completely before reading them (they use only the sizes), so the contents written here
    are unobservable and the model fills in the fresh values.  `Dinic.run` is the special case `maxFlow = 0`
    (`run_eq_runAgain`). -/
def Dinic.runAgain (d : Dinic) (fuel : Nat) : Option Dinic :=
  let n := d.g.numNodes
  if d.source ≥ n ∨ d.target ≥ n then none
  else
    let d0 := { d with parents := Array.replicate n 0, level := Array.replicate n INV }
    match dinicLoop fuel d0 d.maxFlow with
    | none => none
    | some (d', flow) => some { d' with maxFlow := flow, finished := true }

/-- `k` further calls of `run()` on the same object -/
def Dinic.runAgainN (fuel : Nat) : Nat → Dinic → Option Dinic
  | 0, d => some d
  | k + 1, d => match d.runAgain fuel with
    | none => none
    | some d' => Dinic.runAgainN fuel k d'

def Dinic.maxFlow? (d : Dinic) : Out Int := maxFlowOut d.finished d.maxFlow
def Dinic.assignment? (d : Dinic) (source : Nat) : Out (Array Bool) := assignmentOut d.g d.finished source

end Tbx.Flow
