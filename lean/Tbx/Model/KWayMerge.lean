import Tbx.Model.LoserTree
/-
Executable model of `src/k_way_merge_iterator.rs` (KWayMergeIterator) over an abstract
`MergeTree` (`src/merge_tree.rs`): the iterator only uses `push` and `pop` of its tree.

  heap : M                      -- any MergeTree
  list : &mut [I]               -- the runs; an iterator is modelled by the list of items it still yields

`Iterator::next` on a run = head/tail of that list.
-/
namespace Tbx.KWay
open Tbx

abbrev Entry := LoserTree.Entry

/-- the operations of `trait MergeTree<T>` used by the iterator; `none` = the implementation panics -/
structure MTree (σ : Type) where
  push : σ → Entry → Option σ
  pop : σ → Option (Option Entry × σ)

structure Iter (σ : Type) where
  heap : σ
  list : List (List Int)

/-- the `for (i, iterator) in list.iter_mut().enumerate()` loop of `new`, from index `i` on -/
def newLoop {σ : Type} (T : MTree σ) : Nat → List (List Int) → σ → Option (σ × List (List Int))
  | _, [], h => some (h, [])
  | i, [] :: rs, h =>
    match newLoop T (i + 1) rs h with
    | some (h', ls) => some (h', [] :: ls)
    | none => none
  | i, (x :: r) :: rs, h =>
    match T.push h ⟨x, i⟩ with
    | none => none
    | some h1 =>
      match newLoop T (i + 1) rs h1 with
      | some (h', ls) => some (h', r :: ls)
      | none => none

/-- `KWayMergeIterator::new(list, heap)` -/
def new {σ : Type} (T : MTree σ) (runs : List (List Int)) (heap : σ) : Option (Iter σ) :=
  match newLoop T 0 runs heap with
  | some (h, ls) => some ⟨h, ls⟩
  | none => none

/-- `next()`: outer `none` = panic (tree panics or `self.list[list]` out of bounds), inner = the iterator's item -/
def next {σ : Type} (T : MTree σ) (it : Iter σ) : Option (Option Int × Iter σ) :=
  match T.pop it.heap with
  | none => none
  | some (none, h) => some (none, { it with heap := h })
  | some (some e, h) =>
    if e.index < it.list.length then
      match it.list.getD e.index [] with
      | [] => some (some e.item, { it with heap := h })
      | x :: r =>
        match T.push h ⟨x, e.index⟩ with
        | none => none
        | some h' => some (some e.item, { heap := h', list := it.list.set e.index r })
    else none

inductive Res where
  | done (out : List Int)
  | panic (out : List Int)
  | outOfFuel (out : List Int)
deriving Repr, DecidableEq

/-- `collect()`: call `next` until it yields `None` -/
def collect {σ : Type} (T : MTree σ) : Nat → Iter σ → List Int → Res
  | 0, _, acc => .outOfFuel acc
  | fuel + 1, it, acc =>
    match next T it with
    | none => .panic acc
    | some (none, _) => .done acc
    | some (some x, it') => collect T fuel it' (acc ++ [x])

/-- merge of `runs` through tree `T` starting from the empty tree `heap`;
    fuel = number of items + 1 (shown sufficient in `Tbx.KWay.merge_sorted`) -/
def merge {σ : Type} (T : MTree σ) (runs : List (List Int)) (heap : σ) : Res :=
  match new T runs heap with
  | none => .panic []
  | some it => collect T (runs.flatten.length + 1) it []

/-- the loser tree as a `MergeTree` -/
def loserTree : MTree LoserTree.Tree := { push := LoserTree.push, pop := LoserTree.pop }

/-- stand-in for `BinaryHeap<MergeEntry<T>>` (std, modelled by its contract): a bag of entries,
    `pop` removes the first entry with minimal item -/
def bagPop : List Entry → Option (Option Entry × List Entry)
  | [] => some (none, [])
  | e :: es =>
    match bagPop es with
    | some (some m, rest) => if m.item < e.item then some (some m, e :: rest) else some (some e, es)
    | _ => some (some e, es)

def bag : MTree (List Entry) := { push := fun s e => some (s ++ [e]), pop := bagPop }

end Tbx.KWay
