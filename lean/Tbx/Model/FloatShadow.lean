import Tbx.Spec.Geometry
/-
Executable shadow of the floating-point functions named by C19:
`great_circle::haversine`, `FPCoordinate::{to_lon_lat_pair,distance_to}`, `BoundingBox::min_distance`,
`mercator::{y_to_lat,lon_to_x,x_to_lon,lat_to_y,lat_to_y_approx,from_wgs84,to_wgs84}`,
`vector_tile::{degree_to_pixel_lon,degree_to_pixel_lat,pixel_to_degree,coordinate_to_tile_number,
get_tile_bounds,linestring_to_tile_coords}`, `math::horner`, `FloatLatitude::clamp`.

NOTHING is proved about these definitions: Lean's `Float` is opaque to the kernel.  They perform the
same IEEE-754 double operations in the same order as the Rust and call the same libm functions, so on
one machine they normally reproduce the Rust results bit for bit.  Their output is compared with the
implementation's only as class-F observations (a difference is reported as drift, never as a
violation); what decides violations for these functions is the judge, which reads the bit patterns
produced by the real code as exact rationals and applies the documented tolerances.
Constants are given by bit pattern (obtained from rustc for the literals in the source).
-/
namespace Tbx.FS

def fPi : Float := Float.ofBits 0x400921FB54442D18                -- std::f64::consts::PI
def earthRadiusKm : Float := Float.ofBits 0x40B8EA23126E978D      -- 6_378.137
def maxMercLat : Float := Float.ofBits 0x40554345B1A549D6         -- 85.051_128_779_806_59

/-- `f64::to_radians`: `self * (PI / 180.0)` -/
def toRad (x : Float) : Float := x * (fPi / 180.0)
/-- `f64::to_degrees`: `self * (180.0 / PI)` -/
def toDeg (x : Float) : Float := x * (180.0 / fPi)
/-- `f64::clamp` -/
def fclamp (x lo hi : Float) : Float := if x < lo then lo else if x > hi then hi else x
/-- `f64::min` (a NaN operand yields the other one) -/
def fmin (a b : Float) : Float := if a.isNaN then b else if b.isNaN then a else if b < a then b else a

/-- `great_circle::haversine` -/
def haversine (lat1 lon1 lat2 lon2 : Float) : Float :=
  let d1 := toRad lat1
  let d2 := toRad lat2
  let dLat := toRad (lat2 - lat1)
  let dLon := toRad (lon1 - lon2)
  let s1 := Float.sin (dLat / 2.0)
  let s2 := Float.sin (dLon / 2.0)
  let a := s1 * s1 + Float.cos d1 * Float.cos d2 * (s2 * s2)
  let c := 2.0 * Float.atan2 (Float.sqrt a) (Float.sqrt (1.0 - a))
  earthRadiusKm * c

/-- `first.distance_to(second)` on fixed-point coordinates -/
def distanceTo (a b : Geo.Coord) : Float :=
  haversine (Float.ofInt a.lat / 1000000.0) (Float.ofInt a.lon / 1000000.0)
            (Float.ofInt b.lat / 1000000.0) (Float.ofInt b.lon / 1000000.0)

/-- `BoundingBox::min_distance` (current /repo behaviour: minimum over the four corners, defect D7) -/
def minDistance (b : Geo.BoxCorners) (q : Geo.Coord) : Float :=
  if decide (Geo.Between b q) then 0.0
  else
    let c1 : Geo.Coord := ⟨b.maxLat, b.maxLon⟩
    let c2 : Geo.Coord := ⟨b.minLat, b.minLon⟩
    let c3 : Geo.Coord := ⟨c1.lat, c2.lon⟩
    let c4 : Geo.Coord := ⟨c2.lat, c1.lon⟩
    fmin (fmin (fmin (distanceTo c1 q) (distanceTo c2 q)) (distanceTo c3 q)) (distanceTo c4 q)

/-! mercator.rs -/

def yToLat (y : Float) : Float :=
  let cy := fclamp y (-180.0) 180.0
  toDeg 2.0 * Float.atan (Float.exp (toRad cy)) - 90.0

def lonToX (lon : Float) : Float := lon * earthRadiusKm * 1000.0 * fPi / 180.0
def xToLon (x : Float) : Float := x * 180.0 / (earthRadiusKm * 1000.0 * fPi)

def latToY (lat : Float) : Float :=
  let cl := fclamp lat (-maxMercLat) maxMercLat
  let f := Float.sin (toRad cl)
  toDeg 0.5 * Float.log ((1.0 + f) / (1.0 - f))

/-- `math::horner` -/
def horner (x : Float) (cs : List Float) : Float := cs.foldl (fun acc c => acc * x + c) 0.0

def numCoeffs : List Float := [0xBB5DB51D70CEA74A, 0x3B3944AD4C7ECD95, 0x3C8212CF08F348F1, 0xBC44B65CF201033B,
  0xBD7F2FBB4B24B3C6, 0x3D31C439062AC1E5, 0x3E63C4568DE237F6, 0xBE06C5DC859E4228, 0xBF350E6159E5D65E,
  0x3EC3AA8C49E4C983, 0x3FF0000000000FAD, 0x0000000000000000].map Float.ofBits
def denCoeffs : List Float := [0xBA3998E8036BA1FA, 0xBB90795D8C8493F8, 0x3B5BBC527F028B92, 0x3C9AE451B72116ED,
  0xBC56107F27136EC2, 0xBD8D19B4107B2ACD, 0x3D3A632C4336EF95, 0x3E6BD517BA9D1C25, 0xBE0ADCCE79B5EEEA,
  0xBF386226FE6637C2, 0x3EC3AA8C49E919DF, 0x3FF0000000000000].map Float.ofBits

def latToYApprox (lat : Float) : Float :=
  if lat < -70.0 || lat > 70.0 then latToY lat
  else horner lat numCoeffs / horner lat denCoeffs

/-! vector_tile.rs (TILE_SIZE = 4096) -/

def tileSize : Nat := 4096

def degreeToPixelLon (lon : Float) (zoom : Nat) : Float :=
  let shift := (1 <<< zoom) * tileSize
  let b := Float.ofNat shift / 2.0
  b * (1.0 + lon / 180.0)

def degreeToPixelLat (lat : Float) (zoom : Nat) : Float :=
  let shift := (1 <<< zoom) * tileSize
  let b := Float.ofNat shift / 2.0
  b * (1.0 - latToY lat / 180.0)

def pixelToDegree (shift : Nat) (x y : Float) : Float × Float :=
  let b := Float.ofNat shift / 2.0
  let x' := ((x - b) / Float.ofNat shift) * 360.0
  let ny := y / Float.ofNat shift
  let latRad := fPi * (1.0 - 2.0 * ny)
  (x', yToLat (toDeg latRad))

def coordinateToTileNumber (lat lon : Float) (zoom : Nat) : Nat × Nat :=
  let n := Float.ofNat (1 <<< zoom)
  let xt := (n * (lon + 180.0) / 360.0).toUInt32
  let latRad := toRad lat
  let yt := (n * (1.0 - Float.log (Float.tan latRad + 1.0 / Float.cos latRad) / fPi) / 2.0).toUInt32
  (xt.toNat, yt.toNat)

/-- (min_lon, min_lat, max_lon, max_lat) as the source names them -/
def getTileBounds (zoom x y : Nat) : Float × Float × Float × Float :=
  let n := Float.ofNat (1 <<< zoom)
  let lon1 := Float.ofNat x / n * 360.0 - 180.0
  let lon2 := Float.ofNat (x + 1) / n * 360.0 - 180.0
  let lat1 := toDeg (Float.atan (Float.sinh (fPi * (1.0 - 2.0 * Float.ofNat y / n))))
  let lat2 := toDeg (Float.atan (Float.sinh (fPi * (1.0 - 2.0 * Float.ofNat (y + 1) / n))))
  (lon1, lat1, lon2, lat2)

/-- `linestring_to_tile_coords` for a single point -/
def pointToTileCoords (lat lon : Float) (zoom tx ty : Nat) : Nat × Nat :=
  let (minLon, minLat, maxLon, maxLat) := getTileBounds zoom tx ty
  let minX := lonToX minLon
  let maxX := lonToX maxLon
  let minY := latToYApprox minLat
  let maxY := latToYApprox maxLat
  let xSpan := maxX - minX
  let ySpan := maxY - minY
  let x := lonToX lon
  let y := latToYApprox lat
  let px := ((x - minX) * (Float.ofNat tileSize - 1.0) / xSpan).toUInt32.toNat
  let py := ((y - minY) * (Float.ofNat tileSize - 1.0) / ySpan).toUInt32.toNat
  (min px (tileSize - 1), min py (tileSize - 1))

end Tbx.FS
