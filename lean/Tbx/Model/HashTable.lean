import Tbx.Model.Arr
/-
Executable model of `src/medium_size_hash_table.rs` (MediumSizeHashTable<u32, _, Hash>), mirroring
the Rust statement by statement.

  positions         : Vec<HashCell{time,key,value}>   (length MAX_ELEMENTS, here the parameter `N`)
  current_timestamp : Wrapping<u32>                   (`ts`, kept < 2^32 by `clear`)
  length            : usize
  hasher            : the hash function is DATA: `h : Nat → Nat` (for the real table the harness
                      sends `hasher.hash(key)` of every key it uses; `fibHash` below mirrors
                      FibonacciHash::hash exactly and is compared with those values)

Keys are `Nat` (u32 in the harness), values `Int` with `Value::default() = 0`.
The `while` loop shared by get_mut / peek_value / contains_key is `probe` with explicit fuel; every
caller passes fuel `N`, which `Tbx.HashTable.probe_terminates` (Proofs/HashTableInv.lean) shows sufficient
whenever fewer cells are live than there are slots.  `none` = the Rust loop would not terminate.
-/
namespace Tbx.HashTable

def u32Max : Nat := 4294967295

structure Cell where
  time : Nat
  key : Nat
  val : Int
deriving Repr, DecidableEq

/-- `HashCell::default()`: stamp u32::MAX, key 0, value 0 -/
instance : Inhabited Cell := ⟨⟨u32Max, 0, 0⟩⟩

structure Table where
  cells : Array Cell
  ts : Nat
  length : Nat
deriving Repr

/-- `new()` -/
def init (N : Nat) : Table := { cells := Array.replicate N default, ts := 0, length := 0 }

/-- `while positions[position].time == current_timestamp && positions[position].key != key
      { position = (position + 1) % MAX_ELEMENTS }` ; returns the final position -/
def probe (N : Nat) (cells : Array Cell) (ts key : Nat) : Nat → Nat → Option Nat
  | 0, _ => none
  | fuel + 1, pos =>
    if (gt cells pos).time = ts ∧ (gt cells pos).key ≠ key then
      probe N cells ts key fuel ((pos + 1) % N)
    else some pos

/-- `get_mut`: the table afterwards and the position of the cell whose value is handed out -/
def getMut (N : Nat) (h : Nat → Nat) (t : Table) (key : Nat) : Option (Table × Nat) :=
  match probe N t.cells t.ts key N (h key) with
  | none => none
  | some p =>
    let c := gt t.cells p
    if c.time ≠ t.ts then
      -- new cell: length += 1, value reset to the default, then stamp and key
      some ({ cells := st t.cells p ⟨t.ts, key, 0⟩, ts := t.ts, length := t.length + 1 }, p)
    else
      some ({ cells := st t.cells p ⟨t.ts, key, c.val⟩, ts := t.ts, length := t.length }, p)

/-- writing through the reference returned by `get_mut` -/
def setVal (t : Table) (p : Nat) (v : Int) : Table :=
  { t with cells := st t.cells p { gt t.cells p with val := v } }

def valAt (t : Table) (p : Nat) : Int := (gt t.cells p).val

/-- `insert`: `*self.get_mut(key) = value` -/
def insert (N : Nat) (h : Nat → Nat) (t : Table) (key : Nat) (v : Int) : Option Table :=
  match getMut N h t key with
  | none => none
  | some (t', p) => some (setVal t' p v)

/-- `peek_value` (outer `none`: the loop does not terminate) -/
def peek (N : Nat) (h : Nat → Nat) (t : Table) (key : Nat) : Option (Option Int) :=
  match probe N t.cells t.ts key N (h key) with
  | none => none
  | some p => if (gt t.cells p).time = t.ts then some (some (gt t.cells p).val) else some none

/-- `contains_key` -/
def containsKey (N : Nat) (h : Nat → Nat) (t : Table) (key : Nat) : Option Bool :=
  match probe N t.cells t.ts key N (h key) with
  | none => none
  | some p => if (gt t.cells p).time = t.ts then some true else some false

/-- `clear`: bump the generation (wrapping); rebuild at the wrap to 0; restamp at u32::MAX -/
def clear (N : Nat) (t : Table) : Table :=
  let ts' := (t.ts + 1) % 4294967296
  if ts' = 0 then { cells := Array.replicate N default, ts := ts', length := 0 }
  else if ts' = u32Max then { cells := t.cells.map (fun c => { c with time := 0 }), ts := ts', length := 0 }
  else { cells := t.cells, ts := ts', length := 0 }

/-- `n` successive `clear`s -/
def clearN (N : Nat) : Nat → Table → Table
  | 0, t => t
  | n + 1, t => clearN N n (clear N t)

/-- `n` successive `clear`s, jumping over the stretches in which `clear` only increments the generation
(used by the driver for the 2^32-clear histories; equal to `clearN` by `Tbx.HashTable.clearMany_eq`) -/
def clearMany (N : Nat) (n : Nat) (t : Table) : Table :=
  if n = 0 then t
  else if t.ts + n < 4294967295 then { cells := t.cells, ts := t.ts + n, length := 0 }
  else if t.ts + 1 < 4294967295 then
    clearMany N (n - (4294967294 - t.ts)) { cells := t.cells, ts := 4294967294, length := 0 }
  else clearMany N (n - 1) (clear N t)
termination_by n
decreasing_by all_goals omega

/-- the `verif_set_generation` hook (asserts an empty table) -/
def setGeneration (N : Nat) (t : Table) (g : Nat) : Option Table :=
  if t.length = 0 then
    let fresh : Array Cell := Array.replicate N default
    if g = u32Max then some { cells := fresh.map (fun c => { c with time := 0 }), ts := g, length := 0 }
    else some { cells := fresh, ts := g, length := 0 }
  else none

def len (t : Table) : Nat := t.length
def isEmpty (t : Table) : Bool := t.length == 0
def capacity (N : Nat) : Nat := N

/-- `FibonacciHash::hash` for a u32 key: `(GOLDEN_RATIO.wrapping_mul(key ^ (key >> 16)) >> 16) as u16` -/
def fibHash (key : Nat) : Nat :=
  let hash := key ^^^ (key >>> 16)
  (((11400714819323198485 * hash) % 18446744073709551616) >>> 16) % 65536

end Tbx.HashTable
