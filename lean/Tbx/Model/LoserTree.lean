import Tbx.Model.Arr
/-
Executable model of `src/loser_tree.rs` (LoserTree) together with `src/merge_entry.rs`,
mirroring the Rust statement by statement (after the D16 fix):

  losers : Vec<usize>                      -- despite the name: `losers[v]` is the leaf that WINS the subtree of
                                           -- internal node v
  leaves : Vec<Option<MergeEntry<T>>>      -- one optional entry per slot
  winner : usize, size : usize

The tree is heap numbered: internal nodes 0 .. n-2, leaf j is node j + (n-1); n = leaves.len().
Items are modelled as `Int` (the Rust is generic over `Ord`).  `MergeEntry`'s `Ord` is reversed
(`other.item.cmp(&self.item)`), so `v1.cmp(v2) == Greater` means `v1.item < v2.item`.
-/
namespace Tbx.LoserTree
open Tbx

/-- `MergeEntry<T>` -/
structure Entry where
  item : Int
  index : Nat
deriving Repr, DecidableEq, Inhabited

structure Tree where
  losers : Array Nat
  leaves : Array (Option Entry)
  winner : Nat
  size : Nat
deriving Repr

/-- `usize::next_power_of_two` (0 and 1 map to 1) -/
def nextPow2 (c : Nat) : Nat := if c ≤ 1 then 1 else 2 ^ (Nat.log2 (c - 1) + 1)

/-- the inner `while leftmost < internal_nodes { leftmost = 2 * leftmost + 1 }` of `with_capacity` -/
def leftmostLoop (internal : Nat) : Nat → Nat → Nat
  | 0, l => l
  | fuel + 1, l => if l < internal then leftmostLoop internal fuel (2 * l + 1) else l

/-- the `for node in 0..internal_nodes` loop of `with_capacity`, `node` counting up from `node` for `cnt` rounds -/
def initLoop (internal : Nat) : Nat → Nat → Array Nat → Array Nat
  | 0, _, ls => ls
  | cnt + 1, node, ls => initLoop internal cnt (node + 1) (ls.push (leftmostLoop internal internal node - internal))

/-- the tree built for a given number of leaves (`size` in `with_capacity`) -/
def withLeaves (n : Nat) : Tree :=
  { losers := initLoop (n - 1) (n - 1) 0 #[], leaves := Array.replicate n none, winner := 0, size := 0 }

/-- `LoserTree::with_capacity(capacity)` -/
def withCapacity (capacity : Nat) : Tree := withLeaves (nextPow2 capacity)

/-- `play_match(pos1, pos2)`: index of the winning leaf; `pos1` wins only with a strictly smaller item -/
def playMatch (lv : Array (Option Entry)) (pos1 pos2 : Nat) : Nat :=
  match gt lv pos1, gt lv pos2 with
  | none, _ => pos2
  | _, none => pos1
  | some v1, some v2 => if v1.item < v2.item then pos1 else pos2

/-- the leaf a node stands for: the leaf itself for leaf nodes, `losers[i]` for internal nodes -/
def nodeVal (ls : Array Nat) (internal i : Nat) : Nat :=
  if i ≥ internal then i - internal else gt ls i

/-- the `while i > 0` loop of `rebuild_path` (i is a node index) -/
def rebuildLoop (lv : Array (Option Entry)) (internal : Nat) : Nat → Array Nat → Nat → Array Nat
  | 0, ls, _ => ls
  | fuel + 1, ls, i =>
    if i > 0 then
      let parent := (i - 1) / 2
      let sibling := if i % 2 = 0 then i - 1 else i + 1
      let w := playMatch lv (nodeVal ls internal i) (nodeVal ls internal sibling)
      rebuildLoop lv internal fuel (st ls parent w) parent
    else ls

/-- `rebuild_path(i)` for leaf index i -/
def rebuildPath (t : Tree) (i : Nat) : Tree :=
  let internal := t.leaves.size - 1
  let ls := rebuildLoop t.leaves internal (i + internal) t.losers (i + internal)
  { t with losers := ls, winner := if ls.size = 0 then 0 else gt ls 0 }

/-- `clear()` -/
def clear (t : Tree) : Tree :=
  { t with leaves := Array.replicate t.leaves.size none, size := 0, winner := 0 }

/-- `capacity()` -/
def capacity (t : Tree) : Nat := t.leaves.size

/-- `push(item)`; `none` where the Rust panics (index out of bounds) -/
def push (t : Tree) (e : Entry) : Option Tree :=
  if e.index < t.leaves.size then
    let t1 := { t with leaves := st t.leaves e.index (some e) }
    let t2 := rebuildPath t1 e.index
    some { t2 with size := t2.size + 1 }
  else none

/-- `pop()`; `none` where the Rust would index out of bounds (never for a well-formed tree) -/
def pop (t : Tree) : Option (Option Entry × Tree) :=
  if t.winner < t.leaves.size then
    match gt t.leaves t.winner with
    | none => some (none, t)
    | some e =>
      let t1 := { t with leaves := st t.leaves t.winner none, size := t.size - 1 }
      some (some e, rebuildPath t1 t.winner)
  else none

def isEmpty (t : Tree) : Bool := t.size == 0
def len (t : Tree) : Nat := t.size

end Tbx.LoserTree
