import Tbx.Model.Csr
/-
Executable model of `src/tarjan.rs` (iterative Tarjan with caller pointers), statement by
statement.  The object state (`dfs_state`, `tarjan_stack`) is an explicit input and output of
`run`, so "a second run on a used object" is a statement about `run s g` for arbitrary `s`.

`None` = the Rust would panic (index out of bounds, `expect` on an empty stack / exhausted edge
range) or the fuel handed to a loop ran out (never on well-formed graphs; the driver reports it).
-/
namespace Tbx.Tarjan
open Tbx Tbx.Csr

/-- `DFSNode` -/
structure DFSNode where
  caller : Nat
  index : Nat
  lowlink : Nat
  neighbor : Nat
  onStack : Bool
deriving Repr, DecidableEq

/-- `DFSNode::new()` -/
def DFSNode.new : DFSNode := ⟨maxU, maxU, maxU, maxU, false⟩
instance : Inhabited DFSNode := ⟨DFSNode.new⟩

/-- the fields of `Tarjan` (what survives between two calls of `run`) -/
structure State where
  dfs : Array DFSNode
  stack : Array Nat
deriving Repr

/-- `Tarjan::new()` -/
def State.fresh : State := ⟨#[], #[]⟩

/-- `Vec::clear` -/
def clear {α : Type} (_ : Array α) : Array α := #[]

/-- `Vec::resize(n, v)`: truncate, or extend with copies of `v` -/
def resize {α : Type} (a : Array α) (n : Nat) (v : α) : Array α :=
  if n ≤ a.size then a.extract 0 n else a ++ Array.replicate (n - a.size) v

/-- `self` plus the locals `assignment`, `index`, `num_scc` of `run` -/
structure Run where
  dfs : Array DFSNode
  stack : Array Nat
  asg : Array Nat
  index : Nat
  numScc : Nat
deriving Repr

/-- `a[i].field = …` -/
def upd (a : Array DFSNode) (i : Nat) (f : DFSNode → DFSNode) : Array DFSNode := st a i (f (gt a i))

/-- `stack_push(w, caller, index)` followed by the caller's `index += 1` -/
def stackPush (r : Run) (w caller : Nat) : Run :=
  { r with dfs := st r.dfs w ⟨caller, r.index, r.index, 0, true⟩,
           stack := r.stack.push w,
           index := r.index + 1 }

/-- the inner `loop { let top = pop().expect(..); on_stack = false; assignment[top] = num_scc;
    if top == last { break } }`; fuel = stack size + 1 -/
def popLoop (last : Nat) : Nat → Run → Option Run
  | 0, _ => none
  | f + 1, r =>
    if r.stack.size = 0 then none            -- expect("tarjan_stack empty")
    else
      let top := gt r.stack (r.stack.size - 1)
      if top ≥ r.dfs.size then none          -- dfs_state[top] / assignment[top] out of bounds
      else
        let r := { r with stack := r.stack.pop,
                          dfs := upd r.dfs top (fun d => { d with onStack := false }),
                          asg := st r.asg top r.numScc }
        if top = last then some r else popLoop last f r

/-- `dfs_state[last].neighbor += 1` -/
def incNeighbor (r : Run) (last : Nat) : Run :=
  { r with dfs := upd r.dfs last (fun d => { d with neighbor := d.neighbor + 1 }) }

/-- `dfs_state[v].lowlink = min(dfs_state[v].lowlink, x)` -/
def minLow (r : Run) (v x : Nat) : Run :=
  { r with dfs := upd r.dfs v (fun d => { d with lowlink := min d.lowlink x }) }

/-- `num_scc += 1` -/
def bumpScc (r : Run) : Run := { r with numScc := r.numScc + 1 }

/-- the `loop { … }` of one root; returns the state at `break` -/
def dfsLoop (g : Graph) : Nat → Run → Nat → Option Run
  | 0, _, _ => none
  | f + 1, r, last =>
    if last ≥ r.dfs.size then none else
    if (gt r.dfs last).neighbor < outDegree g last then
      -- e = edge_range(last).nth(neighbor); w = target(e); neighbor += 1
      let w := target g (beginEdges g last + (gt r.dfs last).neighbor)
      let r1 := incNeighbor r last
      if w ≥ r1.dfs.size then none else
      if (gt r1.dfs w).index = maxU then
        dfsLoop g f (stackPush r1 w last) w
      else if (gt r1.dfs w).onStack then
        dfsLoop g f (minLow r1 last (gt r1.dfs w).index) last
      else dfsLoop g f r1 last
    else
      match (if (gt r.dfs last).lowlink = (gt r.dfs last).index then
               popLoop last (r.stack.size + 1) (bumpScc r)
             else some r) with
      | none => none
      | some r2 =>
        let newLast := (gt r2.dfs last).caller
        if newLast ≠ maxU then
          if newLast ≥ r2.dfs.size then none else
          dfsLoop g f (minLow r2 newLast (gt r2.dfs last).lowlink) newLast
        else some r2

/-- steps one root's `loop` can take at most: every edge once, every node finished once -/
def dfsFuel (g : Graph) : Nat := numEdges g + numNodes g + 1

/-- `for n in graph.node_range()`: `k` nodes left, current node `n` -/
def outer (g : Graph) : Nat → Nat → Run → Option Run
  | 0, _, r => some r
  | k + 1, n, r =>
    if (gt r.dfs n).index ≠ maxU then outer g k (n + 1) r
    else
      match dfsLoop g (dfsFuel g) (stackPush r n maxU) n with
      | none => none
      | some r => outer g k (n + 1) r

/-- the start of `run`: what the loops see.  `reset = false` is the code before the D11 fix
    (no `clear`), kept for the regression example only -/
def prepare (reset : Bool) (s : State) (g : Graph) : Run :=
  let n := numNodes g
  { asg := resize #[] n maxU,
    index := 0, numScc := 0,
    dfs := resize (if reset then clear s.dfs else s.dfs) n DFSNode.new,
    stack := if reset then clear s.stack else s.stack }

def runWith (reset : Bool) (s : State) (g : Graph) : Option (State × Array Nat) :=
  match outer g (numNodes g) 0 (prepare reset s g) with
  | none => none
  | some r => some (⟨r.dfs, r.stack⟩, r.asg)

/-- `Tarjan::run` as it is now -/
def run (s : State) (g : Graph) : Option (State × Array Nat) := runWith true s g

/-- `Tarjan::run` before the D11 fix -/
def legacyRun (s : State) (g : Graph) : Option (State × Array Nat) := runWith false s g

/-- a history: run on each graph in turn with the same object; the labels of every run -/
def runSeq (s : State) : List Graph → Option (State × List (Array Nat))
  | [] => some (s, [])
  | g :: gs =>
    match run s g with
    | none => none
    | some (s', a) =>
      match runSeq s' gs with
      | none => none
      | some (s'', as) => some (s'', a :: as)

end Tbx.Tarjan
