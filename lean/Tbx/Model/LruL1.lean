import Tbx.Model.Arr
import Tbx.Model.LruL0
/-
L1 model of `src/linked_list.rs` and `src/lru.rs`: pointer level.

* The heap is `cells : Array (Option (Node T))`.  `Box::new` appends a cell (bump allocation, an
  address is never reused, so a stale pointer can never silently alias a new node), `Box::from_raw`
  + drop of the box sets the cell to `none` and appends the address to the log `freed`.
* EVERY dereference (`(*p.as_ptr()).field`, `as_ref()`, `as_mut()`, `Box::from_raw`) goes through
  `Mem.rd`, which answers `Err.uaf a` for a freed cell and `Err.wild a` for an address that was never
  allocated.  `Option::unwrap` on `None`, `debug_assert!`, `assert_eq!` and the `usize` underflow of
  `len -= 1` are the other explicit errors (the harness builds /repo with debug assertions and
  overflow checks on).
* `next` points TOWARDS THE FRONT, `prev` towards the back (push_front: `old.next = new`,
  `new.prev = old`).  `front.next = None`, `back.prev = None`.
* Field accesses are modelled one by one in the order of the Rust statements (a re-read after a
  write is a new `rd`), so aliasing mistakes would show.
* `access_map : HashMap<Key, cursor>` is modelled by its contract: a function `K → Option addr`
  and the number of bound keys.
-/
namespace Tbx.LruL1
open Tbx

inductive Err where
  | uaf (a : Nat)        -- dereference of a freed node
  | wild (a : Nat)       -- dereference of an address that was never allocated
  | unwrapNone           -- `Option::unwrap()` on `None`
  | assertFail           -- `debug_assert!` / `assert_eq!` failed
  | underflow            -- `len -= 1` at 0
  | outOfFuel            -- a model loop ran out of fuel (never on well-formed states: `clear_fuel_ok`)
deriving Repr, DecidableEq, Inhabited

structure Node (T : Type) where
  next : Option Nat
  prev : Option Nat
  elem : T
deriving Repr

structure Mem (T : Type) where
  cells : Array (Option (Node T))
  freed : List Nat
deriving Repr

variable {T : Type}

namespace Mem

def empty : Mem T := { cells := #[], freed := [] }

/-- dereference -/
def rd (m : Mem T) (a : Nat) : Except Err (Node T) :=
  if a < m.cells.size then
    match gt m.cells a with
    | some n => .ok n
    | none => .error (.uaf a)
  else .error (.wild a)

/-- `Box::into_raw(Box::new(node))` -/
def alloc (m : Mem T) (n : Node T) : Mem T × Nat :=
  ({ m with cells := m.cells.push (some n) }, m.cells.size)

/-- `(*a).next = v` -/
def setNext (m : Mem T) (a : Nat) (v : Option Nat) : Except Err (Mem T) :=
  match m.rd a with
  | .ok n => .ok { m with cells := st m.cells a (some { n with next := v }) }
  | .error e => .error e

/-- `(*a).prev = v` -/
def setPrev (m : Mem T) (a : Nat) (v : Option Nat) : Except Err (Mem T) :=
  match m.rd a with
  | .ok n => .ok { m with cells := st m.cells a (some { n with prev := v }) }
  | .error e => .error e

/-- `(*a).elem = t`; returns the old element (which the Rust assignment drops) -/
def setElem (m : Mem T) (a : Nat) (t : T) : Except Err (Mem T × T) :=
  match m.rd a with
  | .ok n => .ok ({ m with cells := st m.cells a (some { n with elem := t }) }, n.elem)
  | .error e => .error e

/-- `Box::from_raw(a)`, contents moved out, box freed -/
def free (m : Mem T) (a : Nat) : Except Err (Mem T × Node T) :=
  match m.rd a with
  | .ok n => .ok ({ cells := st m.cells a none, freed := a :: m.freed }, n)
  | .error e => .error e

end Mem

/-- `LinkedList<T>` -/
structure LL (T : Type) where
  mem   : Mem T
  front : Option Nat
  back  : Option Nat
  len   : Nat
deriving Repr

namespace LL

/-- `LinkedList::new()` -/
def new : LL T := { mem := Mem.empty, front := none, back := none, len := 0 }

/-- `push_front(elem)` → cursor -/
def pushFront (s : LL T) (elem : T) : Except Err (LL T × Nat) :=
  let (m0, new) := s.mem.alloc { next := none, prev := none, elem := elem }
  match s.front with
  | some old =>
    -- (*old).next = Some(new); (*new).prev = Some(old);
    match m0.setNext old (some new) with
    | .error e => .error e
    | .ok m1 =>
      match m1.setPrev new (some old) with
      | .error e => .error e
      | .ok m2 => .ok ({ s with mem := m2, front := some new, len := s.len + 1 }, new)
  | none =>
    -- self.back = Some(new)
    .ok ({ s with mem := m0, back := some new, front := some new, len := s.len + 1 }, new)

/-- `if let Some(c) = (*b).prev { (*c).next = (*b).next; }` with `nb1 = *b` -/
def mtfRelinkC (m1 : Mem T) (nb1 : Node T) : Except Err (Mem T) :=
  match nb1.prev with
  | some c => m1.setNext c nb1.next
  | none => .ok m1

/-- `if self.back.unwrap() == *b { debug_assert!((*b).prev.is_none()); self.back = a; }` → new `back` -/
def mtfFixBack (m2 : Mem T) (back : Option Nat) (bk b : Nat) (a : Option Nat) : Except Err (Option Nat) :=
  if bk = b then
    match m2.rd b with
    | .error e => .error e
    | .ok nb2 => if nb2.prev.isNone then .ok a else .error .assertFail
  else .ok back

/-- `move_to_front(&b)` -/
def moveToFront (s : LL T) (b : Nat) : Except Err (LL T) :=
  if s.len = 0 then .ok s
  else if s.front = some b then .ok s
  else
    -- let a = (*b).next;
    match s.mem.rd b with
    | .error e => .error e
    | .ok nb =>
    let a := nb.next
    -- (*a.unwrap()).prev = (*b).prev;
    match a with
    | none => .error .unwrapNone
    | some a' =>
    match s.mem.setPrev a' nb.prev with
    | .error e => .error e
    | .ok m1 =>
    -- if let Some(c) = (*b).prev { (*c).next = (*b).next; }      (b is read again)
    match m1.rd b with
    | .error e => .error e
    | .ok nb1 =>
    match mtfRelinkC m1 nb1 with
    | .error e => .error e
    | .ok m2 =>
    -- if self.back.unwrap() == *b { debug_assert!((*b).prev.is_none()); self.back = a; }
    match s.back with
    | none => .error .unwrapNone
    | some bk =>
    match mtfFixBack m2 s.back bk b a with
    | .error e => .error e
    | .ok back' =>
    -- let x = self.front; (*b).prev = x; (*b).next = None; (*x.unwrap()).next = Some(*b); self.front = Some(*b);
    let x := s.front
    match m2.setPrev b x with
    | .error e => .error e
    | .ok m3 =>
    match m3.setNext b none with
    | .error e => .error e
    | .ok m4 =>
    match x with
    | none => .error .unwrapNone
    | some x' =>
    match m4.setNext x' (some b) with
    | .error e => .error e
    | .ok m5 => .ok { s with mem := m5, back := back', front := some b }

/-- `if let Some(new) = self.back { (*new).prev = None } else { self.front = None }` → memory, new `front` -/
def popFixup (m1 : Mem T) (front back' : Option Nat) : Except Err (Mem T × Option Nat) :=
  match back' with
  | some nw =>
    match m1.setPrev nw none with
    | .error e => .error e
    | .ok m2 => .ok (m2, front)
  | none => .ok (m1, none)

/-- `pop_back()` -/
def popBack (s : LL T) : Except Err (LL T × Option T) :=
  match s.back with
  | none => .ok (s, none)
  | some node =>
    -- let boxed_node = Box::from_raw(node); let result = boxed_node.elem;
    -- (the box stays allocated until the end of the closure)
    match s.mem.rd node with
    | .error e => .error e
    | .ok n =>
    -- self.back = boxed_node.next;
    let back' := n.next
    match popFixup s.mem s.front back' with
    | .error e => .error e
    | .ok (m1, front') =>
    -- self.len -= 1
    if s.len = 0 then .error .underflow
    else
    -- "Box gets implicitly freed here"
    match m1.free node with
    | .error e => .error e
    | .ok (m2, _) => .ok ({ mem := m2, front := front', back := back', len := s.len - 1 }, some n.elem)

def length (s : LL T) : Nat := s.len
def isEmpty (s : LL T) : Bool := s.len == 0

/-- the loop `while self.pop_back().is_some() {}`; returns the popped (hence dropped) elements, oldest first -/
def clearLoop : Nat → LL T → List T → Except Err (LL T × List T)
  | 0, _, _ => .error .outOfFuel
  | fuel + 1, s, acc =>
    match popBack s with
    | .error e => .error e
    | .ok (s', some t) => clearLoop fuel s' (acc ++ [t])
    | .ok (s', none) => .ok (s', acc)

/-- `clear()` (and `Drop::drop`, which only calls it) -/
def clear (s : LL T) : Except Err (LL T × List T) := clearLoop (s.len + 1) s []

/-- `Drop for LinkedList` -/
def drop (s : LL T) : Except Err (LL T × List T) := clear s

/-- `get_front()`: `&self.front.unwrap().as_ref().elem` -/
def getFront (s : LL T) : Except Err T :=
  match s.front with
  | none => .error .unwrapNone
  | some f =>
    match s.mem.rd f with
    | .error e => .error e
    | .ok n => .ok n.elem

/-- `*get_front_mut() = t`; returns the old element -/
def setFront (s : LL T) (t : T) : Except Err (LL T × T) :=
  match s.front with
  | none => .error .unwrapNone
  | some f =>
    match s.mem.setElem f t with
    | .error e => .error e
    | .ok (m, old) => .ok ({ s with mem := m }, old)

/-- operations of a direct history of the list; cursors are the addresses returned by `push_front` -/
inductive Op (T : Type) where
  | pushFront (t : T)
  | moveToFront (cursor : Nat)
  | popBack
  | setFront (t : T)
  | clear

/-- one operation; results other than the state are dropped here (they are covered per operation) -/
def step (s : LL T) : Op T → Except Err (LL T)
  | .pushFront t =>
    match s.pushFront t with
    | .ok (s', _) => .ok s'
    | .error e => .error e
  | .moveToFront c => s.moveToFront c
  | .popBack =>
    match s.popBack with
    | .ok (s', _) => .ok s'
    | .error e => .error e
  | .setFront t =>
    match s.setFront t with
    | .ok (s', _) => .ok s'
    | .error e => .error e
  | .clear =>
    match s.clear with
    | .ok (s', _) => .ok s'
    | .error e => .error e

def run (s : LL T) : List (Op T) → Except Err (LL T)
  | [] => .ok s
  | op :: ops =>
    match s.step op with
    | .error e => .error e
    | .ok s' => run s' ops

end LL

/-! ### the cache -/

/-- contract of `HashMap<K, cursor>`: lookup function + number of bound keys -/
structure AMap (K : Type) where
  get : K → Option Nat
  len : Nat

namespace AMap
variable {K : Type} [DecidableEq K]

def empty : AMap K := { get := fun _ => none, len := 0 }

def insert (m : AMap K) (k : K) (a : Nat) : AMap K :=
  { get := fun k' => if k' = k then some a else m.get k',
    len := if (m.get k).isSome then m.len else m.len + 1 }

def remove (m : AMap K) (k : K) : AMap K :=
  { get := fun k' => if k' = k then none else m.get k',
    len := if (m.get k).isSome then m.len - 1 else m.len }

def containsKey (m : AMap K) (k : K) : Bool := (m.get k).isSome

end AMap

/-- `LRU<Key, Value>`; `dropped` is a ghost log of the values whose destructor has run -/
structure Lru (K V : Type) where
  list    : LL (K × V)
  amap    : AMap K
  cap     : Nat
  dropped : List V

namespace Lru
variable {K V : Type} [DecidableEq K]

/-- `new_with_capacity(capacity)`; `debug_assert!(capacity > 0)` -/
def new (cap : Nat) : Except Err (Lru K V) :=
  if cap = 0 then .error .assertFail
  else .ok { list := LL.new, amap := AMap.empty, cap := cap, dropped := [] }

/-- the eviction block of `push`: `if self.access_map.len() == self.capacity { … }` -/
def evictIfFull (s : Lru K V) : Except Err (LL (K × V) × AMap K × List V) :=
  if s.amap.len = s.cap then
    -- debug_assert!(!self.access_map.is_empty());
    if s.amap.len = 0 then .error .assertFail
    else
    -- if let Some((evicted_key, _)) = self.lru_list.pop_back() { self.access_map.remove(&evicted_key); }
    match s.list.popBack with
    | .error e => .error e
    | .ok (l1, some (ek, ev)) => .ok (l1, s.amap.remove ek, s.dropped ++ [ev])
    | .ok (l1, none) => .ok (l1, s.amap, s.dropped)
  else .ok (s.list, s.amap, s.dropped)

/-- `push(&key, value)` -/
def push (s : Lru K V) (k : K) (v : V) : Except Err (Lru K V) :=
  -- debug_assert!(self.lru_list.len() <= self.capacity);
  if s.list.len > s.cap then .error .assertFail
  else
  match s.amap.get k with
  | some handle =>
    -- self.lru_list.move_to_front(&handle); *self.lru_list.get_front_mut() = (*key, value);
    match s.list.moveToFront handle with
    | .error e => .error e
    | .ok l1 =>
    match l1.setFront (k, v) with
    | .error e => .error e
    | .ok (l2, old) => .ok { s with list := l2, dropped := s.dropped ++ [old.2] }
  | none =>
    match evictIfFull s with
    | .error e => .error e
    | .ok (l1, am1, dr1) =>
    -- let handle = self.lru_list.push_front((*key, value)); self.access_map.insert(*key, handle);
    match l1.pushFront (k, v) with
    | .error e => .error e
    | .ok (l2, handle) => .ok { s with list := l2, amap := am1.insert k handle, dropped := dr1 }

/-- `contains(&key)` -/
def contains (s : Lru K V) (k : K) : Bool := s.amap.containsKey k

/-- `get(&key)` -/
def get (s : Lru K V) (k : K) : Except Err (Lru K V × Option V) :=
  match s.amap.get k with
  | some handle =>
    match s.list.moveToFront handle with
    | .error e => .error e
    | .ok l1 =>
    match l1.getFront with
    | .error e => .error e
    | .ok e => .ok ({ s with list := l1 }, some e.2)
  | none => .ok (s, none)

/-- `len()`: `assert_eq!(self.lru_list.len(), self.access_map.len())` -/
def len (s : Lru K V) : Except Err Nat :=
  if s.list.len = s.amap.len then .ok s.list.len else .error .assertFail

/-- `is_empty()` -/
def isEmpty (s : Lru K V) : Except Err Bool :=
  match s.len with
  | .ok n => .ok (n == 0)
  | .error e => .error e

/-- `get_front()` -/
def getFront (s : Lru K V) : Except Err (Option (K × V)) :=
  match s.isEmpty with
  | .error e => .error e
  | .ok true => .ok none
  | .ok false =>
    match s.list.getFront with
    | .error e => .error e
    | .ok e => .ok (some e)

/-- `get_front_mut()` and assignment of `v` through the returned reference -/
def setFront (s : Lru K V) (v : V) : Except Err (Lru K V × Option (K × V)) :=
  match s.isEmpty with
  | .error e => .error e
  | .ok true => .ok (s, none)
  | .ok false =>
    match s.list.getFront with
    | .error e => .error e
    | .ok (k, _) =>
      match s.list.setFront (k, v) with
      | .error e => .error e
      | .ok (l1, old) => .ok ({ s with list := l1, dropped := s.dropped ++ [old.2] }, some old)

/-- `clear()` -/
def clear (s : Lru K V) : Except Err (Lru K V) :=
  match s.list.clear with
  | .error e => .error e
  | .ok (l1, popped) => .ok { s with list := l1, amap := AMap.empty, dropped := s.dropped ++ popped.map (·.2) }

/-- dropping the cache drops `lru_list` (→ `clear`) and the map (cursors are plain pointers) -/
def drop (s : Lru K V) : Except Err (Lru K V) := clear s

/-- one operation of a history (same `Op`/`Out` as the L0 model) -/
def step (s : Lru K V) : LruL0.Op K V → Except Err (Lru K V × LruL0.Out K V)
  | .push k v =>
    match s.push k v with
    | .ok s' => .ok (s', .unit)
    | .error e => .error e
  | .get k =>
    match s.get k with
    | .ok (s', r) => .ok (s', .val r)
    | .error e => .error e
  | .contains k => .ok (s, .bool (s.contains k))
  | .front =>
    match s.getFront with
    | .ok r => .ok (s, .entry r)
    | .error e => .error e
  | .setFront v =>
    match s.setFront v with
    | .ok (s', r) => .ok (s', .entry r)
    | .error e => .error e
  | .clear =>
    match s.clear with
    | .ok s' => .ok (s', .unit)
    | .error e => .error e
  | .len =>
    match s.len with
    | .ok n => .ok (s, .nat n)
    | .error e => .error e

/-- a whole history; the first error (use after free, failed unwrap/assertion, …) aborts it -/
def run (s : Lru K V) : List (LruL0.Op K V) → Except Err (Lru K V × List (LruL0.Out K V))
  | [] => .ok (s, [])
  | op :: ops =>
    match s.step op with
    | .error e => .error e
    | .ok (s', o) =>
      match run s' ops with
      | .error e => .error e
      | .ok (s'', os) => .ok (s'', o :: os)

end Lru

end Tbx.LruL1
