import Tbx.Model.Arr
/-
Executable model of `src/count_min_sketch.rs` (CountMinSketch).

  counter : Vec<Vec<u32>>  (k rows of m counters)  -> `Array (Array Nat)`
  m, k, len

The two 64-bit halves of `xxh3_128_with_seed(key, seed)` are INPUTS `h1 h2` (< 2^64).  `get_buckets`
is mirrored with its special case `k == 1` and the wrapping u64 arithmetic of the general case;
`insert` adds saturating at u32::MAX, `estimate` folds `min` from u32::MAX.  The float formulas
`optimal_k`, `optimal_m` are not modelled: `init k m` takes the resulting dimensions.
-/
namespace Tbx.CountMin

def u32Max : Nat := 4294967295
def two64 : Nat := 18446744073709551616

structure Sketch where
  counter : Array (Array Nat)
  m : Nat
  k : Nat
  len : Nat
deriving Repr

def init (k m : Nat) : Sketch :=
  { counter := Array.replicate k (Array.replicate m 0), m := m, k := k, len := 0 }

/-- `get_buckets` -/
def buckets (k m h1 h2 : Nat) : List Nat :=
  if k = 1 then [h1 % m]
  else (List.range k).map fun i => ((h1 + (i * h2) % two64) % two64) % m

/-- `u32::saturating_add(1)` -/
def satInc (v : Nat) : Nat := if v + 1 > u32Max then u32Max else v + 1

def cellAt (c : Array (Array Nat)) (r b : Nat) : Nat := gt (gt c r) b

/-- `indices.iter().enumerate().for_each(|(k,&b)| counter[k][b] = counter[k][b].saturating_add(1))` -/
def bumpRows : Array (Array Nat) → List Nat → Nat → Array (Array Nat)
  | c, [], _ => c
  | c, b :: bs, r => bumpRows (st c r (st (gt c r) b (satInc (cellAt c r b)))) bs (r + 1)

/-- `insert` -/
def insert (s : Sketch) (h1 h2 : Nat) : Sketch :=
  { s with counter := bumpRows s.counter (buckets s.k s.m h1 h2) 0, len := s.len + 1 }

/-- `indices.iter().enumerate().map(|(k,b)| counter[k][*b])` -/
def rowVals (c : Array (Array Nat)) : List Nat → Nat → List Nat
  | [], _ => []
  | b :: bs, r => cellAt c r b :: rowVals c bs (r + 1)

/-- `estimate`: `.fold(u32::MAX, |a,b| a.min(b))` -/
def estimate (s : Sketch) (h1 h2 : Nat) : Nat :=
  (rowVals s.counter (buckets s.k s.m h1 h2) 0).foldl Nat.min u32Max

end Tbx.CountMin
