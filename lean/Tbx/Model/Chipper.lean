import Tbx.Model.Arr
import Tbx.Model.InertialFlow
import Tbx.Model.Bincode
import Tbx.Gen.Fns
/-
Executable model of the `chipper` binary: `src/chipper/bin/main.rs` (job queue per level, best of the
four axes, id updates, edge split, padding of small cells, level loop), `src/chipper/bin/serialize.rs`
(the three output files), the reading side of `src/io.rs` (through `Tbx.Bincode`).

  flowCmp            `inertial_flow::flow_cmp`: flow, then the LARGER balance (the f64 quotient
                     min(|L|,|R|)/(|L|+|R|) is compared as an exact rational by cross multiplication;
                     for cells below 2^26 nodes correctly rounded division is strictly monotone on these
                     quotients, so the two orders agree - a documented assumption, cross-checked on every
                     case by the byte comparison of the outputs)
  minOp / minBy      rayon 1.12 `min_by` = `reduce_with(|a, b| if f(&a,&b) == Greater { b } else { a })`,
                     as the left fold in axis order (`Tbx.Props.C06.min_by_leftmost`: every reduction
                     tree gives the same element)
  bestOf             `.filter(is_ok).map(unwrap).min_by(flow_cmp)`; a panicking task panics the run
  bestSeq            the four `sub_step`s with the shared bound at its initial value, the cell's node
                     count, for every axis (sequential reference: by C04 a run the bound aborts has a
                     larger flow than a finished one, so it can never be the winner)
  bestPar            the same with an arbitrary observed bound per axis (C06)
  mapAt              `ids.iter().for_each(|id| partition_ids.get_mut(*id).f())`
  processJob         lines 128-171 of main.rs for `Some(result)`: child ids (through the GENERATED
                     `Tbx.Gen.pidMakeLeftChild` …), `partition` of the edges by the side of the source, next
                     jobs / padding by `recursion_depth - current_level - 1`
  levelStep          the `par_iter_mut().enumerate().flat_map(..).collect()` of one level, as the sequential
                     fold in job order (jobs touch disjoint ids: `Tbx.Props.C06.jobs_disjoint`)
  levels             `while !queue.is_empty() && current_level < recursion_depth`; the fuel is
                     `recursion_depth - current_level`, so fuel 0 IS the failing loop condition
  run                `main` from the decoded inputs to `partition_ids_vec`; also returns the queues of all
                     levels (ghost, what the hook logs to TOOLBOX_RS_VERIF_JOBLOG)
  partitionBytes / assignmentCsv / cutCsv     `serialize.rs`

Ids are unbounded `Nat`; `Tbx.Props.C05.id_path` shows they stay below 2^32 for depth ≤ 31 (the command
line's range), so the u32 arithmetic of the Rust never wraps.  `st` ignores an out-of-range index where
the Rust would panic (`UnsafeSlice` indexes a slice); the theorems carry `ids < n`, the driver checks it.
`none` = the run panics (a sub-step panicked).
-/
namespace Tbx.Chipper
open Tbx Tbx.InertialFlow Tbx.Gen

abbrev Edge := Nat × Nat

/-- one entry of `current_job_queue`: (edges whose source lies in the cell, node ids of the cell) -/
structure Job where
  edges : List Edge
  ids   : List Nat
deriving Repr, Inhabited, DecidableEq

/-- `sub_step` with the coordinates fixed: edges, ids, axis, size of contraction, observed bound -/
abbrev Step := List Edge → List Nat → Nat → Nat → Int → StepOut

/-! ### best of four -/

/-- `flow_cmp(a, b)` -/
def flowCmp (a b : FlowRes) : Ordering :=
  if a.flow = b.flow then
    -- `b.balance.partial_cmp(&a.balance)`: b.num/b.den vs a.num/a.den
    compare (balanceNum b * balanceDen a) (balanceNum a * balanceDen b)
  else compare a.flow b.flow

/-- the closure rayon's `min_by` reduces with -/
def minOp (a b : FlowRes) : FlowRes := if flowCmp a b = .gt then b else a

/-- `min_by(flow_cmp)` in list (= axis) order -/
def minBy : List FlowRes → Option FlowRes
  | [] => none
  | x :: xs => some (xs.foldl minOp x)

inductive Best where
  | panic                 -- a sub-step panicked
  | none                  -- `best_max_flow.is_none()`: every axis was stopped by the bound
  | some (r : FlowRes)
deriving Repr, Inhabited, DecidableEq

def okOf : StepOut → Option FlowRes
  | .ok r => some r
  | _ => Option.none

def isPanic : StepOut → Bool
  | .panic => true
  | _ => false

/-- `.filter(|r| r.is_ok()).map(|r| r.unwrap()).min_by(flow_cmp)` over the outcomes in axis order -/
def bestOf (outs : List StepOut) : Best :=
  if outs.any isPanic then .panic
  else
    match minBy (outs.filterMap okOf) with
    | Option.none => .none
    | Option.some r => .some r

/-- outcomes of the four axes when axis `a` observes the bound `obs a` -/
def axisOuts (step : Step) (k : Nat) (job : Job) (obs : Nat → Int) : List StepOut :=
  (List.range 4).map fun a => step job.edges job.ids a k (obs a)

/-- concurrent semantics: axis `a` sees `obs a` -/
def bestPar (step : Step) (kOf : Nat → Nat) (obs : Nat → Int) (job : Job) : Best :=
  bestOf (axisOuts step (kOf job.ids.length) job obs)

/-- sequential reference: every axis sees the initial bound, the cell's node count -/
def bestSeq (step : Step) (kOf : Nat → Nat) (job : Job) : Best :=
  bestPar step kOf (fun _ => (job.ids.length : Int)) job

/-! ### one job -/

/-- `ids.iter().for_each(|id| partition_ids.get_mut(*id).f())` -/
def mapAt (f : Nat → Nat) (pid : Array Nat) : List Nat → Array Nat
  | [] => pid
  | i :: rest => mapAt f (st pid i (f (gt pid i))) rest

structure Cfg where
  r   : Nat               -- recursion_depth
  m   : Nat               -- minimum_cell_size
  kOf : Nat → Nat         -- size_of_contraction as a function of the cell's node count

/-- lines 128-171 of main.rs: the ids and the next jobs after the best bisection `res` of `job` -/
def processJob (cfg : Cfg) (lvl : Nat) (pid : Array Nat) (job : Job) (res : FlowRes) : Array Nat × List Job :=
  let pid1 := mapAt pidMakeLeftChild pid res.left
  let pid2 := mapAt pidMakeRightChild pid1 res.right
  let leftEdges := job.edges.filter fun e => pidIsLeftChild (gt pid2 e.1)
  let rightEdges := job.edges.filter fun e => !pidIsLeftChild (gt pid2 e.1)
  let diff := cfg.r - lvl - 1
  let l : Array Nat × List Job :=
    if res.left.length > cfg.m then (pid2, [{ edges := leftEdges, ids := res.left }])
    else (mapAt (fun x => pidLeftmostDescendant x diff) pid2 res.left, [])
  let r : Array Nat × List Job :=
    if res.right.length > cfg.m then (l.1, [{ edges := rightEdges, ids := res.right }])
    else (mapAt (fun x => pidRightmostDescendant x diff) l.1 res.right, [])
  (r.1, l.2 ++ r.2)

/-! ### the level loop -/

/-- the jobs of one level in queue order, starting at index `idx`; `best lvl idx job` is the outcome of
    the four-axis search of that job -/
def levelStep (cfg : Cfg) (best : Nat → Nat → Job → Best) (lvl : Nat) :
    Nat → Array Nat → List Job → Option (Array Nat × List Job)
  | _, pid, [] => some (pid, [])
  | idx, pid, job :: rest =>
    match best lvl idx job with
    | .panic => none
    | .none => levelStep cfg best lvl (idx + 1) pid rest          -- `return Vec::new()`
    | .some res =>
      let p := processJob cfg lvl pid job res
      match levelStep cfg best lvl (idx + 1) p.1 rest with
      | none => none
      | some q => some (q.1, p.2 ++ q.2)

/-- `while !current_job_queue.is_empty() && current_level < recursion_depth` with
    `fuel = recursion_depth - current_level`; second component: the queues of the levels processed -/
def levels (cfg : Cfg) (best : Nat → Nat → Job → Best) :
    Nat → Nat → Array Nat → List Job → Option (Array Nat × List (List Job))
  | 0, _, pid, _ => some (pid, [])
  | fuel + 1, lvl, pid, queue =>
    if queue.isEmpty then some (pid, [])
    else
      match levelStep cfg best lvl 0 pid queue with
      | none => none
      | some p =>
        match levels cfg best fuel (lvl + 1) p.1 p.2 with
        | none => none
        | some q => some (q.1, queue :: q.2)

/-- `main`: ids of all `n` nodes (and the job queues of all levels) -/
def runWith (cfg : Cfg) (best : Nat → Nat → Job → Best) (edges : List Edge) (n : Nat) :
    Option (Array Nat × List (List Job)) :=
  levels cfg best cfg.r 0 (Array.replicate n 1) [{ edges := edges, ids := List.range n }]

/-- the sequential reference -/
def chipper (step : Step) (cfg : Cfg) (edges : List Edge) (n : Nat) : Option (Array Nat × List (List Job)) :=
  runWith cfg (fun _ _ job => bestSeq step cfg.kOf job) edges n

/-- every axis of every job (level, index in the queue) observes the bound `sched lvl idx job axis` -/
def parChipper (step : Step) (cfg : Cfg) (sched : Nat → Nat → Job → Nat → Int) (edges : List Edge) (n : Nat) :
    Option (Array Nat × List (List Job)) :=
  runWith cfg (fun lvl idx job => bestPar step cfg.kOf (sched lvl idx job) job) edges n

/-! ### the three output files (`serialize.rs`) -/

/-- `binary_partition_file`: `Vec<PartitionID>` = length, then each u32 as a varint -/
def partitionBytes (pid : Array Nat) : List Nat := Bincode.encodeVec Bincode.encodeVarint pid.toList

def pad6 (n : Nat) : String :=
  let s := toString n
  String.ofList (List.replicate (6 - s.length) '0') ++ s

def stripZeros (s : String) : String := String.ofList (s.toList.reverse.dropWhile (· == '0')).reverse

/-- `(x as f64 / 1000000.).to_string()` for an i32 `x`: Rust prints the shortest decimal that reads
    back as the same f64.  `x / 10^6` has at most 10 significant digits; decimals of at most 15
    significant digits are mapped injectively to binary64 and the division is correctly rounded, so
    that shortest decimal is `x / 10^6` itself, without trailing zeros, never in exponent notation. -/
def fmtMicro (x : Int) : String :=
  let a := x.natAbs
  let ip := a / 1000000
  let fp := a % 1000000
  let sign := if x < 0 then "-" else ""
  if fp = 0 then sign ++ toString ip
  else sign ++ toString ip ++ "." ++ stripZeros (pad6 fp)

def coordText (c : Coord) : String := fmtMicro c.lat ++ ", " ++ fmtMicro c.lon

/-- the rows `assignment_csv` writes: (id, coordinate) of every node, in node order -/
def assignmentRows (pid : Array Nat) (coord : Nat → Coord) : List (Nat × Coord) :=
  (List.range pid.size).map fun i => (gt pid i, coord i)

/-- `assignment_csv` -/
def assignmentCsv (pid : Array Nat) (coord : Nat → Coord) : String :=
  (assignmentRows pid coord).foldl (fun acc row => acc ++ toString row.1 ++ ", " ++ coordText row.2 ++ "\n")
    "partition_id, latitude, longitude\n"

/-- the edges `cut_csv` reports: end points with different ids, in file order -/
def cutEdges (edges : List Edge) (pid : Array Nat) : List Edge :=
  edges.filter fun e => gt pid e.1 != gt pid e.2

/-- the rows `cut_csv` writes: source point, target point of every reported edge -/
def cutRows (edges : List Edge) (pid : Array Nat) (coord : Nat → Coord) : List (Coord × Coord) :=
  (cutEdges edges pid).map fun e => (coord e.1, coord e.2)

/-- `cut_csv` -/
def cutCsv (edges : List Edge) (pid : Array Nat) (coord : Nat → Coord) : String :=
  (cutRows edges pid coord).foldl
    (fun acc r => acc ++ coordText r.1 ++ "\n" ++ coordText r.2 ++ "\n")
    "latitude, longitude\n"

end Tbx.Chipper
