/-
Byte-exact model of the bincode 2 "standard" configuration (little endian, variable-length
integers, no size limit) for the types graph_plier writes and chipper/scaffold read:

  Vec<InputEdge<usize>>     src/graph_plier/bin/main.rs:38-42, src/io.rs:22-42, src/edge.rs
  Vec<FPCoordinate>         src/graph_plier/bin/main.rs:44-46, src/geometry.rs:27-31
  Vec<TrivialEdge>          (read side only: `read_graph_into_trivial_edges` decodes InputEdge<usize>
                             and projects source/target)

Layout (confirmed by dumping the real encoder, see DESIGN 7/C07):
  unsigned varint  n < 251            -> [n]
                   n < 2^16           -> 251, 2 bytes little endian
                   n < 2^32           -> 252, 4 bytes little endian
                   n < 2^64           -> 253, 8 bytes little endian
  i32              zigzag to u32 ((n << 1) ^ (n >> 31)), then the unsigned varint (markers up to 252)
  struct           fields in declaration order, no framing
  Vec<T>           length as u64 varint, then the elements

Decoding mirrors bincode's `varint_decode_*`: a marker announces the width, no check that the
shortest form was used; marker 253 is an error for 32-bit targets, 254/255 always.
Trailing bytes after the value are left in the reader (decode_from_std_read does not look at them).

Bytes are modelled as `Nat` (the encoder only produces values < 256, see `Proofs/BincodeRoundtrip`).
-/
namespace Tbx.Bincode

/-- `toolbox_rs::edge::InputEdge<usize>` -/
structure InputEdge where
  source : Nat
  target : Nat
  data   : Nat
deriving DecidableEq, Repr, Inhabited

/-- `toolbox_rs::geometry::FPCoordinate` (field order lat, lon) -/
structure FPCoordinate where
  lat : Int
  lon : Int
deriving DecidableEq, Repr, Inhabited

/-- `k` bytes of `n`, little endian -/
def leBytes : Nat → Nat → List Nat
  | 0, _ => []
  | k + 1, n => (n % 256) :: leBytes k (n / 256)

/-- read `k` bytes little endian; `none` = UnexpectedEnd -/
def readLE : Nat → List Nat → Option (Nat × List Nat)
  | 0, bs => some (0, bs)
  | _ + 1, [] => none
  | k + 1, b :: bs =>
    match readLE k bs with
    | some (v, r) => some (b + 256 * v, r)
    | none => none

/-- `varint_encode_u64` / `varint_encode_usize` (and `_u32` for values below 2^32) -/
def encodeVarint (n : Nat) : List Nat :=
  if n < 251 then [n]
  else if n < 65536 then 251 :: leBytes 2 n
  else if n < 4294967296 then 252 :: leBytes 4 n
  else 253 :: leBytes 8 n

/-- `varint_decode_u64` / `varint_decode_usize` -/
def decodeVarint : List Nat → Option (Nat × List Nat)
  | [] => none
  | b :: rest =>
    if b < 251 then some (b, rest)
    else if b = 251 then readLE 2 rest
    else if b = 252 then readLE 4 rest
    else if b = 253 then readLE 8 rest
    else none

/-- `varint_decode_u32`: a 64-bit marker is `invalid_varint_discriminant` -/
def decodeVarintU32 : List Nat → Option (Nat × List Nat)
  | [] => none
  | b :: rest =>
    if b < 251 then some (b, rest)
    else if b = 251 then readLE 2 rest
    else if b = 252 then readLE 4 rest
    else none

/-- zigzag of an i32: `if v < 0 { !(v as u32) * 2 + 1 } else { (v as u32) * 2 }` -/
def zigzag (i : Int) : Nat :=
  if 0 ≤ i then 2 * i.toNat else 2 * (-i).toNat - 1

/-- `if n % 2 == 0 { (n / 2) as i32 } else { !(n / 2) as i32 }` -/
def unzigzag (n : Nat) : Int :=
  if n % 2 = 0 then Int.ofNat (n / 2) else - Int.ofNat (n / 2) - 1

def encodeI32 (i : Int) : List Nat := encodeVarint (zigzag i)

def decodeI32 (bs : List Nat) : Option (Int × List Nat) :=
  match decodeVarintU32 bs with
  | some (n, r) => some (unzigzag n, r)
  | none => none

/-- derive(Encode) for InputEdge<usize>: source, target, data -/
def encodeEdge (e : InputEdge) : List Nat :=
  encodeVarint e.source ++ (encodeVarint e.target ++ encodeVarint e.data)

def decodeEdge (bs : List Nat) : Option (InputEdge × List Nat) :=
  match decodeVarint bs with
  | none => none
  | some (s, r1) =>
    match decodeVarint r1 with
    | none => none
    | some (t, r2) =>
      match decodeVarint r2 with
      | none => none
      | some (d, r3) => some (⟨s, t, d⟩, r3)

/-- derive(Encode) for FPCoordinate: lat, lon -/
def encodeCoord (c : FPCoordinate) : List Nat := encodeI32 c.lat ++ encodeI32 c.lon

def decodeCoord (bs : List Nat) : Option (FPCoordinate × List Nat) :=
  match decodeI32 bs with
  | none => none
  | some (la, r1) =>
    match decodeI32 r1 with
    | none => none
    | some (lo, r2) => some (⟨la, lo⟩, r2)

/-- the elements of a Vec, one after the other -/
def encodeSeq {α : Type} (enc : α → List Nat) : List α → List Nat
  | [] => []
  | x :: xs => enc x ++ encodeSeq enc xs

/-- `impl Encode for Vec<T>`: length, then the elements -/
def encodeVec {α : Type} (enc : α → List Nat) (xs : List α) : List Nat :=
  encodeVarint xs.length ++ encodeSeq enc xs

/-- the `for _ in 0..len` loop of `impl Decode for Vec<T>` -/
def decodeSeq {α : Type} (dec : List Nat → Option (α × List Nat)) : Nat → List Nat → Option (List α × List Nat)
  | 0, bs => some ([], bs)
  | n + 1, bs =>
    match dec bs with
    | none => none
    | some (x, r) =>
      match decodeSeq dec n r with
      | none => none
      | some (xs, r') => some (x :: xs, r')

def decodeVec {α : Type} (dec : List Nat → Option (α × List Nat)) (bs : List Nat) : Option (List α × List Nat) :=
  match decodeVarint bs with
  | none => none
  | some (n, r) => decodeSeq dec n r

/-- what graph_plier writes to `<graph>.toolbox` -/
def encodeEdges (es : List InputEdge) : List Nat := encodeVec encodeEdge es
/-- what graph_plier writes to `<coordinates>.toolbox` -/
def encodeCoords (cs : List FPCoordinate) : List Nat := encodeVec encodeCoord cs

/-- `io::read_vec_from_file::<InputEdge<usize>>` (value and unread rest) -/
def decodeEdges (bs : List Nat) : Option (List InputEdge × List Nat) := decodeVec decodeEdge bs
/-- `io::read_vec_from_file::<FPCoordinate>` -/
def decodeCoords (bs : List Nat) : Option (List FPCoordinate × List Nat) := decodeVec decodeCoord bs

/-- `io::read_graph_into_trivial_edges`: decode InputEdge<usize>, keep (source, target) -/
def decodeTrivialEdges (bs : List Nat) : Option (List (Nat × Nat)) :=
  match decodeEdges bs with
  | none => none
  | some (es, _) => some (es.map fun e => (e.source, e.target))

/-- values that fit the Rust types -/
def EdgeFits (e : InputEdge) : Prop :=
  e.source < 18446744073709551616 ∧ e.target < 18446744073709551616 ∧ e.data < 18446744073709551616

def I32 (i : Int) : Prop := -2147483648 ≤ i ∧ i ≤ 2147483647

def CoordFits (c : FPCoordinate) : Prop := I32 c.lat ∧ I32 c.lon

instance (e : InputEdge) : Decidable (EdgeFits e) := by unfold EdgeFits; exact inferInstance
instance (i : Int) : Decidable (I32 i) := by unfold I32; exact inferInstance
instance (c : FPCoordinate) : Decidable (CoordFits c) := by unfold CoordFits; exact inferInstance

end Tbx.Bincode
