import Tbx.Model.Arr
/-
Executable model of the parts shared by the three max-flow solvers
(`src/edmonds_karp.rs`, `src/ford_fulkerson.rs`, `src/dinic.rs`, `src/static_graph.rs`, and the
single-source/single-target use of `src/dfs.rs` / `src/bfs.rs` with a capacity filter).

  Graph            : StaticGraph<ResidualEdgeData> as its two arrays (node_array, edge_array)
  residualEdges    : append reversed zero-capacity copies, sort, `dedup_by` summing parallel capacities
  csr              : `StaticGraph::new_from_sorted_list`
  findEdge         : `find_edge_unchecked`   (`none` where the Rust returns EdgeID::MAX and then panics)
  Search / search  : `DFS::run_with_filter` (pop = popBack) and `BFS::run_with_filter` (pop = popFront)
                     for sources = [s], targets = [t], filter = `capacity <= 0`
  pathIter         : `PathIter` (target → … → source)
  Solver / run     : EdmondsKarp (uses the DFS struct) and FordFulkerson (uses the BFS struct)
  sweep            : the reachability sweep of `assignment`

Node ids are `Nat`, capacities `Int` (the Rust uses i32; the generators keep all sums far below 2^31).
`sort_unstable` / `sort_unstable_by` / `sort` are modelled by their contract through an insertion sort
with the same comparator (the merged result does not depend on the order among equal keys).
All loops are structurally recursive on a count or on explicit fuel; `none` = out of fuel or a branch in
which the Rust would panic.
-/
namespace Tbx.Flow

structure Edge where
  src : Nat
  tgt : Nat
  cap : Int
deriving Repr, Inhabited, DecidableEq

/-- `INVALID_NODE_ID` = `NodeID::MAX` = `usize::MAX` -/
def INV : Nat := 18446744073709551615

structure Graph where
  first : Array Nat      -- node_array[i].first_edge, including the sentinel
  tgt   : Array Nat      -- edge_array[e].target
  cap   : Array Int      -- edge_array[e].data.capacity
deriving Repr, Inhabited

namespace Graph
def numNodes (g : Graph) : Nat := g.first.size - 1
def numEdges (g : Graph) : Nat := g.tgt.size
def beginEdges (g : Graph) (u : Nat) : Nat := gt g.first u
def endEdges (g : Graph) (u : Nat) : Nat := gt g.first (u + 1)
def deg (g : Graph) (u : Nat) : Nat := g.endEdges u - g.beginEdges u

/-- the `for edge in edge_range(s)` loop of `find_edge_unchecked`: `k` edges starting at `e` -/
def findFrom (g : Graph) (t : Nat) : Nat → Nat → Option Nat
  | _, 0 => none
  | e, k + 1 => if gt g.tgt e = t then some e else findFrom g t (e + 1) k

/-- `find_edge_unchecked(s, t)`; `none` stands for `EdgeID::MAX` -/
def findEdge (g : Graph) (s t : Nat) : Option Nat :=
  if s ≥ g.numNodes then none else findFrom g t (g.beginEdges s) (g.deg s)

/-- (source, target, capacity) of every edge, in edge order — what `verif_residual()` returns -/
def triplesFrom (g : Graph) (u : Nat) : Nat → Nat → List (Nat × Nat × Int)
  | _, 0 => []
  | e, k + 1 => (u, gt g.tgt e, gt g.cap e) :: triplesFrom g u (e + 1) k

def triples (g : Graph) : List (Nat × Nat × Int) :=
  (List.range g.numNodes).flatMap fun u => triplesFrom g u (g.beginEdges u) (g.deg u)
end Graph

/-! ### residual graph construction (`from_edge_list`) -/

/-- `extend_from_within(..)` + `reverse()` + `capacity = 0` on the second half -/
def extend (es : List Edge) : List Edge := es ++ es.map fun e => { src := e.tgt, tgt := e.src, cap := 0 }

/-- comparator of Dinic's `sort_unstable_by` (as `≤`) -/
def leST (a b : Edge) : Bool := if a.src = b.src then decide (a.tgt ≤ b.tgt) else decide (a.src ≤ b.src)

/-- derived `Ord` of `InputEdge<ResidualEdgeData>`: lexicographic (source, target, capacity) -/
def leOrd (a b : Edge) : Bool :=
  if a.src ≠ b.src then decide (a.src < b.src)
  else if a.tgt ≠ b.tgt then decide (a.tgt < b.tgt) else decide (a.cap ≤ b.cap)

def insertSorted (le : Edge → Edge → Bool) (x : Edge) : List Edge → List Edge
  | [] => [x]
  | y :: ys => if le x y then x :: y :: ys else y :: insertSorted le x ys

def sortBy (le : Edge → Edge → Bool) : List Edge → List Edge
  | [] => []
  | x :: xs => insertSorted le x (sortBy le xs)

/-- `dedup_by(|a, b| parallel → { b.cap += a.cap; true })`: `cur` is the retained element `b` -/
def dedupInto (cur : Edge) : List Edge → List Edge
  | [] => [cur]
  | a :: rest =>
    if a.src = cur.src ∧ a.tgt = cur.tgt then dedupInto { cur with cap := cur.cap + a.cap } rest
    else cur :: dedupInto a rest

def dedupMerge : List Edge → List Edge
  | [] => []
  | e :: es => dedupInto e es

/-- `number_of_nodes` as computed at the top of `new_from_sorted_list` (the largest id) -/
def maxId (es : List Edge) : Nat := es.foldl (fun m e => max e.tgt (max e.src m)) 0

/-- `while offset != input.len() && input[offset].source() == i { offset += 1 }` -/
def advance (inp : Array Edge) (i : Nat) : Nat → Nat → Nat
  | 0, off => off
  | f + 1, off => if off ≠ inp.size ∧ (gt inp off).src = i then advance inp i f (off + 1) else off

/-- `for i in 0..number_of_nodes { …; node_array.push(offset) }`, `k` iterations left -/
def buildNodes (inp : Array Edge) : Nat → Nat → Nat → Array Nat → Array Nat
  | 0, _, _, acc => acc
  | k + 1, i, off, acc =>
    let off' := advance inp i (inp.size - off) off
    buildNodes inp k (i + 1) off' (acc.push off')

/-- `StaticGraph::new_from_sorted_list` -/
def csr (sorted : List Edge) : Graph :=
  let inp := sorted.toArray
  let nn := maxId sorted
  { first := (buildNodes inp nn 0 0 #[0]).push inp.size,
    tgt := inp.map (·.tgt),
    cap := inp.map (·.cap) }

/-- residual graph of Dinic: sort by (source, target), merge parallels, `new_from_sorted_list` -/
def residualDinic (es : List Edge) : Graph := csr (dedupMerge (sortBy leST (extend es)))

/-- residual graph of EdmondsKarp / FordFulkerson: `sort_unstable()` by the derived `Ord`, merge
    parallels, `StaticGraph::new` (which sorts once more) -/
def residualEK (es : List Edge) : Graph := csr (sortBy leOrd (dedupMerge (sortBy leOrd (extend es))))

/-! ### single-source single-target search with the filter `capacity <= 0` -/

structure Search where
  parents : Array Nat
  wl      : List Nat          -- stack / queue contents, oldest first
deriving Repr, Inhabited

/-- `Vec::pop` -/
def popBack (l : List Nat) : Option (Nat × List Nat) :=
  match l.getLast? with
  | none => none
  | some x => some (x, l.dropLast)

/-- `VecDeque::pop_front` -/
def popFront : List Nat → Option (Nat × List Nat)
  | [] => none
  | x :: r => some (x, r)

inductive Relax where
  | found (s : Search)
  | cont (s : Search)
deriving Inhabited

/-- the `for edge in graph.edge_range(node)` loop of `run_with_filter` -/
def relax (g : Graph) (target node : Nat) (nodeIsSource : Bool) : Nat → Nat → Search → Relax
  | _, 0, st => .cont st
  | e, k + 1, st =>
    if gt g.cap e ≤ 0 then relax g target node nodeIsSource (e + 1) k st
    else
      let v := gt g.tgt e
      if gt st.parents v ≠ INV ∨ (nodeIsSource = true ∧ gt st.parents v = v) then
        relax g target node nodeIsSource (e + 1) k st
      else
        let ps := Tbx.st st.parents v node
        if v = target then .found { st with parents := ps }
        else relax g target node nodeIsSource (e + 1) k { parents := ps, wl := st.wl ++ [v] }

/-- the `while let Some(node) = pop()` loop; result `true` = target found -/
def searchLoop (g : Graph) (target : Nat) (pop : List Nat → Option (Nat × List Nat)) :
    Nat → Search → Option (Bool × Search)
  | 0, _ => none
  | fuel + 1, st =>
    match pop st.wl with
    | none => some (false, st)
    | some (node, rest) =>
      let nodeIsSource := gt st.parents node == node
      match relax g target node nodeIsSource (g.beginEdges node) (g.deg node) { st with wl := rest } with
      | .found st' => some (true, st')
      | .cont st' => searchLoop g target pop fuel st'

/-- `run_with_filter` for sources = [s], targets = [t] -/
def search (g : Graph) (s t : Nat) (pop : List Nat → Option (Nat × List Nat)) : Option (Bool × Search) :=
  searchLoop g t pop (g.numNodes + 1)
    { parents := Tbx.st (Array.replicate g.numNodes INV) s s, wl := [s] }

/-- `PathIter`: target, parent, …, source -/
def pathIter (parents : Array Nat) : Nat → Nat → Option (List Nat)
  | 0, _ => none
  | fuel + 1, id =>
    if id = INV then some []
    else if id = gt parents id then some [id]
    else (pathIter parents fuel (gt parents id)).map (id :: ·)

/-- `tuple_windows()` -/
def windows : List Nat → List (Nat × Nat)
  | a :: b :: rest => (a, b) :: windows (b :: rest)
  | _ => []

/-- capacity of the path edge of a window (a,b) = (head, tail): edge b → a -/
def windowCap (g : Graph) (ab : Nat × Nat) : Option Int :=
  (g.findEdge ab.2 ab.1).map fun e => gt g.cap e

/-- `min_by_key` (first minimum) over the windows; `none` = empty (`expect` panics) or missing edge -/
def minByCap (g : Graph) : List (Nat × Nat) → Option ((Nat × Nat) × Int)
  | [] => none
  | [p] => (windowCap g p).map fun k => (p, k)
  | p :: q :: rest =>
    match windowCap g p, minByCap g (q :: rest) with
    | some k, some (m, km) => if km < k then some (m, km) else some (p, k)
    | _, _ => none

/-- the flow-assignment loop over the windows -/
def pushPath (g : Graph) (pf : Int) : List (Nat × Nat) → Option Graph
  | [] => some g
  | (a, b) :: rest =>
    match g.findEdge a b, g.findEdge b a with
    | some rev, some fwd =>
      let c1 := st g.cap fwd (gt g.cap fwd - pf)
      let c2 := st c1 rev (gt c1 rev + pf)
      pushPath { g with cap := c2 } pf rest
    | _, _ => none

/-! ### EdmondsKarp / FordFulkerson -/

structure Solver where
  g        : Graph
  maxFlow  : Int
  finished : Bool
  source   : Nat
  target   : Nat
  augs     : Nat := 0        -- ghost: number of augmentations
deriving Repr, Inhabited

/-- result of `max_flow()` / `assignment()`: `Err(_)`, `Ok(_)`, or the model got stuck -/
inductive Out (α : Type) where
  | err
  | ok (a : α)
  | stuck
deriving Repr, Inhabited, DecidableEq

def Solver.fromEdgeList (es : List Edge) (s t : Nat) : Solver :=
  { g := residualEK es, maxFlow := 0, finished := false, source := s, target := t }

/-- the `while search.run_with_filter(..)` loop of `run` -/
def augmentLoop (pop : List Nat → Option (Nat × List Nat)) (s t : Nat) :
    Nat → Graph → Int → Nat → Option (Graph × Int × Nat)
  | 0, _, _, _ => none
  | fuel + 1, g, flow, augs =>
    match search g s t pop with
    | none => none
    | some (false, _) => some (g, flow, augs)
    | some (true, st) =>
      match pathIter st.parents (g.numNodes + 1) t with
      | none => none
      | some path =>
        match minByCap g (windows path) with
        | none => none
        | some (m, _) =>
          match windowCap g m with
          | none => none
          | some pf =>
            if pf ≤ 0 then none          -- debug_assert!(path_flow > 0)
            else
              match pushPath g pf (windows path) with
              | none => none
              | some g' => augmentLoop pop s t fuel g' (flow + pf) (augs + 1)

/-- `run()`; `DFS::new` / `BFS::new` index their arrays with source and target -/
def Solver.run (sv : Solver) (pop : List Nat → Option (Nat × List Nat)) (fuel : Nat) : Option Solver :=
  if sv.source ≥ sv.g.numNodes ∨ sv.target ≥ sv.g.numNodes then none
  else
    match augmentLoop pop sv.source sv.target fuel sv.g sv.maxFlow sv.augs with
    | none => none
    | some (g, flow, augs) => some { sv with g := g, maxFlow := flow, finished := true, augs := augs }

def Solver.runEK (sv : Solver) (fuel : Nat) : Option Solver := sv.run popBack fuel
def Solver.runFF (sv : Solver) (fuel : Nat) : Option Solver := sv.run popFront fuel

/-- `k` further calls of `run()` on the same object: `Solver.run` starts from the stored flow counter
    (`self.max_flow += path_flow`), so a re-run of EdmondsKarp / FordFulkerson is `run` itself -/
def Solver.runN (pop : List Nat → Option (Nat × List Nat)) (fuel : Nat) : Nat → Solver → Option Solver
  | 0, sv => some sv
  | k + 1, sv => match sv.run pop fuel with
    | none => none
    | some sv' => Solver.runN pop fuel k sv'

def maxFlowOut (finished : Bool) (flow : Int) : Out Int := if !finished then .err else .ok flow

def Solver.maxFlow? (sv : Solver) : Out Int := maxFlowOut sv.finished sv.maxFlow

/-! ### `assignment`: reachability sweep over edges with capacity > 0 -/

def sweepEdges (g : Graph) : Nat → Nat → Array Bool → List Nat → Array Bool × List Nat
  | _, 0, reach, stack => (reach, stack)
  | e, k + 1, reach, stack =>
    let target := gt g.tgt e
    if !(gt reach target) && decide (gt g.cap e > 0) then
      sweepEdges g (e + 1) k (st reach target true) (target :: stack)
    else sweepEdges g (e + 1) k reach stack

/-- `while let Some(node) = stack.pop()`; the head of the list is the top of the stack -/
def sweepLoop (g : Graph) : Nat → Array Bool → List Nat → Option (Array Bool)
  | 0, _, _ => none
  | _ + 1, reach, [] => some reach
  | fuel + 1, reach, node :: rest =>
    let r := sweepEdges g (g.beginEdges node) (g.deg node) reach rest
    sweepLoop g fuel r.1 r.2

def assignmentOut (g : Graph) (finished : Bool) (source : Nat) : Out (Array Bool) :=
  if !finished then .err
  else if source ≥ g.numNodes then .stuck           -- `reachable.set(source, true)` panics
  else
    match sweepLoop g (g.numNodes + 1) (st (Array.replicate g.numNodes false) source true) [source] with
    | none => .stuck
    | some r => .ok r

def Solver.assignment? (sv : Solver) (source : Nat) : Out (Array Bool) :=
  assignmentOut sv.g sv.finished source

end Tbx.Flow
