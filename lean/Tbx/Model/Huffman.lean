/-
Model of /repo/src/huffman_code.rs: both constructions and `retrieve_codebook`.

Symbols are `Nat`s, frequencies `Int`s (i32; the driver checks that the total fits, the sum
`left.frequency + right.frequency` is overflow-checked in the real code), code words `List Bool`
(`false` = '0', `true` = '1'; `prefix.clone() + "0"` appends at the END).

* sorted input: two queues (`VecDeque`, modelled as lists, front = head); `min_node` takes from `q1`
  only when `q1.front < q2.front` STRICTLY (ties go to the internal nodes of `q2`).
* unsorted input: `std::collections::BinaryHeap<Reverse<Rc<RefCell<HuffmanNode>>>>`, nodes compared by
  frequency only.  To mirror which of several equal-frequency nodes is popped, the heap is modelled
  with std's algorithm (`push` = append + `sift_up(0, old_len)`; `pop` = take the last element, swap it
  with the root, `sift_down_to_bottom(0)` = walk the hole down along the greater child in `Reverse` order,
  i.e. the SMALLER frequency, the right one on ties, then `sift_up`).  std moves a hole; the model swaps
  the element along, which yields the same array.
`none` = a panic (`unwrap` on an empty queue: the sorted construction on a one-symbol table).
-/
namespace Tbx.Huffman

inductive Tree where
  | leaf (sym : Nat) (freq : Int)
  | node (freq : Int) (left right : Tree)
deriving Repr, Inhabited, DecidableEq

namespace Tree
def freq : Tree → Int
  | leaf _ f => f
  | node f _ _ => f
/-- number of nodes -/
def size : Tree → Nat
  | leaf _ _ => 1
  | node _ l r => l.size + r.size + 1
end Tree

abbrev Code := List Bool
abbrev Book := List (Nat × Code)

/-- `retrieve_codebook`: the `while let Some((current, prefix)) = stack.pop()` loop; the stack's top is
    the list head.  An interior node pushes left then right, so the right child is popped first. -/
def retrieveLoop : Nat → List (Tree × Code) → Book → Option Book
  | _, [], book => some book
  | 0, _ :: _, _ => none                                  -- out of fuel (`retrieveLoop_fuel`)
  | fuel + 1, (cur, pre) :: stack, book =>
    match cur with
    | .leaf s _ => retrieveLoop fuel stack (book ++ [(s, pre)])
    | .node _ l r => retrieveLoop fuel ((r, pre ++ [true]) :: (l, pre ++ [false]) :: stack) book

def retrieveCodebook (root : Tree) : Option Book := retrieveLoop root.size [(root, [])] []

/-! ### sorted input: two queues -/

/-- `min_node(q1, q2)`: the popped node and the two queues afterwards -/
def minNode (q1 q2 : List Tree) : Option (Tree × List Tree × List Tree) :=
  match q1, q2 with
  | [], [] => none                                        -- `q2.pop_front().unwrap()` on empty
  | [], y :: q2' => some (y, [], q2')
  | x :: q1', [] => some (x, q1', [])
  | x :: q1', y :: q2' => if x.freq < y.freq then some (x, q1', y :: q2') else some (y, x :: q1', q2')

/-- `while !q1.is_empty() || q2.len() > 1`; every iteration removes two nodes and adds one, so
    `fuel = q1.length + q2.length` suffices -/
def sortedLoop : Nat → List Tree → List Tree → Option Tree
  | fuel, q1, q2 =>
    if !q1.isEmpty || q2.length > 1 then
      match fuel with
      | 0 => none                                         -- out of fuel
      | fuel' + 1 =>
        match minNode q1 q2 with
        | none => none
        | some (left, q1a, q2a) =>
          match minNode q1a q2a with
          | none => none
          | some (right, q1b, q2b) =>
            sortedLoop fuel' q1b (q2b ++ [.node (left.freq + right.freq) left right])
    else q2.head?                                         -- `q2.pop_front().unwrap()`

def leaves (v : List (Nat × Int)) : List Tree := v.map fun (t, f) => .leaf t f

def sortedTree (v : List (Nat × Int)) : Option Tree := sortedLoop v.length (leaves v) []

/-- `generate_huffman_code_from_sorted` -/
def fromSorted (v : List (Nat × Int)) : Option Book :=
  if v.isEmpty then some []
  else match sortedTree v with
    | none => none
    | some root => retrieveCodebook root

/-! ### unsorted input: std BinaryHeap of `Reverse(node)` -/

def swp (a : Array Tree) (i j : Nat) : Array Tree := a.swapIfInBounds i j
def fr (a : Array Tree) (i : Nat) : Int := (a.getD i default).freq

/-- `sift_up(start, pos)`: `while pos > start { parent = (pos-1)/2; if elem <= parent {break}; move }`;
    in `Reverse` order `elem <= parent` means `freq parent ≤ freq elem` -/
def siftUp (start : Nat) : Nat → Array Tree → Nat → Array Tree
  | 0, a, _ => a
  | fuel + 1, a, pos =>
    if pos > start then
      let parent := (pos - 1) / 2
      if fr a parent ≤ fr a pos then a else siftUp start fuel (swp a pos parent) parent
    else a

/-- the descent of `sift_down_to_bottom`; returns the array and the final hole position -/
def siftDownLoop (end_ : Nat) : Nat → Array Tree → Nat → Array Tree × Nat
  | 0, a, pos => (a, pos)
  | fuel + 1, a, pos =>
    let child := 2 * pos + 1
    if child ≤ end_ - 2 then
      -- `child += (get(child) <= get(child+1)) as usize`, in Reverse order: freq(child+1) ≤ freq(child)
      let child := if fr a (child + 1) ≤ fr a child then child + 1 else child
      siftDownLoop end_ fuel (swp a pos child) child
    else if child = end_ - 1 then (swp a pos child, child)
    else (a, pos)

def siftDownToBottom (a : Array Tree) (pos : Nat) : Array Tree :=
  let r := siftDownLoop a.size a.size a pos
  siftUp pos a.size r.1 r.2

def heapPush (a : Array Tree) (x : Tree) : Array Tree := siftUp 0 (a.size + 1) (a.push x) a.size

/-- `pop`: `data.pop().map(|mut item| { if !is_empty() { swap(item, data[0]); sift_down_to_bottom(0) } item })` -/
def heapPop (a : Array Tree) : Option (Tree × Array Tree) :=
  match a.back? with
  | none => none
  | some item =>
    let d := a.pop
    if d.size > 0 then some (d.getD 0 default, siftDownToBottom (d.setIfInBounds 0 item) 0)
    else some (item, d)

/-- `while q1.len() > 1 { x = pop; y = pop; push(node(x.f + y.f, x, y)) }`; fuel = number of nodes -/
def unsortedLoop : Nat → Array Tree → Option (Array Tree)
  | fuel, a =>
    if a.size > 1 then
      match fuel with
      | 0 => none                                         -- out of fuel
      | fuel' + 1 =>
        match heapPop a with
        | none => none
        | some (x, a1) =>
          match heapPop a1 with
          | none => none
          | some (y, a2) => unsortedLoop fuel' (heapPush a2 (.node (x.freq + y.freq) x y))
    else some a

def buildHeap (v : List (Nat × Int)) : Array Tree := (leaves v).foldl heapPush #[]

def unsortedTree (v : List (Nat × Int)) : Option Tree :=
  match unsortedLoop v.length (buildHeap v) with
  | none => none
  | some a => (heapPop a).map (·.1)

/-- `generate_huffman_code_from_unsorted` -/
def fromUnsorted (v : List (Nat × Int)) : Option Book :=
  if v.isEmpty then some []
  else match unsortedTree v with
    | none => none
    | some root => retrieveCodebook root

end Tbx.Huffman
