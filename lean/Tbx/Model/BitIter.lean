/-
Models of the two small bit iterators of /repo/src:

* `bitset_subset_iterator::BitsetSubsetIterator<T>` (Carry-Rippler): `next` returns the current subset and
  advances with `subset = subset.wrapping_sub(set) & set`, `done = (subset == 0)`.
  `T` is any primitive integer of `w` bits, unsigned or SIGNED (the harness instantiates u8/u16/u32/u64 and
  i8/i16/i32/i64).  The model works on the two's-complement bit pattern (a `Nat` below `2^w`): `wrapping_sub`,
  `&` and `== 0` act on patterns identically for both signednesses; `signedVal` converts a pattern to the value
  a signed `T` holds.  The order of enumeration is therefore increasing in the PATTERN (for a signed mask with
  the sign bit: first the non-negative subsets, then the negative ones).
* `one_iterator::OneIterator` (u32): `first_bit = 31 - value.leading_zeros(); value ^= 1 << first_bit`.
  `leading_zeros` is a hardware primitive; for `value ≠ 0` it is `31 - log2 value` (its contract).
-/
namespace Tbx.BitIter

structure SubsetIter where
  subset : Nat
  set : Nat
  done : Bool
deriving Repr, DecidableEq

def fromBitset (set : Nat) : SubsetIter := { subset := 0, set := set, done := false }

/-- `a.wrapping_sub(b)` on `w`-bit unsigned integers -/
def wrappingSub (w a b : Nat) : Nat := (a + 2 ^ w - b % 2 ^ w) % 2 ^ w

def subsetNext (w : Nat) (it : SubsetIter) : Option Nat × SubsetIter :=
  if it.done then (none, it)
  else
    let temp := it.subset
    let s := wrappingSub w it.subset it.set &&& it.set
    (some temp, { it with subset := s, done := s == 0 })

/-- value held by a signed `w`-bit integer with two's-complement pattern `p` -/
def signedVal (w p : Nat) : Int := if 2 * p ≥ 2 ^ w then (p : Int) - (2 ^ w : Nat) else p

/-- collect until `None` (accumulator in reverse); `fuel` bounds the number of `next` calls
    (`2^popcount(set) + 1` suffice; the second component is `false` if the fuel ran out first) -/
def subsetCollectAux (w : Nat) : Nat → SubsetIter → List Nat → List Nat × Bool
  | 0, _, acc => (acc.reverse, false)
  | fuel + 1, it, acc =>
    match subsetNext w it with
    | (none, _) => (acc.reverse, true)
    | (some v, it') => subsetCollectAux w fuel it' (v :: acc)

def subsetCollect (w : Nat) (fuel : Nat) (it : SubsetIter) : List Nat × Bool := subsetCollectAux w fuel it []

/-- `OneIterator::next` -/
def oneNext (value : Nat) : Option Nat × Nat :=
  if value = 0 then (none, value)
  else
    let firstBit := 31 - (31 - Nat.log2 value)      -- 31 - leading_zeros
    (some firstBit, value ^^^ (1 <<< firstBit))

def oneCollect : Nat → Nat → List Nat × Bool
  | 0, _ => ([], false)
  | fuel + 1, value =>
    match oneNext value with
    | (none, _) => ([], true)
    | (some b, v') =>
      let (l, ok) := oneCollect fuel v'
      (b :: l, ok)

end Tbx.BitIter
