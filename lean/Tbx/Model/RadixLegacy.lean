/-
Bucket-level model of rdx_sort as it was BEFORE the fixes D13/D14/D15 (DESIGN.md section 5). Used only by
the `example`s in Props/C17.lean that show the old behaviour violates the statement on the recorded
witnesses (so a regression is recognised for what it is).

  * the key is the raw bit pattern for every type (floats had no order-preserving transform, D15),
  * `isSigned` is the OLD table: i8..i128, f32, f64 — but not isize (D14),
  * in the last round of a "signed" type the negative buckets were laid out 0xFF, 0xFE, …, 0x80 (D13).
-/
namespace Tbx.RadixLegacy

def key (x k : Nat) : Nat := (x >>> (k <<< 3)) % 256

def bucketOrder (signedLast : Bool) : List Nat :=
  if signedLast then (List.range' 128 128).reverse ++ List.range' 0 128 else List.range' 0 256

def pass (signedLast : Bool) (k : Nat) (xs : List Nat) : List Nat :=
  (bucketOrder signedLast).flatMap (fun b => xs.filter (fun x => key x k == b))

/-- `w` rounds; skipped rounds are the identity and need no modelling here -/
def sortL (w : Nat) (isSigned : Bool) (xs : List Nat) : List Nat :=
  (List.range w).foldl (fun l k => pass (isSigned && k == w - 1) k l) xs

end Tbx.RadixLegacy
