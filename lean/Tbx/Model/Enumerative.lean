import Tbx.Model.Choose
/-
Model of `enumerative_source_coding::decode_u64` (Cover's unranking of weight-w words) and of
`bit_weight_iterator::U64BitWeightIterator` (/repo/src).

    debug_assert!(ordinal < choose(64, ones));
    let mut result = 0;
    for bit in (0..64).rev() {
        let n_ck = choose(bit, ones);
        if ordinal >= n_ck { ordinal -= n_ck; result |= 1 << bit; ones -= 1; }
    }

`decodeLoop b …` runs the iterations `bit = b-1, b-2, …, 0`.  `none` = a panic of the checked build:
the `debug_assert`, `ones -= 1` at 0, or `choose` overflowing (never for bit ≤ 64).
-/
namespace Tbx.Enumerative
open Tbx.Choose

def decodeLoop : Nat → Nat → Nat → Nat → Option Nat
  | 0, _, _, result => some result
  | b + 1, ones, ordinal, result =>
    match choose b ones with
    | none => none
    | some nck =>
      if ordinal ≥ nck then
        if ones = 0 then none
        else decodeLoop b (ones - 1) (ordinal - nck) (result ||| (1 <<< b))
      else decodeLoop b ones ordinal result

def decodeU64 (ones ordinal : Nat) : Option Nat :=
  match choose 64 ones with
  | none => none
  | some c => if ordinal < c then decodeLoop 64 ones ordinal 0 else none

/-- `U64BitWeightIterator { weight, ordinal, max }` -/
structure BWIter where
  weight : Nat
  ordinal : Nat
  max : Nat
deriving Repr, DecidableEq

def withWeight (weight : Nat) : Option BWIter :=
  (choose 64 weight).map fun m => { weight := weight, ordinal := 0, max := m }

/-- `next`: `none` = panic, `some (none, _)` = the iterator is exhausted -/
def next (it : BWIter) : Option (Option Nat × BWIter) :=
  if it.ordinal < it.max then
    (decodeU64 it.weight it.ordinal).map fun v => (some v, { it with ordinal := it.ordinal + 1 })
  else some (none, it)

/-- the first `cnt` items (fewer if the iterator ends) -/
def take : Nat → BWIter → Option (List Nat)
  | 0, _ => some []
  | cnt + 1, it =>
    match next it with
    | none => none
    | some (none, _) => some []
    | some (some v, it') => (take cnt it').map (v :: ·)

end Tbx.Enumerative
