import Tbx.Model.Arr
/-
Executable model of /repo/src/bfs.rs and /repo/src/dfs.rs (the two files are the same text up to
`VecDeque::pop_front` / `Vec::pop`), core Lean only.

ONE worklist search, parameterised by the pop discipline:

* `Searcher`            the `BFS` / `DFS` object (all six fields, including the `target` field and the
                        worklist, which persist between runs),
* `new`                 `BFS::new` / `DFS::new` (+ `populate_sources`),
* `edges`, `loop`       the `for edge in graph.edge_range(node)` loop and the `while let Some(node) = pop`
                        loop of `run_with_filter` (marking on discovery, the source special case in the
                        guard, early return when a target is discovered),
* `runWith`             `run_with_filter` (`run` is `runWith` with the filter `fun _ => false`),
* `nodePath`, `edgePath`, `pathIter`   `fetch_node_path`, `fetch_edge_path`, `path_iter().collect()`.

Graph: `g u` is the list of `(target, edge id)` of the out-edges of `u` in `edge_range(u)` order
(StaticGraph: CSR order).  The filter is the set of edge ids to skip (`filt e = true` = skipped).
`INVALID_NODE_ID` (= `usize::MAX`) is `none`.

Panics of the Rust are explicit: every `self.parents[i]` with `i` out of range yields `.panic`
(never a silent default).  `graph.edge_range(node)` is not bounds-modelled: the graph is assumed to have
exactly `number_of_nodes` nodes ("the graph is consistent by construction", bfs.rs:82).
Loops are fuelled; `runWith` passes `sources.length + number_of_nodes + 1`, which is sufficient
(`Tbx.Props.C15.fuel_sufficient`); running out of fuel is reported as `.fuel`, never truncated.

Exports for other slices (max-flow: Edmonds-Karp uses DFS, Ford-Fulkerson uses BFS in this repo):
`bfsRun`, `dfsRun`, `nodePath`, `edgePath`, `pathIter`.
-/
namespace Tbx.Search

abbrev Graph := Nat → List (Nat × Nat)

/-- result of a computation that may hit a Rust panic or exhaust the model's fuel -/
inductive Res (α : Type) where
  | panic
  | fuel
  | ok (a : α)
deriving Repr, Inhabited

/-- loop state of one run: the parents vector and the queue / stack -/
structure S where
  par : Array (Option Nat)
  wl  : List Nat
deriving Repr, Inhabited

/-- `VecDeque::pop_front` -/
def popFront : List Nat → Option (Nat × List Nat)
  | [] => none
  | x :: xs => some (x, xs)

/-- `Vec::pop` (the worklist grows at the end) -/
def popBack (l : List Nat) : Option (Nat × List Nat) :=
  match l.getLast? with
  | none => none
  | some x => some (x, l.dropLast)

/-- the guard `self.parents[target] != INVALID_NODE_ID || (node_is_source && self.parents[target] == target)` -/
def seen (par : Array (Option Nat)) (uIsSrc : Bool) (v : Nat) : Bool :=
  (gt par v).isSome || (uIsSrc && gt par v == some v)

inductive ER where
  | panic
  | found (v : Nat) (s : S)
  | cont (s : S)
deriving Repr, Inhabited

/-- `for edge in graph.edge_range(node) { … }` for the popped node `u` -/
def edges (filt : Nat → Bool) (isT : Nat → Bool) (u : Nat) (uIsSrc : Bool) : List (Nat × Nat) → S → ER
  | [], s => .cont s
  | (v, e) :: rest, s =>
    if filt e then edges filt isT u uIsSrc rest s                 -- `continue`
    else if s.par.size ≤ v then .panic                            -- `self.parents[target]` out of range
    else if seen s.par uIsSrc v then edges filt isT u uIsSrc rest s
    else
      let par' := st s.par v (some u)                             -- `self.parents[target] = node`
      if isT v then .found v { s with par := par' }               -- `self.target = target; return true`
      else edges filt isT u uIsSrc rest { par := par', wl := s.wl ++ [v] }   -- `push_back` / `push`

inductive LR where
  | panic
  | fuel
  | done (found : Option Nat) (s : S)
deriving Repr, Inhabited

/-- `while let Some(node) = self.queue.pop_front()` / `self.stack.pop()` -/
def loop (g : Graph) (filt : Nat → Bool) (isT : Nat → Bool) (pop : List Nat → Option (Nat × List Nat)) :
    Nat → S → LR
  | 0, _ => .fuel
  | fuel + 1, s =>
    match pop s.wl with
    | none => .done none s
    | some (u, rest) =>
      if s.par.size ≤ u then .panic                                -- `self.parents[node]`
      else
        let uIsSrc := gt s.par u == some u                         -- `node_is_source`
        match edges filt isT u uIsSrc (g u) { s with wl := rest } with
        | .panic => .panic
        | .found v s' => .done (some v) s'
        | .cont s' => loop g filt isT pop fuel s'

/-- the `BFS` / `DFS` struct -/
structure Searcher where
  sources      : List Nat
  targetSet    : Array Bool
  parents      : Array (Option Nat)
  target       : Option Nat
  wl           : List Nat
  emptyTargets : Bool
deriving Repr, Inhabited

/-- `for i in idx { a[i] = f(i) }`, `none` = index out of range -/
def setAll {α : Type} (a : Array α) (f : Nat → α) : List Nat → Option (Array α)
  | [] => some a
  | i :: is => if i < a.size then setAll (st a i (f i)) f is else none

/-- `BFS::new(source_list, target_list, number_of_nodes)` -/
def new (srcs tgts : List Nat) (n : Nat) : Option Searcher :=
  match setAll (Array.replicate n false) (fun _ => true) tgts with
  | none => none
  | some ts =>
    match setAll (Array.replicate n (none : Option Nat)) some srcs with
    | none => none
    | some ps =>
      some { sources := srcs, targetSet := ts, parents := ps, target := none, wl := [],
             emptyTargets := tgts.isEmpty }

/-- `self.parents.fill(INVALID_NODE_ID); for s in &self.sources { self.parents[*s] = *s; }` -/
def resetParents (sr : Searcher) : Option (Array (Option Nat)) :=
  setAll (Array.replicate sr.parents.size (none : Option Nat)) some sr.sources

def runFuel (sr : Searcher) : Nat := sr.sources.length + sr.parents.size + 1

/-- `run_with_filter(graph, filter)`; returns the flag and the object afterwards -/
def runWith (pop : List Nat → Option (Nat × List Nat)) (g : Graph) (filt : Nat → Bool) (sr : Searcher) :
    Res (Bool × Searcher) :=
  match resetParents sr with
  | none => .panic
  | some par =>
    match loop g filt (gt sr.targetSet) pop (runFuel sr) { par := par, wl := sr.sources } with
    | .panic => .panic
    | .fuel => .fuel
    | .done (some v) s' => .ok (true, { sr with parents := s'.par, wl := s'.wl, target := some v })
    | .done none s' => .ok (sr.emptyTargets, { sr with parents := s'.par, wl := s'.wl })

/-! ### path unpacking -/

/-- `while id != self.parents[id] { path.push(id); id = self.parents[id]; } path.push(id); path.reverse()`;
    `acc` is the part of the reversed path already produced.  `none` = panic (index out of range, which is
    what happens one step after an unseen node: `parents[INVALID_NODE_ID]`) or out of fuel. -/
def nodePathLoop (par : Array (Option Nat)) : Nat → Nat → List Nat → Option (List Nat)
  | 0, _, _ => none
  | fuel + 1, id, acc =>
    if par.size ≤ id then none
    else match gt par id with
      | none => none
      | some p => if p = id then some (id :: acc) else nodePathLoop par fuel p (id :: acc)

/-- `fetch_node_path_from_node(t)` -/
def nodePathFrom (par : Array (Option Nat)) (t : Nat) : Option (List Nat) :=
  nodePathLoop par (par.size + 1) t []

/-- `fetch_node_path()` -/
def nodePath (sr : Searcher) : Option (List Nat) :=
  match sr.target with
  | none => none                       -- `parents[usize::MAX]`
  | some t => nodePathFrom sr.parents t

/-- `Graph::find_edge(s, t)`: the first edge of `s` whose target is `t` (filtered or not) -/
def findEdge (g : Graph) (s t : Nat) : Option Nat :=
  ((g s).find? (fun p => p.1 == t)).map (·.2)

def edgePathLoop (g : Graph) (par : Array (Option Nat)) : Nat → Nat → List Nat → Option (List Nat)
  | 0, _, _ => none
  | fuel + 1, id, acc =>
    if par.size ≤ id then none
    else match gt par id with
      | none => none
      | some p =>
        if p = id then some acc
        else match findEdge g p id with
          | none => none               -- `.unwrap()`
          | some e => edgePathLoop g par fuel p (e :: acc)

/-- `fetch_edge_path(graph)` -/
def edgePath (g : Graph) (sr : Searcher) : Option (List Nat) :=
  match sr.target with
  | none => none
  | some t => edgePathLoop g sr.parents (sr.parents.size + 1) t []

/-- the items yielded by `PathIter`, `cur` is its `id` field (`none` = `INVALID_NODE_ID`) -/
def iterLoop (par : Array (Option Nat)) : Nat → Option Nat → Option (List Nat)
  | 0, _ => none
  | _ + 1, none => some []
  | fuel + 1, some id =>
    if par.size ≤ id then none
    else
      let nxt := if gt par id == some id then none else gt par id
      (iterLoop par fuel nxt).map (id :: ·)

/-- `path_iter().collect()` -/
def pathIter (sr : Searcher) : Option (List Nat) :=
  iterLoop sr.parents (sr.parents.size + 2) sr.target

/-! ### entry points for other slices -/

/-- fresh object + one run with the queue discipline -/
def bfsRun (n : Nat) (g : Graph) (filt : Nat → Bool) (srcs tgts : List Nat) : Res (Bool × Searcher) :=
  match new srcs tgts n with
  | none => .panic
  | some sr => runWith popFront g filt sr

/-- fresh object + one run with the stack discipline -/
def dfsRun (n : Nat) (g : Graph) (filt : Nat → Bool) (srcs tgts : List Nat) : Res (Bool × Searcher) :=
  match new srcs tgts n with
  | none => .panic
  | some sr => runWith popBack g filt sr

end Tbx.Search
