import Tbx.Model.Arr
/-
Executable model of `src/union_find.rs`: parent forest with union by rank and path halving
(`parent[p] = parent[parent[p]]; p = parent[p]`).  `none` = the Rust would panic (index out of
bounds, `number_of_sets -= 1` at zero) or a loop ran out of fuel.
-/
namespace Tbx.UF
open Tbx

structure UF where
  numSets : Nat
  parent : Array Nat
  rank : Array Nat
deriving Repr

/-- `UnionFind::new(max)` -/
def new (n : Nat) : UF := ⟨n, Array.range n, Array.replicate n 0⟩

def len (u : UF) : Nat := u.parent.size

/-- `while parent[p] != p { parent[p] = parent[parent[p]]; p = parent[p]; }` -/
def findLoop : Nat → Array Nat → Nat → Option (Array Nat × Nat)
  | 0, _, _ => none
  | f + 1, par, p =>
    if p ≥ par.size then none                 -- parent[p] out of bounds
    else if gt par p ≠ p then
      if gt par p ≥ par.size then none        -- parent[parent[p]] out of bounds
      else
        let par := st par p (gt par (gt par p))
        findLoop f par (gt par p)
    else some (par, p)

/-- `find(x)`; the walk is at most `len` steps long, one more round to see the root -/
def find (u : UF) (x : Nat) : Option (UF × Nat) :=
  match findLoop (u.parent.size + 1) u.parent x with
  | none => none
  | some (par, r) => some ({ u with parent := par }, r)

/-- `union(x, y)` -/
def union (u : UF) (x y : Nat) : Option UF :=
  match find u x with
  | none => none
  | some (u, xs) =>
    match find u y with
    | none => none
    | some (u, ys) =>
      if xs = ys then some u
      else if u.numSets = 0 then none
      else if gt u.rank xs < gt u.rank ys then
        some { u with parent := st u.parent xs ys, numSets := u.numSets - 1 }
      else if gt u.rank xs > gt u.rank ys then
        some { u with parent := st u.parent ys xs, numSets := u.numSets - 1 }
      else
        some { u with parent := st u.parent ys xs, rank := st u.rank xs (gt u.rank xs + 1),
                      numSets := u.numSets - 1 }

def numberOfSets (u : UF) : Nat := u.numSets

end Tbx.UF
