/-
Model of `math::zigzag_encode` (/repo/src/math.rs):

    pub fn zigzag_encode(value: i32) -> u32 { ((value << 1) ^ (value >> 31)) as u32 }

on `BitVec 32`, operator for operator (`<<` on i32 wraps, `>>` on i32 is the arithmetic shift,
`as u32` reinterprets the bits).  /repo has no `zigzag_decode`; the inverse used by the property
(`zigzag coding … is an exact bijection`) is the standard one and lives in Spec/Zigzag.lean.
-/
namespace Tbx.Zigzag

def zigzagEncode (value : BitVec 32) : BitVec 32 := (value <<< 1) ^^^ (value.sshiftRight 31)

/-- the function on the integers the harness exchanges: i32 in, u32 out -/
def zigzagEncodeInt (value : Int) : Nat := (zigzagEncode (BitVec.ofInt 32 value)).toNat

end Tbx.Zigzag
