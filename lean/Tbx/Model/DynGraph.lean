import Tbx.Model.Arr
import Tbx.Model.StaticGraph
import Tbx.Gen.Consts
/-
Executable model of `src/dynamic_graph.rs` (DynamicGraph<T>), mirroring the Rust statement by
statement:

  node_array      : Vec<NodeArrayEntry{first_edge, edge_count}>   (number_of_nodes + 2 entries)
  edge_array      : Vec<EdgeArrayEntry{target,data}>              spare slot <=> target == usize::MAX
  number_of_nodes, number_of_edges

`InEdge`, `EEntry`, `maxId`, `skipLoop` (the inner `while` of the constructor) are shared with
the static model.  Not modelled because not observable through the API: `Vec` capacity
(`reserve`, `reserve_exact` and the `capacity() < …` test only change the capacity), and the
constructor's `debug_assert!(check_integrity())` (true whenever all ids are below `node_count`,
which is the constructor's domain).

Float growth: `(edge_count as f64 * GROWTH_FACTOR) as usize + 1` is modelled by the integer
expression `edge_count * num / den + 1` with `num/den` = the decimal literal of GROWTH_FACTOR
regenerated from /repo (`Tbx.Gen.dynGrowthNum/Den`).  For 11/10 the two agree for every
`edge_count < 2^50` (the double 1.1 is slightly above 11/10 and `c * 1.1` rounds to a double that
is never below an integer `11c/10`); the harness prints the raw slice positions after every
operation (F lines), so a disagreement shows up per case as drift.

Functions return `none` exactly where the Rust panics (index out of bounds, `unwrap` on `None`,
usize underflow with overflow checks); `Tbx.Props.C14` shows this never happens under the
invariant.
-/
namespace Tbx.DG
open Tbx.SG (InEdge EEntry maxId skipLoop)

/-- `NodeArrayEntry` -/
structure NEntry where
  first : Nat
  count : Nat
deriving Repr, Inhabited, DecidableEq

structure Graph where
  nodes : Array NEntry
  edges : Array EEntry
  numNodes : Nat
  numEdges : Nat
deriving Repr

/-- `DynamicGraph::default()`: the node array always ends with two entries past the last node
    (D19 fixed: it used to be empty, and every later call panicked) -/
def dflt : Graph := { nodes := #[⟨0, 0⟩, ⟨0, 0⟩], edges := #[], numNodes := 0, numEdges := 0 }

/-- `Default` as it was before the D19 fix, kept only for the regression example in Props/C14 -/
def legacyDflt : Graph := { nodes := #[], edges := #[], numNodes := 0, numEdges := 0 }

/-- constructor loop: `for i in 0..number_of_nodes { while …; last_mut().edge_count = offset - prev;
    prev = offset; push(new(offset)) }`; `k` iterations left -/
def offsetsLoop (inp : List InEdge) : Nat → Nat → Nat → Nat → Array NEntry → Array NEntry
  | 0, _, _, _, acc => acc
  | k + 1, i, off, prev, acc =>
    let off' := skipLoop inp i (inp.length - off) off
    let acc1 := st acc (acc.size - 1) { gt acc (acc.size - 1) with count := off' - prev }
    offsetsLoop inp k (i + 1) off' off' (acc1.push ⟨off', 0⟩)

/-- `new_from_sorted_list(number_of_nodes, input)` -/
def newFromSortedList (n : Nat) (inp : List InEdge) : Graph :=
  let nodes := offsetsLoop inp n 0 0 0 #[⟨0, 0⟩]
  { nodes := nodes.push ⟨inp.length, 0⟩,
    edges := (inp.map fun e => (⟨e.tgt, e.data⟩ : EEntry)).toArray,
    numNodes := n, numEdges := inp.length }

/-- `new(node_count, input)`: sort, then `new_from_sorted_list` -/
def new (n : Nat) (inp : List InEdge) : Graph :=
  newFromSortedList n (inp.mergeSort (fun a b => SG.edgeLe a b))

/-- `insert_node()`; `none`: `node_array.last().unwrap()` on an empty node array -/
def insertNode (g : Graph) : Option Graph :=
  if g.nodes.size = 0 then none
  else some { g with nodes := g.nodes.push ⟨(gt g.nodes (g.nodes.size - 1)).first, 0⟩,
                     numNodes := g.numNodes + 1 }

/-- `while self.number_of_nodes <= v { self.insert_node() }`, fuel `v + 1 - number_of_nodes` -/
def ensureNode : Nat → Graph → Nat → Option Graph
  | 0, g, v => if g.numNodes ≤ v then none else some g
  | fuel + 1, g, v =>
    if g.numNodes ≤ v then (insertNode g).bind fun g' => ensureNode fuel g' v else some g

/-- `is_spare_edge` -/
def isSpare (es : Array EEntry) (e : Nat) : Bool := (gt es e).tgt == maxId

/-- `Vec::swap(i, j)` (both in bounds at every call site, checked by the callers below) -/
def swapE (a : Array EEntry) (i j : Nat) : Array EEntry := st (st a i (gt a j)) j (gt a i)

/-- `(0..edge_count).for_each(|i| edge_array.swap(new_first + i, first + i))` -/
def moveLoop (newFirst first : Nat) : Nat → Array EEntry → Array EEntry
  | 0, a => a
  | k + 1, a => swapE (moveLoop newFirst first k a) (newFirst + k) (first + k)

/-- new slice length on relocation: `(edge_count as f64 * GROWTH_FACTOR) as usize + 1` -/
def growLen (cnt : Nat) : Nat := cnt * Tbx.Gen.dynGrowthNum / Tbx.Gen.dynGrowthDen + 1

/-- the same quantity computed the way the Rust does, in IEEE double arithmetic (Lean's `Float` is
    the C `double`): `(edge_count as f64 * GROWTH_FACTOR) as usize + 1`.  Used by the driver only, to
    count per case how often it differs from `growLen` (statistic `fmis`); never used in a theorem. -/
def growLenFloat (cnt : Nat) : Nat :=
  (Float.floor (Float.ofNat cnt * (Float.ofNat Tbx.Gen.dynGrowthNum / Float.ofNat Tbx.Gen.dynGrowthDen))).toUInt64.toNat + 1

/-- the block of `insert_edge` that makes the slot one past the slice of `s` a spare slot:
    right spare, else left spare, else relocation to the end -/
def placeSlice (g : Graph) (s : Nat) (d : Int) : Option Graph :=
  let first := (gt g.nodes s).first
  let cnt := (gt g.nodes s).count
  let right := first + cnt
  if s ≥ g.nodes.size ∨ right > g.edges.size then none
  else if right = g.edges.size ∨ !isSpare g.edges right then
    if first ≠ 0 ∧ isSpare g.edges (first - 1) then
      some { g with nodes := st g.nodes s ⟨first - 1, cnt⟩,
                    edges := swapE g.edges (first - 1) (right - 1) }
    else
      let newFirst := g.edges.size
      let newLen := growLen cnt
      let edges1 := g.edges ++ Array.replicate newLen (⟨maxId, d⟩ : EEntry)
      some { g with nodes := st g.nodes s ⟨newFirst, cnt⟩,
                    edges := moveLoop newFirst first cnt edges1 }
  else some g

/-- the final block of `insert_edge`: write the entry one past the slice, bump the counters -/
def writeEdge (g : Graph) (s t : Nat) (d : Int) : Option Graph :=
  let eid := (gt g.nodes s).first + (gt g.nodes s).count
  if s ≥ g.nodes.size ∨ eid ≥ g.edges.size then none
  else some { g with edges := st g.edges eid ⟨t, d⟩,
                     nodes := st g.nodes s { gt g.nodes s with count := (gt g.nodes s).count + 1 },
                     numEdges := g.numEdges + 1 }

/-- `insert_edge(source, target, data)` -/
def insertEdge (g : Graph) (s t : Nat) (d : Int) : Option Graph :=
  (ensureNode (s + 1 - g.numNodes) g s).bind fun g1 =>
  (ensureNode (t + 1 - g1.numNodes) g1 t).bind fun g2 =>
  (placeSlice g2 s d).bind fun g3 =>
  writeEdge g3 s t d

/-- `remove_edge(source, edge_to_delete)`; `none`: usize underflow of a counter / index panic -/
def removeEdge (g : Graph) (s e : Nat) : Option Graph :=
  if g.numEdges = 0 ∨ s ≥ g.nodes.size ∨ (gt g.nodes s).count = 0 then none
  else
    let first := (gt g.nodes s).first
    let cnt := (gt g.nodes s).count - 1
    let last := first + cnt
    if last ≥ g.edges.size ∨ e ≥ g.edges.size then none
    else
      let es := swapE g.edges last e
      some { g with numEdges := g.numEdges - 1,
                    nodes := st g.nodes s ⟨first, cnt⟩,
                    edges := st es last { gt es last with tgt := maxId } }

def numberOfNodes (g : Graph) : Nat := g.numNodes
def numberOfEdges (g : Graph) : Nat := g.numEdges
def beginEdges (g : Graph) (n : Nat) : Nat := (gt g.nodes n).first
def outDegree (g : Graph) (n : Nat) : Nat := (gt g.nodes n).count
def endEdges (g : Graph) (n : Nat) : Nat := (gt g.nodes n).first + outDegree g n
def target (g : Graph) (e : Nat) : Nat := (gt g.edges e).tgt
def data (g : Graph) (e : Nat) : Int := (gt g.edges e).data
/-- `*data_mut(e) = d` -/
def setData (g : Graph) (e : Nat) (d : Int) : Graph :=
  { g with edges := st g.edges e { gt g.edges e with data := d } }

/-- the ids of `edge_range(n)` -/
def edgeRange (g : Graph) (n : Nat) : List Nat := List.range' (beginEdges g n) (outDegree g n)

/-- `Range::find(|e| target(e) == t)` over `e .. e+k` -/
def findLoop (g : Graph) (t : Nat) : Nat → Nat → Option Nat
  | 0, _ => none
  | k + 1, e => if target g e = t then some e else findLoop g t k (e + 1)

/-- `find_edge(s,t)` with the guard `s > number_of_nodes()` (sic; the node array has two entries
    more than there are nodes, so `s = number_of_nodes` reads an entry with count 0).
    Outer `none`: `node_array[s]` out of bounds (panic). -/
def findEdge (g : Graph) (s t : Nat) : Option (Option Nat) :=
  if s > g.numNodes then some none
  else if s ≥ g.nodes.size then none
  else some (findLoop g t (outDegree g s) (beginEdges g s))

/-- `find_edge_unchecked(s,t)` -/
def findEdgeUnchecked (g : Graph) (s t : Nat) : Option Nat :=
  match findEdge g s t with
  | none => none
  | some none => some maxId
  | some (some e) => some e

/-- (target, data) pairs read through `edge_range / target / data`, in slice order -/
def adjList (g : Graph) (n : Nat) : List (Nat × Int) :=
  (edgeRange g n).map fun e => (target g e, data g e)

/-- which branch `placeSlice` takes (statistics only): 0 right spare, 1 left spare, 2 relocation -/
def placeBranch (g : Graph) (s : Nat) : Nat :=
  let first := (gt g.nodes s).first
  let right := first + (gt g.nodes s).count
  if right = g.edges.size ∨ !isSpare g.edges right then
    if first ≠ 0 ∧ isSpare g.edges (first - 1) then 1 else 2
  else 0

end Tbx.DG
