import Tbx.Spec.Geometry
/-
Executable model of `bounding_box::BoundingBox` (src/bounding_box.rs): `from_coordinates`,
`invalid`, `from_coordinate`, `extend_with`, `contains`, `is_valid`, `center`.
The box is its four corner values (`Geo.BoxCorners`).  `center` does i32 arithmetic
(`max - min`, `min + diff / 2`): `none` = the subtraction leaves the i32 range (panic with
overflow checks) or the box is invalid (`debug_assert`).
`min_distance` is floating point (haversine) and is not modelled; its exact part (the `contains`
guard and the four corner points) is `minDistanceCorners`.
-/
namespace Tbx.Geo

def i32Min : Int := -2147483648
def i32Max : Int := 2147483647

/-- `BoundingBox::invalid()`: min = FPCoordinate::max(), max = FPCoordinate::min() -/
def boxInvalid : BoxCorners := ⟨i32Max, i32Max, i32Min, i32Min⟩

/-- one step of the `for_each` in `from_coordinates` -/
def boxAdd (b : BoxCorners) (c : Coord) : BoxCorners :=
  ⟨min b.minLat c.lat, min b.minLon c.lon, max b.maxLat c.lat, max b.maxLon c.lon⟩

/-- `from_coordinates` -/
def boxFromCoordinates (cs : List Coord) : BoxCorners := cs.foldl boxAdd boxInvalid

/-- `from_coordinate` -/
def boxFromCoordinate (c : Coord) : BoxCorners := ⟨c.lat, c.lon, c.lat, c.lon⟩

/-- `extend_with` -/
def boxExtend (b o : BoxCorners) : BoxCorners :=
  ⟨min b.minLat o.minLat, min b.minLon o.minLon, max b.maxLat o.maxLat, max b.maxLon o.maxLon⟩

/-- `contains` -/
def boxContains (b : BoxCorners) (q : Coord) : Bool :=
  decide (q.lat ≥ b.minLat) && decide (q.lat ≤ b.maxLat) && decide (q.lon ≥ b.minLon) && decide (q.lon ≤ b.maxLon)

/-- `is_valid` -/
def boxIsValid (b : BoxCorners) : Bool := decide (b.minLat ≤ b.maxLat) && decide (b.minLon ≤ b.maxLon)

def chk32 (x : Int) : Option Int := if i32Min ≤ x ∧ x ≤ i32Max then some x else none

/-- `center`; Rust `/` on i32 truncates toward zero (`Int.tdiv`); the differences are non-negative here -/
def boxCenter (b : BoxCorners) : Option Coord :=
  if !boxIsValid b then none else do
    let latDiff ← chk32 (b.maxLat - b.minLat)
    let lonDiff ← chk32 (b.maxLon - b.minLon)
    let lat ← chk32 (b.minLat + latDiff.tdiv 2)
    let lon ← chk32 (b.minLon + lonDiff.tdiv 2)
    pure ⟨lat, lon⟩

/-- the exact part of `min_distance`: `none` if the coordinate is contained (distance 0), otherwise the
four corners c1 = max, c2 = min, c3 = (max.lat, min.lon), c4 = (min.lat, max.lon) whose distances are minimised -/
def minDistanceCorners (b : BoxCorners) (q : Coord) : Option (List Coord) :=
  if boxContains b q then none
  else some [⟨b.maxLat, b.maxLon⟩, ⟨b.minLat, b.minLon⟩, ⟨b.maxLat, b.minLon⟩, ⟨b.minLat, b.maxLon⟩]

end Tbx.Geo
