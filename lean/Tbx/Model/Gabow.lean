import Tbx.Model.Csr
import Tbx.Model.Tarjan
/-
Executable model of `src/path_based_scc.rs` (Gabow's path-based SCC algorithm with an explicit
DFS stack of `Visit / ProcessNeighbors / Finalize` records).  The shared `scc` array holds
`usize::MAX` (unvisited), the node's index on stack `S` (on the path), or its component number
(counted down from n).  Object state is an explicit input of `run`.
-/
namespace Tbx.Gabow
open Tbx Tbx.Csr
open Tbx.Tarjan (clear resize)

/-- `DfsState` -/
inductive Dfs where
  | visit (v : Nat)
  | process (v : Nat)
  | finalize (v : Nat)
deriving Repr, DecidableEq, Inhabited

/-- the fields of `PathBasedScc` -/
structure State where
  scc : Array Nat
  stack : Array Nat
  bounds : Array Nat
  component : Nat
deriving Repr

/-- `PathBasedScc::new()` -/
def State.fresh : State := ⟨#[], #[], #[], 0⟩

/-- `while let Some(&bound) = bounds.last() { if scc[w] < bound { bounds.pop(); } else { break } }` -/
def contract (sccw : Nat) : Nat → Array Nat → Array Nat
  | 0, b => b
  | f + 1, b =>
    if b.size = 0 then b
    else if sccw < gt b (b.size - 1) then contract sccw f b.pop else b

/-- `while let Some(u) = stack.pop() { scc[u] = component; if u == v { break } }` -/
def popComp (v : Nat) : Nat → State → Option State
  | 0, s => some s
  | f + 1, s =>
    if s.stack.size = 0 then some s
    else
      let u := gt s.stack (s.stack.size - 1)
      if u ≥ s.scc.size then none else
      let s := { s with stack := s.stack.pop, scc := st s.scc u s.component }
      if u = v then some s else popComp v f s

/-- one iteration of `while let Some(state) = dfs_stack.pop()`; the work list is a `List`
    with the top at the head -/
def step (g : Graph) (s : State) (ei : Array Nat) (work : List Dfs) (top : Dfs) :
    Option (State × Array Nat × List Dfs) :=
  match top with
  | .visit v =>
    if v ≥ s.scc.size then none else
    let stack := s.stack.push v
    let s := { s with stack := stack, scc := st s.scc v (stack.size - 1), bounds := s.bounds.push (stack.size - 1) }
    some (s, ei, .process v :: work)
  | .process v =>
    if v ≥ ei.size then none else
    -- edges = edge_range(v).collect(); an inverted range is empty
    if gt ei v < endEdges g v - beginEdges g v then
      let e := beginEdges g v + gt ei v
      let ei := st ei v (gt ei v + 1)
      let work := .process v :: work
      let w := target g e
      if w ≥ s.scc.size then none else
      if gt s.scc w = maxU then some (s, ei, .visit w :: work)
      else some ({ s with bounds := contract (gt s.scc w) s.bounds.size s.bounds }, ei, work)
    else some (s, ei, .finalize v :: work)
  | .finalize v =>
    if v ≥ s.scc.size then none else
    if s.bounds.size ≠ 0 ∧ gt s.bounds (s.bounds.size - 1) = gt s.scc v then
      if s.component = 0 then none else        -- `component -= 1` would underflow
      let s := { s with bounds := s.bounds.pop, component := s.component - 1 }
      match popComp v s.stack.size s with
      | none => none
      | some s => some (s, ei, work)
    else some (s, ei, work)

def loop (g : Graph) : Nat → State → Array Nat → List Dfs → Option State
  | 0, _, _, _ => none
  | f + 1, s, ei, work =>
    match work with
    | [] => some s
    | top :: rest =>
      match step g s ei rest top with
      | none => none
      | some (s, ei, work) => loop g f s ei work

/-- per root: every node is visited and finalised once and processed once per edge plus once -/
def dfsFuel (g : Graph) : Nat := 3 * numNodes g + numEdges g + 2

/-- `dfs_iterative(start, graph)` -/
def dfsIterative (g : Graph) (s : State) (start : Nat) : Option State :=
  loop g (dfsFuel g) s (Array.replicate (numNodes g) 0) [.visit start]

/-- `for v in graph.node_range() { if scc[v] == MAX { dfs_iterative(v) } }` -/
def outer (g : Graph) : Nat → Nat → State → Option State
  | 0, _, s => some s
  | k + 1, v, s =>
    if gt s.scc v = maxU then
      match dfsIterative g s v with
      | none => none
      | some s => outer g k (v + 1) s
    else outer g k (v + 1) s

/-- the initialisation at the start of `run`; `reset = false` is the code before the D12 fix
    (`scc.resize` without `clear`), kept for the regression example only -/
def prepare (reset : Bool) (s : State) (g : Graph) : State :=
  { bounds := #[],
    scc := resize (if reset then clear s.scc else s.scc) (numNodes g) maxU,
    stack := #[],
    component := numNodes g }

def runWith (reset : Bool) (s : State) (g : Graph) : Option (State × Array Nat) :=
  match outer g (numNodes g) 0 (prepare reset s g) with
  | none => none
  | some s => some (s, s.scc)

/-- `PathBasedScc::run` as it is now -/
def run (s : State) (g : Graph) : Option (State × Array Nat) := runWith true s g

/-- `PathBasedScc::run` before the D12 fix -/
def legacyRun (s : State) (g : Graph) : Option (State × Array Nat) := runWith false s g

def runSeq (s : State) : List Graph → Option (State × List (Array Nat))
  | [] => some (s, [])
  | g :: gs =>
    match run s g with
    | none => none
    | some (s', a) =>
      match runSeq s' gs with
      | none => none
      | some (s'', as) => some (s'', a :: as)

end Tbx.Gabow
