/-
Model of `math::choose` (/repo/src/math.rs) after the D18 fix (u128 intermediate):

    if k > n { return 0 }  if k == 0 || k == n { return 1 }
    let k = if k > n - k { n - k } else { k };
    let mut result: u128 = 1;
    for i in 1..=k { result = result * (n - i + 1) as u128 / i as u128; }
    result as u64

Every intermediate value is explicit: `step` returns the product before the division, and the loop
answers `none` where the u128 multiplication would overflow (a panic with overflow checks, a wrap
without).  `Tbx.Props.C20.choose_eq` proves that for n ≤ 64 this never happens, that every division is
exact and that the final `as u64` truncation is the identity.

`chooseLegacy` is the pre-fix loop (u64 intermediate), kept only for the D18 witness example.
-/
namespace Tbx.Choose

def U128 : Nat := 2 ^ 128
def U64 : Nat := 2 ^ 64

/-- `result * (n - i + 1)`: the intermediate product of iteration `i` -/
def prod (n i result : Nat) : Nat := result * (n - i + 1)

/-- iterations `i, i+1, …, i+cnt-1` of the `for` loop; `lim` is the width of the intermediate type -/
def loop (lim n : Nat) : Nat → Nat → Nat → Option Nat
  | 0, _, result => some result
  | cnt + 1, i, result =>
    if prod n i result < lim then loop lim n cnt (i + 1) (prod n i result / i) else none

/-- the list of (i, product before division) pairs the loop goes through (for the audit of the bound) -/
def trace (n : Nat) : Nat → Nat → Nat → List (Nat × Nat)
  | 0, _, _ => []
  | cnt + 1, i, result => (i, prod n i result) :: trace n cnt (i + 1) (prod n i result / i)

def reduceK (n k : Nat) : Nat := if k > n - k then n - k else k

def choose (n k : Nat) : Option Nat :=
  if k > n then some 0
  else if k == 0 || k == n then some 1
  else (loop U128 n (reduceK n k) 1 1).map (· % U64)

/-- pre-D18 code: the product was formed in u64 -/
def chooseLegacy (n k : Nat) : Option Nat :=
  if k > n then some 0
  else if k == 0 || k == n then some 1
  else loop U64 n (reduceK n k) 1 1

end Tbx.Choose
