/-
C04 model: N max-flow computations sharing one upper bound (an atomic i32 accessed with Relaxed
loads and a fetch_min), as in Dinic::run of /repo/src/dinic.rs:

    while bfs() { flow += dfs(); if flow > bound.load() { abort } }      -- one load per phase
    bound.fetch_min(flow); finished

A process is abstracted to the list of its accumulated flows after each phase (`phases`) and its
true maximum flow `F` (what C01 proves the unbounded run returns).  An event of process `i` is
either the load-and-compare after its next phase or, when all phases are done, the fetch_min.
`v` is the value the load observes: ANY value the location has held (`hist`) - Relaxed loads may
be stale; the location only ever decreases.
-/

namespace Tbx.Bound

inductive Status where
  | running (pc : Nat)   -- pc = number of phases already executed and checked
  | aborted
  | finished
deriving DecidableEq, Repr

/-- process description: accumulated flow after each phase (the last entry is the true max flow) -/
structure Proc where
  phases : List Int
  F : Int

structure St (N : Nat) where
  bound : Int
  hist  : List Int          -- every value the location has held (newest first), includes the initial one
  st    : Fin N → Status

def init {N} (B0 : Int) : St N := { bound := B0, hist := [B0], st := fun _ => .running 0 }

/-- one event of process `i`. `v` is the value a (possibly stale) load observes; it is only used
    when the next event of `i` is a load, and must be a member of `hist`. -/
def step {N} (P : Fin N → Proc) (s : St N) (i : Fin N) (v : Int) : St N :=
  match s.st i with
  | .running pc =>
    if h : pc < (P i).phases.length then
      -- phase pc has just been executed; compare accumulated flow with the loaded bound
      if (P i).phases[pc] > v then { s with st := fun j => if j = i then .aborted else s.st j }
      else { s with st := fun j => if j = i then .running (pc+1) else s.st j }
    else
      -- all phases done: publish with fetch_min
      let b := min s.bound (P i).F
      { bound := b, hist := b :: s.hist, st := fun j => if j = i then .finished else s.st j }
  | _ => s

def run {N} (P : Fin N → Proc) (s : St N) : List (Fin N × Int) → St N
  | [] => s
  | (i, v) :: rest => run P (step P s i v) rest

/-- a schedule is admissible if every loaded value has been held by the location -/
def Admissible {N} (P : Fin N → Proc) : St N → List (Fin N × Int) → Prop
  | _, [] => True
  | s, (i, v) :: rest => v ∈ s.hist ∧ Admissible P (step P s i v) rest


end Tbx.Bound
