import Tbx.Model.Bincode
/-
Executable model of the text loaders behind graph_plier:

  src/dimacs.rs  read_graph (WeightType::Original), read_coordinates
  src/metis.rs   read_graph, read_coordinates
  src/ddsg.rs    read_graph (WeightType::Original), read_coordinates
  src/geometry.rs FPCoordinate::new / new_from_lat_lon
  src/graph_plier/bin/main.rs  (read graph, read coordinates, encode both)

Part 1 is the TOKEN-LEVEL model: a file is a list of `Line`s; a `Line` is the collection of views the
Rust code takes of one text line (first char, whitespace-separated tokens of the whole line and of
`line[2..]`, `line[12..]` / the whole line parsed as usize, `line == "d"`); a `Tok` is one token with the
results of the three `str::parse` calls the loaders use.  All parser logic (dispatch on the first
character, token counts, 1-based -> 0-based shift, self-loop dropping, direction expansion, the order
in which fields are used, every `unwrap`/index/assert that can panic) lives here and is what the
theorems in Props/C07.lean talk about.  `none` = the Rust panics.

Part 2 is executable GLUE from text to these views (tokenizer, decimal parsers, correctly rounded
decimal -> f64).  For the canonical spelling (single blanks, plain numerals) it is proved correct in
Proofs/PlierGlue.lean and Proofs/PlierText.lean; other spellings and the f64 conversion are exercised by
the correspondence run only.

Abstractions: allocation (`Vec::reserve(n)` with the node count announced in the DIMACS problem line
and `Vec::with_capacity(count)` in DDSG are not modelled: a count beyond what the allocator grants
aborts the real program); DIMACS node id 0 (`edge.source -= 1` wraps in release builds and panics in
debug builds) is modelled as a panic; only ASCII text is modelled (`mkLine` answers `none` otherwise).
IEEE arithmetic is executed with Lean `Float` (division by 100000, multiplication by 1000000,
saturating conversion to i32), never reasoned about.
-/
namespace Tbx.GraphFiles
open Tbx.Bincode

/-! ## Part 1: token-level model -/

/-- one whitespace-separated token, seen through the `parse` calls of the loaders -/
structure Tok where
  nat? : Option Nat      -- str::parse::<usize>() / ::<NodeID>()
  i32? : Option Int      -- str::parse::<i32>()
  f64? : Option Float    -- str::parse::<f64>()

/-- the views the loaders take of one line of text -/
structure Line where
  first  : Option Char   -- line.chars().next()
  isD    : Bool          -- line == "d"
  toks   : List Tok      -- line.split_whitespace() / split_ascii_whitespace()
  rest2  : List Tok      -- line.get(2..).unwrap_or("").split_whitespace()
  tail12 : Option Nat    -- line.get(12..).unwrap_or("").parse::<usize>().ok()
  whole  : Option Nat    -- line.parse::<usize>().ok()

/-- prepend to a possibly panicked result -/
def consO {α : Type} (x : α) : Option (List α) → Option (List α)
  | some xs => some (x :: xs)
  | none => none

def appendO {α : Type} (xs : List α) : Option (List α) → Option (List α)
  | some ys => some (xs ++ ys)
  | none => none

/-! ### DIMACS -/

/-- the `for line in read_lines(..)` loop of `dimacs::read_graph`; ids still 1-based -/
def dimacsGraphRaw : List Line → Option (List InputEdge)
  | [] => some []
  | l :: ls =>
    match l.first with
    | none => none                                   -- chars().next().unwrap() on an empty line
    | some c =>
      if c = 'c' then dimacsGraphRaw ls
      else if c = 'p' then
        match l.toks with
        | _ :: _ :: a :: _ :: _ =>                   -- [2..4] of the tokens of the whole line
          match a.nat? with                          -- edges.reserve(sizes[0].parse().unwrap())
          | some _ => dimacsGraphRaw ls
          | none => none
        | _ => none
      else if c = 'a' then
        match l.rest2 with
        | [a, b, d] =>
          match a.nat?, b.nat? with
          | some u, some v =>
            if u = v then dimacsGraphRaw ls          -- avoid eigenloops (before the weight is parsed)
            else
              match d.nat? with
              | some w => consO ⟨u, v, w⟩ (dimacsGraphRaw ls)
              | none => none
          | _, _ => none
        | _ => dimacsGraphRaw ls                     -- tokens.len() != 3 => continue
      else dimacsGraphRaw ls

/-- `for edge in &mut edges { edge.source -= 1; edge.target -= 1; }` -/
def shiftAll : List InputEdge → Option (List InputEdge)
  | [] => some []
  | e :: es =>
    if e.source = 0 ∨ e.target = 0 then none
    else consO ⟨e.source - 1, e.target - 1, e.data⟩ (shiftAll es)

/-- `dimacs::read_graph(.., WeightType::Original)` -/
def dimacsGraph (ls : List Line) : Option (List InputEdge) :=
  match dimacsGraphRaw ls with
  | none => none
  | some es => shiftAll es

/-- `dimacs::read_coordinates` (release build: the two debug_asserts are not evaluated) -/
def dimacsCoords : List Line → Option (List FPCoordinate)
  | [] => some []
  | l :: ls =>
    match l.first with
    | none => none
    | some c =>
      if c = 'c' then dimacsCoords ls
      else if c = 'p' then
        match l.tail12 with
        | some _ => dimacsCoords ls
        | none => none
      else if c = 'v' then
        match l.rest2 with
        | a :: b :: d :: _ =>
          match a.nat?, b.i32?, d.i32? with
          | some _, some lon, some lat => consO ⟨lat, lon⟩ (dimacsCoords ls)   -- FPCoordinate::new(lat, lon)
          | _, _, _ => none
        | _ => none
      else dimacsCoords ls

/-! ### METIS -/

/-- `for token in tokens` of one adjacency line -/
def metisLine (n source : Nat) : List Tok → Option (List InputEdge)
  | [] => some []
  | t :: ts =>
    match t.nat? with
    | none => none
    | some x =>
      if x = 0 then none                             -- `- 1` underflows (debug) / wraps and fails the assert
      else if ¬ (x - 1 < n) then none                -- assert!(target < number_of_nodes)
      else if source = x - 1 then metisLine n source ts
      else consO ⟨source, x - 1, 1⟩ (metisLine n source ts)

/-- `for (source, line) in lines.enumerate()` -/
def metisLoop (n : Nat) : Nat → List Line → Option (List InputEdge)
  | _, [] => some []
  | source, l :: ls =>
    if ¬ (source < n) then none                      -- assert!(source < number_of_nodes)
    else
      match metisLine n source l.toks with
      | none => none
      | some es => appendO es (metisLoop n (source + 1) ls)

/-- `metis::read_graph` -/
def metisGraph : List Line → Option (List InputEdge)
  | [] => none                                       -- lines.next().unwrap()
  | l :: ls =>
    match l.toks with
    | [] => none                                     -- sizes[0]
    | t :: _ =>
      match t.nat? with
      | none => none
      | some n => metisLoop n 0 ls

/-- `(x * 1000000.) as i32` -/
def toMicro (x : Float) : Int := (x * 1000000.0).toInt32.toInt

/-- `FPCoordinate::new_from_lat_lon` -/
def fromLatLon (lat lon : Float) : FPCoordinate := ⟨toMicro lat, toMicro lon⟩

/-- `metis::read_coordinates` -/
def metisCoords : List Line → Option (List FPCoordinate)
  | [] => some []
  | l :: ls =>
    match l.toks with
    | a :: b :: _ =>
      match a.f64?, b.f64? with
      | some x, some y => consO (fromLatLon (y / 100000.0) (x / 100000.0)) (metisCoords ls)
      | _, _ => none
    | _ => none

/-! ### DDSG -/

/-- the `match direction` of `ddsg::read_graph` -/
def ddsgExpand (u v w : Nat) (code : Int) : Option (List InputEdge) :=
  if code = 0 then some [⟨u, v, w⟩, ⟨v, u, w⟩]
  else if code = 1 then some [⟨u, v, w⟩]
  else if code = 2 then some [⟨v, u, w⟩]
  else if code = 3 then some []
  else none                                          -- Direction::try_from(..).unwrap()

def ddsgLoop : List Line → Option (List InputEdge)
  | [] => some []
  | l :: ls =>
    match l.toks with
    | [a, b, c, d] =>
      match a.nat?, b.nat? with
      | some u, some v =>
        if u = v then ddsgLoop ls                    -- avoid eigenloops (before weight and direction are parsed)
        else
          match c.nat?, d.i32? with
          | some w, some code =>
            match ddsgExpand u v w code with
            | some es => appendO es (ddsgLoop ls)
            | none => none
          | _, _ => none
      | _, _ => none
    | _ => ddsgLoop ls                               -- tokens.len() != 4 => continue

/-- `ddsg::read_graph(.., WeightType::Original)` -/
def ddsgGraph : List Line → Option (List InputEdge)
  | [] => none
  | l0 :: ls =>
    if l0.isD = false then some []                   -- first_line != "d" => return the empty list
    else
      match ls with
      | [] => none
      | l1 :: body =>
        match l1.toks with
        | _ :: _ :: _ => ddsgLoop body               -- sizes[0], sizes[1] are only logged
        | _ => none

def ddsgCoordLoop : Nat → List Line → Option (List FPCoordinate)
  | _, [] => some []
  | k, l :: ls =>
    match l.toks with
    | a :: b :: d :: _ =>
      match a.nat? with
      | none => none
      | some i =>
        if i ≠ k then none                           -- assert_eq!(count, coordinates.len())
        else
          match b.f64?, d.f64? with
          | some x, some y => consO (fromLatLon (y / 100000.0) (x / 100000.0)) (ddsgCoordLoop (k + 1) ls)
          | _, _ => none
    | _ => none

/-- `ddsg::read_coordinates` -/
def ddsgCoords : List Line → Option (List FPCoordinate)
  | [] => none
  | l0 :: ls =>
    match l0.whole with
    | none => none
    | some cnt =>
      match ddsgCoordLoop 0 ls with
      | none => none
      | some cs => if cnt = cs.length then some cs else none   -- assert_eq!(coordinate_count, coordinates.len())

/-! ### graph_plier -/

inductive Format where
  | dimacs | metis | ddsg
deriving DecidableEq, Repr, Inhabited

def readGraph : Format → List Line → Option (List InputEdge)
  | .dimacs => dimacsGraph
  | .metis => metisGraph
  | .ddsg => ddsgGraph

def readCoordinates : Format → List Line → Option (List FPCoordinate)
  | .dimacs => dimacsCoords
  | .metis => metisCoords
  | .ddsg => ddsgCoords

/-- graph_plier's `main`: both files are read before anything is written; the result is the content of
`<graph>.toolbox` and `<coordinates>.toolbox` -/
def plier (fmt : Format) (g c : List Line) : Option (List Nat × List Nat) :=
  match readGraph fmt g with
  | none => none
  | some es =>
    match readCoordinates fmt c with
    | none => none
    | some cs => some (encodeEdges es, encodeCoords cs)

/-! ## Part 2: glue from text to the views (executable only) -/

/-- `char::is_ascii_whitespace` -/
def isAsciiWs (c : Char) : Bool :=
  c == ' ' || c == '\t' || c == '\n' || c == '\x0c' || c == '\r'

/-- `char::is_whitespace` restricted to ASCII (adds VT) -/
def isWs (c : Char) : Bool := isAsciiWs c || c == '\x0b'

def splitAux (p : Char → Bool) : List Char → List Char → List (List Char)
  | [], cur => if cur.isEmpty then [] else [cur.reverse]
  | c :: cs, cur =>
    if p c then (if cur.isEmpty then splitAux p cs [] else cur.reverse :: splitAux p cs [])
    else splitAux p cs (c :: cur)

/-- `split_whitespace().collect_vec()` on ASCII text -/
def splitWs (cs : List Char) : List (List Char) := splitAux isWs cs []

def digitVal (c : Char) : Option Nat :=
  if c.isDigit then some (c.toNat - '0'.toNat) else none

/-- all characters are decimal digits: the number; `none` on an empty list or a non-digit -/
def digitsVal : List Char → Option Nat
  | [] => none
  | cs => cs.foldl (fun acc c => match acc, digitVal c with
                                 | some a, some d => some (10 * a + d)
                                 | _, _ => none) (some 0)

/-- an optional leading '+' -/
def stripPlus : List Char → List Char
  | '+' :: r => r
  | r => r

/-- `usize::from_str` (64 bit): optional '+', digits, no overflow -/
def parseUsize (cs : List Char) : Option Nat :=
  match digitsVal (stripPlus cs) with
  | some n => if n < 18446744073709551616 then some n else none
  | none => none

/-- `i32::from_str`: optional '+' or '-', digits, no overflow -/
def parseI32 (cs : List Char) : Option Int :=
  match cs with
  | '-' :: r =>
    match digitsVal r with
    | some n => if n ≤ 2147483648 then some (- Int.ofNat n) else none
    | none => none
  | _ =>
    match digitsVal (stripPlus cs) with
    | some n => if n ≤ 2147483647 then some (Int.ofNat n) else none
    | none => none

/-- nearest binary64 (ties to even) of num/den (den > 0), as bits without the sign -/
def ratToF64Bits (num den : Nat) : UInt64 :=
  if num = 0 ∨ den = 0 then 0
  else
    -- e with 2^52 <= num/den * 2^(-e) < 2^53, estimated from the bit lengths and corrected
    let e0 : Int := (Int.ofNat num.log2) - (Int.ofNat den.log2) - 52
    let quot (e : Int) : Nat × Nat × Nat :=      -- (q, r, D) with num/den * 2^(-e) = q + r/D
      if e ≥ 0 then
        let d := den * 2 ^ e.toNat
        (num / d, num % d, d)
      else
        let n := num * 2 ^ (-e).toNat
        (n / den, n % den, den)
    let q0 := (quot e0).1
    let e1 : Int := if q0 ≥ 2 ^ 53 then e0 + 1 else if q0 < 2 ^ 52 then e0 - 1 else e0
    let e : Int := if e1 < -1074 then -1074 else e1
    let (q, r, d) := quot e
    let q := if 2 * r > d ∨ (2 * r = d ∧ q % 2 = 1) then q + 1 else q
    let (q, e) := if q ≥ 2 ^ 53 then (q / 2, e + 1) else (q, e)
    if q < 2 ^ 52 then UInt64.ofNat q          -- subnormal (e = -1074) or zero
    else
      let biased : Int := e + 1075
      if biased ≥ 2047 then 0x7FF0000000000000
      else UInt64.ofNat (biased.toNat * 2 ^ 52 + (q - 2 ^ 52))

def lower (cs : List Char) : List Char := cs.map Char.toLower

def decDigitsLen (n : Nat) : Nat := (Nat.toDigits 10 n).length

/-- `f64::from_str`: [+-]? (inf | infinity | nan | digits [. digits] [e [+-] digits]) with at least one
mantissa digit; correctly rounded -/
def parseF64 (cs : List Char) : Option Float :=
  let (neg, body) := match cs with
    | '-' :: r => (true, r)
    | '+' :: r => (false, r)
    | r => (false, r)
  let signBit : UInt64 := if neg then 0x8000000000000000 else 0
  let lb := lower body
  if lb = "inf".toList ∨ lb = "infinity".toList then some (Float.ofBits (signBit ||| 0x7FF0000000000000))
  else if lb = "nan".toList then some (Float.ofBits 0x7FF8000000000000)
  else
    let intPart := body.takeWhile Char.isDigit
    let r1 := body.dropWhile Char.isDigit
    let (fracPart, r2) := match r1 with
      | '.' :: r => (r.takeWhile Char.isDigit, r.dropWhile Char.isDigit)
      | r => ([], r)
    if intPart.isEmpty ∧ fracPart.isEmpty then none
    else
      let expo : Option Int := match r2 with
        | [] => some 0
        | c :: r =>
          if c = 'e' ∨ c = 'E' then
            match r with
            | '-' :: ds => (digitsVal ds).map (fun n => - Int.ofNat n)
            | '+' :: ds => (digitsVal ds).map Int.ofNat
            | ds => (digitsVal ds).map Int.ofNat
          else none
      match expo with
      | none => none
      | some ex =>
        let m := ((intPart ++ fracPart).foldl (fun a c => 10 * a + (c.toNat - '0'.toNat)) 0 : Nat)
        let p : Int := ex - Int.ofNat fracPart.length
        let d : Int := Int.ofNat (decDigitsLen m)
        let bits : UInt64 :=
          if m = 0 then 0
          else if d + p ≤ -330 then 0
          else if d - 1 + p ≥ 310 then 0x7FF0000000000000
          else if p ≥ 0 then ratToF64Bits (m * 10 ^ p.toNat) 1
          else ratToF64Bits m (10 ^ (-p).toNat)
        some (Float.ofBits (signBit ||| bits))

def mkTok (cs : List Char) : Tok := ⟨parseUsize cs, parseI32 cs, parseF64 cs⟩

/-- printable ASCII, tab or CR -/
def okChar (c : Char) : Bool :=
  !(decide (c.toNat ≥ 127) || (decide (c.toNat < 32) && c != '\t' && c != '\r'))

/-- the views of one line; `none` for text outside the modelled domain (printable ASCII, tab, CR: there
`split_whitespace` and `split_ascii_whitespace` coincide and `get(k..)` is `drop k`) -/
def viewsOf (cs : List Char) : Line :=
  { first := cs.head?
    isD := cs == ['d']
    toks := (splitWs cs).map mkTok
    rest2 := (splitWs (cs.drop 2)).map mkTok
    tail12 := parseUsize (cs.drop 12)
    whole := parseUsize cs }

def mkLineC (cs : List Char) : Option Line :=
  if cs.all okChar then some (viewsOf cs) else none

def mkLinesC : List (List Char) → Option (List Line)
  | [] => some []
  | cs :: r =>
    match mkLineC cs, mkLinesC r with
    | some l, some ls => some (l :: ls)
    | _, _ => none

def mkLine (s : String) : Option Line := mkLineC s.toList

def mkLines (ss : List String) : Option (List Line) := mkLinesC (ss.map String.toList)

end Tbx.GraphFiles
