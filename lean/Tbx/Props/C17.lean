import Tbx.Model.Radix
import Tbx.Model.RadixLegacy
import Tbx.Spec.SortOrder
import Tbx.Gen.Consts
import Tbx.Proofs.RadixLSD
import Tbx.Proofs.RadixHist
import Tbx.Proofs.RadixPartial
/-
C17 — radix sort sorts every supported element type.

Property theorems only (helper lemmas: Tbx/Proofs/Radix{Arith,Bucket,LSD,Hist}.lean); registered in
Tbx/Audit/C17.lean.  Types are `(width in bytes, kind)`, elements are bit patterns `< 256^w`.
The Spec (`SortSpec.IsSortOf`, order `SortSpec.le`) is in Tbx/Spec/SortOrder.lean.
-/
namespace Tbx.Props.C17
open Tbx Tbx.Radix Tbx.SortSpec

/-- the judge's executable check is exactly the Spec -/
theorem judge_sound (t : Ty) (inp out : List Nat) : checkB t inp out = true ↔ IsSortOf t inp out :=
  checkB_iff t inp out

/-- the judge accepts the sorted D15 witness and rejects the output the old code produced -/
example : sortedAdjB (leB ⟨4, .float⟩) [0xC0000000, 0xBF800000, 0xBF000000, 0x40400000] = true ∧
    sortedAdjB (leB ⟨4, .float⟩) [0xC0000000, 0xBF000000, 0xBF800000, 0x40400000] = false := by decide

/-! ### G2: the `is_signed!` table (about text regenerated from /repo on every run) -/

/-- `iN`/`isize` by name -/
def namedSigned (s : String) : Bool := s.front == 'i'

/-- every integer type handed to `invoke_macro_for_types!(radix_type, …)` whose name starts with 'i' has an
    `is_signed!` arm, and no unsigned type has one -/
theorem type_table_complete :
    ∀ n ∈ Tbx.Gen.rdxIntTypes, (n ∈ Tbx.Gen.rdxSignedArms ↔ namedSigned n = true) := by decide

/-- non-vacuity: the regenerated list contains signed and unsigned types (incl. the D14 type `isize`) -/
example : "isize" ∈ Tbx.Gen.rdxIntTypes ∧ "usize" ∈ Tbx.Gen.rdxIntTypes ∧ "i128" ∈ Tbx.Gen.rdxIntTypes := by decide

/-- D14 regression is recognised: without the `isize` arm the statement is false -/
example : ¬ ∀ n ∈ ["u8", "usize", "i8", "i64", "isize"],
    (n ∈ ["i8", "i16", "i32", "i64", "i128"] ↔ namedSigned n = true) := by decide

/-! ### bucket level -/

/-- a pass is a stable permutation that groups by key in the pass's bucket order:
    (1) permutation, (2) every bucket keeps the relative order of its elements, (3) elements appear by
    non-decreasing rank of their bucket -/
theorem pass_stable_perm (t : Ty) (k : Nat) (xs : List Nat) :
    (pass t k xs).Perm xs ∧
    (∀ b, b < 256 → (pass t k xs).filter (fun x => key t x k == b) = xs.filter (fun x => key t x k == b)) ∧
    (pass t k xs).Pairwise (fun a b => rank t k (key t a k) ≤ rank t k (key t b k)) :=
  ⟨pass_perm t k xs, pass_stable t k xs, pass_grouped t k xs⟩

/-- the last round of a signed type: bucket 0xFF (−1), bucket 0x00 (5, 3), bucket 0xC0 (MIN/2): negatives first,
    ascending; 5 stays before 3 (stability) -/
example : pass ⟨4, .signed⟩ 3 [0xFFFFFFFF, 5, 0xC0000000, 3] = [0xC0000000, 0xFFFFFFFF, 5, 3] := by decide

/-- a round is skipped exactly when one bucket holds all n elements, and then the pass it replaces is the
    identity on every arrangement of the input (the skip table is computed once, from the input's histograms) -/
theorem skip_sound (t : Ty) (k : Nat) (xs : List Nat) :
    (skipRound t k xs = true ↔ ∃ b, b < 256 ∧ xs.countP (fun x => key t x k == b) = xs.length) ∧
    (skipRound t k xs = true → ∀ l : List Nat, l.Perm xs → pass t k l = l) := by
  refine ⟨skipRound_iff t k xs, ?_⟩
  intro h l hp
  rcases skipRound_all t k xs h with ⟨b, hb, hall⟩
  exact pass_of_all_eq t k l b hb (fun x hx => hall x (hp.subset hx))

/-- round 1 of `[0x0105, 0x0107, 0x0101] : u16` is skipped (all high bytes are 0x01), round 0 is not -/
example : skipRound ⟨2, .unsigned⟩ 1 [0x0105, 0x0107, 0x0101] = true ∧
    skipRound ⟨2, .unsigned⟩ 0 [0x0105, 0x0107, 0x0101] = false := by decide +kernel

/-- the float key transform (all bits flipped for negative values, sign bit set otherwise) is strictly
    monotone from IEEE totalOrder on sign–magnitude patterns to the unsigned order -/
theorem float_key_monotone (t : Ty) (hw : 0 < t.w) (a b : Nat) (ha : a < t.card) (hb : b < t.card) :
    (fle t a b ↔ floatTr t a ≤ floatTr t b) ∧ (¬ fle t b a ↔ floatTr t a < floatTr t b) :=
  float_key_monotone' t hw a b ha hb

/-- −1.0 ≤ 0.5, −0.0 < +0.0, −2.0 < −1.0 in the Spec's order on f32 patterns -/
example : fle ⟨4, .float⟩ 0xBF800000 0x3F000000 ∧
    (fle ⟨4, .float⟩ 0x80000000 0 ∧ ¬ fle ⟨4, .float⟩ 0 0x80000000) ∧
    (fle ⟨4, .float⟩ 0xC0000000 0xBF800000 ∧ ¬ fle ⟨4, .float⟩ 0xBF800000 0xC0000000) := by decide

/-- LSD: after the rounds 0..w−1 (each a pass in its bucket order, or skipped) the list is a permutation of
    the input sorted in the type's order: unsigned numeric; signed two's complement (the last round lays
    out the buckets 0x80..0xFF before 0x00..0x7F); floats IEEE totalOrder through `float_key_monotone`;
    bool false < true -/
theorem lsd_sorted (t : Ty) (hw : 0 < t.w) (xs : List Nat) (hx : ∀ x ∈ xs, x < t.card) :
    IsSortOf t xs (sortB t xs) :=
  sortB_sorted t hw xs hx

/-- the D13 witness `[-1, i32::MIN/2]` satisfies the hypotheses and is sorted by the model -/
example : (0 < (⟨4, .signed⟩ : Ty).w) ∧ (∀ x ∈ [0xFFFFFFFF, 0xC0000000], x < (⟨4, .signed⟩ : Ty).card) := by decide
example : sortB ⟨4, .signed⟩ [0xFFFFFFFF, 0xC0000000] = [0xC0000000, 0xFFFFFFFF] := by decide +kernel
/-- D14 witness `[-1isize, 5, -7]`, D15 witness `[-1.0, -2.0, 3.0, -0.5]` -/
example : sortB ⟨8, .signed⟩ [0xFFFFFFFFFFFFFFFF, 5, 0xFFFFFFFFFFFFFFF9] =
    [0xFFFFFFFFFFFFFFF9, 0xFFFFFFFFFFFFFFFF, 5] := by decide +kernel
example : sortB ⟨4, .float⟩ [0xBF800000, 0xC0000000, 0x40400000, 0xBF000000] =
    [0xC0000000, 0xBF800000, 0xBF000000, 0x40400000] := by decide +kernel

/-! ### histogram level -/

/-- the histogram-level model (one-pass histograms, prefix sums incl. the signed last round, skip table,
    placement with running offsets, buffer swap) returns `some` — i.e. every `get_unchecked` index it
    computes is in bounds — and its result is the bucket-level sort -/
theorem placement_eq_buckets (t : Ty) (xs : Array Nat) :
    ∃ a, radixSort t xs = some a ∧ a.toList = sortB t xs.toList :=
  radixSort_eq_sortB t xs

/-- one permutation round in isolation: with the row of start offsets computed by the prefix phase
    (`RowOK`) and an output buffer of length n, the placement loop performs n in-bounds writes and leaves
    the concatenation of the buckets in the output -/
theorem placement_round (t : Ty) (k : Nat) (l : List Nat) (offs out : Array Nat)
    (hrow : RowOK t k (cnt t k l) offs) (hout : out.size = l.length) :
    ∃ offs' out', place t k l offs out = some (offs', out') ∧ out'.toList = pass t k l ∧ out'.size = out.size :=
  place_eq_pass t k l offs out hrow hout

/-- non-vacuity of `placement_round`: the prefix phase produces such a row from the histogram row -/
example (t : Ty) (n k : Nat) (h : Array Nat) (hs : h.size = 256) :
    RowOK t k (gt h) (prefixRound t n k h false).1 := (prefixRound_spec t n k h hs).1

example : ∃ a, radixSort ⟨4, .signed⟩ #[0xFFFFFFFF, 0xC0000000] = some a ∧ a.toList = [0xC0000000, 0xFFFFFFFF] := by
  rcases placement_eq_buckets ⟨4, .signed⟩ #[0xFFFFFFFF, 0xC0000000] with ⟨a, h1, h2⟩
  refine ⟨a, h1, h2.trans ?_⟩
  decide +kernel

/-! ### headline -/

/-- radix sort (histogram-level model) terminates without an out-of-bounds access and leaves a permutation
    of its input in non-decreasing order of the element type -/
theorem radix_sorts (t : Ty) (hw : 0 < t.w) (xs : Array Nat) (hx : ∀ x ∈ xs.toList, x < t.card) :
    ∃ a, radixSort t xs = some a ∧ IsSortOf t xs.toList a.toList := by
  rcases placement_eq_buckets t xs with ⟨a, h1, h2⟩
  exact ⟨a, h1, h2 ▸ lsd_sorted t hw xs.toList hx⟩

/-- … identical to what a standard (stable, comparison) sort by the same order produces; for floats the
    order is totalOrder, so the equality is bitwise (−0.0 before +0.0) -/
theorem eq_std_sort (t : Ty) (hw : 0 < t.w) (xs : Array Nat) (hx : ∀ x ∈ xs.toList, x < t.card) :
    radixSort t xs = some (xs.toList.mergeSort (leB t)).toArray := by
  rcases radix_sorts t hw xs hx with ⟨a, h1, hp, hs⟩
  rw [h1]
  have tr : ∀ a b c : Nat, leB t a b = true → leB t b c = true → leB t a c = true := by
    intro a b c; simp only [leB, decide_eq_true_eq]; exact le_trans t
  have tot : ∀ a b : Nat, (leB t a b || leB t b a) = true := by
    intro a b; simp only [leB, Bool.or_eq_true, decide_eq_true_eq]; exact le_total t a b
  have hm : (xs.toList.mergeSort (leB t)).Pairwise (le t) := by
    have := List.pairwise_mergeSort tr tot xs.toList
    simpa [leB] using this
  have hpm : a.toList.Perm (xs.toList.mergeSort (leB t)) := hp.trans (List.mergeSort_perm _ _).symm
  have e : a.toList = xs.toList.mergeSort (leB t) :=
    List.Perm.eq_of_pairwise (le := le t)
      (fun x y hx' hy' h1 h2 =>
        le_antisymm t hw x y (hx x (hp.subset hx')) (hx y ((List.mergeSort_perm _ _).subset hy')) h1 h2)
      hs hm hpm
  rw [← e]

/-- non-vacuity: the mixed-sign i32 vector `[-1, 5, MIN/2, 0, MAX]` satisfies the hypotheses -/
example : (0 < (⟨4, .signed⟩ : Ty).w) ∧
    (∀ x ∈ (#[0xFFFFFFFF, 5, 0xC0000000, 0, 0x7FFFFFFF] : Array Nat).toList, x < (⟨4, .signed⟩ : Ty).card) := by decide

/-- floats, `partial_cmp` reading: the radix-sorted vector is `==`-equal, element by element, to the stable
    standard sort by `partial_cmp` (which leaves −0.0 and +0.0 in input order, whereas radix sort puts −0.0
    first); stated on the `==`-representatives `canon` (−0.0 ↦ +0.0), `feqB a b ↔ canon a = canon b` -/
theorem eq_std_partial_sort (t : Ty) (hw : 0 < t.w) (hf : t.kind = .float) (xs : Array Nat)
    (hx : ∀ x ∈ xs.toList, x < t.card) :
    ∃ a, radixSort t xs = some a ∧
      a.toList.map (canon t) = (xs.toList.mergeSort (pleB t)).map (canon t) ∧
      (∀ x y, x < t.card → y < t.card → (feqB t x y = true ↔ canon t x = canon t y)) := by
  rcases placement_eq_buckets t xs with ⟨a, h1, h2⟩
  exact ⟨a, h1, h2 ▸ sortB_eq_partial_sort t hw hf xs.toList hx, fun x y hx' hy' => feqB_iff_canon t hw x y hx' hy'⟩

/-- non-vacuity: `[+0.0, −0.0, −1.0, +0.0]` as f32 satisfies the hypotheses; the two sorts differ bitwise there
    (radix: −1.0, −0.0, +0.0, +0.0; partial_cmp: −1.0, +0.0, −0.0, +0.0) but agree under `canon` -/
example : (0 < (⟨4, .float⟩ : Ty).w) ∧ (⟨4, .float⟩ : Ty).kind = .float ∧
    (∀ x ∈ (#[0, 0x80000000, 0xBF800000, 0] : Array Nat).toList, x < (⟨4, .float⟩ : Ty).card) ∧
    sortB ⟨4, .float⟩ [0, 0x80000000, 0xBF800000, 0] = [0xBF800000, 0x80000000, 0, 0] ∧
    [0xBF800000, 0x80000000, 0, 0].map (canon ⟨4, .float⟩) = [0xBF800000, 0, 0x80000000, 0].map (canon ⟨4, .float⟩) := by
  refine ⟨by decide, rfl, by decide, by decide +kernel, by decide⟩

/-! ### the fixed defects D13, D14, D15 violate the statement on their witnesses (legacy model) -/

/-- D13: `[-1, i32::MIN/2]` stayed as it was -/
example : RadixLegacy.sortL 4 true [0xFFFFFFFF, 0xC0000000] = [0xFFFFFFFF, 0xC0000000] ∧
    ¬ [0xFFFFFFFF, 0xC0000000].Pairwise (le ⟨4, .signed⟩) := by
  constructor
  · decide +kernel
  · decide
/-- D14: `[-1isize, 5, -7]` sorted as unsigned gives `[5, -7, -1]` -/
example : RadixLegacy.sortL 8 false [0xFFFFFFFFFFFFFFFF, 5, 0xFFFFFFFFFFFFFFF9] =
      [5, 0xFFFFFFFFFFFFFFF9, 0xFFFFFFFFFFFFFFFF] ∧
    ¬ [5, 0xFFFFFFFFFFFFFFF9, 0xFFFFFFFFFFFFFFFF].Pairwise (le ⟨8, .signed⟩) := by
  constructor
  · decide +kernel
  · decide
/-- D15: `[-1.0, -2.0, 3.0, -0.5]` came out as `[-2.0, -0.5, -1.0, 3.0]` -/
example : RadixLegacy.sortL 4 true [0xBF800000, 0xC0000000, 0x40400000, 0xBF000000] =
      [0xC0000000, 0xBF000000, 0xBF800000, 0x40400000] ∧
    ¬ [0xC0000000, 0xBF000000, 0xBF800000, 0x40400000].Pairwise (le ⟨4, .float⟩) := by
  constructor
  · decide +kernel
  · decide

end Tbx.Props.C17
