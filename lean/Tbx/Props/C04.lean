import Tbx.Model.Bound
import Tbx.Proofs.Bound
/-
C04 — sharing an upper bound between concurrent flow runs never changes the winner.

All theorems hold for every number of processes N, every phase list, every initial bound and
every schedule, including schedules in which loads return stale values (`Admissible`).
-/
namespace Tbx.Props.C04
open Tbx.Bound

/-- invariant of every reachable state: the bound is below the initial bound and below every
    finished flow, is attained by one of them, never exceeds a value it held before, and is at
    least any number below the initial bound and all true flows -/
theorem reachable_inv {N} (P : Fin N → Proc) (B0 : Int) (sched : List (Fin N × Int)) :
    Inv P B0 (run P (init B0) sched) :=
  inv_run P B0 (init B0) sched (inv_init P B0)

/-- afterwards the bound equals the minimum of its initial value and all completed flows -/
theorem final_bound_eq_min {N} (P : Fin N → Proc) (B0 : Int) (sched : List (Fin N × Int)) :
    (run P (init B0) sched).bound ≤ B0 ∧
    (∀ i, (run P (init B0) sched).st i = .finished → (run P (init B0) sched).bound ≤ (P i).F) ∧
    ((run P (init B0) sched).bound = B0 ∨
      ∃ i, (run P (init B0) sched).st i = .finished ∧ (run P (init B0) sched).bound = (P i).F) :=
  final_bound P B0 sched

/-- a computation whose true flow is the smallest one and does not exceed the initial bound is never aborted,
    whatever the interleaving and however stale the loaded values are -/
theorem minimal_never_aborted {N} (P : Fin N → Proc) (hP : WF P) (B0 : Int) (i : Fin N)
    (hmin : ∀ j, (P i).F ≤ (P j).F) (hB : (P i).F ≤ B0)
    (sched : List (Fin N × Int)) (hadm : Admissible P (init B0) sched) :
    (run P (init B0) sched).st i ≠ .aborted :=
  minimal_never_aborts P hP B0 i hmin hB (init B0) sched (inv_init P B0) hadm (by simp [init])

/-- hence in every maximal schedule (no computation still running) it has completed -/
theorem minimal_complete {N} (P : Fin N → Proc) (hP : WF P) (B0 : Int) (i : Fin N)
    (hmin : ∀ j, (P i).F ≤ (P j).F) (hB : (P i).F ≤ B0)
    (sched : List (Fin N × Int)) (hadm : Admissible P (init B0) sched)
    (hmax : ∀ pc, (run P (init B0) sched).st i ≠ .running pc) :
    (run P (init B0) sched).st i = .finished := by
  have h := minimal_never_aborted P hP B0 i hmin hB sched hadm
  cases hs : (run P (init B0) sched).st i with
  | running pc => exact absurd hs (hmax pc)
  | aborted => exact absurd hs h
  | finished => rfl

/-- a computation only completes after executing every one of its phases: nothing is skipped,
    so the value it reports is the flow of its unbounded run (the true maximum flow by C01) -/
theorem step_finishes_only_at_end {N} (P : Fin N → Proc) (s : St N) (i j : Fin N) (v : Int)
    (h : (step P s i v).st j = .finished) :
    s.st j = .finished ∨ (j = i ∧ s.st i = .running (P i).phases.length ∨
                          j = i ∧ ∃ pc, s.st i = .running pc ∧ (P i).phases.length ≤ pc) := by
  unfold step at h
  split at h
  · rename_i pc hst
    split at h
    · split at h
      · by_cases e : j = i
        · simp [e] at h
        · simp [e] at h; exact Or.inl h
      · by_cases e : j = i
        · simp [e] at h
        · simp [e] at h; exact Or.inl h
    · rename_i hpc
      by_cases e : j = i
      · right; right; exact ⟨e, pc, hst, by omega⟩
      · simp [e] at h; exact Or.inl h
  · exact Or.inl h

/-! ### the sequential clause (one computation, loads see the current value) -/

/-- `k` events of the only process, each load observing the current bound -/
def seqRun (P : Fin 1 → Proc) : Nat → St 1 → St 1
  | 0, s => s
  | k + 1, s => seqRun P k (step P s 0 s.bound)

theorem seq_run_aux (P : Fin 1 → Proc) (B0 : Int) (k pc : Nat) (s : St 1)
    (hb : s.bound = B0) (hs : s.st 0 = .running pc) (hk : pc + k = (P 0).phases.length + 1)
    (hle : pc ≤ (P 0).phases.length) :
    ((∃ q, pc ≤ q ∧ ∃ h : q < (P 0).phases.length, (P 0).phases[q] > B0) →
        (seqRun P k s).st 0 = .aborted ∧ (seqRun P k s).bound = B0) ∧
    ((∀ q, pc ≤ q → ∀ h : q < (P 0).phases.length, (P 0).phases[q] ≤ B0) →
        (seqRun P k s).st 0 = .finished ∧ (seqRun P k s).bound = min B0 (P 0).F) := by
  induction k generalizing pc s with
  | zero => omega
  | succ k ih =>
    simp only [seqRun]
    by_cases hpc : pc < (P 0).phases.length
    · by_cases hgt : (P 0).phases[pc] > B0
      · -- aborts now; later events do nothing
        have hstep : (step P s 0 s.bound).st 0 = .aborted ∧ (step P s 0 s.bound).bound = B0 := by
          unfold step; rw [hs]; simp [hpc, hb, hgt]
        have hfix : ∀ n (t : St 1), t.st 0 = .aborted → seqRun P n t = t := by
          intro n; induction n with
          | zero => intro t _; rfl
          | succ n ihn =>
            intro t ht
            have : step P t 0 t.bound = t := by unfold step; rw [ht]
            simp only [seqRun, this]; exact ihn t ht
        rw [hfix k _ hstep.1]
        refine ⟨fun _ => hstep, fun hall => ?_⟩
        have := hall pc (Nat.le_refl _) hpc
        omega
      · have hst : (step P s 0 s.bound).st 0 = .running (pc + 1) ∧ (step P s 0 s.bound).bound = B0 := by
          unfold step; rw [hs]; simp [hpc, hb, hgt]
        obtain ⟨ih1, ih2⟩ := ih (pc + 1) _ hst.2 hst.1 (by omega) (by omega)
        refine ⟨fun ⟨q, hq, hlt, hqq⟩ => ih1 ⟨q, ?_, hlt, hqq⟩, fun hall => ih2 (fun q hq hlt => hall q (by omega) hlt)⟩
        rcases Nat.lt_or_ge pc q with h1 | h1
        · omega
        · have : q = pc := by omega
          subst this; omega
    · -- all phases done: fetch_min; then k = 0
      have hk0 : k = 0 := by omega
      subst hk0
      have hst : (step P s 0 s.bound).st 0 = .finished ∧ (step P s 0 s.bound).bound = min B0 (P 0).F := by
        unfold step; rw [hs]; simp [hpc, hb]
      simp only [seqRun]
      refine ⟨fun ⟨q, hq, hlt, _⟩ => by omega, fun _ => hst⟩

/-- Sequentially: with a bound below the true flow the run ends without a result and leaves the bound
    untouched; with a bound at or above it the run completes and lowers the bound to the flow.
    (`hlast`: the last phase's accumulated flow is the true flow; `hle`: earlier ones do not exceed it.) -/
theorem sequential (P : Fin 1 → Proc) (hP : WF P) (B0 : Int)
    (hlast : (P 0).phases ≠ [] → (P 0).phases.getLast? = some (P 0).F)
    (hempty : (P 0).phases = [] → (P 0).F ≤ B0) :
    let s := seqRun P ((P 0).phases.length + 1) (init B0)
    (B0 < (P 0).F → s.st 0 = .aborted ∧ s.bound = B0) ∧
    ((P 0).F ≤ B0 → s.st 0 = .finished ∧ s.bound = (P 0).F) := by
  intro s
  obtain ⟨h1, h2⟩ := seq_run_aux P B0 ((P 0).phases.length + 1) 0 (init B0) rfl (by simp [init]) (by omega) (Nat.zero_le _)
  constructor
  · intro hlt
    apply h1
    by_cases he : (P 0).phases = []
    · have := hempty he; omega
    · have hl := hlast he
      have hpos : 0 < (P 0).phases.length := List.length_pos_iff.mpr he
      refine ⟨(P 0).phases.length - 1, Nat.zero_le _, by omega, ?_⟩
      rw [List.getLast?_eq_getElem?] at hl
      have : (P 0).phases[(P 0).phases.length - 1]? = some ((P 0).phases[(P 0).phases.length - 1]'(by omega)) :=
        List.getElem?_eq_getElem (by omega)
      rw [this] at hl
      have hl' := Option.some.inj hl
      rw [hl']; exact hlt
  · intro hle
    have := h2 (fun q _ hlt => Int.le_trans (hP.le_F 0 _ (List.getElem_mem hlt)) hle)
    refine ⟨this.1, ?_⟩
    rw [this.2]; exact Int.min_eq_right hle

/-- non-vacuity: two processes with flows 3 and 5 (two phases each), initial bound 4 -/
def exP : Fin 2 → Proc := fun i => if i = 0 then ⟨[1, 3], 3⟩ else ⟨[2, 5], 5⟩
example : WF exP := ⟨by
  intro i x hx
  rcases i with ⟨i, hi⟩
  have : i = 0 ∨ i = 1 := by omega
  rcases this with rfl | rfl <;> simp [exP] at hx ⊢ <;> omega⟩
example : Admissible exP (init 4) [(1, 4), (0, 4), (0, 4), (0, 4), (1, 4)] := by
  simp [Admissible, step, init, exP]
example : (run exP (init 4) [(1, 4), (0, 4), (0, 4), (0, 4), (1, 4)]).bound = 3 := by
  simp [run, step, init, exP]; omega

end Tbx.Props.C04
