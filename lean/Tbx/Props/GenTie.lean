import Tbx.Gen.Fns
import Tbx.Model.PartitionID
import Tbx.Model.Cross
import Tbx.Model.BBox
/-
Ties the hand-written models (about which the property theorems of C05/C19/C20 are proved) to the
definitions that tools/translate.py regenerates from the Rust source on every run: on the domain where
Rust's fixed-width arithmetic does not wrap, hand model and generated text denote the same function.
An edit of the Rust source that changes the function breaks these theorems at build time.
-/
namespace Tbx.Props.GenTie
open Tbx.Gen

theorem pid_parent (x : Nat) : PartitionID.parent x = pidParent x := rfl

theorem pid_left_child (x : Nat) (h : x < 2 ^ 31) : PartitionID.leftChild x = pidLeftChild x := by
  simp only [PartitionID.leftChild, pidLeftChild, PartitionID.U32, Nat.shiftLeft_eq]
  omega

theorem pid_right_child (x : Nat) (h : x < 2 ^ 31) : PartitionID.rightChild x = pidRightChild x := by
  simp only [PartitionID.rightChild, pidRightChild, PartitionID.U32, Nat.shiftLeft_eq]
  omega

theorem pid_is_left (x : Nat) : PartitionID.isLeftChild x = pidIsLeftChild x := rfl
theorem pid_is_right (x : Nat) : PartitionID.isRightChild x = pidIsRightChild x := rfl

theorem pid_level (x : Nat) (h1 : 1 ≤ x) (h2 : x < 2 ^ 32) : PartitionID.level x = some (pidLevel x) := by
  have hl : Nat.log2 x < 32 := (Nat.log2_lt (by omega)).mpr h2
  have hz : PartitionID.leadingZeros x = 31 - Nat.log2 x := by
    simp only [PartitionID.leadingZeros]; rw [if_neg (by omega)]
  have hg : leadingZeros32 x = 31 - Nat.log2 x := by
    simp only [leadingZeros32]; rw [if_neg (by omega)]
  simp only [PartitionID.level, pidLevel, hz, hg]
  rw [if_pos (by omega)]

/-- padding a cell id with k left steps: the model's checked version succeeds and equals the generated one
    whenever the result still fits 32 bits -/
theorem pid_leftmost (x k : Nat) (hk : k < 32) (h : x * 2 ^ k < 2 ^ 32) :
    PartitionID.makeLeftmostDescendant x k = some (pidLeftmostDescendant x k) := by
  simp only [PartitionID.makeLeftmostDescendant, pidLeftmostDescendant, PartitionID.U32, Nat.shiftLeft_eq, hk, if_true]
  congr 1
  exact Nat.mod_eq_of_lt (by simpa using h)

/-- the hull model's turn test is the generated `is_clock_wise_turn` (unbounded integers on both sides;
    that the i64 arithmetic of the Rust does not overflow on valid coordinates is
    `Tbx.Props.GenFns.cross_product_fits_i64`) -/
theorem cross_model_eq_gen (o a b : Geo.Coord) :
    Geo.isCW o a b = isClockWiseTurn o.lat o.lon a.lat a.lon b.lat b.lon := by
  simp only [Geo.isCW, isClockWiseTurn]

theorem bbox_contains_model_eq_gen (b : Geo.BoxCorners) (q : Geo.Coord) :
    Geo.boxContains b q = bboxContains b.minLat b.minLon b.maxLat b.maxLon q.lat q.lon := by
  simp only [Geo.boxContains, bboxContains]

end Tbx.Props.GenTie
