import Tbx.Model.Bincode
import Tbx.Model.GraphFiles
import Tbx.Spec.GraphText
import Tbx.Proofs.BincodeRoundtrip
import Tbx.Proofs.PlierRender
import Tbx.Proofs.PlierRat
import Tbx.Proofs.PlierGlue
import Tbx.Proofs.PlierText
/-
C07 — Graph Plier and the loaders preserve the input graph exactly.

Property theorems only (helper lemmas: Tbx/Proofs/BincodeRoundtrip.lean, Tbx/Proofs/PlierRender.lean,
Tbx/Proofs/PlierRat.lean).  Registered in Tbx/Audit/C07.lean.

Part A: the bincode model's decoder inverts its encoder on every value that fits the Rust types.
Part B: the token-level parsers return exactly the edge / coordinate list an abstract file describes,
        for every token-level rendering of that file.
Part C: both together — what the model of graph_plier writes decodes to the described lists.
Part D: the judge's checkers mean what the Spec says.
Part T: down to characters — for the canonical spelling (one blank between tokens, plain decimal
        numerals) the text -> token glue is proved too, so `parse (text of F) = edges of F`.
Part E: clauses that are stated but not proved (floating point).
-/
namespace Tbx.Props.C07
open Tbx.Bincode Tbx.GraphFiles Tbx.GraphSpec Tbx.PlierRender Tbx.PlierText

/-! ## Part A: bincode round trips -/

/-- unsigned varint: decoding what was encoded returns the number and leaves the rest of the stream -/
theorem varint_roundtrip (n : Nat) (rest : List Nat) (h : n < 2 ^ 64) :
    decodeVarint (encodeVarint n ++ rest) = some (n, rest) :=
  decodeVarint_encodeVarint n rest (by simpa using h)

example : decodeVarint (encodeVarint 65536 ++ [7]) = some (65536, [7]) ∧
    encodeVarint 65536 = [252, 0, 0, 1, 0] ∧ encodeVarint 251 = [251, 251, 0] ∧ encodeVarint 250 = [250] := by
  decide

/-- the encoder emits bytes, and 1, 3, 5 or 9 of them -/
theorem varint_bytes (n : Nat) :
    (∀ b ∈ encodeVarint n, b < 256) ∧
    (encodeVarint n).length =
      if n < 251 then 1 else if n < 65536 then 3 else if n < 4294967296 then 5 else 9 :=
  ⟨encodeVarint_lt n, encodeVarint_length n⟩

/-- zigzag is a bijection between i32 and u32 (both directions), and stays below 2^32 -/
theorem zigzag_roundtrip :
    (∀ i : Int, unzigzag (zigzag i) = i) ∧ (∀ n : Nat, zigzag (unzigzag n) = n) ∧
    (∀ i : Int, I32 i → zigzag i < 2 ^ 32) :=
  ⟨unzigzag_zigzag, zigzag_unzigzag, fun i h => by simpa using zigzag_lt i h⟩

example : zigzag (-1) = 1 ∧ zigzag (-126) = 251 ∧ zigzag 63 = 126 ∧ zigzag (-2147483648) = 4294967295 ∧
    encodeI32 (-126) = [251, 251, 0] ∧ I32 (-2147483648) := by
  decide

/-- i32 as zigzag varint -/
theorem i32_roundtrip (i : Int) (rest : List Nat) (h : I32 i) :
    decodeI32 (encodeI32 i ++ rest) = some (i, rest) :=
  decodeI32_encodeI32 i rest h

/-- `Vec<T>`: if the element decoder inverts the element encoder on every element of `xs`, the vector
decoder inverts the vector encoder (any length below 2^64) -/
theorem vec_roundtrip {α : Type} (enc : α → List Nat) (dec : List Nat → Option (α × List Nat))
    (xs : List α) (rest : List Nat) (hl : xs.length < 2 ^ 64)
    (h : ∀ x ∈ xs, ∀ r, dec (enc x ++ r) = some (x, r)) :
    decodeVec dec (encodeVec enc xs ++ rest) = some (xs, rest) :=
  decodeVec_encodeVec enc dec xs rest (by simpa using hl) h

/-- non-vacuity: the element hypothesis of `vec_roundtrip` holds for edges that fit usize -/
example : ∀ x ∈ [(⟨0, 1, 250⟩ : InputEdge), ⟨299, 0, 70000⟩], ∀ r, decodeEdge (encodeEdge x ++ r) = some (x, r) := by
  intro x hx r
  apply decodeEdge_encodeEdge
  simp at hx
  rcases hx with rfl | rfl <;> simp [EdgeFits]

/-- `Vec<InputEdge<usize>>` of any length: decode (encode es) = es, nothing left over -/
theorem decode_encode_edges (es : List InputEdge) (hl : es.length < 2 ^ 64) (hf : ∀ e ∈ es, EdgeFits e) :
    decodeEdges (encodeEdges es) = some (es, []) := by
  have := decodeVec_encodeVec encodeEdge decodeEdge es [] (by simpa using hl)
    (fun e he r => decodeEdge_encodeEdge e r (hf e he))
  simpa [decodeEdges, encodeEdges] using this

example : EdgeFits ⟨299, 0, 18446744073709551615⟩ ∧
    encodeEdges [⟨0, 1, 250⟩, ⟨299, 0, 18446744073709551615⟩] =
      [2, 0, 1, 250, 251, 43, 1, 0, 253, 255, 255, 255, 255, 255, 255, 255, 255] ∧
    decodeEdges [2, 0, 1, 250, 251, 43, 1, 0, 253, 255, 255, 255, 255, 255, 255, 255, 255] =
      some ([⟨0, 1, 250⟩, ⟨299, 0, 18446744073709551615⟩], []) := by
  decide

/-- `Vec<FPCoordinate>` of any length: decode (encode cs) = cs, nothing left over -/
theorem decode_encode_coords (cs : List FPCoordinate) (hl : cs.length < 2 ^ 64)
    (hf : ∀ c ∈ cs, CoordFits c) :
    decodeCoords (encodeCoords cs) = some (cs, []) := by
  have := decodeVec_encodeVec encodeCoord decodeCoord cs [] (by simpa using hl)
    (fun c hc r => decodeCoord_encodeCoord c r (hf c hc))
  simpa [decodeCoords, encodeCoords] using this

example : CoordFits ⟨-126, -1⟩ ∧ CoordFits ⟨-2147483648, 100⟩ ∧
    encodeCoords [⟨-126, -1⟩, ⟨-2147483648, 100⟩] = [2, 251, 251, 0, 1, 252, 255, 255, 255, 255, 200] := by
  decide

/-- what chipper reads (`read_graph_into_trivial_edges`) is the (source, target) projection of what
graph_plier wrote -/
theorem decode_trivial_edges (es : List InputEdge) (hl : es.length < 2 ^ 64) (hf : ∀ e ∈ es, EdgeFits e) :
    decodeTrivialEdges (encodeEdges es) = some (es.map fun e => (e.source, e.target)) := by
  simp [decodeTrivialEdges, decode_encode_edges es hl hf]

/-! ## Part B: parse ∘ render -/

/-- DIMACS `.gr`: every token-level rendering of `F` (comment lines, problem lines, arc lines incl.
self-loops, in any mix) parses to the 0-based, loop-free edge list in file order with weights kept -/
theorem dimacs_parse_render (F : List DimacsItem) (ls : List Line)
    (h : Forall2 DimacsLineOf F ls) (hwf : DimacsWF F) :
    dimacsGraph ls = some (dimacsEdges F) :=
  dimacsGraph_render F ls h hwf

/-- a token that parses as the unsigned number `n` only -/
def natTok (n : Nat) : Tok := ⟨some n, none, none⟩
/-- a token that parses as nothing (a word) -/
def wordTok : Tok := ⟨none, none, none⟩
/-- a token that parses as an i32 (and as usize when non-negative) -/
def intTok (i : Int) : Tok := ⟨if 0 ≤ i then some i.toNat else none, some i, none⟩

def exDimacsFile : List DimacsItem :=
  [.comment, .problem 300 4, .arc 1 2 250, .arc 3 3 9, .comment, .arc 300 1 70000]
def exDimacsLines : List Line :=
  [ ⟨some 'c', false, [wordTok, wordTok], [wordTok], none, none⟩,
    ⟨some 'p', false, [wordTok, wordTok, natTok 300, natTok 4], [wordTok, natTok 300, natTok 4], none, none⟩,
    ⟨some 'a', false, [wordTok, natTok 1, natTok 2, natTok 250], [natTok 1, natTok 2, natTok 250], none, none⟩,
    ⟨some 'a', false, [wordTok, natTok 3, natTok 3, natTok 9], [natTok 3, natTok 3, natTok 9], none, none⟩,
    ⟨some 'c', false, [], [], none, none⟩,
    ⟨some 'a', false, [wordTok, natTok 300, natTok 1, natTok 70000], [natTok 300, natTok 1, natTok 70000], none, none⟩ ]

/-- non-vacuity: a file with comments, a self-loop and multi-byte values satisfies the hypotheses -/
example : Forall2 DimacsLineOf exDimacsFile exDimacsLines ∧ DimacsWF exDimacsFile ∧
    dimacsEdges exDimacsFile = [⟨0, 1, 250⟩, ⟨299, 0, 70000⟩] := by
  refine ⟨?_, ?_, by decide⟩
  · simp [Forall2, exDimacsFile, exDimacsLines, DimacsLineOf, natTok]
  · intro u v w hm
    simp [exDimacsFile] at hm
    omega

/-- DIMACS `.co`: coordinates are copied exactly, as (lat, lon), in file order -/
theorem dimacs_coords_parse_render (G : List DimacsCoItem) (ls : List Line)
    (h : Forall2 DimacsCoLineOf G ls) :
    GraphFiles.dimacsCoords ls = some (GraphSpec.dimacsCoords G) :=
  dimacsCoords_render G ls h

def exCoFile : List DimacsCoItem := [.comment, .problem 2, .vertex 1 (-73935242) 40730610, .vertex 2 5 (-7)]
def exCoLines : List Line :=
  [ ⟨some 'c', false, [], [], none, none⟩,
    ⟨some 'p', false, [], [], some 2, none⟩,
    ⟨some 'v', false, [], [natTok 1, intTok (-73935242), intTok 40730610], none, none⟩,
    ⟨some 'v', false, [], [natTok 2, intTok 5, intTok (-7)], none, none⟩ ]

theorem exCo_renders : Forall2 DimacsCoLineOf exCoFile exCoLines := by
  simp [Forall2, exCoFile, exCoLines, DimacsCoLineOf, natTok, intTok]

example : Forall2 DimacsCoLineOf exCoFile exCoLines ∧
    GraphSpec.dimacsCoords exCoFile = [⟨40730610, -73935242⟩, ⟨-7, 5⟩] :=
  ⟨exCo_renders, by decide⟩

/-- METIS: header `n …`, then one adjacency line per node (empty = isolated); every rendering parses
to the 0-based, loop-free unit-weight edge list in file order -/
theorem metis_parse_render (n : Nat) (adj : List (List Nat)) (l0 : Line) (ls : List Line)
    (h0 : MetisHeaderOf n l0) (h : Forall2 AdjLineOf adj ls) (hwf : MetisWF n adj) :
    metisGraph (l0 :: ls) = some (metisEdges adj) :=
  metisGraph_render n adj l0 ls h0 h hwf

def tokLine (ts : List Tok) : Line := ⟨none, false, ts, [], none, none⟩

/-- non-vacuity: 5 nodes, node 2 isolated, two self-loops, a duplicate -/
example : MetisHeaderOf 5 (tokLine [natTok 5, natTok 4]) ∧
    Forall2 AdjLineOf [[2, 3], [1, 1, 2], [], [5, 4, 4]]
      [tokLine [natTok 2, natTok 3], tokLine [natTok 1, natTok 1, natTok 2], tokLine [],
       tokLine [natTok 5, natTok 4, natTok 4]] ∧
    MetisWF 5 [[2, 3], [1, 1, 2], [], [5, 4, 4]] ∧
    metisEdges [[2, 3], [1, 1, 2], [], [5, 4, 4]] = [⟨0, 1, 1⟩, ⟨0, 2, 1⟩, ⟨1, 0, 1⟩, ⟨1, 0, 1⟩, ⟨3, 4, 1⟩] := by
  refine ⟨⟨natTok 5, [natTok 4], rfl, rfl⟩, ?_, ?_, by decide⟩
  · simp [Forall2, AdjLineOf, tokLine, NatTok, natTok]
  · refine ⟨by simp, ?_⟩
    intro nbrs hn t ht
    simp at hn
    rcases hn with rfl | rfl | rfl | rfl <;> simp at ht <;> omega

/-- DDSG: `d`, a size line, then arcs with all four direction codes; every rendering parses to the
loop-free, direction-expanded edge list in file order with weights kept -/
theorem ddsg_parse_render (arcs : List DdsgArc) (l0 l1 : Line) (ls : List Line)
    (hd : l0.isD = true) (h1 : 2 ≤ l1.toks.length) (h : Forall2 DdsgArcOf arcs ls) (hwf : DdsgWF arcs) :
    ddsgGraph (l0 :: l1 :: ls) = some (ddsgEdges arcs) :=
  ddsgGraph_render arcs l0 l1 ls hd h1 h hwf

def exDdsgArcs : List DdsgArc := [⟨0, 1, 10, 0⟩, ⟨1, 2, 300, 1⟩, ⟨2, 2, 5, 0⟩, ⟨2, 3, 7, 2⟩, ⟨3, 0, 9, 3⟩]
def arcLine (a : DdsgArc) : Line := tokLine [natTok a.u, natTok a.v, natTok a.w, intTok (Int.ofNat a.dir)]

/-- non-vacuity: all four direction codes and a self-loop -/
example : Forall2 DdsgArcOf exDdsgArcs (exDdsgArcs.map arcLine) ∧ DdsgWF exDdsgArcs ∧
    ddsgEdges exDdsgArcs = [⟨0, 1, 10⟩, ⟨1, 0, 10⟩, ⟨1, 2, 300⟩, ⟨3, 2, 7⟩] := by
  refine ⟨?_, ?_, by decide⟩
  · simp [Forall2, exDdsgArcs, DdsgArcOf, arcLine, tokLine, natTok, intTok]
  · intro a ha
    simp [exDdsgArcs] at ha
    rcases ha with rfl | rfl | rfl | rfl | rfl <;> simp

/-! ## Part C: graph_plier end to end (model) -/

/-- DIMACS: for every rendering of a well-formed graph file `F` and coordinate file `G`, the model of
graph_plier terminates normally and the two files it writes decode — with the model of
`read_vec_from_file` / `read_graph_into_trivial_edges` — to exactly the lists `F` and `G` describe -/
theorem plier_dimacs_preserves (F : List DimacsItem) (G : List DimacsCoItem) (g c : List Line)
    (hg : Forall2 DimacsLineOf F g) (hc : Forall2 DimacsCoLineOf G c) (hwf : DimacsWF F)
    (hfit : ∀ u v w, DimacsItem.arc u v w ∈ F → u < 2 ^ 64 ∧ v < 2 ^ 64 ∧ w < 2 ^ 64)
    (hcfit : ∀ id lon lat, DimacsCoItem.vertex id lon lat ∈ G → I32 lon ∧ I32 lat)
    (hF : F.length < 2 ^ 64) (hG : G.length < 2 ^ 64) :
    ∃ gb cb, plier .dimacs g c = some (gb, cb) ∧
      decodeEdges gb = some (dimacsEdges F, []) ∧
      decodeTrivialEdges gb = some ((dimacsEdges F).map fun e => (e.source, e.target)) ∧
      decodeCoords cb = some (GraphSpec.dimacsCoords G, []) := by
  have hl1 : (dimacsEdges F).length < 2 ^ 64 := Nat.lt_of_le_of_lt (dimacsEdges_length_le F) hF
  have hl2 : (GraphSpec.dimacsCoords G).length < 2 ^ 64 := Nat.lt_of_le_of_lt (dimacsCoords_length_le G) hG
  have hf1 := dimacsEdges_fits F (by simpa using hfit)
  have hf2 := dimacsCoords_fits G hcfit
  refine ⟨encodeEdges (dimacsEdges F), encodeCoords (GraphSpec.dimacsCoords G), ?_,
    decode_encode_edges _ hl1 hf1, decode_trivial_edges _ hl1 hf1, decode_encode_coords _ hl2 hf2⟩
  simp [plier, readGraph, readCoordinates, dimacsGraph_render F g hg hwf, dimacsCoords_render G c hc]

/-- non-vacuity: the example files above satisfy every hypothesis of `plier_dimacs_preserves` -/
example : Forall2 DimacsLineOf exDimacsFile exDimacsLines ∧ Forall2 DimacsCoLineOf exCoFile exCoLines ∧
    DimacsWF exDimacsFile ∧
    (∀ u v w, DimacsItem.arc u v w ∈ exDimacsFile → u < 2 ^ 64 ∧ v < 2 ^ 64 ∧ w < 2 ^ 64) ∧
    (∀ id lon lat, DimacsCoItem.vertex id lon lat ∈ exCoFile → I32 lon ∧ I32 lat) := by
  refine ⟨?_, exCo_renders, ?_, ?_, ?_⟩
  · simp [Forall2, exDimacsFile, exDimacsLines, DimacsLineOf, natTok]
  · intro u v w hm
    simp [exDimacsFile] at hm
    omega
  · intro u v w hm
    simp [exDimacsFile] at hm
    omega
  · intro id lon lat hm
    simp [exCoFile] at hm
    unfold I32
    omega

/-- for any format: whatever the two loaders return is what the written files decode to -/
theorem plier_writes_what_was_read (fmt : Format) (g c : List Line) (es : List InputEdge)
    (cs : List FPCoordinate) (hg : readGraph fmt g = some es) (hc : readCoordinates fmt c = some cs)
    (hle : es.length < 2 ^ 64) (hlc : cs.length < 2 ^ 64)
    (hfe : ∀ e ∈ es, EdgeFits e) (hfc : ∀ x ∈ cs, CoordFits x) :
    ∃ gb cb, plier fmt g c = some (gb, cb) ∧ decodeEdges gb = some (es, []) ∧
      decodeTrivialEdges gb = some (es.map fun e => (e.source, e.target)) ∧
      decodeCoords cb = some (cs, []) :=
  ⟨encodeEdges es, encodeCoords cs, by simp [plier, hg, hc],
    decode_encode_edges es hle hfe, decode_trivial_edges es hle hfe, decode_encode_coords cs hlc hfc⟩

/-- non-vacuity: the DIMACS example is an instance (readGraph / readCoordinates succeed on it) -/
example : readGraph .dimacs exDimacsLines = some [⟨0, 1, 250⟩, ⟨299, 0, 70000⟩] ∧
    readCoordinates .dimacs exCoLines = some [⟨40730610, -73935242⟩, ⟨-7, 5⟩] := by
  decide

/-- METIS graph part: for every rendering of a well-formed adjacency description and any coordinate file
the coordinate loader accepts, the written graph file decodes to exactly the described edges -/
theorem plier_metis_preserves_graph (n : Nat) (adj : List (List Nat)) (l0 : Line) (ls c : List Line)
    (cs : List FPCoordinate)
    (h0 : MetisHeaderOf n l0) (h : Forall2 AdjLineOf adj ls) (hwf : MetisWF n adj) (hn : n < 2 ^ 64)
    (hlen : (metisEdges adj).length < 2 ^ 64) (hc : metisCoords c = some cs) :
    ∃ gb cb, plier .metis (l0 :: ls) c = some (gb, cb) ∧
      decodeEdges gb = some (metisEdges adj, []) ∧
      decodeTrivialEdges gb = some ((metisEdges adj).map fun e => (e.source, e.target)) := by
  have hf := metisEdgesFrom_fits n 0 adj (by simpa using hn) (by simpa using hwf.1) hwf.2
  refine ⟨encodeEdges (metisEdges adj), encodeCoords cs, ?_,
    decode_encode_edges _ hlen hf, decode_trivial_edges _ hlen hf⟩
  simp [plier, readGraph, readCoordinates, metisGraph_render n adj l0 ls h0 h hwf, hc]

/-- DDSG graph part, likewise -/
theorem plier_ddsg_preserves_graph (arcs : List DdsgArc) (l0 l1 : Line) (ls c : List Line)
    (cs : List FPCoordinate)
    (hd : l0.isD = true) (h1 : 2 ≤ l1.toks.length) (h : Forall2 DdsgArcOf arcs ls) (hwf : DdsgWF arcs)
    (hfit : ∀ a ∈ arcs, a.u < 2 ^ 64 ∧ a.v < 2 ^ 64 ∧ a.w < 2 ^ 64)
    (hlen : (ddsgEdges arcs).length < 2 ^ 64) (hc : ddsgCoords c = some cs) :
    ∃ gb cb, plier .ddsg (l0 :: l1 :: ls) c = some (gb, cb) ∧
      decodeEdges gb = some (ddsgEdges arcs, []) ∧
      decodeTrivialEdges gb = some ((ddsgEdges arcs).map fun e => (e.source, e.target)) := by
  have hf := ddsgEdges_fits arcs (by simpa using hfit)
  refine ⟨encodeEdges (ddsgEdges arcs), encodeCoords cs, ?_,
    decode_encode_edges _ hlen hf, decode_trivial_edges _ hlen hf⟩
  simp [plier, readGraph, readCoordinates, ddsgGraph_render arcs l0 l1 ls hd h1 h hwf, hc]

/-! ## Part D: the judge's checkers -/

/-- the byte/read-back check of the judge is the Spec's `Delivered` -/
theorem judge_delivered_sound {α : Type} [DecidableEq α] (dec : List Nat → Option (List α × List Nat))
    (bytes : List Nat) (readBack expected : List α) :
    deliveredB dec bytes readBack expected = true ↔ Delivered dec bytes readBack expected :=
  deliveredB_iff dec bytes readBack expected

/-- the tolerance check of the judge (integer arithmetic, denominators cleared) is
|r − 10·mant/10^scale| ≤ 1 over the rationals, for every coordinate of the list -/
theorem judge_within_sound (ds : List (Dec × Dec)) (cs : List FPCoordinate) :
    (coordsWithinB ds cs = true ↔ CoordsWithin ds cs) ∧
    (∀ (d : Dec) (r : Int), WithinMicro d r ↔ |(r : ℚ) - 10 * (d.mant : ℚ) / (10 : ℚ) ^ d.scale| ≤ 1) :=
  ⟨coordsWithinB_iff ds cs, Tbx.PlierRat.withinMicro_iff_rat⟩

example : WithinMicro ⟨123456, 3⟩ 1234 ∧ WithinMicro ⟨-1, 0⟩ (-9) ∧ ¬ WithinMicro ⟨-1, 0⟩ (-8) := by
  simp [WithinMicro]

/-! ## Part T: canonical text, character level -/

/-- the glue's `usize::from_str` / `i32::from_str` invert plain decimal rendering -/
theorem parse_decimal_canonical :
    (∀ n : Nat, n < 2 ^ 64 → parseUsize (Nat.toDigits 10 n) = some n) ∧
    (∀ i : Int, I32 i → parseI32 (intChars i) = some i) :=
  ⟨fun n h => parseUsize_toDigits n (by simpa using h), parseI32_intChars⟩

example : Nat.toDigits 10 70000 = ['7', '0', '0', '0', '0'] ∧ intChars (-126) = ['-', '1', '2', '6'] := by
  decide

/-- the glue's tokenizer inverts joining tokens with single blanks -/
theorem tokenizer_single_blank (ts : List (List Char)) (h : ∀ t ∈ ts, IsToken t) :
    splitWs (joinBlank ts) = ts :=
  splitWs_joinBlank ts h

example : joinBlank [['a'], ['1', '2'], ['7']] = ['a', ' ', '1', '2', ' ', '7'] ∧
    IsToken ['1', '2'] := by
  refine ⟨by decide, by simp, ?_⟩
  intro c hc
  simp at hc
  rcases hc with rfl | rfl <;> decide

/-- DIMACS `.gr` as characters: `c` / `p sp n m` / `a u v w` lines in canonical spelling are accepted by
the glue and parse to the described edge list -/
theorem dimacs_text_parse (F : List DimacsItem) (hf : ∀ it ∈ F, DimacsFits it) (hwf : DimacsWF F) :
    ∃ ls, mkLinesC (F.map dimacsText) = some ls ∧ dimacsGraph ls = some (dimacsEdges F) :=
  dimacs_text F hf hwf

example : (exDimacsFile.map dimacsText) =
    [['c'], ['p', ' ', 's', 'p', ' ', '3', '0', '0', ' ', '4'], ['a', ' ', '1', ' ', '2', ' ', '2', '5', '0'],
     ['a', ' ', '3', ' ', '3', ' ', '9'], ['c'],
     ['a', ' ', '3', '0', '0', ' ', '1', ' ', '7', '0', '0', '0', '0']] ∧
    (∀ it ∈ exDimacsFile, DimacsFits it) := by
  refine ⟨by decide, ?_⟩
  intro it hit
  simp [exDimacsFile] at hit
  rcases hit with rfl | rfl | rfl | rfl | rfl | rfl <;> simp [DimacsFits]

/-- DIMACS `.co` as characters: `c` / `p aux sp co n` / `v id lon lat` -/
theorem dimacs_coords_text_parse (G : List DimacsCoItem) (hf : ∀ it ∈ G, DimacsCoFits it) :
    ∃ ls, mkLinesC (G.map dimacsCoText) = some ls ∧
      GraphFiles.dimacsCoords ls = some (GraphSpec.dimacsCoords G) :=
  dimacsCo_text G hf

example : dimacsCoText (.vertex 2 5 (-7)) = ['v', ' ', '2', ' ', '5', ' ', '-', '7'] ∧
    dimacsCoText (.problem 2) = ['p', ' ', 'a', 'u', 'x', ' ', 's', 'p', ' ', 'c', 'o', ' ', '2'] ∧
    DimacsCoFits (.vertex 2 5 (-7)) := by
  refine ⟨by decide, by decide, ?_⟩
  simp [DimacsCoFits, I32]

/-- METIS as characters: header `n m`, one line of neighbours per node (an empty line = isolated) -/
theorem metis_text_parse (n m : Nat) (adj : List (List Nat)) (hn : n < 2 ^ 64) (hwf : MetisWF n adj) :
    ∃ ls, mkLinesC (metisHeaderText n m :: adj.map metisAdjText) = some ls ∧
      metisGraph ls = some (metisEdges adj) :=
  metis_text n m adj (by simpa using hn) hwf

example : [[2, 3], [1, 1, 2], [], [5, 4, 4]].map metisAdjText =
    [['2', ' ', '3'], ['1', ' ', '1', ' ', '2'], [], ['5', ' ', '4', ' ', '4']] := by
  decide

/-- DDSG as characters: `d`, `n m`, `u v w dir` -/
theorem ddsg_text_parse (n m : Nat) (arcs : List DdsgArc)
    (hf : ∀ a ∈ arcs, a.u < 2 ^ 64 ∧ a.v < 2 ^ 64 ∧ a.w < 2 ^ 64) (hwf : DdsgWF arcs) :
    ∃ ls, mkLinesC (['d'] :: metisHeaderText n m :: arcs.map ddsgArcText) = some ls ∧
      ddsgGraph ls = some (ddsgEdges arcs) :=
  ddsg_text n m arcs (by simpa using hf) hwf

example : ddsgArcText ⟨2, 3, 7, 2⟩ = ['2', ' ', '3', ' ', '7', ' ', '2'] := by decide

/-- DIMACS, characters to bytes and back: the model of graph_plier applied to the canonical text of a
well-formed graph / coordinate file pair writes files that decode to exactly the described lists -/
theorem plier_dimacs_text_preserves (F : List DimacsItem) (G : List DimacsCoItem)
    (hf : ∀ it ∈ F, DimacsFits it) (hg : ∀ it ∈ G, DimacsCoFits it) (hwf : DimacsWF F)
    (hF : F.length < 2 ^ 64) (hG : G.length < 2 ^ 64) :
    ∃ g c gb cb, mkLinesC (F.map dimacsText) = some g ∧ mkLinesC (G.map dimacsCoText) = some c ∧
      plier .dimacs g c = some (gb, cb) ∧
      decodeEdges gb = some (dimacsEdges F, []) ∧
      decodeTrivialEdges gb = some ((dimacsEdges F).map fun e => (e.source, e.target)) ∧
      decodeCoords cb = some (GraphSpec.dimacsCoords G, []) := by
  obtain ⟨g, hg1, hg2⟩ := dimacs_text F hf hwf
  obtain ⟨c, hc1, hc2⟩ := dimacsCo_text G hg
  have hl1 : (dimacsEdges F).length < 2 ^ 64 := Nat.lt_of_le_of_lt (dimacsEdges_length_le F) hF
  have hl2 : (GraphSpec.dimacsCoords G).length < 2 ^ 64 := Nat.lt_of_le_of_lt (dimacsCoords_length_le G) hG
  have hf1 := dimacsEdges_fits F (fun u v w hm => by simpa [DimacsFits] using hf _ hm)
  have hf2 := dimacsCoords_fits G (fun id lon lat hm => by
    have := hg _ hm
    simp only [DimacsCoFits] at this
    exact ⟨this.2.1, this.2.2⟩)
  refine ⟨g, c, encodeEdges (dimacsEdges F), encodeCoords (GraphSpec.dimacsCoords G), hg1, hc1, ?_,
    decode_encode_edges _ hl1 hf1, decode_trivial_edges _ hl1 hf1, decode_encode_coords _ hl2 hf2⟩
  simp [plier, readGraph, readCoordinates, hg2, hc2]

/-! ## Part E: stated, not proved -/

/-- decimal digits as characters -/
def digitChars (ds : List Nat) : List Char := ds.map fun d => Char.ofNat (48 + d)
def digitsNat (ds : List Nat) : Nat := ds.foldl (fun a d => 10 * a + d) 0

/-- METIS / DDSG coordinate tokens: a decimal numeral with at most three fractional digits and absolute
value at most 18 000 000 (180 degrees in units of 1e-5), sent through the glue's `parseF64`, the
division by 100000 and `new_from_lat_lon`, lands within one micro-degree of its exact value.
NOT PROVED: Lean's `Float` operations are opaque to the kernel; the judge checks this inequality in exact
integer arithmetic on every generated coordinate instead. -/
def float_path_within_statement : Prop :=
  ∀ (neg : Bool) (ip fp : List Nat),
    ip ≠ [] → (∀ d ∈ ip ++ fp, d < 10) → fp.length ≤ 3 →
    digitsNat (ip ++ fp) ≤ 18000000 * 10 ^ fp.length →
    ∃ x : Float,
      parseF64 ((if neg then ['-'] else []) ++ digitChars ip ++ (if fp = [] then [] else '.' :: digitChars fp)) = some x ∧
      WithinMicro ⟨(if neg then -1 else 1) * Int.ofNat (digitsNat (ip ++ fp)), fp.length⟩ (toMicro (x / 100000.0))

end Tbx.Props.C07
