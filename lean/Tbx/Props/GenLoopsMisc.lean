import Tbx.Gen.Loops
import Tbx.Model.Arr
import Tbx.Model.NextFit
import Tbx.Model.PartitionID
import Tbx.Props.GenTie
import Tbx.Props.C20
/-
Ties between the loop-bearing definitions regenerated from /repo on every run (Tbx/Gen/Loops.lean) and the
hand-written models the property theorems speak about:
  * `bin_pack_next_fit`  (src/bin_pack.rs)      — `Tbx.Gen.Loops.nextFit`  vs `Tbx.NextFit.nextFit`
  * `lowest_common_ancestor` (src/partition_id.rs) — `Tbx.Gen.Loops.pidLca` vs `Tbx.PartitionID.lowestCommonAncestor`
-/
namespace Tbx.Props.GenLoopsMisc
open Tbx

theorem aget_eq_gt {α : Type} [Inhabited α] (a : Array α) (i : Nat) : Tbx.Gen.aget a i = Tbx.gt a i := rfl
theorem aset_eq_st {α : Type} (a : Array α) (i : Nat) (x : α) : Tbx.Gen.aset a i x = Tbx.st a i x := rfl

/-! ### partition ids: `lowest_common_ancestor` -/

/-- the `while left != right` loop of the generated text, with the fuel as a parameter -/
def genLcaLoop (fuel : Nat) (l r : Nat) : Nat × Nat :=
  Tbx.Gen.whileFuel fuel
    (fun ((left_7, right_8) : Nat × Nat) => (left_7 != right_8))
    (fun ((left_7, right_8) : Nat × Nat) =>
      let left_9 : Nat := (Tbx.Gen.pidParent left_7)
      let right_10 : Nat := (Tbx.Gen.pidParent right_8)
      (left_9, right_10))
    (l, r)

theorem genLcaLoop_eq_model (fuel l r v : Nat) (h : PartitionID.lcaLoop fuel l r = some v) :
    (genLcaLoop fuel l r).1 = v := by
  induction fuel generalizing l r with
  | zero =>
    simp only [PartitionID.lcaLoop] at h
    split at h
    · simp only [genLcaLoop, Tbx.Gen.whileFuel]
      exact Option.some.inj h
    · exact absurd h (by simp)
  | succ n ih =>
    simp only [PartitionID.lcaLoop] at h
    simp only [genLcaLoop, Tbx.Gen.whileFuel]
    by_cases hlr : l = r
    · subst hlr
      simp only [ne_eq, not_true_eq_false, if_false] at h
      simp only [bne_self_eq_false, Bool.false_eq_true, if_false]
      exact Option.some.inj h
    · simp only [ne_eq, hlr, not_false_eq_true, if_true] at h
      have hb : (l != r) = true := by simpa using hlr
      simp only [hb, if_true]
      exact ih _ _ h

/-- the generated `lowest_common_ancestor`, written with `genLcaLoop` -/
theorem pidLca_unfold (x y : Nat) :
    Tbx.Gen.Loops.pidLca x y =
      (genLcaLoop 32
        (if Tbx.Gen.pidLevel x > Tbx.Gen.pidLevel y then x >>> (Tbx.Gen.pidLevel x - Tbx.Gen.pidLevel y) else x)
        (if Tbx.Gen.pidLevel y > Tbx.Gen.pidLevel x then y >>> (Tbx.Gen.pidLevel y - Tbx.Gen.pidLevel x) else y)).1 := by
  unfold Tbx.Gen.Loops.pidLca
  by_cases h1 : Tbx.Gen.pidLevel x > Tbx.Gen.pidLevel y <;>
    by_cases h2 : Tbx.Gen.pidLevel y > Tbx.Gen.pidLevel x <;>
    simp only [h1, h2, decide_true, decide_false, if_true, if_false, Bool.false_eq_true] <;> rfl

/-- `gen_lca_eq_model`: on non-zero 32-bit ids the regenerated `lowest_common_ancestor` returns what the hand
    model returns -/
theorem gen_lca_eq_model (x y r : Nat) (hx : 1 ≤ x) (hx' : x < 2^32) (hy : 1 ≤ y) (hy' : y < 2^32) :
    Tbx.PartitionID.lowestCommonAncestor x y = some r → Tbx.Gen.Loops.pidLca x y = r := by
  intro h
  rw [pidLca_unfold]
  simp only [PartitionID.lowestCommonAncestor, GenTie.pid_level x hx hx', GenTie.pid_level y hy hy'] at h
  exact genLcaLoop_eq_model _ _ _ _ h

example : Tbx.Gen.Loops.pidLca 8 5 = 2 :=
  gen_lca_eq_model 8 5 2 (by decide) (by decide) (by decide) (by decide) (by decide)

/-- `lca_deepest` (Props/C20) restated for the regenerated function: on non-zero 32-bit ids its result is an
    ancestor of both arguments and every common ancestor is an ancestor of it -/
theorem gen_lca_deepest (x y : Nat) (hx1 : 1 ≤ x) (hx : x < 2 ^ 32) (hy1 : 1 ≤ y) (hy : y < 2 ^ 32) :
    Spec.IdTree.IsLCA (Tbx.Gen.Loops.pidLca x y) x y := by
  obtain ⟨a, ha, hl⟩ := C20.lca_deepest x y hx1 hx hy1 hy
  rw [gen_lca_eq_model x y a hx1 hx hy1 hy ha]
  exact hl

example : Spec.IdTree.IsLCA (Tbx.Gen.Loops.pidLca 4294967295 2147483648) 4294967295 2147483648 :=
  gen_lca_deepest _ _ (by decide) (by decide) (by decide) (by decide)

/-! ### next-fit bin packing -/

/-- the body of the generated `for (i, &item) in items.iter().enumerate()` loop -/
def genNfStep (items : Array Nat) (capacity : Nat) : Nat × Nat × Array Nat → Nat → Nat × Nat × Array Nat :=
  (fun (current_bin_4, remaining_capacity_5, assignments_6) i_7 =>
            let item_8 : Nat := Tbx.Gen.aget items i_7
            if (decide (item_8 > remaining_capacity_5)) then
              let current_bin_12 : Nat := (current_bin_4 + (1 : Nat))
              let remaining_capacity_13 : Nat := capacity
              let assignments_14 : Array Nat := Tbx.Gen.aset assignments_6 i_7 current_bin_12
              let remaining_capacity_15 : Nat := (remaining_capacity_13 - item_8)
              (current_bin_12, remaining_capacity_15, assignments_14)
            else
              let assignments_16 : Array Nat := Tbx.Gen.aset assignments_6 i_7 current_bin_4
              let remaining_capacity_17 : Nat := (remaining_capacity_5 - item_8)
              (current_bin_4, remaining_capacity_17, assignments_16))

theorem genNfStep_eq (items : Array Nat) (cap cur rem : Nat) (arr : Array Nat) (i : Nat) :
    genNfStep items cap (cur, rem, arr) i =
      if Tbx.gt items i > rem then (cur + 1, cap - Tbx.gt items i, Tbx.st arr i (cur + 1))
      else (cur, rem - Tbx.gt items i, Tbx.st arr i cur) := by
  simp only [genNfStep, aget_eq_gt, aset_eq_st]
  by_cases h : Tbx.gt items i > rem <;> simp only [h, decide_true, decide_false, if_true, if_false, Bool.false_eq_true]

theorem take_succ_set (l : List Nat) (k c : Nat) (h : k < l.length) :
    (l.set k c).take (k + 1) = l.take k ++ [c] := by
  induction l generalizing k with
  | nil => simp at h
  | cons a l ih =>
    cases k with
    | zero => simp
    | succ k =>
      have := ih k (by simpa using h)
      simp only [List.set_cons_succ, List.take_succ_cons, List.cons_append, this]

theorem gt_append_cons (pre : List Nat) (x : Nat) (xs : List Nat) :
    Tbx.gt (pre ++ x :: xs).toArray pre.length = x := by
  simp [Tbx.gt]

/-- loop invariant: having processed the prefix `pre`, folding the generated body over the remaining indices
    gives the model loop's final bin and writes the model loop's assignments behind the first `pre.length` cells -/
theorem genNf_fold (cap : Nat) (xs pre : List Nat) (cur rem : Nat) (arr : Array Nat)
    (hsz : arr.size = pre.length + xs.length) :
    ((List.range' pre.length xs.length).foldl (genNfStep (pre ++ xs).toArray cap) (cur, rem, arr)).1 =
        (NextFit.loop cap xs cur rem).1 ∧
    ((List.range' pre.length xs.length).foldl (genNfStep (pre ++ xs).toArray cap) (cur, rem, arr)).2.2.toList =
        arr.toList.take pre.length ++ (NextFit.loop cap xs cur rem).2 := by
  induction xs generalizing pre cur rem arr with
  | nil =>
    simp only [List.length_nil, List.range'_zero, List.foldl_nil, NextFit.loop, List.append_nil, true_and]
    rw [List.take_of_length_le]
    simp [hsz]
  | cons x xs ih =>
    have hk : pre.length < arr.toList.length := by simp [hsz]
    have happ : pre ++ x :: xs = (pre ++ [x]) ++ xs := by simp
    have hlen : (pre ++ [x]).length = pre.length + 1 := by simp
    simp only [List.length_cons, List.range'_succ, List.foldl_cons, genNfStep_eq, gt_append_cons]
    by_cases hgt : x > rem
    · simp only [hgt, if_true, NextFit.loop]
      have := ih (pre ++ [x]) (cur + 1) (cap - x) (Tbx.st arr pre.length (cur + 1))
        (by simp [hsz]; omega)
      rw [hlen, ← happ] at this
      refine ⟨this.1, ?_⟩
      rw [this.2]
      simp only [Tbx.st, Array.toList_setIfInBounds, take_succ_set _ _ _ hk, List.append_assoc, List.cons_append,
        List.nil_append]
    · simp only [hgt, if_false, NextFit.loop]
      have := ih (pre ++ [x]) cur (rem - x) (Tbx.st arr pre.length cur)
        (by simp [hsz]; omega)
      rw [hlen, ← happ] at this
      refine ⟨this.1, ?_⟩
      rw [this.2]
      simp only [Tbx.st, Array.toList_setIfInBounds, take_succ_set _ _ _ hk, List.append_assoc, List.cons_append,
        List.nil_append]

/-- the generated `bin_pack_next_fit`, written with `genNfStep` -/
theorem nextFit_unfold (items : Array Nat) (capacity : Nat) :
    Tbx.Gen.Loops.nextFit items capacity =
      if capacity = 0 then none
      else if items.size = 0 then some (0, #[])
      else if items.any (fun x => decide (x > capacity)) = true then none
      else
        some (((List.range items.size).foldl (genNfStep items capacity)
                (0, capacity, Array.replicate items.size 0)).1 + 1,
              ((List.range items.size).foldl (genNfStep items capacity)
                (0, capacity, Array.replicate items.size 0)).2.2) := by
  unfold Tbx.Gen.Loops.nextFit
  by_cases h0 : capacity = 0
  · simp [h0]
  · by_cases h1 : items.size = 0
    · simp [h0, h1]
    · by_cases h2 : items.any (fun x => decide (x > capacity)) = true
      · simp only [h0, h1, h2, beq_iff_eq, if_true, if_false]
      · simp only [h0, h1, h2, beq_iff_eq, if_false, Bool.false_eq_true]
        rfl

/-- `gen_next_fit_eq_model`: the regenerated `bin_pack_next_fit` (arrays, index loop) and the hand model (lists,
    structural recursion) are the same function, `Err` cases included -/
theorem gen_next_fit_eq_model (items : List Nat) (cap : Nat) :
    (Tbx.Gen.Loops.nextFit items.toArray cap).map (fun p => (p.1, p.2.toList)) = Tbx.NextFit.nextFit items cap := by
  rw [nextFit_unfold]
  have hany : items.toArray.any (fun x => decide (x > cap)) = items.any (fun x => decide (x > cap)) := by simp
  rw [hany]
  simp only [NextFit.nextFit, List.size_toArray, List.isEmpty_iff, ← List.length_eq_zero_iff]
  by_cases h0 : cap = 0
  · simp [h0]
  · by_cases h1 : items.length = 0
    · simp [h0, h1]
    · by_cases h2 : items.any (fun x => decide (x > cap)) = true
      · simp [h0, h1, h2]
      · have hf := genNf_fold cap items [] 0 cap (Array.replicate items.length 0) (by simp)
        simp only [List.length_nil, List.nil_append, List.take_zero, ← List.range_eq_range'] at hf
        simp only [h0, h1, h2, if_false, Option.map_some, hf.1, hf.2, Bool.false_eq_true]

/-- non-vacuity: a run that opens three bins, and the two `Err` branches -/
example : (Tbx.Gen.Loops.nextFit [4, 8, 1, 4, 2, 1].toArray 10).map (fun p => (p.1, p.2.toList)) =
      some (3, [0, 1, 1, 2, 2, 2]) ∧
    (Tbx.Gen.Loops.nextFit [4, 11].toArray 10).map (fun p => (p.1, p.2.toList)) = none ∧
    (Tbx.Gen.Loops.nextFit [4].toArray 0).map (fun p => (p.1, p.2.toList)) = none := by
  simp only [gen_next_fit_eq_model]; decide

end Tbx.Props.GenLoopsMisc
