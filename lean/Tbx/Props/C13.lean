import Tbx.Proofs.C13History
import Tbx.Proofs.HashClearMany
import Tbx.Model.LegacyHashTable
/-
C13 — hash-based containers behave as maps; sketches err only on one side.

Property theorems only (helper lemmas live in Tbx/Proofs).  Registered in Tbx/Audit/C13.lean.
Models: Tbx/Model/{HashTable,TinyTable,Bloom,CountMin}.lean; Spec: Tbx/Spec/FinMap.lean.
The table theorems hold for every table size `N > 0` and every hash function `h` with values below `N`
(the real table is the instance `N = MAX_ELEMENTS`, `h` = the values the harness reads from the real hasher).
-/
namespace Tbx.Props.C13
open Tbx

/-! ## Bloom filter: no false negatives -/

/-- For any hash values, any number `k` of hash functions and any length `len > 0`: whatever was added
before and whatever is added afterwards, a value that was added is answered "possibly present". -/
theorem bloom_no_false_negative (len k : Nat) (hlen : 0 < len) (before after : List (Nat × Nat)) (h1 h2 : Nat) :
    Bloom.contains (Bloom.addAll (Bloom.add (Bloom.addAll (Bloom.init len k) before) h1 h2) after) h1 h2 = true := by
  apply Bloom.addAll_mono
  apply Bloom.add_contains
  rw [Bloom.addAll_size, Bloom.init_size]; exact hlen

/-- non-vacuity: a concrete filter (7 bits, 3 functions) with other values added before and after … -/
example : Bloom.contains (Bloom.addAll (Bloom.add (Bloom.addAll (Bloom.init 7 3) [(1, 2)]) 10 4) [(3, 5)]) 10 4 = true :=
  bloom_no_false_negative 7 3 (by decide) [(1, 2)] [(3, 5)] 10 4
/-- … and the answer is not constantly yes: a value that was not added can be answered "No" -/
example : Bloom.contains (Bloom.add (Bloom.init 7 3) 10 4) 11 4 = false := by decide

/-! ## count-min sketch: never an underestimate -/

/-- For any hash pairs, any number of rows `k` (in particular `k ≥ 1`) and `m > 0` columns: after any
sequence of insertions the estimate of a key is at least the number of times it was inserted, capped at
u32::MAX (counters saturate). -/
theorem cms_lower_bound {κ : Type} [DecidableEq κ] (k m : Nat) (hm : 0 < m) (hash : κ → Nat × Nat)
    (hist : List κ) (x : κ) :
    min (hist.count x) CountMin.u32Max ≤
      CountMin.estimate (CountMin.insertAll hash (CountMin.init k m) hist) (hash x).1 (hash x).2 := by
  have L0 : CountMin.LB (CountMin.init k m) k m (hash x).1 (hash x).2 (min 0 CountMin.u32Max) := by
    intro r b _; simp
  obtain ⟨W, L⟩ := CountMin.insertAll_lb hash k m hm x hist (CountMin.init k m) 0 (CountMin.wf_init k m) L0
  rw [Nat.zero_add] at L
  exact CountMin.estimate_ge _ k m _ _ _ W (Nat.min_le_right _ _) L

/-- non-vacuity: 2 rows, 3 columns, three keys of which two collide in a row; estimates 2 ≥ 2 and 3 ≥ 1 -/
example :
    let hash : Nat → Nat × Nat := fun x => (x, 1)
    let s := CountMin.insertAll hash (CountMin.init 2 3) [0, 3, 0, 1]
    (CountMin.estimate s 0 1, CountMin.estimate s 3 1, CountMin.estimate s 1 1) = (3, 3, 1) := by decide

/-! ## tiny table -/

/-- Every history of insert / remove / overwrite-through-find_mut / clear on the tiny table returns what
the reference map returns, and afterwards `find`, `contains`, `len`, `is_empty` agree with it. -/
theorem tiny_refines_map (ops : List TinyTable.Op) :
    (TinyTable.runM TinyTable.new ops).2 = (TinyTable.runS FinMap.clear ops).2 ∧
    (∀ k, TinyTable.find (TinyTable.runM TinyTable.new ops).1 k = FinMap.get? (TinyTable.runS FinMap.clear ops).1 k) ∧
    (∀ k, TinyTable.contains (TinyTable.runM TinyTable.new ops).1 k = FinMap.contains (TinyTable.runS FinMap.clear ops).1 k) ∧
    TinyTable.len (TinyTable.runM TinyTable.new ops).1 = FinMap.len (TinyTable.runS FinMap.clear ops).1 ∧
    TinyTable.isEmpty (TinyTable.runM TinyTable.new ops).1 = FinMap.isEmpty (TinyTable.runS FinMap.clear ops).1 := by
  obtain ⟨R, hret⟩ := TinyTable.run_rel ops _ _ TinyTable.rel_new
  refine ⟨hret, R.find, ?_, R.len, ?_⟩
  · intro k; rw [TinyTable.contains_eq_find, R.find]; rfl
  · have := R.len
    simp only [TinyTable.isEmpty, FinMap.isEmpty, FinMap.len] at this ⊢
    rw [List.isEmpty_iff_length_eq_zero_bool, this]
where
  List.isEmpty_iff_length_eq_zero_bool {α : Type} {l : List α} : l.isEmpty = (l.length == 0) := by
    cases l <;> rfl

/-- non-vacuity: a history in which swap_remove moves the last entry into the hole -/
example : (TinyTable.runM TinyTable.new [.insert 1 10, .insert 2 20, .insert 3 30, .remove 1, .setVal 3 7, .insert 2 5]).1
    = [(3, 7), (2, 5)] := by decide

/-! ## medium-size hash table: invariant -/

/-- a fresh table satisfies the invariant -/
theorem table_inv_init (N : Nat) (h : Nat → Nat) (hN : 0 < N) : HashTable.Inv N h (HashTable.init N) :=
  (HashTable.init_rel N h hN).inv

/-- `get_mut` preserves the invariant whenever the key is present or a slot stays free afterwards, and
its probe loop terminates -/
theorem table_inv_getMut {N : Nat} {h : Nat → Nat} {t : HashTable.Table} (I : HashTable.Inv N h t)
    (hh : ∀ k, h k < N) (key : Nat)
    (hroom : (∃ i, i < N ∧ HashTable.tmOf t i = t.ts ∧ HashTable.kyOf t i = key) ∨ t.length + 1 < N) :
    ∃ t' p, HashTable.getMut N h t key = some (t', p) ∧ HashTable.Inv N h t' := by
  obtain ⟨t', p, he, hI, _⟩ := HashTable.getMut_spec I hh key hroom
  exact ⟨t', p, he, hI⟩

/-- `insert` preserves the invariant under the same condition -/
theorem table_inv_insert {N : Nat} {h : Nat → Nat} {t : HashTable.Table} {m : FinMap.M}
    (R : HashTable.Rel N h t m) (hh : ∀ k, h k < N) (key : Nat) (v : Int)
    (hdom : FinMap.contains m key = true ∨ FinMap.len m + 1 < N) :
    ∃ t', HashTable.insert N h t key v = some t' ∧ HashTable.Inv N h t' := by
  obtain ⟨t', he, R'⟩ := HashTable.insert_rel R hh key v hdom
  exact ⟨t', he, R'.inv⟩

/-- `clear` preserves the invariant at EVERY generation — including the restamp when the generation
reaches u32::MAX and the rebuild when it wraps to 0 — and afterwards no cell is live (stamp hygiene:
a stamp equal to the generation can only have been written since this clear); the generation advances
by one modulo 2^32. -/
theorem table_inv_clear {N : Nat} {h : Nat → Nat} {t : HashTable.Table} (I : HashTable.Inv N h t) (hN : 0 < N) :
    HashTable.Inv N h (HashTable.clear N t) ∧ (HashTable.clear N t).length = 0 ∧
    (∀ i, i < N → HashTable.tmOf (HashTable.clear N t) i ≠ (HashTable.clear N t).ts) ∧
    (HashTable.clear N t).ts = (t.ts + 1) % 4294967296 := by
  obtain ⟨h1, h2, h3⟩ := HashTable.clear_spec I hN
  refine ⟨h1, h2, h3, ?_⟩
  simp only [HashTable.clear]
  split
  · rfl
  · split <;> rfl

/-- probing terminates: with fewer live cells than slots the loop of get_mut / peek_value / contains_key
stops within `N` steps (the fuel every model function passes) -/
theorem probing_terminates {N : Nat} {h : Nat → Nat} {t : HashTable.Table} (I : HashTable.Inv N h t)
    (hh : ∀ k, h k < N) (key : Nat) :
    (HashTable.probe N t.cells t.ts key N (h key)).isSome = true :=
  HashTable.probe_terminates I hh key

/-! ## medium-size hash table: refinement -/

/-- one step: in-domain operations succeed on the model, return what the reference map returns and
re-establish the refinement relation (which contains the invariant) -/
theorem refines_step {N : Nat} {h : Nat → Nat} {t : HashTable.Table} {m : FinMap.M} (R : HashTable.Rel N h t m)
    (hN : 0 < N) (hh : ∀ k, h k < N) (op : HashTable.Op) (hd : HashTable.InDom N m op) :
    ∃ t', HashTable.stepM N h t op = some (t', (HashTable.stepS m op).2) ∧ HashTable.Rel N h t' (HashTable.stepS m op).1 :=
  HashTable.step_rel R hN hh op hd

/-- all observers agree with the reference map on related states -/
theorem refines_observers {N : Nat} {h : Nat → Nat} {t : HashTable.Table} {m : FinMap.M} (R : HashTable.Rel N h t m)
    (hh : ∀ k, h k < N) :
    (∀ k, HashTable.peek N h t k = some (FinMap.get? m k)) ∧
    (∀ k, HashTable.containsKey N h t k = some (FinMap.contains m k)) ∧
    HashTable.len t = FinMap.len m ∧ HashTable.isEmpty t = FinMap.isEmpty m := by
  refine ⟨HashTable.peek_rel R hh, HashTable.containsKey_rel R hh, R.len, ?_⟩
  have := R.len
  simp only [HashTable.isEmpty, FinMap.isEmpty, FinMap.len] at this ⊢
  rw [this]

/-- `refines_map`: for every history of insert / get_mut / clear that keeps fewer live keys than slots,
started on a fresh table, the model returns exactly what the reference map returns (get_mut hands out
the stored value, or the default on creation) and ends in a state all of whose observers agree with the
reference map.  Histories are arbitrary lists, so every prefix is covered and any number of clears. -/
theorem refines_map (N : Nat) (h : Nat → Nat) (hN : 0 < N) (hh : ∀ k, h k < N) (ops : List HashTable.Op)
    (hok : HashTable.HistOK N FinMap.clear ops) :
    ∃ t, HashTable.runM N h (HashTable.init N) ops = some (t, (HashTable.runS FinMap.clear ops).2) ∧
      (∀ k, HashTable.peek N h t k = some (FinMap.get? (HashTable.runS FinMap.clear ops).1 k)) ∧
      (∀ k, HashTable.containsKey N h t k = some (FinMap.contains (HashTable.runS FinMap.clear ops).1 k)) ∧
      HashTable.len t = FinMap.len (HashTable.runS FinMap.clear ops).1 ∧
      HashTable.isEmpty t = FinMap.isEmpty (HashTable.runS FinMap.clear ops).1 := by
  obtain ⟨t, he, R⟩ := HashTable.run_rel hN hh ops _ _ (HashTable.init_rel N h hN) hok
  exact ⟨t, he, refines_observers R hh⟩

/-- the same from ANY generation `g ≤ u32::MAX` (what `verif_set_generation` jumps to, equivalently what
`g` clears of an empty table reach): histories that cross u32::MAX and the wrap to 0 are covered. -/
theorem refines_map_from_generation (N : Nat) (h : Nat → Nat) (hN : 0 < N) (hh : ∀ k, h k < N) (g : Nat)
    (hg : g ≤ HashTable.u32Max) (ops : List HashTable.Op) (hok : HashTable.HistOK N FinMap.clear ops) :
    ∃ t0 t, HashTable.setGeneration N (HashTable.init N) g = some t0 ∧ t0.ts = g ∧
      HashTable.runM N h t0 ops = some (t, (HashTable.runS FinMap.clear ops).2) ∧
      (∀ k, HashTable.peek N h t k = some (FinMap.get? (HashTable.runS FinMap.clear ops).1 k)) ∧
      (∀ k, HashTable.containsKey N h t k = some (FinMap.contains (HashTable.runS FinMap.clear ops).1 k)) ∧
      HashTable.len t = FinMap.len (HashTable.runS FinMap.clear ops).1 ∧
      HashTable.isEmpty t = FinMap.isEmpty (HashTable.runS FinMap.clear ops).1 := by
  obtain ⟨t0, he0, hts, R0⟩ := HashTable.setGeneration_rel (HashTable.init_rel N h hN) hN g hg rfl
  obtain ⟨t, he, R⟩ := HashTable.run_rel hN hh ops _ _ R0 hok
  exact ⟨t0, t, he0, hts, he, refines_observers R hh⟩

/-- non-vacuity: 4 slots, `h k = k % 4`; keys 3, 7, 11 all hash to the last slot, so the chain wraps
3 → 0 → 1; the history has a clear at generation u32::MAX (wrap to 0) when started from `g = u32::MAX` -/
example : HashTable.HistOK 4 FinMap.clear
    [.insert 3 10, .insert 7 20, .getMut 11, .insert 7 21, .clear, .getMut 7, .insert 11 5] := by
  simp [HashTable.HistOK, HashTable.InDom, HashTable.stepS, FinMap.insert, FinMap.erase, FinMap.contains,
    FinMap.get?, FinMap.len, FinMap.getOrCreate, FinMap.clear]
example : ∀ k, (fun k => k % 4) k < 4 := fun k => Nat.mod_lt _ (by decide)
example : (4294967295 : Nat) ≤ HashTable.u32Max := by decide

/-- non-vacuity of `Inv` / `Rel` (hypotheses of the step, observer, invariant and termination theorems):
a table at generation u32::MAX holding two keys that collide in the last slot (chain wraps 3 → 0) is
related to the map {3 ↦ 10, 7 ↦ 20} -/
example : ∃ t, HashTable.Rel 4 (fun k => k % 4) t [(7, 20), (3, 10)] ∧ t.ts = HashTable.u32Max := by
  have hh : ∀ k, (fun k => k % 4) k < 4 := fun k => Nat.mod_lt _ (by decide)
  obtain ⟨t0, _, hts, R0⟩ := HashTable.setGeneration_rel (HashTable.init_rel 4 (fun k => k % 4) (by decide))
    (by decide) HashTable.u32Max (Nat.le_refl _) rfl
  obtain ⟨t2, he2, R2⟩ := HashTable.insert_rel R0 hh 3 10 (Or.inr (by decide))
  obtain ⟨t3, he3, R3⟩ := HashTable.insert_rel R2 hh 7 20 (Or.inr (by decide))
  refine ⟨t3, R3, ?_⟩
  -- the generation is untouched by insert
  simp only [HashTable.insert] at he2 he3
  cases hg2 : HashTable.getMut 4 (fun k => k % 4) t0 3 with
  | none => simp [hg2] at he2
  | some r2 =>
    cases hg3 : HashTable.getMut 4 (fun k => k % 4) t2 7 with
    | none => simp [hg3] at he3
    | some r3 =>
      simp only [hg2, Option.some.injEq] at he2
      simp only [hg3, Option.some.injEq] at he3
      have e2 : r2.1.ts = t0.ts := by
        simp only [HashTable.getMut] at hg2
        split at hg2
        · cases hg2
        · split at hg2 <;> (injection hg2 with hg2; subst hg2; rfl)
      have e3 : r3.1.ts = t2.ts := by
        simp only [HashTable.getMut] at hg3
        split at hg3
        · cases hg3
        · split at hg3 <;> (injection hg3 with hg3; subst hg3; rfl)
      rw [← he3]; show r3.1.ts = _
      rw [e3, ← he2]; show r2.1.ts = _
      rw [e2, hts]

/-- `fibHash` mirrors FibonacciHash::hash: values observed on the real hasher (corpus/C13/d9-fib-2.case) -/
example : HashTable.fibHash 7 = 31497 ∧ HashTable.fibHash 113197 = 31497 ∧ HashTable.fibHash 0 = 0 := by decide

/-- the driver's fast path for long runs of clears (the honest 2^32-clear histories of the thorough
tier) is `n` times `clear` -/
theorem clearMany_is_iterated_clear (N n : Nat) (t : HashTable.Table) :
    HashTable.clearMany N n t = HashTable.clearN N n t :=
  HashTable.clearMany_eq N n t

/-! ### the defects fixed in /repo violate the statement (regression witnesses, 2 slots, `h k = k % 2`) -/

/-- D8 (no restamp at u32::MAX): after the clear that reaches generation u32::MAX an EMPTY table claims
to contain key 0, and the lookup of key 1 never ends (out of fuel), whereas the fixed `clear` answers
"absent" for both -/
example :
    let t : HashTable.Table := { cells := Array.replicate 2 default, ts := 4294967294, length := 0 }
    (HashTable.containsKey 2 (· % 2) (HashTable.Legacy.clear 2 t) 0 = some true ∧
     HashTable.containsKey 2 (· % 2) (HashTable.Legacy.clear 2 t) 1 = none) ∧
    (HashTable.containsKey 2 (· % 2) (HashTable.clear 2 t) 0 = some false ∧
     HashTable.containsKey 2 (· % 2) (HashTable.clear 2 t) 1 = some false) := by decide +kernel

/-- D9 (no reset on creation): insert(7,99); clear(); get_mut(7) hands out 99 instead of the default -/
example :
    ((HashTable.insert 2 (· % 2) (HashTable.init 2) 7 99).bind fun t =>
      (HashTable.Legacy.getMut 2 (· % 2) (HashTable.clear 2 t) 7).map fun r => HashTable.valAt r.1 r.2) = some 99 ∧
    ((HashTable.insert 2 (· % 2) (HashTable.init 2) 7 99).bind fun t =>
      (HashTable.getMut 2 (· % 2) (HashTable.clear 2 t) 7).map fun r => HashTable.valAt r.1 r.2) = some 0 := by decide

/-- the judge's observation checker is exactly "the observed answers are the reference map's answers" -/
theorem judge_checkObs_sound (m : FinMap.M) (U : List Nat) (o : FinMap.Obs) :
    FinMap.checkObs m U o = true ↔
      (o.len = FinMap.len m ∧ o.empty = FinMap.isEmpty m ∧ o.peek = U.map (FinMap.get? m) ∧
        o.contains = U.map (FinMap.contains m)) :=
  FinMap.checkObs_sound m U o

/-- the reference map means what it should: lookups after insert / erase / clear, and `len` counts keys -/
theorem finmap_laws (m : FinMap.M) (hm : FinMap.NoDup m) (k k' : Nat) (v : Int) :
    FinMap.get? (FinMap.insert m k v) k' = (if k = k' then some v else FinMap.get? m k') ∧
    FinMap.get? (FinMap.erase m k) k' = (if k = k' then none else FinMap.get? m k') ∧
    FinMap.get? FinMap.clear k' = none ∧
    FinMap.len (FinMap.insert m k v) = (if FinMap.contains m k then FinMap.len m else FinMap.len m + 1) ∧
    FinMap.len (FinMap.erase m k) = (if FinMap.contains m k then FinMap.len m - 1 else FinMap.len m) ∧
    FinMap.NoDup (FinMap.insert m k v) ∧ FinMap.NoDup (FinMap.erase m k) :=
  ⟨FinMap.get?_insert m k k' v, FinMap.get?_erase m k k', rfl, FinMap.len_insert m k v hm, FinMap.len_erase m k hm,
   FinMap.noDup_insert m k v hm, FinMap.noDup_erase m k hm⟩

end Tbx.Props.C13
