import Tbx.Model.RTree
import Tbx.Model.RTreeHeap
import Tbx.Spec.Nearest
import Tbx.Proofs.RTreeCover
import Tbx.Proofs.RTreeFuelBulk
import Tbx.Proofs.RTreeZOrder
/-
C12 — R-tree nearest iteration yields every element once, nearest first.

Property theorems only (helper lemmas live in Tbx/Proofs/RTree*.lean).  Registered in Tbx/Audit/C12.lean.
`B` = BRANCHING_FACTOR, `L` = LEAF_PACK_FACTOR are parameters (`2 ≤ B`, `1 ≤ L`; /repo has 30 and 30, the
driver uses the values regenerated from source).  `es` is the element list after the Z-order sort.
The priority queue is any implementation of the contract `PQOps.Lawful` (ties free), `dist` and `prio`
are arbitrary functions (the values of `distance_to` / of the boxes' `min_distance`).
-/
namespace Tbx.Props.C12
open Tbx.RTree Tbx.Nearest

/-- chunks of `B` partition `[0, w)`: index `i` lies in exactly one chunk `[B*j, min (B*(j+1)) w)`, and
that chunk exists (`j < ceilDiv w B`) -/
theorem chunks_partition {B : Nat} (hB : 0 < B) (w i : Nat) (hi : i < w) :
    ∃ j, (j < ceilDiv w B ∧ B * j ≤ i ∧ i < min (B * (j + 1)) w) ∧
      ∀ j', B * j' ≤ i → i < min (B * (j' + 1)) w → j' = j := by
  obtain ⟨h1, h2, h3, h4⟩ := chunk_partition hB w i hi
  exact ⟨i / B, ⟨h1, h2, h3⟩, fun j' a b => h4 j' a (by omega)⟩

/-- **pack_partition.** For every element list (also the empty one) the bulk loader terminates (the fuel
the model passes to the level loop suffices: the level width strictly decreases for `B ≥ 2`); the leaves
are the consecutive chunks of `L` elements and partition the list; the search node array consists of
levels as described by `Levels` (leaf group `j` starts at leaf `B*j`, tree node `j` of level `k+1` starts at
child `lstart k + B*j`), topped by at most one node; and every level partitions the level below it into
the child ranges `[B*j, min (B*(j+1)) width)`. -/
theorem pack_partition {α : Type} {B L : Nat} (hB : 2 ≤ B) (hL : 1 ≤ L) (es : List α) :
    ∃ t, bulkLoad B L es = some t ∧
      -- leaves
      t.leaves.flatten = es ∧ t.leaves.length = ceilDiv es.length L ∧
      (∀ j, j < ceilDiv es.length L →
        t.leaves[j]? = some ((es.drop (L * j)).take L) ∧
        ((es.drop (L * j)).take L).length = min (L * (j + 1)) es.length - L * j ∧
        0 < ((es.drop (L * j)).take L).length ∧ ((es.drop (L * j)).take L).length ≤ L) ∧
      -- levels of search nodes
      Levels B t.leaves.length t.nodes t.ends ∧ lwidth t.ends (t.ends.length - 1) ≤ 1 ∧
      -- level 0 partitions the leaves
      (∀ i, i < t.leaves.length → ∃ j, (j < lwidth t.ends 0 ∧ B * j ≤ i ∧ i < min (B * (j + 1)) t.leaves.length) ∧
        ∀ j', B * j' ≤ i → i < min (B * (j' + 1)) t.leaves.length → j' = j) ∧
      -- level k+1 partitions level k
      (∀ k, k + 1 < t.ends.length → ∀ i, i < lwidth t.ends k →
        ∃ j, (j < lwidth t.ends (k + 1) ∧ B * j ≤ i ∧ i < min (B * (j + 1)) (lwidth t.ends k)) ∧
          ∀ j', B * j' ≤ i → i < min (B * (j' + 1)) (lwidth t.ends k) → j' = j) := by
  obtain ⟨s, hs, hnl, hlev, htop⟩ := bulkShape_spec hB hL es.length
  have hlen : (leavesOf L es).length = s.nLeaves := by rw [leaves_length, hnl]
  refine ⟨⟨leavesOf L es, s.nodes, s.ends⟩, by simp [bulkLoad, hs], leaves_flatten (by omega) es,
    leaves_length L es, ?_, by rw [hlen]; exact hlev, htop, ?_, ?_⟩
  · intro j hj
    have := chunk_length (L := L) (by omega) es j hj
    exact ⟨leaves_get L es j hj, this.1, this.2.1, this.2.2⟩
  · intro i hi
    have hw0 : lwidth s.ends 0 = ceilDiv (leavesOf L es).length B := by
      have : lwidth s.ends 0 = lend s.ends 0 := by simp [lwidth, lstart]
      rw [this, hlev.lvl0, hlen]
    show ∃ j, (j < lwidth s.ends 0 ∧ _) ∧ _
    rw [hw0]
    exact chunks_partition (by omega) _ i hi
  · intro k hk i hi
    show ∃ j, (j < lwidth s.ends (k + 1) ∧ _) ∧ _
    rw [hlev.width_succ k hk]
    exact chunks_partition (by omega) _ i hi

/-- non-vacuity: 5 elements, B = L = 2: three leaves, two leaf groups, one root -/
example : bulkShape 2 2 5 = some ⟨3, [⟨0, 0⟩, ⟨0, 2⟩, ⟨1, 0⟩], [2, 3]⟩ := by decide
/-- the empty input terminates with no search node (this looped forever / underflowed before the D6 fix) -/
example : bulkShape 30 30 0 = some ⟨0, [], [0]⟩ := by decide
example : bulkShape 30 30 901 = some ⟨31, [⟨0, 0⟩, ⟨0, 30⟩, ⟨1, 0⟩], [2, 3]⟩ := by decide

/-- **children_count_exact.** For tree node `j` of level `k+1` (stored at `lend k + j`, first child
`lstart k + B*j`) the count `children_count` computes from `level_ends` is the number of nodes of level `k`
that belong to it (`i / B = j`), i.e. the length of `[B*j, min (B*(j+1)) width_k)`; it is at least 1 and
the children lie inside level `k`. -/
theorem children_count_exact {α : Type} {B L : Nat} (hB : 2 ≤ B) (hL : 1 ≤ L) (es : List α) :
    ∀ t, bulkLoad B L es = some t → ∀ k, k + 1 < t.ends.length → ∀ j, j < lwidth t.ends (k + 1) →
      t.nodes[lend t.ends k + j]? = some ⟨1, lstart t.ends k + B * j⟩ ∧
      childrenCount B t.ends (lstart t.ends k + B * j) =
        ((List.range (lwidth t.ends k)).filter fun i => i / B = j).length ∧
      childrenCount B t.ends (lstart t.ends k + B * j) = min (B * (j + 1)) (lwidth t.ends k) - B * j ∧
      1 ≤ childrenCount B t.ends (lstart t.ends k + B * j) ∧
      lstart t.ends k + B * j + childrenCount B t.ends (lstart t.ends k + B * j) ≤ lend t.ends k := by
  intro t ht k hk j hj
  obtain ⟨t', ht', _, _, _, hlev, _⟩ := pack_partition hB hL es
  rw [ht] at ht'
  cases ht'
  have hcc := childrenCount_levels (by omega) hlev k hk j hj
  have hjw : B * j < lwidth t.ends k := by
    rw [hlev.width_succ k hk] at hj
    exact (lt_ceilDiv_iff (by omega) _ _).mp hj
  refine ⟨hlev.inner k hk j hj, ?_, hcc.1, ?_, hcc.2⟩
  · rw [hcc.1, count_chunk (by omega) j]
    have : min (B * j) (lwidth t.ends k) = B * j := by omega
    rw [this]
  · rw [hcc.1, Nat.mul_succ]; omega

/-- non-vacuity (`n = 1801`, B = L = 30: 61 leaves, 3 leaf groups, the root has 3 children, not 30) -/
example : (bulkShape 30 30 1801).map (fun s => (s.ends, childrenCount 30 s.ends 0)) = some ([3, 4], 3) := by decide

/-- **iter_complete.** Whatever the box priorities are and however the queue breaks ties: the iteration
over the bulk-loaded tree never indexes out of bounds, and when it finishes it has yielded every element
exactly once (a permutation of `es`), each with `dist e`. -/
theorem iter_complete {α Q : Type} {B L : Nat} (hB : 2 ≤ B) (hL : 1 ≤ L) (es : List α)
    (P : PQOps Q) (hP : P.Lawful) (dist : α → Nat) (prio : Nat → Nat) (fuelNext fuel : Nat) :
    ∃ t, bulkLoad B L es = some t ∧
      collect P B t dist prio fuelNext fuel ≠ .panic ∧
      ∀ out, collect P B t dist prio fuelNext fuel = .ok out → CompleteOK es dist out := by
  obtain ⟨t, cov, ht, _, hcov, hroot⟩ := bulkLoad_cover hB hL es
  refine ⟨t, ht, collect_no_panic hP hcov _ _, ?_⟩
  intro out hout
  have := collect_complete hP hcov hout
  rw [hroot] at this
  exact ⟨this.1, this.2⟩

/-- **iter_sorted.** There is a function `cov` giving the elements below every search node (it satisfies the
expansion equations `IsCover`, and below the root lies all of `es`); if the priority of every search node
other than the root is a lower bound of the distances of the elements below it (`Admissible`; the root's
own priority is irrelevant, in particular nothing is assumed for trees of a single leaf group), a
finished iteration satisfies the whole specification: every element once, true distances, nondecreasing. -/
theorem iter_sorted {α : Type} {B L : Nat} (hB : 2 ≤ B) (hL : 1 ≤ L) (es : List α) :
    ∃ t cov, bulkLoad B L es = some t ∧ IsCover B t cov ∧ rootCover t cov = es ∧
      ∀ {Q : Type} (P : PQOps Q), P.Lawful → ∀ (dist : α → Nat) (prio : Nat → Nat) (fuelNext fuel : Nat) out,
        Admissible t dist prio cov → collect P B t dist prio fuelNext fuel = .ok out →
        NearestOK es dist out := by
  obtain ⟨t, cov, ht, _, hcov, hroot⟩ := bulkLoad_cover hB hL es
  refine ⟨t, cov, ht, hcov, hroot, ?_⟩
  intro Q P hP dist prio fn fuel out hadm hout
  have hc := collect_complete hP hcov hout
  rw [hroot] at hc
  exact ⟨hc.1, hc.2, collect_sorted hP hcov hadm hout⟩

/-- **iter_terminates.** The fuel the driver passes (`#search nodes + #elements + 2`, for both loops) always
suffices: the iteration finishes, and so (with `iter_complete`) it yields every element exactly once with
its distance — for every priority function, every lawful queue. -/
theorem iter_terminates {α Q : Type} {B L : Nat} (hB : 2 ≤ B) (hL : 1 ≤ L) (es : List α)
    (P : PQOps Q) (hP : P.Lawful) (dist : α → Nat) (prio : Nat → Nat) :
    ∃ t out, bulkLoad B L es = some t ∧
      collect P B t dist prio (t.nodes.length + es.length + 2) (t.nodes.length + es.length + 2) = .ok out ∧
      CompleteOK es dist out := by
  obtain ⟨t, W, ht, hw, hroot⟩ := bulkLoad_weight hB hL es
  obtain ⟨t', ht', hnp, hok⟩ := iter_complete hB hL es P hP dist prio
    (t.nodes.length + es.length + 2) (t.nodes.length + es.length + 2)
  rw [ht] at ht'
  cases ht'
  have hphi := phi_initQ (prio := prio) hP hw
  have hlt : phi P B t W (initQ P t prio) < t.nodes.length + es.length + 2 := by
    rw [hphi]; exact Nat.lt_of_le_of_lt hroot (by omega)
  have hnf := collectAux_fuel (dist := dist) (prio := prio) hP hw (t.nodes.length + es.length + 2)
    (t.nodes.length + es.length + 2) (initQ P t prio) [] hlt hlt
  cases hr : collect P B t dist prio (t.nodes.length + es.length + 2) (t.nodes.length + es.length + 2) with
  | ok out => exact ⟨t, out, ht, hr, hok out hr⟩
  | panic => exact absurd hr hnp
  | outOfFuel => exact absurd hr hnf

/-- corollary: the first item is a nearest neighbour and the first `k` items are `k` nearest ones -/
theorem first_k_nearest {α : Type} {es : List α} {dist : α → Nat} {out : List (α × Nat)}
    (h : NearestOK es dist out) (k : Nat) :
    (∀ p ∈ out.take k, ∀ r ∈ out.drop k, dist p.1 ≤ dist r.1) ∧
    (∀ p, out.head? = some p → ∀ e ∈ es, dist p.1 ≤ dist e) := by
  refine ⟨h.first_k k, ?_⟩
  intro p hp e he
  cases out with
  | nil => cases hp
  | cons a rest =>
    simp only [List.head?_cons, Option.some.injEq] at hp
    subst hp
    have hmem : e ∈ (a :: rest).map Prod.fst := h.perm.mem_iff.mpr he
    obtain ⟨r, hr, rfl⟩ := List.mem_map.mp hmem
    rcases List.mem_cons.mp hr with rfl | hr'
    · exact Nat.le_refl _
    · have := h.first_k 1 a (by simp) r (by simpa using hr')
      exact this

/-- the judge's executable checks imply the specification -/
theorem judge_sound {es : List Nat} {dist : Nat → Nat} {out : List (Nat × Nat)} :
    (nearestB es dist out = true → NearestOK es dist out) ∧
    (completeB es dist out = true → CompleteOK es dist out) :=
  ⟨nearestB_sound, completeB_sound⟩

/-- the two queues of Model/RTreeHeap.lean satisfy the contract the theorems quantify over -/
theorem queues_lawful : listPQ.Lawful ∧ heapPQ.Lawful := ⟨listPQ_lawful, heapPQ_lawful⟩

/-! ### non-vacuity: a concrete tree (B = L = 2, elements 10..50 with `dist e = |e - 32|`) -/

def exTree : Tree Nat := ⟨[[10, 20], [30, 40], [50]], [⟨0, 0⟩, ⟨0, 2⟩, ⟨1, 0⟩], [2, 3]⟩
def exDist (e : Nat) : Nat := if e ≤ 32 then 32 - e else e - 32
def exCov : Nat → List Nat
  | 0 => [10, 20, 30, 40]
  | 1 => [50]
  | 2 => [10, 20, 30, 40, 50]
  | _ => []
/-- admissible: group 0 (10..40) ≥ 2, group 1 (50) ≥ 18; the root's priority (99, not a lower bound) does
not matter: the root is alone in the queue when it is popped -/
def exPrio : Nat → Nat
  | 0 => 1
  | 1 => 15
  | _ => 99
/-- not a lower bound for group 0 (like the corner minimum beside a long box) -/
def exPrioBad : Nat → Nat
  | 0 => 25
  | 1 => 15
  | _ => 99

example : bulkLoad 2 2 [10, 20, 30, 40, 50] = some exTree := rfl
example : Admissible exTree exDist exPrio exCov := by
  intro i hi y hy
  match i, hi with
  | 0, _ => revert y; decide
  | 1, _ => revert y; decide
example : collect listPQ 2 exTree exDist exPrio 10 10 = .ok [(30, 2), (40, 8), (20, 12), (50, 18), (10, 22)] := rfl
/-- with the inadmissible priority the element 50 comes out before 30: complete, but not sorted -/
example : collect listPQ 2 exTree exDist exPrioBad 10 10 = .ok [(50, 18), (30, 2), (40, 8), (20, 12), (10, 22)] := rfl
/-- the admissible run satisfies the specification, the inadmissible one only its completeness part -/
example : NearestOK [10, 20, 30, 40, 50] exDist [(30, 2), (40, 8), (20, 12), (50, 18), (10, 22)] :=
  ⟨by decide, by decide, by decide⟩
example : CompleteOK [10, 20, 30, 40, 50] exDist [(50, 18), (30, 2), (40, 8), (20, 12), (10, 22)] ∧
    nondecB ([(50, 18), (30, 2), (40, 8), (20, 12), (10, 22)].map Prod.snd) = false :=
  ⟨⟨by decide, by decide⟩, by decide⟩

/-! ### the Z-order sort -/

/-- both components are i32 values (true of every `FPCoordinate` by its type) -/
def CoordI32 (c : Coord) : Prop := Tbx.Geo.CoordI32 (toGeo c)

instance (c : Coord) : Decidable (CoordI32 c) := by unfold CoordI32; infer_instance

/-- on i32 coordinates the comparison is the comparison of the interleaved (Morton) keys of the sign-flipped
components (`Tbx.Geo.zkey`, proved for the C19 model in `Tbx.Proofs.GeoZOrder` and transported along
`zorderCmp_eq_geo`) -/
theorem zorder_key (a b : Coord) (ha : CoordI32 a) (hb : CoordI32 b) :
    zorderCmp a b = compare (Tbx.Geo.zkey (toGeo a)) (Tbx.Geo.zkey (toGeo b)) := by
  rw [zorderCmp_eq_geo]; exact Tbx.Geo.zorderCmp_eq_key _ _ ha hb

/-- **zorder_total_preorder.** On i32 coordinates `zorder_cmp` is a total preorder (`≠ Greater` is transitive
and total) and answers `Equal` only for identical coordinates, so the stable sort is determined.
The i32 hypothesis is necessary: the model computes the xor / msb on the 32-bit patterns (which wrap) but the
final `compare` on the integers (which do not), so for arbitrary `Int` the statement is false, e.g.
a = (0,0), b = (0,-2^32), c = (0,-1): a ≤ b (equal patterns), b ≤ c, but a > c. -/
theorem zorder_total_preorder (a b c : Coord) (ha : CoordI32 a) (hb : CoordI32 b) (hc : CoordI32 c) :
    (zorderCmp a b ≠ .gt → zorderCmp b c ≠ .gt → zorderCmp a c ≠ .gt) ∧
    (zorderCmp a b ≠ .gt ∨ zorderCmp b a ≠ .gt) ∧
    (zorderCmp a b = .eq ↔ a = b) := by
  rw [zorder_key a b ha hb, zorder_key b c hb hc, zorder_key a c ha hc, zorder_key b a hb ha]
  simp only [Nat.compare_ne_gt, Nat.compare_eq_eq]
  refine ⟨Nat.le_trans, Nat.le_total _ _, ?_, fun h => by rw [h]⟩
  intro h
  have := Tbx.Geo.zkey_inj _ _ ha hb h
  cases a; cases b
  simp only [toGeo, Tbx.Geo.Coord.mk.injEq] at this
  simp [this.1, this.2]

/-- the counterexample of the comment, and an in-range instance across the sign boundary -/
example : zorderCmp ⟨0, 0⟩ ⟨0, -4294967296⟩ ≠ .gt ∧ zorderCmp ⟨0, -4294967296⟩ ⟨0, -1⟩ ≠ .gt ∧
    zorderCmp ⟨0, 0⟩ ⟨0, -1⟩ = .gt := by decide
example : CoordI32 ⟨-1, 5⟩ ∧ CoordI32 ⟨0, -7⟩ ∧ zorderCmp ⟨-1, 5⟩ ⟨0, -7⟩ = .lt := by decide

/-- **zsort_sorted_perm.** For elements whose centres are i32 coordinates, the first step of `from_elements`
yields a permutation of the input that is sorted by `zorder_cmp`; if the centres of the input are pairwise
distinct it is the only such list (so any correct sort gives the same leaves). -/
theorem zsort_sorted_perm {α : Type} (center : α → Coord) (hc : ∀ e, CoordI32 (center e)) (es : List α) :
    (zsort center es).Perm es ∧
    (zsort center es).Pairwise (fun a b => zorderCmp (center a) (center b) ≠ .gt) ∧
    ((∀ a ∈ es, ∀ b ∈ es, center a = center b → a = b) →
      ∀ out : List α, out.Perm es → out.Pairwise (fun a b => zorderCmp (center a) (center b) ≠ .gt) →
        out = zsort center es) := by
  have hperm : (zsort center es).Perm es := List.mergeSort_perm es _
  have hsorted : (zsort center es).Pairwise (fun a b => zorderCmp (center a) (center b) ≠ .gt) := by
    have := List.pairwise_mergeSort (le := fun a b => zorderCmp (center a) (center b) != .gt)
      (by
        intro a b c h1 h2
        simp only [bne_iff_ne, ne_eq] at h1 h2 ⊢
        exact (zorder_total_preorder _ _ _ (hc a) (hc b) (hc c)).1 h1 h2)
      (by
        intro a b
        simp only [Bool.or_eq_true, bne_iff_ne, ne_eq]
        exact (zorder_total_preorder _ _ _ (hc a) (hc b) (hc a)).2.1) es
    refine this.imp ?_
    intro a b h
    simpa using h
  refine ⟨hperm, hsorted, ?_⟩
  intro hinj out hp hs
  refine List.Perm.eq_of_pairwise ?_ hs hsorted (hp.trans hperm.symm)
  intro a b ha hb h1 h2
  have hae : a ∈ es := hp.mem_iff.mp ha
  have hbe : b ∈ es := hperm.mem_iff.mp hb
  apply hinj a hae b hbe
  -- both `≤`: the keys are equal, hence the coordinates
  have hk1 := h1; have hk2 := h2
  rw [zorder_key _ _ (hc a) (hc b), Nat.compare_ne_gt] at hk1
  rw [zorder_key _ _ (hc b) (hc a), Nat.compare_ne_gt] at hk2
  have heq : zorderCmp (center a) (center b) = .eq := by
    rw [zorder_key _ _ (hc a) (hc b), Nat.compare_eq_eq]; omega
  exact (zorder_total_preorder _ _ _ (hc a) (hc b) (hc a)).2.2.mp heq

/-- non-vacuity: a finite element type with i32 centres that are pairwise distinct -/
example : (∀ e : Fin 3, CoordI32 ((fun i : Fin 3 => (⟨(i.val : Int) - 1, 5 - 6 * (i.val : Int)⟩ : Coord)) e)) ∧
    (∀ a b : Fin 3, (⟨(a.val : Int) - 1, 5 - 6 * (a.val : Int)⟩ : Coord) = ⟨(b.val : Int) - 1, 5 - 6 * (b.val : Int)⟩ → a = b) := by
  decide

end Tbx.Props.C12
