import Tbx.Gen.Fns
import Tbx.Model.ZOrder
/-
C19/C12: the hand model of `zorder_cmp` (about which `zorder_key` and `zorder_strict_total` are proved) is
the function tools/translate.py regenerates from /repo/src/space_filling_curve.rs on every run.
-/
namespace Tbx.Props.GenTieZOrder
open Tbx.Geo

theorem pat32_eq (x : Int) : Tbx.Gen.pat32 x = Geo.pat32 x := rfl

theorem pat32_lt (x : Int) : Geo.pat32 x < 4294967296 := by
  unfold Geo.pat32
  have h := Int.emod_lt_of_pos x (show (0 : Int) < 4294967296 by decide)
  have h0 := Int.emod_nonneg x (show (4294967296 : Int) ≠ 0 by decide)
  omega

theorem msb_eq (x : Nat) (h0 : x ≠ 0) (h : x < 4294967296) : 31 - Tbx.Gen.leadingZeros32 x = Nat.log2 x := by
  have hl : Nat.log2 x < 32 := (Nat.log2_lt h0).mpr (by simpa using h)
  simp only [Tbx.Gen.leadingZeros32, h0, if_false]
  omega

theorem bit_eq (p k : Nat) : ((p >>> k) &&& 1) = if p.testBit k then 1 else 0 := by
  have h : p.testBit k = decide ((p >>> k) % 2 = 1) := by
    simp [Nat.testBit, Nat.one_and_eq_mod_two]
  rw [h, Nat.and_one_is_mod]
  rcases Nat.mod_two_eq_zero_or_one (p >>> k) with e | e <;> simp [e]

theorem bits_ne (p q k : Nat) : ((((p >>> k) &&& 1) != ((q >>> k) &&& 1)) : Bool) = (p.testBit k != q.testBit k) := by
  rw [bit_eq, bit_eq]
  cases p.testBit k <;> cases q.testBit k <;> rfl

theorem xor_lt (a b : Nat) (ha : a < 4294967296) (hb : b < 4294967296) : a ^^^ b < 4294967296 :=
  Nat.xor_lt_two_pow (n := 32) ha hb

theorem zorder_model_eq_gen (a b : Coord) :
    Geo.zorderCmp a b = Tbx.Gen.zorderCmp a.lat a.lon b.lat b.lon := by
  unfold Geo.zorderCmp Tbx.Gen.zorderCmp
  simp only [pat32_eq]
  have hx1 := xor_lt _ _ (pat32_lt a.lat) (pat32_lt b.lat)
  have hx2 := xor_lt _ _ (pat32_lt a.lon) (pat32_lt b.lon)
  by_cases h1 : Geo.pat32 a.lat ^^^ Geo.pat32 b.lat = 0
  · by_cases h2 : Geo.pat32 a.lon ^^^ Geo.pat32 b.lon = 0
    · simp [h1, h2]
    · simp [h1, h2]
  · by_cases h2 : Geo.pat32 a.lon ^^^ Geo.pat32 b.lon = 0
    · simp [h1, h2]
    · have e1 := msb_eq _ h1 hx1
      have e2 := msb_eq _ h2 hx2
      simp only [h1, h2, false_and, if_false]
      simp only [e1, e2, bits_ne]
      have hb1 : (Geo.pat32 a.lat ^^^ Geo.pat32 b.lat == 0) = false := by simp [h1]
      have hb2 : (Geo.pat32 a.lon ^^^ Geo.pat32 b.lon == 0) = false := by simp [h2]
      simp only [hb1, hb2, Bool.and_self, Bool.false_eq_true, if_false]
      cases compare (Geo.pat32 a.lat ^^^ Geo.pat32 b.lat).log2 (Geo.pat32 a.lon ^^^ Geo.pat32 b.lon).log2 <;> rfl

end Tbx.Props.GenTieZOrder
