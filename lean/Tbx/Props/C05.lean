import Tbx.Proofs.ChipperBest
import Tbx.Proofs.ChipperReports
import Tbx.Proofs.ChipperPar
import Tbx.Proofs.ChipperStepC03
import Tbx.Proofs.ChipperSpecAll
/-
C05 — chipper emits the exact recursive inertial-flow hierarchy for every node.

Theorems about the model `Tbx.Chipper.chipper` (Model/Chipper.lean), for ANY bisection step `step` that
satisfies `Tbx.Chipper.StepSpec` (left ++ right of a reported result has no duplicates, lies inside the cell,
contains every edge source, both sides non-empty — C03's theorems about `Tbx.InertialFlow.subStep`;
`subStep_stepSpec_statement` below says that the real step model is such a step) and any size-of-contraction
function.  Ids are built with the child / descendant functions REGENERATED from src/partition_id.rs.

  flowCmp_lex         the winner of the four-axis search is the minimum of (flow, −balance, axis)
  minBy_leftmost_min  the same at list level: `min_by(flow_cmp)` = leftmost minimum
  id_path             j child steps + padding k: id = 2^(j+k) + bits·2^k (+ 2^k − 1), level j+k, fits u32
  reports_consistent  cut rows = the edges whose end point ids differ (file order), assignment rows = the ids
  hierarchy           reading a node's id top-down gives the sides of the Spec's depth-first recursion
  level_exact         if every reached cell is split and every node has an outgoing edge, every id has level r
  …_subStep           the same for the model of the real `sub_step`, through C03 (`subStep_stepSpec`,
                      `subStep_total`): no assumption about the step is left
-/
namespace Tbx.Props.C05
open Tbx Tbx.Chipper Tbx.Hierarchy Tbx.InertialFlow Tbx.Gen

/-- `Lt a b` ("a strictly better than b") is: smaller flow, or equal flow and strictly larger balance, the
    balances min(|L|,|R|)/(|L|+|R|) compared exactly by cross multiplication -/
theorem lt_def (a b : FlowRes) :
    Lt a b ↔ (a.flow < b.flow ∨
      (a.flow = b.flow ∧ balanceNum b * balanceDen a < balanceNum a * balanceDen b)) := Iff.rfl

/-- `flow_cmp(a, b) == Greater` iff b is strictly better than a -/
theorem flowCmp_gt (a b : FlowRes) : flowCmp a b = .gt ↔ Lt b a := flowCmp_gt_iff a b

/-- `min_by(flow_cmp)` returns the LEFTMOST minimum: an element with only strictly worse elements before it
    and no strictly better element after it -/
theorem minBy_leftmost_min (xs : List FlowRes) (x : FlowRes) (hpos : ∀ y ∈ xs, 0 < balanceDen y) :
    minBy xs = some x ↔
      ∃ l r, xs = l ++ x :: r ∧ (∀ y ∈ l, Lt x y) ∧ (∀ y ∈ r, ¬ Lt y x) :=
  ⟨split_of_minBy hpos, minBy_of_split⟩

/-- The best of four: the reported result comes from an axis `a` run to completion under the cell's node
    count as bound; no axis reports a strictly better (flow, balance); every lower axis that completes reports
    a strictly worse one.  So the winner is the minimum of (flow, −balance, axis). -/
theorem flowCmp_lex (n : Nat) (step : Step) (kOf : Nat → Nat) (hstep : StepSpec n step kOf)
    (job : Job) (hjob : JobOK n job) (x : FlowRes) (h : bestSeq step kOf job = .some x) :
    ∃ a, a < 4 ∧ step job.edges job.ids a (kOf job.ids.length) job.ids.length = .ok x ∧
      (∀ a', a' < 4 → ∀ y, step job.edges job.ids a' (kOf job.ids.length) job.ids.length = .ok y → ¬ Lt y x) ∧
      (∀ a', a' < a → ∀ y, step job.edges job.ids a' (kOf job.ids.length) job.ids.length = .ok y → Lt x y) := by
  apply bestOf_axis_lex 4 (fun a => step job.edges job.ids a (kOf job.ids.length) job.ids.length) x
  · intro a _ y hy
    obtain ⟨_, hl, _⟩ := hstep.res job a _ y hjob hy
    unfold balanceDen
    have : 0 < y.left.length := List.length_pos_iff.mpr hl
    omega
  · exact h

/-- After the child steps `bits` from the root (0 = left, 1 = right; `idOfSides` folds the generated
    `pidMakeLeftChild` / `pidMakeRightChild`) and `make_leftmost/rightmost_descendant k`:
    the id is 2^(j+k) + bits·2^k (+ 2^k − 1), its level is j + k, and it fits 32 bits when j + k ≤ 31. -/
theorem id_path (bits : List Bool) (k : Nat) :
    pidLeftmostDescendant (idOfSides bits) k = 2 ^ (bits.length + k) + bitsVal bits * 2 ^ k ∧
    pidRightmostDescendant (idOfSides bits) k = 2 ^ (bits.length + k) + bitsVal bits * 2 ^ k + (2 ^ k - 1) ∧
    (bits.length + k ≤ 31 →
      pidLevel (pidLeftmostDescendant (idOfSides bits) k) = bits.length + k ∧
      pidLevel (pidRightmostDescendant (idOfSides bits) k) = bits.length + k ∧
      pidRightmostDescendant (idOfSides bits) k < 2 ^ 32) := by
  refine ⟨?_, ?_, ?_⟩
  · rw [leftmost_eq, idOfSides_eq, bitsVal_append, bitsVal_replicate_false]; simp
  · rw [rightmost_eq, idOfSides_eq, bitsVal_append, bitsVal_replicate_true]; simp; omega
  · intro h
    rw [leftmost_eq, rightmost_eq]
    refine ⟨?_, ?_, ?_⟩
    · rw [level_idOfSides _ (by simpa using h)]; simp
    · rw [level_idOfSides _ (by simpa using h)]; simp
    · exact idOfSides_fits _ (by simpa using h)

/-- The Spec's executable form (what the judge runs, `best` evaluated once per cell) lists, for every node,
    exactly the sides of the per-node definition `specSides` - for any `best` whose two sides are disjoint
    sub-lists of the cell. -/
theorem specAll_sound (best : Cell → Option (List Nat × List Nat)) (m : Nat) (hb : BestSides best)
    (d : Nat) (c : Cell) (p : Nat × List Bool) (h : p ∈ specAll best m d c) :
    p.1 ∈ c.ids ∧ p.2 = specSides best m d c p.1 :=
  ⟨specAll_keys best m hb d c p h, Tbx.Hierarchy.specAll_sound best m hb d c p h⟩

/-- reading an id top-down gives back the sides it was built from -/
theorem id_reads_back (s : List Bool) : sidesOf (idOfSides s) = s := sidesOf_idOfSides s

/-- The reports: an edge is in the cut file iff the ids of its end points differ, in file order; the rows of
    both files are the Spec's (`expectedCut`, `expectedAssignment`) for the ids in the array. -/
theorem reports_consistent (edges : List Chipper.Edge) (pid : Array Nat) (coord : Nat → Coord) :
    (∀ e, e ∈ cutEdges edges pid ↔ e ∈ edges ∧ gt pid e.1 ≠ gt pid e.2) ∧
    (cutEdges edges pid).Sublist edges ∧
    (cutRows edges pid coord).map (fun r => (pairOf r.1, pairOf r.2)) =
      expectedCut edges pid.toList (fun i => pairOf (coord i)) ∧
    (assignmentRows pid coord).map (fun r => (r.1, (pairOf r.2).1, (pairOf r.2).2)) =
      expectedAssignment pid.toList (fun i => pairOf (coord i)) :=
  ⟨cutEdges_iff edges pid, cutEdges_sublist edges pid, cutRows_eq edges pid coord, assignmentRows_eq pid coord⟩

/-- The hierarchy: for every node x the id chipper writes is the id whose top-down reading is
    `specSides`: left/right as chosen by the best bisection of each cell containing x, a cell of at most m nodes
    is not split and x gets the leftmost / rightmost descendant. -/
theorem hierarchy (step : Step) (cfg : Cfg) (edges : List Chipper.Edge) (n : Nat)
    (hm : 1 ≤ cfg.m) (hn : 2 ≤ n) (hsrc : ∀ e ∈ edges, e.1 < n)
    (hsmall : 2 * edges.length + 6 < Tbx.Flow.INV) (hstep : StepSpec n step cfg.kOf)
    (out : Array Nat × List (List Job)) (h : chipper step cfg edges n = some out) :
    ∀ x, x < n →
      gt out.1 x = idOfSides (specSides (specBest (bestSeq step cfg.kOf)) cfg.m cfg.r
        { edges := edges, ids := List.range n } x) ∧
      sidesOf (gt out.1 x) = specSides (specBest (bestSeq step cfg.kOf)) cfg.m cfg.r
        { edges := edges, ids := List.range n } x := by
  intro x hx
  have := run_hier cfg (bestSeq step cfg.kOf) edges n hm hn hsrc hsmall (bestSeq_ok n step cfg.kOf hstep) out h x hx
  unfold specId at this
  exact ⟨this, by rw [this, sidesOf_idOfSides]⟩

/-- Levels: if the four-axis search of every well-formed job whose nodes all have an outgoing edge reports a
    result (no job loses all four axes to the bound), every node of the input has an outgoing edge (true for
    symmetric connected graphs) and r ≤ 31, then every id has level exactly r. -/
theorem level_exact (step : Step) (cfg : Cfg) (edges : List Chipper.Edge) (n : Nat)
    (hm : 1 ≤ cfg.m) (hn : 2 ≤ n) (hr : cfg.r ≤ 31) (hsrc : ∀ e ∈ edges, e.1 < n)
    (hsmall : 2 * edges.length + 6 < Tbx.Flow.INV)
    (hout : ∀ x, x < n → ∃ e ∈ edges, e.1 = x)
    (hstep : StepSpec n step cfg.kOf)
    (hfin : ∀ job, JobOK n job → JobFull job → ∃ res, bestSeq step cfg.kOf job = .some res)
    (out : Array Nat × List (List Job)) (h : chipper step cfg edges n = some out) :
    ∀ x, x < n → pidLevel (gt out.1 x) = cfg.r := by
  intro x hx
  have hb := bestSeq_ok n step cfg.kOf hstep
  have hid := run_hier cfg (bestSeq step cfg.kOf) edges n hm hn hsrc hsmall hb out h x hx
  have hroot := (root_queueOK edges n hn hsrc hsmall).jobs _ (List.mem_singleton.mpr rfl)
  have hfull : JobFull { edges := edges, ids := List.range n } := by
    intro y hy
    exact hout y (List.mem_range.mp hy)
  have hlen := specSides_length cfg (bestSeq step cfg.kOf) n hm hb hfin cfg.r
    { edges := edges, ids := List.range n } x hroot hfull (List.mem_range.mpr hx)
  rw [hid]
  unfold specId
  have hlen' : (specSides (specBest (bestSeq step cfg.kOf)) cfg.m cfg.r
      { edges := edges, ids := List.range n } x).length = cfg.r := hlen
  rw [level_idOfSides _ (by omega), hlen']

/-! ### the real step model (C03) -/

/-- `Tbx.InertialFlow.subStep` is a step in the sense of `StepSpec`, for every size-of-contraction function in
    range — by C03's `sides_nodup_subset`, `sides_cover`, `sides_nonempty` -/
theorem subStep_stepSpec (coord : Nat → Coord) (n : Nat) (kOf : Nat → Nat)
    (hk : ∀ s, 2 ≤ s → 1 ≤ kOf s ∧ 2 * kOf s ≤ s) :
    StepSpec n (fun e ids a k β => subStep e ids coord a k β) kOf :=
  Tbx.Chipper.subStep_stepSpec coord n kOf hk

/-- `hierarchy` for the model of the real `sub_step`: no assumption left beyond the input conditions -/
theorem hierarchy_subStep (coord : Nat → Coord) (cfg : Cfg) (edges : List Chipper.Edge) (n : Nat)
    (hm : 1 ≤ cfg.m) (hn : 2 ≤ n) (hsrc : ∀ e ∈ edges, e.1 < n)
    (hsmall : 2 * edges.length + 6 < Tbx.Flow.INV)
    (hk : ∀ s, 2 ≤ s → 1 ≤ cfg.kOf s ∧ 2 * cfg.kOf s ≤ s)
    (out : Array Nat × List (List Job))
    (h : chipper (fun e ids a k β => subStep e ids coord a k β) cfg edges n = some out) :
    ∀ x, x < n →
      sidesOf (gt out.1 x) =
        specSides (specBest (bestSeq (fun e ids a k β => subStep e ids coord a k β) cfg.kOf)) cfg.m cfg.r
          { edges := edges, ids := List.range n } x :=
  fun x hx => (hierarchy _ cfg edges n hm hn hsrc hsmall (subStep_stepSpec coord n cfg.kOf hk) out h x hx).2

/-- In the hierarchy of the real step model, "the best bisection of a cell" is the property's: the reported
    sides come from an axis whose step result is `Tbx.Bisection.Valid` (C03: the minimum cut between the
    contracted ends with the inclusion-minimal source side), minimal in (flow, −balance, axis). -/
theorem best_is_valid_min (coord : Nat → Coord) (n : Nat) (kOf : Nat → Nat)
    (hk : ∀ s, 2 ≤ s → 1 ≤ kOf s ∧ 2 * kOf s ≤ s)
    (job : Job) (hjob : JobOK n job) (x : FlowRes)
    (h : bestSeq (fun e ids a k β => subStep e ids coord a k β) kOf job = .some x) :
    ∃ a, a < 4 ∧
      Tbx.Bisection.Valid job.edges (sortIds job.ids coord a) (kOf job.ids.length) x.flow x.left x.right ∧
      (∀ a', a' < 4 → ∀ y, subStep job.edges job.ids coord a' (kOf job.ids.length) job.ids.length = .ok y → ¬ Lt y x) ∧
      (∀ a', a' < a → ∀ y, subStep job.edges job.ids coord a' (kOf job.ids.length) job.ids.length = .ok y → Lt x y) := by
  obtain ⟨a, ha, hok, h1, h2⟩ := flowCmp_lex n _ kOf (subStep_stepSpec coord n kOf hk) job hjob x h
  obtain ⟨hk1, hk2⟩ := hk job.ids.length hjob.two
  exact ⟨a, ha, Tbx.Props.C03.sub_step_valid job.edges job.ids coord a _ _ x hjob.nodup hjob.two hk1 hk2
    (fun e he => hjob.src e he) hjob.small hok, h1, h2⟩

/-- totality of `Tbx.InertialFlow.subStep` on well-formed jobs: it completes under some bound and never
    reaches a panic / out-of-fuel branch (C03 `sub_step_total`, from C01/C02's total correctness of Dinic) -/
theorem subStep_total (coord : Nat → Coord) (n : Nat) (kOf : Nat → Nat)
    (hk : ∀ s, 2 ≤ s → 1 ≤ kOf s ∧ 2 * kOf s ≤ s) :
    StepTotal n (fun e ids a k β => subStep e ids coord a k β) kOf :=
  Tbx.Chipper.subStep_total coord n kOf hk

/-- `level_exact` for the real step model: if in every well-formed cell whose nodes all have
    an outgoing edge SOME axis has a cut of at most the cell's node count ("every cut stays below the cell's
    node count" of the property's domain, needed for one axis only), every id has level exactly r. -/
theorem level_exact_subStep (coord : Nat → Coord) (cfg : Cfg) (edges : List Chipper.Edge) (n : Nat)
    (hm : 1 ≤ cfg.m) (hn : 2 ≤ n) (hr : cfg.r ≤ 31) (hsrc : ∀ e ∈ edges, e.1 < n)
    (hsmall : 2 * edges.length + 6 < Tbx.Flow.INV)
    (hout : ∀ x, x < n → ∃ e ∈ edges, e.1 = x)
    (hk : ∀ s, 2 ≤ s → 1 ≤ cfg.kOf s ∧ 2 * cfg.kOf s ≤ s)
    (hcut : ∀ job, JobOK n job → JobFull job → ∃ a, a < 4 ∧ ∃ (β : Int) (r : FlowRes),
      subStep job.edges job.ids coord a (cfg.kOf job.ids.length) β = .ok r ∧ r.flow ≤ (job.ids.length : Int))
    (out : Array Nat × List (List Job))
    (h : chipper (fun e ids a k β => subStep e ids coord a k β) cfg edges n = some out) :
    ∀ x, x < n → pidLevel (gt out.1 x) = cfg.r := by
  have htotal := subStep_total coord n cfg.kOf hk
  apply level_exact _ cfg edges n hm hn hr hsrc hsmall hout (subStep_stepSpec coord n cfg.kOf hk) ?_ out h
  intro job hjob hfull
  obtain ⟨a, ha, β, r, hok, hle⟩ := hcut job hjob hfull
  obtain ⟨hk1, hk2⟩ := hk job.ids.length hjob.two
  have hpre := Tbx.Props.C03.preOK_sortIds job.edges job.ids coord a (cfg.kOf job.ids.length) hjob.nodup hjob.two
    hk1 hk2 (fun e he => hjob.src e he)
  have hok' := (Tbx.Props.C03.ok_bound_irrelevant job.edges _ _ hpre hjob.small β (job.ids.length : Int) r hok hle).1
  -- no axis panics, and axis `a` reports a result
  unfold bestSeq bestPar bestOf
  have hnp : (axisOuts (fun e ids a k β => subStep e ids coord a k β) (cfg.kOf job.ids.length) job
      (fun _ => (job.ids.length : Int))).any isPanic = false := by
    rw [List.any_eq_false]
    intro o ho
    unfold axisOuts at ho
    obtain ⟨a', ha', rfl⟩ := List.mem_map.mp ho
    have := htotal.2 job a' (job.ids.length : Int) hjob (List.mem_range.mp ha') (Int.natCast_nonneg _)
    cases hs : subStep job.edges job.ids coord a' (cfg.kOf job.ids.length) (job.ids.length : Int) with
    | panic => exact absurd hs this
    | aborted => simp [isPanic]
    | ok _ => simp [isPanic]
  rw [hnp]
  simp only [Bool.false_eq_true, if_false]
  cases hmin : minBy ((axisOuts (fun e ids a k β => subStep e ids coord a k β) (cfg.kOf job.ids.length) job
      (fun _ => (job.ids.length : Int))).filterMap okOf) with
  | some res => exact ⟨res, rfl⟩
  | none =>
    exfalso
    have hnil := minBy_eq_none.mp hmin
    have hmem : r ∈ (axisOuts (fun e ids a k β => subStep e ids coord a k β) (cfg.kOf job.ids.length) job
        (fun _ => (job.ids.length : Int))).filterMap okOf := by
      refine List.mem_filterMap.mpr ⟨.ok r, ?_, rfl⟩
      unfold axisOuts
      exact List.mem_map.mpr ⟨a, List.mem_range.mpr ha, hok'⟩
    rw [hnil] at hmem
    cases hmem

/-! ### non-vacuity: a concrete step satisfying `StepSpec`, and a concrete run -/

/-- splits off the first id of the cell (flow 0) -/
def toyStep : Step := fun _ ids _ _ _ =>
  match ids with
  | x :: y :: rest => .ok { flow := 0, left := [x], right := y :: rest }
  | _ => .panic

theorem toyStep_spec (n : Nat) (kOf : Nat → Nat) : StepSpec n toyStep kOf where
  res := by
    intro job a β r hjob h
    unfold toyStep at h
    split at h
    · rename_i x y rest hids
      cases h
      refine ⟨⟨?_, ?_, ?_⟩, by simp, by simp⟩
      · simpa [hids] using hjob.nodup
      · intro z hz; rw [hids]; simpa using hz
      · intro e he; have := hjob.src e he; rw [hids] at this; simpa using this
    · cases h

/-- the side condition of `level_exact` holds for the toy step: every well-formed job gets a result -/
theorem toyStep_fin (n : Nat) (kOf : Nat → Nat) :
    ∀ job, JobOK n job → JobFull job → ∃ res, bestSeq toyStep kOf job = .some res := by
  intro job hjob _
  have h2 := hjob.two
  match hids : job.ids with
  | [] => rw [hids] at h2; simp at h2
  | [_] => rw [hids] at h2; simp at h2
  | x :: y :: rest =>
    refine ⟨{ flow := 0, left := [x], right := y :: rest }, ?_⟩
    simp [bestSeq, bestPar, bestOf, axisOuts, toyStep, hids, List.range, List.range.loop, isPanic, okOf, minBy,
      minOp, flowCmp]

def exCfg : Cfg := { r := 2, m := 1, kOf := fun _ => 1 }
def exEdges : List Chipper.Edge := [(0, 1), (1, 0), (1, 2), (2, 1), (2, 3), (3, 2)]

example : (chipper toyStep exCfg exEdges 4).map (fun o => o.1.toList) = some [4, 6, 7, 7] := by decide
example : ∀ e ∈ exEdges, e.1 < 4 := by decide
/-- `level_exact` and `hierarchy` applied to the concrete run -/
example (out : Array Nat × List (List Job)) (h : chipper toyStep exCfg exEdges 4 = some out) :
    ∀ x, x < 4 → pidLevel (gt out.1 x) = 2 :=
  level_exact toyStep exCfg exEdges 4 (by decide) (by decide) (by decide) (by decide) (by decide) (by decide)
    (toyStep_spec 4 _) (toyStep_fin 4 _) out h
example (out : Array Nat × List (List Job)) (h : chipper toyStep exCfg exEdges 4 = some out) :
    sidesOf (gt out.1 1) = specSides (specBest (bestSeq toyStep exCfg.kOf)) 1 2 { edges := exEdges, ids := List.range 4 } 1 :=
  (hierarchy toyStep exCfg exEdges 4 (by decide) (by decide) (by decide) (by decide) (toyStep_spec 4 _) out h 1 (by decide)).2
example : ∀ x, x < 4 → ∃ e ∈ exEdges, e.1 = x := by decide
example : pidLeftmostDescendant (idOfSides [true, false]) 3 = 2 ^ 5 + 2 * 2 ^ 3 ∧
    pidLevel (pidRightmostDescendant (idOfSides [true, false]) 3) = 5 := by decide
example : minBy [⟨2, [1], [2, 3]⟩, ⟨1, [1], [2, 3, 4]⟩, ⟨1, [1, 2], [3, 4]⟩, ⟨1, [3, 4], [1, 2]⟩] =
    some ⟨1, [1, 2], [3, 4]⟩ := by decide
example : specAll (specBest (bestSeq toyStep exCfg.kOf)) 1 2 { edges := exEdges, ids := [0, 1, 2, 3] } =
    [(0, [false, false]), (1, [true, false]), (2, [true, true]), (3, [true, true])] := by decide
example : cutEdges exEdges #[4, 6, 7, 7] = [(0, 1), (1, 0), (1, 2), (2, 1)] := by decide

end Tbx.Props.C05
