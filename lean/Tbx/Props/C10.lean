import Tbx.Model.AHeap
import Tbx.Spec.PQ
import Tbx.Proofs.AHeapOrder
/-
C10 — the addressable heap behaves as a min-priority queue with decrease-key.

Property theorems only (helper lemmas live in Tbx/Proofs).  Registered in Tbx/Audit/C10.lean.
-/
namespace Tbx.Props.C10
open Tbx Tbx.AHeap

/-- the executable minimum check used by the judge is exactly the Spec's `IsMin` -/
theorem judge_isMin_sound (q : PQ.Q) (id : Int) : PQ.isMinB q id = true ↔ PQ.IsMin q id :=
  PQ.isMinB_iff q id

/-- after `clear` the heap is empty, nothing is inserted/contained/removed, and it equals a fresh heap -/
theorem clear_post (s : Heap) :
    len (clear s) = 0 ∧ insertedLen (clear s) = 0 ∧ clear s = init s.wmin s.wmax ∧
    (∀ id, contains (clear s) id = false ∧ removed (clear s) id = false ∧ inserted (clear s) id = false ∧
           weight (clear s) id = s.wmax) := by
  refine ⟨rfl, rfl, rfl, ?_⟩
  intro id
  simp [clear, init, contains, removed, inserted, weight, lookup]

/-- sift-up establishes heap order (with `w` imagined in the final hole) from heap order with a hole -/
theorem upLoop_keeps_order (fuel : Nat) (h : Array Elem) (ns : Array Node) (key : Nat) (w : Int)
    (hk : key < h.size) (hf : key ≤ fuel) (hs0 : (gt h 0).weight ≤ w)
    (ho : OrdW h key w) (hb : 2 ≤ key → Below h key) :
    OrdW (upLoop fuel h ns key w).1 (upLoop fuel h ns key w).2.2 w ∧
    (2 ≤ (upLoop fuel h ns key w).2.2 →
       (gt (upLoop fuel h ns key w).1 ((upLoop fuel h ns key w).2.2 / 2)).weight ≤ w) :=
  let r := upLoop_spec fuel h ns key w hk hf hs0 ho hb
  ⟨r.2.2.1, r.2.2.2.1⟩

/-- non-vacuity: a concrete heap with a hole satisfies the hypotheses of `upLoop_keeps_order` -/
example : OrdW #[⟨0, -5⟩, ⟨0, 1⟩, ⟨1, 4⟩, ⟨2, 7⟩] 3 0 ∧ (2 ≤ 3 → Below #[(⟨0, -5⟩ : Elem), ⟨0, 1⟩, ⟨1, 4⟩, ⟨2, 7⟩] 3) := by
  constructor
  · intro k h2 hk hne
    have : k = 2 := by simp at hk; omega
    subst this; simp [wt, gt]
  · intro _ k h2 hk he
    simp at hk; omega

end Tbx.Props.C10
