import Tbx.Model.AHeap
import Tbx.Spec.PQ
import Tbx.Proofs.AHeapOrder
import Tbx.Proofs.AHeapInvRun
/-
C10 — the addressable heap behaves as a min-priority queue with decrease-key.

Property theorems only (helper lemmas live in Tbx/Proofs).  Registered in Tbx/Audit/C10.lean.

Vocabulary (defined in Tbx/Proofs/AHeapInvDefs.lean and Tbx/Proofs/AHeapInvRun.lean):
  `Inv s`      representation invariant of the model state (sentinel, weights ≥ min_value, heap
               order, back pointers, forward pointers / `key = 0` iff removed, id-map contract)
  `abs s`      the reference queue `Tbx.PQ.Q` the state stands for (nodes in insertion order,
               `live` iff `key ≠ 0`)
  `Op`, `step` one operation of the model (`none` = the Rust panics), `run` a history
  `Pre`        the precondition of an operation, read in the reference state
  `SpecStep`/`SpecRun`  the reference queue's (nondeterministic in `delete_min`) behaviours
  `ValidFrom`  a history all of whose preconditions hold along the model's own run
  `Valid`      the same, purely on the reference (for every choice of minimum)
-/
namespace Tbx.Props.C10
open Tbx Tbx.AHeap

/-! ### concrete instances used by the non-vacuity examples -/

/-- insert (1,10),(2,20),(3,30) into a fresh heap (the D2 witness prefix) -/
def ex3 : Heap := insert (insert (insert (init (-100) 100) 1 10 7) 2 20 8) 3 30 9

/-- a history exercising every operation, including the D2 (decrease then extract) and D4
(insert after flush) situations -/
def exOps : List Op :=
  [.ins 1 10 7, .ins 2 20 8, .ins 3 30 9, .dec 3 5, .del, .setd 1 4, .decd 2 6 1, .del,
   .flush, .ins 4 1 1, .clear, .ins 5 2 2, .ins 6 2 3, .del]

instance (wmin wmax : Int) (q : PQ.Q) (op : Op) : Decidable (Pre wmin wmax q op) := by
  cases op <;> unfold Pre <;> infer_instance

/-- executable version of `ValidFrom` -/
def validFromB (s : Heap) : List Op → Bool
  | [] => true
  | op :: ops =>
    decide (Pre s.wmin s.wmax (abs s) op) &&
      (match step s op with
       | none => true
       | some (s', _) => validFromB s' ops)

theorem validFromB_sound (ops : List Op) : ∀ s, validFromB s ops = true → ValidFrom s ops := by
  induction ops with
  | nil => intro _ _; trivial
  | cons op ops ih =>
    intro s h
    simp only [validFromB, Bool.and_eq_true, decide_eq_true_eq] at h
    refine ⟨h.1, ?_⟩
    intro s' r hs
    rw [hs] at h
    exact ih s' h.2

theorem exOps_valid : ValidFrom (init (-100) 100) exOps := validFromB_sound _ _ (by decide)

/-! ### the judge -/

/-- the executable minimum check used by the judge is exactly the Spec's `IsMin` -/
theorem judge_isMin_sound (q : PQ.Q) (id : Int) : PQ.isMinB q id = true ↔ PQ.IsMin q id :=
  PQ.isMinB_iff q id

/-! ### invariant -/

/-- a fresh heap satisfies the invariant and stands for the empty queue -/
theorem inv_init (wmin wmax : Int) : Inv (init wmin wmax) ∧ abs (init wmin wmax) = [] :=
  ⟨init_inv wmin wmax, init_abs wmin wmax⟩

/-- every in-domain operation preserves the invariant -/
theorem inv_step (s : Heap) (I : Inv s) (op : Op) (hpre : Pre s.wmin s.wmax (abs s) op)
    (s' : Heap) (r : Option Int) (h : step s op = some (s', r)) : Inv s' := by
  obtain ⟨s1, r1, h1, I1, _⟩ := refines_step s I op hpre
  rw [h] at h1; cases h1; exact I1

theorem ex3_inv : Inv ex3 := by
  have I0 := init_inv (-100) 100
  have I1 := (insert_refines _ I0 1 10 7 (by decide) (by decide)).1
  have I2 := (insert_refines _ I1 2 20 8 (by decide) (by decide)).1
  exact (insert_refines _ I2 3 30 9 (by decide) (by decide)).1

/-- non-vacuity of `inv_step`: a decrease that must sift to the root -/
example : Inv ex3 ∧ Pre ex3.wmin ex3.wmax (abs ex3) (.dec 3 5) ∧ (step ex3 (.dec 3 5)).isSome = true :=
  ⟨ex3_inv, by decide, by decide⟩

/-! ### refinement, operation by operation -/

/-- `insert` of a fresh id with a weight ≥ `min_value` -/
theorem insert_refines (s : Heap) (I : Inv s) (id w d : Int)
    (hfresh : PQ.inserted (abs s) id = false) (hw : s.wmin ≤ w) :
    Inv (insert s id w d) ∧ abs (insert s id w d) = PQ.insert (abs s) id w d ∧
    (insert s id w d).wmin = s.wmin ∧ (insert s id w d).wmax = s.wmax :=
  AHeap.insert_refines s I id w d hfresh hw

example : Inv ex3 ∧ PQ.inserted (abs ex3) 4 = false ∧ ex3.wmin ≤ 1 := ⟨ex3_inv, by decide, by decide⟩

/-- `decrease_key` of a contained id to a weight in `[min_value, current weight]` -/
theorem decreaseKey_refines (s : Heap) (I : Inv s) (id w : Int)
    (hc : PQ.contains (abs s) id = true) (hw1 : s.wmin ≤ w) (hw2 : w ≤ PQ.weight (abs s) s.wmax id) :
    ∃ s', decreaseKey s id w = some s' ∧ Inv s' ∧ abs s' = PQ.decreaseKey (abs s) id w ∧
      s'.wmin = s.wmin ∧ s'.wmax = s.wmax :=
  AHeap.decreaseKey_refines s I id w hc hw1 hw2

example : Inv ex3 ∧ PQ.contains (abs ex3) 3 = true ∧ ex3.wmin ≤ 5 ∧ 5 ≤ PQ.weight (abs ex3) ex3.wmax 3 :=
  ⟨ex3_inv, by decide, by decide, by decide⟩

/-- `decrease_key_and_update_data` -/
theorem decreaseKeyData_refines (s : Heap) (I : Inv s) (id w d : Int)
    (hc : PQ.contains (abs s) id = true) (hw1 : s.wmin ≤ w) (hw2 : w ≤ PQ.weight (abs s) s.wmax id) :
    ∃ s', decreaseKeyData s id w d = some s' ∧ Inv s' ∧
      abs s' = PQ.setData (PQ.decreaseKey (abs s) id w) id d ∧
      s'.wmin = s.wmin ∧ s'.wmax = s.wmax :=
  AHeap.decreaseKeyData_refines s I id w d hc hw1 hw2

example : Inv ex3 ∧ PQ.contains (abs ex3) 2 = true ∧ ex3.wmin ≤ 20 ∧ 20 ≤ PQ.weight (abs ex3) ex3.wmax 2 :=
  ⟨ex3_inv, by decide, by decide, by decide⟩

/-- `data_mut(id) = d` on an inserted (contained or removed) id -/
theorem setData_refines (s : Heap) (I : Inv s) (id d : Int) (hi : PQ.inserted (abs s) id = true) :
    ∃ s', setData s id d = some s' ∧ Inv s' ∧ abs s' = PQ.setData (abs s) id d ∧
      s'.wmin = s.wmin ∧ s'.wmax = s.wmax :=
  AHeap.setData_refines s I id d hi

example : Inv ex3 ∧ PQ.inserted (abs ex3) 2 = true := ⟨ex3_inv, by decide⟩

/-- `delete_min` on a non-empty queue: it returns a contained id of minimal weight (the one
`min()` reports) and removes exactly that id -/
theorem deleteMin_refines (s : Heap) (I : Inv s) (hne : PQ.len (abs s) ≠ 0) :
    ∃ s' id, deleteMin s = some (s', id) ∧ Inv s' ∧ PQ.IsMin (abs s) id ∧
      abs s' = PQ.remove (abs s) id ∧ min? s = some id ∧ s'.wmin = s.wmin ∧ s'.wmax = s.wmax :=
  AHeap.deleteMin_refines s I hne

example : Inv ex3 ∧ PQ.len (abs ex3) ≠ 0 := ⟨ex3_inv, by decide⟩

/-- `flush` -/
theorem flush_refines (s : Heap) (I : Inv s) :
    Inv (flush s) ∧ abs (flush s) = PQ.flush (abs s) ∧ (flush s).wmin = s.wmin ∧ (flush s).wmax = s.wmax :=
  AHeap.flush_refines s I

/-- `clear` (no hypothesis needed: it even repairs a broken state) -/
theorem clear_refines (s : Heap) :
    Inv (clear s) ∧ abs (clear s) = PQ.clear (abs s) ∧ (clear s).wmin = s.wmin ∧ (clear s).wmax = s.wmax :=
  AHeap.clear_refines s

/-- one statement for all operations: every in-domain step of the model is a step of the
reference queue, and the invariant is kept -/
theorem refines_step (s : Heap) (I : Inv s) (op : Op) (hpre : Pre s.wmin s.wmax (abs s) op) :
    ∃ s' r, step s op = some (s', r) ∧ Inv s' ∧ SpecStep (abs s) op r (abs s') ∧
      s'.wmin = s.wmin ∧ s'.wmax = s.wmax :=
  AHeap.refines_step s I op hpre

example : Inv ex3 ∧ Pre ex3.wmin ex3.wmax (abs ex3) .del := ⟨ex3_inv, by decide⟩

/-! ### observers -/

/-- every observer of the model equals the reference queue's observer on `abs s` -/
theorem observers_refine (s : Heap) (I : Inv s) :
    len s = PQ.len (abs s) ∧ isEmpty s = (PQ.len (abs s) == 0) ∧
    insertedLen s = PQ.insertedLen (abs s) ∧
    ∀ id, weight s id = PQ.weight (abs s) s.wmax id ∧ contains s id = PQ.contains (abs s) id ∧
      removed s id = PQ.removed (abs s) id ∧ inserted s id = PQ.inserted (abs s) id ∧
      data? s id = PQ.data? (abs s) id :=
  ⟨len_eq s I, isEmpty_eq s I, insertedLen_eq s, fun id =>
    ⟨weight_eq s I id, contains_eq s I id, removed_eq s I id, inserted_eq s I id, data_eq s I id⟩⟩

/-- non-vacuity of the observer theorems (their only hypothesis is `Inv s`), with a live and a
removed id: `ex3` after one `delete_min` -/
example : ∃ s id, deleteMin ex3 = some (s, id) ∧ Inv s ∧ contains s 2 = true ∧ removed s 1 = true := by
  obtain ⟨s', id, a, b, _⟩ := AHeap.deleteMin_refines ex3 ex3_inv (by decide)
  refine ⟨s', id, a, b, ?_⟩
  have : deleteMin ex3 = some ((deleteMin ex3).get (by decide)) := by simp
  rw [this] at a
  cases a
  exact ⟨by decide, by decide⟩

theorem len_eq (s : Heap) (I : Inv s) : len s = PQ.len (abs s) := AHeap.len_eq s I
theorem isEmpty_eq (s : Heap) (I : Inv s) : isEmpty s = (PQ.len (abs s) == 0) := AHeap.isEmpty_eq s I
theorem insertedLen_eq (s : Heap) : insertedLen s = PQ.insertedLen (abs s) := AHeap.insertedLen_eq s
theorem weight_eq (s : Heap) (I : Inv s) (id : Int) : weight s id = PQ.weight (abs s) s.wmax id :=
  AHeap.weight_eq s I id
theorem contains_eq (s : Heap) (I : Inv s) (id : Int) : contains s id = PQ.contains (abs s) id :=
  AHeap.contains_eq s I id
theorem removed_eq (s : Heap) (I : Inv s) (id : Int) : removed s id = PQ.removed (abs s) id :=
  AHeap.removed_eq s I id
theorem inserted_eq (s : Heap) (I : Inv s) (id : Int) : inserted s id = PQ.inserted (abs s) id :=
  AHeap.inserted_eq s I id
theorem data_eq (s : Heap) (I : Inv s) (id : Int) : data? s id = PQ.data? (abs s) id :=
  AHeap.data_eq s I id

/-- lookups in the reference queue go through the id map (so the ids in `abs s` are distinct) -/
theorem find_abs (s : Heap) (I : Inv s) (id : Int) :
    PQ.find? (abs s) id = (lookup s.idx id).map (fun i => ent (gt s.nodes i)) :=
  AHeap.find_abs s I.idmap id

/-- `min()` is a contained id whose weight is minimal among the contained ids -/
theorem min_is_minimum (s : Heap) (I : Inv s) (id : Int) (h : min? s = some id) : PQ.IsMin (abs s) id :=
  AHeap.min_is_minimum s I id h

/-- non-vacuity: after the D2 witness history the minimum is the decreased id -/
example : ∃ s, decreaseKey ex3 3 5 = some s ∧ min? s = some 3 := ⟨_, rfl, by decide⟩
example : Inv ex3 ∧ min? ex3 = some 1 := ⟨ex3_inv, by decide⟩

/-- `min()` is undefined (the Rust panics) exactly on the empty queue -/
theorem min_none_iff (s : Heap) (I : Inv s) : min? s = none ↔ PQ.len (abs s) = 0 :=
  AHeap.min_none_iff s I

/-! ### flush / clear -/

/-- after `flush` the heap is empty, no id is contained, every id inserted before reports removed
(and still inserted, with its weight) -/
theorem flush_post (s : Heap) (I : Inv s) :
    len (flush s) = 0 ∧
    ∀ id, contains (flush s) id = false ∧ (inserted s id = true → removed (flush s) id = true) ∧
      inserted (flush s) id = inserted s id ∧ weight (flush s) id = weight s id :=
  AHeap.flush_post s I

/-- non-vacuity (the D4 witness): two contained ids, both removed after flush -/
example : Inv ex3 ∧ contains ex3 3 = true ∧ removed (flush ex3) 3 = true ∧ contains (flush ex3) 3 = false :=
  ⟨ex3_inv, by decide, by decide, by decide⟩

/-- after `clear` the heap is empty, nothing is inserted/contained/removed, and it equals a fresh heap -/
theorem clear_post (s : Heap) :
    len (clear s) = 0 ∧ insertedLen (clear s) = 0 ∧ clear s = init s.wmin s.wmax ∧
    (∀ id, contains (clear s) id = false ∧ removed (clear s) id = false ∧ inserted (clear s) id = false ∧
           weight (clear s) id = s.wmax) := by
  refine ⟨rfl, rfl, rfl, ?_⟩
  intro id
  simp [clear, init, contains, removed, inserted, weight, lookup]

/-! ### all histories -/

/-- from any state satisfying the invariant, every in-domain history (of any length) runs to the
end without reaching a panic branch, ends in a state satisfying the invariant, and the sequence of
results is a behaviour of the reference queue that ends in the abstraction of the final state -/
theorem reachable_from (ops : List Op) (s : Heap) (I : Inv s) (V : ValidFrom s ops) :
    ∃ s' rs, run s ops = some (s', rs) ∧ Inv s' ∧ SpecRun (abs s) ops rs (abs s') ∧
      s'.wmin = s.wmin ∧ s'.wmax = s.wmax :=
  AHeap.reachable_from ops s I V

/-- every state reachable from `new()` by an in-domain history satisfies the invariant -/
theorem reachable_inv (wmin wmax : Int) (ops : List Op) (V : ValidFrom (init wmin wmax) ops) :
    ∃ s' rs, run (init wmin wmax) ops = some (s', rs) ∧ Inv s' := by
  obtain ⟨s', rs, a, b, _⟩ := AHeap.reachable_from ops _ (init_inv wmin wmax) V
  exact ⟨s', rs, a, b⟩

/-- … and all its observers are those of a reference queue reached by the same history -/
theorem reachable_refines (wmin wmax : Int) (ops : List Op) (V : ValidFrom (init wmin wmax) ops) :
    ∃ s' rs q, run (init wmin wmax) ops = some (s', rs) ∧ SpecRun [] ops rs q ∧ abs s' = q ∧
      len s' = PQ.len q ∧ isEmpty s' = (PQ.len q == 0) ∧ insertedLen s' = PQ.insertedLen q ∧
      (∀ id, weight s' id = PQ.weight q wmax id ∧ contains s' id = PQ.contains q id ∧
        removed s' id = PQ.removed q id ∧ inserted s' id = PQ.inserted q id ∧
        data? s' id = PQ.data? q id) ∧
      (∀ id, min? s' = some id → PQ.IsMin q id) ∧ (min? s' = none ↔ PQ.len q = 0) := by
  obtain ⟨s', rs, a, I, b, _, M⟩ := AHeap.reachable_from ops _ (init_inv wmin wmax) V
  rw [init_abs] at b
  have hM : s'.wmax = wmax := M
  obtain ⟨o1, o2, o3, o4⟩ := observers_refine s' I
  refine ⟨s', rs, abs s', a, b, rfl, o1, o2, o3, ?_, fun id h => AHeap.min_is_minimum s' I id h,
    AHeap.min_none_iff s' I⟩
  intro id
  rw [← hM]; exact o4 id

/-- non-vacuity of the history theorems: a concrete 14-step history is in-domain -/
example : ValidFrom (init (-100) 100) exOps := exOps_valid

/-- a history that is valid on the reference alone (whatever minima are removed) is in-domain -/
theorem valid_validFrom (ops : List Op) (s : Heap) (I : Inv s) (V : Valid s.wmin s.wmax (abs s) ops) :
    ValidFrom s ops :=
  AHeap.valid_validFrom ops s I V

example : Inv (init 0 9) ∧ Valid (init 0 9).wmin (init 0 9).wmax (abs (init 0 9)) [.ins 1 3 0, .flush] := by
  refine ⟨init_inv 0 9, by decide, ?_⟩
  rintro r q' ⟨rfl, rfl⟩
  exact ⟨trivial, fun _ _ _ => trivial⟩

/-! ### sift-up order (kept from the first slice) -/

/-- sift-up establishes heap order (with `w` imagined in the final hole) from heap order with a hole -/
theorem upLoop_keeps_order (fuel : Nat) (h : Array Elem) (ns : Array Node) (key : Nat) (w : Int)
    (hk : key < h.size) (hf : key ≤ fuel) (hs0 : (gt h 0).weight ≤ w)
    (ho : OrdW h key w) (hb : 2 ≤ key → Below h key) :
    OrdW (upLoop fuel h ns key w).1 (upLoop fuel h ns key w).2.2 w ∧
    (2 ≤ (upLoop fuel h ns key w).2.2 →
       (gt (upLoop fuel h ns key w).1 ((upLoop fuel h ns key w).2.2 / 2)).weight ≤ w) :=
  let r := upLoop_spec fuel h ns key w hk hf hs0 ho hb
  ⟨r.2.2.1, r.2.2.2.1⟩

/-- non-vacuity: a concrete heap with a hole satisfies the hypotheses of `upLoop_keeps_order` -/
example : OrdW #[⟨0, -5⟩, ⟨0, 1⟩, ⟨1, 4⟩, ⟨2, 7⟩] 3 0 ∧ (2 ≤ 3 → Below #[(⟨0, -5⟩ : Elem), ⟨0, 1⟩, ⟨1, 4⟩, ⟨2, 7⟩] 3) := by
  constructor
  · intro k h2 hk hne
    have : k = 2 := by simp at hk; omega
    subst this; simp [wt, gt]
  · intro _ k h2 hk he
    simp at hk; omega

/-- sift-down: the symmetric statement for `downLoop` (order except on the edges from the hole to
its children is kept, and on exit the hole's children dominate `w`) -/
theorem downLoop_keeps_order (fuel : Nat) (h : Array Elem) (ns : Array Node) (key : Nat) (w : Int)
    (r x : Nat) (lo : Int) (hf : h.size - key ≤ fuel) (ho : OrdD h key w) (hb : 2 ≤ key → Below h key)
    (P : PInv h ns key r x lo) :
    OrdD (downLoop fuel h ns key w).1 (downLoop fuel h ns key w).2.2 w ∧
    (∀ k, 2 ≤ k → k < h.size → k / 2 = (downLoop fuel h ns key w).2.2 →
        w ≤ (gt (downLoop fuel h ns key w).1 k).weight) :=
  let r := downLoop_spec fuel h ns key w r x lo hf ho hb P
  ⟨r.2.1, r.2.2.1⟩

/-- non-vacuity: the root of the three-element heap `ex3` taken out as the hole, weight 50 imagined -/
example : ex3.heap.size - 1 ≤ ex3.heap.size ∧ OrdD ex3.heap 1 50 ∧ (2 ≤ 1 → Below ex3.heap 1) ∧
    PInv ex3.heap ex3.nodes 1 (gt ex3.heap 1).index ex3.nodes.size ex3.wmin := by
  have hs : ex3.heap.size = 4 := by decide
  refine ⟨by omega, ?_, by omega, PInv.start ex3_inv.ptr 1 (by omega) (by omega) ex3_inv.wlo⟩
  intro k k1 k2 k3
  omega

/-- the fuel the model hands to the two sift loops (`key` resp. `heap.len()`) is sufficient: extra
fuel never changes the result, so the fuelled loops are the Rust `while` loops -/
theorem fuel_sufficient (h : Array Elem) (ns : Array Node) (key : Nat) (w : Int) :
    (∀ fuel, key ≤ fuel → (gt h 0).weight ≤ w →
      upLoop (fuel + 1) h ns key w = upLoop fuel h ns key w) ∧
    (∀ fuel, 1 ≤ key → h.size - key ≤ fuel →
      downLoop (fuel + 1) h ns key w = downLoop fuel h ns key w) :=
  ⟨fun fuel a b => upLoop_fuel fuel h ns key w a b, fun fuel a b => downLoop_fuel fuel h ns key w a b⟩

example : (3 : Nat) ≤ 3 ∧ (gt ex3.heap 0).weight ≤ 5 ∧ (1 : Nat) ≤ 1 ∧ ex3.heap.size - 1 ≤ ex3.heap.size := by
  decide

end Tbx.Props.C10
