import Tbx.Spec.Lru
import Tbx.Proofs.LruL0Hist
import Tbx.Proofs.LruL1Hist
/-
C11 — the LRU cache evicts exactly the least recently used entry and is memory safe.

Property theorems only (helper lemmas live in Tbx/Proofs/Lru*.lean).  Registered in
Tbx/Audit/C11.lean.

L0 = abstract recency list (Tbx/Model/LruL0.lean): what the cache means.
L1 = pointer-level model of linked_list.rs + lru.rs (Tbx/Model/LruL1.lean) in which every
     dereference of a freed / never allocated address is an explicit error.
-/
namespace Tbx.Props.C11
open Tbx Tbx.LruL0 Tbx.LruSpec

variable {K V : Type} [DecidableEq K]

/-! ## P0 — the recency list, for all histories -/

/-- the cache never holds more than `cap` entries -/
theorem len_le_cap (cap : Nat) (hc : 1 ≤ cap) (ops : List (Op K V)) :
    len (run (init cap) ops) ≤ cap := by
  have := (inv_run (init cap : Cache K V) ops (by simpa [init] using hc) (inv_init cap)).le_cap
  rwa [cap_run] at this

/-- the bound is tight and needs `cap ≥ 1`: with capacity 0 the Rust/L0 `push` never evicts -/
example : len (run (init 0 : Cache Nat Nat) [.push 1 10, .push 2 20]) = 2 := by decide
example : len (run (init 2 : Cache Nat Nat) [.push 1 10, .push 2 20, .push 3 30, .get 1, .push 4 40]) = 2 := by decide

/-- no key is stored twice -/
theorem keys_distinct (cap : Nat) (hc : 1 ≤ cap) (ops : List (Op K V)) :
    (keys (run (init cap) ops)).Nodup :=
  (inv_run (init cap : Cache K V) ops (by simpa [init] using hc) (inv_init cap)).nodup

example : keys (run (init 2 : Cache Nat Nat) [.push 1 10, .push 2 20, .push 1 11, .get 2, .push 1 12]) = [1, 2] := by decide

/-- `get k` returns the value of the latest `push k` (or front mutation of `k`) that has not been
    evicted since: if `h2` does not write `k` and `k` is still present after `h2`, then `get k`
    answers the pushed value `v` — and `get` answers `none` exactly for absent keys. -/
theorem get_returns_latest_push (cap : Nat) (h1 h2 : List (Op K V)) (k : K) (v : V)
    (hu : Undisturbed (run (init cap) (h1 ++ [.push k v])) h2 k)
    (hpresent : contains (run (init cap) (h1 ++ .push k v :: h2)) k = true) :
    (get (run (init cap) (h1 ++ .push k v :: h2)) k).2 = some v := by
  have e : run (init cap) (h1 ++ .push k v :: h2) = run (run (init cap) (h1 ++ [.push k v])) h2 := by
    simp [run, List.foldl_append]
  rw [e] at hpresent ⊢
  rw [get_snd_eq_lookup, lookup_run_of_undisturbed _ h2 k hu hpresent, run_snoc]
  exact lookup_push_same _ k v

theorem get_none_iff_absent (s : Cache K V) (k : K) : (get s k).2 = none ↔ contains s k = false := by
  rw [get_snd_eq_lookup, ← lookup_isSome_iff]
  cases lookup s k <;> simp

/-- the same for a value written through `get_front_mut` -/
theorem get_returns_front_mutation (s : Cache K V) (h2 : List (Op K V)) (k : K) (v : V)
    (hfront : (getFront s).map (·.1) = some k)
    (hu : Undisturbed (step s (.setFront v)).1 h2 k)
    (hpresent : contains (run (step s (.setFront v)).1 h2) k = true) :
    (get (run (step s (.setFront v)).1 h2) k).2 = some v := by
  rw [get_snd_eq_lookup, lookup_run_of_undisturbed _ h2 k hu hpresent]
  exact lookup_setFront_front s v k hfront

/-- non-vacuity of `get_returns_front_mutation`: key 2 is at the front, gets value 21 through
    `get_front_mut`, is displaced, and is still there -/
example :
    let s := run (init 2 : Cache Nat Nat) [.push 1 10, .push 2 20]
    (getFront s).map (·.1) = some 2 ∧ Undisturbed (step s (.setFront 21)).1 [.get 1, .contains 2, .setFront 11] 2 ∧
    contains (run (step s (.setFront 21)).1 [.get 1, .contains 2, .setFront 11]) 2 = true ∧
    (get (run (step s (.setFront 21)).1 [.get 1, .contains 2, .setFront 11]) 2).2 = some 21 := by
  decide

/-- non-vacuity: key 1 is pushed, then read, displaced from the front, observed, and survives an
    eviction (capacity 2) because the `get` refreshed it -/
example : Undisturbed (run (init 2 : Cache Nat Nat) ([.push 7 70] ++ [.push 1 10]))
      [.get 1, .push 2 20, .contains 1, .get 1, .push 3 30, .setFront 31] 1 ∧
    contains (run (init 2 : Cache Nat Nat)
      ([.push 7 70] ++ .push 1 10 :: [.get 1, .push 2 20, .contains 1, .get 1, .push 3 30, .setFront 31])) 1 = true := by
  decide

/-- `push` puts its entry at the front -/
theorem push_moves_to_front (s : Cache K V) (k : K) (v : V) : getFront (push s k v) = some (k, v) := by
  unfold push getFront; split
  · rfl
  · split <;> rfl

/-- a hit of `get` moves the entry to the front and keeps all other entries in their order -/
theorem get_moves_to_front (s : Cache K V) (k : K) (hn : (keys s).Nodup) (hc : contains s k = true) :
    keys (get s k).1 = k :: (keys s).filter (fun k' => !(k' == k)) ∧
    ∀ k', lookup (get s k).1 k' = lookup s k' := by
  refine ⟨by rw [keys_get s k hn, hc]; rfl, fun k' => lookup_get s k k'⟩

/-- a miss of `get`, and `contains`, `get_front`, `len` in any case, change nothing -/
theorem observers_are_pure (s : Cache K V) (k : K) :
    (contains s k = false → (get s k).1 = s) ∧
    (step s (.contains k)).1 = s ∧ (step s .front).1 = s ∧ (step s .len).1 = s := by
  refine ⟨?_, rfl, rfl, rfl⟩
  intro hc
  have : s.items.find? (fun p => p.1 == k) = none := by
    have h := lookup_isSome_iff s k
    rw [hc] at h
    simpa [lookup] using h
  simp [LruL0.get, this]

example : keys (get (run (init 3 : Cache Nat Nat) [.push 1 10, .push 2 20, .push 3 30]) 1).1 = [1, 3, 2] := by decide

/-- **eviction takes the least recently used key.**  After any history `ops` (from the empty
    cache of capacity `cap ≥ 1`) that leaves the cache full, a push of a key that is not cached
    removes exactly the last entry — every other entry stays, in order, behind the new one — and
    the removed key is the one whose last use (last `push`/`get` of it in `ops`) is older than the
    last use of every other cached key.  `contains`/`front`/`len` never count as uses. -/
theorem evicts_least_recently_used (cap : Nat) (hc : 1 ≤ cap) (ops : List (Op K V)) (k : K) (v : V)
    (hnew : contains (run (init cap) ops) k = false)
    (hfull : len (run (init cap) ops) = cap) :
    ∃ rest victim,
      (run (init cap) ops).items = rest ++ [victim] ∧
      (push (run (init cap) ops) k v).items = (k, v) :: rest ∧
      ∀ k' ∈ rest.map (·.1), UsedBefore ops victim.1 k' := by
  have hrec := rec_run (K := K) (V := V) cap hc ops
  have hcap : (run (init cap : Cache K V) ops).cap = cap := by rw [cap_run]; rfl
  have hne : (run (init cap : Cache K V) ops).items ≠ [] := by
    intro e; simp only [len, e, List.length_nil] at hfull; omega
  refine ⟨(run (init cap) ops).items.dropLast, (run (init cap) ops).items.getLast hne,
    (List.dropLast_concat_getLast hne).symm, ?_, ?_⟩
  · simp only [push, hnew, Bool.false_eq_true, if_false]
    rw [if_pos (by rw [hcap]; exact hfull)]
  · intro k' hk'
    have hord := hrec.ordered
    simp only [keys] at hord
    rw [← List.dropLast_concat_getLast hne, List.map_append, List.pairwise_append] at hord
    exact hord.2.2 k' hk' _ (by simp)

/-- non-vacuity, and a concrete reading: capacity 2, keys 1,2 pushed, then `contains 2` (not a
    use) and `get 1` (a use): the push of 3 evicts 2, whose last use is op 1; key 1's is op 3 -/
example :
    let ops : List (Op Nat Nat) := [.push 1 10, .push 2 20, .contains 2, .get 1]
    contains (run (init 2) ops) 3 = false ∧ len (run (init 2) ops) = 2 ∧
    keys (push (run (init 2) ops) 3 30) = [3, 1] ∧ lastUse ops 2 = some 1 ∧ lastUse ops 1 = some 3 := by
  decide

/-- `lastUse` means what it says (read this instead of the recursive definition) -/
theorem lastUse_characterisation (ops : List (Op K V)) (k : K) (t : Nat) :
    lastUse ops k = some t ↔
      ∃ h : t < ops.length, isUse ops[t] k = true ∧
        ∀ j (hj : j < ops.length), t < j → isUse ops[j] k = false :=
  lastUse_eq_some_iff ops k t

/-! ## P1 — the pointer level -/
open Tbx.LruL1

/-- **list_wf / memory safety of the bare list.**  Starting from `LinkedList::new()`, every history
    of `push_front`, `move_to_front`, `pop_back`, `get_front_mut`, `clear` that uses
    `move_to_front` only with cursors of nodes currently in the list (and the front only when
    non-empty) runs without reaching ANY error branch of the model — no dereference of a freed or
    never allocated address, no failed unwrap/assertion, no length underflow, no fuel exhaustion —
    and ends in a state whose `front`/`back`/`len` and node links describe a duplicate-free doubly
    linked chain (`WF`) holding exactly what the abstract list functions compute. -/
theorem list_wf {T : Type} (ops : List (LL.Op T)) (hd : InDomainAll ([] : List (Nat × T)) 0 ops) :
    ∃ s, LL.run (LL.new : LL T) ops = .ok s ∧ WF s (absRun [] 0 ops) := by
  have := run_wf (LL.new : LL T) [] ops wf_new (by simpa [LL.new, Mem.empty] using hd)
  simpa [LL.new, Mem.empty] using this

/-- non-vacuity: the tail is moved to the front, popped around, a stale-free history -/
example : InDomainAll ([] : List (Nat × Nat)) 0
    [.pushFront 10, .pushFront 11, .pushFront 12, .moveToFront 0, .popBack, .moveToFront 2, .setFront 13, .clear, .pushFront 14] := by
  simp [InDomainAll, InDomain, absStep, allocs, addrs, LruL0.AList.pushFront, LruL0.AList.moveToFront,
    LruL0.AList.popBack, LruL0.AList.setFront]

/-- what `WF` gives, spelled out: lengths agree, addresses are distinct, every node of the chain is
    live, and nothing else is -/
theorem wf_facts {T : Type} (s : LL T) (ch : List (Nat × T)) (h : WF s ch) :
    s.len = ch.length ∧ (ch.map (·.1)).Nodup ∧ s.front = (ch.head?).map (·.1) ∧
    s.back = (ch.getLast?).map (·.1) ∧
    (∀ a t, (a, t) ∈ ch → ∃ n, gt s.mem.cells a = some n ∧ n.elem = t) ∧
    (∀ a n, gt s.mem.cells a = some n → a ∈ ch.map (·.1)) := by
  refine ⟨h.len, h.nodup, by rw [h.front, headOr_eq_head?], ?_, fun a t hm => seg_mem _ _ _ _ h.seg a t hm, h.live⟩
  rw [h.back, lastOr_eq_getLast?]; simp

/-- non-vacuity of the `WF` hypothesis (used by `wf_facts`, `clear_fuel_ok`): a three-node chain whose
    former tail has been moved to the front -/
example : ∃ s : LL Nat, WF s [(0, 10), (2, 12), (1, 11)] := by
  obtain ⟨s, _, h⟩ := list_wf (T := Nat) [.pushFront 10, .pushFront 11, .pushFront 12, .moveToFront 0]
    (by simp [InDomainAll, InDomain, absStep, allocs, addrs, LruL0.AList.pushFront])
  have e : absRun ([] : List (Nat × Nat)) 0 [.pushFront 10, .pushFront 11, .pushFront 12, .moveToFront 0]
      = [(0, 10), (2, 12), (1, 11)] := by decide
  exact ⟨s, e ▸ h⟩

/-- the documented misuse really is one: `move_to_front` with the cursor of a popped node on a
    non-empty list is a use after free in the model -/
example : (do
    let (s, c0) ← LL.pushFront (LL.new : LL Nat) 10
    let (s, _) ← LL.pushFront s 11
    let (s, _) ← LL.popBack s
    LL.moveToFront s c0 : Except Err (LL Nat)) matches .error (.uaf 0) := by decide

/-- **l1_refines_l0.**  For every capacity ≥ 1 and every history, the pointer-level cache runs to
    completion (no error branch), returns exactly the results of the recency list, and ends in a
    state tied to the recency list's state by `Refines` (well-formed chain carrying the same
    entries in the same order; `access_map` binds exactly the cached keys, each to its own node). -/
theorem l1_refines_l0 (cap : Nat) (hc : 1 ≤ cap) (ops : List (Op K V)) :
    ∃ s0 s1 ch, (Lru.new cap : Except Err (Lru K V)) = .ok s0 ∧
      Lru.run s0 ops = .ok (s1, (runOut (init cap) ops).2) ∧
      Refines s1 (run (init cap) ops) ch := by
  obtain ⟨s0, e0, r0⟩ := refines_new (K := K) (V := V) cap hc
  obtain ⟨s1, ch, e1, r1, _⟩ := run_refines s0 _ [] r0 ops
  rw [runOut_fst] at r1
  exact ⟨s0, s1, ch, e0, e1, r1⟩

/-- **no_uaf.**  No history makes the cache dereference a freed or never allocated node (or hit any
    other error branch), and in every reachable state each cursor stored in `access_map` points to
    a live node that carries that very key. -/
theorem no_uaf (cap : Nat) (hc : 1 ≤ cap) (ops : List (Op K V)) :
    ∃ s0 s1 outs, (Lru.new cap : Except Err (Lru K V)) = .ok s0 ∧ Lru.run s0 ops = .ok (s1, outs) ∧
      ∀ k a, s1.amap.get k = some a → ∃ n, gt s1.list.mem.cells a = some n ∧ n.elem.1 = k := by
  obtain ⟨s0, s1, ch, e0, e1, r⟩ := l1_refines_l0 (K := K) (V := V) cap hc ops
  refine ⟨s0, s1, _, e0, e1, ?_⟩
  intro k a hka
  obtain ⟨v, hv⟩ := (r.cursors k a).1 hka
  obtain ⟨n, hn, he⟩ := seg_mem _ _ _ _ r.wf.seg a (k, v) hv
  exact ⟨n, hn, by rw [he]⟩

example : (do
    let s ← (Lru.new 2 : Except Err (Lru Nat Nat))
    let (s, outs) ← Lru.run s [.push 1 10, .push 2 20, .get 1, .push 3 30, .get 2, .get 1, .clear, .push 2 21, .get 2]
    pure (outs, s.dropped) : Except Err _) =
    .ok ([.unit, .unit, .val (some 10), .unit, .val none, .val (some 10), .unit, .unit, .val (some 21)], [20, 30, 10]) := by
  rfl

/-- **freed_once.**  After any history, `clear` (and `drop`, which is the same code) succeeds and
    leaves a heap in which every address ever allocated (`0 … cells.size-1`) is dead and occurs in
    the `freed` log exactly once; nothing else is in the log.  No node is freed twice, none leaks. -/
theorem freed_once (cap : Nat) (hc : 1 ≤ cap) (ops : List (Op K V)) :
    ∃ s0 s1 outs s2, (Lru.new cap : Except Err (Lru K V)) = .ok s0 ∧ Lru.run s0 ops = .ok (s1, outs) ∧
      Lru.drop s1 = .ok s2 ∧
      s2.list.mem.freed.Nodup ∧
      (∀ a, a ∈ s2.list.mem.freed ↔ a < s2.list.mem.cells.size) ∧
      s2.list.mem.freed.length = s2.list.mem.cells.size ∧
      s2.list.mem.cells.size = s1.list.mem.cells.size ∧
      (∀ a, gt s2.list.mem.cells a = none) := by
  obtain ⟨s0, s1, ch, e0, e1, r⟩ := l1_refines_l0 (K := K) (V := V) cap hc ops
  obtain ⟨s2, e2, r2, hsz, _⟩ := clear_refines s1 _ ch r
  obtain ⟨h1, h2, h3, h4⟩ := freed_once_of_wf_nil s2.list r2.wf
  exact ⟨s0, s1, _, s2, e0, e1, e2, h1, h2, h3, hsz, h4⟩

/-- **every stored value is dropped exactly once.**  `dropped` is the model's log of destructor
    runs (overwritten values, evicted values, values popped by `clear`/`drop`).  After any history,
    log ++ (values still stored) is a permutation of the values handed to the cache (`introduced`:
    one per `push`, one per front mutation of a non-empty cache), so nothing stored has been
    dropped and nothing was dropped twice; and after dropping the cache the log alone is a
    permutation of them: each value's destructor has run exactly once. -/
theorem values_dropped_once (cap : Nat) (hc : 1 ≤ cap) (ops : List (Op K V)) :
    ∃ s0 s1 outs s2 ch, (Lru.new cap : Except Err (Lru K V)) = .ok s0 ∧ Lru.run s0 ops = .ok (s1, outs) ∧
      Refines s1 (run (init cap) ops) ch ∧
      (s1.dropped ++ ch.map (·.2.2)).Perm (introduced (init cap) ops) ∧
      Lru.drop s1 = .ok s2 ∧ s2.dropped.Perm (introduced (init cap) ops) := by
  obtain ⟨s0, e0, r0⟩ := refines_new (K := K) (V := V) cap hc
  obtain ⟨s1, ch, e1, r1, c1⟩ := run_refines s0 _ [] r0 ops
  rw [runOut_fst] at r1
  obtain ⟨s2, e2, _, _, c2⟩ := clear_refines s1 _ ch r1
  have hd0 : s0.dropped = [] := by
    have : ¬ cap = 0 := by omega
    simp only [Lru.new, this, if_false] at e0
    cases e0; rfl
  have h1 : (s1.dropped ++ ch.map (·.2.2)).Perm (introduced (init cap) ops) := by
    have := c1; unfold Conserved at this
    simpa [vals, hd0] using this
  refine ⟨s0, s1, _, s2, ch, e0, e1, r1, h1, e2, ?_⟩
  have := c2; unfold Conserved at this
  simp only [vals, List.map_nil, List.append_nil] at this
  exact this.trans h1

example : (do
    let s ← (Lru.new 2 : Except Err (Lru Nat Nat))
    let (s, _) ← Lru.run s [.push 1 10, .push 1 11, .setFront 12, .push 2 20, .push 3 30, .get 2]
    let s' ← Lru.drop s
    pure (s.dropped, s'.dropped) : Except Err _) = .ok ([10, 11, 12], [10, 11, 12, 30, 20]) ∧
    introduced (init 2 : Cache Nat Nat) [.push 1 10, .push 1 11, .setFront 12, .push 2 20, .push 3 30, .get 2]
      = [10, 11, 12, 20, 30] := by
  exact ⟨rfl, rfl⟩

/-- the same for the bare list: after any in-domain history, `drop` frees every node exactly once -/
theorem list_freed_once {T : Type} (ops : List (LL.Op T)) (hd : InDomainAll ([] : List (Nat × T)) 0 ops) :
    ∃ s s', LL.run (LL.new : LL T) ops = .ok s ∧
      LL.drop s = .ok (s', ((absRun [] 0 ops).map (·.2)).reverse) ∧
      s'.mem.freed.Nodup ∧ (∀ a, a ∈ s'.mem.freed ↔ a < s'.mem.cells.size) ∧
      s'.mem.cells.size = s.mem.cells.size ∧ (∀ a, gt s'.mem.cells a = none) := by
  obtain ⟨s, e, hwf⟩ := list_wf ops hd
  obtain ⟨s', e', hwf', hsz⟩ := clear_wf s _ hwf
  obtain ⟨h1, h2, _, h4⟩ := freed_once_of_wf_nil s' hwf'
  exact ⟨s, s', e, e', h1, h2, hsz, h4⟩

example : (do
    let s ← LL.run (LL.new : LL Nat) [.pushFront 10, .pushFront 11, .pushFront 12, .moveToFront 0, .popBack, .pushFront 13]
    let (s, dropped) ← LL.drop s
    pure (dropped, s.mem.freed, s.mem.cells.size) : Except Err _) = .ok ([12, 10, 13], [3, 0, 2, 1], 4) := by
  rfl

/-- `clear` never runs out of the fuel the model passes (`len + 1`), i.e. the Rust loop terminates -/
theorem clear_fuel_ok {T : Type} (s : LL T) (ch : List (Nat × T)) (h : WF s ch) :
    ∃ s', LL.clear s = .ok (s', (ch.map (·.2)).reverse) ∧ WF s' [] := by
  obtain ⟨s', e, hwf, _⟩ := clear_wf s ch h
  exact ⟨s', e, hwf⟩

end Tbx.Props.C11
