import Tbx.Proofs.ZigzagBij
import Tbx.Proofs.PolylineRoundtrip
import Tbx.Proofs.PolylineFormat
import Tbx.Proofs.PartitionIDLaws
import Tbx.Proofs.ChooseUnrank
import Tbx.Proofs.HuffmanCodes
import Tbx.Proofs.HuffmanFuel
import Tbx.Proofs.HuffmanOpt
/-
C20 — codes and identifiers: round trips hold and tree-id arithmetic is consistent.

Property theorems only (helper lemmas live in Tbx/Proofs).  Registered in Tbx/Audit/C20.lean.
The optimality clauses are written as `def …_statement : Prop` and then proved as theorems of that type.
-/
namespace Tbx.Props.C20
open Tbx

/-! ### zigzag (`math::zigzag_encode`) -/

/-- `zigzag_bij`: the encoder of /repo and the standard decoder are inverse bijections of the 32-bit words -/
theorem zigzag_bij :
    (∀ v : BitVec 32, Spec.zigzagDecode (Zigzag.zigzagEncode v) = v) ∧
    (∀ n : BitVec 32, Zigzag.zigzagEncode (Spec.zigzagDecode n) = n) :=
  ⟨Proofs.Zigzag.decode_encode, Proofs.Zigzag.encode_decode⟩

/-- the encoder is the arithmetic interleaving 0, -1, 1, -2, … ↦ 0, 1, 2, 3, … (what the judge checks) -/
theorem zigzag_encode_arith (v : BitVec 32) : (Zigzag.zigzagEncode v).toNat = Spec.zigzagNat v.toInt :=
  Proofs.Zigzag.encode_arith v

example : Zigzag.zigzagEncodeInt (-2147483648) = 4294967295 ∧ Zigzag.zigzagEncodeInt (-2) = 3 ∧
    Spec.zigzagDecode 3#32 = BitVec.ofInt 32 (-2) := by decide

/-! ### polyline, integer layer -/

/-- `polyline_int_roundtrip`: for every sequence (of any length) of rounded coordinates in the lat/lon range at
    precision ≤ 6, `encode` does not overflow and `decode` of its output returns the sequence -/
theorem polyline_int_roundtrip (xs : List (Int × Int)) (h : ∀ p ∈ xs, Polyline.InRange p) :
    ∃ cs, Polyline.encodeInts xs = some cs ∧ Polyline.decodeInts cs = some xs :=
  Proofs.Polyline.polyline_int_roundtrip xs h

/-- conformance of the encoder with the format's own description (the function the judge applies to the real
    encoder's output): what `encode` emits means the input sequence -/
theorem polyline_encode_means (xs : List (Int × Int)) (h : ∀ p ∈ xs, Polyline.InRange p) :
    ∃ cs, Polyline.encodeInts xs = some cs ∧ Spec.polylineMeaning cs = some xs :=
  Proofs.Polyline.encode_means xs h

/-- non-vacuity: Google's example at precision 5 and the extreme corners at precision 6 are in range and
    encode to the documented string -/
example : (∀ p ∈ [((3850000 : Int), (-12020000 : Int)), (4070000, -12095000), (4325200, -12645300)], Polyline.InRange p) ∧
    (Polyline.encodeInts [(3850000, -12020000), (4070000, -12095000), (4325200, -12645300)]).map
      (fun l => String.ofList (l.map Char.ofNat)) = some "_p~iF~ps|U_ulLnnqC_mqNvxq`@" := by
  constructor
  · decide
  · decide +kernel
example : ∀ p ∈ [((90000000 : Int), (180000000 : Int)), (-90000000, -180000000)], Polyline.InRange p := by decide

/-! ### partition ids -/

/-- a child's parent is the id (below bit 31, where the children exist) -/
theorem parent_child (x : Nat) (h1 : 1 ≤ x) (h31 : x < 2 ^ 31) :
    PartitionID.parent (PartitionID.leftChild x) = x ∧ PartitionID.parent (PartitionID.rightChild x) = x :=
  ⟨Proofs.PartitionID.parent_leftChild x h1 h31, Proofs.PartitionID.parent_rightChild x h1 h31⟩

example : PartitionID.parent (PartitionID.leftChild 12345) = 12345 ∧ PartitionID.parent (PartitionID.rightChild 2147483647) = 2147483647 ∧
    PartitionID.parent (PartitionID.leftChild 2147483648) ≠ 2147483648 := by decide

/-- levels grow by one -/
theorem level_child (x : Nat) (h1 : 1 ≤ x) (h31 : x < 2 ^ 31) :
    ∃ l, PartitionID.level x = some l ∧ PartitionID.level (PartitionID.leftChild x) = some (l + 1) ∧
      PartitionID.level (PartitionID.rightChild x) = some (l + 1) :=
  ⟨Nat.log2 x, Proofs.PartitionID.level_eq x h1 (by omega), Proofs.PartitionID.level_leftChild x h1 h31,
    Proofs.PartitionID.level_rightChild x h1 h31⟩

example : PartitionID.level 21845 = some 14 ∧ PartitionID.level (PartitionID.rightChild 21845) = some 15 ∧ PartitionID.level 0 = none := by
  decide

/-- `is_left_child` / `is_right_child` after the respective step (any id, also with bit 31 set), and they exclude
    each other -/
theorem child_sides (x : Nat) :
    PartitionID.isLeftChild (PartitionID.leftChild x) = true ∧
    PartitionID.isRightChild (PartitionID.rightChild x) = true ∧
    PartitionID.isLeftChild x = !PartitionID.isRightChild x :=
  ⟨Proofs.PartitionID.isLeftChild_leftChild x, Proofs.PartitionID.isRightChild_rightChild x,
    Proofs.PartitionID.isLeft_xor_isRight x⟩

/-- leftmost / rightmost descendant k levels down = k-fold left / right child (32-bit wrap included), no panic for k < 32 -/
theorem descendants_kfold (x k : Nat) (hx : x < 2 ^ 32) (hk : k < 32) :
    PartitionID.makeLeftmostDescendant x k = some (Proofs.PartitionID.kfold PartitionID.leftChild k x) ∧
    PartitionID.makeRightmostDescendant x k = some (Proofs.PartitionID.kfold PartitionID.rightChild k x) :=
  ⟨Proofs.PartitionID.makeLeftmostDescendant_eq x k hx hk, Proofs.PartitionID.makeRightmostDescendant_eq x k hx hk⟩

example : PartitionID.makeRightmostDescendant 5 3 = some 47 ∧ Proofs.PartitionID.kfold PartitionID.rightChild 3 5 = 47 ∧
    PartitionID.makeLeftmostDescendant 3221225472 2 = some 0 ∧ PartitionID.makeLeftmostDescendant 1 32 = none := by decide

/-- …and these are the k-fold children `x·2^k`, `x·2^k + 2^k − 1` of the tree on the naturals, reduced to 32 bits -/
theorem descendants_spec (x k : Nat) (hx : x < 2 ^ 32) (hk : k < 32) :
    PartitionID.makeLeftmostDescendant x k = some (Spec.IdTree.leftK k x % 2 ^ 32) ∧
    PartitionID.makeRightmostDescendant x k = some (Spec.IdTree.rightK k x % 2 ^ 32) := by
  have hp : 0 < 2 ^ k := Nat.two_pow_pos k
  have hroom := Proofs.PartitionID.mul_pow_mod_le x k (by omega)
  have hU : PartitionID.U32 = 2 ^ 32 := rfl
  constructor
  · rw [Proofs.PartitionID.makeLeftmostDescendant_eq x k hx hk, Proofs.PartitionID.kfold_leftChild k x hx,
      Proofs.PartitionID.leftK_eq, hU]
  · rw [Proofs.PartitionID.makeRightmostDescendant_eq x k hx hk, Proofs.PartitionID.kfold_rightChild k x hx (by omega),
      Proofs.PartitionID.rightK_eq, hU]
    rw [hU] at hroom
    have e : (x * 2 ^ k + (2 ^ k - 1)) % 2 ^ 32 = x * 2 ^ k % 2 ^ 32 + (2 ^ k - 1) := by
      rw [Nat.add_mod, Nat.mod_eq_of_lt (show 2 ^ k - 1 < 2 ^ 32 by omega)]
      exact Nat.mod_eq_of_lt (by omega)
    rw [e]

/-- `lca_deepest`: on non-zero 32-bit ids `lowest_common_ancestor` terminates without panic, its result is an
    ancestor of both, and every common ancestor is an ancestor of it -/
theorem lca_deepest (x y : Nat) (hx1 : 1 ≤ x) (hx : x < 2 ^ 32) (hy1 : 1 ≤ y) (hy : y < 2 ^ 32) :
    ∃ a, PartitionID.lowestCommonAncestor x y = some a ∧ Spec.IdTree.IsLCA a x y :=
  Proofs.PartitionID.lca_isLCA x y hx1 hx hy1 hy

example : PartitionID.lowestCommonAncestor 8 5 = some 2 ∧ PartitionID.lowestCommonAncestor 4294967295 2147483648 = some 1 := by
  decide

/-- `parent_at_level` clears the low `l` bits (for levels up to the id's own), `extract_bit` reads a bit -/
theorem masks (x l : Nat) (hl : l < 32) (hx : x < 2 ^ 32) (hpos : 1 ≤ x / 2 ^ l) :
    PartitionID.parentAtLevel x l = some (x / 2 ^ l * 2 ^ l) ∧ PartitionID.extractBit x l = some (x.testBit l) :=
  ⟨Proofs.PartitionID.parentAtLevel_eq x l hl hx hpos, Proofs.PartitionID.extractBit_eq x l hl⟩

example : PartitionID.parentAtLevel 4294967295 9 = some 4294966784 ∧ PartitionID.extractBit 9 3 = some true ∧
    PartitionID.parentAtLevel 1 1 = none := by decide

/-- the judge's LCA checker is sound -/
theorem judge_isLCA_sound (a x y : Nat) (hx : x < 2 ^ 64) (hy : y < 2 ^ 64)
    (h : Spec.IdTree.isLCAB a x y = true) : Spec.IdTree.IsLCA a x y :=
  Spec.IdTree.isLCAB_sound a x y hx hy h

/-! ### binomial coefficients (`math::choose`, after D18) -/

/-- `choose_eq`: for n ≤ 64 the loop returns the binomial coefficient (`Spec.binom` is Pascal's rule and equals
    Mathlib's `Nat.choose`): no u128 overflow, and the final `as u64` is the identity -/
theorem choose_eq (n k : Nat) (hn : n ≤ 64) :
    Choose.choose n k = some (Spec.binom n k) ∧ Spec.binom n k = Nat.choose n k ∧ Spec.binom n k < 2 ^ 64 :=
  ⟨Proofs.ChooseUnrank.choose_eq n k hn, Proofs.ChooseUnrank.binom_eq_choose n k,
    Proofs.ChooseUnrank.binom_lt_two_pow_64 n k hn⟩

example : Choose.choose 37 17 = some 15905368710 ∧ Choose.choose 5 7 = some 0 := by decide +kernel

/-- every intermediate product is below 2^128, equals `binom n (i-1) · (n-i+1)`, and is divided exactly -/
theorem choose_intermediates (n k : Nat) (hn : n ≤ 64) (hk : k ≤ n) :
    ∀ ip ∈ Choose.trace n (Choose.reduceK n k) 1 1,
      ip.2 < 2 ^ 128 ∧ ip.2 = Spec.binom n (ip.1 - 1) * (n - ip.1 + 1) ∧ ip.1 ∣ ip.2 ∧ 1 ≤ ip.1 ∧
        ip.1 ≤ Choose.reduceK n k :=
  Proofs.ChooseUnrank.choose_intermediates n k hn hk

/-- D18: the pre-fix loop (u64 intermediate) fails on the witness, the current one does not -/
theorem d18_witness : Choose.chooseLegacy 64 32 = none ∧ Choose.choose 64 32 = some 1832624140942590534 :=
  Proofs.ChooseUnrank.legacy_overflows

example : (Choose.trace 64 (Choose.reduceK 64 32) 1 1).length = 32 := by decide +kernel

/-! ### fixed-weight words (`decode_u64`, `U64BitWeightIterator`) -/

/-- `decode_u64_unrank`: for w ≤ 64 and ordinal < C(64,w) the code does not panic, the result is a 64-bit word
    of weight w, strictly increasing in the ordinal, and every 64-bit word of weight w is hit (by its rank):
    a monotone bijection onto the weight-w words -/
theorem decode_u64_unrank (w : Nat) (hw : w ≤ 64) :
    (∀ ord, ord < Spec.binom 64 w →
      ∃ x, Enumerative.decodeU64 w ord = some x ∧ x < 2 ^ 64 ∧ Spec.popcount 64 x = w ∧ Spec.rank 64 x = ord) ∧
    (∀ o1 o2 x1 x2, o1 < o2 → o2 < Spec.binom 64 w →
      Enumerative.decodeU64 w o1 = some x1 → Enumerative.decodeU64 w o2 = some x2 → x1 < x2) ∧
    (∀ x, x < 2 ^ 64 → Spec.popcount 64 x = w →
      Spec.rank 64 x < Spec.binom 64 w ∧ Enumerative.decodeU64 w (Spec.rank 64 x) = some x) := by
  refine ⟨?_, ?_, ?_⟩
  · intro ord h
    exact ⟨_, Proofs.ChooseUnrank.decodeU64_eq w ord hw h, Proofs.ChooseUnrank.unrank_lt 64 w ord h,
      Proofs.ChooseUnrank.unrank_popcount 64 w ord h, Proofs.ChooseUnrank.rank_unrank 64 w ord h⟩
  · intro o1 o2 x1 x2 h12 h2 e1 e2
    rw [Proofs.ChooseUnrank.decodeU64_eq w o1 hw (by omega)] at e1
    rw [Proofs.ChooseUnrank.decodeU64_eq w o2 hw h2] at e2
    cases e1; cases e2
    exact Proofs.ChooseUnrank.unrank_strictMono 64 w o1 o2 h12 h2
  · intro x hx hp
    have := Proofs.ChooseUnrank.unrank_rank 64 x hx
    rw [hp] at this
    exact ⟨this.1, by rw [Proofs.ChooseUnrank.decodeU64_eq w _ hw this.1, this.2]⟩

example : Enumerative.decodeU64 3 21 = some 69 ∧ 21 < Spec.binom 64 3 := by decide +kernel

/-- the bit-weight iterator yields the words of weight w in increasing order (`unrank 0, unrank 1, …`) and ends
    exactly after C(64,w) items -/
theorem bwiter_enumerates (w cnt : Nat) (hw : w ≤ 64) :
    (Enumerative.withWeight w).bind (Enumerative.take cnt) =
      some ((List.range (min cnt (Spec.binom 64 w))).map (Spec.unrank 64 w)) :=
  Proofs.ChooseUnrank.bwiter_enumerates w cnt hw

example : (Enumerative.withWeight 63).bind (Enumerative.take 2) = some [9223372036854775807, 13835058055282163711] := by
  decide +kernel

/-- the judge's Pascal table and rank function are the Spec's -/
theorem judge_tables_sound (n : Nat) : Spec.pascalRow n = (List.range (n + 1)).map (Spec.binom n) :=
  Proofs.ChooseUnrank.pascalRow_eq n

/-! ### Huffman -/

/-- `codes_prefix_free`, both constructions: whatever they return is a prefix-free code -/
theorem codes_prefix_free (v : List (Nat × Int)) (book : Huffman.Book)
    (h : Huffman.fromSorted v = some book ∨ Huffman.fromUnsorted v = some book) :
    Spec.Huff.PrefixFree (book.map (·.2)) := by
  rcases h with h | h
  · exact Huffman.fromSorted_prefix_free v book h
  · exact Huffman.fromUnsorted_prefix_free v book h

example : Huffman.fromSorted [(0, 1), (1, 1), (2, 2), (3, 2)] =
      some [(2, [true, true]), (1, [true, false, true]), (0, [true, false, false]), (3, [false])] ∧
    Spec.Huff.prefixFreeB [[true, true], [true, false, true], [true, false, false], [false]] = true ∧
    Spec.Huff.prefixFreeB [[true], [true, false]] = false := by decide

/-- `all_symbols_coded`, two-queue construction: no panic unless the table has exactly one symbol, and every
    symbol gets exactly one code word -/
theorem all_symbols_coded_sorted (v : List (Nat × Int)) (hv : v.length ≠ 1) :
    ∃ book, Huffman.fromSorted v = some book ∧ (book.map (·.1)).Perm (v.map (·.1)) :=
  Huffman.fromSorted_all_coded v hv

/-- `all_symbols_coded`, heap construction: every table -/
theorem all_symbols_coded_unsorted (v : List (Nat × Int)) :
    ∃ book, Huffman.fromUnsorted v = some book ∧ (book.map (·.1)).Perm (v.map (·.1)) :=
  Huffman.fromUnsorted_all_coded v

/-- the documented non-defect: the two-queue construction panics on a one-symbol table -/
example : Huffman.fromSorted [(7, 3)] = none ∧ Huffman.fromUnsorted [(7, 3)] = some [(7, [])] := by decide

/-- the only fuelled loops of C20 that do not answer `none` on exhaustion (the heap's sift loops) never stop
    early: any larger fuel gives the same arrays -/
theorem heap_fuel_sufficient (a : Array Huffman.Tree) (x : Huffman.Tree) (pos extra : Nat) (hpos : pos < a.size) :
    Huffman.siftUp 0 (a.size + 1 + extra) (a.push x) a.size = Huffman.heapPush a x ∧
    Huffman.siftUp pos (a.size + extra) (Huffman.siftDownLoop a.size (a.size + extra) a pos).1
      (Huffman.siftDownLoop a.size (a.size + extra) a pos).2 = Huffman.siftDownToBottom a pos := by
  constructor
  · exact Huffman.siftUp_fuel 0 _ _ _ _ (by omega) (by omega)
  · unfold Huffman.siftDownToBottom
    rw [Huffman.siftDownLoop_fuel a.size (a.size + extra) a.size a pos (by omega) (by omega)]
    have := Huffman.siftDownLoop_pos a.size a.size a pos hpos
    exact Huffman.siftUp_fuel pos _ _ _ _ (by omega) (by omega)

/-- the judge's prefix-freeness checker is exact -/
theorem judge_prefixFree_sound (cs : List Spec.Huff.Code) : Spec.Huff.prefixFreeB cs = true ↔ Spec.Huff.PrefixFree cs :=
  Spec.Huff.prefixFreeB_iff cs

/-! ### optimality (statements first, proofs below) -/

/-- `huffman_minimal`: the code book of either construction has minimal weighted length among all prefix-free
    codes for the table (positive frequencies, distinct symbols; sorted input for the two-queue construction) -/
def huffman_minimal_statement : Prop :=
  ∀ (v : List (Nat × Int)) (book : Huffman.Book), (∀ e ∈ v, 1 ≤ e.2) → (v.map (·.1)).Nodup →
    (Huffman.fromUnsorted v = some book ∨ (v.Pairwise (fun a b => a.2 ≤ b.2) ∧ Huffman.fromSorted v = some book)) →
    ∀ book' : Huffman.Book, (book'.map (·.1)).Perm (v.map (·.1)) → Spec.Huff.PrefixFree (book'.map (·.2)) →
      Spec.Huff.cost v book ≤ Spec.Huff.cost v book'

/-- `two_queue_eq_heap_cost`: on a sorted table both constructions reach the same weighted length -/
def two_queue_eq_heap_cost_statement : Prop :=
  ∀ (v : List (Nat × Int)) (bs bu : Huffman.Book), (∀ e ∈ v, 1 ≤ e.2) → (v.map (·.1)).Nodup →
    v.Pairwise (fun a b => a.2 ≤ b.2) → Huffman.fromSorted v = some bs → Huffman.fromUnsorted v = some bu →
    Spec.Huff.cost v bs = Spec.Huff.cost v bu

/-- the judge's reference optimum (repeated merge of the two smallest weights) is the minimum over all
    prefix-free codes -/
def greedy_cost_optimal_statement : Prop :=
  ∀ (v : List (Nat × Int)), 2 ≤ v.length → (∀ e ∈ v, 1 ≤ e.2) → (v.map (·.1)).Nodup →
    (∀ book' : Huffman.Book, (book'.map (·.1)).Perm (v.map (·.1)) → Spec.Huff.PrefixFree (book'.map (·.2)) →
      Spec.Huff.optCost (v.map (·.2)) ≤ Spec.Huff.cost v book') ∧
    (∃ book' : Huffman.Book, (book'.map (·.1)).Perm (v.map (·.1)) ∧ Spec.Huff.PrefixFree (book'.map (·.2)) ∧
      Spec.Huff.cost v book' = Spec.Huff.optCost (v.map (·.2)))

/-- (a) `greedy_cost_optimal`: justifies the judge's optimum.  Lower bound: prefix-free ⇒ Kraft ⇒ (exchange and
    merge induction) cost ≥ greedy; attained by the heap construction's code book -/
theorem greedy_cost_optimal : greedy_cost_optimal_statement := by
  intro v h2 hpos hnd
  have hv : v ≠ [] := by intro h; rw [h] at h2; simp at h2
  have hnn : ∀ e ∈ v, 0 ≤ e.2 := fun e he => by have := hpos e he; omega
  refine ⟨fun book' hp hf => Huffman.cost_lower_bound v hv hnn hnd book' hp hf, ?_⟩
  obtain ⟨book, hb, hp⟩ := Huffman.fromUnsorted_all_coded v
  exact ⟨book, hp, Huffman.fromUnsorted_prefix_free v book hb, Huffman.fromUnsorted_cost v book hnd hb⟩

/-- (b), (c) `huffman_minimal`: the code book of the heap construction, and of the two-queue construction on a
    sorted table, has minimal weighted length among all prefix-free codes for the table -/
theorem huffman_minimal : huffman_minimal_statement := by
  intro v book hpos hnd h book' hp hf
  have hnn : ∀ e ∈ v, 0 ≤ e.2 := fun e he => by have := hpos e he; omega
  have hc : Spec.Huff.cost v book = Spec.Huff.optCost (v.map (·.2)) := by
    rcases h with h | ⟨hs, h⟩
    · exact Huffman.fromUnsorted_cost v book hnd h
    · exact Huffman.fromSorted_cost v book hnn hnd hs h
  rw [hc]
  by_cases hv : v = []
  · subst hv
    have : book' = [] := by
      have := hp.length_eq
      simpa using this
    subst this
    exact Int.le_refl _
  · exact Huffman.cost_lower_bound v hv hnn hnd book' hp hf

/-- (d) `two_queue_eq_heap_cost` -/
theorem two_queue_eq_heap_cost : two_queue_eq_heap_cost_statement := by
  intro v bs bu hpos hnd hs h1 h2
  have hnn : ∀ e ∈ v, 0 ≤ e.2 := fun e he => by have := hpos e he; omega
  rw [Huffman.fromSorted_cost v bs hnn hnd hs h1, Huffman.fromUnsorted_cost v bu hnd h2]

/-- non-vacuity: a sorted table with ties, positive weights and distinct symbols; both constructions return a
    book of cost 12 = the greedy optimum, and a strictly worse prefix-free code exists -/
example :
    let v : List (Nat × Int) := [(0, 1), (1, 1), (2, 2), (3, 2)]
    (∀ e ∈ v, 1 ≤ e.2) ∧ (v.map (·.1)).Nodup ∧ v.Pairwise (fun a b => a.2 ≤ b.2) ∧
    (Huffman.fromSorted v).map (Spec.Huff.cost v) = some 12 ∧ (Huffman.fromUnsorted v).map (Spec.Huff.cost v) = some 12 ∧
    Spec.Huff.optCost (v.map (·.2)) = 12 ∧
    Spec.Huff.cost v [(0, [true]), (1, [false, true]), (2, [false, false, true]), (3, [false, false, false])] = 15 := by
  decide

end Tbx.Props.C20
