import Tbx.Spec.IdTree
import Tbx.Spec.HuffmanCode
namespace Tbx.Props.C20
open Tbx

/-- the judge's LCA checker is sound -/
theorem judge_isLCA_sound (a x y : Nat) (hx : x < 2 ^ 64) (hy : y < 2 ^ 64)
    (h : Spec.IdTree.isLCAB a x y = true) : Spec.IdTree.IsLCA a x y :=
  Spec.IdTree.isLCAB_sound a x y hx hy h

end Tbx.Props.C20
