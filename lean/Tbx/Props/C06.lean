import Tbx.Proofs.ChipperPar
import Tbx.Proofs.ChipperDisjoint
import Tbx.Proofs.ChipperStepC03
/-
C06 — chipper's output is independent of thread count and scheduling.

What is proved (about the model, for every bisection step satisfying `StepSpec` / `BoundMono`):

  jobs_disjoint      in every run — sequential or with arbitrary bound observations — the jobs of every level are
                     pairwise disjoint, their ids distinct and in range, and the ids a job writes (left ++ right
                     of its result) are distinct ids of that job: no two tasks of a level write the same slot
                     of `partition_ids`, and inside a task the two id loops touch different slots
  par_eq_seq         for EVERY assignment of admissible bound observations to the four axes of every job of
                     every level, `parChipper sched = chipper` (ids and job queues)
  observed_bounds_admissible   which C04 statement makes an observation admissible: every value the shared
                     location ever holds in the C04 model (`Tbx.Props.C04.reachable_inv`: fields `low` and
                     `hist_ge`; plus `bound ≤ B0` along the run), for all interleavings and stale loads
  min_by_leftmost    rayon's `min_by` = `reduce_with` over ANY reduction tree returns the same element as the
                     left fold in axis order: the leftmost minimum
  subStep_boundMono  the real step model obeys `BoundMono` (C03: `ok_flow_le_bound`, `ok_bound_irrelevant`,
                     `sub_step_total`), so `par_eq_seq_subStep` / `jobs_disjoint_subStep` carry no assumption
                     about the step

Not proved, sampled by the harness: the real rayon scheduler (work stealing, nested pools) and `UnsafeSlice`
under the hardware memory model.
-/
namespace Tbx.Props.C06
open Tbx Tbx.Chipper Tbx.InertialFlow

/-- Every queue of every level of a run with arbitrary bound observations: jobs pairwise disjoint (the Spec's
    checker `disjointAll` accepts them), ids of a job distinct and in range, and whatever an axis reports for a
    job is a duplicate-free list of ids of that job. -/
theorem jobs_disjoint (step : Step) (cfg : Cfg) (edges : List Chipper.Edge) (n : Nat)
    (hm : 1 ≤ cfg.m) (hn : 2 ≤ n) (hsrc : ∀ e ∈ edges, e.1 < n)
    (hsmall : 2 * edges.length + 6 < Tbx.Flow.INV) (hstep : StepSpec n step cfg.kOf)
    (sched : Nat → Nat → Job → Nat → Int)
    (out : Array Nat × List (List Job)) (h : parChipper step cfg sched edges n = some out) :
    ∀ q ∈ out.2,
      q.Pairwise Disj ∧ Tbx.Hierarchy.disjointAll (q.map (·.ids)) = true ∧
      ∀ job ∈ q, job.ids.Nodup ∧ (∀ x ∈ job.ids, x < n) ∧
        ∀ a β r, step job.edges job.ids a (cfg.kOf job.ids.length) β = .ok r →
          (r.left ++ r.right).Nodup ∧ ∀ x ∈ r.left ++ r.right, x ∈ job.ids := by
  intro q hq
  have hbest := bestPar_ok n step cfg.kOf hstep sched
  have hroot := root_queueOK edges n hn hsrc hsmall
  obtain ⟨_, hall⟩ := levels_trace_ok cfg _ n hm hbest cfg.r 0 (Array.replicate n 1) _ out (by simp) hroot h
  have hQ := hall q hq
  refine ⟨hQ.disj, queue_disjointAll hQ.disj, ?_⟩
  intro job hj
  have hjob := hQ.jobs job hj
  refine ⟨hjob.nodup, hjob.lt, ?_⟩
  intro a β r hr
  have := (hstep.res job a β r hjob hr).1
  exact ⟨this.nodup, this.sub⟩

/-- the sequential reference is the special case "every axis observes the initial bound" -/
theorem chipper_eq_par (step : Step) (cfg : Cfg) (edges : List Chipper.Edge) (n : Nat) :
    chipper step cfg edges n = parChipper step cfg (fun _ _ job _ => (job.ids.length : Int)) edges n := rfl

/-- For every assignment of admissible observations of the shared bound to the axes of every job of every
    level the concurrent run equals the sequential reference. -/
theorem par_eq_seq (step : Step) (cfg : Cfg) (edges : List Chipper.Edge) (n : Nat)
    (hm : 1 ≤ cfg.m) (hn : 2 ≤ n) (hsrc : ∀ e ∈ edges, e.1 < n)
    (hsmall : 2 * edges.length + 6 < Tbx.Flow.INV)
    (hstep : StepSpec n step cfg.kOf) (hmono : BoundMono n step cfg.kOf)
    (sched : Nat → Nat → Job → Nat → Int)
    (hadm : ∀ lvl idx job, JobOK n job → ObsAdmissible step (cfg.kOf job.ids.length) job (sched lvl idx job)) :
    parChipper step cfg sched edges n = chipper step cfg edges n := by
  unfold parChipper chipper runWith
  apply levels_congr cfg _ _ n hm (bestSeq_ok n step cfg.kOf hstep)
  · intro lvl idx job hjob
    exact bestPar_eq_bestSeq n step cfg.kOf hstep hmono job hjob _ (hadm lvl idx job hjob)
  · simp
  · exact root_queueOK edges n hn hsrc hsmall

/-- Which observations are admissible: if the four axes of a job are the four computations of the C04 model
    (`(P a).F` = the flow axis `a` reports under a sufficiently large bound, initial bound = the job's node
    count), every value the shared location holds at any point of ANY execution (any interleaving, loads
    arbitrarily stale) is an admissible observation. -/
theorem observed_bounds_admissible (step : Step) (k : Nat) (job : Job) (P : Fin 4 → Tbx.Bound.Proc)
    (hF : ∀ a (ha : a < 4), ∃ (β : Int) (r : FlowRes), 0 ≤ β ∧
      step job.edges job.ids a k β = .ok r ∧ r.flow = (P ⟨a, ha⟩).F)
    (obs : Nat → Int)
    (hobs : ∀ a, a < 4 → ∃ sched : List (Fin 4 × Int),
      obs a ∈ (Tbx.Bound.run P (Tbx.Bound.init (job.ids.length : Int)) sched).hist) :
    ObsAdmissible step k job obs := by
  intro a ha
  obtain ⟨sched, hv⟩ := hobs a ha
  obtain ⟨h1, h2⟩ := hist_admissible P (job.ids.length : Int) sched (obs a) hv
  refine ⟨h1, ?_⟩
  intro m hm hall
  apply h2 m hm
  intro i
  obtain ⟨β, r, hβ, hr, hfl⟩ := hF i.1 i.2
  have := hall i.1 i.2 β hβ r hr
  rw [hfl] at this
  exact this

/-- rayon's `min_by(flow_cmp)` is `reduce_with` of "keep the left unless the right is strictly better": over
    ANY reduction tree of the results (in axis order) it returns the element the left fold returns -/
theorem min_by_leftmost (t : RTree) (hpos : ∀ y ∈ t.flatten, 0 < balanceDen y) :
    minBy t.flatten = some t.reduce := t.reduce_eq hpos

/-! ### the real step model -/

/-- the real step model obeys `BoundMono` (C03: `ok_flow_le_bound`, `ok_bound_irrelevant`, `sub_step_total`) -/
theorem subStep_boundMono (coord : Nat → Coord) (n : Nat) (kOf : Nat → Nat)
    (hk : ∀ s, 2 ≤ s → 1 ≤ kOf s ∧ 2 * kOf s ≤ s) :
    BoundMono n (fun e ids a k β => subStep e ids coord a k β) kOf :=
  Tbx.Chipper.subStep_boundMono' coord n kOf hk

/-- `par_eq_seq` for the real step model: `StepSpec` and `BoundMono` are proved from C03, so no assumption
    about the step is left -/
theorem par_eq_seq_subStep (coord : Nat → Coord) (cfg : Cfg) (edges : List Chipper.Edge) (n : Nat)
    (hm : 1 ≤ cfg.m) (hn : 2 ≤ n) (hsrc : ∀ e ∈ edges, e.1 < n)
    (hsmall : 2 * edges.length + 6 < Tbx.Flow.INV)
    (hk : ∀ s, 2 ≤ s → 1 ≤ cfg.kOf s ∧ 2 * cfg.kOf s ≤ s)
    (sched : Nat → Nat → Job → Nat → Int)
    (hadm : ∀ lvl idx job, JobOK n job →
      ObsAdmissible (fun e ids a k β => subStep e ids coord a k β) (cfg.kOf job.ids.length) job (sched lvl idx job)) :
    parChipper (fun e ids a k β => subStep e ids coord a k β) cfg sched edges n =
      chipper (fun e ids a k β => subStep e ids coord a k β) cfg edges n :=
  par_eq_seq _ cfg edges n hm hn hsrc hsmall (subStep_stepSpec coord n cfg.kOf hk)
    (subStep_boundMono coord n cfg.kOf hk) sched hadm

/-- `jobs_disjoint` for the real step model (no assumption left beyond the input conditions) -/
theorem jobs_disjoint_subStep (coord : Nat → Coord) (cfg : Cfg) (edges : List Chipper.Edge) (n : Nat)
    (hm : 1 ≤ cfg.m) (hn : 2 ≤ n) (hsrc : ∀ e ∈ edges, e.1 < n)
    (hsmall : 2 * edges.length + 6 < Tbx.Flow.INV)
    (hk : ∀ s, 2 ≤ s → 1 ≤ cfg.kOf s ∧ 2 * cfg.kOf s ≤ s)
    (sched : Nat → Nat → Job → Nat → Int)
    (out : Array Nat × List (List Job))
    (h : parChipper (fun e ids a k β => subStep e ids coord a k β) cfg sched edges n = some out) :
    ∀ q ∈ out.2, q.Pairwise Disj ∧ Tbx.Hierarchy.disjointAll (q.map (·.ids)) = true :=
  fun q hq =>
    let r := jobs_disjoint _ cfg edges n hm hn hsrc hsmall (subStep_stepSpec coord n cfg.kOf hk) sched out h q hq
    ⟨r.1, r.2.1⟩

/-! ### non-vacuity -/

/-- splits off the first id of the cell (flow 0), whatever the bound -/
def toyStep : Step := fun _ ids _ _ _ =>
  match ids with
  | x :: y :: rest => .ok { flow := 0, left := [x], right := y :: rest }
  | _ => .panic

theorem toyStep_spec (n : Nat) (kOf : Nat → Nat) : StepSpec n toyStep kOf where
  res := by
    intro job a β r hjob h
    unfold toyStep at h
    split at h
    · rename_i x y rest hids
      cases h
      refine ⟨⟨?_, ?_, ?_⟩, by simp, by simp⟩
      · simpa [hids] using hjob.nodup
      · intro z hz; rw [hids]; simpa using hz
      · intro e he; have := hjob.src e he; rw [hids] at this; simpa using this
    · cases h

theorem toyStep_mono (n : Nat) (kOf : Nat → Nat) : BoundMono n toyStep kOf := by
  intro job hjob
  have h2 := hjob.two
  match hids : job.ids with
  | [] => rw [hids] at h2; simp at h2
  | [_] => rw [hids] at h2; simp at h2
  | x :: y :: rest =>
    refine ⟨fun _ => { flow := 0, left := [x], right := y :: rest }, ?_⟩
    intro a _
    refine ⟨Int.le_refl _, ?_⟩
    intro β hβ
    simp [toyStep, hβ]

/-- observing the bound after another axis has published flow 0 is admissible -/
theorem toy_obs_admissible (k : Nat) (job : Job) (h2 : 2 ≤ job.ids.length) :
    ObsAdmissible toyStep k job (fun a => if a = 2 then 0 else (job.ids.length : Int)) := by
  intro a _
  match hids : job.ids with
  | [] => rw [hids] at h2; simp at h2
  | [_] => rw [hids] at h2; simp at h2
  | x :: y :: rest =>
    constructor
    · show (if a = 2 then (0 : Int) else _) ≤ _
      split
      · exact Int.natCast_nonneg _
      · exact Int.le_refl _
    · intro m hm hall
      have := hall 0 (by omega) 0 (Int.le_refl _) { flow := 0, left := [x], right := y :: rest }
        (by simp [toyStep])
      show m ≤ (if a = 2 then (0 : Int) else _)
      split
      · exact this
      · exact hm

def exCfg : Cfg := { r := 2, m := 1, kOf := fun _ => 1 }
def exEdges : List Chipper.Edge := [(0, 1), (1, 0), (1, 2), (2, 1), (2, 3), (3, 2)]

example : parChipper toyStep exCfg (fun _ _ job a => if a = 2 then 0 else (job.ids.length : Int)) exEdges 4 =
    chipper toyStep exCfg exEdges 4 :=
  par_eq_seq toyStep exCfg exEdges 4 (by decide) (by decide) (by decide) (by decide)
    (toyStep_spec 4 _) (toyStep_mono 4 _) _ (fun _ _ job hjob => toy_obs_admissible _ job hjob.two)

example : ((chipper toyStep exCfg exEdges 4).map fun o => o.2.map fun q => q.map (·.ids)) =
    some [[[0, 1, 2, 3]], [[1, 2, 3]]] := by decide

/-- a C04 execution in which computation 1 (flow 3) publishes before computation 0 loads: the value 3 that
    computation 0 then observes is in the history, hence admissible -/
example : (3 : Int) ∈ (Tbx.Bound.run (fun i : Fin 4 => if i = 1 then ⟨[], 3⟩ else ⟨[5], 5⟩)
    (Tbx.Bound.init 9) [(1, 9)]).hist := by
  simp [Tbx.Bound.run, Tbx.Bound.step, Tbx.Bound.init]

example : minBy (RTree.node (.node (.leaf ⟨2, [1], [2]⟩) (.leaf ⟨1, [1], [2, 3]⟩))
    (.node (.leaf ⟨1, [1, 2], [3]⟩) (.leaf ⟨1, [3], [1, 2]⟩))).flatten =
    some (RTree.node (.node (.leaf ⟨2, [1], [2]⟩) (.leaf ⟨1, [1], [2, 3]⟩))
    (.node (.leaf ⟨1, [1, 2], [3]⟩) (.leaf ⟨1, [3], [1, 2]⟩))).reduce := by decide

end Tbx.Props.C06
