import Tbx.Gen.Loops
import Tbx.Model.Fenwick
import Tbx.Props.GenTieFenwick
/-
Tie theorems: the loop-bearing functions of `src/fenwick.rs` as regenerated (statement by statement) into
`Tbx/Gen/Loops.lean` on every check run compute the same function as the hand model `Tbx/Model/Fenwick.lean`
that the property theorems speak about.

The generated loops call the bit trick `Tbx.Gen.fenwickLsb` where the model calls the recursive `lsb`; the two
agree on 64-bit words only, so every tie carries the explicit bound `f.tree.size ≤ 2 ^ 64` (any `Vec` satisfies
it).  No larger bound is needed: the down loops only shrink the index, and the up loop of `update` applies the
bit trick only to an index it has just tested to be `< tree.len()`.

The loop lemmas are stated for arbitrary `cond` / `body` functions characterised pointwise (`hc`, `hb`); at
the use sites the characterisations of the generated lambdas hold by `rfl` (plus the lsb tie), so nothing
depends on the names of the auxiliary matchers the generator's tuple-pattern lambdas elaborate to.
-/
namespace Tbx.Props.GenLoopsFenwick
open Tbx Tbx.Fenwick

theorem aget_eq_gt {α : Type} [Inhabited α] (a : Array α) (i : Nat) : Tbx.Gen.aget a i = Tbx.gt a i := rfl

theorem aset_eq_st {α : Type} (a : Array α) (i : Nat) (x : α) : Tbx.Gen.aset a i x = Tbx.st a i x := rfl

theorem genLsb_eq (n : Nat) (h : n < 2 ^ 64) : Tbx.Gen.fenwickLsb n = lsb n :=
  Tbx.Props.GenTieFenwick.fenwick_lsb_gen_spec n h

/-! ### the loops -/

/-- the `while index > stop { sum += tree[index]; index -= lsb(index) }` loop (state order of the
    generated code: `(sum, index)`) -/
theorem whileFuel_down {cond : Int × Nat → Bool} {body : Int × Nat → Int × Nat} (t : Array Int) (stop : Nat)
    (hc : ∀ s i, cond (s, i) = decide (i > stop))
    (hb : ∀ s i, i < 2 ^ 64 → body (s, i) = (s + gt t i, i - lsb i))
    (fuel index : Nat) (sum : Int) (hi : index < 2 ^ 64) :
    Tbx.Gen.whileFuel fuel cond body (sum, index)
      = ((downLoop t stop fuel index sum).2, (downLoop t stop fuel index sum).1) := by
  induction fuel generalizing index sum with
  | zero => simp only [Tbx.Gen.whileFuel, downLoop]
  | succ fuel ih =>
    simp only [Tbx.Gen.whileFuel, downLoop, hc]
    by_cases h : index > stop
    · have h' : (index - lsb index) < 2 ^ 64 := Nat.lt_of_le_of_lt (Nat.sub_le _ _) hi
      simp only [h, decide_true, if_true, hb sum index hi]
      exact ih _ _ h'
    · simp only [h, decide_false, if_false, Bool.false_eq_true]

/-- the accumulator of `downLoop` is additive -/
theorem downLoop_acc (t : Array Int) (stop fuel index : Nat) (sum : Int) :
    downLoop t stop fuel index sum
      = ((downLoop t stop fuel index 0).1, sum + (downLoop t stop fuel index 0).2) := by
  induction fuel generalizing index sum with
  | zero => simp [downLoop]
  | succ fuel ih =>
    simp only [downLoop]
    by_cases h : index > stop
    · simp only [h, if_true]
      rw [ih (index - lsb index) (sum + gt t index), ih (index - lsb index) (0 + gt t index)]
      simp only [Int.zero_add, Int.add_assoc]
    · simp [h]

/-- the second loop of `range`: `while i > stop { sum -= tree[i]; i -= lsb(i) }` -/
theorem whileFuel_downSub {cond : Int × Nat → Bool} {body : Int × Nat → Int × Nat} (t : Array Int) (stop : Nat)
    (hc : ∀ s i, cond (s, i) = decide (i > stop))
    (hb : ∀ s i, i < 2 ^ 64 → body (s, i) = (s - gt t i, i - lsb i))
    (fuel index : Nat) (c acc : Int) (hi : index < 2 ^ 64) :
    Tbx.Gen.whileFuel fuel cond body (c - acc, index)
      = (c - (downLoop t stop fuel index acc).2, (downLoop t stop fuel index acc).1) := by
  induction fuel generalizing index acc with
  | zero => simp only [Tbx.Gen.whileFuel, downLoop]
  | succ fuel ih =>
    simp only [Tbx.Gen.whileFuel, downLoop, hc]
    by_cases h : index > stop
    · have h' : (index - lsb index) < 2 ^ 64 := Nat.lt_of_le_of_lt (Nat.sub_le _ _) hi
      simp only [h, decide_true, if_true, hb (c - acc) index hi]
      rw [Int.sub_sub]
      exact ih _ _ h'
    · simp only [h, decide_false, if_false, Bool.false_eq_true]

/-- the `while index < tree.len() { tree[index] += value; index += lsb(index) }` loop of `update` -/
theorem whileFuel_up {cond : Array Int × Nat → Bool} {body : Array Int × Nat → Array Int × Nat} (value : Int)
    (hc : ∀ t i, cond (t, i) = decide (i < t.size))
    (hb : ∀ t i, i < 2 ^ 64 → body (t, i) = (st t i (gt t i + value), i + lsb i))
    (fuel index : Nat) (t : Array Int) (hsz : t.size ≤ 2 ^ 64) :
    (Tbx.Gen.whileFuel fuel cond body (t, index)).1 = upLoop value fuel index t := by
  induction fuel generalizing index t with
  | zero => simp only [Tbx.Gen.whileFuel, upLoop]
  | succ fuel ih =>
    simp only [Tbx.Gen.whileFuel, upLoop, hc]
    by_cases h : index < t.size
    · have hi : index < 2 ^ 64 := Nat.lt_of_lt_of_le h hsz
      simp only [h, decide_true, if_true, hb t index hi]
      exact ih _ _ (by rw [size_st]; exact hsz)
    · simp only [h, decide_false, if_false, Bool.false_eq_true]

/-- the `while step > 0` loop of `select` (state order of the generated code: `(value, index, step)`) -/
theorem whileFuel_sel {cond : Int × Nat × Nat → Bool} {body : Int × Nat × Nat → Int × Nat × Nat}
    (t : Array Int)
    (hc : ∀ v i s, cond (v, i, s) = decide (s > 0))
    (hb : ∀ v i s, body (v, i, s)
        = if (decide (i + s < t.size) && decide (gt t (i + s) ≤ v)) then (v - gt t (i + s), i + s, s / 2)
          else (v, i, s / 2))
    (fuel index step : Nat) (value : Int) :
    (Tbx.Gen.whileFuel fuel cond body (value, index, step)).2.1 = selLoop t fuel index step value := by
  induction fuel generalizing index step value with
  | zero => simp only [Tbx.Gen.whileFuel, selLoop]
  | succ fuel ih =>
    simp only [Tbx.Gen.whileFuel, selLoop, hc]
    by_cases h : step > 0
    · simp only [h, decide_true, if_true, hb]
      by_cases h2 : index + step < t.size ∧ gt t (index + step) ≤ value
      · simp only [h2, decide_true, Bool.and_self, if_true, and_self]
        exact ih _ _ _
      · have : (decide (index + step < t.size) && decide (gt t (index + step) ≤ value)) = false := by
          rcases Classical.not_and_iff_not_or_not.mp h2 with h3 | h3 <;> simp [h3]
        simp only [this, h2, if_false, Bool.false_eq_true]
        exact ih _ _ _
    · simp only [h, decide_false, if_false, Bool.false_eq_true]

/-! ### `prev_power_of_two` -/

theorem gen_prevPow2_eq_model (n : Nat) (h : n < 2 ^ 64) :
    Tbx.Gen.Loops.prevPow2 n = Tbx.Fenwick.prevPow2 n := by
  unfold Tbx.Gen.Loops.prevPow2 Tbx.Fenwick.prevPow2 Tbx.Gen.leadingZeros64
  by_cases h0 : n = 0
  · simp only [h0, if_true]
  · simp only [h0, if_false]
    have hl : n.log2 < 64 := (Nat.log2_lt h0).mpr h
    have e : 64 - (63 - n.log2) - 1 = n.log2 := by omega
    rw [e, Nat.one_shiftLeft]

example : Tbx.Gen.Loops.prevPow2 1000 = 512 ∧ Tbx.Fenwick.prevPow2 1000 = 512 :=
  ⟨by rw [gen_prevPow2_eq_model 1000 (by decide)]; decide, by decide⟩

/-! ### headline ties -/

/-- `Fenwick::rank` as regenerated from the source is the model's `rank` (both `none` out of range) -/
theorem gen_rank_eq_model (f : Tbx.Fenwick.FW) (index : Nat) (hsz : f.tree.size ≤ 2 ^ 64) :
    Tbx.Gen.Loops.fenwickRank f.tree index = Tbx.Fenwick.rank f index := by
  unfold Tbx.Gen.Loops.fenwickRank Tbx.Fenwick.rank Tbx.Fenwick.len
  by_cases h : index ≥ f.tree.size - 1
  · simp only [h, decide_true, if_true]
  · have hi : index + 1 < 2 ^ 64 := by omega
    simp only [h, decide_false, if_false, Bool.false_eq_true]
    rw [whileFuel_down f.tree 0 (fun _ _ => rfl)
      (fun s i hi => by rw [← genLsb_eq i hi]; rfl) (index + 1) (index + 1) 0 hi]

example : Tbx.Gen.Loops.fenwickRank #[0, 3, 4, 5, 13, 7] 3 = some 13 := by
  rw [gen_rank_eq_model ⟨#[0, 3, 4, 5, 13, 7]⟩ 3 (by decide)]
  simp [Tbx.Fenwick.rank, len, downLoop, lsb, gt]
example : Tbx.Gen.Loops.fenwickRank #[0, 3, 4, 5, 13, 7] 3 = some 13
    ∧ Tbx.Gen.Loops.fenwickRank #[0, 3, 4, 5, 13, 7] 5 = none := by decide

/-- `Fenwick::update` as regenerated from the source is the model's `update`: same `Err` domain, same tree -/
theorem gen_update_eq_model (f : Tbx.Fenwick.FW) (index : Nat) (value : Int) (hsz : f.tree.size ≤ 2 ^ 64) :
    Tbx.Fenwick.update f index value
      = (match Tbx.Gen.Loops.fenwickUpdate f.tree index value with
         | (some (), t) => some ⟨t⟩
         | (none, _) => none) := by
  unfold Tbx.Gen.Loops.fenwickUpdate Tbx.Fenwick.update Tbx.Fenwick.len
  by_cases h : index ≥ f.tree.size - 1
  · simp only [h, decide_true, if_true]
  · simp only [h, decide_false, if_false, Bool.false_eq_true]
    generalize hw : Tbx.Gen.whileFuel _ _ _ _ = w
    have key : w.1 = upLoop value f.tree.size (index + 1) f.tree := by
      rw [← hw]
      exact whileFuel_up value (fun _ _ => rfl)
        (fun t i hi => by rw [← genLsb_eq i hi]; rfl) _ _ _ hsz
    obtain ⟨t, i⟩ := w
    simp only at key
    simp only [key]

/-- the same, componentwise -/
theorem gen_update_components (f : Tbx.Fenwick.FW) (index : Nat) (value : Int) (hsz : f.tree.size ≤ 2 ^ 64) :
    ((Tbx.Gen.Loops.fenwickUpdate f.tree index value).1 = none ↔ Tbx.Fenwick.update f index value = none)
    ∧ (∀ f', Tbx.Fenwick.update f index value = some f' →
        (Tbx.Gen.Loops.fenwickUpdate f.tree index value) = (some (), f'.tree)) := by
  rw [gen_update_eq_model f index value hsz]
  rcases Tbx.Gen.Loops.fenwickUpdate f.tree index value with ⟨_ | ⟨⟨⟩⟩, t⟩
  · simp
  · simp only [reduceCtorEq, Option.some.injEq]
    refine ⟨by simp, ?_⟩
    intro f' hf; rw [← hf]

example : Tbx.Gen.Loops.fenwickUpdate #[0, 3, 4, 5, 13, 7] 1 10 = (some (), #[0, 3, 14, 5, 23, 7]) := by
  have h : Tbx.Fenwick.update ⟨#[0, 3, 4, 5, 13, 7]⟩ 1 10 = some ⟨#[0, 3, 14, 5, 23, 7]⟩ := by
    simp [Tbx.Fenwick.update, len, upLoop, lsb, gt, st]
  exact (gen_update_components ⟨#[0, 3, 4, 5, 13, 7]⟩ 1 10 (by decide)).2 _ h
example : Tbx.Gen.Loops.fenwickUpdate #[0, 3, 4, 5, 13, 7] 1 10 = (some (), #[0, 3, 14, 5, 23, 7])
    ∧ Tbx.Gen.Loops.fenwickUpdate #[0, 3, 4, 5, 13, 7] 5 10 = (none, #[0, 3, 4, 5, 13, 7]) := by decide

/-- `Fenwick::range` as regenerated from the source returns the model's value wherever the model does not
    report the out-of-bounds read `tree[j + 1]` -/
theorem gen_range_eq_model (f : Tbx.Fenwick.FW) (i j : Nat) (r : Int) (hsz : f.tree.size ≤ 2 ^ 64)
    (hr : Tbx.Fenwick.range f i j = some r) :
    Tbx.Gen.Loops.fenwickRange f.tree i j = r := by
  unfold Tbx.Fenwick.range at hr
  unfold Tbx.Gen.Loops.fenwickRange
  by_cases h : i ≥ j
  · simp only [h, if_true, Option.some.injEq] at hr
    simp only [h, decide_true, if_true, hr]
  · simp only [h, if_false] at hr
    by_cases h2 : j + 1 ≥ f.tree.size
    · simp only [h2, if_true, reduceCtorEq] at hr
    · simp only [h2, if_false, Option.some.injEq] at hr
      have hj : j + 1 < 2 ^ 64 := by omega
      have hi : i + 1 < 2 ^ 64 := by omega
      simp only [h, decide_false, if_false, Bool.false_eq_true]
      rw [whileFuel_down f.tree i (fun _ _ => rfl)
        (fun s i hi => by rw [← genLsb_eq i hi]; rfl) (j + 1) (j + 1) 0 hj]
      simp only []
      rw [← Int.sub_zero (downLoop f.tree i (j + 1) (j + 1) 0).2]
      rw [whileFuel_downSub f.tree (downLoop f.tree i (j + 1) (j + 1) 0).1 (fun _ _ => rfl)
        (fun s i hi => by rw [← genLsb_eq i hi]; rfl) (i + 1) (i + 1) _ 0 hi]
      simpa using hr

example : Tbx.Gen.Loops.fenwickRange #[0, 3, 4, 5, 13, 7] 1 3 = 9 :=
  gen_range_eq_model ⟨#[0, 3, 4, 5, 13, 7]⟩ 1 3 9 (by decide)
    (by simp [Tbx.Fenwick.range, downLoop, lsb, gt])
example : Tbx.Gen.Loops.fenwickRange #[0, 3, 4, 5, 13, 7] 1 3 = 9 := by decide

/-- `Fenwick::select` as regenerated from the source is the model's `select` -/
theorem gen_select_eq_model (f : Tbx.Fenwick.FW) (value : Int) (hsz : f.tree.size ≤ 2 ^ 64) :
    Tbx.Gen.Loops.fenwickSelect f.tree value = Tbx.Fenwick.select f value := by
  unfold Tbx.Gen.Loops.fenwickSelect Tbx.Fenwick.select Tbx.Fenwick.len
  rw [gen_prevPow2_eq_model (f.tree.size - 1) (by omega)]
  simp only []
  generalize hw : Tbx.Gen.whileFuel _ _ _ _ = w
  have key : w.2.1
      = selLoop f.tree (Tbx.Fenwick.prevPow2 (f.tree.size - 1) + 1) 0
          (Tbx.Fenwick.prevPow2 (f.tree.size - 1)) value := by
    rw [← hw]
    exact whileFuel_sel f.tree (fun _ _ _ => rfl)
      (fun v i s => by
        show (if _ then (_, _, s >>> 1) else (_, _, s >>> 1)) = _
        rw [Nat.shiftRight_eq_div_pow]; rfl) _ _ _ _
  obtain ⟨v, i, s⟩ := w
  simp only at key
  subst key
  simp only [beq_iff_eq]

example : Tbx.Gen.Loops.fenwickSelect #[0, 3, 4, 5, 13, 7] 12 = some 2 := by
  rw [gen_select_eq_model ⟨#[0, 3, 4, 5, 13, 7]⟩ 12 (by decide)]; decide
example : Tbx.Gen.Loops.fenwickSelect #[0, 3, 4, 5, 13, 7] 12 = some 2
    ∧ Tbx.Gen.Loops.fenwickSelect #[0, 3, 4, 5, 13, 7] 2 = none := by decide

end Tbx.Props.GenLoopsFenwick
