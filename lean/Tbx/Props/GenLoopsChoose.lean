import Tbx.Gen.Loops
import Tbx.Model.Choose
import Tbx.Model.Enumerative
import Tbx.Props.C20
/-
Tie theorems: the definitions `Tbx.Gen.Loops.choose` / `Tbx.Gen.Loops.decodeU64`, regenerated from /repo's
`math::choose` and `enumerative_source_coding::decode_u64` on every check run, compute the same function as the
hand models `Tbx.Choose.choose` / `Tbx.Enumerative.decodeU64` wherever the hand model does not report a panic
(`none`).  The C20 theorems about the hand models are then restated for the generated functions.
-/
namespace Tbx.Props.GenLoopsChoose
open Tbx

/-! ### `choose` -/

/-- the hand model's fuelled loop, when it does not overflow, is the generated `foldl` over `range'` -/
theorem loop_eq_foldl (lim n cnt i res r : Nat) (h : Choose.loop lim n cnt i res = some r) :
    (List.range' i cnt).foldl (fun result_3 i_4 => (result_3 * ((n - i_4) + (1 : Nat))) / i_4) res = r := by
  induction cnt generalizing i res with
  | zero =>
    simp only [Choose.loop] at h
    simpa using Option.some.inj h
  | succ cnt ih =>
    simp only [Choose.loop] at h
    split at h
    · have := ih (i + 1) _ h
      simpa only [List.range'_succ, List.foldl_cons, Choose.prod] using this
    · cases h

/-- 1. where the hand model of `math::choose` does not panic, the generated function returns its value -/
theorem gen_choose_eq_model (n k r : Nat) : Tbx.Choose.choose n k = some r → Tbx.Gen.Loops.choose n k = r := by
  intro h
  unfold Tbx.Choose.choose at h
  unfold Tbx.Gen.Loops.choose
  by_cases h1 : k > n
  · simp only [h1, if_true, decide_true] at h ⊢
    exact Option.some.inj h
  · simp only [h1, if_false, decide_false] at h ⊢
    by_cases h2 : (k == 0 || k == n) = true
    · simp only [h2, if_true] at h ⊢
      exact Option.some.inj h
    · simp only [h2, Bool.false_eq_true, if_false] at h ⊢
      cases hl : Choose.loop Choose.U128 n (Choose.reduceK n k) 1 1 with
      | none => rw [hl] at h; cases h
      | some v =>
        rw [hl] at h
        have hv := loop_eq_foldl _ _ _ _ _ _ hl
        simp only [Choose.reduceK] at hv
        have h := Option.some.inj h
        simp only [Nat.add_sub_cancel, decide_eq_true_eq]
        rw [hv, ← h]
        rfl

example : Tbx.Gen.Loops.choose 37 17 = 15905368710 :=
  gen_choose_eq_model 37 17 15905368710 (by decide +kernel)

/-- 2. for n ≤ 64 the generated `choose` is the binomial coefficient -/
theorem gen_choose_binomial (n k : Nat) (h : n ≤ 64) : Tbx.Gen.Loops.choose n k = Nat.choose n k := by
  have hc := Tbx.Props.C20.choose_eq n k h
  rw [← hc.2.1]
  exact gen_choose_eq_model n k _ hc.1

example : Tbx.Gen.Loops.choose 64 32 = Nat.choose 64 32 := gen_choose_binomial 64 32 (by decide)

/-- …and it fits the `u64` the Rust returns -/
theorem gen_choose_lt (n k : Nat) (h : n ≤ 64) : Tbx.Gen.Loops.choose n k < 2 ^ 64 := by
  have hc := Tbx.Props.C20.choose_eq n k h
  rw [gen_choose_eq_model n k _ hc.1]
  exact hc.2.2

example : Tbx.Gen.Loops.choose 64 32 < 2 ^ 64 := gen_choose_lt 64 32 (by decide)

/-! ### `decode_u64` -/

/-- the body of the generated `for bit in (0..64).rev()` loop (verbatim from Loops.lean) -/
def decodeBody : Nat × Nat × Nat → Nat → Nat × Nat × Nat :=
  (fun (ordinal_2, result_3, ones_4) bit_5 =>
      let n_ck_9 : Nat := (Tbx.Gen.Loops.choose bit_5 ones_4)
      if (decide (ordinal_2 ≥ n_ck_9)) then
        let ordinal_10 : Nat := (ordinal_2 - n_ck_9)
        let result_11 : Nat := (result_3 ||| ((1 : Nat) <<< bit_5))
        let ones_12 : Nat := (ones_4 - (1 : Nat))
        (ordinal_10, result_11, ones_12)
      else
        (ordinal_2, result_3, ones_4))

theorem gen_decodeU64_unfold (ones ord : Nat) :
    Tbx.Gen.Loops.decodeU64 ones ord =
      ((List.range' 0 64).reverse.foldl decodeBody (ord, 0, ones)).2.1 := by
  unfold Tbx.Gen.Loops.decodeU64 decodeBody
  dsimp only

/-- the hand model's loop over `bit = b-1, …, 0`, when it does not panic, is the generated fold -/
theorem decodeLoop_eq_foldl (b ones ord res r : Nat) (h : Enumerative.decodeLoop b ones ord res = some r) :
    ((List.range' 0 b).reverse.foldl decodeBody (ord, res, ones)).2.1 = r := by
  induction b generalizing ones ord res with
  | zero =>
    simp only [Enumerative.decodeLoop] at h
    simpa using Option.some.inj h
  | succ b ih =>
    rw [List.range'_concat, List.reverse_append, List.reverse_singleton, List.singleton_append, List.foldl_cons,
      Nat.zero_add, Nat.one_mul]
    unfold Enumerative.decodeLoop at h
    cases hc : Choose.choose b ones with
    | none => rw [hc] at h; cases h
    | some nck =>
      rw [hc] at h
      have hg : Tbx.Gen.Loops.choose b ones = nck := gen_choose_eq_model b ones nck hc
      simp only at h
      by_cases hge : ord ≥ nck
      · simp only [hge, if_true] at h
        by_cases h0 : ones = 0
        · simp only [h0, if_true] at h; cases h
        · simp only [h0, if_false] at h
          have := ih _ _ _ h
          simpa only [decodeBody, hg, hge, decide_true, if_true] using this
      · simp only [hge, if_false] at h
        have := ih _ _ _ h
        simpa only [decodeBody, hg, hge, decide_false, Bool.false_eq_true, if_false] using this

/-- 3. where the hand model of `decode_u64` does not panic, the generated function returns its value -/
theorem gen_decode_eq_model (ones ord r : Nat) :
    Tbx.Enumerative.decodeU64 ones ord = some r → Tbx.Gen.Loops.decodeU64 ones ord = r := by
  intro h
  rw [gen_decodeU64_unfold]
  unfold Tbx.Enumerative.decodeU64 at h
  cases hc : Choose.choose 64 ones with
  | none => rw [hc] at h; cases h
  | some c =>
    rw [hc] at h
    simp only at h
    by_cases hlt : ord < c
    · simp only [hlt, if_true] at h
      exact decodeLoop_eq_foldl 64 ones ord 0 r h
    · simp only [hlt, if_false] at h; cases h

example : Tbx.Gen.Loops.decodeU64 3 21 = 69 := gen_decode_eq_model 3 21 69 (by decide +kernel)

/-- 4. `decode_u64_unrank` of C20 for the generated function: for w ≤ 64 it maps the ordinals below C(64,w)
    strictly monotonically and bijectively onto the 64-bit words of weight w (inverse: `Spec.rank 64`) -/
theorem gen_decode_u64_unrank (w : Nat) (hw : w ≤ 64) :
    (∀ ord, ord < Nat.choose 64 w →
      Tbx.Gen.Loops.decodeU64 w ord < 2 ^ 64 ∧ Spec.popcount 64 (Tbx.Gen.Loops.decodeU64 w ord) = w ∧
        Spec.rank 64 (Tbx.Gen.Loops.decodeU64 w ord) = ord) ∧
    (∀ o1 o2, o1 < o2 → o2 < Nat.choose 64 w →
      Tbx.Gen.Loops.decodeU64 w o1 < Tbx.Gen.Loops.decodeU64 w o2) ∧
    (∀ x, x < 2 ^ 64 → Spec.popcount 64 x = w →
      Spec.rank 64 x < Nat.choose 64 w ∧ Tbx.Gen.Loops.decodeU64 w (Spec.rank 64 x) = x) := by
  have hb : Spec.binom 64 w = Nat.choose 64 w := (Tbx.Props.C20.choose_eq 64 w (by omega)).2.1
  obtain ⟨h1, h2, h3⟩ := Tbx.Props.C20.decode_u64_unrank w hw
  rw [hb] at h1 h2 h3
  refine ⟨?_, ?_, ?_⟩
  · intro ord ho
    obtain ⟨x, hx, hlt, hp, hr⟩ := h1 ord ho
    rw [gen_decode_eq_model w ord x hx]
    exact ⟨hlt, hp, hr⟩
  · intro o1 o2 h12 ho2
    obtain ⟨x1, hx1, _⟩ := h1 o1 (by omega)
    obtain ⟨x2, hx2, _⟩ := h1 o2 ho2
    rw [gen_decode_eq_model w o1 x1 hx1, gen_decode_eq_model w o2 x2 hx2]
    exact h2 o1 o2 x1 x2 h12 ho2 hx1 hx2
  · intro x hx hp
    obtain ⟨hr, hd⟩ := h3 x hx hp
    exact ⟨hr, gen_decode_eq_model w _ x hd⟩

example : (21 < Nat.choose 64 3) ∧ Tbx.Gen.Loops.decodeU64 3 21 = 69 ∧ Spec.popcount 64 69 = 3 ∧
    Spec.rank 64 69 = 21 := by
  refine ⟨by decide +kernel, gen_decode_eq_model 3 21 69 (by decide +kernel), by decide +kernel, by decide +kernel⟩

end Tbx.Props.GenLoopsChoose
