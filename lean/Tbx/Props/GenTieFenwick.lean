import Tbx.Gen.Fns
import Tbx.Model.Fenwick
import Tbx.Proofs.FenwickLsb
/-
C18: the bit trick `n & n.wrapping_neg()` of `Fenwick::largest_power_of_two_divisor`, regenerated from
/repo/src/fenwick.rs on every run, is the hand model's `lsbBits`, hence (by `Fenwick.lsbBits_eq`) the
largest power of two dividing n, which is what the Fenwick invariant is stated with.
-/
namespace Tbx.Props.GenTieFenwick

theorem fenwick_lsb_model_eq_gen (n : Nat) : Fenwick.lsbBits n = Tbx.Gen.fenwickLsb n := by
  simp only [Fenwick.lsbBits, Tbx.Gen.fenwickLsb]

theorem fenwick_lsb_gen_spec (n : Nat) (h : n < 2 ^ 64) : Tbx.Gen.fenwickLsb n = Fenwick.lsb n := by
  rw [← fenwick_lsb_model_eq_gen]; exact Fenwick.lsbBits_eq n h

example : Tbx.Gen.fenwickLsb 12 = 4 ∧ Tbx.Gen.fenwickLsb 40 = 8 := by decide

end Tbx.Props.GenTieFenwick
