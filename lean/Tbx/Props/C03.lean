import Tbx.Model.InertialFlow
import Tbx.Spec.Bisection
/-
C03 — one inertial-flow bisection step returns a valid, minimum, balanced cut (work in progress).
-/
namespace Tbx.Props.C03
open Tbx Tbx.InertialFlow

/-- **balance_eq**: the balance the step reports is the exact rational min(|L|,|R|)/(|L|+|R|) -/
theorem balance_eq (r : FlowRes) :
    balanceNum r = min r.left.length r.right.length ∧ balanceDen r = r.left.length + r.right.length :=
  ⟨rfl, rfl⟩

end Tbx.Props.C03
