import Tbx.Proofs.InertialFlowStep
import Tbx.Proofs.InertialFlowTotal
import Tbx.Proofs.InertialFlowSort
import Tbx.Props.C02
/-
C03 — one inertial-flow bisection step returns a valid, minimum, balanced cut.

Property theorems only (helpers: Proofs/BisectionCore, BisectionTheory, InertialFlowTable, InertialFlowSort,
InertialFlowStep).  Registered in Tbx/Audit/C03.lean.

Spec: `Tbx.Bisection.Valid edges sorted k flow left right` (Spec/Bisection.lean).  Subject: the executable
model `Tbx.InertialFlow.subStepSorted` / `subStep` of `inertial_flow::sub_step` (Model/InertialFlow.lean).
The theorems are proved RELATIVE TO the C01/C02 theorems about the Dinic model — which are proved
(`Tbx.Props.C02.dinic_assignment_canonical`, `Tbx.Flow.dfs_spec`, `Tbx.Flow.bfs_spec`), so nothing is left as a
hypothesis.  The quantifier of the property is `Bisection.preOK` (distinct ids, n ≥ 2, 1 ≤ k, 2k ≤ n, every
edge's source in the cell; targets may lie outside) plus `2·|edges| + 6 < usize::MAX`.
-/
namespace Tbx.Props.C03
open Tbx Tbx.Flow Tbx.FlowSpec Tbx.FlowTheory Tbx.InertialFlow Tbx.Bisection Tbx.BisectionCore
  Tbx.BisectionTheory

/-! ### a non-trivial instance used for non-vacuity

six nodes 0..5 in key order, k = 2: first end {0,1}, last end {4,5}; the contraction merges 0→2 and 1→2
into capacity 2, the minimum cut is the single edge 2→3, which touches neither contracted end; node 9 is
outside the cell (edge 2→9), node 7 too (edge 3→7) -/
def exEdges : List (Nat × Nat) :=
  [(0,1),(1,0),(0,2),(1,2),(2,1),(2,3),(3,2),(3,4),(4,3),(3,5),(4,5),(5,4),(2,9),(3,7)]
def exIds : List Nat := [0,1,2,3,4,5]
def exRes : FlowRes := { flow := 1, left := [0,1,2], right := [3,4,5] }

theorem ex_ok : subStepSorted exEdges exIds 2 1000 = .ok exRes := by decide +kernel
theorem ex_pre : preOK exEdges exIds 2 = true := by decide
theorem ex_sz : 2 * exEdges.length + 6 < INV := by decide

/-! ### the step as a whole -/

/-- **step_valid**: whenever the model of `sub_step` returns `Ok`, its result satisfies the whole
    statement of the property (disjoint, cover, ends, flow = #edges left→right, minimum, left minimal) -/
theorem step_valid (edges : List (Nat × Nat)) (sorted : List Nat) (k : Nat) (bound : Int)
    (hpre : preOK edges sorted k = true) (hsz : 2 * edges.length + 6 < INV) (r : FlowRes)
    (h : subStepSorted edges sorted k bound = .ok r) : Valid edges sorted k r.flow r.left r.right :=
  subStepSorted_valid edges sorted k bound hpre hsz r h

example : Valid exEdges exIds 2 1 [0,1,2] [3,4,5] := step_valid exEdges exIds 2 1000 ex_pre ex_sz exRes ex_ok

/-- **ends**: the first k ids in key order are in the left set, the last k in the right set -/
theorem ends (edges : List (Nat × Nat)) (sorted : List Nat) (k : Nat) (bound : Int)
    (hpre : preOK edges sorted k = true) (hsz : 2 * edges.length + 6 < INV) (r : FlowRes)
    (h : subStepSorted edges sorted k bound = .ok r) :
    (∀ x, x ∈ sorted.take k → x ∈ r.left) ∧ (∀ x, x ∈ sorted.drop (sorted.length - k) → x ∈ r.right) :=
  let v := step_valid edges sorted k bound hpre hsz r h
  ⟨v.endsL, v.endsR⟩

example : (∀ x, x ∈ exIds.take 2 → x ∈ exRes.left) := (ends exEdges exIds 2 1000 ex_pre ex_sz exRes ex_ok).1

/-- **partition**: left ∩ right = ∅ and left ∪ right = exactly the cell ids that were contracted or are
    touched by an edge -/
theorem partition (edges : List (Nat × Nat)) (sorted : List Nat) (k : Nat) (bound : Int)
    (hpre : preOK edges sorted k = true) (hsz : 2 * edges.length + 6 < INV) (r : FlowRes)
    (h : subStepSorted edges sorted k bound = .ok r) :
    (∀ x, x ∈ r.left → x ∉ r.right) ∧
    (∀ x, (x ∈ r.left ∨ x ∈ r.right) ↔
      (x ∈ sorted ∧ (x ∈ sorted.take k ∨ x ∈ sorted.drop (sorted.length - k) ∨ touched edges x = true))) :=
  let v := step_valid edges sorted k bound hpre hsz r h
  ⟨v.disjoint, v.cover⟩

example : ∀ x, x ∈ exRes.left → x ∉ exRes.right := (partition exEdges exIds 2 1000 ex_pre ex_sz exRes ex_ok).1

/-- **balance_eq**: the balance the step reports is the exact rational min(|L|,|R|) / (|L|+|R|); the
    f64 the code returns is compared by the judge with the correctly rounded quotient
    (`Bisection.balanceBits`) -/
theorem balance_eq (r : FlowRes) :
    balanceNum r = min r.left.length r.right.length ∧ balanceDen r = r.left.length + r.right.length :=
  ⟨rfl, rfl⟩

example : balanceNum exRes = 3 ∧ balanceDen exRes = 6 := by decide

/-- **renumber_inj**: after the renumbering loop the table maps exactly the first end to 0, exactly the last
    end to 1, every other bound id injectively into [2, current_id); it binds exactly the contracted ids
    and the end points of edges; and the edge list handed to `Dinic::from_edge_list` is the contracted
    cell graph of this renumbering (unit capacities, self-loops dropped) -/
theorem renumber_inj (edges : List (Nat × Nat)) (sorted : List Nat) (k : Nat)
    (hnd : sorted.Nodup) (hk : 2 * k ≤ sorted.length) :
    let p := prep edges sorted k
    (∀ x, p.table.find x = some 0 ↔ x ∈ sorted.take k) ∧
    (∀ x, p.table.find x = some 1 ↔ x ∈ sorted.drop (sorted.length - k)) ∧
    (∀ x q, p.table.find x = some q → q < p.curId) ∧
    (∀ x y q, 2 ≤ q → p.table.find x = some q → p.table.find y = some q → x = y) ∧
    (∀ y, p.table.containsKey y = true ↔
      (y ∈ sorted.take k ∨ y ∈ sorted.drop (sorted.length - k) ∨ touched edges y = true)) ∧
    p.edges.map toE = contractBy p.table.get edges ∧ p.curId ≤ 2 + 2 * edges.length := by
  intro p
  have hdisj := take_drop_disjoint sorted k hnd hk
  obtain ⟨tw, dom, _, hcur⟩ := prep_table edges sorted k hdisj
  exact ⟨tw.zero, tw.one, tw.lt, tw.inj, dom, prep_edges edges sorted k hdisj, hcur⟩

example : (prep exEdges exIds 2).curId = 6 ∧ (prep exEdges exIds 2).table.get 9 = 4 := by decide +kernel

/-- **flow_counts**: the reported flow equals the number of input edges leading from the left set to the
    right set — the property's sentence, literally.  Edges to nodes outside the cell never count: an
    outside node has no outgoing edge, so it lies on the source side of the minimum cut whenever a left
    node points to it (`BisectionCore.no_cut_to_outside`); hence the flow also equals the number of edges
    from the left set to cell nodes that are not in the left set -/
theorem flow_counts (edges : List (Nat × Nat)) (sorted : List Nat) (k : Nat) (bound : Int)
    (hpre : preOK edges sorted k = true) (hsz : 2 * edges.length + 6 < INV) (r : FlowRes)
    (h : subStepSorted edges sorted k bound = .ok r) :
    r.flow = (crossLR edges r.left r.right : Int) ∧
    r.flow = (crossCell edges sorted (fun x => r.left.contains x) : Int) := by
  have v := step_valid edges sorted k bound hpre hsz r h
  refine ⟨v.flowCounts, ?_⟩
  rw [v.flowCounts]
  congr 1
  unfold crossLR crossCell
  apply List.countP_congr
  intro e he
  simp only [Bool.and_eq_true, List.contains_iff_mem, Bool.not_eq_eq_eq_not, Bool.not_true]
  constructor
  · rintro ⟨a, b⟩
    refine ⟨⟨a, ((v.cover e.2).mp (Or.inr b)).1⟩, ?_⟩
    cases hc : r.left.contains e.2 with
    | false => rfl
    | true => exact absurd b (v.disjoint e.2 (by simpa using hc))
  · rintro ⟨⟨a, b⟩, c⟩
    refine ⟨a, ?_⟩
    have := (v.cover e.2).mpr ⟨b, Or.inr (Or.inr (touched_of_mem he).2)⟩
    rcases this with h' | h'
    · have : r.left.contains e.2 = true := by simpa using h'
      rw [this] at c; cases c
    · exact h'

example : (1 : Int) = (crossLR exEdges [0,1,2] [3,4,5] : Int) :=
  (flow_counts exEdges exIds 2 1000 ex_pre ex_sz exRes ex_ok).1

/-- **flow_minimal**: the reported flow is the minimum, over ALL sides `L` of the cell that contain the
    first end and avoid the last end, of the number of cell edges leaving `L` -/
theorem flow_minimal (edges : List (Nat × Nat)) (sorted : List Nat) (k : Nat) (bound : Int)
    (hpre : preOK edges sorted k = true) (hsz : 2 * edges.length + 6 < INV) (r : FlowRes)
    (h : subStepSorted edges sorted k bound = .ok r) (L : Nat → Bool)
    (hL0 : ∀ x, x ∈ sorted.take k → L x = true)
    (hL1 : ∀ x, x ∈ sorted.drop (sorted.length - k) → L x = false) :
    r.flow ≤ (crossCell edges sorted L : Int) :=
  (step_valid edges sorted k bound hpre hsz r h).minimal L hL0 hL1

/-- e.g. the side {0,1} alone has three leaving edges -/
example : (1 : Int) ≤ (crossCell exEdges exIds (fun x => x < 2) : Int) :=
  flow_minimal exEdges exIds 2 1000 ex_pre ex_sz exRes ex_ok (fun x => x < 2) (by decide) (by decide)

/-- **left_minimal**: every side that attains the minimum contains the reported left set -/
theorem left_minimal (edges : List (Nat × Nat)) (sorted : List Nat) (k : Nat) (bound : Int)
    (hpre : preOK edges sorted k = true) (hsz : 2 * edges.length + 6 < INV) (r : FlowRes)
    (h : subStepSorted edges sorted k bound = .ok r) (L : Nat → Bool)
    (hL0 : ∀ x, x ∈ sorted.take k → L x = true)
    (hL1 : ∀ x, x ∈ sorted.drop (sorted.length - k) → L x = false)
    (heq : (crossCell edges sorted L : Int) = r.flow) : ∀ x, x ∈ r.left → L x = true :=
  (step_valid edges sorted k bound hpre hsz r h).leftMinimal L hL0 hL1 heq

/-- the side {0,1,2} attains the minimum (one leaving edge), and indeed contains the left set -/
example : ∀ x, x ∈ exRes.left → decide (x < 3) = true :=
  left_minimal exEdges exIds 2 1000 ex_pre ex_sz exRes ex_ok (fun x => x < 3) (by decide) (by decide) (by decide)

/-! ### the shared upper bound (sequential semantics) -/

/-- **run_bounded_eq_run**: `run_with_upper_bound(b)` with `b` ≥ the final flow performs exactly the
    unbounded `run` and publishes the flow (`fetch_min`) -/
theorem run_bounded_eq_run (es : List Edge) (s t : Nat) (hnn : ∀ e, e ∈ es → 0 ≤ e.cap) (hst : s ≠ t)
    (hN : nNodes (es.map toE) + 2 < INV) (d : Dinic) (hd : Dinic.fromEdgeList es s t = some d)
    (fuel : Nat) (d' : Dinic) (h : d.run fuel = some d') (bound : Int) (hle : d'.maxFlow ≤ bound) :
    runBounded d fuel bound = some (d', min bound d'.maxFlow) :=
  runBounded_of_run es s t hnn hst hN d hd fuel d' h bound hle

example : ((Dinic.fromEdgeList Props.C02.d1Edges 0 4).bind fun d => (runBounded d 100 10).map (·.2)) = some 10 := by
  decide +kernel

/-- **run_bounded_cases**: a bounded run either aborts (`finished` stays false — `max_flow()` is `Err` —
    and the bound is untouched) or is the unbounded run, lowers the bound to the flow, and (for a
    non-negative bound) its flow does not exceed the bound -/
theorem run_bounded_cases (d : Dinic) (hf : d.finished = false) (fuel : Nat) (bound : Int) (d' : Dinic)
    (b' : Int) (h : runBounded d fuel bound = some (d', b')) :
    (d'.finished = false ∧ b' = bound) ∨
    (d'.finished = true ∧ d.run fuel = some d' ∧ b' = min bound d'.maxFlow ∧
      (0 ≤ bound → d'.maxFlow ≤ bound)) :=
  runBounded_spec d hf fuel bound d' b' h

/-- with bound 2 the run on D1's witness (flow 10) is aborted after the first phase -/
example : ((Dinic.fromEdgeList Props.C02.d1Edges 0 4).bind fun d => (runBounded d 100 2).map
    fun r => (r.1.finished, r.2)) = some (false, 2) := by decide +kernel

/-- coordinates for the example: node i at (lat, lon) = (10·i, 3·i), ids given in shuffled order -/
def exCoord : Nat → Coord := fun i => { lat := 10 * i, lon := 3 * i }
def exShuffled : List Nat := [3,0,5,1,4,2]
theorem ex_sub : subStep exEdges exShuffled exCoord 2 2 1000 = .ok exRes := by decide +kernel

/-- **ok_flow_le_bound**: `Ok` under a non-negative bound ⇒ the flow does not exceed it -/
theorem ok_flow_le_bound (edges : List (Nat × Nat)) (ids : List Nat) (coord : Nat → Coord) (axis k : Nat)
    (b : Int) (hb : 0 ≤ b) (r : FlowRes) (h : subStep edges ids coord axis k b = .ok r) : r.flow ≤ b :=
  subStepSorted_ok_le edges _ k b hb r h

example : exRes.flow ≤ 1000 := ok_flow_le_bound exEdges exShuffled exCoord 2 2 1000 (by decide) exRes ex_sub

/-- **ok_bound_irrelevant**: the result does not depend on the bound as long as the bound is at least the
    flow; the bound afterwards is min(bound, flow) -/
theorem ok_bound_irrelevant (edges : List (Nat × Nat)) (sorted : List Nat) (k : Nat)
    (hpre : preOK edges sorted k = true) (hsz : 2 * edges.length + 6 < INV) (b b' : Int) (r : FlowRes)
    (h : subStepSorted edges sorted k b = .ok r) (hle : r.flow ≤ b') :
    subStepSorted edges sorted k b' = .ok r ∧ boundAfter edges sorted k b' = min b' r.flow := by
  have := subStepSortedB_bound_irrelevant edges sorted k hpre hsz b b' r h hle
  unfold subStepSorted boundAfter
  rw [this]; exact ⟨rfl, rfl⟩

example : subStepSorted exEdges exIds 2 1 = .ok exRes :=
  (ok_bound_irrelevant exEdges exIds 2 ex_pre ex_sz 1000 1 exRes ex_ok (by decide)).1

/-- **aborted_flow_gt_bound**: if the step is aborted at bound `b`, then whatever it returns under
    another bound has a flow above `b` -/
theorem aborted_flow_gt_bound (edges : List (Nat × Nat)) (sorted : List Nat) (k : Nat)
    (hpre : preOK edges sorted k = true) (hsz : 2 * edges.length + 6 < INV) (b b' : Int) (r : FlowRes)
    (ha : subStepSorted edges sorted k b = .aborted) (h : subStepSorted edges sorted k b' = .ok r) :
    b < r.flow := by
  by_contra hn
  have := (ok_bound_irrelevant edges sorted k hpre hsz b' b r h (by omega)).1
  rw [ha] at this; cases this

example : subStepSorted exEdges exIds 2 0 = .aborted := by decide +kernel

/-! ### the sides as lists (what C05 builds on) -/

/-- **sides_nonempty** -/
theorem sides_nonempty (edges : List (Nat × Nat)) (ids : List Nat) (coord : Nat → Coord) (axis k : Nat)
    (b : Int) (r : FlowRes) (h : subStep edges ids coord axis k b = .ok r) : r.left ≠ [] ∧ r.right ≠ [] :=
  let s := subStepSorted_sides edges _ k b r h
  ⟨s.1, s.2.1⟩

example : exRes.left ≠ [] ∧ exRes.right ≠ [] := sides_nonempty exEdges exShuffled exCoord 2 2 1000 exRes ex_sub

/-- **sides_nodup_subset**: for distinct ids the two lists together are duplicate free and contain only
    ids of the cell -/
theorem sides_nodup_subset (edges : List (Nat × Nat)) (ids : List Nat) (coord : Nat → Coord) (axis k : Nat)
    (b : Int) (r : FlowRes) (hnd : ids.Nodup) (h : subStep edges ids coord axis k b = .ok r) :
    (r.left ++ r.right).Nodup ∧ ∀ x, x ∈ r.left ++ r.right → x ∈ ids := by
  obtain ⟨_, _, sl, sr, hd⟩ := subStepSorted_sides edges _ k b r h
  have hp := sortIds_perm ids coord axis
  have hnd' : (sortIds ids coord axis).Nodup := hp.nodup_iff.mpr hnd
  refine ⟨List.nodup_append.mpr ⟨sl.nodup hnd', sr.nodup hnd', ?_⟩, ?_⟩
  · intro x hx y hy hxy; subst hxy; exact hd x hx hy
  · intro x hx
    rcases List.mem_append.mp hx with h' | h'
    · exact hp.mem_iff.mp (sl.subset h')
    · exact hp.mem_iff.mp (sr.subset h')

example : (exRes.left ++ exRes.right).Nodup :=
  (sides_nodup_subset exEdges exShuffled exCoord 2 2 1000 exRes (by decide) ex_sub).1

/-- the quantifier of the property for `subStep`, from facts about the unsorted id list -/
theorem preOK_sortIds (edges : List (Nat × Nat)) (ids : List Nat) (coord : Nat → Coord) (axis k : Nat)
    (hnd : ids.Nodup) (hn : 2 ≤ ids.length) (hk1 : 1 ≤ k) (hk2 : 2 * k ≤ ids.length)
    (hsrc : ∀ e, e ∈ edges → e.1 ∈ ids) : preOK edges (sortIds ids coord axis) k = true := by
  have hp := sortIds_perm ids coord axis
  simp only [preOK, Bool.and_eq_true, decide_eq_true_eq, List.all_eq_true, List.contains_iff_mem]
  rw [hp.length_eq]
  exact ⟨⟨⟨⟨hp.nodup_iff.mpr hnd, hn⟩, hk1⟩, hk2⟩, fun e he => hp.mem_iff.mpr (hsrc e he)⟩

example : preOK exEdges (sortIds exShuffled exCoord 2) 2 = true :=
  preOK_sortIds exEdges exShuffled exCoord 2 2 (by decide) (by decide) (by decide) (by decide) (by decide)

/-- **sides_cover**: every cell id that is among the first/last k in key order or is an end point of an
    edge is in one of the two lists (and nothing else is) -/
theorem sides_cover (edges : List (Nat × Nat)) (ids : List Nat) (coord : Nat → Coord) (axis k : Nat)
    (b : Int) (r : FlowRes) (hnd : ids.Nodup) (hn : 2 ≤ ids.length) (hk1 : 1 ≤ k)
    (hk2 : 2 * k ≤ ids.length) (hsrc : ∀ e, e ∈ edges → e.1 ∈ ids) (hsz : 2 * edges.length + 6 < INV)
    (h : subStep edges ids coord axis k b = .ok r) :
    ∀ x, x ∈ r.left ++ r.right ↔
      (x ∈ ids ∧ (x ∈ (sortIds ids coord axis).take k ∨
        x ∈ (sortIds ids coord axis).drop (ids.length - k) ∨ touched edges x = true)) := by
  intro x
  have hp := sortIds_perm ids coord axis
  have v := step_valid edges _ k b (preOK_sortIds edges ids coord axis k hnd hn hk1 hk2 hsrc) hsz r h
  rw [List.mem_append, v.cover x, hp.mem_iff]
  unfold firstK lastK
  rw [hp.length_eq]

/-- node 2 is not contracted but touched by an edge: it is in one of the lists -/
example : 2 ∈ exRes.left ++ exRes.right :=
  (sides_cover exEdges exShuffled exCoord 2 2 1000 exRes (by decide) (by decide) (by decide) (by decide)
    (by decide) ex_sz ex_sub 2).mpr (by decide +kernel)

/-- **step_valid for `subStep`** (sort included) -/
theorem sub_step_valid (edges : List (Nat × Nat)) (ids : List Nat) (coord : Nat → Coord) (axis k : Nat)
    (b : Int) (r : FlowRes) (hnd : ids.Nodup) (hn : 2 ≤ ids.length) (hk1 : 1 ≤ k)
    (hk2 : 2 * k ≤ ids.length) (hsrc : ∀ e, e ∈ edges → e.1 ∈ ids) (hsz : 2 * edges.length + 6 < INV)
    (h : subStep edges ids coord axis k b = .ok r) :
    Valid edges (sortIds ids coord axis) k r.flow r.left r.right :=
  step_valid edges _ k b (preOK_sortIds edges ids coord axis k hnd hn hk1 hk2 hsrc) hsz r h

example : Valid exEdges (sortIds exShuffled exCoord 2) 2 1 [0,1,2] [3,4,5] :=
  sub_step_valid exEdges exShuffled exCoord 2 2 1000 exRes (by decide) (by decide) (by decide) (by decide)
    (by decide) ex_sz ex_sub

/-- **sort_unique**: `sort_unstable_by_key` may return any key-sorted permutation; when the keys of the
    ids are pairwise distinct there is only one, the list `sortIds` computes — so `subStep` is then THE
    result the Rust has to produce -/
theorem sort_unique (ids : List Nat) (coord : Nat → Coord) (axis : Nat) (l : List Nat)
    (hperm : l.Perm ids) (hsorted : l.Pairwise (fun a b => axisKey axis (coord a) ≤ axisKey axis (coord b)))
    (hdist : ∀ a b, a ∈ ids → b ∈ ids → axisKey axis (coord a) = axisKey axis (coord b) → a = b) :
    l = sortIds ids coord axis := by
  have hp := sortIds_perm ids coord axis
  exact sorted_perm_unique _ l _ (hperm.trans hp.symm)
    (fun a b ha hb => hdist a b (hperm.mem_iff.mp ha) (hperm.mem_iff.mp hb)) hsorted
    (sortIds_sorted ids coord axis)

example : [0,1,2,3,4,5] = sortIds exShuffled exCoord 2 :=
  sort_unique exShuffled exCoord 2 [0,1,2,3,4,5] (by decide) (by decide +kernel)
    (by
      intro a b ha hb h
      simp only [axisKey, exCoord] at h
      omega)
example : sortIds exShuffled exCoord 3 = [0,1,2,3,4,5] := by decide +kernel

/-! ### totality -/

/-- **step_total**: on the property's quantifier the model never reaches a panic branch and never runs out
    of fuel (`phaseFuel` = |flow-graph edges| + 2 suffices), whatever the bound; and there is ONE result
    `r`, `0 ≤ r.flow`, that the step returns for every bound ≥ r.flow, leaving min(bound, flow) in the
    shared bound.  From the total correctness of the Dinic model (C01/C02:
    `Tbx.Flow.solvers_return_canonical_cut`), lifted to the bounded phase loop -/
theorem step_total (edges : List (Nat × Nat)) (sorted : List Nat) (k : Nat)
    (hpre : preOK edges sorted k = true) (hsz : 2 * edges.length + 6 < INV) :
    (∀ b : Int, subStepSorted edges sorted k b ≠ .panic) ∧
    ∃ r : FlowRes, 0 ≤ r.flow ∧ ∀ b : Int, r.flow ≤ b →
      subStepSorted edges sorted k b = .ok r ∧ boundAfter edges sorted k b = min b r.flow :=
  subStepSorted_total edges sorted k hpre hsz

example : ∀ b : Int, subStepSorted exEdges exIds 2 b ≠ .panic := (step_total exEdges exIds 2 ex_pre ex_sz).1

/-- **sub_step_total** (the form C05/C06 use): for distinct ids, n ≥ 2, 1 ≤ k, 2k ≤ n, sources in the
    cell: some non-negative bound yields `Ok` with a non-negative flow, and no non-negative (indeed no)
    bound yields a panic -/
theorem sub_step_total (edges : List (Nat × Nat)) (ids : List Nat) (coord : Nat → Coord) (axis k : Nat)
    (hnd : ids.Nodup) (hn : 2 ≤ ids.length) (hk1 : 1 ≤ k) (hk2 : 2 * k ≤ ids.length)
    (hsrc : ∀ e, e ∈ edges → e.1 ∈ ids) (hsz : 2 * edges.length + 6 < INV) :
    (∃ (b : Int) (r : FlowRes), 0 ≤ b ∧ 0 ≤ r.flow ∧ subStep edges ids coord axis k b = .ok r) ∧
    (∀ b : Int, subStep edges ids coord axis k b ≠ .panic) := by
  obtain ⟨hnp, r, h0, hr⟩ := step_total edges (sortIds ids coord axis) k
    (preOK_sortIds edges ids coord axis k hnd hn hk1 hk2 hsrc) hsz
  exact ⟨⟨r.flow, r, h0, h0, (hr r.flow (Int.le_refl _)).1⟩, hnp⟩

example : ∃ (b : Int) (r : FlowRes), 0 ≤ b ∧ 0 ≤ r.flow ∧ subStep exEdges exShuffled exCoord 2 2 b = .ok r :=
  (sub_step_total exEdges exShuffled exCoord 2 2 (by decide) (by decide) (by decide) (by decide) (by decide)
    ex_sz).1

/-! ### the judge's checker -/

/-- **checker_sound**: whatever the judge's executable check accepts — on the REAL output of every
    executed case — satisfies the property's statement -/
theorem checker_sound (edges : List (Nat × Nat)) (sorted : List Nat) (k : Nat) (flow : ℤ)
    (left right : List Nat) (res : List E) (tree : List (Nat × Nat))
    (h : checkerOK edges sorted k flow left right res tree = true) :
    Valid edges sorted k flow left right :=
  BisectionTheory.checker_sound edges sorted k flow left right res tree h

/-- a residual graph of a maximum flow of the example's contracted graph, and a reachability tree -/
def exResidual : List E :=
  [(0,4,1),(1,5,2),(4,0,2),(4,5,0),(4,11,1),(5,1,1),(5,4,2),(5,9,1),(9,5,0),(11,4,0)]
def exTree : List (Nat × Nat) := [(0,4),(4,11)]
example : contract (firstK exIds 2) (lastK exIds 2) exEdges =
    [(0,4,1),(0,4,1),(4,0,1),(4,5,1),(5,4,1),(5,1,1),(1,5,1),(5,1,1),(4,11,1),(5,9,1)] := by decide +kernel
example : checkerOK exEdges exIds 2 1 [0,1,2] [3,4,5] exResidual exTree = true := by decide +kernel
/-- {0,1,2,3} is rejected: not a minimum cut; {0,1} with flow 3 is rejected: not the maximum flow -/
example : checkerOK exEdges exIds 2 1 [0,1,2,3] [4,5] exResidual exTree = false := by decide +kernel
example : checkerOK exEdges exIds 2 3 [0,1] [2,3,4,5] exResidual exTree = false := by decide +kernel

/-- **judge_check_eq**: the check the judge executes (`checkerFast`, tabulated capacities) is `checkerOK` -/
theorem judge_check_eq (edges : List (Nat × Nat)) (sorted : List Nat) (k : Nat) (flow : ℤ)
    (left right : List Nat) (res : List E) (tree : List (Nat × Nat)) :
    checkerFast edges sorted k flow left right res tree = checkerOK edges sorted k flow left right res tree :=
  checkerFast_eq edges sorted k flow left right res tree

example : checkerFast exEdges exIds 2 1 [0,1,2] [3,4,5] exResidual exTree = true := by decide +kernel

/-- **cut_cert_sound**: the certificate part alone (Finset level, same shape as C02's `minCutOK_sound`) -/
theorem cut_cert_sound (es : List E) (s t : Nat) (res : List E) (x : ℤ) (inA : Nat → Bool)
    (tree : List (Nat × Nat)) (h : cutCertOK es s t res x inA tree = true) :
    ∃ (hs : s < nNodes es) (ht : t < nNodes es),
      IsMaxFlowValue (cF es (nNodes es)) ⟨s, hs⟩ ⟨t, ht⟩ x ∧
      ⟨s, hs⟩ ∈ setOf (nNodes es) inA ∧ ⟨t, ht⟩ ∉ setOf (nNodes es) inA ∧
      cutCap (cF es (nNodes es)) (setOf (nNodes es) inA) = x ∧
      (∀ S' : Finset (Fin (nNodes es)), ⟨s, hs⟩ ∈ S' → ⟨t, ht⟩ ∉ S' →
        cutCap (cF es (nNodes es)) (setOf (nNodes es) inA) ≤ cutCap (cF es (nNodes es)) S') ∧
      (∀ S' : Finset (Fin (nNodes es)), ⟨s, hs⟩ ∈ S' → ⟨t, ht⟩ ∉ S' →
        cutCap (cF es (nNodes es)) S' = x → setOf (nNodes es) inA ⊆ S') :=
  cutCertOK_sound es s t res x inA tree h

/-- the example's certificate (the Finset-level facts then hold for the contracted graph) -/
theorem ex_cert : cutCertOK (contract (firstK exIds 2) (lastK exIds 2) exEdges) 0 1 exResidual 1
    (sideOf exEdges exIds 2 [0,1,2]) exTree = true := by decide +kernel
example : ∃ (hs : 0 < nNodes (contract (firstK exIds 2) (lastK exIds 2) exEdges))
    (ht : 1 < nNodes (contract (firstK exIds 2) (lastK exIds 2) exEdges)),
    IsMaxFlowValue (cF (contract (firstK exIds 2) (lastK exIds 2) exEdges)
      (nNodes (contract (firstK exIds 2) (lastK exIds 2) exEdges))) ⟨0, hs⟩ ⟨1, ht⟩ 1 :=
  let ⟨hs, ht, h, _⟩ := cut_cert_sound _ 0 1 exResidual 1 _ exTree ex_cert
  ⟨hs, ht, h⟩

/-- **judge_checker_eq**: the tabulated certificate check the judge executes is the reference one -/
theorem judge_checker_eq (es : List E) (s t : Nat) (res : List E) (x : ℤ) (inA : Nat → Bool)
    (tree : List (Nat × Nat)) : cutCertFast es s t res x inA tree = cutCertOK es s t res x inA tree :=
  cutCertFast_eq es s t res x inA tree

example : cutCertFast (contract (firstK exIds 2) (lastK exIds 2) exEdges) 0 1 exResidual 1
    (sideOf exEdges exIds 2 [0,1,2]) exTree = true := by rw [judge_checker_eq]; exact ex_cert

/-- two accepted outputs for the same cell are the same flow and the same left set: what the D-line
    comparison between code and model relies on -/
theorem accepted_agree (edges : List (Nat × Nat)) (sorted : List Nat) (k : Nat) (f1 f2 : ℤ)
    (l1 r1 l2 r2 : List Nat) (v1 : Valid edges sorted k f1 l1 r1) (v2 : Valid edges sorted k f2 l2 r2) :
    f1 = f2 ∧ (∀ x, x ∈ l1 ↔ x ∈ l2) ∧ (∀ x, x ∈ r1 ↔ x ∈ r2) := by
  -- the side "member of l" as a Boolean predicate
  have side : ∀ (f : ℤ) (l r : List Nat) (v : Valid edges sorted k f l r),
      (∀ x, x ∈ firstK sorted k → (l.contains x) = true) ∧
      (∀ x, x ∈ lastK sorted k → (l.contains x) = false) ∧
      (crossCell edges sorted (fun x => l.contains x) : ℤ) = f := by
    intro f l r v
    refine ⟨fun x hx => by simpa using v.endsL x hx, ?_, ?_⟩
    · intro x hx
      cases hc : l.contains x with
      | false => rfl
      | true => exact absurd (v.endsR x hx) (v.disjoint x (by simpa using hc))
    · rw [v.flowCounts]
      congr 1
      unfold crossLR crossCell
      apply List.countP_congr
      intro e he
      simp only [Bool.and_eq_true, List.contains_iff_mem, Bool.not_eq_eq_eq_not, Bool.not_true]
      constructor
      · rintro ⟨⟨a, b⟩, c⟩
        refine ⟨a, ?_⟩
        rcases (v.cover e.2).mpr ⟨b, Or.inr (Or.inr (touched_of_mem he).2)⟩ with h' | h'
        · have : l.contains e.2 = true := by simpa using h'
          rw [this] at c; cases c
        · exact h'
      · rintro ⟨a, b⟩
        refine ⟨⟨a, ((v.cover e.2).mp (Or.inr b)).1⟩, ?_⟩
        cases hc : l.contains e.2 with
        | false => rfl
        | true => exact absurd b (v.disjoint e.2 (by simpa using hc))
  obtain ⟨a1, b1, c1⟩ := side f1 l1 r1 v1
  obtain ⟨a2, b2, c2⟩ := side f2 l2 r2 v2
  have h12 := v1.minimal _ a2 b2
  have h21 := v2.minimal _ a1 b1
  rw [c2] at h12
  rw [c1] at h21
  have hf : f1 = f2 := by omega
  have hl : ∀ x, x ∈ l1 ↔ x ∈ l2 := by
    intro x
    constructor
    · intro hx; simpa using v1.leftMinimal _ a2 b2 (by rw [c2, hf]) x hx
    · intro hx; simpa using v2.leftMinimal _ a1 b1 (by rw [c1, hf]) x hx
  refine ⟨hf, hl, ?_⟩
  intro x
  have cov1 := v1.cover x
  have cov2 := v2.cover x
  constructor
  · intro hx
    rcases cov2.mpr (cov1.mp (Or.inr hx)) with h' | h'
    · exact absurd hx (v1.disjoint x ((hl x).mpr h'))
    · exact h'
  · intro hx
    rcases cov1.mpr (cov2.mp (Or.inr hx)) with h' | h'
    · exact absurd hx (v2.disjoint x ((hl x).mp h'))
    · exact h'

/-- the model's result and what the checker accepts for the example cell agree (they are both `Valid`) -/
example : (1 : ℤ) = 1 ∧ (∀ x, x ∈ exRes.left ↔ x ∈ [0,1,2]) ∧ (∀ x, x ∈ exRes.right ↔ x ∈ [3,4,5]) :=
  accepted_agree exEdges exIds 2 1 1 exRes.left exRes.right [0,1,2] [3,4,5]
    (step_valid exEdges exIds 2 1000 ex_pre ex_sz exRes ex_ok)
    (checker_sound exEdges exIds 2 1 [0,1,2] [3,4,5] exResidual exTree (by decide +kernel))

/-! ### defect D22 (fixed in /repo): cells whose flow graph is empty, nodes outside the flow graph

Before the fix `sub_step` handed the empty edge list to `Dinic::from_edge_list` (debug_assert / index panic)
and indexed the assignment with solver ids beyond the flow graph.  The model mirrors the fixed code; the
three witnesses of corpus/C03/d22-*.case: -/

/-- (a) two nodes, no edges: no solver runs (the constructor would refuse the list), flow 0 -/
example : (prep [] [0,1] 1).edges = [] ∧ Dinic.fromEdgeList (prep [] [0,1] 1).edges 0 1 = none ∧
    subStepSorted [] [0,1] 1 1000 = .ok { flow := 0, left := [0], right := [1] } ∧
    boundAfter [] [0,1] 1 1000 = 0 := by decide +kernel

/-- (b) all edges inside the two contracted ends, the middle node in neither set -/
example : subStepSorted [(0,1),(1,0),(3,4),(4,3)] [0,1,2,3,4] 2 1000 =
    .ok { flow := 0, left := [0,1], right := [3,4] } := by decide +kernel

/-- (c) node 1 has only a self-loop: solver id 2 lies outside the 2-node flow graph, it goes right -/
example : subStepSorted [(1,1),(0,2)] [0,1,2] 1 1000 = .ok { flow := 1, left := [0], right := [1,2] } := by
  decide +kernel
example : Valid [(1,1),(0,2)] [0,1,2] 1 1 [0] [1,2] :=
  step_valid [(1,1),(0,2)] [0,1,2] 1 1000 (by decide) (by decide) { flow := 1, left := [0], right := [1,2] }
    (by decide +kernel)

end Tbx.Props.C03
