import Tbx.Model.StaticGraph
import Tbx.Model.DynGraph
import Tbx.Spec.Adj
namespace Tbx.Props.C14
theorem judge_canon_sound (a b : List (Nat × Int)) : Adj.canon a = Adj.canon b ↔ a.Perm b :=
  Adj.canon_eq_iff_perm a b
end Tbx.Props.C14
