import Tbx.Model.StaticGraph
import Tbx.Model.DynGraph
import Tbx.Spec.Adj
import Tbx.Proofs.SGraphSpec
import Tbx.Proofs.DGraphRefine
/-
C14 — static and dynamic graphs represent exactly the edges they were given.

Property theorems only (helper lemmas live in Tbx/Proofs).  Registered in Tbx/Audit/C14.lean.
Models: Tbx.SG (src/static_graph.rs), Tbx.DG (src/dynamic_graph.rs).  Spec: Tbx.Adj
(number of nodes + edge multiset; adjacency lists up to `List.Perm`).

Not kernel-checkable and therefore only compared per case by the harness: that the f64 expression
`(edge_count as f64 * GROWTH_FACTOR) as usize` equals the integer `edge_count * num / den`
(the theorems hold for ANY growth length > edge_count: `reloc_makes_room`).
-/
namespace Tbx.Props.C14
open Tbx
open Tbx.SG (InEdge EEntry maxId toSpec SortedBySrc)

/-! ## the judge -/

/-- the judge's comparison of canonical (sorted) adjacency lists is exactly multiset equality -/
theorem judge_canon_sound (a b : List (Nat × Int)) : Adj.canon a = Adj.canon b ↔ a.Perm b :=
  Adj.canon_eq_iff_perm a b

/-- the judge's `find_edge` expectation is the Spec's `HasEdge` -/
theorem judge_hasEdge_sound (σ : Adj.S) (s t : Nat) : Adj.hasEdgeB σ s t = true ↔ Adj.HasEdge σ s t :=
  Adj.hasEdgeB_iff σ s t

/-- the judge's node count for a static graph is the largest id mentioned, plus one -/
theorem judge_maxId_sound (es : List Adj.Edge) (hne : es ≠ []) : Adj.IsMaxId es (Adj.maxIdOf es) :=
  SG.maxIdOf_isMaxId es hne

/-! ## static graph -/

/-- P0 `find_edge_exact`: on `StaticGraph::new(inp)`, `find_edge(s,t)` returns `Some e` only for an
    `e` of `edge_range(s)` with `target(e) = t` (the first such); it answers iff the input has an edge
    s→t; it is `None` (and `find_edge_unchecked` is `EdgeID::MAX`) for every `s ≥ number_of_nodes`
    (the D10 boundary); `find_edge_unchecked` is the same answer with MAX for `None`. -/
theorem find_edge_exact (inp : List InEdge) (s t : Nat) :
    (∀ e, SG.findEdge (SG.new inp) s t = some e →
        s < SG.numberOfNodes (SG.new inp) ∧ e ∈ SG.edgeRange (SG.new inp) s ∧ SG.target (SG.new inp) e = t ∧
        ∀ j ∈ SG.edgeRange (SG.new inp) s, j < e → SG.target (SG.new inp) j ≠ t) ∧
    ((SG.findEdge (SG.new inp) s t).isSome ↔ ∃ d, (⟨s, t, d⟩ : InEdge) ∈ inp) ∧
    (SG.numberOfNodes (SG.new inp) ≤ s →
        SG.findEdge (SG.new inp) s t = none ∧ SG.findEdgeUnchecked (SG.new inp) s t = maxId) ∧
    SG.findEdgeUnchecked (SG.new inp) s t = (SG.findEdge (SG.new inp) s t).getD maxId := by
  refine ⟨fun e h => SG.findEdge_some _ s t e h, ?_, ?_, SG.findEdgeUnchecked_eq _ s t⟩
  · rw [SG.new_eq, SG.nfsl_findEdge_isSome _ (SG.sorted_sortedBySrc inp)]
    constructor
    · rintro ⟨d, hd⟩; exact ⟨d, (SG.sorted_perm inp).mem_iff.mp hd⟩
    · rintro ⟨d, hd⟩; exact ⟨d, (SG.sorted_perm inp).mem_iff.mpr hd⟩
  · intro hs
    have h1 : SG.findEdge (SG.new inp) s t = none := (SG.findEdge_none _ s t).mpr (Or.inl hs)
    refine ⟨h1, ?_⟩
    rw [SG.findEdgeUnchecked_eq, h1]; rfl

/-- non-vacuity / D10 regression: on the 2-node graph of the corpus witness the fixed guard answers
    `None` for s = 2 = number_of_nodes, the legacy guard (`s > n`) indexes past the sentinel (panic) -/
example : SG.numberOfNodes (SG.newFromSortedList [⟨0, 1, 5⟩]) = 2 ∧
    SG.findEdge (SG.newFromSortedList [⟨0, 1, 5⟩]) 2 0 = none ∧
    SG.findEdge (SG.newFromSortedList [⟨0, 1, 5⟩]) 0 1 = some 0 ∧
    SG.legacyFindEdge (SG.newFromSortedList [⟨0, 1, 5⟩]) 2 0 = none ∧
    SG.legacyFindEdge (SG.newFromSortedList [⟨0, 1, 5⟩]) 3 0 = some none := by decide

/-- P1 `static_ranges` for `new_from_sorted_list`: for a list sorted by source (only), the graph has
    max id + 1 nodes, `edge_range(v)` read through `target`/`data` is EXACTLY the sublist of the input
    with source `v` (same order), the out-degree is its length, and nodes ≥ number_of_nodes have no
    input edges -/
theorem static_ranges_sorted (inp : List InEdge) (hs : SortedBySrc inp) :
    (inp ≠ [] → Adj.IsMaxId (toSpec inp) (SG.numberOfNodes (SG.newFromSortedList inp) - 1)) ∧
    SG.numberOfEdges (SG.newFromSortedList inp) = inp.length ∧
    (∀ v, v < SG.numberOfNodes (SG.newFromSortedList inp) →
        SG.adjList (SG.newFromSortedList inp) v = Adj.adjOf (toSpec inp) v ∧
        SG.outDegree (SG.newFromSortedList inp) v = (Adj.adjOf (toSpec inp) v).length) ∧
    (∀ v, SG.numberOfNodes (SG.newFromSortedList inp) ≤ v → Adj.adjOf (toSpec inp) v = []) := by
  refine ⟨?_, by simp [SG.numberOfEdges, SG.newFromSortedList], ?_, ?_⟩
  · intro hne
    rw [SG.nfsl_numberOfNodes inp hs, Nat.add_sub_cancel]
    exact SG.maxIdLoop_isMaxId inp inp (List.Perm.refl _) hne
  · intro v hv
    rw [SG.adjOf_toSpec]
    refine ⟨SG.nfsl_adjList inp hs v hv, ?_⟩
    rw [SG.nfsl_outDegree inp hs v hv]; simp
  · intro v hv
    rw [SG.nfsl_numberOfNodes inp hs] at hv
    rw [SG.adjOf_toSpec]
    have : inp.filter (fun e => e.src == v) = [] := by
      rw [List.filter_eq_nil_iff]
      intro x hx
      have := (SG.maxIdLoop_ge inp 0).2 x hx
      simp; omega
    rw [this]; rfl

/-- P1 `static_ranges`: for EVERY edge list (any order, duplicates, gaps), `StaticGraph::new` has
    max id + 1 nodes (the judge's `maxIdOf + 1`), all edges, and `edge_range(v)` lists exactly the
    (target,data) multiset of `v`'s input edges -/
theorem static_ranges (inp : List InEdge) (hne : inp ≠ []) :
    Adj.IsMaxId (toSpec inp) (SG.numberOfNodes (SG.new inp) - 1) ∧
    SG.numberOfNodes (SG.new inp) = Adj.maxIdOf (toSpec inp) + 1 ∧
    SG.numberOfEdges (SG.new inp) = inp.length ∧
    (∀ v, v < SG.numberOfNodes (SG.new inp) →
        (SG.adjList (SG.new inp) v).Perm (Adj.adjOf (toSpec inp) v) ∧
        SG.outDegree (SG.new inp) v = (Adj.adjOf (toSpec inp) v).length) ∧
    (∀ v, SG.numberOfNodes (SG.new inp) ≤ v → Adj.adjOf (toSpec inp) v = []) := by
  have hp := SG.sorted_perm inp
  have hs := SG.sorted_sortedBySrc inp
  have hnn : SG.numberOfNodes (SG.new inp) = SG.maxIdLoop (SG.sorted inp) 0 + 1 := SG.nfsl_numberOfNodes _ hs
  have hmax : Adj.IsMaxId (toSpec inp) (SG.maxIdLoop (SG.sorted inp) 0) := SG.maxIdLoop_isMaxId inp _ hp hne
  have hperm : ∀ v, (Adj.adjOf (toSpec (SG.sorted inp)) v).Perm (Adj.adjOf (toSpec inp) v) := by
    intro v; rw [SG.adjOf_toSpec, SG.adjOf_toSpec]; exact (hp.filter _).map _
  have hne' : toSpec inp ≠ [] := by
    intro h; apply hne; simpa [toSpec] using h
  obtain ⟨_, h2, h3, h4⟩ := static_ranges_sorted (SG.sorted inp) hs
  refine ⟨?_, ?_, ?_, ?_, ?_⟩
  · rw [hnn, Nat.add_sub_cancel]; exact hmax
  · rw [hnn, SG.isMaxId_unique _ _ _ hmax (SG.maxIdOf_isMaxId _ hne')]
  · rw [SG.new_eq, h2, hp.length_eq]
  · intro v hv
    have := h3 v hv
    refine ⟨?_, ?_⟩
    · rw [SG.new_eq, this.1]; exact hperm v
    · rw [SG.new_eq, this.2]; exact (hperm v).length_eq
  · intro v hv
    exact ((hperm v).symm.trans (List.Perm.of_eq (h4 v hv))).eq_nil

/-- non-vacuity: an unsorted list with a gap (node 1) and a duplicate; sorted it reads back per node -/
example : SortedBySrc [⟨0, 1, 3⟩, ⟨0, 2, 5⟩, ⟨0, 2, 5⟩, ⟨2, 0, 7⟩] ∧
    SG.adjList (SG.newFromSortedList [⟨0, 1, 3⟩, ⟨0, 2, 5⟩, ⟨0, 2, 5⟩, ⟨2, 0, 7⟩]) 0 = [(1, 3), (2, 5), (2, 5)] ∧
    SG.adjList (SG.newFromSortedList [⟨0, 1, 3⟩, ⟨0, 2, 5⟩, ⟨0, 2, 5⟩, ⟨2, 0, 7⟩]) 1 = [] ∧
    SG.adjList (SG.newFromSortedList [⟨0, 1, 3⟩, ⟨0, 2, 5⟩, ⟨0, 2, 5⟩, ⟨2, 0, 7⟩]) 2 = [(0, 7)] ∧
    SG.numberOfNodes (SG.newFromSortedList [⟨0, 1, 3⟩, ⟨0, 2, 5⟩, ⟨0, 2, 5⟩, ⟨2, 0, 7⟩]) = 3 := by
  refine ⟨by unfold SortedBySrc; decide, by decide, by decide, by decide, by decide⟩

/-- data written through an edge id of a static graph is read back; targets and other data are untouched -/
theorem static_data_mut_read_back (g : SG.Graph) (e : Nat) (d : Int) (he : e < g.edges.size) :
    SG.data (SG.setData g e d) e = d ∧ (∀ x, SG.target (SG.setData g e d) x = SG.target g x) ∧
    (∀ x, x ≠ e → SG.data (SG.setData g e d) x = SG.data g x) ∧ (SG.setData g e d).nodes = g.nodes := by
  refine ⟨?_, ?_, ?_, rfl⟩
  · simp [SG.data, SG.setData, gt_st_eq _ _ _ he]
  · intro x
    simp only [SG.target, SG.setData]
    by_cases c : e = x
    · subst c; rw [gt_st_eq _ _ _ he]
    · rw [gt_st_ne _ _ _ _ c]
  · intro x hx
    simp only [SG.data, SG.setData]
    rw [gt_st_ne _ _ _ _ (fun h => hx h.symm)]

/-! ## dynamic graph: the representation invariant -/

/-- what `DG.Inv` says, in the words of the property: slices of nodes with count > 0 are pairwise
    disjoint intervals inside the edge array; a slot is non-spare (target ≠ usize::MAX) iff it belongs
    to a slice, and then to exactly one; number_of_edges is the sum of the counts; the node array has
    two (empty) entries past the last node -/
theorem dyn_inv_meaning (g : DG.Graph) (h : DG.Inv g) :
    (∀ u v, u ≠ v → (gt g.nodes u).count > 0 → (gt g.nodes v).count > 0 →
        (gt g.nodes u).first + (gt g.nodes u).count ≤ (gt g.nodes v).first ∨
        (gt g.nodes v).first + (gt g.nodes v).count ≤ (gt g.nodes u).first) ∧
    (∀ e, e < g.edges.size → ((gt g.edges e).tgt ≠ maxId ↔ ∃ v, v < g.numNodes ∧ DG.owns g v e)) ∧
    (∀ e u v, DG.owns g u e → DG.owns g v e → u = v) ∧
    (∀ v, v < g.nodes.size → (gt g.nodes v).first + (gt g.nodes v).count ≤ g.edges.size) ∧
    g.numEdges = DG.sumCounts g.nodes g.numNodes ∧ g.nodes.size = g.numNodes + 2 := by
  refine ⟨?_, ?_, fun e u v h1 h2 => h.disj u v e h1 h2, h.bound, h.edges, h.size⟩
  · intro u v hne hu hv
    rcases Nat.lt_or_ge (gt g.nodes u).first (gt g.nodes v).first with c | c
    · -- the last slot of u's slice would otherwise be in v's slice
      rcases Nat.lt_or_ge (gt g.nodes v).first ((gt g.nodes u).first + (gt g.nodes u).count) with c2 | c2
      · exfalso
        exact hne (h.disj u v (gt g.nodes v).first ⟨by omega, c2⟩ ⟨Nat.le_refl _, by omega⟩)
      · left; exact c2
    · rcases Nat.lt_or_ge (gt g.nodes u).first ((gt g.nodes v).first + (gt g.nodes v).count) with c2 | c2
      · exfalso
        exact hne (h.disj u v (gt g.nodes u).first ⟨Nat.le_refl _, by omega⟩ ⟨c, c2⟩)
      · right; exact c2
  · intro e he
    constructor
    · exact h.spare e he
    · rintro ⟨v, _, ho⟩; exact h.used v e ho

/-- the constructor establishes the invariant and represents its input (ids below `n`) -/
theorem dyn_refines_new (n : Nat) (inp : List InEdge) (hn : n ≤ maxId)
    (hids : Adj.idsBelow n (toSpec inp) = true) : DG.Refines (DG.new n inp) (Adj.init n (toSpec inp)) :=
  DG.refines_new n inp hn hids

/-- `Default::default()` is the empty graph (D19 fixed) -/
theorem dyn_refines_default : DG.Refines DG.dflt (Adj.init 0 []) := by
  have h := DG.refines_new 0 [] (by decide) rfl
  have e : DG.new 0 [] = DG.dflt := by
    simp [DG.new, DG.newFromSortedList, DG.offsetsLoop, DG.dflt]
  rw [e] at h; exact h

/-- D19 regression: on the legacy `Default` (empty node array) `insert_node` and `find_edge` panic -/
example : DG.insertNode DG.legacyDflt = none ∧ DG.findEdge DG.legacyDflt 0 0 = none ∧
    DG.insertEdge DG.legacyDflt 0 1 5 = none ∧
    (DG.insertNode DG.dflt).isSome ∧ DG.findEdge DG.dflt 0 0 = some none := by decide

/-- `insert_edge` (right spare, left spare, relocation) never panics under the invariant, preserves
    it, creates the nodes up to its endpoints and appends (t,d) to s's adjacency multiset only -/
theorem dyn_inv_insert_edge (g : DG.Graph) (s t : Nat) (d : Int) (hI : DG.Inv g) (ht : t ≠ maxId) :
    ∃ g', DG.insertEdge g s t d = some g' ∧ DG.Inv g' ∧ g'.numNodes = max g.numNodes (max s t + 1) ∧
      g'.numEdges = g.numEdges + 1 ∧ (DG.adjM g' s).Perm (DG.adjM g s ++ [(t, d)]) ∧
      (∀ v, v ≠ s → DG.adjM g' v = DG.adjM g v) :=
  DG.insertEdge_inv g s t d hI ht

/-- the three branches separately (what `insert_edge` does before writing the new entry): the
    invariant is preserved, the slot one past s's slice is in bounds and spare, s's adjacency is
    permuted at most, every other node's adjacency is unchanged -/
theorem dyn_inv_place_slice (g g3 : DG.Graph) (s : Nat) (d : Int) (hI : DG.Inv g) (hs : s < g.numNodes)
    (h : DG.placeSlice g s d = some g3) :
    DG.Inv g3 ∧ g3.numNodes = g.numNodes ∧ g3.numEdges = g.numEdges ∧
    (gt g3.nodes s).first + (gt g3.nodes s).count < g3.edges.size ∧
    (gt g3.edges ((gt g3.nodes s).first + (gt g3.nodes s).count)).tgt = maxId ∧
    (DG.adjM g3 s).Perm (DG.adjM g s) ∧ (∀ v, v ≠ s → DG.adjM g3 v = DG.adjM g v) :=
  DG.placeSlice_inv g g3 s d hI hs h

/-- regenerated obligation: the relocated slice has room for the old edges and the new one
    (GROWTH_FACTOR's literal, re-read from /repo on every run, is at least 1) -/
theorem reloc_makes_room (c : Nat) : c < DG.growLen c := DG.growLen_gt c

/-- STATED, NOT PROVED (floating point is outside the kernel's reach): the Rust's f64 growth
    computation equals the integer expression used by the model for every count below 2^50.  The
    driver evaluates both on every relocation (statistic `fmis`, expected 0) and the harness compares
    the raw slice positions per case (F lines). -/
def growth_float_statement : Prop :=
  ∀ c : Nat, c < 2 ^ 50 → DG.growLenFloat c = DG.growLen c

/-- `remove_edge(s, e)` for an edge id of s's slice never panics, preserves the invariant, removes
    exactly (target e, data e) from s's adjacency multiset and decrements number_of_edges -/
theorem dyn_inv_remove_edge (g : DG.Graph) (s e : Nat) (hI : DG.Inv g) (hs : s < g.numNodes) (ho : DG.owns g s e) :
    ∃ g', DG.removeEdge g s e = some g' ∧ DG.Inv g' ∧ g'.numNodes = g.numNodes ∧ g'.numEdges + 1 = g.numEdges ∧
      (DG.adjM g s).Perm ((DG.target g e, DG.data g e) :: DG.adjM g' s) ∧ (∀ v, v ≠ s → DG.adjM g' v = DG.adjM g v) :=
  DG.removeEdge_inv g s e hI hs ho

/-- `insert_node` never panics under the invariant, preserves it, adds one node without edges -/
theorem dyn_inv_insert_node (g : DG.Graph) (hI : DG.Inv g) :
    ∃ g', DG.insertNode g = some g' ∧ DG.Inv g' ∧ g'.numNodes = g.numNodes + 1 ∧ g'.numEdges = g.numEdges ∧
      (∀ v, DG.adjM g' v = DG.adjM g v) := by
  obtain ⟨g', hg'⟩ := Option.isSome_iff_exists.mp (DG.insertNode_isSome g hI)
  obtain ⟨h1, h2, h3, _, _, h6⟩ := DG.insertNode_inv g g' hI hg'
  exact ⟨g', hg', h1, h2, h3, h6⟩

/-- data written through an edge id is read back from it; the invariant, all targets and every other
    node's adjacency are untouched; in s's adjacency (target e, old data) is replaced by (target e, d') -/
theorem dyn_data_mut_read_back (g : DG.Graph) (s e : Nat) (d' : Int) (hI : DG.Inv g) (hs : s < g.numNodes)
    (ho : DG.owns g s e) :
    DG.Inv (DG.setData g e d') ∧ DG.data (DG.setData g e d') e = d' ∧
    (∀ x, DG.target (DG.setData g e d') x = DG.target g x) ∧
    ((DG.target g e, DG.data g e) :: DG.adjM (DG.setData g e d') s).Perm ((DG.target g e, d') :: DG.adjM g s) ∧
    (∀ v, v ≠ s → DG.adjM (DG.setData g e d') v = DG.adjM g v) := by
  obtain ⟨h1, _, _, h4, h5, h6, h7⟩ := DG.setData_inv g s e d' hI hs ho
  exact ⟨h1, h4, h5, h6, h7⟩

/-! ## dynamic graph: refinement of the adjacency-multiset Spec -/

/-- `dyn_refines`, one operation: from a state that represents `σ`, every in-domain operation
    succeeds (no panic) and leads to a state that represents the Spec's result -/
theorem dyn_refines (g : DG.Graph) (σ : Adj.S) (o : DG.DOp) (h : DG.Refines g σ) (hok : DG.okOp g o) :
    ∃ g', DG.stepM g o = some g' ∧ DG.Refines g' (DG.stepS g σ o) :=
  DG.step_refines g σ o h hok

/-- `dyn_refines`, whole histories: for every sequence of insert_edge / insert_node / remove_edge /
    data_mut operations whose edge ids are valid when used, the model never panics and its final
    state represents the net effect computed by the Spec -/
theorem dyn_refines_history (ops : List DG.DOp) (g : DG.Graph) (σ : Adj.S) (h : DG.Refines g σ)
    (hv : DG.ValidHistory g ops) :
    ∃ g', DG.runM g ops = some g' ∧ DG.Refines g' (DG.runS g σ ops) :=
  DG.history_refines ops g σ h hv

/-- an edge the Spec knows is found by scanning `edge_range(s)` for its (target,data): this is how
    the harness turns `rem s t d` / `setd s t d d2` into an edge id, so histories that are valid for
    the Spec are valid for the model -/
theorem dyn_pick_edge (g : DG.Graph) (σ : Adj.S) (h : DG.Refines g σ) (s t : Nat) (d : Int)
    (hm : (⟨s, t, d⟩ : Adj.Edge) ∈ σ.es) :
    s < g.numNodes ∧ ∃ e, DG.owns g s e ∧ e ∈ DG.edgeRange g s ∧ DG.target g e = t ∧ DG.data g e = d := by
  have h1 : (t, d) ∈ DG.adjM g s := (h.adj s).mem_iff.mpr ((DG.mem_adjOf σ.es s t d).mpr hm)
  obtain ⟨hs, e, ho, hp⟩ := DG.owns_of_mem_adjM g s _ h1
  exact ⟨hs, e, ho, List.mem_range'_1.mpr ho, congrArg Prod.fst hp, congrArg Prod.snd hp⟩

/-- what the `Graph` trait shows of a state representing `σ`: node and edge counts are exact, the
    out-degree is the number of σ's edges at the node, `edge_range` read through `target`/`data` is σ's
    adjacency multiset, and there are no edges at ids ≥ number_of_nodes -/
theorem dyn_observers (g : DG.Graph) (σ : Adj.S) (h : DG.Refines g σ) :
    DG.numberOfNodes g = Adj.numNodes σ ∧ DG.numberOfEdges g = Adj.numEdges σ ∧
    (∀ v, v < g.numNodes → DG.outDegree g v = Adj.degree σ v ∧ (DG.adjList g v).Perm (Adj.adjOf σ.es v)) ∧
    (∀ v, g.numNodes ≤ v → Adj.adjOf σ.es v = []) :=
  DG.refines_observers g σ h

/-- `find_edge` on the dynamic graph never panics, answers iff σ has an edge s→t (so: `None` for every
    s ≥ number_of_nodes although the guard is `s > n`), and a returned id lies in s's slice with target t -/
theorem dyn_find_edge_exact (g : DG.Graph) (σ : Adj.S) (h : DG.Refines g σ) (s t : Nat) :
    ∃ r, DG.findEdge g s t = some r ∧ (r.isSome ↔ Adj.HasEdge σ s t) ∧ (g.numNodes ≤ s → r = none) ∧
      (∀ e, r = some e → DG.owns g s e ∧ DG.target g e = t) :=
  DG.refines_findEdge g σ h s t

/-- non-vacuity for the dynamic theorems: the packed 3-node graph of the corpus satisfies the
    hypotheses (`Refines`, hence `Inv`; slot 1 is owned by node 1), and the history
    "insert 0→2 (relocation), insert 1→0 (left spare), remove slot of 2→0, insert 2→1 (hole reuse)"
    runs without panic and ends in a 5-edge graph -/
example : DG.Refines (DG.new 3 [⟨0, 1, 1⟩, ⟨1, 2, 2⟩, ⟨2, 0, 3⟩]) (Adj.init 3 (toSpec [⟨0, 1, 1⟩, ⟨1, 2, 2⟩, ⟨2, 0, 3⟩])) :=
  dyn_refines_new 3 _ (by decide) (by decide)

/-- `new_from_sorted_list` on a list sorted by source with sources below `n`: invariant, and the
    adjacency of every node is exactly (same order) the sublist of its input edges -/
theorem dyn_new_sorted (n : Nat) (inp : List InEdge) (hs : SortedBySrc inp)
    (hsrc : ∀ x ∈ inp, x.src < n) (htgt : ∀ x ∈ inp, x.tgt ≠ maxId) :
    DG.Inv (DG.newFromSortedList n inp) ∧
    ∀ v, DG.adjM (DG.newFromSortedList n inp) v = Adj.adjOf (toSpec inp) v := by
  have h := DG.nfsl_inv n inp hs hsrc htgt
  refine ⟨h.1, fun v => ?_⟩
  rw [h.2 v, SG.adjOf_toSpec]

/-- non-vacuity: the packed graph satisfies `Inv`; slot 1 is owned by node 1; inserting at node 0
    takes the relocation branch; a two-step history (relocating insert, then insert_node) is valid -/
example : DG.Inv (DG.newFromSortedList 3 [⟨0, 1, 1⟩, ⟨1, 2, 2⟩, ⟨2, 0, 3⟩]) :=
  (dyn_new_sorted 3 _ (by unfold SortedBySrc; decide) (by decide) (by decide)).1

example : DG.owns (DG.newFromSortedList 3 [⟨0, 1, 1⟩, ⟨1, 2, 2⟩, ⟨2, 0, 3⟩]) 1 1 ∧
    DG.placeBranch (DG.newFromSortedList 3 [⟨0, 1, 1⟩, ⟨1, 2, 2⟩, ⟨2, 0, 3⟩]) 0 = 2 := by
  unfold DG.owns; decide

example : DG.ValidHistory (DG.newFromSortedList 3 [⟨0, 1, 1⟩, ⟨1, 2, 2⟩, ⟨2, 0, 3⟩]) [.ins 0 2 4, .node] :=
  ⟨by show (2 : Nat) ≠ maxId; decide, fun _ _ => ⟨trivial, fun _ _ => trivial⟩⟩

example : ((DG.runM (DG.newFromSortedList 3 [⟨0, 1, 1⟩, ⟨1, 2, 2⟩, ⟨2, 0, 3⟩])
      [.ins 0 2 4, .ins 1 0 5, .rem 2 2, .ins 2 1 6]).map fun g => (g.numEdges, DG.adjList g 0, DG.adjList g 1, DG.adjList g 2))
    = some (5, [(1, 1), (2, 4)], [(2, 2), (0, 5)], [(1, 6)]) := by decide

end Tbx.Props.C14
